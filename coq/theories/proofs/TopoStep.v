(* TopoStep.v — `Topo` (spec/Topo.v) as an invariant of the asynchronous steps of typed
   configurations whose bodies are affine (proofs/TopoLin.v).
   Part 1: a rewriting principle — a step removes a few objects X and adds a few objects Y; Topo is
   preserved when Y provides / refers to what X did (or to fresh channels), the new objects are
   pairwise disjoint, nothing is left dangling, and a rank exists. *)
From stdpp Require Import gmap strings.
Require Import Grits.Base Grits.ModeDefs Grits.Modes Grits.STypes Grits.Forms Grits.Subst Grits.TcDeps Grits.Expand
               Grits.Runtime Grits.RuntimeFootprint Grits.spec.RtTyping Grits.spec.Topo.

Definition rank_ok (c : config) (rk : cid -> nat) (M : nat) : Prop :=
  (forall k, is_Some (chans c !! k) -> (rk k <= M)%nat) /\
  forall o k j, obj_in c o -> k ∈ provides o -> j ∈ refs o -> (rk k < rk j)%nat.

Section Rewrite.
Variables (c c' : config) (X Y : list obj) (fresh : cid -> Prop).
Hypothesis Ht : Topo c.
Hypothesis HX : forall o, o ∈ X -> obj_in c o.
Hypothesis HXdec : forall o, obj_in c o -> o ∈ X \/ o ∉ X.
Hypothesis Hin' : forall o', obj_in c' o' -> (obj_in c o' /\ o' ∉ X) \/ o' ∈ Y.
Hypothesis Hkeep : forall o, obj_in c o -> o ∉ X -> obj_in c' o.
Hypothesis HY : forall o', o' ∈ Y -> obj_in c' o'.
Hypothesis Hprov : forall o' k, o' ∈ Y -> k ∈ provides o' -> (exists o, o ∈ X /\ k ∈ provides o) \/ fresh k.
Hypothesis Hrefs : forall o' k, o' ∈ Y -> k ∈ refs o' -> (exists o, o ∈ X /\ k ∈ refs o) \/ fresh k.
Hypothesis HYp : forall o1 o2 k, o1 ∈ Y -> o2 ∈ Y -> k ∈ provides o1 -> k ∈ provides o2 -> o1 = o2.
Hypothesis HYr : forall o1 o2 k, o1 ∈ Y -> o2 ∈ Y -> k ∈ refs o1 -> k ∈ refs o2 -> o1 = o2.
Hypothesis Hfresh : forall k o, fresh k -> obj_in c o -> k ∉ provides o /\ k ∉ refs o.
Hypothesis Hfresh_new : forall k, fresh k -> chans c !! k = None.
Hypothesis Hdang : forall o k, o ∈ X -> k ∈ provides o ->
  (exists o', o' ∈ Y /\ k ∈ provides o') \/
  ((forall o2, obj_in c o2 -> k ∈ refs o2 -> o2 ∈ X) /\ forall o', o' ∈ Y -> k ∉ refs o').
Hypothesis Hfreshprov : forall o' k, o' ∈ Y -> k ∈ refs o' -> fresh k -> exists o'', o'' ∈ Y /\ k ∈ provides o''.
Hypothesis Hclosed : forall k st', chans c' !! k = Some st' -> ch_closed st' = true ->
  (exists st, chans c !! k = Some st /\ ch_closed st = true /\ ch_buf st' = ch_buf st) \/
  (ch_buf st' = None /\ forall o', obj_in c' o' -> k ∉ provides o' /\ k ∉ refs o').
Hypothesis Hrank : forall rk M, rank_ok c rk M -> exists rk' M', rank_ok c' rk' M'.

Theorem topo_rewrite : Topo c'.
Proof.
  split.
  - intros o1 o2 k H1 H2 Hk1 Hk2.
    destruct (Hin' _ H1) as [[Ho1 Hn1]|Hy1], (Hin' _ H2) as [[Ho2 Hn2]|Hy2].
    + eapply (topo_prov_unique c Ht); eauto.
    + exfalso. destruct (Hprov _ _ Hy2 Hk2) as [(o & Hox & Hko)|Hf].
      * assert (o1 = o) by (eapply (topo_prov_unique c Ht); eauto). subst. contradiction.
      * by destruct (Hfresh _ _ Hf Ho1).
    + exfalso. destruct (Hprov _ _ Hy1 Hk1) as [(o & Hox & Hko)|Hf].
      * assert (o2 = o) by (eapply (topo_prov_unique c Ht); eauto). subst. contradiction.
      * by destruct (Hfresh _ _ Hf Ho2).
    + eapply HYp; eauto.
  - intros o1 o2 k H1 H2 Hk1 Hk2.
    destruct (Hin' _ H1) as [[Ho1 Hn1]|Hy1], (Hin' _ H2) as [[Ho2 Hn2]|Hy2].
    + eapply (topo_ref_unique c Ht); eauto.
    + exfalso. destruct (Hrefs _ _ Hy2 Hk2) as [(o & Hox & Hko)|Hf].
      * assert (o1 = o) by (eapply (topo_ref_unique c Ht); eauto). subst. contradiction.
      * by destruct (Hfresh _ _ Hf Ho1).
    + exfalso. destruct (Hrefs _ _ Hy1 Hk1) as [(o & Hox & Hko)|Hf].
      * assert (o2 = o) by (eapply (topo_ref_unique c Ht); eauto). subst. contradiction.
      * by destruct (Hfresh _ _ Hf Ho2).
    + eapply HYr; eauto.
  - intros o' k Ho' Hk.
    assert (Hvia : forall o0, obj_in c o0 -> k ∈ refs o0 ->
              (exists o'', obj_in c' o'' /\ k ∈ provides o'') \/
              ((forall o2, obj_in c o2 -> k ∈ refs o2 -> o2 ∈ X) /\ forall o'', o'' ∈ Y -> k ∉ refs o'')).
    { intros o0 Ho0 Hk0. destruct (topo_ref_prov c Ht o0 k Ho0 Hk0) as (p & Hp & Hkp).
      destruct (HXdec p Hp) as [Hpx|Hpx].
      - destruct (Hdang _ _ Hpx Hkp) as [(o'' & Hy'' & Hk'')|H]; [left; eauto|right; exact H].
      - left. exists p. split; [by apply Hkeep|done]. }
    destruct (Hin' _ Ho') as [[Ho Hn]|Hy].
    + destruct (Hvia _ Ho Hk) as [H|[Hx2 _]]; [exact H|].
      exfalso. apply Hn. by apply Hx2.
    + destruct (Hrefs _ _ Hy Hk) as [(o & Hox & Hko)|Hf].
      * destruct (Hvia _ (HX _ Hox) Hko) as [H|[_ Hno]]; [exact H|]. exfalso. exact (Hno _ Hy Hk).
      * destruct (Hfreshprov _ _ Hy Hk Hf) as (o'' & Hy'' & Hk''). exists o''. split; [by apply HY|done].
  - intros k st' Hk Hcl. destruct (Hclosed k st' Hk Hcl) as [(st & Hst & Hclst & Hb)|[Hb Hno]]; [|by split].
    destruct (topo_closed c Ht k st Hst Hclst) as [Hbn Hno]. split; [congruence|].
    intros o' Ho'. destruct (Hin' _ Ho') as [[Ho Hn]|Hy]; [by apply Hno|]. split.
    + intros Hk'. destruct (Hprov _ _ Hy Hk') as [(o & Hox & Hko)|Hf].
      * by destruct (Hno o (HX _ Hox)).
      * rewrite (Hfresh_new _ Hf) in Hst. discriminate.
    + intros Hk'. destruct (Hrefs _ _ Hy Hk') as [(o & Hox & Hko)|Hf].
      * by destruct (Hno o (HX _ Hox)).
      * rewrite (Hfresh_new _ Hf) in Hst. discriminate.
  - destruct (topo_rank c Ht) as (rk & M & H). destruct (Hrank rk M H) as (rk' & M' & H'). exists rk', M'. exact H'.
Qed.
End Rewrite.

(* ------------------------------------------------------------------ Part 2: the invariant carried with Topo *)
Require Import Grits.proofs.RtSubst Grits.proofs.StepErrors Grits.proofs.RtSafety Grits.proofs.TopoLin Grits.proofs.RuntimeFacts.

Definition msg_lin (k : cid) (m : msg) : Prop := NoDup (refs (OMsg k m)).

Record LinCfg (c : config) : Prop := {
  lc_procs : forall p pp, procs c !! p = Some pp -> affr None (pr_body0 pp);
  lc_msgs : forall k st m, chans c !! k = Some st -> ch_buf st = Some m -> msg_lin k m
}.

Lemma elem_In {A} (x : A) l : x ∈ l <-> In x l.
Proof. apply elem_of_list_In. Qed.

Lemma single_provs pp : pr_provs pp <> [] -> multi pp = false -> exists n, pr_provs pp = [n].
Proof.
  unfold multi. destruct (pr_provs pp) as [|n [|n' r]]; simpl; try done; eauto.
Qed.

(* a sender turns into its message: the message provides and refers to what the process did *)
Lemma send_objs D pp k m :
  pr_provs pp <> [] -> action_of Async D pp = ASend k m ->
  (forall j, j ∈ refs (OMsg k m) -> j ∈ form_chans (pr_body0 pp)) /\
  (forall j, j ∈ provides (OMsg k m) -> j ∈ cids_of (pr_provs pp)) /\
  (m_rule m <> RGC -> forall j, j ∈ cids_of (pr_provs pp) -> j ∈ provides (OMsg k m)) /\
  (affr None (pr_body0 pp) -> msg_lin k m).
Proof.
  intros Hne Ha.
  assert (Hself : forall n, pr_provs pp = [n] -> self_name_of pp = n /\ self_chan pp = chan n).
  { intros n E. unfold self_name_of, self_chan, prov0. by rewrite E. }
  assert (Hlin : forall l, affr None (pr_body0 pp) -> pnames None (pr_body0 pp) = [l] -> NoDup (kcs l)).
  { intros l Haf E. apply affr_aff in Haf. unfold aff in Haf. rewrite E in Haf. apply NoDup_kcs.
    by apply Forall_inv in Haf. }
  unfold action_of in Ha. unfold msg_lin.
  destruct (pr_body0 pp) as [to pay cont|pay cont from k0|to l cont|from bs|x b k0|c0|c0 k0|to from d|x y from k0|fn args pt|to cont|x from k0|c0 k0|l k0] eqn:Eb;
    simpl in Ha;
    repeat match type of Ha with
           | (if ?b then _ else _) = _ => destruct b eqn:?
           | match ?x with _ => _ end = _ => destruct x eqn:?
           end;
    try discriminate;
    try (unfold internal in Ha; destruct (multi pp); discriminate);
    try (unfold recv_on in Ha; repeat match type of Ha with
           | (if ?b then _ else _) = _ => destruct b
           | match ?x with _ => _ end = _ => destruct x
           end; discriminate).
  all: try (injection Ha as <- <-).
  all: try (pose proof Ha as Ha'; unfold send_on in Ha'; destruct (multi pp) eqn:Em; [discriminate|];
            destruct (single_provs pp Hne Em) as [n En]; destruct (Hself n En) as [Hsn Hsc];
            apply send_on_chan in Ha as [Ht ->]).
  all: cbn [refs provides m_rule m_c1 m_c2 m_provs form_chans].
  all: rewrite ?En, ?Hsn; cbn [cids_of flat_map app].
  all: try (rewrite Hsc in Ht).
  all: repeat match goal with H : chan _ = Some _ |- _ => unfold name_chans at 1; rewrite H end.
  all: try (split; [set_solver|split; [set_solver|split; [set_solver|]]]).
  all: try (intros _; repeat constructor; simpl; tauto).
  all: try (intros Haf; specialize (Hlin _ Haf eq_refl); rewrite !kcs_app, !kcs_uname in Hlin;
            first [exact Hlin | apply NoDup_app_inv in Hlin as (_ & Hlin & _); exact Hlin]).
  - (* send to<pay, self> *)
    assert (E : name_chans to = [k]) by (unfold name_chans; by rewrite Ht).
    split; [rewrite E; set_solver|]. split; [unfold name_chans; rewrite app_nil_r; done|].
    split; [intros _; unfold name_chans; rewrite app_nil_r; done|].
    intros Haf. specialize (Hlin _ Haf eq_refl). rewrite !kcs_app, !kcs_uname, E in Hlin.
    rewrite app_assoc in Hlin. apply NoDup_app_inv in Hlin as (Hlin & _). exact Hlin.
  - (* forward *)
    assert (E : name_chans from = [c]).
    { match goal with H : chan from = Some _ |- _ => unfold name_chans; by rewrite H end. }
    destruct d; cbn [refs provides m_rule m_provs]; rewrite E.
    + split; [set_solver|]. split; [set_solver|]. split; [done|]. intros _. repeat constructor; simpl; tauto.
    + split; [set_solver|]. split; [set_solver|]. split; [set_solver|]. intros _. repeat constructor; simpl; tauto.
Qed.

Lemma rank_ok_same_dom c c' rk M :
  (forall k, is_Some (chans c' !! k) -> is_Some (chans c !! k)) ->
  (forall o k j, obj_in c' o -> k ∈ provides o -> j ∈ refs o -> (rk k < rk j)%nat) ->
  rank_ok c rk M -> rank_ok c' rk M.
Proof. intros Hd He [H1 _]. split; [intros k Hk; apply H1, Hd, Hk|exact He]. Qed.

(* ------------------------------------------------------------------ a process takes a message and goes on as pp' *)
Lemma topo_recv_generic c p pp k st m pp' (clk : bool) :
  Topo c -> procs c !! p = Some pp -> chans c !! k = Some st -> ch_buf st = Some m -> ch_closed st = false ->
  (forall j, j ∈ cids_of (pr_provs pp') -> j ∈ cids_of (pr_provs pp) \/ j ∈ provides (OMsg k m)) ->
  (forall j, j ∈ form_chans (pr_body0 pp') -> j ∈ form_chans (pr_body0 pp) \/ j ∈ refs (OMsg k m)) ->
  (forall j, j ∈ cids_of (pr_provs pp) \/ j ∈ provides (OMsg k m) ->
     j ∈ cids_of (pr_provs pp') \/
     ((j ∈ form_chans (pr_body0 pp) \/ j ∈ refs (OMsg k m)) /\ j ∉ form_chans (pr_body0 pp'))) ->
  (clk = true -> (k ∈ cids_of (pr_provs pp) \/ k ∈ provides (OMsg k m)) /\
                 (k ∈ form_chans (pr_body0 pp) \/ k ∈ refs (OMsg k m)) /\
                 k ∉ cids_of (pr_provs pp') /\ k ∉ form_chans (pr_body0 pp')) ->
  (forall rk M, rank_ok c rk M -> forall j i, j ∈ cids_of (pr_provs pp') -> i ∈ form_chans (pr_body0 pp') -> (rk j < rk i)%nat) ->
  Topo (Cfg (<[p := pp']> (procs c)) (<[k := Chan None clk]> (chans c)) (out c)).
Proof.
  intros Ht Hp Hk Hb Hcl Hprov Hrefs Hdang Hclk Hrank.
  set (c' := Cfg (<[p := pp']> (procs c)) (<[k := Chan None clk]> (chans c)) (out c)).
  assert (Hmsg : obj_in c (OMsg k m)) by (exists st; done).
  assert (Hobj' : forall o', obj_in c' o' ->
            match o' with
            | OProc r rr => (r = p /\ rr = pp') \/ (r <> p /\ procs c !! r = Some rr)
            | OMsg k' m' => k' <> k /\ obj_in c (OMsg k' m')
            end).
  { intros [r rr|k' m']; unfold c'; cbn.
    - intros H. apply lookup_insert_Some in H as [[<- <-]|[Hn H]]; [by left|right]. split; [congruence|done].
    - intros (st' & H & Hbuf). apply lookup_insert_Some in H as [[<- <-]|[Hn H]]; [discriminate|].
      split; [congruence|]. by exists st'. }
  assert (HinX : forall o, o ∈ [OMsg k m; OProc p pp] <-> o = OMsg k m \/ o = OProc p pp).
  { intros o. rewrite elem_of_cons, elem_of_list_singleton. tauto. }
  apply (topo_rewrite c c' [OMsg k m; OProc p pp] [OProc p pp'] (fun _ => False)); try done.
  - intros o Ho. apply HinX in Ho as [->| ->]; done.
  - intros [r rr|k' m'] Ho.
    + destruct (decide (r = p)) as [->|Hn]; [left|right].
      * cbn in Ho. rewrite Hp in Ho. injection Ho as <-. apply HinX. by right.
      * intros H. apply HinX in H as [H|H]; congruence.
    + destruct (decide (k' = k)) as [->|Hn]; [left|right].
      * destruct Ho as (st' & H & Hbuf). rewrite Hk in H. injection H as <-. rewrite Hb in Hbuf. injection Hbuf as <-.
        apply HinX. by left.
      * intros H. apply HinX in H as [H|H]; congruence.
  - intros o' Ho'. specialize (Hobj' o' Ho'). destruct o' as [r rr|k' m'].
    + destruct Hobj' as [[-> ->]|[Hn H]]; [right; by apply elem_of_list_singleton|].
      left. split; [exact H|]. intros Hx. apply HinX in Hx as [Hx|Hx]; congruence.
    + destruct Hobj' as [Hn H]. left. split; [exact H|]. intros Hx. apply HinX in Hx as [Hx|Hx]; congruence.
  - intros [r rr|k' m'] Ho Hx; unfold c'; cbn.
    + cbn in Ho. rewrite lookup_insert_ne; [exact Ho|]. intros <-. apply Hx. apply HinX. right.
      rewrite Hp in Ho. by injection Ho as <-.
    + destruct Ho as (st' & H & Hbuf). exists st'. split; [|done]. rewrite lookup_insert_ne; [done|].
      intros <-. apply Hx. apply HinX. left. rewrite Hk in H. injection H as <-. rewrite Hb in Hbuf. by injection Hbuf as <-.
  - intros o' Ho'. apply elem_of_list_singleton in Ho' as ->. unfold c'. cbn. apply lookup_insert.
  - intros o' j Ho' Hj. apply elem_of_list_singleton in Ho' as ->. left. cbn in Hj.
    destruct (Hprov j Hj) as [H|H]; [exists (OProc p pp)|exists (OMsg k m)]; (split; [apply HinX; auto|done]).
  - intros o' j Ho' Hj. apply elem_of_list_singleton in Ho' as ->. left. cbn in Hj.
    destruct (Hrefs j Hj) as [H|H]; [exists (OProc p pp)|exists (OMsg k m)]; (split; [apply HinX; auto|done]).
  - intros o1 o2 j H1 H2 _ _. apply elem_of_list_singleton in H1, H2. congruence.
  - intros o1 o2 j H1 H2 _ _. apply elem_of_list_singleton in H1, H2. congruence.
  - intros o j Ho Hj.
    assert (Hj' : j ∈ cids_of (pr_provs pp) \/ j ∈ provides (OMsg k m)) by (apply HinX in Ho as [->| ->]; auto).
    destruct (Hdang j Hj') as [H|[Hr Hn]].
    + left. exists (OProc p pp'). split; [by apply elem_of_list_singleton|done].
    + right. split.
      * intros o2 Ho2 Hj2. apply HinX.
        destruct Hr as [Hr|Hr]; [right; eapply (topo_ref_unique c Ht _ _ j); eauto|left; eapply (topo_ref_unique c Ht _ _ j); eauto].
      * intros o' Ho'. apply elem_of_list_singleton in Ho' as ->. exact Hn.
  - intros k' st' Hk' Hcl'. unfold c' in Hk'. cbn in Hk'. apply lookup_insert_Some in Hk' as [[<- <-]|[Hn Hk']].
    + right. split; [done|]. cbn in Hcl'. destruct (Hclk Hcl') as (Hkp & Hkr & Hn1 & Hn2).
      intros o' Ho'. specialize (Hobj' o' Ho'). destruct o' as [r rr|k' m'].
      * destruct Hobj' as [[-> ->]|[Hne H]]; [done|]. split.
        -- intros Hj. destruct Hkp as [Hkp|Hkp];
             [assert (E : OProc r rr = OProc p pp) by (eapply (topo_prov_unique c Ht _ _ k); eauto); congruence
             |assert (E : OProc r rr = OMsg k m) by (eapply (topo_prov_unique c Ht _ _ k); eauto); discriminate].
        -- intros Hj. destruct Hkr as [Hkr|Hkr];
             [assert (E : OProc r rr = OProc p pp) by (eapply (topo_ref_unique c Ht _ _ k); eauto); congruence
             |assert (E : OProc r rr = OMsg k m) by (eapply (topo_ref_unique c Ht _ _ k); eauto); discriminate].
      * destruct Hobj' as [Hne H]. split.
        -- intros Hj. destruct Hkp as [Hkp|Hkp];
             [assert (E : OMsg k' m' = OProc p pp) by (eapply (topo_prov_unique c Ht _ _ k); eauto); discriminate
             |assert (E : OMsg k' m' = OMsg k m) by (eapply (topo_prov_unique c Ht _ _ k); eauto); congruence].
        -- intros Hj. destruct Hkr as [Hkr|Hkr];
             [assert (E : OMsg k' m' = OProc p pp) by (eapply (topo_ref_unique c Ht _ _ k); eauto); discriminate
             |assert (E : OMsg k' m' = OMsg k m) by (eapply (topo_ref_unique c Ht _ _ k); eauto); congruence].
    + left. exists st'. done.
  - intros rk M Hr. exists rk, M. eapply rank_ok_same_dom; [| |exact Hr].
    + intros k' Hk'. unfold c' in Hk'. cbn in Hk'. apply lookup_insert_is_Some in Hk' as [<-|[_ H]]; [by eexists|done].
    + intros o' k1 j Ho' Hk1 Hj. specialize (Hobj' o' Ho'). destruct o' as [r rr|k' m'].
      * destruct Hobj' as [[-> ->]|[_ H]]; [eapply Hrank; eauto|]. destruct Hr as [_ Hr]. eapply (Hr (OProc r rr)); eauto.
      * destruct Hobj' as [_ H]. destruct Hr as [_ Hr]. eapply (Hr (OMsg k' m')); eauto.
Qed.

(* the receiver is the provider of k: the message is a negative one (it refers to k) *)
Lemma topo_recv_self c p pp n k st m pp' (clk : bool) :
  Topo c -> procs c !! p = Some pp -> chans c !! k = Some st -> ch_buf st = Some m -> ch_closed st = false ->
  pr_provs pp = [n] -> chan n = Some k -> k ∈ refs (OMsg k m) -> NoDup (refs (OMsg k m)) ->
  (forall j, j ∈ cids_of (pr_provs pp') <-> j ∈ provides (OMsg k m)) ->
  (forall i, i ∈ form_chans (pr_body0 pp') -> i ∈ form_chans (pr_body0 pp) \/ (i ∈ refs (OMsg k m) /\ i <> k)) ->
  Topo (Cfg (<[p := pp']> (procs c)) (<[k := Chan None clk]> (chans c)) (out c)).
Proof.
  intros Ht Hp Hk Hb Hcl Hpv Hn Hkr Hnd Hprov Hbody.
  assert (Hmsg : obj_in c (OMsg k m)) by (exists st; done).
  assert (Hcp : cids_of (pr_provs pp) = [k]) by (rewrite Hpv; cbn; by rewrite Hn).
  assert (Hkb : k ∉ form_chans (pr_body0 pp)).
  { intros H. assert (E : OProc p pp = OMsg k m) by (eapply (topo_ref_unique c Ht _ _ k); eauto). discriminate. }
  assert (Hkm : k ∉ provides (OMsg k m)).
  { intros H. assert (E : OProc p pp = OMsg k m); [|discriminate].
    eapply (topo_prov_unique c Ht _ _ k); eauto. cbn. rewrite Hcp. set_solver. }
  assert (Hkb' : k ∉ form_chans (pr_body0 pp')).
  { intros H. destruct (Hbody k H) as [H'|[_ H']]; done. }
  apply (topo_recv_generic c p pp k st m pp' clk); try done.
  - intros j Hj. right. by apply Hprov.
  - intros i Hi. destruct (Hbody i Hi) as [H|[H _]]; auto.
  - intros j [Hj|Hj].
    + rewrite Hcp in Hj. apply elem_of_list_singleton in Hj as ->. right. auto.
    + left. by apply Hprov.
  - intros _. split; [left; rewrite Hcp; set_solver|]. split; [by right|]. split; [|done].
    intros H. apply Hkm. by apply Hprov.
  - intros rk M [_ Hr] j i Hj Hi. apply Hprov in Hj.
    assert (H1 : (rk j < rk k)%nat) by (eapply (Hr (OMsg k m)); eauto).
    destruct (Hbody i Hi) as [H|[H _]].
    + assert (H2 : (rk k < rk i)%nat); [|lia]. eapply (Hr (OProc p pp)); eauto. cbn. rewrite Hcp. set_solver.
    + eapply (Hr (OMsg k m)); eauto.
Qed.

(* the receiver is the client of k: the message is a positive one (it provides k) *)
Lemma topo_recv_client c p pp k st m pp' :
  Topo c -> procs c !! p = Some pp -> chans c !! k = Some st -> ch_buf st = Some m -> ch_closed st = false ->
  provides (OMsg k m) = [k] -> k ∈ form_chans (pr_body0 pp) ->
  pr_provs pp' = pr_provs pp ->
  (forall i, i ∈ form_chans (pr_body0 pp') -> i ∈ form_chans (pr_body0 pp) \/ i ∈ refs (OMsg k m)) ->
  k ∉ form_chans (pr_body0 pp') ->
  Topo (Cfg (<[p := pp']> (procs c)) (<[k := Chan None false]> (chans c)) (out c)).
Proof.
  intros Ht Hp Hk Hb Hcl Hpm Hkb Hpv Hbody Hkb'.
  assert (Hmsg : obj_in c (OMsg k m)) by (exists st; done).
  apply (topo_recv_generic c p pp k st m pp' false); try done.
  - intros j Hj. left. by rewrite <- Hpv.
  - intros j [Hj|Hj]; [left; by rewrite Hpv|]. rewrite Hpm in Hj. apply elem_of_list_singleton in Hj as ->. right. auto.
  - intros rk M [_ Hr] j i Hj Hi. rewrite Hpv in Hj. destruct (Hbody i Hi) as [H|H].
    + eapply (Hr (OProc p pp)); eauto.
    + assert (H1 : (rk j < rk k)%nat) by (eapply (Hr (OProc p pp)); eauto).
      assert (H2 : (rk k < rk i)%nat); [|lia]. eapply (Hr (OMsg k m)); eauto. rewrite Hpm. set_solver.
Qed.

(* ------------------------------------------------------------------ a process goes on with fewer channels (call, print) *)
Lemma topo_cont c p pp pp' o' :
  Topo c -> procs c !! p = Some pp -> pr_provs pp' = pr_provs pp ->
  (forall i, i ∈ form_chans (pr_body0 pp') -> i ∈ form_chans (pr_body0 pp)) ->
  Topo (Cfg (<[p := pp']> (procs c)) (chans c) o').
Proof.
  intros Ht Hp Hpv Hbody.
  set (c' := Cfg (<[p := pp']> (procs c)) (chans c) o').
  assert (Hobj' : forall ob, obj_in c' ob ->
            match ob with
            | OProc r rr => (r = p /\ rr = pp') \/ (r <> p /\ procs c !! r = Some rr)
            | OMsg k' m' => obj_in c (OMsg k' m')
            end).
  { intros [r rr|k' m']; unfold c'; cbn; [|done].
    intros H. apply lookup_insert_Some in H as [[<- <-]|[Hn H]]; [by left|right]. split; [congruence|done]. }
  apply (topo_rewrite c c' [OProc p pp] [OProc p pp'] (fun _ => False)); try done.
  - intros o Ho. apply elem_of_list_singleton in Ho as ->. exact Hp.
  - intros [r rr|k' m'] Ho.
    + destruct (decide (r = p)) as [->|Hn]; [left|right].
      * cbn in Ho. rewrite Hp in Ho. injection Ho as <-. by apply elem_of_list_singleton.
      * intros H. apply elem_of_list_singleton in H. congruence.
    + right. intros H. apply elem_of_list_singleton in H. discriminate.
  - intros ob Ho'. specialize (Hobj' ob Ho'). destruct ob as [r rr|k' m'].
    + destruct Hobj' as [[-> ->]|[Hn H]]; [right; by apply elem_of_list_singleton|].
      left. split; [exact H|]. intros Hx. apply elem_of_list_singleton in Hx. congruence.
    + left. split; [exact Hobj'|]. intros Hx. apply elem_of_list_singleton in Hx. discriminate.
  - intros [r rr|k' m'] Ho Hx; unfold c'; cbn; [|exact Ho].
    cbn in Ho. rewrite lookup_insert_ne; [exact Ho|]. intros <-. apply Hx. apply elem_of_list_singleton.
    rewrite Hp in Ho. by injection Ho as <-.
  - intros ob Ho'. apply elem_of_list_singleton in Ho' as ->. unfold c'. cbn. apply lookup_insert.
  - intros ob j Ho' Hj. apply elem_of_list_singleton in Ho' as ->. left. exists (OProc p pp).
    split; [by apply elem_of_list_singleton|]. cbn in *. by rewrite <- Hpv.
  - intros ob j Ho' Hj. apply elem_of_list_singleton in Ho' as ->. left. exists (OProc p pp).
    split; [by apply elem_of_list_singleton|]. cbn in *. by apply Hbody.
  - intros o1 o2 j H1 H2 _ _. apply elem_of_list_singleton in H1, H2. congruence.
  - intros o1 o2 j H1 H2 _ _. apply elem_of_list_singleton in H1, H2. congruence.
  - intros o j Ho Hj. apply elem_of_list_singleton in Ho as ->. left. exists (OProc p pp').
    split; [by apply elem_of_list_singleton|]. cbn in *. by rewrite Hpv.
  - intros k' st' Hk' Hcl'. left. exists st'. done.
  - intros rk M Hr. exists rk, M. eapply rank_ok_same_dom; [| |exact Hr]; [done|].
    intros ob k1 j Ho' Hk1 Hj. specialize (Hobj' ob Ho'). destruct Hr as [_ Hr]. destruct ob as [r rr|k' m'].
    + destruct Hobj' as [[-> ->]|[_ H]]; [|eapply (Hr (OProc r rr)); eauto].
      eapply (Hr (OProc p pp)); [exact Hp| |by apply Hbody]. cbn in *. by rewrite <- Hpv.
    + eapply (Hr (OMsg k' m')); eauto.
Qed.

(* ------------------------------------------------------------------ cut: a child is spawned on a fresh channel *)
Lemma topo_new c p pp kn cn child cb pb nx o' :
  Topo c -> procs c !! p = Some pp -> chan cn = Some kn ->
  chans c !! kn = None -> procs c !! child = None -> child <> p ->
  (forall o, obj_in c o -> kn ∉ provides o /\ kn ∉ refs o) ->
  (exists kp, cids_of (pr_provs pp) = [kp] /\ is_Some (chans c !! kp)) ->
  (forall i, i ∈ form_chans cb -> i ∈ form_chans (pr_body0 pp)) ->
  (forall i, i ∈ form_chans pb -> i ∈ form_chans (pr_body0 pp) \/ i = kn) ->
  (forall i, i ∈ form_chans cb -> i ∈ form_chans pb -> False) ->
  Topo (Cfg (<[p := Proc (pr_provs pp) pb nx]> (<[child := Proc [cn] cb 0]> (procs c)))
            (<[kn := empty_chan]> (chans c)) o').
Proof.
  intros Ht Hp Hcn Hkn Hch Hcp Hfr (kp & Hkp & Hkpe) Hcb Hpb Hdisj.
  set (P' := Proc (pr_provs pp) pb nx). set (C' := Proc [cn] cb 0).
  set (c' := Cfg (<[p := P']> (<[child := C']> (procs c))) (<[kn := empty_chan]> (chans c)) o').
  assert (Hobj' : forall ob, obj_in c' ob ->
            match ob with
            | OProc r rr => (r = p /\ rr = P') \/ (r = child /\ rr = C') \/ (r <> p /\ r <> child /\ procs c !! r = Some rr)
            | OMsg k' m' => k' <> kn /\ obj_in c (OMsg k' m')
            end).
  { intros [r rr|k' m']; unfold c'; cbn.
    - intros H. apply lookup_insert_Some in H as [[<- <-]|[Hn H]]; [by left|right].
      apply lookup_insert_Some in H as [[<- <-]|[Hn' H]]; [by left|right]. split; [congruence|]. split; [congruence|done].
    - intros (st' & H & Hbuf). apply lookup_insert_Some in H as [[<- <-]|[Hn H]]; [discriminate|].
      split; [congruence|]. by exists st'. }
  assert (Hcprov : cids_of [cn] = [kn]) by (cbn; by rewrite Hcn).
  assert (HCp : provides (OProc child C') = [kn]) by (cbn; by rewrite Hcn).
  assert (HPp : provides (OProc p P') = cids_of (pr_provs pp)) by done.
  assert (HCr : refs (OProc child C') = form_chans cb) by done.
  assert (HPr : refs (OProc p P') = form_chans pb) by done.
  assert (HinY : forall o, o ∈ [OProc p P'; OProc child C'] <-> o = OProc p P' \/ o = OProc child C').
  { intros o. rewrite elem_of_cons, elem_of_list_singleton. tauto. }
  apply (topo_rewrite c c' [OProc p pp] [OProc p P'; OProc child C'] (fun k => k = kn)); try done.
  - intros o Ho. apply elem_of_list_singleton in Ho as ->. exact Hp.
  - intros [r rr|k' m'] Ho.
    + destruct (decide (r = p)) as [->|Hn]; [left|right].
      * cbn in Ho. rewrite Hp in Ho. injection Ho as <-. by apply elem_of_list_singleton.
      * intros H. apply elem_of_list_singleton in H. congruence.
    + right. intros H. apply elem_of_list_singleton in H. discriminate.
  - intros ob Ho'. specialize (Hobj' ob Ho'). destruct ob as [r rr|k' m'].
    + destruct Hobj' as [[-> ->]|[[-> ->]|(Hn & Hn' & H)]]; [right; apply HinY; by left|right; apply HinY; by right|].
      left. split; [exact H|]. intros Hx. apply elem_of_list_singleton in Hx. congruence.
    + destruct Hobj' as [_ H]. left. split; [exact H|]. intros Hx. apply elem_of_list_singleton in Hx. discriminate.
  - intros [r rr|k' m'] Ho Hx; unfold c'; cbn.
    + cbn in Ho. assert (r <> p).
      { intros ->. apply Hx. apply elem_of_list_singleton. rewrite Hp in Ho. by injection Ho as <-. }
      assert (r <> child) by (intros ->; congruence).
      by rewrite !lookup_insert_ne.
    + destruct Ho as (st' & H & Hbuf). exists st'. split; [|done]. rewrite lookup_insert_ne; [done|]. intros <-. congruence.
  - intros ob Ho'. apply HinY in Ho' as [->| ->]; unfold c'; cbn.
    + apply lookup_insert.
    + rewrite lookup_insert_ne by done. apply lookup_insert.
  - intros ob j Ho' Hj. apply HinY in Ho' as [->| ->].
    + rewrite HPp in Hj. left. exists (OProc p pp). split; [by apply elem_of_list_singleton|done].
    + rewrite HCp in Hj. right. by apply elem_of_list_singleton in Hj.
  - intros ob j Ho' Hj. apply HinY in Ho' as [->| ->]; [rewrite HPr in Hj|rewrite HCr in Hj].
    + destruct (Hpb j Hj) as [H|H]; [left|by right]. exists (OProc p pp). split; [by apply elem_of_list_singleton|done].
    + left. exists (OProc p pp). split; [by apply elem_of_list_singleton|]. by apply Hcb.
  - intros o1 o2 j H1 H2 Hj1 Hj2. apply HinY in H1 as [->| ->], H2 as [->| ->]; try done; exfalso.
    + rewrite HPp in Hj1. rewrite HCp in Hj2. apply elem_of_list_singleton in Hj2 as ->. destruct (Hfr (OProc p pp) Hp) as [H _]. by apply H.
    + rewrite HPp in Hj2. rewrite HCp in Hj1. apply elem_of_list_singleton in Hj1 as ->. destruct (Hfr (OProc p pp) Hp) as [H _]. by apply H.
  - intros o1 o2 j H1 H2 Hj1 Hj2. apply HinY in H1 as [->| ->], H2 as [->| ->]; try done; exfalso.
    + rewrite HPr in Hj1. rewrite HCr in Hj2. eauto.
    + rewrite HPr in Hj2. rewrite HCr in Hj1. eauto.
  - intros k0 o -> Ho. by apply Hfr.
  - intros k0 ->. exact Hkn.
  - intros o j Ho Hj. apply elem_of_list_singleton in Ho as ->. left. exists (OProc p P').
    split; [apply HinY; by left|done].
  - intros ob j Ho' Hj ->. exists (OProc child C'). split; [apply HinY; by right|]. rewrite HCp. set_solver.
  - intros k' st' Hk' Hcl'. unfold c' in Hk'. cbn in Hk'. apply lookup_insert_Some in Hk' as [[<- <-]|[Hn Hk']]; [discriminate|].
    left. exists st'. done.
  - intros rk M [Hb Hr].
    exists (fun j => if decide (j = kn) then (2 * rk kp + 1)%nat else (2 * rk j)%nat), (2 * M + 1)%nat. split.
    + intros j Hj. unfold c' in Hj. cbn in Hj. destruct (decide (j = kn)) as [->|Hn].
      * specialize (Hb kp Hkpe). lia.
      * rewrite lookup_insert_ne in Hj by done. specialize (Hb j Hj). lia.
    + assert (Hkpn : kp <> kn) by (intros ->; rewrite Hkn in Hkpe; by destruct Hkpe).
      assert (Hold : forall o k1 j, obj_in c o -> k1 ∈ provides o -> j ∈ refs o ->
                ((if decide (k1 = kn) then 2 * rk kp + 1 else 2 * rk k1) < (if decide (j = kn) then 2 * rk kp + 1 else 2 * rk j))%nat).
      { intros o k1 j Ho Hk1 Hj. destruct (Hfr o Ho) as [Hf1 Hf2].
        rewrite decide_False by (intros ->; done). rewrite decide_False by (intros ->; done).
        specialize (Hr o k1 j Ho Hk1 Hj). lia. }
      intros ob k1 j Ho' Hk1 Hj. specialize (Hobj' ob Ho'). destruct ob as [r rr|k' m'].
      * destruct Hobj' as [[-> ->]|[[-> ->]|(_ & _ & H)]]; [| |eapply (Hold (OProc r rr)); eauto].
        -- rewrite HPp in Hk1. rewrite HPr in Hj. rewrite Hkp in Hk1. apply elem_of_list_singleton in Hk1 as ->.
           rewrite decide_False by done. destruct (Hpb j Hj) as [H| ->].
           ++ rewrite decide_False by (intros ->; destruct (Hfr (OProc p pp) Hp) as [_ Hf]; by apply Hf).
              assert (rk kp < rk j)%nat; [|lia]. eapply (Hr (OProc p pp)); eauto. cbn. rewrite Hkp. set_solver.
           ++ rewrite decide_True by done. lia.
        -- rewrite HCp in Hk1. rewrite HCr in Hj. apply elem_of_list_singleton in Hk1 as ->.
           rewrite decide_True by done. apply Hcb in Hj.
           rewrite decide_False by (intros ->; destruct (Hfr (OProc p pp) Hp) as [_ Hf]; by apply Hf).
           assert (rk kp < rk j)%nat; [|lia]. eapply (Hr (OProc p pp)); eauto. cbn. rewrite Hkp. set_solver.
      * destruct Hobj' as [_ H]. eapply (Hold (OMsg k' m')); eauto.
Qed.

Section Step.
Variable D : tenv.
Variable F : list fundef.
Variable teq : sty -> sty -> Prop.
Hypothesis Hteq : teq_laws D teq.
Hypothesis HF : funs_typed D F teq.

(* ------------------------------------------------------------------ a process sends and ends *)
Lemma topo_send c p pp k m st :
  Topo c -> LinCfg c -> procs c !! p = Some pp -> pr_provs pp <> [] ->
  action_of Async D pp = ASend k m -> m_rule m <> RGC ->
  chans c !! k = Some st -> ch_closed st = false -> ch_buf st = None ->
  Topo (del_proc (put_msg c k st (Some m)) p) /\ LinCfg (del_proc (put_msg c k st (Some m)) p).
Proof.
  intros Ht Hl Hp Hne Ha Hgc Hk Hcl Hb.
  destruct (send_objs D pp k m Hne Ha) as (Hrefs & Hprov & Hprov' & Hlin).
  set (c' := del_proc (put_msg c k st (Some m)) p).
  assert (Hobj' : forall o', obj_in c' o' ->
            match o' with
            | OProc r rr => r <> p /\ procs c !! r = Some rr
            | OMsg k' m' => (k' = k /\ m' = m) \/ (k' <> k /\ obj_in c (OMsg k' m'))
            end).
  { intros [r rr|k' m']; unfold c', del_proc, put_msg; cbn.
    - intros H. apply lookup_delete_Some in H as [Hn H]. split; [congruence|done].
    - intros (st' & H & Hbuf). apply lookup_insert_Some in H as [[<- <-]|[Hne' H]]; [left; cbn in Hbuf; split; congruence|].
      right. split; [done|]. by exists st'. }
  split.
  - apply (topo_rewrite c c' [OProc p pp] [OMsg k m] (fun _ => False)); try done.
    + intros o Ho. apply elem_of_list_singleton in Ho as ->. exact Hp.
    + intros [r rr|k' m'] Ho.
      * destruct (decide (r = p)) as [->|Hn]; [left|right].
        -- cbn in Ho. rewrite Hp in Ho. injection Ho as <-. by apply elem_of_list_singleton.
        -- intros H. apply elem_of_list_singleton in H. congruence.
      * right. intros H. apply elem_of_list_singleton in H. discriminate.
    + intros o' Ho'. specialize (Hobj' o' Ho'). destruct o' as [r rr|k' m'].
      * destruct Hobj' as [Hn H]. left. split; [exact H|]. intros Hx. apply elem_of_list_singleton in Hx. congruence.
      * destruct Hobj' as [[-> ->]|[Hn H]]; [right; by apply elem_of_list_singleton|].
        left. split; [exact H|]. intros Hx. apply elem_of_list_singleton in Hx. discriminate.
    + intros [r rr|k' m'] Ho Hx.
      * cbn in Ho |- *. rewrite lookup_delete_ne; [exact Ho|]. intros <-. apply Hx. apply elem_of_list_singleton.
        rewrite Hp in Ho. by injection Ho as <-.
      * destruct Ho as (st' & H & Hbuf). exists st'. cbn. split; [|done]. rewrite lookup_insert_ne; [done|].
        intros <-. rewrite Hk in H. injection H as <-. congruence.
    + intros o' Ho'. apply elem_of_list_singleton in Ho' as ->. eexists. cbn. split; [apply lookup_insert|done].
    + intros o' j Ho' Hj. apply elem_of_list_singleton in Ho' as ->. left. exists (OProc p pp).
      split; [by apply elem_of_list_singleton|]. cbn. by apply Hprov.
    + intros o' j Ho' Hj. apply elem_of_list_singleton in Ho' as ->. left. exists (OProc p pp).
      split; [by apply elem_of_list_singleton|]. cbn. by apply Hrefs.
    + intros o1 o2 j H1 H2 _ _. apply elem_of_list_singleton in H1, H2. congruence.
    + intros o1 o2 j H1 H2 _ _. apply elem_of_list_singleton in H1, H2. congruence.
    + intros o j Ho Hj. apply elem_of_list_singleton in Ho as ->. left. exists (OMsg k m).
      split; [by apply elem_of_list_singleton|]. by apply Hprov'.
    + intros k' st' Hk' Hcl'. left. cbn in Hk'. apply lookup_insert_Some in Hk' as [[<- <-]|[Hn Hk']]; [cbn in Hcl'; congruence|].
      exists st'. done.
    + intros rk M Hr. exists rk, M. eapply rank_ok_same_dom; [| |exact Hr].
      * intros k' Hk'. cbn in Hk'. apply lookup_insert_is_Some in Hk' as [<-|[_ H]]; [by eexists|done].
      * intros o' k1 j Ho' Hk1 Hj. specialize (Hobj' o' Ho'). destruct Hr as [_ Hr]. destruct o' as [r rr|k' m'].
        -- destruct Hobj' as [_ H]. eapply (Hr (OProc r rr)); eauto.
        -- destruct Hobj' as [[-> ->]|[_ H]]; [|eapply (Hr (OMsg k' m')); eauto].
           eapply (Hr (OProc p pp)); [exact Hp|by apply Hprov|by apply Hrefs].
  - split.
    + intros r rr Hr. cbn in Hr. apply lookup_delete_Some in Hr as [_ Hr]. exact (lc_procs c Hl r rr Hr).
    + intros k' st' m' Hk' Hb'. cbn in Hk'. apply lookup_insert_Some in Hk' as [[<- <-]|[_ Hk']].
      * cbn in Hb'. injection Hb' as <-. apply Hlin. exact (lc_procs c Hl p pp Hp).
      * exact (lc_msgs c Hl k' st' m' Hk' Hb').
Qed.

(* ------------------------------------------------------------------ a process receives *)
Lemma apply_recv_effect c k st p pp pp1 cl :
  apply_effect (put_msg c k st None) p pp (Eff (Continue pp1) [] [] cl []) =
  Cfg (<[p := Proc (pr_provs pp1) (pr_body0 pp1) (pr_next pp1 + 0)]> (procs c))
      (close_all cl (<[k := Chan None (ch_closed st)]> (chans c))) (out c).
Proof. reflexivity. Qed.

Lemma close_all_one (k : cid) (C : gmap cid chan_st) (b : bool) : close_all [k] (<[k := Chan None b]> C) = <[k := Chan None true]> C.
Proof. unfold close_all. cbn. rewrite lookup_insert. cbn. apply insert_insert. Qed.

Lemma recv_on_inv pp t k : recv_on pp t = ARecv k -> t = Some k /\ multi pp = false.
Proof. unfold recv_on. destruct t; [|discriminate]. destruct (multi pp); [discriminate|]. intros [= ->]. auto. Qed.

(* what the receiving forms look like: the subject is self (then k is the own channel) or a client name *)
Inductive recv_view (pp : proc) (k : cid) : Prop :=
| RV_self n : pr_provs pp = [n] -> chan n = Some k -> is_fwd_body pp = false -> recv_view pp k
| RV_client : In k (form_chans (pr_body0 pp)) -> recv_view pp k.

Lemma recv_view_of pp k : pr_provs pp <> [] -> action_of Async D pp = ARecv k -> recv_view pp k.
Proof.
  intros Hne Ha.
  assert (Hs : forall t, recv_on pp t = ARecv k -> t = self_chan pp -> is_fwd_body pp = false -> recv_view pp k).
  { intros t H -> Hf. apply recv_on_inv in H as [Hk Hm]. destruct (single_provs pp Hne Hm) as [n En].
    eapply RV_self; eauto. unfold self_chan, prov0 in Hk. by rewrite En in Hk. }
  assert (Hc : forall n, recv_on pp (chan n) = ARecv k -> In k (name_chans n)).
  { intros n H. apply recv_on_inv in H as [Hk _]. unfold name_chans. rewrite Hk. by left. }
  unfold action_of, is_fwd_body in *.
  destruct (pr_body0 pp) as [to pay cont|pay cont from k0|to l cont|from bs|x b k0|c0|c0 k0|to from d|x y from k0|fn args pt|to cont|x from k0|c0 k0|l k0] eqn:Eb;
    simpl in Ha;
    repeat match type of Ha with
           | (if ?b then _ else _) = _ => destruct b eqn:?
           end;
    try discriminate;
    try (unfold internal in Ha; destruct (multi pp); discriminate);
    try (unfold send_on in Ha; repeat match type of Ha with
           | (if ?b then _ else _) = _ => destruct b
           | match ?x with _ => _ end = _ => destruct x
           end; discriminate);
    try (eapply Hs; eauto; fail);
    try (apply RV_client; rewrite Eb; simpl; apply Hc in Ha; rewrite ?in_app_iff; auto; fail).
  (* forward *)
  destruct (fwd_polarity D from) as [[| |]|w|w]; try discriminate;
    destruct (chan from) as [c|] eqn:Ec; try discriminate.
  injection Ha as ->. apply RV_client. rewrite Eb. simpl. unfold name_chans at 2. rewrite Ec. rewrite in_app_iff. right. by left.
Qed.

(* the subject of a receiving form is consumed: it does not occur in the continuation *)
Lemma dup_app {A} (l1 l2 : list A) x : NoDup (l1 ++ l2) -> In x l1 -> In x l2 -> False.
Proof. intros H. apply NoDup_app_inv in H as (_ & _ & H). apply H. Qed.

Lemma subj_consumed sh (pre : list key) (g h : list key -> list key) P k K :
  Forall (NoDup (A:=key)) (map (fun pk => pre ++ g pk) P) ->
  In (KC k) pre -> (forall pk, In (KC k) pk -> In (KC k) (g (h pk))) ->
  (forall pk, In pk (pnames sh K) -> In (h pk) P) ->
  ~ In k (form_chans K).
Proof.
  intros Hnd Hpre Hg HP Hin. destruct (proj1 chans_path_mut K sh k Hin) as (pk & Hpk & Hk).
  rewrite Forall_forall in Hnd. eapply (dup_app pre (g (h pk))); [apply Hnd, in_map_iff; eauto|done|auto].
Qed.

Lemma find_branch_paths l bs pay K sh :
  find_branch l bs = Some (pay, K) ->
  (forall i, In i (form_chans K) -> In i (brs_chans bs)) /\
  (forall pk, In pk (pnames sh K) -> In (rmv [pay] pk) (pnames_bc sh bs)) /\
  (forall pk, In pk (pnames (Some (ident pay)) K) -> In pk (pnames_bp bs)).
Proof.
  induction bs as [|l' p' k' r IH]; simpl; [discriminate|].
  destruct (String.eqb l' l).
  - intros [= -> ->]. split; [intros i Hi; apply in_app_iff; by left|].
    split; intros pk Hpk; apply in_app_iff; left; [apply in_map_iff; eauto|done].
  - intros H. destruct (IH H) as (H1 & H2 & H3). split; [intros i Hi; apply in_app_iff; right; auto|].
    split; intros pk Hpk; apply in_app_iff; right; auto.
Qed.

Lemma in_ne' l (a : list key) : In a l -> In a (ne l).
Proof. apply in_ne. Qed.

Lemma topo_ne c o k j : Topo c -> obj_in c o -> k ∈ provides o -> j ∈ refs o -> k <> j.
Proof. intros Ht Ho Hk Hj ->. destruct (topo_rank c Ht) as (rk & M & _ & Hr). specialize (Hr o j j Ho Hk Hj). lia. Qed.

Definition core_recv (pp : proc) (m : msg) : Prop :=
  m_rule m <> RGC /\
  match pr_body0 pp with FFwd _ _ d => d = false /\ m_rule m <> RFWD | _ => True end.

Lemma set_provs_body_fields pp ps b : pr_provs (set_provs_body pp ps b) = ps /\ pr_body0 (set_provs_body pp ps b) = b.
Proof. done. Qed.
Lemma set_body_fields pp b : pr_provs (set_body pp b) = pr_provs pp /\ pr_body0 (set_body pp b) = b.
Proof. done. Qed.

Lemma topo_recv_step c p pp k st m e :
  Topo c -> LinCfg c -> procs c !! p = Some pp -> pr_provs pp <> [] ->
  action_of Async D pp = ARecv k -> chans c !! k = Some st -> ch_buf st = Some m -> ch_closed st = false ->
  on_message p pp m = EOk e -> core_recv pp m ->
  Topo (apply_effect (put_msg c k st None) p pp e).
Proof.
  intros Ht Hl Hp Hne Ha Hk Hb Hcl He [Hgc Hcore].
  assert (Hmsg : obj_in c (OMsg k m)) by (exists st; done).
  assert (Hlin : affr None (pr_body0 pp)) by (exact (lc_procs c Hl p pp Hp)).
  assert (Hml : NoDup (refs (OMsg k m))) by (exact (lc_msgs c Hl k st m Hk Hb)).
  pose proof (recv_view_of pp k Hne Ha) as Hview.
  (* the self case: the message refers to k *)
  assert (Hself : forall newp body',
     k ∈ refs (OMsg k m) ->
     (forall j, j ∈ cids_of newp <-> j ∈ provides (OMsg k m)) ->
     (forall i, i ∈ form_chans body' -> i ∈ form_chans (pr_body0 pp) \/ (i ∈ refs (OMsg k m) /\ i <> k)) ->
     forall (clk : bool) nx, (clk = true -> is_fwd_body pp = false) ->
     Topo (Cfg (<[p := Proc newp body' nx]> (procs c)) (<[k := Chan None clk]> (chans c)) (out c))).
  { intros newp body' Hkr Hpv Hbd clk nx _. destruct Hview as [n Hn Hcn _|Hc].
    - eapply (topo_recv_self c p pp n k st m (Proc newp body' nx) clk); eauto.
    - exfalso. assert (E : OProc p pp = OMsg k m); [|discriminate].
      eapply (topo_ref_unique c Ht _ _ k); eauto. cbn. by apply elem_In. }
  (* the client case: the message provides k *)
  assert (Hclient : forall body',
     provides (OMsg k m) = [k] ->
     (forall i, i ∈ form_chans body' -> i ∈ form_chans (pr_body0 pp) \/ i ∈ refs (OMsg k m)) ->
     k ∉ form_chans body' ->
     forall nx, Topo (Cfg (<[p := Proc (pr_provs pp) body' nx]> (procs c)) (<[k := Chan None false]> (chans c)) (out c))).
  { intros body' Hpm Hbd Hkn nx. destruct Hview as [n Hn Hcn _|Hc].
    - exfalso. assert (E : OProc p pp = OMsg k m); [|discriminate].
      eapply (topo_prov_unique c Ht _ _ k); eauto; [|rewrite Hpm; set_solver]. cbn. rewrite Hn. cbn. rewrite Hcn. set_solver.
    - eapply (topo_recv_client c p pp k st m (Proc (pr_provs pp) body' nx)); eauto. cbn. by apply elem_In. }
  assert (Hkm : forall j, j ∈ refs (OMsg k m) -> provides (OMsg k m) = [k] -> j <> k).
  { intros j Hj Hpm E. subst j. eapply (topo_ne c (OMsg k m) k k); eauto. rewrite Hpm. set_solver. }
  unfold on_message in He. fold (is_fwd_body pp) in He.
  destruct (rule_eqb (m_rule m) RFWD && negb (is_fwd_body pp)) eqn:Ereq.
  { (* a forward request: the process takes over the providers of the forward *)
    apply andb_true_iff in Ereq as [Er Ef]. apply rule_eqb_eq in Er. apply negb_true_iff in Ef.
    injection He as <-. rewrite apply_recv_effect. cbn [pr_provs pr_body0 set_provs_body].
    destruct Hview as [n Hn Hcn _|Hc].
    - rewrite Hn. cbn [cids_of flat_map]. rewrite Hcn. cbn [app]. rewrite Hcl, close_all_one.
      apply Hself; try done.
      + cbn. rewrite Er. set_solver.
      + intros j. cbn. by rewrite Er.
      + intros i Hi. by left.
    - exfalso. assert (E : OProc p pp = OMsg k m); [|discriminate].
      eapply (topo_ref_unique c Ht _ _ k); eauto; cbn; [by apply elem_In|rewrite Er; set_solver]. }
  destruct (rule_eqb (m_rule m) RGC && negb (is_fwd_body pp)) eqn:Egc.
  { apply andb_true_iff in Egc as [Er _]. apply rule_eqb_eq in Er. contradiction. }
  unfold action_of in Ha.
  destruct (pr_body0 pp) as [to pay cont|pay cont from k0|to l cont|from bs|x b k0|c0|c0 k0|to from d|x y from k0|fn args pt|to cont|x from k0|c0 k0|l k0] eqn:Eb;
    try discriminate.
  - (* FRecv *) destruct (is_self from) eqn:Es.
    + destruct (rule_eqb (m_rule m) RRCV) eqn:Er; [|discriminate]. apply rule_eqb_eq in Er.
      injection He as <-. unfold no_eff. rewrite apply_recv_effect. cbn [pr_provs pr_body0 set_provs_body close_all foldr].
      rewrite Hcl. apply Hself; try done.
      * cbn. rewrite Er. set_solver.
      * intros j. cbn. rewrite Er, app_nil_r. done.
      * intros i Hi. apply elem_In in Hi. apply form_chans_subst in Hi as [Hi|Hi]; [|by destruct Hi].
        apply form_chans_subst in Hi as [Hi|Hi].
        -- left. apply elem_In. simpl. apply in_app_iff. by right.
        -- right. cbn in Hml |- *. rewrite Er in Hml |- *. apply NoDup_cons_iff in Hml as [Hml _].
           split; [right; by apply elem_In|]. intros ->. done.
    + destruct (rule_eqb (m_rule m) RSND) eqn:Er; [|discriminate]. apply rule_eqb_eq in Er.
      injection He as <-. unfold no_eff. rewrite apply_recv_effect. cbn [pr_provs pr_body0 set_body close_all foldr].
      rewrite Hcl. apply recv_on_inv in Ha as [Hcf _].
      assert (Hpm : provides (OMsg k m) = [k]) by (cbn; by rewrite Er).
      apply Hclient; try done.
      * intros i Hi. apply elem_In in Hi. apply form_chans_subst in Hi as [Hi|Hi]; [apply form_chans_subst in Hi as [Hi|Hi]|].
        -- left. apply elem_In. simpl. apply in_app_iff. by right.
        -- right. cbn. rewrite Er. apply elem_In. apply in_app_iff. by left.
        -- right. cbn. rewrite Er. apply elem_In. apply in_app_iff. by right.
      * intros Hi. apply elem_In in Hi. apply form_chans_subst in Hi as [Hi|Hi]; [apply form_chans_subst in Hi as [Hi|Hi]|].
        -- revert Hi. apply affr_aff in Hlin. unfold aff in Hlin. simpl in Hlin.
           assert (Hpd : pdes None from = false) by (unfold pdes, initialized; by rewrite Hcf). rewrite Hpd in Hlin.
           eapply (subj_consumed None (uname None from) (rmv [pay; cont]) (fun pk => pk) (pnames None k0) k k0); eauto.
           ++ apply uname_chan. unfold name_chans. rewrite Hcf. by left.
           ++ intros pk. apply rmv_chan.
        -- eapply (Hkm k); eauto. cbn. rewrite Er. apply elem_In, in_app_iff. by left.
        -- eapply (Hkm k); eauto. cbn. rewrite Er. apply elem_In, in_app_iff. by right.
  - (* FCase *) destruct (is_self from) eqn:Es.
    + destruct (rule_eqb (m_rule m) RBRA) eqn:Er; [|discriminate]. apply rule_eqb_eq in Er.
      destruct (find_branch (m_label m) bs) as [[pay K]|] eqn:Efb; [|discriminate].
      injection He as <-. unfold no_eff. rewrite apply_recv_effect. cbn [pr_provs pr_body0 set_provs_body close_all foldr].
      rewrite Hcl. apply Hself; try done.
      * cbn. rewrite Er. set_solver.
      * intros j. cbn. rewrite Er, app_nil_r. done.
      * intros i Hi. apply elem_In in Hi. apply form_chans_subst in Hi as [Hi|Hi]; [|by destruct Hi].
        left. apply elem_In. simpl. apply in_app_iff. right. by apply (find_branch_paths _ _ _ _ None Efb).
    + destruct (rule_eqb (m_rule m) RSEL) eqn:Er; [|discriminate]. apply rule_eqb_eq in Er.
      destruct (find_branch (m_label m) bs) as [[pay K]|] eqn:Efb; [|discriminate].
      injection He as <-. unfold no_eff. rewrite apply_recv_effect. cbn [pr_provs pr_body0 set_body close_all foldr].
      rewrite Hcl. apply recv_on_inv in Ha as [Hcf _].
      assert (Hpm : provides (OMsg k m) = [k]) by (cbn; by rewrite Er).
      destruct (find_branch_paths _ _ _ _ None Efb) as (Hfb1 & Hfb2 & _).
      apply Hclient; try done.
      * intros i Hi. apply elem_In in Hi. apply form_chans_subst in Hi as [Hi|Hi].
        -- left. apply elem_In. simpl. apply in_app_iff. right. by apply Hfb1.
        -- right. cbn. rewrite Er. by apply elem_In.
      * intros Hi. apply elem_In in Hi. apply form_chans_subst in Hi as [Hi|Hi].
        -- revert Hi. apply affr_aff in Hlin. unfold aff in Hlin. simpl in Hlin.
           assert (Hpd : pdes None from = false) by (unfold pdes, initialized; by rewrite Hcf). rewrite Hpd in Hlin.
           eapply (subj_consumed None (uname None from) (fun pk => pk) (rmv [pay]) (ne (pnames_bc None bs)) k K); eauto.
           ++ apply uname_chan. unfold name_chans. rewrite Hcf. by left.
           ++ intros pk. apply rmv_chan.
           ++ intros pk Hpk. apply in_ne. by apply Hfb2.
        -- eapply (Hkm k); eauto. cbn. rewrite Er. by apply elem_In.
  - (* FWait *)
    destruct (rule_eqb (m_rule m) RCLS) eqn:Er; [|discriminate]. apply rule_eqb_eq in Er.
    injection He as <-. unfold no_eff. rewrite apply_recv_effect. cbn [pr_provs pr_body0 set_body close_all foldr].
    rewrite Hcl. destruct (is_self c0) eqn:Es; [discriminate|]. apply recv_on_inv in Ha as [Hcf _].
    assert (Hpm : provides (OMsg k m) = [k]) by (cbn; by rewrite Er).
    apply Hclient; try done.
    + intros i Hi. left. apply elem_In. simpl. apply in_app_iff. right. by apply elem_In.
    + intros Hi. apply elem_In in Hi. revert Hi. apply affr_aff in Hlin. unfold aff in Hlin. simpl in Hlin.
      eapply (subj_consumed None (uname None c0) (fun pk => pk) (fun pk => pk) (pnames None k0) k k0); eauto.
      apply uname_chan. unfold name_chans. rewrite Hcf. by left.
  - (* FFwd: a positive forward relays the message *)
    destruct Hcore as [-> Hnf].
    assert (Hcf : chan from = Some k).
    { simpl in Ha. destruct (negb (is_self to)); [discriminate|].
      destruct (fwd_polarity D from) as [[| |]|w|w]; try discriminate; destruct (chan from); try discriminate. by injection Ha as ->. }
    assert (Hto : ~ In k (name_chans to)).
    { apply affr_aff in Hlin. unfold aff in Hlin. simpl in Hlin. apply Forall_inv in Hlin. intros Hin.
      eapply (dup_app (uname None to) (uname None from)); [exact Hlin|by apply uname_chan|].
      apply uname_chan. unfold name_chans. rewrite Hcf. by left. }
    assert (Hfin : forall body', provides (OMsg k m) = [k] ->
       (forall i, In i (form_chans body') -> In i (name_chans to) \/ i ∈ refs (OMsg k m)) ->
       Topo (apply_effect (put_msg c k st None) p pp (no_eff (Continue (set_body pp body'))))).
    { intros body' Hpm Hbd. unfold no_eff. rewrite apply_recv_effect. cbn [pr_provs pr_body0 set_body close_all foldr].
      rewrite Hcl. apply Hclient; try done.
      - intros i Hi. apply elem_In in Hi. destruct (Hbd i Hi) as [H|H]; [left|by right].
        apply elem_In. simpl. apply in_app_iff. by left.
      - intros Hi. apply elem_In in Hi. destruct (Hbd k Hi) as [H|H]; [done|]. by eapply (Hkm k). }
    destruct (m_rule m) eqn:Er; try discriminate; try (by destruct Hnf); injection He as <-; apply Hfin; cbn; rewrite ?Er; try done.
    + intros i Hi. simpl in Hi. rewrite !in_app_iff in Hi. rewrite elem_In, in_app_iff. tauto.
    + intros i Hi. simpl in Hi. left. exact Hi.
    + intros i Hi. simpl in Hi. rewrite !in_app_iff in Hi. rewrite elem_In. tauto.
    + intros i Hi. simpl in Hi. rewrite !in_app_iff in Hi. rewrite elem_In. tauto.
  - (* FShift *) destruct (is_self from) eqn:Es.
    + destruct (rule_eqb (m_rule m) RSHF) eqn:Er; [|discriminate]. apply rule_eqb_eq in Er.
      injection He as <-. unfold no_eff. rewrite apply_recv_effect. cbn [pr_provs pr_body0 set_provs_body close_all foldr].
      rewrite Hcl. apply Hself; try done.
      * cbn. rewrite Er. set_solver.
      * intros j. cbn. rewrite Er, app_nil_r. done.
      * intros i Hi. apply elem_In in Hi. apply form_chans_subst in Hi as [Hi|Hi]; [|by destruct Hi].
        left. apply elem_In. simpl. apply in_app_iff. by right.
    + destruct (rule_eqb (m_rule m) RCST) eqn:Er; [|discriminate]. apply rule_eqb_eq in Er.
      injection He as <-. unfold no_eff. rewrite apply_recv_effect. cbn [pr_provs pr_body0 set_body close_all foldr].
      rewrite Hcl. apply recv_on_inv in Ha as [Hcf _].
      assert (Hpm : provides (OMsg k m) = [k]) by (cbn; by rewrite Er).
      apply Hclient; try done.
      * intros i Hi. apply elem_In in Hi. apply form_chans_subst in Hi as [Hi|Hi].
        -- left. apply elem_In. simpl. apply in_app_iff. by right.
        -- right. cbn. rewrite Er. by apply elem_In.
      * intros Hi. apply elem_In in Hi. apply form_chans_subst in Hi as [Hi|Hi].
        -- revert Hi. apply affr_aff in Hlin. unfold aff in Hlin. simpl in Hlin.
           assert (Hpd : pdes None from = false) by (unfold pdes, initialized; by rewrite Hcf). rewrite Hpd in Hlin.
           eapply (subj_consumed None (uname None from) (rmv [x]) (fun pk => pk) (pnames None k0) k k0); eauto.
           ++ apply uname_chan. unfold name_chans. rewrite Hcf. by left.
           ++ intros pk. apply rmv_chan.
        -- eapply (Hkm k); eauto. cbn. rewrite Er. by apply elem_In.
Qed.

(* ------------------------------------------------------------------ ... and its new body is affine again *)
Lemma affr_find l bs pay K sh :
  find_branch l bs = Some (pay, K) -> (affr_bp bs -> affr (Some (ident pay)) K) /\ (affr_bc sh bs -> affr sh K).
Proof.
  induction bs as [|l' p' k' r IH]; simpl; [discriminate|]. destruct (String.eqb l' l).
  - intros [= -> ->]. tauto.
  - intros H. destruct (IH H). tauto.
Qed.

Lemma prov_pdes rs n : prov_name None rs n -> pdes None n = true /\ uname None n = [] /\ is_self n = true.
Proof.
  intros Hp. destruct (uname_prov None rs n Hp) as [H1 H2]. split; [done|]. split; [done|].
  destruct Hp as [_ [[H _]|[_ H]]]; [done|discriminate].
Qed.

Lemma chan_ty_chan Δ n t : chan_ty teq Δ n t -> exists kc, chan n = Some kc /\ uname None n = [KC kc] /\ name_chans n = [kc].
Proof.
  intros H. destruct (client_closed teq Δ n t H) as [_ (kc & t' & Hc & _)]. exists kc. unfold uname, name_chans. by rewrite Hc.
Qed.

Lemma lin_recv_step Δ c p pp k st m e :
  cfg_typed D F teq Δ c -> Topo c -> LinCfg c -> procs c !! p = Some pp ->
  action_of Async D pp = ARecv k -> chans c !! k = Some st -> ch_buf st = Some m ->
  on_message p pp m = EOk e -> core_recv pp m ->
  exists pp1 cl, e = Eff (Continue pp1) [] [] cl [] /\ affr None (pr_body0 pp1).
Proof.
  intros Hc Ht Hl Hp Ha Hk Hb He [Hgc Hcore].
  assert (Hmsg : obj_in c (OMsg k m)) by (exists st; done).
  assert (Hlin : affr None (pr_body0 pp)) by (exact (lc_procs c Hl p pp Hp)).
  assert (Hml : NoDup (refs (OMsg k m))) by (exact (lc_msgs c Hl k st m Hk Hb)).
  destruct (ct_procs D F teq Δ c Hc p pp Hp) as (s & rs & Hne & Hprovs & Hty).
  pose proof (ct_msgs D F teq Δ c Hc k st m Hk Hb) as (Tm & HTm & Hmt).
  pose proof (recv_view_of pp k Hne Ha) as Hview.
  (* a channel the message refers to does not occur in the receiver *)
  assert (Hfreshc : forall j, j ∈ refs (OMsg k m) -> ~ In j (form_chans (pr_body0 pp))).
  { intros j Hj Hin. assert (E : OProc p pp = OMsg k m); [|discriminate].
    eapply (topo_ref_unique c Ht _ _ j); eauto. cbn. by apply elem_In. }
  (* when the receiver owns k: the type of the body is the type of k *)
  assert (Hown : k ∈ refs (OMsg k m) -> teq Tm s).
  { intros Hkr. destruct Hview as [n Hn Hcn _|Hcl]; [|by destruct (Hfreshc k Hkr)].
    rewrite Hn in Hprovs. apply Forall_inv in Hprovs. destruct Hprovs as (c0 & t' & Hc0 & Ht' & Hteq').
    rewrite Hcn in Hc0. injection Hc0 as <-. rewrite HTm in Ht'. by injection Ht' as <-. }
  unfold on_message in He. fold (is_fwd_body pp) in He.
  destruct (rule_eqb (m_rule m) RFWD && negb (is_fwd_body pp)) eqn:Ereq.
  { injection He as <-. eexists _, _. split; [reflexivity|]. exact Hlin. }
  destruct (rule_eqb (m_rule m) RGC && negb (is_fwd_body pp)) eqn:Egc.
  { apply andb_true_iff in Egc as [Er _]. apply rule_eqb_eq in Er. contradiction. }
  unfold action_of in Ha.
  destruct (pr_body0 pp) as [to pay cont|pay cont from k0|to l cont|from bs|x b k0|c0|c0 k0|to from d|x y from k0|fn args pt|to cont|x from k0|c0 k0|l k0] eqn:Eb;
    try discriminate.
  - (* FRecv *) destruct (is_self from) eqn:Es.
    + destruct (rule_eqb (m_rule m) RRCV) eqn:Er; [|discriminate]. apply rule_eqb_eq in Er.
      injection He as <-. eexists _, _. split; [reflexivity|]. cbn [pr_body0 set_provs_body].
      rewrite Er in Hmt. destruct Hmt as (A' & B' & md' & Hwm & Hc1 & Hc2).
      destruct (chan_ty_chan Δ _ _ Hc1) as (kc1 & Hkc1 & _ & Hn1).
      inversion Hty as [| |? ? ? ? pay' cont' from' k' A B md Hpf Hw Hbp Hbc Hpc Hk0|? ? ? ? ? ? ? ? T A B md Hcf| | | | | | | | | | | | | | | |]; subst.
      2: { destruct Hcf as [Hcf _]. congruence. }
      destruct (prov_pdes _ _ Hpf) as (Hpd & _ & _).
      simpl in Hlin. rewrite Hpd in Hlin. destruct Hlin as [_ Hlin].
      assert (Hkr : k ∈ refs (OMsg k m)) by (cbn; rewrite Er; set_solver).
      pose proof (head_of D teq Hteq Tm s _ _ (Hown Hkr) Hwm Hw) as [HA HB].
      assert (Hf1 : ~ In kc1 (form_chans k0)).
      { intros Hin. apply (Hfreshc kc1); [cbn; rewrite Er, Hn1; set_solver|]. simpl. apply in_app_iff. by right. }
      assert (Haf1 : affr (Some (ident cont)) (subst pay (m_c1 m) k0)).
      { apply (affr_subst D F teq Hteq Δ (delete (ident cont) ∅) (Some (ident cont)) (rs ∖ {[ident pay]} ∖ ({[ident cont]} ∖ {[""]})) B k0 pay (m_c1 m) kc1 A (proj1 Hbp) Hkc1);
          [intros [= E]; by apply Hpc|set_solver|exact Hk0|exact Hf1|exact Hlin]. }
      assert (Hty1 : typed D F teq Δ (delete (ident cont) ∅) (Some (ident cont)) (rs ∖ {[ident pay]} ∖ ({[ident cont]} ∖ {[""]})) B (subst pay (m_c1 m) k0)).
      { apply (typed_subst D F teq Hteq Δ _ _ _ _ k0 pay (m_c1 m) A (proj1 Hbp));
          [eapply chan_ty_is_chan; eauto|intros [= E]; by apply Hpc|set_solver|exact Hk0]. }
      apply (pnames_subst_shadow D F teq Hteq Δ _ _ _ _ cont Hbc (lookup_delete _ _) Hty1). exact Haf1.
    + destruct (rule_eqb (m_rule m) RSND) eqn:Er; [|discriminate]. apply rule_eqb_eq in Er.
      injection He as <-. eexists _, _. split; [reflexivity|]. cbn [pr_body0 set_body].
      rewrite Er in Hmt. destruct Hmt as (A' & B' & md' & Hwm & Hc1 & Hc2).
      destruct (chan_ty_chan Δ _ _ Hc1) as (kc1 & Hkc1 & _ & Hn1). destruct (chan_ty_chan Δ _ _ Hc2) as (kc2 & Hkc2 & _ & Hn2).
      inversion Hty as [| |? ? ? ? pay' cont' from' k' A B md Hpf|? ? ? ? ? ? ? ? T A B md Hcf Hw Hbp Hbc Hpc Hs1 Hs2 Hk0| | | | | | | | | | | | | | | |]; subst.
      { destruct (prov_pdes _ _ Hpf) as (_ & _ & Hsf). congruence. }
      apply recv_on_inv in Ha as [Hcfrom _].
      destruct (client_closed teq Δ from T Hcf) as [_ (cf & tf & Hcf1 & Hcf2 & Hcf3)].
      rewrite Hcfrom in Hcf1. injection Hcf1 as <-. rewrite HTm in Hcf2. injection Hcf2 as <-.
      pose proof (head_of D teq Hteq Tm T _ _ Hcf3 Hwm Hw) as [HA HB].
      assert (Hpd : pdes None from = false) by (unfold pdes, initialized; by rewrite Hcfrom).
      simpl in Hlin. rewrite Hpd in Hlin. destruct Hlin as [_ Hlin].
      assert (Hf1 : ~ In kc1 (form_chans k0)).
      { intros Hin. apply (Hfreshc kc1); [cbn; rewrite Er, Hn1; set_solver|]. simpl. apply in_app_iff. by right. }
      assert (Hf2 : ~ In kc2 (form_chans k0)).
      { intros Hin. apply (Hfreshc kc2); [cbn; rewrite Er, Hn2; set_solver|]. simpl. apply in_app_iff. by right. }
      assert (Hk0' : typed D F teq Δ (<[ident pay := A]> (<[ident cont := B]> ∅)) None (rs ∖ {[ident pay]} ∖ {[ident cont]}) s k0).
      { rewrite insert_commute by auto. exact Hk0. }
      assert (Haf1 : affr None (subst pay (m_c1 m) k0)).
      { apply (affr_subst D F teq Hteq Δ (<[ident cont := B]> ∅) None (rs ∖ {[ident pay]} ∖ {[ident cont]}) s k0 pay (m_c1 m) kc1 A (proj1 Hbp) Hkc1);
          [discriminate|set_solver|exact Hk0'|exact Hf1|exact Hlin]. }
      assert (Hty1 : typed D F teq Δ (<[ident cont := B]> ∅) None (rs ∖ {[ident pay]} ∖ {[ident cont]}) s (subst pay (m_c1 m) k0)).
      { apply (typed_subst D F teq Hteq Δ _ _ _ _ k0 pay (m_c1 m) A (proj1 Hbp));
          [eapply chan_ty_is_chan; eauto|discriminate|set_solver|exact Hk0']. }
      apply (affr_subst D F teq Hteq Δ ∅ None (rs ∖ {[ident pay]} ∖ {[ident cont]}) s _ cont (m_c2 m) kc2 B (proj1 Hbc) Hkc2);
        [discriminate|set_solver|exact Hty1| |exact Haf1].
      intros Hin. apply form_chans_subst in Hin as [Hin|Hin]; [done|]. rewrite Hn1 in Hin. destruct Hin as [->|[]].
      cbn in Hml. rewrite Er, Hn1, Hn2 in Hml. apply NoDup_cons_iff in Hml as [Hml _]. apply Hml. by left.
  - (* FCase *) destruct (is_self from) eqn:Es.
    + destruct (rule_eqb (m_rule m) RBRA) eqn:Er; [|discriminate].
      destruct (find_branch (m_label m) bs) as [[pay K]|] eqn:Efb; [|discriminate].
      injection He as <-. eexists _, _. split; [reflexivity|]. cbn [pr_body0 set_provs_body].
      inversion Hty as [| | | | | |? ? ? ? from' b' bs' md Hpf Hw Hcov Hbr|? ? ? ? ? ? T bs' md Hcf| | | | | | | | | | | |]; subst.
      2: { destruct Hcf as [Hcf _]. congruence. }
      destruct (prov_pdes _ _ Hpf) as (Hpd & _ & _).
      simpl in Hlin. rewrite Hpd in Hlin. destruct Hlin as [_ Hlin].
      destruct (typed_brs_p_find D F teq Δ ∅ rs bs' bs _ _ _ Hbr Efb) as (A & _ & Hbp & HK).
      apply (pnames_subst_shadow D F teq Hteq Δ _ _ _ _ pay Hbp (lookup_delete _ _) HK).
      by apply (affr_find _ _ _ _ None Efb).
    + destruct (rule_eqb (m_rule m) RSEL) eqn:Er; [|discriminate]. apply rule_eqb_eq in Er.
      destruct (find_branch (m_label m) bs) as [[pay K]|] eqn:Efb; [|discriminate].
      injection He as <-. eexists _, _. split; [reflexivity|]. cbn [pr_body0 set_body].
      rewrite Er in Hmt. destruct Hmt as (bs0 & md' & A' & Hwm & Hfb0 & Hc1 & _).
      destruct (chan_ty_chan Δ _ _ Hc1) as (kc1 & Hkc1 & _ & Hn1).
      inversion Hty as [| | | | | |? ? ? ? from' b' bs' md Hpf|? ? ? ? ? ? T bs' md Hcf Hw Hcov Hbr| | | | | | | | | | | |]; subst.
      { destruct (prov_pdes _ _ Hpf) as (_ & _ & Hsf). congruence. }
      apply recv_on_inv in Ha as [Hcfrom _].
      assert (Hpd : pdes None from = false) by (unfold pdes, initialized; by rewrite Hcfrom).
      simpl in Hlin. rewrite Hpd in Hlin. destruct Hlin as [_ Hlin].
      destruct (typed_brs_c_find D F teq Δ ∅ None rs s bs' bs _ _ _ Hbr Efb) as (A & _ & Hbp & _ & HK).
      apply (affr_subst D F teq Hteq Δ ∅ None (rs ∖ {[ident pay]}) s K pay (m_c1 m) kc1 A (proj1 Hbp) Hkc1);
        [discriminate|set_solver|exact HK| |by apply (affr_find _ _ _ _ None Efb)].
      intros Hin. apply (Hfreshc kc1); [cbn; rewrite Er, Hn1; set_solver|]. simpl. apply in_app_iff. right.
      by apply (find_branch_paths _ _ _ _ None Efb).
  - (* FWait *)
    destruct (rule_eqb (m_rule m) RCLS) eqn:Er; [|discriminate].
    injection He as <-. eexists _, _. split; [reflexivity|]. cbn [pr_body0 set_body].
    simpl in Hlin. tauto.
  - (* FFwd *)
    destruct Hcore as [-> Hnf].
    inversion Hty as [| | | | | | | | | | |? ? ? ? to' from' d' Hpt Hcf| | | | | | | |]; subst.
    destruct (prov_pdes _ _ Hpt) as (_ & Hut & _).
    destruct (m_rule m) eqn:Er; try discriminate; try (by destruct Hnf); injection He as <-;
      (eexists _, _; split; [reflexivity|]); cbn [pr_body0 set_body]; (split; [|exact I]); simpl; rewrite Hut; simpl;
      (constructor; [|constructor]).
    + (* SND *) destruct Hmt as (A' & B' & md' & Hwm & Hc1 & Hc2).
      destruct (chan_ty_chan Δ _ _ Hc1) as (kc1 & _ & Hu1 & Hn1). destruct (chan_ty_chan Δ _ _ Hc2) as (kc2 & _ & Hu2 & Hn2).
      rewrite Hu1, Hu2. simpl. cbn in Hml. rewrite Er, Hn1, Hn2 in Hml. simpl in Hml.
      inversion Hml as [|a0 l0 Hni _]; subst. constructor; [|constructor; [simpl; tauto|constructor]].
      intros [[= E]|[]]. apply Hni. left. done.
    + (* CLS *) constructor.
    + (* CST *) destruct Hmt as (fm & tm & A' & Hwm & Hc1 & _).
      destruct (chan_ty_chan Δ _ _ Hc1) as (kc1 & _ & Hu1 & _). rewrite Hu1. constructor; [simpl; tauto|constructor].
    + (* SEL *) destruct Hmt as (bs0 & md' & A' & Hwm & Hfb0 & Hc1 & _).
      destruct (chan_ty_chan Δ _ _ Hc1) as (kc1 & _ & Hu1 & _). rewrite Hu1. constructor; [simpl; tauto|constructor].
  - (* FShift *) destruct (is_self from) eqn:Es.
    + destruct (rule_eqb (m_rule m) RSHF) eqn:Er; [|discriminate].
      injection He as <-. eexists _, _. split; [reflexivity|]. cbn [pr_body0 set_provs_body].
      inversion Hty as [| | | | | | | | | | | | | | | |? ? ? ? x' from' k' fm tm A Hpf Hw Hbx Hk0|? ? ? ? ? ? ? T fm tm A Hcf| |]; subst.
      2: { destruct Hcf as [Hcf _]. congruence. }
      destruct (prov_pdes _ _ Hpf) as (Hpd & _ & _).
      simpl in Hlin. rewrite Hpd in Hlin. destruct Hlin as [_ Hlin].
      apply (pnames_subst_shadow D F teq Hteq Δ _ _ _ _ x Hbx (lookup_delete _ _) Hk0). exact Hlin.
    + destruct (rule_eqb (m_rule m) RCST) eqn:Er; [|discriminate]. apply rule_eqb_eq in Er.
      injection He as <-. eexists _, _. split; [reflexivity|]. cbn [pr_body0 set_body].
      rewrite Er in Hmt. destruct Hmt as (fm' & tm' & A' & Hwm & Hc1 & _).
      destruct (chan_ty_chan Δ _ _ Hc1) as (kc1 & Hkc1 & _ & Hn1).
      inversion Hty as [| | | | | | | | | | | | | | | |? ? ? ? x' from' k' fm tm A Hpf|? ? ? ? ? ? ? T fm tm A Hcf Hw Hbx Hs1 Hk0| |]; subst.
      { destruct (prov_pdes _ _ Hpf) as (_ & _ & Hsf). congruence. }
      apply recv_on_inv in Ha as [Hcfrom _].
      assert (Hpd : pdes None from = false) by (unfold pdes, initialized; by rewrite Hcfrom).
      simpl in Hlin. rewrite Hpd in Hlin. destruct Hlin as [_ Hlin].
      apply (affr_subst D F teq Hteq Δ ∅ None (rs ∖ {[ident x]}) s k0 x (m_c1 m) kc1 A (proj1 Hbx) Hkc1);
        [discriminate|set_solver|exact Hk0| |exact Hlin].
      intros Hin. apply (Hfreshc kc1); [cbn; rewrite Er, Hn1; set_solver|]. simpl. apply in_app_iff. by right.
Qed.

(* ------------------------------------------------------------------ calls *)
Definition funs_aff (Fs : list fundef) : Prop := Forall (fun fd => affr None (fn_body fd)) Fs.

Lemma sub_all_affr Δ rs s : forall args ps, args_ok teq Δ ∅ None args ps ->
  forall b, Forall binder ps -> Forall (fun p => ident p ∉ rs) ps ->
  typed D F teq Δ (params_ctx ps) None rs s b ->
  NoDup (flat_map name_chans args) ->
  (forall k, In k (form_chans b) -> ~ In k (flat_map name_chans args)) ->
  affr None b ->
  affr None (sub_all ps args b) /\
  (forall k, In k (form_chans (sub_all ps args b)) -> In k (form_chans b) \/ In k (flat_map name_chans args)).
Proof.
  intros args ps Ha. induction Ha as [|a p args ps [t [Hnt Hc]] Ha IH]; intros b Hb Hrs Hty Hnd Hfr Haf; simpl.
  - split; [exact Haf|]. intros k Hk. by left.
  - inversion Hb as [|? ? Hb1 Hb2]; subst. inversion Hrs as [|? ? Hrs1 Hrs2]; subst.
    destruct (client_closed teq Δ a t Hc) as [_ (ka & ta & Hka & _)].
    assert (Hna : name_chans a = [ka]) by (unfold name_chans; by rewrite Hka).
    simpl in Hnd, Hfr. rewrite Hna in Hnd, Hfr. simpl in Hnd. inversion Hnd as [|? ? Hni Hnd']; subst.
    rewrite (params_ctx_cons _ _ _ Hnt) in Hty.
    assert (Hty' : typed D F teq Δ (params_ctx ps) None rs s (subst p a b)).
    { apply (typed_subst D F teq Hteq Δ (params_ctx ps) None rs s b p a t (proj1 Hb1));
        [eapply chan_ty_is_chan; [exact Hteq|exact Hc|apply (teq_refl D teq Hteq)]|discriminate|exact Hrs1|exact Hty]. }
    assert (Haf' : affr None (subst p a b)).
    { apply (affr_subst D F teq Hteq Δ (params_ctx ps) None rs s b p a ka t (proj1 Hb1) Hka); try done.
      intros Hin. apply (Hfr ka Hin). by left. }
    destruct (IH (subst p a b) Hb2 Hrs2 Hty' Hnd') as [H1 H2]; [|exact Haf'|].
    + intros k Hk Hin. apply form_chans_subst in Hk as [Hk|Hk].
      * apply (Hfr k Hk). by right.
      * rewrite Hna in Hk. destruct Hk as [<-|[]]. done.
    + split; [exact H1|]. intros k Hk. rewrite Hna. destruct (H2 k Hk) as [H|H]; [|right; by right].
      apply form_chans_subst in H as [H|H]; [by left|]. rewrite Hna in H. destruct H as [<-|[]]. right. by left.
Qed.

Lemma kcs_flat_uname args : kcs (flat_map (uname None) args) = flat_map name_chans args.
Proof. induction args as [|a r IH]; simpl; auto. by rewrite kcs_app, kcs_uname, IH. Qed.

Lemma call_affr Δ rs s fn args pt b :
  typed D F teq Δ ∅ None rs s (FCall fn args pt) -> funs_aff F -> affr None (FCall fn args pt) ->
  call_body F fn args = Some b ->
  affr None b /\ (forall k, In k (form_chans b) -> In k (form_chans (FCall fn args pt))).
Proof.
  intros H HFa Haf Hcb.
  inversion H as [| | | | | | | | | | | | |Γ sh rs0 s0 fn0 args0 pt0 fd tf Hg Hft Ht Hargs| | | | | |]; subst.
  pose proof (get_function_In _ _ _ _ Hg) as Hin.
  pose proof HF as HF'. unfold funs_typed in HF'. rewrite Forall_forall in HF'. specialize (HF' fd Hin).
  unfold funs_aff in HFa. rewrite Forall_forall in HFa. specialize (HFa fd Hin).
  destruct HF' as [tf' [Hft' [Hb [Hnd [Hnt Hbody]]]]]. rewrite Hft in Hft'. injection Hft' as <-.
  rewrite call_body_unfold, Hg in Hcb. cbn zeta in Hcb.
  assert (Hbne : Forall (fun p => ident p ∉ ({[ "" ]} : gset string)) (fn_params fd)).
  { eapply Forall_impl; [|exact Hb]. intros p [_ Hp]. set_solver. }
  assert (Hw : forall Γ rs1 t b0, RtTyping.typed D F teq ∅ Γ None rs1 t b0 -> typed D F teq Δ Γ None rs1 t b0).
  { intros. eapply typed_weaken; [apply map_empty_subseteq|eauto]. }
  assert (Hnoch : forall Γ rs1 t b0, RtTyping.typed D F teq ∅ Γ None rs1 t b0 -> forall k, ~ In k (form_chans b0)).
  { intros Γ rs1 t b0 Hb0 k Hk. destruct (form_chans_typed D F teq ∅ Γ None rs1 t b0 k Hb0 Hk) as [v Hv].
    rewrite lookup_empty in Hv. discriminate. }
  assert (Hndargs : NoDup (flat_map name_chans args)).
  { apply affr_aff in Haf. unfold aff in Haf. simpl in Haf. apply Forall_inv in Haf. apply NoDup_kcs in Haf.
    by rewrite kcs_flat_uname in Haf. }
  simpl form_chans.
  destruct Hargs as [[Hl Ha]|[a0 [rest [-> [Hl [Hp Ha]]]]]].
  - rewrite Hl, Nat.eqb_refl in Hcb.
    assert (E : b = sub_all (fn_params fd) args (fn_body fd)) by (destruct (fn_explicit fd); congruence). subst b.
    destruct (fn_explicit fd) as [ep|].
    + destruct Hbody as [Hep1 [Hep2 Hbody]].
      destruct (sub_all_affr Δ {[ ""; ident ep ]} tf args (fn_params fd) Ha (fn_body fd) Hb (params_not_rs _ _ Hb Hep2) (Hw _ _ _ _ Hbody) Hndargs) as [H1 H2];
        [intros k Hk; by destruct (Hnoch _ _ _ _ Hbody k)|exact HFa|].
      split; [exact H1|]. intros k Hk. destruct (H2 k Hk) as [H0|H0]; [by destruct (Hnoch _ _ _ _ Hbody k)|exact H0].
    + destruct (sub_all_affr Δ {[ "" ]} tf args (fn_params fd) Ha (fn_body fd) Hb Hbne (Hw _ _ _ _ Hbody) Hndargs) as [H1 H2];
        [intros k Hk; by destruct (Hnoch _ _ _ _ Hbody k)|exact HFa|].
      split; [exact H1|]. intros k Hk. destruct (H2 k Hk) as [H0|H0]; [by destruct (Hnoch _ _ _ _ Hbody k)|exact H0].
  - simpl length in Hcb. rewrite Hl in Hcb.
    assert (E1 : (S (length (fn_params fd)) =? length (fn_params fd))%nat = false) by (apply Nat.eqb_neq; lia).
    rewrite E1, Nat.eqb_refl in Hcb.
    assert (Hna0 : name_chans a0 = []) by (unfold name_chans; destruct Hp as [-> _]; done).
    simpl in Hndargs |- *. rewrite Hna0 in Hndargs |- *. simpl in Hndargs |- *.
    apply prov_closed in Hp. destruct Hp as [Hp1 Hp2]. rewrite Hp1 in Hcb.
    destruct (fn_explicit fd) as [ep|].
    + destruct Hbody as [Hep1 [Hep2 Hbody]]. injection Hcb as <-.
      assert (Hfr : params_ctx (fn_params fd) !! ident ep = None) by (apply params_ctx_None; auto).
      destruct (pnames_subst_explicit D F teq Hteq Δ _ _ _ _ ep Hep1 Hfr (Hw _ _ _ _ Hbody)) as [_ Haf'].
      assert (Hty' : typed D F teq Δ (params_ctx (fn_params fd)) None ({[ ""; ident ep ]} ∪ {[ "" ]}) tf (subst ep (new_self "") (fn_body fd))).
      { eapply typed_subst_explicit; eauto. }
      assert (Hno' : forall k, ~ In k (form_chans (subst ep (new_self "") (fn_body fd)))).
      { intros k Hk. apply form_chans_subst in Hk as [Hk|Hk]; [by destruct (Hnoch _ _ _ _ Hbody k)|destruct Hk]. }
      destruct (sub_all_affr Δ ({[ ""; ident ep ]} ∪ {[ "" ]}) tf rest (fn_params fd) Ha _ Hb
                  ltac:(eapply Forall_impl; [|apply (params_not_rs _ _ Hb Hep2)]; intros p0 Hp0; simpl in Hp0; set_solver)
                  Hty' Hndargs) as [H1 H2]; [intros k Hk; by destruct (Hno' k)|by apply Haf'|].
      split; [exact H1|]. intros k Hk. destruct (H2 k Hk) as [H0|H0]; [by destruct (Hno' k)|exact H0].
    + injection Hcb as <-. simpl.
      destruct (sub_all_affr Δ {[ "" ]} tf rest (fn_params fd) Ha (fn_body fd) Hb Hbne (Hw _ _ _ _ Hbody) Hndargs) as [H1 H2];
        [intros k Hk; by destruct (Hnoch _ _ _ _ Hbody k)|exact HFa|].
      split; [exact H1|]. intros k Hk. destruct (H2 k Hk) as [H0|H0]; [by destruct (Hnoch _ _ _ _ Hbody k)|exact H0].
Qed.

(* ------------------------------------------------------------------ the core fragment is closed under steps *)
Record CoreCfg (c : config) : Prop := {
  cc_procs : forall p pp, procs c !! p = Some pp -> core_form (pr_body0 pp) = true /\ exists n, pr_provs pp = [n];
  cc_msgs : forall k st m, chans c !! k = Some st -> ch_buf st = Some m ->
              m_rule m <> RGC /\ (m_rule m = RFWD -> exists n, m_provs m = [n])
}.
Definition core_funs (Fs : list fundef) : Prop := Forall (fun fd => core_form (fn_body fd) = true) Fs.

Lemma core_recv_shape p pp m e n0 :
  on_message p pp m = EOk e -> core_form (pr_body0 pp) = true -> pr_provs pp = [n0] ->
  m_rule m <> RGC -> (m_rule m = RFWD -> exists n, m_provs m = [n]) ->
  exists pp1 cl, e = Eff (Continue pp1) [] [] cl [] /\ core_form (pr_body0 pp1) = true /\ exists n, pr_provs pp1 = [n].
Proof.
  intros He Hcore Hpv Hgc Hmp. unfold on_message in He.
  destruct (rule_eqb (m_rule m) RFWD && negb _) eqn:E1.
  { apply andb_true_iff in E1 as [E1 _]. apply rule_eqb_eq in E1. injection He as <-.
    eexists _, _. split; [reflexivity|]. cbn. split; [done|]. by apply Hmp. }
  destruct (rule_eqb (m_rule m) RGC && negb _) eqn:E2.
  { apply andb_true_iff in E2 as [E2 _]. apply rule_eqb_eq in E2. contradiction. }
  destruct (pr_body0 pp) as [to pay cont|pay cont from k0|to l cont|from bs|x b k0|c0|c0 k0|to from d|x y from k0|fn args pt|to cont|x from k0|c0 k0|l k0] eqn:Eb;
    try discriminate; simpl in Hcore.
  - destruct (is_self from); [destruct (rule_eqb (m_rule m) RRCV)|destruct (rule_eqb (m_rule m) RSND)]; try discriminate; injection He as <-;
      (eexists _, _; split; [reflexivity|]); cbn; rewrite ?core_subst; eauto.
  - destruct (is_self from); [destruct (rule_eqb (m_rule m) RBRA)|destruct (rule_eqb (m_rule m) RSEL)]; try discriminate;
      destruct (find_branch (m_label m) bs) as [[pay K]|] eqn:Efb; try discriminate; injection He as <-;
      (eexists _, _; split; [reflexivity|]); cbn; rewrite ?core_subst; (split; [eapply core_find; eauto|eauto]).
  - destruct (rule_eqb (m_rule m) RCLS); try discriminate; injection He as <-;
      (eexists _, _; split; [reflexivity|]); cbn; eauto.
  - destruct d; [discriminate|].
    destruct (m_rule m) eqn:Er; try discriminate; try (injection He as <-; (eexists _, _; split; [reflexivity|]); cbn; eauto; fail).
    destruct (m_provs m) as [|q r] eqn:Em; [discriminate|]. injection He as <-.
    eexists _, _. split; [reflexivity|]. cbn. split; [done|]. destruct (Hmp eq_refl) as [n Hn]. injection Hn as -> ->. eauto.
  - destruct (is_self from); [destruct (rule_eqb (m_rule m) RSHF)|destruct (rule_eqb (m_rule m) RCST)]; try discriminate; injection He as <-;
      (eexists _, _; split; [reflexivity|]); cbn; rewrite ?core_subst; eauto.
Qed.

(* sends of the core fragment: no GC request, and a forward request carries the providers of the forward *)
Lemma core_send_msg pp k m : core_form (pr_body0 pp) = true -> action_of Async D pp = ASend k m ->
  m_rule m <> RGC /\ (m_rule m = RFWD -> m_provs m = pr_provs pp).
Proof.
  intros Hcore Ha. unfold action_of in Ha.
  destruct (pr_body0 pp) as [to pay cont|pay cont from k0|to l cont|from bs|x b k0|c0|c0 k0|to from d|x y from k0|fn args pt|to cont|x from k0|c0 k0|l k0] eqn:Eb;
    simpl in Ha, Hcore;
    repeat match type of Ha with
           | (if ?b then _ else _) = _ => destruct b eqn:?
           | match ?x with _ => _ end = _ => destruct x eqn:?
           end;
    try discriminate;
    try (unfold internal in Ha; destruct (multi pp); discriminate);
    try (unfold recv_on in Ha; repeat match type of Ha with
           | (if ?b then _ else _) = _ => destruct b
           | match ?x with _ => _ end = _ => destruct x
           end; discriminate);
    try (apply send_on_chan in Ha as [_ ->]; cbn; split; discriminate);
    try (injection Ha as <- <-; cbn; split; [discriminate|done]).
  all: destruct d; [discriminate|]; injection Ha as <- <-; cbn; split; [discriminate|done].
Qed.

(* ------------------------------------------------------------------ the channels of the objects of a typed configuration are typed *)
Lemma obj_chans_typed Δ c o k :
  cfg_typed D F teq Δ c -> obj_in c o -> k ∈ provides o \/ k ∈ refs o -> is_Some (Δ !! k).
Proof.
  intros Hc Ho Hk. destruct o as [p pp|k0 m].
  - destruct (ct_procs D F teq Δ c Hc p pp Ho) as (s & rs & Hne & Hprovs & Hty). destruct Hk as [Hk|Hk]; cbn in Hk.
    + apply elem_In in Hk. unfold cids_of in Hk. apply in_flat_map in Hk as (n & Hn & Hk).
      rewrite Forall_forall in Hprovs. destruct (Hprovs n Hn) as (c0 & t' & Hc0 & Ht' & _).
      rewrite Hc0 in Hk. destruct Hk as [<-|[]]. eauto.
    + apply elem_In in Hk. eapply form_chans_typed; eauto.
  - destruct Ho as (st & Hst & Hb). destruct (ct_msgs D F teq Δ c Hc k0 st m Hst Hb) as (T & HT & Hm).
    assert (Hch : forall n t j, chan_ty teq Δ n t -> j ∈ name_chans n -> is_Some (Δ !! j)).
    { intros n t j Hn Hj. destruct (client_closed teq Δ n t Hn) as [_ (c0 & t' & Hc0 & Ht' & _)].
      unfold name_chans in Hj. rewrite Hc0 in Hj. apply elem_of_list_singleton in Hj as ->. eauto. }
    assert (Hpv : forall n t j, prov_ty teq Δ n t -> j ∈ name_chans n -> is_Some (Δ !! j)).
    { intros n t j (c0 & t' & Hc0 & Ht' & _) Hj. unfold name_chans in Hj. rewrite Hc0 in Hj. apply elem_of_list_singleton in Hj as ->. eauto. }
    assert (Hk0 : is_Some (Δ !! k0)) by eauto.
    cbn in Hk. destruct (m_rule m);
      repeat match goal with
             | H : exists _, _ |- _ => destruct H
             | H : _ /\ _ |- _ => destruct H
             end;
      destruct Hk as [Hk|Hk];
      repeat match goal with
             | H : _ ∈ _ ++ _ |- _ => apply elem_of_app in H as [H|H]
             | H : _ ∈ _ :: _ |- _ => apply elem_of_cons in H as [->|H]
             | H : _ ∈ [] |- _ => by apply elem_of_nil in H
             end; eauto.
    (* FWD: the providers handed over *)
    apply elem_In in Hk. unfold cids_of in Hk. apply in_flat_map in Hk as (n & Hn & Hk).
    match goal with H : Forall _ (m_provs m) |- _ => rewrite Forall_forall in H; specialize (H n Hn) end.
    eapply Hpv; eauto. by apply elem_In.
Qed.

Lemma apply_cont_effect c p pp pp1 o :
  apply_effect c p pp (Eff (Continue pp1) [] [] [] o) =
  Cfg (<[p := Proc (pr_provs pp1) (pr_body0 pp1) (pr_next pp1 + 0)]> (procs c)) (chans c)
      (map (fun l => (p, l)) (rev o) ++ out c).
Proof. reflexivity. Qed.

Lemma apply_new_effect c p provs x b k0 nx cn kn B' :
  apply_effect c p (Proc provs (FNew x b k0) nx)
    (Eff (Continue (set_body (Proc provs (FNew x b k0) (S nx)) B')) [Spawn [cn] b] [kn] [] []) =
  Cfg (<[p := Proc provs B' (S nx + 1 + 1)]> (<[p ++ [(S nx + 1)%nat] := Proc [cn] b 0]> (procs c)))
      (<[kn := empty_chan]> (chans c)) (out c).
Proof.
  rewrite apply_effect_eq. cbn [e_close e_newch e_spawn e_after e_out close_all new_all foldr].
  unfold procs_after, eff_next1, eff_next0, eff_base. cbn [e_after e_newch e_spawn length pr_next set_body pr_provs pr_body0].
  rewrite spawned_cons. unfold spawned. cbn [add_spawns fst]. rewrite (left_id_L ∅ (∪)).
  rewrite <- insert_union_singleton_l. reflexivity.
Qed.

(* ------------------------------------------------------------------ the invariant and its preservation by asynchronous steps *)
Record Inv (c : config) : Prop := {
  inv_typed : exists Δ, cfg_typed D F teq Δ c;
  inv_topo : Topo c;
  inv_lin : LinCfg c;
  inv_core : CoreCfg c;
  inv_ns : ns_ok c
}.

Lemma core_call_body fn args b : core_funs F -> call_body F fn args = Some b -> core_form b = true.
Proof.
  intros HFc. rewrite call_body_unfold. destruct (get_function F fn (length args)) as [fd|] eqn:Hg; [|discriminate].
  apply get_function_In in Hg. unfold core_funs in HFc. rewrite Forall_forall in HFc. specialize (HFc fd Hg).
  assert (Hsub : forall ps ar b0, core_form (sub_all ps ar b0) = core_form b0).
  { induction ps as [|q ps IH]; intros [|a ar] b0; simpl; auto. by rewrite IH, core_subst. }
  cbn zeta. destruct (fn_explicit fd); repeat case_match; intros [= <-]; rewrite Hsub, ?core_subst; done.
Qed.

Theorem inv_step_async c ch c' :
  core_funs F -> funs_aff F -> Inv c -> step Async D F c ch = SStep c' -> Inv c'.
Proof.
  intros HFc HFa [[Δ Hc] Ht Hl Hcc Hns] Hs.
  assert (Hcu : closed_unused D Async c) by (intros self p0 k st; eapply topo_closed_unused; eauto).
  destruct (preservation_md D F teq Hteq HF Async Δ c ch c' eq_refl Hc Hcu Hs) as (Δ' & _ & Hc').
  pose proof (ns_ok_step _ _ _ _ _ _ Hns Hs) as Hns'.
  assert (Hgoal : Topo c' /\ LinCfg c' /\ CoreCfg c'); [|destruct Hgoal as (H1 & H2 & H3); split; eauto].
  clear Hc' Hns' Δ'.
  destruct ch as [p|s0 r0|f0 t0]; [|by cbn in Hs|by cbn in Hs]. cbn [step] in Hs.
  destruct (procs c !! p) as [pp|] eqn:Hp; [|done].
  destruct (ct_procs D F teq Δ c Hc p pp Hp) as (s & rs & Hne & Hprovs & Hty).
  destruct (cc_procs c Hcc p pp Hp) as (Hcf & n0 & Hn0).
  assert (Hlinp : affr None (pr_body0 pp)) by (exact (lc_procs c Hl p pp Hp)).
  destruct (action_of Async D pp) as [| |k m|k| |k pv|w] eqn:Ea; try done.
  - (* dup: excluded, one provider *)
    apply action_dup_multi in Ea. unfold multi in Ea. rewrite Hn0 in Ea. done.
  - (* internal *)
    pose proof (action_internal_form _ _ _ Ea) as Hform. unfold internal_effect in Hs.
    destruct pp as [provs body nx]. cbn [pr_body0 pr_provs pr_next] in *. subst provs.
    destruct body as [| | | |x b k0| | | | |fn args pt| | | |l k0]; try done; simpl in Hcf.
    + (* cut *)
      apply andb_true_iff in Hcf as [Hcb Hck].
      unfold fresh_chan in Hs. cbn [pr_next pr_provs pr_body0 eff_step cids_of flat_map chan app] in Hs.
      injection Hs as <-. rewrite apply_new_effect.
      set (kn := p ++ [nx]). set (cn := mkName (ident x) false (pol x) (nty x) (Some kn)). set (child := p ++ [(S nx + 1)%nat]).
      inversion Hty as [| | | | | | | |? ? ? ? x' b' k' A Hbx Hsx Hb Hk0| | | | | | | | | | |]; subst.
      assert (HkΔ : Δ !! kn = None) by (apply (ct_fresh D F teq Δ c Hc p _ nx [] Hp); cbn; lia).
      assert (Hkc : chans c !! kn = None).
      { destruct (chans c !! kn) eqn:E; [|done]. exfalso.
        eapply (ns_ok_not_fresh_cid c p _ kn nx Hns Hp); [by eexists|cbn; lia|done]. }
      assert (Hchild : procs c !! child = None).
      { destruct (procs c !! child) eqn:E; [|done]. exfalso.
        eapply (ns_ok_not_fresh_pid c p _ child (S nx + 1) Hns Hp); [by eexists|cbn; lia|done]. }
      assert (Hcp : child <> p).
      { intros E. apply (f_equal length) in E. unfold child in E. rewrite app_length in E. cbn in E. lia. }
      assert (Hfresh : forall o, obj_in c o -> kn ∉ provides o /\ kn ∉ refs o).
      { intros o Ho. split; intros Hk.
        - apply (proj1 (eq_None_not_Some _) HkΔ). exact (obj_chans_typed Δ c o kn Hc Ho (or_introl Hk)).
        - apply (proj1 (eq_None_not_Some _) HkΔ). exact (obj_chans_typed Δ c o kn Hc Ho (or_intror Hk)). }
      assert (Hkp : exists kp, cids_of [n0] = [kp] /\ is_Some (chans c !! kp)).
      { apply Forall_inv in Hprovs. destruct Hprovs as (c0 & t' & Hc0 & Ht' & _). exists c0. cbn. rewrite Hc0.
        split; [done|]. apply (ct_dom D F teq Δ c Hc). eauto. }
      assert (Hkn0 : ~ In kn (form_chans k0)).
      { intros Hin. apply (proj1 (eq_None_not_Some _) HkΔ). exact (form_chans_typed D F teq Δ _ _ _ _ _ kn Hk0 Hin). }
      assert (Hpb : forall i, i ∈ form_chans (subst x cn k0) -> i ∈ form_chans (FNew x b k0) \/ i = kn).
      { intros i Hi. apply elem_In in Hi. apply form_chans_subst in Hi as [Hi|Hi].
        - left. apply elem_In. simpl. apply in_app_iff. by right.
        - right. cbn in Hi. by destruct Hi as [<-|[]]. }
      split; [|split].
      * apply (topo_new c p (Proc [n0] (FNew x b k0) nx) kn cn child b (subst x cn k0) (S nx + 1 + 1) (out c)); try done.
        -- intros i Hi. apply elem_In. simpl. apply in_app_iff. left. by apply elem_In.
        -- intros i Hib Hip. apply elem_In in Hib. destruct (Hpb i Hip) as [Hi| ->].
           ++ apply elem_In in Hip. apply form_chans_subst in Hip as [Hip|Hip].
              ** (* i in the child and in the continuation: the cut is not affine *)
                 apply affr_aff in Hlinp. unfold aff in Hlinp. simpl in Hlinp. rewrite Forall_forall in Hlinp.
                 destruct (proj1 chans_path_mut b None i Hib) as (pb1 & Hpb1 & Hk1).
                 destruct (proj1 chans_path_mut k0 None i Hip) as (pk1 & Hpk1 & Hk2).
                 eapply (dup_app pb1 (rmv [x] pk1)); [apply Hlinp, in_crossk; exists pb1, (rmv [x] pk1); split; [done|split; [apply in_map_iff; eauto|done]]|exact Hk1|by apply rmv_chan].
              ** cbn in Hip. destruct Hip as [<-|[]]. apply (proj1 (eq_None_not_Some _) HkΔ). exact (form_chans_typed D F teq Δ _ _ _ _ _ kn Hb Hib).
           ++ apply (proj1 (eq_None_not_Some _) HkΔ). exact (form_chans_typed D F teq Δ _ _ _ _ _ kn Hb Hib).
      * split.
        -- intros r rr Hr. cbn in Hr. apply lookup_insert_Some in Hr as [[<- <-]|[Hn Hr]].
           ++ cbn. simpl in Hlinp. destruct Hlinp as [_ [_ Hlk]].
              apply (affr_subst D F teq Hteq Δ ∅ None (rs ∖ {[ident x]}) s k0 x cn kn A (proj1 Hbx) eq_refl);
                [discriminate|set_solver|exact Hk0|exact Hkn0|exact Hlk].
           ++ apply lookup_insert_Some in Hr as [[<- <-]|[Hn' Hr]]; [cbn; simpl in Hlinp; tauto|exact (lc_procs c Hl r rr Hr)].
        -- intros k' st' m' Hk' Hb'. cbn in Hk'. apply lookup_insert_Some in Hk' as [[<- <-]|[_ Hk']]; [discriminate|].
           exact (lc_msgs c Hl k' st' m' Hk' Hb').
      * split.
        -- intros r rr Hr. cbn in Hr. apply lookup_insert_Some in Hr as [[<- <-]|[Hn Hr]]; [cbn; rewrite core_subst; eauto|].
           apply lookup_insert_Some in Hr as [[<- <-]|[Hn' Hr]]; [cbn; eauto|exact (cc_procs c Hcc r rr Hr)].
        -- intros k' st' m' Hk' Hb'. cbn in Hk'. apply lookup_insert_Some in Hk' as [[<- <-]|[_ Hk']]; [discriminate|].
           exact (cc_msgs c Hcc k' st' m' Hk' Hb').
    + (* call *)
      destruct (call_body F fn args) as [b|] eqn:Ecb; [|done]. cbn [eff_step] in Hs. injection Hs as <-.
      unfold no_eff. rewrite apply_cont_effect. cbn [pr_provs pr_body0 set_body rev map app].
      destruct (call_affr Δ rs s fn args pt b Hty HFa Hlinp Ecb) as [Hab Hcb].
      split; [|split].
      * apply (topo_cont c p (Proc [n0] (FCall fn args pt) nx)); try done. intros i Hi. apply elem_In. apply Hcb. by apply elem_In.
      * split.
        -- intros r rr Hr. cbn in Hr. apply lookup_insert_Some in Hr as [[<- <-]|[Hn Hr]]; [exact Hab|exact (lc_procs c Hl r rr Hr)].
        -- exact (lc_msgs c Hl).
      * split.
        -- intros r rr Hr. cbn in Hr. apply lookup_insert_Some in Hr as [[<- <-]|[Hn Hr]]; [|exact (cc_procs c Hcc r rr Hr)].
           cbn. split; [eapply core_call_body; eauto|eauto].
        -- exact (cc_msgs c Hcc).
    + (* print *)
      cbn [eff_step] in Hs. injection Hs as <-. rewrite apply_cont_effect. cbn [pr_provs pr_body0 set_body].
      split; [|split].
      * apply (topo_cont c p (Proc [n0] (FPrint l k0) nx)); done.
      * split.
        -- intros r rr Hr. cbn in Hr. apply lookup_insert_Some in Hr as [[<- <-]|[Hn Hr]]; [cbn; simpl in Hlinp; tauto|exact (lc_procs c Hl r rr Hr)].
        -- exact (lc_msgs c Hl).
      * split.
        -- intros r rr Hr. cbn in Hr. apply lookup_insert_Some in Hr as [[<- <-]|[Hn Hr]]; [cbn; eauto|exact (cc_procs c Hcc r rr Hr)].
        -- exact (cc_msgs c Hcc).
  - (* send *)
    destruct (chans c !! k) as [st|] eqn:Hk; [|done]. destruct (ch_closed st) eqn:Hcl; [done|].
    destruct (ch_buf st) eqn:Hb; [done|]. injection Hs as <-.
    destruct (core_send_msg pp k m Hcf Ea) as [Hgc Hfw].
    destruct (topo_send c p pp k m st Ht Hl Hp Hne Ea Hgc Hk Hcl Hb) as [H1 H2]. split; [exact H1|]. split; [exact H2|].
    split.
    + intros r rr Hr. cbn in Hr. apply lookup_delete_Some in Hr as [_ Hr]. exact (cc_procs c Hcc r rr Hr).
    + intros k' st' m' Hk' Hb'. cbn in Hk'. apply lookup_insert_Some in Hk' as [[<- <-]|[_ Hk']]; [|exact (cc_msgs c Hcc k' st' m' Hk' Hb')].
      cbn in Hb'. injection Hb' as <-. split; [done|]. intros Hr. rewrite (Hfw Hr). eauto.
  - (* receive *)
    destruct (chans c !! k) as [st|] eqn:Hk; [|done].
    assert (Hcl : ch_closed st = false) by (eapply Hcu; eauto).
    destruct (ch_buf st) as [m|] eqn:Hb; [|by rewrite Hcl in Hs].
    destruct (on_message p pp m) as [e|] eqn:He; [|done]. cbn [eff_step] in Hs. injection Hs as <-.
    destruct (cc_msgs c Hcc k st m Hk Hb) as [Hgc Hmp].
    assert (Hcr : core_recv pp m).
    { split; [done|]. destruct (pr_body0 pp) as [| | | | | | |to from d| | | | | |] eqn:Eb; try done. simpl in Hcf.
      split; [by destruct d|]. intros Hr.
      (* a positive forward does not receive a forward request: polarities *)
      pose proof (typed_action D F teq Hteq HF Δ pp (ct_procs D F teq Δ c Hc p pp Hp)) as Hv. rewrite Ea in Hv.
      inversion Hv as [|k' Hk' Hside Hrecv| |]; subst. destruct Hside as (T & HT & [[Hown _]|[_ Hpos]]).
      - destruct Hown as (n & Hn & Hcn). assert (E : OProc p pp = OMsg k m); [|discriminate].
        eapply (topo_ref_unique c Ht _ _ k); eauto; [by exists st| |cbn; rewrite Hr; set_solver].
        cbn. rewrite Eb. simpl. unfold action_of in Ea. rewrite Eb in Ea. simpl in Ea.
        destruct (negb (is_self to)); [discriminate|]. destruct (fwd_polarity D from) as [[| |]|?|?]; try discriminate;
          destruct (chan from) as [cf|] eqn:Ecf; try discriminate. injection Ea as ->.
        apply elem_of_app. right. unfold name_chans. rewrite Ecf. set_solver.
      - destruct (ct_msgs D F teq Δ c Hc k st m Hk Hb) as (T' & HT' & Hm). rewrite Hr in Hm. destruct Hm as [Hneg _].
        rewrite HT in HT'. injection HT' as <-. eapply (pol_unique D); eauto. }
    destruct (lin_recv_step Δ c p pp k st m e Hc Ht Hl Hp Ea Hk Hb He Hcr) as (pp1 & cl & -> & Haf1).
    destruct (core_recv_shape p pp m _ n0 He Hcf Hn0 Hgc Hmp) as (pp1' & cl' & E & Hcf1 & n1 & Hn1).
    injection E as <- <-.
    split; [eapply topo_recv_step; eauto|]. rewrite apply_recv_effect.
    assert (Hch' : forall k' st' m', close_all cl (<[k := Chan None (ch_closed st)]> (chans c)) !! k' = Some st' ->
              ch_buf st' = Some m' -> k' <> k /\ exists st0, chans c !! k' = Some st0 /\ ch_buf st0 = Some m').
    { intros k' st' m' Hk' Hb'. rewrite close_all_lookup in Hk'.
      assert (Hx : exists st0, (<[k := Chan None (ch_closed st)]> (chans c)) !! k' = Some st0 /\ ch_buf st0 = Some m').
      { destruct (decide (k' ∈ cl)); [|eauto]. destruct (_ !! k') as [st0|] eqn:E0; [|discriminate].
        cbn in Hk'. injection Hk' as <-. cbn in Hb'. eauto. }
      destruct Hx as (st0 & Hst0 & Hb0). apply lookup_insert_Some in Hst0 as [[<- <-]|[Hn Hst0]]; [discriminate|eauto]. }
    split; split.
    + intros r rr Hr. cbn in Hr. apply lookup_insert_Some in Hr as [[<- <-]|[Hn Hr]]; [exact Haf1|exact (lc_procs c Hl r rr Hr)].
    + intros k' st' m' Hk' Hb'. cbn in Hk'. destruct (Hch' k' st' m' Hk' Hb') as (_ & st0 & H0 & H0').
      exact (lc_msgs c Hl k' st0 m' H0 H0').
    + intros r rr Hr. cbn in Hr. apply lookup_insert_Some in Hr as [[<- <-]|[Hn Hr]]; [cbn; eauto|exact (cc_procs c Hcc r rr Hr)].
    + intros k' st' m' Hk' Hb'. cbn in Hk'. destruct (Hch' k' st' m' Hk' Hb') as (_ & st0 & H0 & H0').
      exact (cc_msgs c Hcc k' st0 m' H0 H0').
Qed.
End Step.
