(* TopoStep.v — `Topo` (spec/Topo.v) as an invariant of the asynchronous steps of typed
   configurations whose bodies are affine (proofs/TopoLin.v).
   Part 1: a rewriting principle — a step removes a few objects X and adds a few objects Y; Topo is
   preserved when Y provides / refers to what X did (or to fresh channels), the new objects are
   pairwise disjoint, nothing is left dangling, and a rank exists. *)
From stdpp Require Import gmap strings.
Require Import Grits.Base Grits.ModeDefs Grits.Modes Grits.STypes Grits.Forms Grits.Subst Grits.TcDeps Grits.Expand
               Grits.Runtime Grits.RuntimeFootprint Grits.spec.RtTyping Grits.spec.Topo.

Definition rank_ok (c : config) (rk : cid -> nat) (M : nat) : Prop :=
  (forall k, is_Some (chans c !! k) -> (rk k <= M)%nat) /\
  forall o k j, obj_in c o -> k ∈ provides o -> j ∈ refs o -> (rk k < rk j)%nat.

Section Rewrite.
Variables (c c' : config) (X Y : list obj) (fresh : cid -> Prop).
Hypothesis Ht : Topo c.
Hypothesis HX : forall o, o ∈ X -> obj_in c o.
Hypothesis HXdec : forall o, obj_in c o -> o ∈ X \/ o ∉ X.
Hypothesis Hin' : forall o', obj_in c' o' -> (obj_in c o' /\ o' ∉ X) \/ o' ∈ Y.
Hypothesis Hkeep : forall o, obj_in c o -> o ∉ X -> obj_in c' o.
Hypothesis HY : forall o', o' ∈ Y -> obj_in c' o'.
Hypothesis Hprov : forall o' k, o' ∈ Y -> k ∈ provides o' -> (exists o, o ∈ X /\ k ∈ provides o) \/ fresh k.
Hypothesis Hrefs : forall o' k, o' ∈ Y -> k ∈ refs o' -> (exists o, o ∈ X /\ k ∈ refs o) \/ fresh k.
Hypothesis HYp : forall o1 o2 k, o1 ∈ Y -> o2 ∈ Y -> k ∈ provides o1 -> k ∈ provides o2 -> o1 = o2.
Hypothesis HYr : forall o1 o2 k, o1 ∈ Y -> o2 ∈ Y -> k ∈ refs o1 -> k ∈ refs o2 -> o1 = o2.
Hypothesis Hfresh : forall k o, fresh k -> obj_in c o -> k ∉ provides o /\ k ∉ refs o.
Hypothesis Hdang : forall o k, o ∈ X -> k ∈ provides o ->
  (exists o', o' ∈ Y /\ k ∈ provides o') \/ ((exists o2, o2 ∈ X /\ k ∈ refs o2) /\ forall o', o' ∈ Y -> k ∉ refs o').
Hypothesis Hfreshprov : forall o' k, o' ∈ Y -> k ∈ refs o' -> fresh k -> exists o'', o'' ∈ Y /\ k ∈ provides o''.
Hypothesis Hclosed : forall k st', chans c' !! k = Some st' -> ch_closed st' = true ->
  ch_buf st' = None /\ (forall o', o' ∈ Y -> k ∉ provides o' /\ k ∉ refs o') /\
  ((exists st, chans c !! k = Some st /\ ch_closed st = true) \/
   (forall o, obj_in c o -> o ∉ X -> k ∉ provides o /\ k ∉ refs o)).
Hypothesis Hrank : forall rk M, rank_ok c rk M -> exists rk' M', rank_ok c' rk' M'.

Theorem topo_rewrite : Topo c'.
Proof.
  split.
  - intros o1 o2 k H1 H2 Hk1 Hk2.
    destruct (Hin' _ H1) as [[Ho1 Hn1]|Hy1], (Hin' _ H2) as [[Ho2 Hn2]|Hy2].
    + eapply (topo_prov_unique c Ht); eauto.
    + exfalso. destruct (Hprov _ _ Hy2 Hk2) as [(o & Hox & Hko)|Hf].
      * assert (o1 = o) by (eapply (topo_prov_unique c Ht); eauto). subst. contradiction.
      * by destruct (Hfresh _ _ Hf Ho1).
    + exfalso. destruct (Hprov _ _ Hy1 Hk1) as [(o & Hox & Hko)|Hf].
      * assert (o2 = o) by (eapply (topo_prov_unique c Ht); eauto). subst. contradiction.
      * by destruct (Hfresh _ _ Hf Ho2).
    + eapply HYp; eauto.
  - intros o1 o2 k H1 H2 Hk1 Hk2.
    destruct (Hin' _ H1) as [[Ho1 Hn1]|Hy1], (Hin' _ H2) as [[Ho2 Hn2]|Hy2].
    + eapply (topo_ref_unique c Ht); eauto.
    + exfalso. destruct (Hrefs _ _ Hy2 Hk2) as [(o & Hox & Hko)|Hf].
      * assert (o1 = o) by (eapply (topo_ref_unique c Ht); eauto). subst. contradiction.
      * by destruct (Hfresh _ _ Hf Ho1).
    + exfalso. destruct (Hrefs _ _ Hy1 Hk1) as [(o & Hox & Hko)|Hf].
      * assert (o2 = o) by (eapply (topo_ref_unique c Ht); eauto). subst. contradiction.
      * by destruct (Hfresh _ _ Hf Ho2).
    + eapply HYr; eauto.
  - intros o' k Ho' Hk.
    assert (Hvia : forall o0, obj_in c o0 -> k ∈ refs o0 ->
              (exists o'', obj_in c' o'' /\ k ∈ provides o'') \/
              ((exists o2, o2 ∈ X /\ k ∈ refs o2) /\ forall o'', o'' ∈ Y -> k ∉ refs o'')).
    { intros o0 Ho0 Hk0. destruct (topo_ref_prov c Ht o0 k Ho0 Hk0) as (p & Hp & Hkp).
      destruct (HXdec p Hp) as [Hpx|Hpx].
      - destruct (Hdang _ _ Hpx Hkp) as [(o'' & Hy'' & Hk'')|H]; [left; eauto|right; exact H].
      - left. exists p. split; [by apply Hkeep|done]. }
    destruct (Hin' _ Ho') as [[Ho Hn]|Hy].
    + destruct (Hvia _ Ho Hk) as [H|[(o2 & Hx2 & Hk2) _]]; [exact H|].
      exfalso. assert (o' = o2) by (eapply (topo_ref_unique c Ht); eauto). subst. contradiction.
    + destruct (Hrefs _ _ Hy Hk) as [(o & Hox & Hko)|Hf].
      * destruct (Hvia _ (HX _ Hox) Hko) as [H|[_ Hno]]; [exact H|]. exfalso. exact (Hno _ Hy Hk).
      * destruct (Hfreshprov _ _ Hy Hk Hf) as (o'' & Hy'' & Hk''). exists o''. split; [by apply HY|done].
  - intros k st' Hk Hcl. destruct (Hclosed k st' Hk Hcl) as (Hb & Hyn & Hold). split; [done|].
    intros o' Ho'. destruct (Hin' _ Ho') as [[Ho Hn]|Hy]; [|by apply Hyn].
    destruct Hold as [(st & Hst & Hclst)|Hold]; [|by apply Hold].
    exact (proj2 (topo_closed c Ht k st Hst Hclst) o' Ho).
  - destruct (topo_rank c Ht) as (rk & M & H). destruct (Hrank rk M H) as (rk' & M' & H'). exists rk', M'. exact H'.
Qed.
End Rewrite.
