(* TopoLin.v — the run-time reading of the substructural discipline (C05) that makes `Topo`
   (spec/Topo.v) an invariant of `step`: along every control path of a process body every client
   name — channel or variable — is used AT MOST ONCE (`aff`).  Paths are lists of keys (a channel, or
   the identifier of a variable); provider designators (self names, the identifier bound for the
   provider) are not keys.  Substitution of a channel for a variable renames the keys of every path
   (`pnames_subst`), substitution of a self name for the provider's identifier leaves them unchanged
   (`pnames_subst_prov`); both are proved for typed terms (spec/RtTyping.v), whose side conditions
   are what makes Name.Substitute behave (F22, F24, F25). *)
From stdpp Require Import gmap strings.
Require Import Grits.Base Grits.ModeDefs Grits.Modes Grits.STypes Grits.Forms Grits.Subst Grits.TcDeps Grits.Expand
               Grits.Runtime Grits.spec.RtTyping Grits.spec.Topo Grits.spec.Linear Grits.proofs.RtSubst.

Inductive key : Type := KC (k : cid) | KV (x : string).
Global Instance key_eq_dec : EqDecision key.
Proof. solve_decision. Defined.

(* provider designator: no channel, and `self` or spelled like the identifier bound for the provider *)
Definition pdes (sh : option string) (n : name) : bool := negb (initialized n) && prov_ref sh n.

Definition uname (sh : option string) (n : name) : list key :=
  match chan n with
  | Some k => [KC k]
  | None => if prov_ref sh n then [] else [KV (ident n)]
  end.

(* the keys that a binder list hides *)
Definition rmv (bs : list name) (l : list key) : list key :=
  filter (fun q => match q with KV x => negb (binds bs x) | KC _ => true end) l.

Definition ne (l : list (list key)) : list (list key) := match l with [] => [[]] | _ => l end.
Definition crossk (l1 l2 : list (list key)) : list (list key) := flat_map (fun a => map (app a) l2) l1.

Fixpoint pnames (sh : option string) (f : form) : list (list key) :=
  match f with
  | FSend a b c => [uname sh a ++ uname sh b ++ uname sh c]
  | FRecv p c fr k =>
    if pdes sh fr then map (rmv [p]) (pnames (Some (ident c)) k)
    else map (fun pk => uname sh fr ++ rmv [p; c] pk) (pnames sh k)
  | FSel a _ c => [uname sh a ++ uname sh c]
  | FCase fr bs =>
    if pdes sh fr then ne (pnames_bp bs) else map (app (uname sh fr)) (ne (pnames_bc sh bs))
  | FNew y b k => crossk (pnames None b) (map (rmv [y]) (pnames sh k))
  | FClose c => [uname sh c]
  | FWait c k => map (app (uname sh c)) (pnames sh k)
  | FFwd a b _ => [uname sh a ++ uname sh b]
  | FSplit x y fr k => map (fun pk => uname sh fr ++ rmv [x; y] pk) (pnames sh k)
  | FCall _ args _ => [flat_map (uname sh) args]
  | FCast a c => [uname sh a ++ uname sh c]
  | FShift y fr k =>
    if pdes sh fr then pnames (Some (ident y)) k
    else map (fun pk => uname sh fr ++ rmv [y] pk) (pnames sh k)
  | FDrop c k => map (app (uname sh c)) (pnames sh k)
  | FPrint _ k => pnames sh k
  end
with pnames_bp (b : branches) : list (list key) :=
  match b with
  | BrNil => []
  | BrCons _ p k r => pnames (Some (ident p)) k ++ pnames_bp r
  end
with pnames_bc (sh : option string) (b : branches) : list (list key) :=
  match b with
  | BrNil => []
  | BrCons _ p k r => map (rmv [p]) (pnames sh k) ++ pnames_bc sh r
  end.

(* at most once along every path *)
Definition aff (sh : option string) (f : form) : Prop := Forall (NoDup (A:=key)) (pnames sh f).

(* ... in the term and in every scope inside it *)
Fixpoint affr (sh : option string) (f : form) : Prop :=
  Forall (NoDup (A:=key)) (pnames sh f) /\
  match f with
  | FRecv p c fr k => if pdes sh fr then affr (Some (ident c)) k else affr sh k
  | FCase fr bs => if pdes sh fr then affr_bp bs else affr_bc sh bs
  | FNew y b k => affr None b /\ affr sh k
  | FWait _ k | FDrop _ k | FPrint _ k | FSplit _ _ _ k => affr sh k
  | FShift y fr k => if pdes sh fr then affr (Some (ident y)) k else affr sh k
  | _ => True
  end
with affr_bp (b : branches) : Prop :=
  match b with BrNil => True | BrCons _ p k r => affr (Some (ident p)) k /\ affr_bp r end
with affr_bc (sh : option string) (b : branches) : Prop :=
  match b with BrNil => True | BrCons _ p k r => affr sh k /\ affr_bc sh r end.

Lemma affr_aff sh f : affr sh f -> aff sh f.
Proof. destruct f; simpl; tauto. Qed.

(* renaming of keys: the variable x becomes the channel kc *)
Definition ren (x : string) (kc : cid) (q : key) : key :=
  match q with KV y => if String.eqb y x then KC kc else q | KC _ => q end.

Lemma ren_id_notin x kc l : KV x ∉ l -> map (ren x kc) l = l.
Proof.
  induction l as [|q l IH]; simpl; intros H; auto. apply not_elem_of_cons in H as [H1 H2]. rewrite IH by auto. f_equal.
  destruct q as [k|y]; simpl; auto. destruct (String.eqb y x) eqn:E; auto. apply String.eqb_eq in E. congruence.
Qed.

Lemma ren_inj_on x kc (l : list key) q1 q2 : KC kc ∉ l -> q1 ∈ l -> q2 ∈ l -> ren x kc q1 = ren x kc q2 -> q1 = q2.
Proof.
  intros Hf H1 H2. destruct q1 as [k1|y1], q2 as [k2|y2]; simpl; auto.
  - destruct (String.eqb y2 x); [intros [= ->]; contradiction|auto].
  - destruct (String.eqb y1 x); [intros [= <-]; contradiction|auto].
  - destruct (String.eqb y1 x) eqn:E1, (String.eqb y2 x) eqn:E2; try discriminate; auto.
    apply String.eqb_eq in E1, E2. congruence.
Qed.

Lemma NoDup_ren x kc (l : list key) : KC kc ∉ l -> NoDup l -> NoDup (map (ren x kc) l).
Proof.
  intros Hf Hn. induction Hn as [|q l Hq Hn IH]; simpl; constructor.
  - intros Hin. apply in_map_iff in Hin as (q' & E & Hq'). apply Hq.
    rewrite (ren_inj_on x kc (q :: l) q q' Hf); auto; [left|right; by apply elem_of_list_In].
  - apply IH. intros H. apply Hf. by right.
Qed.

Lemma rmv_app bs l1 l2 : rmv bs (l1 ++ l2) = rmv bs l1 ++ rmv bs l2.
Proof. unfold rmv. apply filter_app. Qed.

Lemma rmv_no_bound bs x l : binds bs x = true -> KV x ∉ rmv bs l.
Proof.
  intros Hb Hin. unfold rmv in Hin. apply elem_of_list_In, filter_In in Hin as [_ H]. simpl in H. by rewrite Hb in H.
Qed.

Lemma rmv_ren bs x kc l : binds bs x = false -> rmv bs (map (ren x kc) l) = map (ren x kc) (rmv bs l).
Proof.
  intros Hb. induction l as [|q l IH]; simpl; auto. unfold rmv in *.
  destruct q as [k|y]; simpl.
  - f_equal. apply IH.
  - destruct (String.eqb y x) eqn:E.
    + apply String.eqb_eq in E. subst y. rewrite Hb. simpl. rewrite String.eqb_refl. f_equal. apply IH.
    + simpl. destruct (binds bs y); simpl; rewrite ?E; [|f_equal]; apply IH.
Qed.

(* a binder spelled x hides x: renaming x does nothing below it *)
Lemma rmv_ren_bound bs x kc l : binds bs x = true -> map (ren x kc) (rmv bs l) = rmv bs l.
Proof. intros Hb. apply ren_id_notin. by apply rmv_no_bound. Qed.

Lemma binds1 p x : binds [p] x = String.eqb (ident p) x.
Proof. unfold binds. simpl. by rewrite orb_false_r. Qed.
Lemma binds2 p c x : binds [p; c] x = String.eqb (ident p) x || String.eqb (ident c) x.
Proof. unfold binds. simpl. by rewrite orb_false_r. Qed.

Lemma map_crossk (g : key -> key) l1 l2 :
  map (map g) (crossk l1 l2) = crossk (map (map g) l1) (map (map g) l2).
Proof.
  unfold crossk. induction l1 as [|a l1 IH]; simpl; auto. rewrite map_app, IH. f_equal.
  rewrite !map_map. apply map_ext. intros b. by rewrite map_app.
Qed.

Lemma map_ne (g : key -> key) l : map (map g) (ne l) = ne (map (map g) l).
Proof. by destruct l. Qed.

Lemma paths_stop bs x kc pre P : binds bs x = true ->
  map (fun pk => map (ren x kc) pre ++ rmv bs pk) P = map (map (ren x kc)) (map (fun pk => pre ++ rmv bs pk) P).
Proof. intros Hb. rewrite map_map. apply map_ext. intros pk. by rewrite map_app, rmv_ren_bound. Qed.
Lemma paths_go bs x kc pre P : binds bs x = false ->
  map (fun pk => map (ren x kc) pre ++ rmv bs pk) (map (map (ren x kc)) P) =
  map (map (ren x kc)) (map (fun pk => pre ++ rmv bs pk) P).
Proof. intros Hb. rewrite !map_map. apply map_ext. intros pk. by rewrite map_app, rmv_ren. Qed.
Lemma paths_stop0 bs x kc P : binds bs x = true ->
  map (rmv bs) P = map (map (ren x kc)) (map (rmv bs) P).
Proof. intros Hb. rewrite map_map. apply map_ext. intros pk. by rewrite rmv_ren_bound. Qed.
Lemma paths_go0 bs x kc P : binds bs x = false ->
  map (rmv bs) (map (map (ren x kc)) P) = map (map (ren x kc)) (map (rmv bs) P).
Proof. intros Hb. rewrite !map_map. apply map_ext. intros pk. by rewrite rmv_ren. Qed.
Lemma paths_app x kc pre P :
  map (app (map (ren x kc) pre)) (map (map (ren x kc)) P) = map (map (ren x kc)) (map (app pre) P).
Proof. rewrite !map_map. apply map_ext. intros pk. by rewrite map_app. Qed.

(* ------------------------------------------------------------------ paths and the channels of a term *)
Lemma uname_chan sh n k : In (KC k) (uname sh n) <-> In k (name_chans n).
Proof.
  unfold uname, name_chans. destruct (chan n) as [d|]; simpl.
  - split; intros [H|[]]; left; congruence.
  - destruct (prov_ref sh n); simpl; intuition discriminate.
Qed.

Lemma rmv_chan bs l k : In (KC k) (rmv bs l) <-> In (KC k) l.
Proof. unfold rmv. rewrite filter_In. tauto. Qed.

Lemma ne_nonempty l : ne l <> [].
Proof. destruct l; simpl; discriminate. Qed.
Lemma in_ne l (a : list key) : In a l -> In a (ne l).
Proof. destruct l; simpl; auto. Qed.
Lemma in_ne_inv l (a : list key) : In a (ne l) -> In a l \/ (l = [] /\ a = []).
Proof. destruct l; simpl; [intros [<-|[]]; auto|auto]. Qed.

Lemma in_crossk l1 l2 (a : list key) : In a (crossk l1 l2) <-> exists a1 a2, In a1 l1 /\ In a2 l2 /\ a = a1 ++ a2.
Proof.
  unfold crossk. rewrite in_flat_map. split.
  - intros (a1 & H1 & H). apply in_map_iff in H as (a2 & <- & H2). eauto.
  - intros (a1 & a2 & H1 & H2 & ->). exists a1. split; auto. apply in_map_iff. eauto.
Qed.

Lemma ne_has l : exists pi : list key, In pi (ne l).
Proof. destruct l as [|a l]; simpl; eauto. Qed.

Lemma pnames_has_mut :
  (forall f sh, exists pi, In pi (pnames sh f)) /\ (forall b : branches, True).
Proof.
  apply form_branches_ind; simpl; auto.
  - intros; eauto.
  - intros p c fr f IH sh. destruct (pdes sh fr).
    + destruct (IH (Some (ident c))) as [pk Hpk]. eexists. apply in_map_iff. eauto.
    + destruct (IH sh) as [pk Hpk]. eexists. apply in_map_iff. eauto.
  - intros; eauto.
  - intros fr b _ sh. destruct (pdes sh fr); [apply ne_has|].
    destruct (ne_has (pnames_bc sh b)) as [pk Hpk]. eexists. apply in_map_iff. eauto.
  - intros x b IHb f IHf sh. destruct (IHb None) as [pb Hb]. destruct (IHf sh) as [pk Hk].
    eexists. apply in_crossk. exists pb, (rmv [x] pk). split; auto. split; auto. apply in_map_iff. eauto.
  - intros; eauto.
  - intros c f IH sh. destruct (IH sh) as [pk Hpk]. eexists. apply in_map_iff. eauto.
  - intros; eauto.
  - intros x y fr f IH sh. destruct (IH sh) as [pk Hpk]. eexists. apply in_map_iff. eauto.
  - intros; eauto.
  - intros; eauto.
  - intros x fr f IH sh. destruct (pdes sh fr); [apply IH|].
    destruct (IH sh) as [pk Hpk]. eexists. apply in_map_iff. eauto.
  - intros c f IH sh. destruct (IH sh) as [pk Hpk]. eexists. apply in_map_iff. eauto.
Qed.
Lemma pnames_has sh f : exists pi, In pi (pnames sh f).
Proof. apply pnames_has_mut. Qed.

(* every channel on a path occurs in the term ... *)
Lemma path_chans_mut :
  (forall f sh pi k, In pi (pnames sh f) -> In (KC k) pi -> In k (form_chans f)) /\
  (forall b, (forall pi k, In pi (pnames_bp b) -> In (KC k) pi -> In k (brs_chans b)) /\
             (forall sh pi k, In pi (pnames_bc sh b) -> In (KC k) pi -> In k (brs_chans b))).
Proof.
  apply form_branches_ind; simpl.
  - intros a b c sh pi k [<-|[]] H. rewrite !in_app_iff in *. rewrite !uname_chan in H. tauto.
  - intros p c fr f IH sh pi k Hpi H. rewrite in_app_iff. destruct (pdes sh fr).
    + apply in_map_iff in Hpi as (pk & <- & Hpk). apply rmv_chan in H. right. eapply IH; eauto.
    + apply in_map_iff in Hpi as (pk & <- & Hpk). apply in_app_iff in H as [H|H].
      * left. by apply uname_chan in H.
      * apply rmv_chan in H. right. eapply IH; eauto.
  - intros a l c sh pi k [<-|[]] H. rewrite !in_app_iff in *. rewrite !uname_chan in H. tauto.
  - intros fr b [IHp IHc] sh pi k Hpi H. rewrite in_app_iff. destruct (pdes sh fr).
    + apply in_ne_inv in Hpi as [Hpi|[_ ->]]; [right; eapply IHp; eauto|destruct H].
    + apply in_map_iff in Hpi as (pk & <- & Hpk). apply in_app_iff in H as [H|H].
      * left. by apply uname_chan in H.
      * apply in_ne_inv in Hpk as [Hpk|[_ ->]]; [right; eapply IHc; eauto|destruct H].
  - intros x b IHb f IHf sh pi k Hpi H. apply in_crossk in Hpi as (a1 & a2 & H1 & H2 & ->).
    apply in_map_iff in H2 as (pk & <- & Hpk). rewrite in_app_iff. apply in_app_iff in H as [H|H].
    + left. eapply IHb; eauto.
    + apply rmv_chan in H. right. eapply IHf; eauto.
  - intros c sh pi k [<-|[]] H. by apply uname_chan in H.
  - intros c f IH sh pi k Hpi H. apply in_map_iff in Hpi as (pk & <- & Hpk). rewrite in_app_iff.
    apply in_app_iff in H as [H|H]; [left; by apply uname_chan in H|right; eapply IH; eauto].
  - intros a b d sh pi k [<-|[]] H. rewrite !in_app_iff in *. rewrite !uname_chan in H. tauto.
  - intros x y fr f IH sh pi k Hpi H. apply in_map_iff in Hpi as (pk & <- & Hpk). rewrite in_app_iff.
    apply in_app_iff in H as [H|H]; [left; by apply uname_chan in H|]. apply rmv_chan in H. right. eapply IH; eauto.
  - intros fn args pt sh pi k [<-|[]] H. apply in_flat_map in H as (a & Ha & H). apply in_flat_map. exists a.
    split; auto. by apply uname_chan in H.
  - intros a c sh pi k [<-|[]] H. rewrite !in_app_iff in *. rewrite !uname_chan in H. tauto.
  - intros x fr f IH sh pi k Hpi H. rewrite in_app_iff. destruct (pdes sh fr).
    + right. eapply IH; eauto.
    + apply in_map_iff in Hpi as (pk & <- & Hpk). apply in_app_iff in H as [H|H].
      * left. by apply uname_chan in H.
      * apply rmv_chan in H. right. eapply IH; eauto.
  - intros c f IH sh pi k Hpi H. apply in_map_iff in Hpi as (pk & <- & Hpk). rewrite in_app_iff.
    apply in_app_iff in H as [H|H]; [left; by apply uname_chan in H|right; eapply IH; eauto].
  - intros l f IH sh pi k Hpi H. eapply IH; eauto.
  - split; intros; contradiction.
  - intros l p f IHf r [IHp IHc]. split.
    + intros pi k Hpi H. rewrite in_app_iff. apply in_app_iff in Hpi as [Hpi|Hpi]; [left; eapply IHf; eauto|right; eapply IHp; eauto].
    + intros sh pi k Hpi H. rewrite in_app_iff. apply in_app_iff in Hpi as [Hpi|Hpi].
      * apply in_map_iff in Hpi as (pk & <- & Hpk). apply rmv_chan in H. left; eapply IHf; eauto.
      * right; eapply IHc; eauto.
Qed.

(* ... and every channel of the term is on some path *)
Lemma chans_path_mut :
  (forall f sh k, In k (form_chans f) -> exists pi, In pi (pnames sh f) /\ In (KC k) pi) /\
  (forall b, (forall k, In k (brs_chans b) -> exists pi, In pi (pnames_bp b) /\ In (KC k) pi) /\
             (forall sh k, In k (brs_chans b) -> exists pi, In pi (pnames_bc sh b) /\ In (KC k) pi)).
Proof.
  assert (Hpd : forall sh n k, pdes sh n = true -> ~ In k (name_chans n)).
  { intros sh n k H. unfold pdes, initialized, name_chans in *. destruct (chan n); [discriminate|]. auto. }
  apply form_branches_ind; simpl.
  - intros a b c sh k H. eexists. split; [left; reflexivity|]. rewrite !in_app_iff in *. rewrite !uname_chan. tauto.
  - intros p c fr f IH sh k H. apply in_app_iff in H. destruct (pdes sh fr) eqn:E.
    + destruct H as [H|H]; [by destruct (Hpd _ _ _ E H)|]. destruct (IH (Some (ident c)) k H) as (pk & Hpk & Hk).
      exists (rmv [p] pk). split; [apply in_map_iff; eauto|by apply rmv_chan].
    + destruct H as [H|H].
      * destruct (pnames_has sh f) as [pk Hpk]. exists (uname sh fr ++ rmv [p; c] pk).
        split; [apply in_map_iff; eauto|]. apply in_app_iff. left. by apply uname_chan.
      * destruct (IH sh k H) as (pk & Hpk & Hk). exists (uname sh fr ++ rmv [p; c] pk).
        split; [apply in_map_iff; eauto|]. apply in_app_iff. right. by apply rmv_chan.
  - intros a l c sh k H. eexists. split; [left; reflexivity|]. rewrite !in_app_iff in *. rewrite !uname_chan. tauto.
  - intros fr b [IHp IHc] sh k H. apply in_app_iff in H. destruct (pdes sh fr) eqn:E.
    + destruct H as [H|H]; [by destruct (Hpd _ _ _ E H)|]. destruct (IHp k H) as (pk & Hpk & Hk).
      exists pk. split; [by apply in_ne|done].
    + destruct H as [H|H].
      * destruct (ne_has (pnames_bc sh b)) as [pk Hpk]. exists (uname sh fr ++ pk).
        split; [apply in_map_iff; eauto|]. apply in_app_iff. left. by apply uname_chan.
      * destruct (IHc sh k H) as (pk & Hpk & Hk). exists (uname sh fr ++ pk).
        split; [apply in_map_iff; exists pk; split; [done|by apply in_ne]|]. apply in_app_iff. by right.
  - intros x b IHb f IHf sh k H. apply in_app_iff in H as [H|H].
    + destruct (IHb None k H) as (pb & Hpb & Hk). destruct (pnames_has sh f) as [pk Hpk].
      exists (pb ++ rmv [x] pk). split; [apply in_crossk; exists pb, (rmv [x] pk); split; [done|split; [apply in_map_iff; eauto|done]]|].
      apply in_app_iff. by left.
    + destruct (IHf sh k H) as (pk & Hpk & Hk). destruct (pnames_has None b) as [pb Hpb].
      exists (pb ++ rmv [x] pk). split; [apply in_crossk; exists pb, (rmv [x] pk); split; [done|split; [apply in_map_iff; eauto|done]]|].
      apply in_app_iff. right. by apply rmv_chan.
  - intros c sh k H. eexists. split; [left; reflexivity|]. by apply uname_chan.
  - intros c f IH sh k H. apply in_app_iff in H as [H|H].
    + destruct (pnames_has sh f) as [pk Hpk]. exists (uname sh c ++ pk). split; [apply in_map_iff; eauto|].
      apply in_app_iff. left. by apply uname_chan.
    + destruct (IH sh k H) as (pk & Hpk & Hk). exists (uname sh c ++ pk). split; [apply in_map_iff; eauto|].
      apply in_app_iff. by right.
  - intros a b d sh k H. eexists. split; [left; reflexivity|]. rewrite !in_app_iff in *. rewrite !uname_chan. tauto.
  - intros x y fr f IH sh k H. apply in_app_iff in H as [H|H].
    + destruct (pnames_has sh f) as [pk Hpk]. exists (uname sh fr ++ rmv [x; y] pk). split; [apply in_map_iff; eauto|].
      apply in_app_iff. left. by apply uname_chan.
    + destruct (IH sh k H) as (pk & Hpk & Hk). exists (uname sh fr ++ rmv [x; y] pk). split; [apply in_map_iff; eauto|].
      apply in_app_iff. right. by apply rmv_chan.
  - intros fn args pt sh k H. eexists. split; [left; reflexivity|]. apply in_flat_map in H as (a & Ha & H).
    apply in_flat_map. exists a. split; auto. by apply uname_chan.
  - intros a c sh k H. eexists. split; [left; reflexivity|]. rewrite !in_app_iff in *. rewrite !uname_chan. tauto.
  - intros x fr f IH sh k H. apply in_app_iff in H. destruct (pdes sh fr) eqn:E.
    + destruct H as [H|H]; [by destruct (Hpd _ _ _ E H)|]. apply IH; auto.
    + destruct H as [H|H].
      * destruct (pnames_has sh f) as [pk Hpk]. exists (uname sh fr ++ rmv [x] pk). split; [apply in_map_iff; eauto|].
        apply in_app_iff. left. by apply uname_chan.
      * destruct (IH sh k H) as (pk & Hpk & Hk). exists (uname sh fr ++ rmv [x] pk). split; [apply in_map_iff; eauto|].
        apply in_app_iff. right. by apply rmv_chan.
  - intros c f IH sh k H. apply in_app_iff in H as [H|H].
    + destruct (pnames_has sh f) as [pk Hpk]. exists (uname sh c ++ pk). split; [apply in_map_iff; eauto|].
      apply in_app_iff. left. by apply uname_chan.
    + destruct (IH sh k H) as (pk & Hpk & Hk). exists (uname sh c ++ pk). split; [apply in_map_iff; eauto|].
      apply in_app_iff. by right.
  - intros l f IH sh k H. apply IH; auto.
  - split; intros; contradiction.
  - intros l p f IHf r [IHp IHc]. split.
    + intros k H. apply in_app_iff in H as [H|H].
      * destruct (IHf (Some (ident p)) k H) as (pk & Hpk & Hk). exists pk. split; [apply in_app_iff; by left|done].
      * destruct (IHp k H) as (pk & Hpk & Hk). exists pk. split; [apply in_app_iff; by right|done].
    + intros sh k H. apply in_app_iff in H as [H|H].
      * destruct (IHf sh k H) as (pk & Hpk & Hk). exists (rmv [p] pk).
        split; [apply in_app_iff; left; apply in_map_iff; eauto|by apply rmv_chan].
      * destruct (IHc sh k H) as (pk & Hpk & Hk). exists pk. split; [apply in_app_iff; by right|done].
Qed.

Lemma NoDup_app_inv {A} (l1 l2 : list A) :
  NoDup (l1 ++ l2) -> NoDup l1 /\ NoDup l2 /\ forall x, In x l1 -> In x l2 -> False.
Proof.
  induction l1 as [|a l1 IH]; simpl; intros H.
  - split; [constructor|]. split; [exact H|]. intros x [].
  - inversion H as [|? ? Hn Hd]; subst. destruct (IH Hd) as (H1 & H2 & H3). split; [|split; [exact H2|]].
    + constructor; auto. intros Hin. apply Hn. apply in_app_iff. by left.
    + intros x [<-|Hx] Hx2; [apply Hn; apply in_app_iff; by right|eauto].
Qed.

(* substitution adds at most the channel of the new name *)
Lemma name_chans_subst old new n k : In k (name_chans (name_subst old new n)) -> In k (name_chans n) \/ In k (name_chans new).
Proof.
  unfold name_subst. destruct (initialized n && chan_eqb (chan n) (chan old)); [unfold name_chans at 1; simpl; auto|].
  destruct (negb (initialized n) && negb (initialized old) && String.eqb (ident n) (ident old)); [unfold name_chans at 1; simpl; auto|auto].
Qed.

Lemma form_chans_subst_mut old new :
  (forall f k, In k (form_chans (subst old new f)) -> In k (form_chans f) \/ In k (name_chans new)) /\
  (forall b k, In k (brs_chans (subst_brs old new b)) -> In k (brs_chans b) \/ In k (name_chans new)).
Proof.
  assert (Hn := name_chans_subst old new).
  apply form_branches_ind; simpl; intros;
    repeat match goal with
           | H : In _ (_ ++ _) |- _ => apply in_app_iff in H as [H|H]
           | H : In _ (name_chans (name_subst old new _)) |- _ => apply Hn in H as [H|H]
           | H : In _ (form_chans (if ?b then _ else _)) |- _ => destruct b
           | H : In _ (form_chans (subst old new ?f)), IH : forall k, In k (form_chans (subst old new ?f)) -> _ |- _ => apply IH in H as [H|H]
           | H : In _ (brs_chans (subst_brs old new ?f)), IH : forall k, In k (brs_chans (subst_brs old new ?f)) -> _ |- _ => apply IH in H as [H|H]
           end;
    rewrite ?in_app_iff; auto 6.
  (* FCall *) apply in_flat_map in H as (a & Ha & H). apply in_map_iff in Ha as (a0 & <- & Ha0).
  apply Hn in H as [H|H]; auto. left. apply in_flat_map. eauto.
Qed.
Lemma form_chans_subst old new f k :
  In k (form_chans (subst old new f)) -> In k (form_chans f) \/ In k (name_chans new).
Proof. apply form_chans_subst_mut. Qed.

(* ------------------------------------------------------------------ the core fragment: no drop, no split, no droppable forward *)
Fixpoint core_form (f : form) : bool :=
  match f with
  | FRecv _ _ _ k | FWait _ k | FShift _ _ k | FPrint _ k => core_form k
  | FCase _ bs => core_brs bs
  | FNew _ b k => core_form b && core_form k
  | FFwd _ _ d => negb d
  | FSplit _ _ _ _ | FDrop _ _ => false
  | _ => true
  end
with core_brs (b : branches) : bool :=
  match b with BrNil => true | BrCons _ _ k r => core_form k && core_brs r end.

Lemma core_subst_mut old new :
  (forall f, core_form (subst old new f) = core_form f) /\ (forall b, core_brs (subst_brs old new b) = core_brs b).
Proof.
  apply form_branches_ind; simpl; intros; auto;
    repeat match goal with |- context [if ?c then _ else _] => destruct c end; congruence.
Qed.
Lemma core_subst old new f : core_form (subst old new f) = core_form f.
Proof. apply core_subst_mut. Qed.

Lemma core_find l bs pay K : find_branch l bs = Some (pay, K) -> core_brs bs = true -> core_form K = true.
Proof.
  induction bs as [|l' p' k' r IH]; simpl; [discriminate|]. rewrite andb_true_iff. destruct (String.eqb l' l).
  - intros [= -> ->]. tauto.
  - intros H [_ H']. auto.
Qed.

(* the channels among the keys *)
Definition kcs (l : list key) : list cid := flat_map (fun q => match q with KC k => [k] | KV _ => [] end) l.
Lemma kcs_app l1 l2 : kcs (l1 ++ l2) = kcs l1 ++ kcs l2.
Proof. unfold kcs. apply flat_map_app. Qed.
Lemma kcs_uname sh n : kcs (uname sh n) = name_chans n.
Proof. unfold uname, name_chans. destruct (chan n); simpl; auto. by destruct (prov_ref sh n). Qed.
Lemma in_kcs l k : In k (kcs l) <-> In (KC k) l.
Proof.
  unfold kcs. rewrite in_flat_map. split.
  - intros ([k'|y] & H & Hk); simpl in Hk; [destruct Hk as [<-|[]]; auto|contradiction].
  - intros H. exists (KC k). split; simpl; auto.
Qed.
Lemma NoDup_kcs l : NoDup l -> NoDup (kcs l).
Proof.
  induction 1 as [|q l Hq Hn IH]; simpl; [constructor|]. destruct q as [k|y]; simpl; auto.
  constructor; auto. intros H. apply Hq. by apply in_kcs.
Qed.

Section Paths.
Variable D : tenv.
Variable F : list fundef.
Variable teq : sty -> sty -> Prop.
Hypothesis Hteq : teq_laws D teq.
Notation typed := (typed D F teq).
Notation typed_brs_p := (typed_brs_p D F teq).
Notation typed_brs_c := (typed_brs_c D F teq).
Notation client_ty := (client_ty teq).

Lemma prov_ref_false sh n : is_self n = false -> sh <> Some (ident n) -> prov_ref sh n = false.
Proof.
  intros Hs Hsh. unfold prov_ref. rewrite Hs. simpl. destruct sh as [z|]; auto.
  apply String.eqb_neq. congruence.
Qed.

Lemma uname_prov sh rs n : prov_name sh rs n -> uname sh n = [] /\ pdes sh n = true.
Proof.
  intros [Hc H]. unfold uname, pdes, initialized, prov_ref. rewrite Hc. simpl.
  destruct H as [[Hs _]|[Hs ->]]; rewrite Hs; simpl; auto. by rewrite String.eqb_refl.
Qed.

Lemma uname_client_subst Δ Γ sh old new x kc A n t :
  chan old = None -> ident old = x -> chan new = Some kc -> sh <> Some x ->
  client_ty Δ (<[x := A]> Γ) sh n t ->
  uname sh (name_subst old new n) = map (ren x kc) (uname sh n) /\
  pdes sh (name_subst old new n) = false /\ pdes sh n = false.
Proof.
  intros Ho Hx Hn Hsh [Hs [_ H2]]. rewrite name_subst_old_var by auto. unfold uname, pdes, initialized.
  destruct (chan n) as [d|] eqn:Ed; simpl.
  - rewrite Ed. auto.
  - destruct H2 as [H2 _]. rewrite (prov_ref_false sh n Hs H2). rewrite Hx.
    destruct (String.eqb (ident n) x) eqn:E; simpl.
    + rewrite Hn. simpl. rewrite E. auto.
    + rewrite Ed. rewrite (prov_ref_false sh n Hs H2). simpl. rewrite E. auto.
Qed.

Lemma uname_args_subst Δ Γ sh old new x kc A args ps :
  chan old = None -> ident old = x -> chan new = Some kc -> sh <> Some x ->
  args_ok teq Δ (<[x := A]> Γ) sh args ps ->
  flat_map (uname sh) (map (name_subst old new) args) = map (ren x kc) (flat_map (uname sh) args).
Proof.
  intros Ho Hx Hn Hsh H. induction H as [|a p args ps [t [_ H1]] H IH]; simpl; auto.
  rewrite map_app, IH. f_equal. eapply uname_client_subst; eauto.
Qed.

(* ------------------------------------------------------------------ the variables on the paths of a typed term are in its context *)
Lemma rmv_var bs l z : In (KV z) (rmv bs l) <-> binds bs z = false /\ In (KV z) l.
Proof. unfold rmv. rewrite filter_In. simpl. rewrite negb_true_iff. tauto. Qed.

Lemma uname_client_var Δ Γ sh n t z : client_ty Δ Γ sh n t -> In (KV z) (uname sh n) -> is_Some (Γ !! z).
Proof.
  intros [_ [_ H]]. unfold uname. destruct (chan n); simpl; [intros [H1|[]]; discriminate|].
  destruct H as [_ [t' [H _]]]. destruct (prov_ref sh n); simpl; [tauto|]. intros [[= <-]|[]]. eauto.
Qed.

Lemma args_var Δ Γ sh args ps z : args_ok teq Δ Γ sh args ps -> In (KV z) (flat_map (uname sh) args) -> is_Some (Γ !! z).
Proof.
  intros H. induction H as [|a p args ps [t [_ H1]] H IH]; simpl; [tauto|].
  rewrite in_app_iff. intros [Hz|Hz]; eauto using uname_client_var.
Qed.

Lemma path_vars_mut Δ :
  (forall Γ sh rs s f, typed Δ Γ sh rs s f ->
     forall pi z, In pi (pnames sh f) -> In (KV z) pi -> is_Some (Γ !! z)) /\
  (forall Γ rs bs b, typed_brs_p Δ Γ rs bs b ->
     forall pi z, In pi (pnames_bp b) -> In (KV z) pi -> is_Some (Γ !! z)) /\
  (forall Γ sh rs s bs b, typed_brs_c Δ Γ sh rs s bs b ->
     forall pi z, In pi (pnames_bc sh b) -> In (KV z) pi -> is_Some (Γ !! z)).
Proof.
  assert (Hins : forall (Γ : gmap string sty) b (A : sty) z, String.eqb (ident b) z = false ->
            is_Some (<[ident b := A]> Γ !! z) -> is_Some (Γ !! z)).
  { intros Γ b A z E H. apply String.eqb_neq in E. by rewrite lookup_insert_ne in H. }
  assert (Hdel : forall (Γ : gmap string sty) c z, is_Some (delete c Γ !! z) -> is_Some (Γ !! z)).
  { intros Γ c z [v H]. apply lookup_delete_Some in H as [_ H]. eauto. }
  apply typed_mutind; simpl.
  - intros Γ sh rs s to pay cont A B m Hp Hw H1 H2 pi z [<-|[]] Hz.
    rewrite (proj1 (uname_prov _ _ _ Hp)) in Hz. simpl in Hz. apply in_app_iff in Hz as [Hz|Hz]; eauto using uname_client_var.
  - intros Γ sh rs s to pay cont T A B m H1 Hw H2 Hp Ht pi z [<-|[]] Hz.
    rewrite (proj1 (uname_prov _ _ _ Hp)), app_nil_r in Hz. apply in_app_iff in Hz as [Hz|Hz]; eauto using uname_client_var.
  - intros Γ sh rs s pay cont from k A B m Hp Hw Hb1 Hb2 Hne Hk IH pi z Hpi Hz.
    rewrite (proj2 (uname_prov _ _ _ Hp)) in Hpi. apply in_map_iff in Hpi as (pk & <- & Hpk).
    apply rmv_var in Hz as [Hb Hz]. rewrite binds1 in Hb. eapply Hdel, Hins; eauto.
  - intros Γ sh rs s pay cont from k T A B m Hc Hw Hb1 Hb2 Hne Hs1 Hs2 Hk IH pi z Hpi Hz.
    assert (Hpd : pdes sh from = false).
    { destruct Hc as [Hs [_ Hc]]. unfold pdes, initialized. destruct (chan from); simpl; auto.
      destruct Hc as [Hc _]. by rewrite (prov_ref_false sh from Hs Hc). }
    rewrite Hpd in Hpi. apply in_map_iff in Hpi as (pk & <- & Hpk).
    apply in_app_iff in Hz as [Hz|Hz]; [eauto using uname_client_var|].
    apply rmv_var in Hz as [Hb Hz]. rewrite binds2 in Hb. apply orb_false_iff in Hb as [E1 E2].
    eapply Hins; [exact E1|]. eapply Hins; [exact E2|]. eauto.
  - intros Γ sh rs s to l cont bs m A Hp Hw Hf Hc pi z [<-|[]] Hz.
    rewrite (proj1 (uname_prov _ _ _ Hp)) in Hz. eauto using uname_client_var.
  - intros Γ sh rs s to l cont T bs m A Hc Hw Hf Hp Ht pi z [<-|[]] Hz.
    rewrite (proj1 (uname_prov _ _ _ Hp)), app_nil_r in Hz. eauto using uname_client_var.
  - intros Γ sh rs s from b bs m Hp Hw Hcov Hb IH pi z Hpi Hz.
    rewrite (proj2 (uname_prov _ _ _ Hp)) in Hpi. apply in_ne_inv in Hpi as [Hpi|[_ ->]]; [eauto|destruct Hz].
  - intros Γ sh rs s from b T bs m Hc Hw Hcov Hb IH pi z Hpi Hz.
    assert (Hpd : pdes sh from = false).
    { destruct Hc as [Hs [_ Hc]]. unfold pdes, initialized. destruct (chan from); simpl; auto.
      destruct Hc as [Hc _]. by rewrite (prov_ref_false sh from Hs Hc). }
    rewrite Hpd in Hpi. apply in_map_iff in Hpi as (pk & <- & Hpk).
    apply in_app_iff in Hz as [Hz|Hz]; [eauto using uname_client_var|].
    apply in_ne_inv in Hpk as [Hpk|[_ ->]]; [eauto|destruct Hz].
  - intros Γ sh rs s x body k A Hb Hs1 Hbody IHb Hk IHk pi z Hpi Hz.
    apply in_crossk in Hpi as (a1 & a2 & H1 & H2 & ->). apply in_map_iff in H2 as (pk & <- & Hpk).
    apply in_app_iff in Hz as [Hz|Hz]; [eauto|]. apply rmv_var in Hz as [E Hz]. rewrite binds1 in E.
    eapply Hins; eauto.
  - intros Γ sh rs s c m Hp Hw pi z [<-|[]] Hz. rewrite (proj1 (uname_prov _ _ _ Hp)) in Hz. destruct Hz.
  - intros Γ sh rs s c k T m Hc Hw Hk IH pi z Hpi Hz. apply in_map_iff in Hpi as (pk & <- & Hpk).
    apply in_app_iff in Hz as [Hz|Hz]; eauto using uname_client_var.
  - intros Γ sh rs s to from d Hp Hc pi z [<-|[]] Hz.
    rewrite (proj1 (uname_prov _ _ _ Hp)) in Hz. eauto using uname_client_var.
  - intros Γ sh rs s c k T Hc Hk IH pi z Hpi Hz. apply in_map_iff in Hpi as (pk & <- & Hpk).
    apply in_app_iff in Hz as [Hz|Hz]; eauto using uname_client_var.
  - intros Γ sh rs s fn args pt fd tf Hg Hf Ht Hargs pi z [<-|[]] Hz.
    destruct Hargs as [[Hl Ha]|[a0 [rest [-> [Hl [Hp Ha]]]]]]; [eauto using args_var|].
    simpl in Hz. rewrite (proj1 (uname_prov _ _ _ Hp)) in Hz. eauto using args_var.
  - intros Γ sh rs s to cont fm tm A Hp Hw Hc pi z [<-|[]] Hz.
    rewrite (proj1 (uname_prov _ _ _ Hp)) in Hz. eauto using uname_client_var.
  - intros Γ sh rs s to cont T fm tm A Hc Hw Hp Ht pi z [<-|[]] Hz.
    rewrite (proj1 (uname_prov _ _ _ Hp)), app_nil_r in Hz. eauto using uname_client_var.
  - intros Γ sh rs s x from k fm tm A Hp Hw Hb Hk IH pi z Hpi Hz.
    rewrite (proj2 (uname_prov _ _ _ Hp)) in Hpi. eauto.
  - intros Γ sh rs s x from k T fm tm A Hc Hw Hb Hs1 Hk IH pi z Hpi Hz.
    assert (Hpd : pdes sh from = false).
    { destruct Hc as [Hs [_ Hc]]. unfold pdes, initialized. destruct (chan from); simpl; auto.
      destruct Hc as [Hc _]. by rewrite (prov_ref_false sh from Hs Hc). }
    rewrite Hpd in Hpi. apply in_map_iff in Hpi as (pk & <- & Hpk).
    apply in_app_iff in Hz as [Hz|Hz]; [eauto using uname_client_var|].
    apply rmv_var in Hz as [E Hz]. rewrite binds1 in E. eapply Hins; eauto.
  - intros Γ sh rs s x y from k T Hc Hbx Hby Hne Hs1 Hs2 Hk IH pi z Hpi Hz.
    apply in_map_iff in Hpi as (pk & <- & Hpk).
    apply in_app_iff in Hz as [Hz|Hz]; [eauto using uname_client_var|].
    apply rmv_var in Hz as [Hb Hz]. rewrite binds2 in Hb. apply orb_false_iff in Hb as [E1 E2].
    eapply Hins; [exact E1|]. eapply Hins; [exact E2|]. eauto.
  - intros Γ sh rs s l k Hk IH pi z Hpi Hz. eauto.
  - intros; contradiction.
  - intros Γ rs bs l pay k r A Hf Hb Hk IHk Hr IHr pi z Hpi Hz.
    apply in_app_iff in Hpi as [Hpi|Hpi]; eauto.
  - intros; contradiction.
  - intros Γ sh rs s bs l pay k r A Hf Hb Hs1 Hk IHk Hr IHr pi z Hpi Hz.
    apply in_app_iff in Hpi as [Hpi|Hpi]; [|eauto].
    apply in_map_iff in Hpi as (pk & <- & Hpk). apply rmv_var in Hz as [E Hz]. rewrite binds1 in E. eapply Hins; eauto.
Qed.

Lemma client_pdes Δ Γ sh n t : client_ty Δ Γ sh n t -> pdes sh n = false.
Proof.
  intros [Hs [_ Hc]]. unfold pdes, initialized. destruct (chan n); simpl; auto.
  destruct Hc as [Hc _]. by rewrite (prov_ref_false sh n Hs Hc).
Qed.

(* ------------------------------------------------------------------ a channel for a variable renames the paths *)
Lemma pnames_subst_mut Δ old new x kc A :
  chan old = None -> ident old = x -> chan new = Some kc ->
  (forall Γ' sh rs s f, typed Δ Γ' sh rs s f ->
     forall Γ, Γ' = <[x := A]> Γ -> sh <> Some x -> x ∉ rs ->
     pnames sh (subst old new f) = map (map (ren x kc)) (pnames sh f)) /\
  (forall Γ' rs bs b, typed_brs_p Δ Γ' rs bs b ->
     forall Γ, Γ' = <[x := A]> Γ -> x ∉ rs ->
     pnames_bp (subst_brs old new b) = map (map (ren x kc)) (pnames_bp b)) /\
  (forall Γ' sh rs s bs b, typed_brs_c Δ Γ' sh rs s bs b ->
     forall Γ, Γ' = <[x := A]> Γ -> sh <> Some x -> x ∉ rs ->
     pnames_bc sh (subst_brs old new b) = map (map (ren x kc)) (pnames_bc sh b)).
Proof.
  intros Ho Hx Hn.
  assert (Hcl : forall Γ sh n t, sh <> Some x -> client_ty Δ (<[x := A]> Γ) sh n t ->
     uname sh (name_subst old new n) = map (ren x kc) (uname sh n) /\
     pdes sh (name_subst old new n) = false /\ pdes sh n = false)
    by (intros; eapply uname_client_subst; eauto).
  assert (Hpr : forall sh rs n, sh <> Some x -> x ∉ rs -> prov_name sh rs n ->
     name_subst old new n = n /\ uname sh n = [] /\ pdes sh n = true).
  { intros sh rs n ? ? Hp. split; [eapply prov_name_subst; eauto|eapply uname_prov; eauto]. }
  apply typed_mutind.
  - (* SendP *) intros Γ' sh rs s to pay cont A0 B m Hp Hw Hc1 Hc2 Γ -> Hsh Hrs; simpl.
    destruct (Hpr _ _ _ Hsh Hrs Hp) as (-> & Eu & _). destruct (Hcl _ _ _ _ Hsh Hc1) as (-> & _). destruct (Hcl _ _ _ _ Hsh Hc2) as (-> & _).
    by rewrite Eu, !map_app.
  - (* SendC *) intros Γ' sh rs s to pay cont T A0 B m Hc1 Hw Hc2 Hp Ht Γ -> Hsh Hrs; simpl.
    destruct (Hpr _ _ _ Hsh Hrs Hp) as (-> & Eu & _). destruct (Hcl _ _ _ _ Hsh Hc1) as (-> & _). destruct (Hcl _ _ _ _ Hsh Hc2) as (-> & _).
    by rewrite Eu, !map_app.
  - (* RecvP *) intros Γ' sh rs s pay cont from k A0 B m Hp Hw Hbp Hbc Hne Hk IH Γ -> Hsh Hrs; simpl.
    destruct (Hpr _ _ _ Hsh Hrs Hp) as (-> & _ & ->).
    rewrite (binder_eqb pay old), (binder_eqb cont old) by auto. rewrite Hx.
    destruct (String.eqb (ident pay) x) eqn:E1; simpl.
    { apply paths_stop0. by rewrite binds1. }
    apply String.eqb_neq in E1.
    destruct (String.eqb (ident cont) x) eqn:E2; simpl.
    { (* the provider is rebound to x: no variable x below *)
      apply String.eqb_eq in E2. rewrite map_map. apply map_ext_in. intros pk Hpk. symmetry. apply ren_id_notin.
      intros Hin. apply elem_of_list_In, rmv_var in Hin as [_ Hin].
      destruct (proj1 (path_vars_mut Δ) _ _ _ _ _ Hk pk x Hpk Hin) as [v Hv].
      rewrite lookup_insert_ne in Hv by auto. rewrite E2, lookup_delete in Hv. discriminate. }
    apply String.eqb_neq in E2.
    rewrite (IH (<[ident pay := A0]> (delete (ident cont) Γ))); [| |congruence|set_solver].
    + apply paths_go0. rewrite binds1. by apply String.eqb_neq.
    + rewrite del_ins_ne by auto. apply insert_commute; auto.
  - (* RecvC *) intros Γ' sh rs s pay cont from k T A0 B m Hc Hw Hbp Hbc Hne Hs1 Hs2 Hk IH Γ -> Hsh Hrs; simpl.
    destruct (Hcl _ _ _ _ Hsh Hc) as (-> & -> & ->).
    rewrite (binder_eqb pay old), (binder_eqb cont old) by auto. rewrite Hx.
    destruct (String.eqb (ident pay) x) eqn:E1; simpl.
    { apply paths_stop. by rewrite binds2, E1. }
    destruct (String.eqb (ident cont) x) eqn:E2; simpl.
    { apply paths_stop. by rewrite binds2, E2, orb_true_r. }
    apply String.eqb_neq in E1, E2.
    rewrite (IH (<[ident cont := B]> (<[ident pay := A0]> Γ))); [| |auto|set_solver].
    + apply paths_go. rewrite binds2. apply orb_false_iff. split; by apply String.eqb_neq.
    + rewrite (insert_commute _ (ident pay) x) by auto. rewrite (insert_commute _ (ident cont) x) by auto. reflexivity.
  - (* SelP *) intros Γ' sh rs s to l cont bs m A0 Hp Hw Hf Hc Γ -> Hsh Hrs; simpl.
    destruct (Hpr _ _ _ Hsh Hrs Hp) as (-> & Eu & _). destruct (Hcl _ _ _ _ Hsh Hc) as (-> & _).
    by rewrite Eu, !map_app.
  - (* SelC *) intros Γ' sh rs s to l cont T bs m A0 Hc Hw Hf Hp Ht Γ -> Hsh Hrs; simpl.
    destruct (Hpr _ _ _ Hsh Hrs Hp) as (-> & Eu & _). destruct (Hcl _ _ _ _ Hsh Hc) as (-> & _).
    by rewrite Eu, !map_app.
  - (* CaseP *) intros Γ' sh rs s from b bs m Hp Hw Hcov Hb IH Γ -> Hsh Hrs; simpl.
    destruct (Hpr _ _ _ Hsh Hrs Hp) as (-> & _ & ->). rewrite (IH Γ) by auto. by rewrite map_ne.
  - (* CaseC *) intros Γ' sh rs s from b T bs m Hc Hw Hcov Hb IH Γ -> Hsh Hrs; simpl.
    destruct (Hcl _ _ _ _ Hsh Hc) as (-> & -> & ->). rewrite (IH Γ) by auto. rewrite <- map_ne. apply paths_app.
  - (* New *) intros Γ' sh rs s y body k A0 Hb Hs1 Hbody IHb Hk IHk Γ -> Hsh Hrs; simpl.
    rewrite (binder_eqb y old) by auto. rewrite Hx. rewrite (IHb Γ) by (auto; discriminate).
    rewrite map_crossk. f_equal.
    destruct (String.eqb (ident y) x) eqn:E1; simpl.
    { apply paths_stop0. by rewrite binds1. }
    apply String.eqb_neq in E1. rewrite (IHk (<[ident y := A0]> Γ)); [|apply insert_commute; auto|auto|set_solver].
    apply paths_go0. rewrite binds1. by apply String.eqb_neq.
  - (* Close *) intros Γ' sh rs s c m Hp Hw Γ -> Hsh Hrs; simpl.
    destruct (Hpr _ _ _ Hsh Hrs Hp) as (-> & Eu & _). by rewrite Eu.
  - (* Wait *) intros Γ' sh rs s c k T m Hc Hw Hk IH Γ -> Hsh Hrs; simpl.
    destruct (Hcl _ _ _ _ Hsh Hc) as (-> & _). rewrite (IH Γ) by auto. apply paths_app.
  - (* Fwd *) intros Γ' sh rs s to from d Hp Hc Γ -> Hsh Hrs; simpl.
    destruct (Hpr _ _ _ Hsh Hrs Hp) as (-> & Eu & _). destruct (Hcl _ _ _ _ Hsh Hc) as (-> & _). by rewrite Eu.
  - (* Drop *) intros Γ' sh rs s c k T Hc Hk IH Γ -> Hsh Hrs; simpl.
    destruct (Hcl _ _ _ _ Hsh Hc) as (-> & _). rewrite (IH Γ) by auto. apply paths_app.
  - (* Call *) intros Γ' sh rs s fn args pt fd tf Hg Hf Ht Hargs Γ -> Hsh Hrs; simpl. f_equal.
    destruct Hargs as [[Hl Ha]|[a0 [rest [-> [Hl [Hp Ha]]]]]].
    + eapply uname_args_subst; eauto.
    + simpl. destruct (Hpr _ _ _ Hsh Hrs Hp) as (-> & Eu & _). rewrite Eu. simpl. eapply uname_args_subst; eauto.
  - (* CastP *) intros Γ' sh rs s to cont fm tm A0 Hp Hw Hc Γ -> Hsh Hrs; simpl.
    destruct (Hpr _ _ _ Hsh Hrs Hp) as (-> & Eu & _). destruct (Hcl _ _ _ _ Hsh Hc) as (-> & _). by rewrite Eu.
  - (* CastC *) intros Γ' sh rs s to cont T fm tm A0 Hc Hw Hp Ht Γ -> Hsh Hrs; simpl.
    destruct (Hpr _ _ _ Hsh Hrs Hp) as (-> & Eu & _). destruct (Hcl _ _ _ _ Hsh Hc) as (-> & _). by rewrite Eu, !map_app.
  - (* ShiftP *) intros Γ' sh rs s y from k fm tm A0 Hp Hw Hb Hk IH Γ -> Hsh Hrs; simpl.
    destruct (Hpr _ _ _ Hsh Hrs Hp) as (-> & _ & ->).
    rewrite (binder_eqb y old) by auto. rewrite Hx.
    destruct (String.eqb (ident y) x) eqn:E1; simpl.
    { apply String.eqb_eq in E1. rewrite <- (map_id (pnames (Some (ident y)) k)) at 1. apply map_ext_in. intros pk Hpk.
      symmetry. apply ren_id_notin. intros Hin. apply elem_of_list_In in Hin.
      destruct (proj1 (path_vars_mut Δ) _ _ _ _ _ Hk pk x Hpk Hin) as [v Hv].
      rewrite E1, lookup_delete in Hv. discriminate. }
    apply String.eqb_neq in E1.
    apply (IH (delete (ident y) Γ)); [by rewrite del_ins_ne|congruence|set_solver].
  - (* ShiftC *) intros Γ' sh rs s y from k T fm tm A0 Hc Hw Hb Hs1 Hk IH Γ -> Hsh Hrs; simpl.
    destruct (Hcl _ _ _ _ Hsh Hc) as (-> & -> & ->).
    rewrite (binder_eqb y old) by auto. rewrite Hx.
    destruct (String.eqb (ident y) x) eqn:E1; simpl.
    { apply paths_stop. by rewrite binds1. }
    apply String.eqb_neq in E1. rewrite (IH (<[ident y := A0]> Γ)); [|apply insert_commute; auto|auto|set_solver].
    apply paths_go. rewrite binds1. by apply String.eqb_neq.
  - (* Split *) intros Γ' sh rs s x0 y from k T Hc Hbx Hby Hne Hs1 Hs2 Hk IH Γ -> Hsh Hrs; simpl.
    destruct (Hcl _ _ _ _ Hsh Hc) as (-> & _).
    rewrite (binder_eqb x0 old), (binder_eqb y old) by auto. rewrite Hx.
    destruct (String.eqb (ident x0) x) eqn:E1; simpl.
    { apply paths_stop. by rewrite binds2, E1. }
    destruct (String.eqb (ident y) x) eqn:E2; simpl.
    { apply paths_stop. by rewrite binds2, E2, orb_true_r. }
    apply String.eqb_neq in E1, E2.
    rewrite (IH (<[ident y := T]> (<[ident x0 := T]> Γ))); [| |auto|set_solver].
    + apply paths_go. rewrite binds2. apply orb_false_iff. split; by apply String.eqb_neq.
    + rewrite (insert_commute _ (ident x0) x) by auto. rewrite (insert_commute _ (ident y) x) by auto. reflexivity.
  - (* Print *) intros Γ' sh rs s l k Hk IH Γ -> Hsh Hrs; simpl. by apply (IH Γ).
  - (* brs_p nil *) intros; simpl. reflexivity.
  - (* brs_p cons *) intros Γ' rs bs l pay k r A0 Hf Hb Hk IHk Hr IHr Γ -> Hrs; simpl.
    rewrite (binder_eqb pay old) by auto. rewrite Hx.
    rewrite map_app, (IHr Γ) by auto. f_equal.
    destruct (String.eqb (ident pay) x) eqn:E1; simpl.
    { apply String.eqb_eq in E1. rewrite <- (map_id (pnames (Some (ident pay)) k)) at 1. apply map_ext_in. intros pk Hpk.
      symmetry. apply ren_id_notin. intros Hin. apply elem_of_list_In in Hin.
      destruct (proj1 (path_vars_mut Δ) _ _ _ _ _ Hk pk x Hpk Hin) as [v Hv].
      rewrite E1, lookup_delete in Hv. discriminate. }
    apply String.eqb_neq in E1.
    apply (IHk (delete (ident pay) Γ)); [by rewrite del_ins_ne|congruence|set_solver].
  - (* brs_c nil *) intros; simpl. reflexivity.
  - (* brs_c cons *) intros Γ' sh rs s bs l pay k r A0 Hf Hb Hs1 Hk IHk Hr IHr Γ -> Hsh Hrs; simpl.
    rewrite (binder_eqb pay old) by auto. rewrite Hx. rewrite map_app, (IHr Γ) by auto. f_equal.
    destruct (String.eqb (ident pay) x) eqn:E1; simpl.
    { apply paths_stop0. by rewrite binds1. }
    apply String.eqb_neq in E1. rewrite (IHk (<[ident pay := A0]> Γ)); [|apply insert_commute; auto|auto|set_solver].
    apply paths_go0. rewrite binds1. by apply String.eqb_neq.
Qed.

Lemma pnames_subst Δ Γ sh rs s f old new kc A :
  chan old = None -> chan new = Some kc -> sh <> Some (ident old) -> ident old ∉ rs ->
  typed Δ (<[ident old := A]> Γ) sh rs s f ->
  pnames sh (subst old new f) = map (map (ren (ident old) kc)) (pnames sh f).
Proof. intros Ho Hn Hsh Hrs H. eapply (pnames_subst_mut Δ old new (ident old) kc A); eauto. Qed.

Lemma aff_subst Δ Γ sh rs s f old new kc A :
  chan old = None -> chan new = Some kc -> sh <> Some (ident old) -> ident old ∉ rs ->
  typed Δ (<[ident old := A]> Γ) sh rs s f ->
  ~ In kc (form_chans f) -> aff sh f -> aff sh (subst old new f).
Proof.
  intros Ho Hn Hsh Hrs Hty Hf Ha. unfold aff in *. erewrite pnames_subst; eauto.
  rewrite Forall_forall in *. intros pi' Hpi'. apply in_map_iff in Hpi' as (pi & <- & Hpi).
  apply NoDup_ren; [|by apply Ha].
  intros Hin. apply Hf. eapply (proj1 path_chans_mut); eauto. by apply elem_of_list_In.
Qed.

(* ... and keeps every scope affine *)
Lemma affr_subst_mut Δ old new x kc A :
  chan old = None -> ident old = x -> chan new = Some kc ->
  (forall Γ' sh rs s f, typed Δ Γ' sh rs s f ->
     forall Γ, Γ' = <[x := A]> Γ -> sh <> Some x -> x ∉ rs -> ~ In kc (form_chans f) ->
     affr sh f -> affr sh (subst old new f)) /\
  (forall Γ' rs bs b, typed_brs_p Δ Γ' rs bs b ->
     forall Γ, Γ' = <[x := A]> Γ -> x ∉ rs -> ~ In kc (brs_chans b) ->
     affr_bp b -> affr_bp (subst_brs old new b)) /\
  (forall Γ' sh rs s bs b, typed_brs_c Δ Γ' sh rs s bs b ->
     forall Γ, Γ' = <[x := A]> Γ -> sh <> Some x -> x ∉ rs -> ~ In kc (brs_chans b) ->
     affr_bc sh b -> affr_bc sh (subst_brs old new b)).
Proof.
  intros Ho Hx Hn. subst x.
  assert (Hcl : forall Γ sh n t, sh <> Some (ident old) -> client_ty Δ (<[ident old := A]> Γ) sh n t ->
     pdes sh (name_subst old new n) = false /\ pdes sh n = false).
  { intros Γ sh n t Hsh Hc. eapply (uname_client_subst Δ Γ sh old new (ident old) kc A n t); eauto. }
  assert (Hpr : forall sh rs n, sh <> Some (ident old) -> ident old ∉ rs -> prov_name sh rs n ->
     name_subst old new n = n /\ pdes sh n = true).
  { intros sh rs n ? ? Hp. split; [eapply prov_name_subst; eauto|eapply uname_prov; eauto]. }
  assert (Haff : forall Γ sh rs s f, typed Δ (<[ident old := A]> Γ) sh rs s f -> sh <> Some (ident old) -> ident old ∉ rs ->
     ~ In kc (form_chans f) -> affr sh f -> aff sh (subst old new f)).
  { intros. eapply aff_subst; eauto using affr_aff. }
  Local Ltac start T :=
    match goal with
    | Haff : _ |- affr ?sh (subst ?o ?n ?f) =>
      let H0 := fresh "H0" in
      assert (H0 : aff sh (subst o n f)) by (eapply Haff; eauto; T); simpl; split; [exact H0|clear H0]
    end.
  apply typed_mutind.
  - (* SendP *) intros Γ' sh rs s to pay cont A0 B m Hp Hw Hc1 Hc2 Γ -> Hsh Hrs Hf Ha.
    start ltac:(eapply T_SendP; eauto). exact I.
  - (* SendC *) intros Γ' sh rs s to pay cont T A0 B m Hc1 Hw Hc2 Hp Ht Γ -> Hsh Hrs Hf Ha.
    start ltac:(eapply T_SendC; eauto). exact I.
  - (* RecvP *) intros Γ' sh rs s pay cont from k A0 B m Hp Hw Hbp Hbc Hne Hk IH Γ -> Hsh Hrs Hf Ha.
    start ltac:(eapply T_RecvP; eauto).
    simpl in Ha |- *. destruct Ha as [_ Ha]. destruct (Hpr _ _ _ Hsh Hrs Hp) as (-> & Hpd). rewrite Hpd in *.
    rewrite (binder_eqb pay old), (binder_eqb cont old) by auto.
    destruct (String.eqb (ident pay) (ident old)) eqn:E1; simpl; [exact Ha|]. apply String.eqb_neq in E1.
    destruct (String.eqb (ident cont) (ident old)) eqn:E2; simpl; [exact Ha|]. apply String.eqb_neq in E2.
    apply (IH (<[ident pay := A0]> (delete (ident cont) Γ))); [|congruence|set_solver| |exact Ha].
    + rewrite del_ins_ne by auto. apply insert_commute; auto.
    + intros H. apply Hf. simpl. apply in_app_iff. by right.
  - (* RecvC *) intros Γ' sh rs s pay cont from k T A0 B m Hc Hw Hbp Hbc Hne Hs1 Hs2 Hk IH Γ -> Hsh Hrs Hf Ha.
    start ltac:(eapply T_RecvC; eauto).
    simpl in Ha |- *. destruct Ha as [_ Ha]. destruct (Hcl _ _ _ _ Hsh Hc) as (Hpd' & Hpd). rewrite Hpd' . rewrite Hpd in Ha.
    rewrite (binder_eqb pay old), (binder_eqb cont old) by auto.
    destruct (String.eqb (ident pay) (ident old)) eqn:E1; simpl; [exact Ha|]. apply String.eqb_neq in E1.
    destruct (String.eqb (ident cont) (ident old)) eqn:E2; simpl; [exact Ha|]. apply String.eqb_neq in E2.
    apply (IH (<[ident cont := B]> (<[ident pay := A0]> Γ))); [|auto|set_solver| |exact Ha].
    + rewrite (insert_commute _ (ident pay) (ident old)) by auto. rewrite (insert_commute _ (ident cont) (ident old)) by auto. reflexivity.
    + intros H. apply Hf. simpl. apply in_app_iff. by right.
  - (* SelP *) intros Γ' sh rs s to l cont bs m A0 Hp Hw Hfb Hc Γ -> Hsh Hrs Hf Ha.
    start ltac:(eapply T_SelP; eauto). exact I.
  - (* SelC *) intros Γ' sh rs s to l cont T bs m A0 Hc Hw Hfb Hp Ht Γ -> Hsh Hrs Hf Ha.
    start ltac:(eapply T_SelC; eauto). exact I.
  - (* CaseP *) intros Γ' sh rs s from b bs m Hp Hw Hcov Hb IH Γ -> Hsh Hrs Hf Ha.
    start ltac:(eapply T_CaseP; eauto).
    simpl in Ha |- *. destruct Ha as [_ Ha]. destruct (Hpr _ _ _ Hsh Hrs Hp) as (-> & Hpd). rewrite Hpd in *.
    apply (IH Γ); auto. intros H. apply Hf. simpl. apply in_app_iff. by right.
  - (* CaseC *) intros Γ' sh rs s from b T bs m Hc Hw Hcov Hb IH Γ -> Hsh Hrs Hf Ha.
    start ltac:(eapply T_CaseC; eauto).
    simpl in Ha |- *. destruct Ha as [_ Ha]. destruct (Hcl _ _ _ _ Hsh Hc) as (Hpd' & Hpd). rewrite Hpd'. rewrite Hpd in Ha.
    apply (IH Γ); auto. intros H. apply Hf. simpl. apply in_app_iff. by right.
  - (* New *) intros Γ' sh rs s y body k A0 Hb Hs1 Hbody IHb Hk IHk Γ -> Hsh Hrs Hf Ha.
    start ltac:(eapply T_New; eauto).
    simpl in Ha |- *. destruct Ha as [_ [Ha1 Ha2]]. split.
    + apply (IHb Γ); [reflexivity|discriminate|exact Hrs| |exact Ha1]. intros H. apply Hf. simpl. apply in_app_iff. by left.
    + rewrite (binder_eqb y old) by auto.
      destruct (String.eqb (ident y) (ident old)) eqn:E1; simpl; [exact Ha2|]. apply String.eqb_neq in E1.
      apply (IHk (<[ident y := A0]> Γ)); [apply insert_commute; auto|auto|set_solver| |exact Ha2].
      intros H. apply Hf. simpl. apply in_app_iff. by right.
  - (* Close *) intros Γ' sh rs s c m Hp Hw Γ -> Hsh Hrs Hf Ha.
    start ltac:(eapply T_Close; eauto). exact I.
  - (* Wait *) intros Γ' sh rs s c k T m Hc Hw Hk IH Γ -> Hsh Hrs Hf Ha.
    start ltac:(eapply T_Wait; eauto).
    simpl in Ha |- *. destruct Ha as [_ Ha]. apply (IH Γ); auto. intros H. apply Hf. simpl. apply in_app_iff. by right.
  - (* Fwd *) intros Γ' sh rs s to from d Hp Hc Γ -> Hsh Hrs Hf Ha.
    start ltac:(eapply T_Fwd; eauto). exact I.
  - (* Drop *) intros Γ' sh rs s c k T Hc Hk IH Γ -> Hsh Hrs Hf Ha.
    start ltac:(eapply T_Drop; eauto).
    simpl in Ha |- *. destruct Ha as [_ Ha]. apply (IH Γ); auto. intros H. apply Hf. simpl. apply in_app_iff. by right.
  - (* Call *) intros Γ' sh rs s fn args pt fd tf Hg Hfn Ht Hargs Γ -> Hsh Hrs Hf Ha.
    start ltac:(eapply T_Call; eauto). exact I.
  - (* CastP *) intros Γ' sh rs s to cont fm tm A0 Hp Hw Hc Γ -> Hsh Hrs Hf Ha.
    start ltac:(eapply T_CastP; eauto). exact I.
  - (* CastC *) intros Γ' sh rs s to cont T fm tm A0 Hc Hw Hp Ht Γ -> Hsh Hrs Hf Ha.
    start ltac:(eapply T_CastC; eauto). exact I.
  - (* ShiftP *) intros Γ' sh rs s y from k fm tm A0 Hp Hw Hb Hk IH Γ -> Hsh Hrs Hf Ha.
    start ltac:(eapply T_ShiftP; eauto).
    simpl in Ha |- *. destruct Ha as [_ Ha]. destruct (Hpr _ _ _ Hsh Hrs Hp) as (-> & Hpd). rewrite Hpd in *.
    rewrite (binder_eqb y old) by auto.
    destruct (String.eqb (ident y) (ident old)) eqn:E1; simpl; [exact Ha|]. apply String.eqb_neq in E1.
    apply (IH (delete (ident y) Γ)); [by rewrite del_ins_ne|congruence|set_solver| |exact Ha].
    intros H. apply Hf. simpl. apply in_app_iff. by right.
  - (* ShiftC *) intros Γ' sh rs s y from k T fm tm A0 Hc Hw Hb Hs1 Hk IH Γ -> Hsh Hrs Hf Ha.
    start ltac:(eapply T_ShiftC; eauto).
    simpl in Ha |- *. destruct Ha as [_ Ha]. destruct (Hcl _ _ _ _ Hsh Hc) as (Hpd' & Hpd). rewrite Hpd'. rewrite Hpd in Ha.
    rewrite (binder_eqb y old) by auto.
    destruct (String.eqb (ident y) (ident old)) eqn:E1; simpl; [exact Ha|]. apply String.eqb_neq in E1.
    apply (IH (<[ident y := A0]> Γ)); [apply insert_commute; auto|auto|set_solver| |exact Ha].
    intros H. apply Hf. simpl. apply in_app_iff. by right.
  - (* Split *) intros Γ' sh rs s x0 y from k T Hc Hbx Hby Hne Hs1 Hs2 Hk IH Γ -> Hsh Hrs Hf Ha.
    start ltac:(eapply T_Split; eauto).
    simpl in Ha |- *. destruct Ha as [_ Ha].
    rewrite (binder_eqb x0 old), (binder_eqb y old) by auto.
    destruct (String.eqb (ident x0) (ident old)) eqn:E1; simpl; [exact Ha|]. apply String.eqb_neq in E1.
    destruct (String.eqb (ident y) (ident old)) eqn:E2; simpl; [exact Ha|]. apply String.eqb_neq in E2.
    apply (IH (<[ident y := T]> (<[ident x0 := T]> Γ))); [|auto|set_solver| |exact Ha].
    + rewrite (insert_commute _ (ident x0) (ident old)) by auto. rewrite (insert_commute _ (ident y) (ident old)) by auto. reflexivity.
    + intros H. apply Hf. simpl. apply in_app_iff. by right.
  - (* Print *) intros Γ' sh rs s l k Hk IH Γ -> Hsh Hrs Hf Ha.
    start ltac:(eapply T_Print; eauto).
    simpl in Ha |- *. destruct Ha as [_ Ha]. apply (IH Γ); auto.
  - (* brs_p nil *) intros; simpl. exact I.
  - (* brs_p cons *) intros Γ' rs bs l pay k r A0 Hfb Hb Hk IHk Hr IHr Γ -> Hrs Hf [Ha1 Ha2]; simpl. split.
    + rewrite (binder_eqb pay old) by auto.
      destruct (String.eqb (ident pay) (ident old)) eqn:E1; simpl; [exact Ha1|]. apply String.eqb_neq in E1.
      apply (IHk (delete (ident pay) Γ)); [by rewrite del_ins_ne|congruence|set_solver| |exact Ha1].
      intros H. apply Hf. simpl. apply in_app_iff. by left.
    + apply (IHr Γ); auto. intros H. apply Hf. simpl. apply in_app_iff. by right.
  - (* brs_c nil *) intros; simpl. exact I.
  - (* brs_c cons *) intros Γ' sh rs s bs l pay k r A0 Hfb Hb Hs1 Hk IHk Hr IHr Γ -> Hsh Hrs Hf [Ha1 Ha2]; simpl. split.
    + rewrite (binder_eqb pay old) by auto.
      destruct (String.eqb (ident pay) (ident old)) eqn:E1; simpl; [exact Ha1|]. apply String.eqb_neq in E1.
      apply (IHk (<[ident pay := A0]> Γ)); [apply insert_commute; auto|auto|set_solver| |exact Ha1].
      intros H. apply Hf. simpl. apply in_app_iff. by left.
    + apply (IHr Γ); auto. intros H. apply Hf. simpl. apply in_app_iff. by right.
  Unshelve. all: exact ∅.
Qed.

Lemma affr_subst Δ Γ sh rs s f old new kc A :
  chan old = None -> chan new = Some kc -> sh <> Some (ident old) -> ident old ∉ rs ->
  typed Δ (<[ident old := A]> Γ) sh rs s f ->
  ~ In kc (form_chans f) -> affr sh f -> affr sh (subst old new f).
Proof. intros Ho Hn Hsh Hrs H. eapply (affr_subst_mut Δ old new (ident old) kc A); eauto. Qed.

(* ------------------------------------------------------------------ a self name for the identifier naming the provider *)
Lemma uname_client_prov Δ Γ sh old y n t :
  chan old = None -> ident old = y -> Γ !! y = None -> client_ty Δ Γ sh n t ->
  name_subst old (new_self "") n = n /\ uname (unshadow y sh) n = uname sh n /\
  pdes sh n = false /\ pdes (unshadow y sh) n = false.
Proof.
  intros Ho Hy Hfr Hc. split; [eapply client_ty_subst_id; eauto|].
  pose proof (client_pdes _ _ _ _ _ Hc) as Hpd.
  pose proof (client_ty_subst_prov teq Δ Γ sh old y n t Ho Hy Hfr Hc) as Hc'.
  rewrite (client_ty_subst_id teq Δ Γ sh old (new_self "") y n t Ho Hy Hfr Hc) in Hc'.
  pose proof (client_pdes _ _ _ _ _ Hc') as Hpd'. split; [|auto].
  destruct Hc as [Hs [_ Hc]]. destruct Hc' as [_ [_ Hc']]. unfold uname. destruct (chan n); auto.
  destruct Hc as [Hc _]. destruct Hc' as [Hc' _].
  by rewrite (prov_ref_false sh n Hs Hc), (prov_ref_false _ n Hs Hc').
Qed.

Lemma uname_prov_prov sh rs old y n :
  chan old = None -> ident old = y -> prov_name sh rs n ->
  uname sh n = [] /\ uname (unshadow y sh) (name_subst old (new_self "") n) = [] /\
  pdes sh n = true /\ pdes (unshadow y sh) (name_subst old (new_self "") n) = true.
Proof.
  intros Ho Hy Hp. pose proof (prov_name_subst_prov D teq Hteq sh rs old y n Ho Hy Hp) as Hp'.
  destruct (uname_prov _ _ _ Hp). destruct (uname_prov _ _ _ Hp'). auto.
Qed.

Lemma uname_args_prov Δ Γ sh old y args ps :
  chan old = None -> ident old = y -> Γ !! y = None -> args_ok teq Δ Γ sh args ps ->
  flat_map (uname (unshadow y sh)) (map (name_subst old (new_self "")) args) = flat_map (uname sh) args.
Proof.
  intros Ho Hy Hfr H. induction H as [|a p args ps [t [_ H1]] H IH]; simpl; auto.
  rewrite IH. f_equal. destruct (uname_client_prov Δ Γ sh old y a t Ho Hy Hfr H1) as (-> & -> & _). done.
Qed.

Lemma pnames_subst_prov_mut Δ old y :
  chan old = None -> ident old = y ->
  (forall Γ sh rs s f, typed Δ Γ sh rs s f -> Γ !! y = None ->
     pnames (unshadow y sh) (subst old (new_self "") f) = pnames sh f /\
     (affr sh f -> affr (unshadow y sh) (subst old (new_self "") f))) /\
  (forall Γ rs bs b, typed_brs_p Δ Γ rs bs b -> Γ !! y = None ->
     pnames_bp (subst_brs old (new_self "") b) = pnames_bp b /\
     (affr_bp b -> affr_bp (subst_brs old (new_self "") b))) /\
  (forall Γ sh rs s bs b, typed_brs_c Δ Γ sh rs s bs b -> Γ !! y = None ->
     pnames_bc (unshadow y sh) (subst_brs old (new_self "") b) = pnames_bc sh b /\
     (affr_bc sh b -> affr_bc (unshadow y sh) (subst_brs old (new_self "") b))).
Proof.
  intros Ho Hy.
  assert (Hcl : forall Γ sh n t, Γ !! y = None -> client_ty Δ Γ sh n t ->
     name_subst old (new_self "") n = n /\ uname (unshadow y sh) n = uname sh n /\
     pdes sh n = false /\ pdes (unshadow y sh) n = false)
    by (intros; eapply uname_client_prov; eauto).
  assert (Hpr : forall sh rs n, prov_name sh rs n ->
     uname sh n = [] /\ uname (unshadow y sh) (name_subst old (new_self "") n) = [] /\
     pdes sh n = true /\ pdes (unshadow y sh) (name_subst old (new_self "") n) = true)
    by (intros; eapply uname_prov_prov; eauto).
  Local Ltac fin :=
    match goal with
    | |- ?L = ?R /\ _ =>
      let E := fresh "E" in
      assert (E : L = R); [|split; [exact E|]; let Ha := fresh "Ha" in let Hr := fresh "Hr" in
                            intros [Ha Hr]; split; [unfold aff in *; simpl in *; first [exact Ha|rewrite E; exact Ha]|]]
    end.
  apply typed_mutind.
  - (* SendP *) intros Γ sh rs s to pay cont A0 B m Hp Hw Hc1 Hc2 Hfr; simpl.
    destruct (Hpr _ _ _ Hp) as (E1 & E2 & _). destruct (Hcl _ _ _ _ Hfr Hc1) as (-> & E3 & _). destruct (Hcl _ _ _ _ Hfr Hc2) as (-> & E4 & _).
    fin; [by rewrite E1, E2, E3, E4|exact I].
  - (* SendC *) intros Γ sh rs s to pay cont T A0 B m Hc1 Hw Hc2 Hp Ht Hfr; simpl.
    destruct (Hpr _ _ _ Hp) as (E1 & E2 & _). destruct (Hcl _ _ _ _ Hfr Hc1) as (-> & E3 & _). destruct (Hcl _ _ _ _ Hfr Hc2) as (-> & E4 & _).
    fin; [by rewrite E1, E2, E3, E4|exact I].
  - (* RecvP *) intros Γ sh rs s pay cont from k A0 B m Hp Hw Hbp Hbc Hne Hk IH Hfr; simpl.
    destruct (Hpr _ _ _ Hp) as (_ & _ & P1 & P2). rewrite P1, P2.
    rewrite (binder_eqb pay old), (binder_eqb cont old) by (try apply Hbp; try apply Hbc; auto). rewrite Hy.
    destruct (String.eqb (ident pay) y) eqn:E1; simpl; [fin; [done|exact Hr]|].
    destruct (String.eqb (ident cont) y) eqn:E2; simpl; [fin; [done|exact Hr]|].
    apply String.eqb_neq in E1, E2.
    destruct IH as [IH1 IH2]; [rewrite lookup_insert_ne by auto; apply lookup_del_none; auto|].
    rewrite (unshadow_other y (Some (ident cont))) in IH1, IH2 by congruence.
    fin; [by rewrite IH1|by apply IH2].
  - (* RecvC *) intros Γ sh rs s pay cont from k T A0 B m Hc Hw Hbp Hbc Hne Hs1 Hs2 Hk IH Hfr; simpl.
    destruct (Hcl _ _ _ _ Hfr Hc) as (-> & E0 & P1 & P2). rewrite P1, P2, E0.
    rewrite (binder_eqb pay old), (binder_eqb cont old) by (try apply Hbp; try apply Hbc; auto). rewrite Hy.
    destruct (String.eqb (ident pay) y) eqn:E1; simpl.
    { apply String.eqb_eq in E1. rewrite (unshadow_other y sh) by congruence. fin; [done|exact Hr]. }
    destruct (String.eqb (ident cont) y) eqn:E2; simpl.
    { apply String.eqb_eq in E2. rewrite (unshadow_other y sh) by congruence. fin; [done|exact Hr]. }
    apply String.eqb_neq in E1, E2.
    destruct IH as [IH1 IH2]; [rewrite !lookup_insert_ne; auto|].
    fin; [by rewrite IH1|by apply IH2].
  - (* SelP *) intros Γ sh rs s to l cont bs m A0 Hp Hw Hfb Hc Hfr; simpl.
    destruct (Hpr _ _ _ Hp) as (E1 & E2 & _). destruct (Hcl _ _ _ _ Hfr Hc) as (-> & E3 & _).
    fin; [by rewrite E1, E2, E3|exact I].
  - (* SelC *) intros Γ sh rs s to l cont T bs m A0 Hc Hw Hfb Hp Ht Hfr; simpl.
    destruct (Hpr _ _ _ Hp) as (E1 & E2 & _). destruct (Hcl _ _ _ _ Hfr Hc) as (-> & E3 & _).
    fin; [by rewrite E1, E2, E3|exact I].
  - (* CaseP *) intros Γ sh rs s from b bs m Hp Hw Hcov Hb IH Hfr; simpl.
    destruct (Hpr _ _ _ Hp) as (_ & _ & P1 & P2). rewrite P1, P2. destruct (IH Hfr) as [IH1 IH2].
    fin; [by rewrite IH1|by apply IH2].
  - (* CaseC *) intros Γ sh rs s from b T bs m Hc Hw Hcov Hb IH Hfr; simpl.
    destruct (Hcl _ _ _ _ Hfr Hc) as (-> & E0 & P1 & P2). rewrite P1, P2, E0. destruct (IH Hfr) as [IH1 IH2].
    fin; [by rewrite IH1|by apply IH2].
  - (* New *) intros Γ sh rs s x body k A0 Hb Hs1 Hbody IHb Hk IHk Hfr; simpl.
    rewrite (binder_eqb x old) by (try apply Hb; auto). rewrite Hy.
    destruct (IHb Hfr) as [IHb1 IHb2]. change (unshadow y None) with (@None string) in IHb1, IHb2.
    destruct (String.eqb (ident x) y) eqn:E1; simpl.
    { apply String.eqb_eq in E1. rewrite (unshadow_other y sh) by congruence.
      fin; [by rewrite IHb1|]. destruct Hr as [Hr1 Hr2]. split; [by apply IHb2|exact Hr2]. }
    apply String.eqb_neq in E1.
    destruct IHk as [IHk1 IHk2]; [rewrite lookup_insert_ne; auto|].
    fin; [by rewrite IHb1, IHk1|]. destruct Hr as [Hr1 Hr2]. split; [by apply IHb2|by apply IHk2].
  - (* Close *) intros Γ sh rs s c m Hp Hw Hfr; simpl.
    destruct (Hpr _ _ _ Hp) as (E1 & E2 & _). fin; [by rewrite E1, E2|exact I].
  - (* Wait *) intros Γ sh rs s c k T m Hc Hw Hk IH Hfr; simpl.
    destruct (Hcl _ _ _ _ Hfr Hc) as (-> & E0 & _). destruct (IH Hfr) as [IH1 IH2].
    fin; [by rewrite E0, IH1|by apply IH2].
  - (* Fwd *) intros Γ sh rs s to from d Hp Hc Hfr; simpl.
    destruct (Hpr _ _ _ Hp) as (E1 & E2 & _). destruct (Hcl _ _ _ _ Hfr Hc) as (-> & E3 & _).
    fin; [by rewrite E1, E2, E3|exact I].
  - (* Drop *) intros Γ sh rs s c k T Hc Hk IH Hfr; simpl.
    destruct (Hcl _ _ _ _ Hfr Hc) as (-> & E0 & _). destruct (IH Hfr) as [IH1 IH2].
    fin; [by rewrite E0, IH1|by apply IH2].
  - (* Call *) intros Γ sh rs s fn args pt fd tf Hg Hf Ht Hargs Hfr; simpl.
    fin; [|exact I]. f_equal.
    destruct Hargs as [[Hl Ha]|[a0 [rest [-> [Hl [Hp Ha]]]]]]; [eapply uname_args_prov; eauto|].
    simpl. destruct (Hpr _ _ _ Hp) as (E1 & E2 & _). rewrite E1, E2. simpl. eapply uname_args_prov; eauto.
  - (* CastP *) intros Γ sh rs s to cont fm tm A0 Hp Hw Hc Hfr; simpl.
    destruct (Hpr _ _ _ Hp) as (E1 & E2 & _). destruct (Hcl _ _ _ _ Hfr Hc) as (-> & E3 & _).
    fin; [by rewrite E1, E2, E3|exact I].
  - (* CastC *) intros Γ sh rs s to cont T fm tm A0 Hc Hw Hp Ht Hfr; simpl.
    destruct (Hpr _ _ _ Hp) as (E1 & E2 & _). destruct (Hcl _ _ _ _ Hfr Hc) as (-> & E3 & _).
    fin; [by rewrite E1, E2, E3|exact I].
  - (* ShiftP *) intros Γ sh rs s x from k fm tm A0 Hp Hw Hb Hk IH Hfr; simpl.
    destruct (Hpr _ _ _ Hp) as (_ & _ & P1 & P2). rewrite P1, P2.
    rewrite (binder_eqb x old) by (try apply Hb; auto). rewrite Hy.
    destruct (String.eqb (ident x) y) eqn:E1; simpl; [fin; [done|exact Hr]|].
    apply String.eqb_neq in E1.
    destruct IH as [IH1 IH2]; [apply lookup_del_none; auto|].
    rewrite (unshadow_other y (Some (ident x))) in IH1, IH2 by congruence.
    fin; [by rewrite IH1|by apply IH2].
  - (* ShiftC *) intros Γ sh rs s x from k T fm tm A0 Hc Hw Hb Hs1 Hk IH Hfr; simpl.
    destruct (Hcl _ _ _ _ Hfr Hc) as (-> & E0 & P1 & P2). rewrite P1, P2, E0.
    rewrite (binder_eqb x old) by (try apply Hb; auto). rewrite Hy.
    destruct (String.eqb (ident x) y) eqn:E1; simpl.
    { apply String.eqb_eq in E1. rewrite (unshadow_other y sh) by congruence. fin; [done|exact Hr]. }
    apply String.eqb_neq in E1.
    destruct IH as [IH1 IH2]; [rewrite lookup_insert_ne; auto|].
    fin; [by rewrite IH1|by apply IH2].
  - (* Split *) intros Γ sh rs s x y0 from k T Hc Hbx Hby Hne Hs1 Hs2 Hk IH Hfr; simpl.
    destruct (Hcl _ _ _ _ Hfr Hc) as (-> & E0 & _). rewrite E0.
    rewrite (binder_eqb x old), (binder_eqb y0 old) by (try apply Hbx; try apply Hby; auto). rewrite Hy.
    destruct (String.eqb (ident x) y) eqn:E1; simpl.
    { apply String.eqb_eq in E1. rewrite (unshadow_other y sh) by congruence. fin; [done|exact Hr]. }
    destruct (String.eqb (ident y0) y) eqn:E2; simpl.
    { apply String.eqb_eq in E2. rewrite (unshadow_other y sh) by congruence. fin; [done|exact Hr]. }
    apply String.eqb_neq in E1, E2.
    destruct IH as [IH1 IH2]; [rewrite !lookup_insert_ne; auto|].
    fin; [by rewrite IH1|by apply IH2].
  - (* Print *) intros Γ sh rs s l k Hk IH Hfr; simpl. destruct (IH Hfr) as [IH1 IH2].
    fin; [exact IH1|by apply IH2].
  - (* brs_p nil *) intros; simpl. auto.
  - (* brs_p cons *) intros Γ rs bs l pay k r A0 Hf Hb Hk IHk Hr IHr Hfr; simpl.
    rewrite (binder_eqb pay old) by (try apply Hb; auto). rewrite Hy. destruct (IHr Hfr) as [IHr1 IHr2].
    destruct (String.eqb (ident pay) y) eqn:E1; simpl.
    { split; [by rewrite IHr1|]. intros [H1 H2]. split; [exact H1|by apply IHr2]. }
    apply String.eqb_neq in E1.
    destruct IHk as [IHk1 IHk2]; [apply lookup_del_none; auto|].
    rewrite (unshadow_other y (Some (ident pay))) in IHk1, IHk2 by congruence.
    split; [by rewrite IHk1, IHr1|]. intros [H1 H2]. split; [by apply IHk2|by apply IHr2].
  - (* brs_c nil *) intros; simpl. auto.
  - (* brs_c cons *) intros Γ sh rs s bs l pay k r A0 Hf Hb Hs1 Hk IHk Hr IHr Hfr; simpl.
    rewrite (binder_eqb pay old) by (try apply Hb; auto). rewrite Hy. destruct (IHr Hfr) as [IHr1 IHr2].
    destruct (String.eqb (ident pay) y) eqn:E1; simpl.
    { apply String.eqb_eq in E1. rewrite (unshadow_other y sh) in * by congruence.
      split; [by rewrite IHr1|]. intros [H1 H2]. split; [exact H1|by apply IHr2]. }
    apply String.eqb_neq in E1.
    destruct IHk as [IHk1 IHk2]; [rewrite lookup_insert_ne; auto|].
    split; [by rewrite IHk1, IHr1|]. intros [H1 H2]. split; [by apply IHk2|by apply IHr2].
Qed.

(* the binder of a receive / case / shift on self fires *)
Lemma pnames_subst_shadow Δ Γ rs s f old :
  chan old = None -> Γ !! ident old = None -> typed Δ Γ (Some (ident old)) rs s f ->
  pnames None (subst old (new_self "") f) = pnames (Some (ident old)) f /\
  (affr (Some (ident old)) f -> affr None (subst old (new_self "") f)).
Proof.
  intros Ho Hfr H. pose proof (proj1 (pnames_subst_prov_mut Δ old (ident old) Ho eq_refl) _ _ _ _ _ H Hfr) as H'.
  unfold unshadow in H'. rewrite decide_True in H' by auto. exact H'.
Qed.
(* the explicit provider of a function is instantiated at a call *)
Lemma pnames_subst_explicit Δ Γ rs s f old :
  chan old = None -> Γ !! ident old = None -> typed Δ Γ None rs s f ->
  pnames None (subst old (new_self "") f) = pnames None f /\ (affr None f -> affr None (subst old (new_self "") f)).
Proof. intros Ho Hfr H. exact (proj1 (pnames_subst_prov_mut Δ old (ident old) Ho eq_refl) _ _ _ _ _ H Hfr). Qed.

(* ------------------------------------------------------------------ the channels of a typed term are typed *)
Lemma client_chan_typed Δ Γ sh n t k : client_ty Δ Γ sh n t -> In k (name_chans n) -> is_Some (Δ !! k).
Proof.
  intros [_ [_ H]]. unfold name_chans. destruct (chan n) as [c|]; [|intros []]. intros [<-|[]].
  destruct H as [t' [H _]]. eauto.
Qed.
Lemma prov_no_chan sh rs n k : prov_name sh rs n -> ~ In k (name_chans n).
Proof. intros [H _]. unfold name_chans. rewrite H. auto. Qed.
Lemma args_chan_typed Δ Γ sh args ps k : args_ok teq Δ Γ sh args ps -> In k (flat_map name_chans args) -> is_Some (Δ !! k).
Proof.
  intros H. induction H as [|a p args ps [t [_ H1]] H IH]; simpl; [tauto|].
  rewrite in_app_iff. intros [Hz|Hz]; eauto using client_chan_typed.
Qed.

Lemma form_chans_typed_mut Δ :
  (forall Γ sh rs s f, typed Δ Γ sh rs s f -> forall k, In k (form_chans f) -> is_Some (Δ !! k)) /\
  (forall Γ rs bs b, typed_brs_p Δ Γ rs bs b -> forall k, In k (brs_chans b) -> is_Some (Δ !! k)) /\
  (forall Γ sh rs s bs b, typed_brs_c Δ Γ sh rs s bs b -> forall k, In k (brs_chans b) -> is_Some (Δ !! k)).
Proof.
  apply typed_mutind; simpl; intros;
    repeat match goal with
           | H : In _ (_ ++ _) |- _ => apply in_app_iff in H as [H|H]
           | H : In _ [] |- _ => destruct H
           | Hp : prov_name _ _ ?n, H : In _ (name_chans ?n) |- _ => destruct (prov_no_chan _ _ _ _ Hp H)
           | Hc : client_ty _ _ _ ?n _, H : In _ (name_chans ?n) |- _ => exact (client_chan_typed _ _ _ _ _ _ Hc H)
           end; eauto.
  - (* Call *)
    match goal with H : _ \/ _ |- _ => destruct H as [[Hl Ha]|[a0 [rest [-> [Hl [Hp Ha]]]]]] end; [eauto using args_chan_typed|].
    match goal with Hin : In _ (flat_map _ (_ :: _)) |- _ => simpl in Hin; apply in_app_iff in Hin as [Hin|Hin];
      [destruct (prov_no_chan _ _ _ _ Hp Hin)|eauto using args_chan_typed] end.
  - contradiction.
  - contradiction.
Qed.
Lemma form_chans_typed Δ Γ sh rs s f k : typed Δ Γ sh rs s f -> In k (form_chans f) -> is_Some (Δ !! k).
Proof. intros H. eapply (proj1 (form_chans_typed_mut Δ)); eauto. Qed.
End Paths.
