(* DeterminismExamples.v — non-vacuity of the C03 theorems on a concrete program, built inside Coq
   with the model of the real pipeline (Expand.parse_string, TcTop.typecheck, init_config). *)
From stdpp Require Import gmap strings sorting.
Require Import Grits.Base Grits.Forms Grits.Expand Grits.TcTop Grits.Runtime.
Require Import Grits.RuntimeFootprint Grits.proofs.RuntimeFacts Grits.proofs.Diamond Grits.proofs.Determinism Grits.proofs.ForkJoin.

(* two top-level processes: a prints and closes; b prints, waits for a, prints again *)
Definition demo_text : string := "prc[a] : 1 = print left; close self
prc[b] : 1 = print right; wait a; print done; close self".

Definition accepted (s : string) : option program :=
  match parse_string s with
  | POk p => match typecheck p with Accept p' => Some p' | _ => None end
  | _ => None
  end.

Definition run_labels (md : exec_mode) (pick : nat -> nat -> nat) (s : string) : option (list string) :=
  match accepted s with
  | Some p => match exec_run 100 pick md (p_types p) (p_funs p) (init_config p) with
              | RQuiescent c => Some (labels c)
              | _ => None
              end
  | None => None
  end.

Definition pick_first : nat -> nat -> nat := fun _ _ => 0%nat.
Definition pick_last : nat -> nat -> nat := fun _ n => (n - 1)%nat.

(* two schedules, two different print ORDERS, the same multiset — in both polarized modes *)
Example demo_async_first : run_labels Async pick_first demo_text = Some ["right"; "left"; "done"].
Proof. vm_compute. reflexivity. Qed.
Example demo_async_last : run_labels Async pick_last demo_text = Some ["left"; "right"; "done"].
Proof. vm_compute. reflexivity. Qed.
Example demo_sync_first : run_labels Sync pick_first demo_text = Some ["right"; "left"; "done"].
Proof. vm_compute. reflexivity. Qed.
Example demo_sync_last : run_labels Sync pick_last demo_text = Some ["left"; "right"; "done"].
Proof. vm_compute. reflexivity. Qed.
Example demo_same_multiset : ["right"; "left"; "done"] ≡ₚ ["left"; "right"; "done"].
Proof. apply perm_swap. Qed.

(* the hypotheses of the diamond are satisfiable: in the initial configuration of the demo program
   both processes are enabled, they are independent, and the namespace hygiene holds *)
Example demo_diamond_nonvacuous :
  exists p c1 c2,
    accepted demo_text = Some p /\
    ns_ok (init_config p) /\
    step Async (p_types p) (p_funs p) (init_config p) (Run [0]) = SStep c1 /\
    step Async (p_types p) (p_funs p) (init_config p) (Run [1]) = SStep c2 /\
    indep Async (p_types p) (init_config p) (Run [0]) (Run [1]) /\
    exists d1 d2, step Async (p_types p) (p_funs p) c1 (Run [1]) = SStep d1 /\
                  step Async (p_types p) (p_funs p) c2 (Run [0]) = SStep d2 /\ cfg_equiv d1 d2 /\ out d1 ≠ out d2.
Proof.
  destruct (accepted demo_text) as [p|] eqn:E; [|by vm_compute in E].
  destruct (step Async (p_types p) (p_funs p) (init_config p) (Run [0])) as [|c1|] eqn:E1;
    [exfalso; revert E1; vm_compute in E; injection E as <-; by vm_compute| |
     exfalso; revert E1; vm_compute in E; injection E as <-; by vm_compute].
  destruct (step Async (p_types p) (p_funs p) (init_config p) (Run [1])) as [|c2|] eqn:E2;
    [exfalso; revert E2; vm_compute in E; injection E as <-; by vm_compute| |
     exfalso; revert E2; vm_compute in E; injection E as <-; by vm_compute].
  assert (Hind : indep Async (p_types p) (init_config p) (Run [0]) (Run [1])).
  { vm_compute in E. injection E as <-. split; [|split].
    - cbn. intros x Hx Hy. apply elem_of_list_singleton in Hx, Hy. congruence.
    - vm_compute. intros x Hx. by apply elem_of_nil in Hx.
    - vm_compute. intros x Hx. by apply elem_of_nil in Hx. }
  exists p, c1, c2. split; [done|]. split; [apply ns_ok_init|]. split; [done|]. split; [done|]. split; [done|].
  destruct (diamond Async _ _ _ _ _ c1 c2 (ns_ok_init p) Hind E1 E2) as (d1 & d2 & H1 & H2 & He).
  exists d1, d2. split; [done|]. split; [done|]. split; [done|].
  revert E1 E2 H1 H2. vm_compute in E. injection E as <-. vm_compute.
  intros [= <-] [= <-] [= <-] [= <-]. discriminate.
Qed.

(* ------------------------------------------------------------------ the fork-join class is inhabited *)
Definition hello_text : string := "type A = lin 1
let hello() : A =
    a : A <- new close self;
    wait a;
    print hello;
    close self
exec hello()".

Definition par_text : string := "let leaf() : lin 1 = print leaf; close self
prc[a] : lin 1 = x : lin 1 <- new leaf(); y : lin 1 <- new leaf(); print root; wait x; wait y; print joined; close self".

Definition fj_program_b (s : string) : option bool :=
  match accepted s with Some p => Some (fj_funs_b (p_funs p) && fj_cfg_b (init_config p)) | None => None end.

Example demo_in_class : fj_program_b demo_text = Some true.
Proof. vm_compute. reflexivity. Qed.
Example hello_in_class : fj_program_b hello_text = Some true.
Proof. vm_compute. reflexivity. Qed.
Example par_in_class : fj_program_b par_text = Some true.
Proof. vm_compute. reflexivity. Qed.

(* an unconditional statement about one concrete accepted program, obtained from the general theorem
   and ONE computed run: under EVERY scheduler oracle and every fuel >= 100 the program runs to
   completion and prints a permutation of right, left, done *)
Example demo_every_schedule :
  exists p, accepted demo_text = Some p /\
  forall pick f, (100 <= f)%nat ->
    exists t, exec_run f pick Async (p_types p) (p_funs p) (init_config p) = RQuiescent t /\
              labels t ≡ₚ ["right"; "left"; "done"].
Proof.
  destruct (accepted demo_text) as [p|] eqn:E; [|by vm_compute in E]. exists p. split; [done|].
  intros pick f Hf.
  assert (Hcls : fj_funs_b (p_funs p) && fj_cfg_b (init_config p) = true).
  { pose proof demo_in_class as H. unfold fj_program_b in H. rewrite E in H. by injection H. }
  apply andb_true_iff in Hcls as [HF Hc].
  destruct (exec_run 100 pick_first Async (p_types p) (p_funs p) (init_config p)) as [t1| |] eqn:Er;
    [|exfalso; revert Er; vm_compute in E; injection E as <-; by vm_compute
     |exfalso; revert Er; vm_compute in E; injection E as <-; by vm_compute].
  destruct (forkjoin_program_determinism p pick_first pick 100 f t1 HF Hc Er Hf) as (t2 & H2 & _ & Hl).
  exists t2. split; [done|]. rewrite Hl.
  pose proof demo_async_first as H1. unfold run_labels in H1. rewrite E, Er in H1. injection H1 as ->. done.
Qed.
