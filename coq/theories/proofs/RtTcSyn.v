(* RtTcSyn.v — the syntactic premise of `tc_annotations_typed` on the NAMES of a program (typecheck
   accepts arbitrary ASTs; what follows holds of everything the parser + expandProcesses produce, and
   the check module evaluates it on every program of the suite):
     * no name of a source program carries a channel;
     * a `self` name carries the identifier "" (the keyword) or the identifier of the explicit
       provider of the function it occurs in, and not inside the scope of a binder of that identifier
       (expandProcesses does not substitute under such a binder);
     * binders (and provider names, parameters) carry a non-empty identifier;
     * the explicit provider of a function is not one of its parameters; a process has at least one
       provider name.
   The typechecker only writes type annotations: these facts carry over to its output. *)
From stdpp Require Import gmap strings.
Require Import Grits.Base Grits.ModeDefs Grits.Modes Grits.STypes Grits.Forms Grits.Subst Grits.TcDeps Grits.Expand
               Grits.Tc Grits.TcTop Grits.spec.RtTyping.

Definition nm_ok (rs : gset string) (n : name) : bool :=
  match chan n with
  | Some _ => false
  | None => if is_self n then bool_decide (ident n ∈ rs) else true
  end.
Definition bd_ok (x : name) : bool :=
  match chan x with Some _ => false | None => negb (String.eqb (ident x) "") end.

Fixpoint syn_form (rs : gset string) (f : form) : bool :=
  match f with
  | FSend a b c => nm_ok rs a && nm_ok rs b && nm_ok rs c
  | FRecv p c fr k => bd_ok p && bd_ok c && nm_ok rs fr && syn_form (rs ∖ {[ident p]} ∖ {[ident c]}) k
  | FSel a _ c => nm_ok rs a && nm_ok rs c
  | FCase fr bs => nm_ok rs fr && syn_brs rs bs
  | FNew x b k => bd_ok x && syn_form rs b && syn_form (rs ∖ {[ident x]}) k
  | FClose c => nm_ok rs c
  | FWait c k => nm_ok rs c && syn_form rs k
  | FFwd a b _ => nm_ok rs a && nm_ok rs b
  | FSplit x y fr k => bd_ok x && bd_ok y && nm_ok rs fr && syn_form (rs ∖ {[ident x]} ∖ {[ident y]}) k
  | FCall _ args _ => forallb (nm_ok rs) args
  | FCast a c => nm_ok rs a && nm_ok rs c
  | FShift x fr k => bd_ok x && nm_ok rs fr && syn_form (rs ∖ {[ident x]}) k
  | FDrop c k => nm_ok rs c && syn_form rs k
  | FPrint _ k => syn_form rs k
  end
with syn_brs (rs : gset string) (b : branches) : bool :=
  match b with
  | BrNil => true
  | BrCons _ p k r => bd_ok p && syn_form (rs ∖ {[ident p]}) k && syn_brs rs r
  end.

Definition fun_rs (fd : fundef) : gset string :=
  match fn_explicit fd with Some ep => {[ ""; ident ep ]} | None => {[ "" ]} end.

Definition fun_syn_ok (fd : fundef) : bool :=
  forallb bd_ok (fn_params fd) &&
  match fn_explicit fd with
  | Some ep => match chan ep with None => true | Some _ => false end &&
               negb (str_mem (ident ep) (map ident (fn_params fd)))
  | None => true
  end &&
  syn_form (fun_rs fd) (fn_body fd).

Definition proc_syn_ok (pr : procdef) : bool :=
  match pr_providers pr with [] => false | _ :: _ => true end &&
  forallb bd_ok (pr_providers pr) && syn_form {[ "" ]} (pr_body pr).

Definition rt_syn_ok (p : program) : bool :=
  forallb fun_syn_ok (p_funs p) && forallb proc_syn_ok (p_procs p).

(* ------------------------------------------------------------------ basic facts *)
Lemma nm_ok_set_nty rs n t : nm_ok rs (set_nty n t) = nm_ok rs n.
Proof. reflexivity. Qed.

Lemma bd_ok_binder x : bd_ok x = true -> binder x.
Proof.
  unfold bd_ok, binder. destruct (chan x); [discriminate|]. intros H. split; auto.
  intros E. rewrite E in H. discriminate.
Qed.
Lemma bd_ok_set_nty x t : bd_ok (set_nty x t) = bd_ok x.
Proof. reflexivity. Qed.

Lemma nm_ok_chan rs n : nm_ok rs n = true -> chan n = None.
Proof. unfold nm_ok. destruct (chan n); [discriminate|auto]. Qed.
Lemma nm_ok_self rs n : nm_ok rs n = true -> is_self n = true -> ident n ∈ rs.
Proof.
  unfold nm_ok. destruct (chan n); [discriminate|]. intros H S. rewrite S in H.
  apply bool_decide_eq_true in H. exact H.
Qed.
