(* RtTcSyn.v — what the parser and expandProcesses guarantee about the NAMES of a program, as a boolean
   `raw_ok` (proved of everything `parse_string` returns in proofs/ParseRaw.v; typecheck accepts
   arbitrary ASTs, so the translation of proofs/RtTcSound.v needs it as a premise on ASTs):
     * no name carries a channel;
     * a name that is not `self` has a non-empty identifier; a `self` name carries the identifier ""
       (the keyword) or, in a function with an explicit provider, the identifier of that provider
       — and the latter only outside the scope of a binder of that identifier (expandProcesses
       does not substitute under such a binder);
     * a binder is a plain name (non-empty identifier) or the keyword self; so are parameters;
       a provider name of a process has a non-empty identifier or is the keyword self;
     * a process has at least one provider name;
     * the identifier of the explicit provider of a function occurs in its body only on `self` names
       or under a binder of that identifier (`nouse`).
   The conditions that the typing judgement needs beyond these — binders of context channels and
   parameters are not the keyword self, the explicit provider is not a parameter, a provider name is
   not the keyword self — are consequences of ACCEPTANCE and are derived in proofs/RtTcSound.v
   (`stuck_all`: a context entry that the body cannot name makes the checker fail) and
   proofs/RtTcSoundTop.v (guard providers_not_self, finding F31). *)
From stdpp Require Import gmap strings.
Require Import Grits.Base Grits.ModeDefs Grits.Modes Grits.STypes Grits.Forms Grits.Subst Grits.TcDeps Grits.Expand
               Grits.Tc Grits.TcTop Grits.spec.RtTyping.

Definition nm_ok (rs : gset string) (n : name) : bool :=
  match chan n with
  | Some _ => false
  | None => if is_self n then bool_decide (ident n ∈ rs) else negb (String.eqb (ident n) "")
  end.
(* a binder as the grammar produces it: LABEL or the keyword self *)
Definition bd_ok (x : name) : bool :=
  match chan x with
  | Some _ => false
  | None => if is_self x then String.eqb (ident x) "" else negb (String.eqb (ident x) "")
  end.
(* the scope of a binder: self names may no longer carry its identifier — unless it is "" *)
Definition under (rs : gset string) (x : name) : gset string := rs ∖ ({[ident x]} ∖ {[""]}).

Fixpoint syn_form (rs : gset string) (f : form) : bool :=
  match f with
  | FSend a b c => nm_ok rs a && nm_ok rs b && nm_ok rs c
  | FRecv p c fr k => bd_ok p && bd_ok c && nm_ok rs fr && syn_form (under (under rs p) c) k
  | FSel a _ c => nm_ok rs a && nm_ok rs c
  | FCase fr bs => nm_ok rs fr && syn_brs rs bs
  | FNew x b k => bd_ok x && syn_form rs b && syn_form (under rs x) k
  | FClose c => nm_ok rs c
  | FWait c k => nm_ok rs c && syn_form rs k
  | FFwd a b _ => nm_ok rs a && nm_ok rs b
  | FSplit x y fr k => bd_ok x && bd_ok y && nm_ok rs fr && syn_form (under (under rs x) y) k
  | FCall _ args _ => forallb (nm_ok rs) args
  | FCast a c => nm_ok rs a && nm_ok rs c
  | FShift x fr k => bd_ok x && nm_ok rs fr && syn_form (under rs x) k
  | FDrop c k => nm_ok rs c && syn_form rs k
  | FPrint _ k => syn_form rs k
  end
with syn_brs (rs : gset string) (b : branches) : bool :=
  match b with
  | BrNil => true
  | BrCons _ p k r => bd_ok p && syn_form (under rs p) k && syn_brs rs r
  end.

(* the context name z cannot be named by f: every occurrence of the identifier z is a `self` name or
   lies under a binder of z *)
Definition nu (z : string) (n : name) : bool := is_self n || negb (String.eqb (ident n) z).
Fixpoint nouse (z : string) (f : form) : bool :=
  match f with
  | FSend a b c => nu z a && nu z b && nu z c
  | FRecv p c fr k => nu z fr && (String.eqb (ident p) z || String.eqb (ident c) z || nouse z k)
  | FSel a _ c => nu z a && nu z c
  | FCase fr bs => nu z fr && nouse_brs z bs
  | FNew x b k => nouse z b && (String.eqb (ident x) z || nouse z k)
  | FClose c => nu z c
  | FWait c k => nu z c && nouse z k
  | FFwd a b _ => nu z a && nu z b
  | FSplit x y fr k => nu z fr && (String.eqb (ident x) z || String.eqb (ident y) z || nouse z k)
  | FCall _ args _ => forallb (nu z) args
  | FCast a c => nu z a && nu z c
  | FShift x fr k => nu z fr && (String.eqb (ident x) z || nouse z k)
  | FDrop c k => nu z c && nouse z k
  | FPrint _ k => nouse z k
  end
with nouse_brs (z : string) (b : branches) : bool :=
  match b with
  | BrNil => true
  | BrCons _ p k r => (String.eqb (ident p) z || nouse z k) && nouse_brs z r
  end.

Definition fun_rs (fd : fundef) : gset string :=
  match fn_explicit fd with Some ep => {[ ""; ident ep ]} | None => {[ "" ]} end.

Definition fun_raw (fd : fundef) : bool :=
  forallb bd_ok (fn_params fd) &&
  match fn_explicit fd with
  | Some ep => match chan ep with None => true | Some _ => false end && nouse (ident ep) (fn_body fd)
  | None => true
  end &&
  syn_form (fun_rs fd) (fn_body fd).

(* a provider name of a process: a LABEL, the keyword self (rejected by the checker: F31), or the
   generated self name execN of an exec statement *)
Definition pv_ok (x : name) : bool :=
  match chan x with Some _ => false | None => is_self x || negb (String.eqb (ident x) "") end.

Definition proc_raw (pr : procdef) : bool :=
  match pr_providers pr with [] => false | _ :: _ => true end &&
  forallb pv_ok (pr_providers pr) && syn_form {[ "" ]} (pr_body pr).

Definition raw_ok (p : program) : bool :=
  forallb fun_raw (p_funs p) && forallb proc_raw (p_procs p).

(* ------------------------------------------------------------------ basic facts *)
Lemma nm_ok_set_nty rs n t : nm_ok rs (set_nty n t) = nm_ok rs n.
Proof. reflexivity. Qed.
Lemma bd_ok_set_nty x t : bd_ok (set_nty x t) = bd_ok x.
Proof. reflexivity. Qed.

Lemma nm_ok_chan rs n : nm_ok rs n = true -> chan n = None.
Proof. unfold nm_ok. destruct (chan n); [discriminate|auto]. Qed.
Lemma nm_ok_self rs n : nm_ok rs n = true -> is_self n = true -> ident n ∈ rs.
Proof.
  unfold nm_ok. destruct (chan n); [discriminate|]. intros H S. rewrite S in H.
  apply bool_decide_eq_true in H. exact H.
Qed.
Lemma nm_ok_nonself rs n : nm_ok rs n = true -> is_self n = false -> ident n <> "".
Proof.
  unfold nm_ok. destruct (chan n); [discriminate|]. intros H S. rewrite S in H.
  intros E. rewrite E in H. discriminate.
Qed.

Lemma bd_ok_chan x : bd_ok x = true -> chan x = None.
Proof. unfold bd_ok. destruct (chan x); [discriminate|auto]. Qed.
Lemma bd_ok_pbinder x : bd_ok x = true -> pbinder x.
Proof. apply bd_ok_chan. Qed.
(* a binder that is not the keyword self *)
Lemma bd_ok_binder x : bd_ok x = true -> is_self x = false -> binder x.
Proof.
  unfold bd_ok, binder. destruct (chan x); [discriminate|]. intros H S. rewrite S in H. split; auto.
  intros E. rewrite E in H. discriminate.
Qed.
Lemma bd_ok_self x : bd_ok x = true -> is_self x = true -> ident x = "".
Proof.
  unfold bd_ok. destruct (chan x); [discriminate|]. intros H S. rewrite S in H. apply String.eqb_eq. exact H.
Qed.

Lemma under_strict rs x : ident x <> "" -> under rs x = rs ∖ {[ident x]}.
Proof. intros H. unfold under. apply set_eq. intros y. set_solver. Qed.
Lemma under_self rs x : ident x = "" -> under rs x = rs.
Proof. intros H. unfold under. rewrite H. apply set_eq. intros y. set_solver. Qed.

(* a form all of whose plain names are non-empty cannot name "" *)
Lemma nm_nu_empty rs n : nm_ok rs n = true -> nu "" n = true.
Proof.
  intros H. unfold nu. destruct (is_self n) eqn:S; auto. simpl.
  apply negb_true_iff. apply String.eqb_neq. eapply nm_ok_nonself; eauto.
Qed.
Lemma syn_nouse_empty :
  (forall f rs, syn_form rs f = true -> nouse "" f = true) /\
  (forall b rs, syn_brs rs b = true -> nouse_brs "" b = true).
Proof.
  apply form_branches_ind; intros; simpl in *;
    repeat match goal with H : _ && _ = true |- _ => apply andb_true_iff in H; destruct H end;
    repeat (apply andb_true_iff; split); eauto using nm_nu_empty;
    try (apply orb_true_iff; right; eauto; fail);
    try (apply orb_true_iff; right; apply orb_true_iff; right; eauto; fail).
  match goal with H : forallb _ _ = true |- _ => rewrite forallb_forall in H end.
  apply forallb_forall. intros n Hn. eapply nm_nu_empty; eauto.
Qed.
