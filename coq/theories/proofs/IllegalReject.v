(* IllegalReject.v — C12: a character outside the alphabet at a token boundary makes the parser
   reject the text (it is never skipped, and never taken for the end of the input). *)
Require Import Grits.Base Grits.ModeDefs Grits.Modes Grits.STypes Grits.Forms Grits.Tokens Grits.Scan
               Grits.LR Grits.Actions Grits.Expand Grits.spec.ScanSpec
               Grits.proofs.ScanProofs Grits.proofs.ScanCover.

Local Notation slen := String.length.

(* a byte that starts no token, is not whitespace and does not open a comment *)
Definition illegal_char (c : ascii) : bool :=
  match single_char c with Some _ => false | None => true end && negb (is_special c) && negb (is_lab c) && negb (is_ws c).

(* u is a token boundary of s: a call of Scan starts at u when s is scanned (only real tokens and
   comments in front of it) *)
Inductive boundary : string -> string -> Prop :=
| B_here s : boundary s s
| B_tok s k lx rest u : scan1 s = Tok k lx rest -> code0 k = false -> boundary rest u -> boundary s u
| B_skip s rest u : scan1 s = Skip rest -> boundary rest u -> boundary s u.

Lemma boundary_tokens s u : boundary s u -> forall l, scan_all u = Tokens l ->
  exists pre, scan_all s = Tokens (pre ++ l).
Proof.
  induction 1 as [s | s k lx rest u Hs Hk Hb IH | s rest u Hs Hb IH]; intros l Hl.
  - exists []. exact Hl.
  - destruct (IH l Hl) as [pre Hpre]. exists ((k, lx) :: pre).
    assert (Hlen : (slen rest < slen s)%nat).
    { destruct (scan1_progress s) as [[lx0 He] | Hp]; [rewrite He in Hs; inversion Hs; subst; discriminate|].
      rewrite Hs in Hp. exact Hp. }
    unfold scan_all at 1. cbn [scan_all_f]. rewrite Hs.
    rewrite (scan_all_f_mono _ _ _ Hpre (slen s)) by lia.
    destruct k; try discriminate; reflexivity.
  - destruct (IH l Hl) as [pre Hpre]. exists pre.
    assert (Hlen : (slen rest < slen s)%nat).
    { destruct (scan1_progress s) as [[lx0 He] | Hp]; [rewrite He in Hs; discriminate|].
      rewrite Hs in Hp. exact Hp. }
    unfold scan_all at 1. cbn [scan_all_f]. rewrite Hs.
    apply (scan_all_f_mono _ _ _ Hpre). lia.
Qed.

Lemma skip_ws_app ws x : all_ws ws = true -> skip_ws (ws ^^ x) = skip_ws x.
Proof.
  induction ws as [|c ws IH]; cbn; [reflexivity|]. intros H. apply andb_true_iff in H. destruct H as [H1 H2].
  rewrite H1. apply IH. exact H2.
Qed.

Lemma scan1_illegal ws c b : all_ws ws = true -> illegal_char c = true ->
  scan1 (ws ^^ String c b) = Tok T_ILLEGAL (String c "") b.
Proof.
  intros Hws Hc. rewrite scan1_unfold, strip_ws_skip, skip_ws_app by exact Hws.
  unfold illegal_char in Hc. rewrite !andb_true_iff in Hc. destruct Hc as [[[H1 H2] H3] H4].
  apply negb_true_iff in H2, H3, H4.
  cbn [skip_ws]. rewrite H4. unfold scan1_body.
  destruct (single_char c); [discriminate|].
  assert (H47 : (code c =? 47)%nat = false).
  { unfold is_special in H2. rewrite !orb_false_iff in H2. tauto. }
  rewrite H47, H2, H3. reflexivity.
Qed.

(* C12: if, scanning the text, a call of Scan starts in front of (whitespace and) a character
   outside the alphabet, the text is not accepted *)
Theorem illegal_at_boundary_rejected : forall s ws c b,
  boundary s (ws ^^ String c b) -> all_ws ws = true -> illegal_char c = true ->
  forall l, parse_statements s <> POk l.
Proof.
  intros s ws c b Hb Hws Hc l Hp.
  assert (Hu : scan_all (ws ^^ String c b) = Tokens [(T_ILLEGAL, String c "")]).
  { unfold scan_all. cbn [scan_all_f]. rewrite (scan1_illegal ws c b Hws Hc). reflexivity. }
  destruct (boundary_tokens _ _ Hb _ Hu) as [pre Hs].
  unfold parse_statements in Hp. rewrite Hs in Hp.
  assert (Hill : has_illegal (pre ++ [(T_ILLEGAL, String c "")]) = true).
  { unfold has_illegal. rewrite existsb_app. cbn. apply orb_true_r. }
  rewrite Hill in Hp.
  destruct (parse_tokens _ _ _ _ _ _); discriminate.
Qed.

(* the characters of the check's insertion stream are outside the alphabet *)
Lemma single_char_high c : (125 < code c)%nat -> single_char c = None.
Proof.
  unfold single_char. generalize (code c) as n. intros n H.
  do 126 (destruct n as [|n]; [lia|]). reflexivity.
Qed.

Theorem outside_alphabet_illegal : forall c,
  In (code c) [64; 35; 36; 126; 33; 63; 34; 94; 96; 0; 127]%nat \/ (128 <= code c)%nat -> illegal_char c = true.
Proof.
  intros c [Hin | Hhi].
  - assert (Hc : c = ascii_of_nat (code c)) by (unfold code; symmetry; apply ascii_nat_embedding).
    cbn [In] in Hin.
    repeat (destruct Hin as [Hin | Hin]; [rewrite Hc, <- Hin; vm_compute; reflexivity|]).
    contradiction.
  - unfold illegal_char. rewrite (single_char_high c) by lia.
    unfold is_special, is_lab, is_alnum, is_ws.
    repeat match goal with
           | |- context [(code c =? ?k)%nat] => replace (code c =? k)%nat with false by (symmetry; apply Nat.eqb_neq; lia)
           | |- context [(code c <=? ?k)%nat] => replace (code c <=? k)%nat with false by (symmetry; apply Nat.leb_gt; lia)
           end.
    cbn. rewrite !andb_false_r. reflexivity.
Qed.
