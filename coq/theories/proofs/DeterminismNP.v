(* DeterminismNP.v — the non-polarized mode (Runtime.NP, the CLI's --sync).
   1. topo_runs_np is a THEOREM for every parsed, accepted, closed program whose source passes all_src_b
      (InvNP.invx_step_np; the initial invariant is DeterminismAll.init_invx). *)
From stdpp Require Import gmap strings sorting.
Require Import Grits.Base Grits.ModeDefs Grits.Modes Grits.STypes Grits.Forms Grits.Subst Grits.TcDeps Grits.Expand
               Grits.Tc Grits.TcTop Grits.spec.SynOk Grits.Runtime Grits.RuntimeFootprint
               Grits.spec.RtTyping Grits.spec.Topo Grits.proofs.RtSubst Grits.proofs.StepErrors Grits.proofs.RtSafety Grits.proofs.RtSafetyNP
               Grits.proofs.RtInit Grits.proofs.RtProgress Grits.proofs.RtTheorems Grits.proofs.RtStaticCheck
               Grits.proofs.RtTcSyn Grits.proofs.RtTcBisim Grits.proofs.ParseSynOk Grits.proofs.ParseRaw Grits.proofs.RtTheoremsTc.
Require Import Grits.proofs.RuntimeFacts Grits.proofs.Diamond Grits.proofs.Determinism Grits.proofs.AsyncSync
               Grits.proofs.DeterminismTyped Grits.proofs.TopoLin Grits.proofs.TopoStep Grits.proofs.TopoReach
               Grits.proofs.DeterminismTc Grits.proofs.InvAll Grits.proofs.InvNP Grits.proofs.DeterminismAll.

Theorem topo_runs_np_all_tc p p' :
  typecheck p = Accept p' -> in_fragment p' -> prog_syn_ok p = true -> raw_ok p = true -> all_src_b p = true ->
  topo_runs_np p'.
Proof.
  intros Ha Hf PS RS Hall c Hr.
  destruct (init_invx p p' Ha Hf PS RS Hall) as (HFa & HFn & HI).
  pose proof (tc_annotations_typed_rt p p' Ha PS RS Hf) as Hst.
  eapply (topo_reachable_np (p_types p') (p_funs p') (teq_rt (p_types p')) (teq_rt_laws _) (proj1 Hst) HFa HFn (init_config p')); eauto.
  apply bufs_empty_init.
Qed.

Theorem topo_runs_np_all txt p p' :
  parse_string txt = POk p -> typecheck p = Accept p' -> in_fragment p' -> all_src_b p = true -> topo_runs_np p'.
Proof. intros Hp Ha Hf Hall. exact (topo_runs_np_all_tc p p' Ha Hf (parse_syn_ok _ _ Hp) (parse_raw_ok _ _ Hp) Hall). Qed.
