(* DeterminismNP.v — the non-polarized mode (Runtime.NP, the CLI's --sync).
   1. topo_runs_np is a THEOREM for every parsed, accepted, closed program whose source passes all_src_b
      (InvNP.invx_step_np; the initial invariant is DeterminismAll.init_invx). *)
From stdpp Require Import gmap strings sorting.
Require Import Grits.Base Grits.ModeDefs Grits.Modes Grits.STypes Grits.Forms Grits.Subst Grits.TcDeps Grits.Expand
               Grits.Tc Grits.TcTop Grits.spec.SynOk Grits.Runtime Grits.RuntimeFootprint
               Grits.spec.RtTyping Grits.spec.Topo Grits.proofs.RtSubst Grits.proofs.StepErrors Grits.proofs.RtSafety Grits.proofs.RtSafetyNP
               Grits.proofs.RtInit Grits.proofs.RtProgress Grits.proofs.RtTheorems Grits.proofs.RtStaticCheck
               Grits.proofs.RtTcSyn Grits.proofs.RtTcBisim Grits.proofs.ParseSynOk Grits.proofs.ParseRaw Grits.proofs.RtTheoremsTc.
Require Import Grits.proofs.RuntimeFacts Grits.proofs.Diamond Grits.proofs.Determinism Grits.proofs.AsyncSync
               Grits.proofs.DeterminismTyped Grits.proofs.TopoLin Grits.proofs.TopoStep Grits.proofs.TopoReach
               Grits.proofs.DeterminismTc Grits.proofs.InvAll Grits.proofs.InvNP Grits.proofs.DeterminismAll.

Theorem topo_runs_np_all_tc p p' :
  typecheck p = Accept p' -> in_fragment p' -> prog_syn_ok p = true -> raw_ok p = true -> all_src_b p = true ->
  topo_runs_np p'.
Proof.
  intros Ha Hf PS RS Hall c Hr.
  destruct (init_invx p p' Ha Hf PS RS Hall) as (HFa & HFn & HI).
  pose proof (tc_annotations_typed_rt p p' Ha PS RS Hf) as Hst.
  eapply (topo_reachable_np (p_types p') (p_funs p') (teq_rt (p_types p')) (teq_rt_laws _) (proj1 Hst) HFa HFn (init_config p')); eauto.
  apply bufs_empty_init.
Qed.

Theorem topo_runs_np_all txt p p' :
  parse_string txt = POk p -> typecheck p = Accept p' -> in_fragment p' -> all_src_b p = true -> topo_runs_np p'.
Proof. intros Hp Ha Hf Hall. exact (topo_runs_np_all_tc p p' Ha Hf (parse_syn_ok _ _ Hp) (parse_raw_ok _ _ Hp) Hall). Qed.

(* ------------------------------------------------------------------ 2. programs without forwards: NP runs ARE synchronous runs *)
Require Import Grits.proofs.TcShape Grits.proofs.TcShapeTop Grits.proofs.InitForest Grits.proofs.InitAccept Grits.proofs.PlainNP.

Lemma plain_erase_mut :
  (forall f, plain (erase_form f) = plain f) /\ (forall b, plain_brs (erase_brs b) = plain_brs b).
Proof. apply form_branches_ind; simpl; intros; congruence. Qed.
Lemma plain_erase_eq f g : erase_form f = erase_form g -> plain f = plain g.
Proof. intros E. rewrite <- (proj1 plain_erase_mut f), E. apply plain_erase_mut. Qed.

Lemma fold_sub_plain l : forall b, plain (fold_sub l b) = plain b.
Proof.
  induction l as [|[[old new] ot] l IH]; intros b; [reflexivity|].
  change (fold_sub ((old, new, ot) :: l) b) with (fold_sub l (subst old new b)). by rewrite IH, plain_subst.
Qed.

(* the source test: no forward, no drop, no split in any body; one provider name per process *)
Definition plain_src_b (p : program) : bool :=
  forallb (fun fd => plain (fn_body fd)) (p_funs p) &&
  forallb (fun pd => plain (pr_body pd) && match pr_providers pd with [_] => true | _ => false end) (p_procs p).
Definition np_src_b (p : program) : bool := all_src_b p && plain_src_b p.

Lemma init_plain p p' : typecheck p = Accept p' -> plain_src_b p = true ->
  plain_funs (p_funs p') /\ PlainCfg (init_config p').
Proof.
  intros Ha Hpl. destruct (typecheck_erase p p' Ha) as (Sf & Sp & _).
  unfold plain_src_b in Hpl. apply andb_true_iff in Hpl as [Hpf Hpp]. rewrite forallb_forall in Hpf, Hpp. split.
  - unfold plain_funs. rewrite Forall_forall. intros fd' Hfd'.
    destruct (TypingSoundTop.Forall2_In_r _ _ _ _ Sf Hfd') as (fd & Hfd & E). rewrite (plain_erase_eq _ _ E). by apply Hpf.
  - intros q pq Hq. apply RtInit.init_config_procs in Hq. destruct Hq as (i & pr' & Hi & _ & ->). cbn.
    destruct (Forall2_lookup_both _ _ _ _ _ Sp Hi) as (pd & Hpd & E & Epv).
    assert (Hin : In pd (p_procs p)) by (apply elem_of_list_In; eapply elem_of_list_lookup_2; eauto).
    specialize (Hpp pd Hin). apply andb_true_iff in Hpp as [H1 H2]. split.
    + unfold init_body. rewrite (init_pairs_tops p').
      change (fold_left _ (map _ (tops p')) (pr_body pr')) with (fold_sub (tops p') (pr_body pr')).
      by rewrite fold_sub_plain, (plain_erase_eq _ _ E).
    + rewrite Epv. destruct (pr_providers pd) as [|n [|]]; try discriminate. simpl. eauto.
Qed.

(* the run of the non-polarized mode under any scheduler oracle IS the synchronous run under that oracle *)
Theorem np_run_sync p p' fuel pick :
  typecheck p = Accept p' -> plain_src_b p = true ->
  exec_run fuel pick NP (p_types p') (p_funs p') (init_config p') =
  exec_run fuel pick Sync (p_types p') (p_funs p') (init_config p').
Proof.
  intros Ha Hpl. destruct (init_plain p p' Ha Hpl) as [HFp Hc].
  apply plain_run_eq; [exact HFp|exact Hc|apply bufs_empty_init].
Qed.

(* C03 in the non-polarized mode for these programs *)
Theorem determinism_np_plain txt p p' pick1 pick2 f1 f2 t1 :
  parse_string txt = POk p -> typecheck p = Accept p' -> in_fragment p' -> np_src_b p = true ->
  exec_run f1 pick1 NP (p_types p') (p_funs p') (init_config p') = RQuiescent t1 -> (f1 <= f2)%nat ->
  exists t2, exec_run f2 pick2 NP (p_types p') (p_funs p') (init_config p') = RQuiescent t2 /\
             cfg_equiv t2 t1 /\ labels t2 ≡ₚ labels t1.
Proof.
  intros Hp Ha Hf Hsrc. unfold np_src_b in Hsrc. apply andb_true_iff in Hsrc as [Hall Hpl].
  rewrite !(np_run_sync p p' _ _ Ha Hpl). apply (determinism_all txt p p' Sync); auto.
Qed.

(* the last clause of C03: the non-polarized mode prints the multiset of the polarized modes *)
Theorem np_polarized_agree_plain txt p p' pick1 f1 t1 :
  parse_string txt = POk p -> typecheck p = Accept p' -> in_fragment p' -> np_src_b p = true ->
  exec_run f1 pick1 NP (p_types p') (p_funs p') (init_config p') = RQuiescent t1 ->
  (forall pick2 f2, (f1 <= f2)%nat ->
     exists t2, exec_run f2 pick2 Sync (p_types p') (p_funs p') (init_config p') = RQuiescent t2 /\ labels t2 ≡ₚ labels t1) /\
  exists n, forall pick2 f2, (n < f2)%nat ->
    exists t2, exec_run f2 pick2 Async (p_types p') (p_funs p') (init_config p') = RQuiescent t2 /\ labels t2 ≡ₚ labels t1.
Proof.
  intros Hp Ha Hf Hsrc Hr. pose proof Hsrc as Hsrc'. unfold np_src_b in Hsrc'. apply andb_true_iff in Hsrc' as [Hall Hpl].
  rewrite (np_run_sync p p' _ _ Ha Hpl) in Hr. split.
  - intros pick2 f2 Hle. destruct (determinism_all txt p p' Sync pick1 pick2 f1 f2 t1 Hp Ha Hf Hall eq_refl Hr Hle) as (t2 & H2 & _ & Hl).
    eauto.
  - exact (async_sync_agree_all txt p p' pick1 f1 t1 Hp Ha Hf Hall Hr).
Qed.

Definition np_accept_text (txt : string) : bool :=
  match parse_string txt with
  | POk p => match typecheck p with
             | Accept p' => in_fragment_b p' && np_src_b p
             | _ => false
             end
  | _ => false
  end.

(* non-vacuity: a9's channel-passing example has no forward, drop or split *)
Example example_np_accept : np_accept_text example_text = true.
Proof. vm_compute. reflexivity. Qed.
