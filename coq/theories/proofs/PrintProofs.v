(* PrintProofs.v — consequences of parse_print_type: String() is injective up to the modes it does
   not print; the memo key of EqualType determines the pair on well-formed types. *)
Require Import Grits.Base Grits.ModeDefs Grits.Modes Grits.STypes Grits.Infer Grits.Print Grits.Scan Grits.Equal Grits.EqualWF
               Grits.spec.TypeReader Grits.proofs.StrLemmas Grits.proofs.EqualWFFacts Grits.proofs.ReaderProofs
               Grits.proofs.LexProofs Grits.proofs.EqualSound.

(* the canonical representative of a type among those that print alike: non-shift nodes get the
   mode pushed down from above (m at the top, the source mode below a shift) *)
Fixpoint norm (m : mode) (t : sty) : sty :=
  match t with
  | TName x _ => TName x m
  | TUnit _ => TUnit m
  | TTensor a b _ => TTensor (norm m a) (norm m b) m
  | TLolli a b _ => TLolli (norm m a) (norm m b) m
  | TPlus bs _ => TPlus (norm_brs m bs) m
  | TWith bs _ => TWith (norm_brs m bs) m
  | TUp f t a => TUp f t (norm f a)
  | TDown f t a => TDown f t (norm f a)
  end
with norm_brs (m : mode) (b : brs) : brs :=
  match b with BNil => BNil | BCons l a r => BCons l (norm m a) (norm_brs m r) end.

Lemma norm_facts :
  (forall t m, print_type (norm m t) = print_type t /\ needs_paren (norm m t) = needs_paren t /\
               runiform m (norm m t) = true /\ syn_ok (norm m t) = syn_ok t /\ modes_wf (norm m t) = modes_wf t) /\
  (forall b m, print_brs (norm_brs m b) = print_brs b /\ runiform_brs m (norm_brs m b) = true /\
               syn_ok_brs (norm_brs m b) = syn_ok_brs b /\ modes_wf_brs (norm_brs m b) = modes_wf_brs b /\
               brs_len (norm_brs m b) = brs_len b).
Proof.
  apply sty_brs_ind; intros; cbn [norm norm_brs print_type print_brs needs_paren runiform runiform_brs syn_ok syn_ok_brs modes_wf modes_wf_brs brs_len];
    repeat match goal with
           | H : forall m : mode, _ |- context [norm ?m ?a] => destruct (H m) as (? & ? & ? & ? & ?); clear H
           | H : forall m : mode, _ |- context [norm_brs ?m ?a] => destruct (H m) as (? & ? & ? & ? & ?); clear H
           end;
    rewrite ?mode_same_refl;
    repeat match goal with H : _ = _ |- _ => rewrite H; clear H end; cbn [andb]; try (repeat split; reflexivity).
  - destruct rest; cbn [norm_brs]; repeat split; reflexivity.
Qed.

Lemma norm_uniform : (forall t m, runiform m t = true -> norm m t = t) /\ (forall b m, runiform_brs m b = true -> norm_brs m b = b).
Proof.
  apply sty_brs_ind; cbn; intros; rewrite ?andb_true_iff in *;
    repeat match goal with H : _ /\ _ |- _ => destruct H end;
    repeat match goal with H : mode_same _ _ = true |- _ => apply mode_same_eq in H; subst end;
    f_equal; auto.
Qed.

(* C15: what a printed type determines *)
Theorem print_injective s t m :
  syn_ok s = true -> modes_wf s = true -> syn_ok t = true -> modes_wf t = true ->
  print_type s = print_type t -> norm m s = norm m t.
Proof.
  intros Hs1 Hs2 Ht1 Ht2 Hp.
  destruct (proj1 norm_facts s m) as (Ps & _ & Us & Ss & Ms). destruct (proj1 norm_facts t m) as (Pt & _ & Ut & St & Mt).
  assert (E1 : rd_type m (lex_ty (print_type (norm m s))) = Some (norm m s)) by (apply parse_print_type_r; congruence).
  assert (E2 : rd_type m (lex_ty (print_type (norm m t))) = Some (norm m t)) by (apply parse_print_type_r; congruence).
  rewrite Ps, Hp, <- Pt, E2 in E1. congruence.
Qed.

Corollary print_injective_uniform s t m :
  uniform m s = true -> uniform m t = true ->
  syn_ok s = true -> modes_wf s = true -> syn_ok t = true -> modes_wf t = true ->
  print_type s = print_type t -> s = t.
Proof.
  intros Us Ut Hs1 Hs2 Ht1 Ht2 Hp.
  rewrite <- (proj1 norm_uniform s m), <- (proj1 norm_uniform t m) by (apply uniform_runiform; assumption).
  apply print_injective; assumption.
Qed.

(* ---------- the memo key ---------- *)
Definition nb (c : ascii) : bool := negb (Ascii.eqb c "|"%char).

Lemma all_chars_app p a b : all_chars p (a ^^ b) = all_chars p a && all_chars p b.
Proof. induction a; cbn; [reflexivity | rewrite IHa, andb_assoc; reflexivity]. Qed.
Lemma all_chars_impl (p q : ascii -> bool) s : (forall c, p c = true -> q c = true) -> all_chars p s = true -> all_chars q s = true.
Proof. intros H. induction s; cbn; [auto|]. rewrite !andb_true_iff. intros [H1 H2]. auto. Qed.
Lemma lab_nb c : is_lab c = true -> nb c = true.
Proof.
  intros H. unfold nb. destruct (Ascii.eqb c "|"%char) eqn:E; [|reflexivity].
  apply Ascii.eqb_eq in E. subst. vm_compute in H. discriminate.
Qed.
Lemma mode_nb m : proper m = true -> all_chars nb (mode_short m) = true /\ String.length (mode_short m) = 3.
Proof. destruct m; cbn; try discriminate; intros _; split; reflexivity. Qed.
Lemma mode_short_inj a b : proper a = true -> proper b = true -> mode_short a = mode_short b -> a = b.
Proof. destruct a, b; cbn; try discriminate; intros _ _ H; try reflexivity; discriminate. Qed.

Lemma print_nb : (forall t, syn_ok t = true -> modes_wf t = true -> all_chars nb (print_type t) = true) /\
                 (forall b, syn_ok_brs b = true -> modes_wf_brs b = true -> all_chars nb (print_brs b) = true).
Proof.
  apply sty_brs_ind; intros; cbn [print_type print_brs]; cbn [syn_ok syn_ok_brs modes_wf modes_wf_brs] in *; rewrite ?andb_true_iff in *.
  - eapply all_chars_impl; [apply lab_nb|]. unfold ident_ok in *. rewrite !andb_true_iff in *. tauto.
  - reflexivity.
  - unfold paren_if. destruct (needs_paren a); rewrite ?all_chars_app; cbn; rewrite ?all_chars_app; cbn;
      rewrite H, H0 by tauto; reflexivity.
  - unfold paren_if. destruct (needs_paren a); rewrite ?all_chars_app; cbn; rewrite ?all_chars_app; cbn;
      rewrite H, H0 by tauto; reflexivity.
  - rewrite !all_chars_app. rewrite H by tauto. reflexivity.
  - rewrite !all_chars_app. rewrite H by tauto. reflexivity.
  - destruct H1 as [[Hf Ht] Ha]. destruct (mode_nb f Hf) as [Nf _]. destruct (mode_nb t Ht) as [Nt _].
    rewrite !all_chars_app, Nf, Nt, H by tauto. reflexivity.
  - destruct H1 as [[Hf Ht] Ha]. destruct (mode_nb f Hf) as [Nf _]. destruct (mode_nb t Ht) as [Nt _].
    rewrite !all_chars_app, Nf, Nt, H by tauto. reflexivity.
  - reflexivity.
  - assert (Hl : all_chars nb l = true).
    { eapply all_chars_impl; [apply lab_nb|]. unfold ident_ok in *. rewrite !andb_true_iff in *. tauto. }
    destruct rest as [|l2 a2 r2].
    + cbn [print_brs]. rewrite !all_chars_app, Hl, H by tauto. reflexivity.
    + change (print_brs (BCons l a (BCons l2 a2 r2))) with (l ^^ " : " ^^ print_type a ^^ ", " ^^ print_brs (BCons l2 a2 r2)).
      rewrite !all_chars_app, Hl, H, H0 by tauto. reflexivity.
Qed.

Lemma split_bar a : forall a' b b', all_chars nb a = true -> all_chars nb a' = true ->
  a ^^ "|" ^^ b = a' ^^ "|" ^^ b' -> a = a' /\ b = b'.
Proof.
  induction a as [|c a IH]; intros [|c' a'] b b' Ha Ha' H; cbn in *.
  - inversion H; auto.
  - inversion H; subst. apply andb_true_iff in Ha'. destruct Ha' as [Hc _]. vm_compute in Hc. discriminate.
  - inversion H; subst. apply andb_true_iff in Ha. destruct Ha as [Hc _]. vm_compute in Hc. discriminate.
  - inversion H; subst. apply andb_true_iff in Ha, Ha'. destruct (IH a' b b') as [-> ->]; tauto.
Qed.

Theorem key_injective D : key_injective_on D.
Proof.
  intros s t s' t' Ws Wt Ws' Wt' Hk. unfold memo_key in Hk.
  destruct (WT_parts _ _ Ws) as (S1 & S2 & S3 & S4 & _). destruct (WT_parts _ _ Wt) as (T1 & T2 & T3 & T4 & _).
  destruct (WT_parts _ _ Ws') as (S1' & S2' & S3' & S4' & _). destruct (WT_parts _ _ Wt') as (T1' & T2' & T3' & T4' & _).
  destruct (mode_nb _ S3) as [Ns Ls]. destruct (mode_nb _ S3') as [Ns' Ls'].
  destruct (mode_nb _ T3) as [Nt Lt]. destruct (mode_nb _ T3') as [Nt' Lt'].
  rewrite <- (app_assoc_s (print_type s)), <- (app_assoc_s (print_type s')) in Hk.
  apply split_bar in Hk; [| rewrite all_chars_app, (proj1 print_nb s S1 S2), Ns; reflexivity
                           | rewrite all_chars_app, (proj1 print_nb s' S1' S2'), Ns'; reflexivity].
  destruct Hk as [H1 H2].
  apply app_inj_len_r in H1; [|congruence]. apply app_inj_len_r in H2; [|congruence].
  destruct H1 as [P1 M1]. destruct H2 as [P2 M2].
  apply mode_short_inj in M1; auto. apply mode_short_inj in M2; auto.
  rewrite <- M1 in S4'. rewrite <- M2 in T4'.
  split; eapply print_injective_uniform; eauto.
Qed.
