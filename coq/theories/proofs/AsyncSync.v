(* AsyncSync.v — the synchronous polarized mode is simulated by the asynchronous one (C03, "whether
   polarized execution is asynchronous or synchronous"): from a configuration whose buffers are
   empty, a synchronous `Run` step is the same asynchronous step, a `Rendezvous s r` is the send
   step of s followed by the receive step of r (they reach the SAME configuration), and a
   configuration that is quiescent in synchronous mode becomes quiescent in asynchronous mode after
   the blocked senders have deposited their messages (which prints nothing).  Hence every maximal
   synchronous run is matched by a maximal asynchronous run with the same output. *)
From stdpp Require Import gmap strings sorting.
Require Import Grits.Base Grits.ModeDefs Grits.Modes Grits.STypes Grits.Forms Grits.Subst Grits.TcDeps Grits.Expand.
Require Import Grits.Runtime Grits.RuntimeFootprint Grits.proofs.RuntimeFacts Grits.proofs.Diamond Grits.proofs.Determinism.

Definition bufs_empty (c : config) : Prop := forall k st, chans c !! k = Some st -> ch_buf st = None.

Lemma action_of_sync D p : action_of Sync D p = action_of Async D p.
Proof. unfold action_of. destruct (pr_body0 p); reflexivity. Qed.
Lemma internal_effect_sync F self p : internal_effect Sync F self p = internal_effect Async F self p.
Proof. unfold internal_effect. destruct (pr_body0 p); reflexivity. Qed.

Lemma bufs_empty_init p : bufs_empty (init_config p).
Proof.
  unfold init_config, bufs_empty. cbn [chans].
  match goal with |- forall k st, fold_left ?f ?l ?a !! k = Some st -> _ =>
    apply (fold_left_inv (fun m : gmap cid chan_st => forall k st, m !! k = Some st -> ch_buf st = None) f l a) end.
  - intros k st. rewrite lookup_empty. discriminate.
  - intros m [old new] _ IH k st. destruct (chan new) as [k'|]; [|apply IH].
    intros H. apply lookup_insert_Some in H as [[_ <-]|[_ H]]; [done|by eapply IH].
Qed.

(* ------------------------------------------------------------------ one synchronous step *)
Lemma sync_step_async D F c ch c' :
  bufs_empty c -> step Sync D F c ch = SStep c' ->
  (exists p, ch = Run p /\ step Async D F c (Run p) = SStep c') \/
  (exists s r c1, ch = Rendezvous s r /\ step Async D F c (Run s) = SStep c1 /\ step Async D F c1 (Run r) = SStep c').
Proof.
  intros Hb. destruct ch as [p|s r|f t]; cbn [step].
  - intros H. left. exists p. split; [done|]. revert H.
    destruct (procs c !! p) as [pp|]; [|done]. rewrite action_of_sync.
    destruct (action_of Async D pp) as [| |k m|k| |k pv|w]; try done.
    destruct (chans c !! k) as [[buf cl]|]; [|done]. cbn [ch_closed ch_buf]. destruct cl; [done|]. by destruct buf.
  - intros H. right. revert H. destruct (bool_decide (s = r)) eqn:Esr; [done|]. apply bool_decide_eq_false in Esr.
    destruct (procs c !! s) as [ps|] eqn:Es; [|done]. destruct (procs c !! r) as [pr|] eqn:Er; [|done].
    rewrite !action_of_sync.
    destruct (action_of Async D ps) as [| |k m|k| |k pv|w] eqn:Eas; try done.
    destruct (action_of Async D pr) as [| |k' m'|k'| |k' pv'|w'] eqn:Ear; try done.
    destruct (bool_decide (k = k')) eqn:Ekk; [|done]. apply bool_decide_eq_true in Ekk. subst k'.
    destruct (chans c !! k) as [[buf cl]|] eqn:Ek; [|done]. cbn [ch_closed].
    destruct cl; [done|]. intros H.
    assert (buf = None) as -> by (apply (Hb _ _ Ek)).
    exists s, r, (del_proc (put_msg c k (Chan None false) (Some m)) s). split; [done|]. split.
    + rewrite Es, Eas, Ek. done.
    + cbn [procs del_proc put_msg chans]. rewrite lookup_delete_ne by done. rewrite Er, Ear.
      rewrite lookup_insert. cbn [ch_buf ch_closed].
      replace (put_msg _ k _ None) with (del_proc c s); [done|].
      unfold put_msg, del_proc. cbn. f_equal. rewrite insert_insert. symmetry. by apply insert_id.
  - destruct (bool_decide (f = t)); done.
Qed.

Lemma sync_step_bufs_empty D F c ch c' : bufs_empty c -> step Sync D F c ch = SStep c' -> bufs_empty c'.
Proof.
  intros Hb H. apply step_SStep_move in H as (mv & Hmv & ->).
  assert (Hput : mv_put mv = None).
  { revert Hmv. destruct ch as [p|s r|f t]; cbn [move_of].
    - destruct (procs c !! p) as [pp|]; [|done].
      destruct (action_of Sync D pp) as [| |k m|k| |k pv|w]; try done.
      + destruct (dup_effect p pp); [|done]. by intros [= <-].
      + destruct (internal_effect Sync F p pp); [|done]. by intros [= <-].
      + destruct (chans c !! k) as [[buf cl]|]; [|done]. cbn [ch_closed ch_buf]. destruct cl; [done|]. by destruct buf.
      + destruct (chans c !! k) as [[buf cl]|] eqn:Ek; [|done]. cbn [ch_closed ch_buf].
        pose proof (Hb _ _ Ek) as Hbuf. cbn in Hbuf. subst buf. destruct cl; [|done]. destruct (on_message p pp zero_msg); [|done]. by intros [= <-].
    - destruct (bool_decide (s = r)); [done|].
      destruct (procs c !! s) as [ps|]; [|done]. destruct (procs c !! r) as [pr|]; [|done].
      destruct (action_of Sync D ps) as [| |k m|k| |k pv|w]; try done.
      destruct (action_of Sync D pr) as [| |k' m'|k'| |k' pv'|w']; try done.
      destruct (bool_decide (k = k')); [|done]. destruct (chans c !! k) as [st|]; [|done].
      destruct (ch_closed st); [done|]. destruct (on_message r pr m); [|done]. by intros [= <-].
    - destruct (bool_decide (f = t)); done. }
  intros k st. rewrite chans_apply_move, Hput. unfold chan_upd.
  destruct (decide (k ∈ e_newch (mv_eff mv))), (decide (k ∈ e_close (mv_eff mv))); cbn.
  - by intros [= <-].
  - by intros [= <-].
  - destruct (chans c !! k) as [st0|] eqn:Ek; [|done]. cbn. intros [= <-]. cbn. by apply (Hb _ _ Ek).
  - apply Hb.
Qed.

Notation arun D F := (nsteps (stp Async D F)).
Notation srun D F := (nsteps (stp Sync D F)).

Lemma nsteps_trans {St Ch} (f : St -> Ch -> option St) n m a b c :
  nsteps f n a b -> nsteps f m b c -> nsteps f (n + m) a c.
Proof. intros H. induction H; cbn; [done|]. intros. econstructor; eauto. Qed.

Lemma sync_run_async D F n c t :
  bufs_empty c -> srun D F n c t -> bufs_empty t /\ exists n', arun D F n' c t.
Proof.
  intros Hb H. induction H as [c|n c a c' t Hs Hn IH].
  - split; [done|]. exists 0%nat. constructor.
  - apply stp_Some in Hs. pose proof (sync_step_bufs_empty _ _ _ _ _ Hb Hs) as Hb'.
    destruct (IH Hb') as [Hbt (n' & Hn')]. split; [done|].
    apply sync_step_async in Hs as [(p & -> & H1)|(s & r & c1 & -> & H1 & H2)]; [| |done].
    + exists (S n'). econstructor; [by apply stp_Some|done].
    + exists (S (S n')). econstructor; [by apply stp_Some|]. econstructor; [by apply stp_Some|done].
Qed.

(* ------------------------------------------------------------------ draining the blocked senders *)
(* what a synchronously quiescent configuration with empty buffers looks like, and stays like while
   blocked senders deposit their messages *)
Record drained (D : tenv) (c : config) : Prop := {
  dr_actions : forall p pp, procs c !! p = Some pp ->
     match action_of Async D pp with ASend _ _ | ARecv _ | ANever | ACtrl _ _ => True | _ => False end;
  dr_recv : forall r pr k, procs c !! r = Some pr -> action_of Async D pr = ARecv k ->
     (exists st, chans c !! k = Some st /\ ch_buf st = None /\ ch_closed st = false) /\
     (forall s ps m, procs c !! s = Some ps -> action_of Async D ps ≠ ASend k m);
  dr_send : forall s ps k m, procs c !! s = Some ps -> action_of Async D ps = ASend k m ->
     exists st, chans c !! k = Some st /\ ch_closed st = false
}.

Lemma sync_quiescent_drained D F c : bufs_empty c -> quiescent Sync D F c -> drained D c.
Proof.
  intros Hb Hq. split.
  - intros p pp Hp. specialize (Hq (Run p)). cbn [step] in Hq. rewrite Hp, action_of_sync in Hq.
    destruct (action_of Async D pp); try done.
    + by destruct (dup_effect p pp).
    + by destruct (internal_effect Sync F p pp).
  - intros r pr k Hr Har. pose proof (Hq (Run r)) as H1. cbn [step] in H1. rewrite Hr, action_of_sync, Har in H1.
    destruct (chans c !! k) as [[buf cl]|] eqn:Ek; [|done]. cbn [ch_buf ch_closed] in H1.
    pose proof (Hb _ _ Ek) as Hbuf. cbn in Hbuf. subst buf.
    assert (cl = false) as ->.
    { destruct cl; [|done]. by destruct (on_message r pr zero_msg). }
    split; [eauto|]. intros s ps m Hs Has.
    assert (s ≠ r) as Hsr by (intros ->; congruence).
    specialize (Hq (Rendezvous s r)). cbn [step] in Hq.
    rewrite bool_decide_eq_false_2 in Hq by done. rewrite Hs, Hr, !action_of_sync, Has, Har in Hq.
    rewrite bool_decide_eq_true_2 in Hq by done. rewrite Ek in Hq. cbn in Hq.
    by destruct (on_message r pr m).
  - intros s ps k m Hs Has. specialize (Hq (Run s)). cbn [step] in Hq. rewrite Hs, action_of_sync, Has in Hq.
    destruct (chans c !! k) as [[buf cl]|]; [|done]. cbn in Hq. destruct cl; [done|]. eauto.
Qed.

(* in a drained configuration the only asynchronous steps are sends; they keep it drained, keep the
   output and remove a process *)
Lemma drained_step D F c ch :
  drained D c ->
  match step Async D F c ch with
  | SNotEnabled => True
  | SError _ _ => False
  | SStep c' => drained D c' /\ out c' = out c /\ exists p, procs c' = delete p (procs c) /\ is_Some (procs c !! p)
  end.
Proof.
  intros [Ha Hr Hs]. destruct ch as [p|s r|f t]; cbn [step]; [|done|done].
  destruct (procs c !! p) as [pp|] eqn:Hp; [|done].
  pose proof (Ha _ _ Hp) as Hact.
  destruct (action_of Async D pp) as [| |k m|k| |k pv|w] eqn:Eact; try done.
  - destruct (Hs _ _ _ _ Hp Eact) as (st & Ek & Hcl). rewrite Ek, Hcl.
    destruct (ch_buf st) eqn:Ebuf; [done|].
    split; [|split; [done|exists p; split; [done|by eexists]]].
    split; cbn [procs chans del_proc put_msg].
    + intros q qq Hq. apply lookup_delete_Some in Hq as [_ Hq]. by eapply Ha.
    + intros r pr k' Hr' Har. apply lookup_delete_Some in Hr' as [Hne Hr'].
      destruct (Hr _ _ _ Hr' Har) as [(st' & Ek' & Hb' & Hc') Hno].
      assert (k' ≠ k) by (intros ->; exact (Hno _ _ _ Hp Eact)).
      split; [rewrite lookup_insert_ne by done; eauto|].
      intros s ps m' Hs'. apply lookup_delete_Some in Hs' as [_ Hs']. by eapply Hno.
    + intros s ps k' m' Hs' Has. apply lookup_delete_Some in Hs' as [_ Hs'].
      destruct (Hs _ _ _ _ Hs' Has) as (st' & Ek' & Hc').
      destruct (decide (k' = k)) as [->|Hne]; [rewrite lookup_insert; eexists; split; [done|]; cbn; congruence|].
      rewrite lookup_insert_ne by done. eauto.
  - destruct (Hr _ _ _ Hp Eact) as [(st & Ek & Hb & Hc) _]. by rewrite Ek, Hb, Hc.
Qed.

Lemma drained_completes D F : forall n c, size (procs c) = n -> drained D c ->
  exists m t, arun D F m c t /\ quiescent Async D F t /\ out t = out c.
Proof.
  induction n as [n IH] using lt_wf_ind. intros c Hn Hd.
  destruct (enabled Async D F c) as [|ch l] eqn:E.
  - exists 0%nat, c. split; [constructor|]. split; [by apply enabled_nil_quiescent|done].
  - assert (Hin : In ch (enabled Async D F c)) by (rewrite E; by left).
    apply enabled_spec in Hin. pose proof (drained_step D F c ch Hd) as Hst.
    destruct (step Async D F c ch) as [|c'|] eqn:Es; [done| |done].
    destruct Hst as (Hd' & Ho & p & Hp & Hin').
    assert (Hlt : (size (procs c') < n)%nat).
    { rewrite Hp, map_size_delete_Some by done.
      assert (size (procs c) ≠ 0%nat).
      { intros E0. apply map_size_empty_iff in E0. rewrite E0, lookup_empty in Hin'. by destruct Hin'. }
      lia. }
    destruct (IH (size (procs c')) Hlt c' eq_refl Hd') as (m & t & Hr & Hq & Hout).
    exists (S m), t. split; [econstructor; [by apply stp_Some|done]|]. split; [done|congruence].
Qed.

(* every maximal synchronous run is matched by a maximal asynchronous run with the same output *)
Theorem sync_run_matched D F n c t :
  bufs_empty c -> srun D F n c t -> quiescent Sync D F t ->
  exists n' t', arun D F n' c t' /\ quiescent Async D F t' /\ out t' = out t.
Proof.
  intros Hb Hs Hq. destruct (sync_run_async D F n c t Hb Hs) as [Hbt (n1 & H1)].
  destruct (drained_completes D F _ t eq_refl (sync_quiescent_drained D F t Hbt Hq)) as (m & t' & H2 & Hq' & Ho).
  exists (n1 + m)%nat, t'. split; [by eapply nsteps_trans|done].
Qed.

(* ---- async_sync_agree, partial: the asynchronous and the synchronous polarized mode print the same
   multiset.  REMAINING HYPOTHESES: the three hypotheses of `determinism_partial` for the
   ASYNCHRONOUS mode only (invariant preserved; any two distinct enabled asynchronous choices
   independent; errors are not cured by other steps — e.g. because there are none, C01).  Nothing is assumed about the synchronous mode. *)
Theorem async_sync_agree_partial (D : tenv) (F : list fundef) (I : config -> Prop) :
  (forall c ch c', I c -> step Async D F c ch = SStep c' -> I c') ->
  (forall c a b c1 c2, I c -> a ≠ b -> step Async D F c a = SStep c1 -> step Async D F c b = SStep c2 -> indep Async D c a b) ->
  (forall c a b w e c', I c -> step Async D F c a = SError w e -> step Async D F c b = SStep c' ->
     exists w' e', step Async D F c' a = SError w' e') ->
  forall c pick1 f1 t1,
    I c -> ns_ok c -> bufs_empty c -> exec_run f1 pick1 Sync D F c = RQuiescent t1 ->
    exists n, forall pick2 f2, (n < f2)%nat ->
      exists t2, exec_run f2 pick2 Async D F c = RQuiescent t2 /\ labels t2 ≡ₚ labels t1.
Proof.
  intros H1 H2 H3 c pick1 f1 t1 HI Hns Hb Hr.
  apply exec_run_sound in Hr as (n & _ & Hs & Hq).
  destruct (sync_run_matched D F n c t1 Hb Hs Hq) as (n' & t' & Ha & Hq' & Ho).
  exists n'. intros pick2 f2 Hf.
  destruct (exec_run_complete Async D F I H1 H2 H3 pick2 f2 n' c t' (conj HI Hns) Ha Hq' Hf)
    as (t2 & Hr2 & He).
  exists t2. split; [done|]. rewrite (cfg_equiv_labels _ _ He). unfold labels. by rewrite Ho.
Qed.

Corollary async_sync_agree_partial_init (D : tenv) (F : list fundef) (I : config -> Prop) :
  (forall c ch c', I c -> step Async D F c ch = SStep c' -> I c') ->
  (forall c a b c1 c2, I c -> a ≠ b -> step Async D F c a = SStep c1 -> step Async D F c b = SStep c2 -> indep Async D c a b) ->
  (forall c a b w e c', I c -> step Async D F c a = SError w e -> step Async D F c b = SStep c' ->
     exists w' e', step Async D F c' a = SError w' e') ->
  forall p pick1 f1 t1,
    I (init_config p) -> exec_run f1 pick1 Sync D F (init_config p) = RQuiescent t1 ->
    exists n, forall pick2 f2, (n < f2)%nat ->
      exists t2, exec_run f2 pick2 Async D F (init_config p) = RQuiescent t2 /\ labels t2 ≡ₚ labels t1.
Proof.
  intros H1 H2 H3 p pick1 f1 t1 HI. eapply async_sync_agree_partial; eauto using ns_ok_init, bufs_empty_init.
Qed.

(* ------------------------------------------------------------------ a local sufficient condition, synchronous mode *)
(* "Topo + Dual" in the form the diamond uses them, for the synchronous mode: empty buffers, at most
   one sender and at most one receiver per channel among the next actions, and the providers
   closed on a forward request exist and are touched by no other enabled choice. *)
Definition sync_discipline (D : tenv) (F : list fundef) (c : config) : Prop :=
  bufs_empty c /\
  (forall p q pp qq, p ≠ q -> procs c !! p = Some pp -> procs c !! q = Some qq ->
     (forall k, ~ (is_send_on (action_of Sync D pp) k /\ is_send_on (action_of Sync D qq) k)) /\
     (forall k, ~ (is_recv_on (action_of Sync D pp) k /\ is_recv_on (action_of Sync D qq) k))) /\
  (forall a b c1 c2, a ≠ b -> step Sync D F c a = SStep c1 -> step Sync D F c b = SStep c2 ->
     closes Sync D c a ## footprint_ch Sync D c b /\ (forall k, k ∈ closes Sync D c a -> is_Some (chans c !! k))).

Lemma sync_run_enabled D F c p c' :
  bufs_empty c -> step Sync D F c (Run p) = SStep c' ->
  exists pp, procs c !! p = Some pp /\
    (reads Sync D c (Run p) = [] \/
     exists k st, action_of Sync D pp = ARecv k /\ reads Sync D c (Run p) = [k] /\ chans c !! k = Some st /\ ch_closed st = true).
Proof.
  intros Hb. cbn [step reads]. destruct (procs c !! p) as [pp|] eqn:Ep; [|done]. intros H. exists pp. split; [done|].
  destruct (action_of Sync D pp) as [| |k m|k| |k pv|w] eqn:Ea; try done; try (by left).
  - destruct (chans c !! k) as [[buf cl]|]; [|done]. cbn in H. destruct cl; [done|]. by destruct buf.
  - right. destruct (chans c !! k) as [[buf cl]|] eqn:Ek; [|done].
    pose proof (Hb _ _ Ek) as Hbuf. cbn in Hbuf. subst buf. cbn in H. destruct cl; [|done].
    exists k, (Chan None true). by repeat split.
Qed.

Lemma sync_rdv_enabled D F c s r c' :
  step Sync D F c (Rendezvous s r) = SStep c' ->
  s ≠ r /\ exists ps pr k m st, procs c !! s = Some ps /\ procs c !! r = Some pr /\
    action_of Sync D ps = ASend k m /\ action_of Sync D pr = ARecv k /\
    reads Sync D c (Rendezvous s r) = [k] /\ chans c !! k = Some st /\ ch_closed st = false.
Proof.
  cbn [step reads]. destruct (bool_decide (s = r)) eqn:Esr; [done|]. apply bool_decide_eq_false in Esr.
  destruct (procs c !! s) as [ps|] eqn:Es; [|done]. destruct (procs c !! r) as [pr|] eqn:Er; [|done].
  destruct (action_of Sync D ps) as [| |k m|k| |k pv|w] eqn:Eas; try done.
  destruct (action_of Sync D pr) as [| |k' m'|k'| |k' pv'|w'] eqn:Ear; try done.
  destruct (bool_decide (k = k')) eqn:Ekk; [|done]. apply bool_decide_eq_true in Ekk. subst k'.
  destruct (chans c !! k) as [st|] eqn:Ek; [|done]. destruct (ch_closed st) eqn:Ecl; [done|].
  intros _. split; [done|]. exists ps, pr, k, m, st. by repeat split.
Qed.

Theorem sync_discipline_indep D F c a b c1 c2 :
  sync_discipline D F c -> a ≠ b ->
  step Sync D F c a = SStep c1 -> step Sync D F c b = SStep c2 -> indep Sync D c a b.
Proof.
  intros (Hb & Hd & Hcl) Hab Ha Hbs.
  destruct (Hcl a b c1 c2 Hab Ha Hbs) as [Hca Hea].
  destruct (Hcl b a c2 c1 (not_eq_sym Hab) Hbs Ha) as [Hcb Heb].
  assert (Hmr : movers a ## movers b /\ reads Sync D c a ## reads Sync D c b).
  { destruct a as [p|s r|f t]; [| |by cbn in Ha; destruct (bool_decide (f = t))];
    (destruct b as [q|s' r'|f' t']; [| |by cbn in Hbs; destruct (bool_decide (f' = t'))]).
    - (* Run / Run *)
      assert (Hpq : p ≠ q) by congruence.
      destruct (sync_run_enabled _ _ _ _ _ Hb Ha) as (pp & Hp & Hrp).
      destruct (sync_run_enabled _ _ _ _ _ Hb Hbs) as (qq & Hq & Hrq).
      split; [cbn; intros x Hx Hy; apply elem_of_list_singleton in Hx, Hy; congruence|].
      destruct Hrp as [->|(k & st & Hap & -> & _)]; [intros x Hx; by apply elem_of_nil in Hx|].
      destruct Hrq as [->|(k' & st' & Haq & -> & _)]; [intros x _ Hx; by apply elem_of_nil in Hx|].
      intros x Hx Hy. apply elem_of_list_singleton in Hx, Hy. subst x k'.
      destruct (Hd p q pp qq Hpq Hp Hq) as [_ Hrr]. apply (Hrr k). by split.
    - (* Run / Rendezvous *)
      destruct (sync_run_enabled _ _ _ _ _ Hb Ha) as (pp & Hp & Hrp).
      destruct (sync_rdv_enabled _ _ _ _ _ _ Hbs) as (Hsr & ps & pr & k & m & st & Hs & Hr & Has & Har & Hrd & Hk & Hc).
      assert (p ≠ s').
      { intros ->. rewrite Hs in Hp. injection Hp as <-.
        destruct Hrp as [Hrp|(k' & st' & Hap & _)]; [|congruence]. cbn in Hrp. by rewrite Hs, Has in Hrp. }
      assert (p ≠ r').
      { intros ->. rewrite Hr in Hp. injection Hp as <-.
        destruct Hrp as [Hrp|(k' & st' & Hap & _ & Hk' & Hc')]; [cbn in Hrp; by rewrite Hr, Har in Hrp|].
        rewrite Har in Hap. injection Hap as <-. rewrite Hk in Hk'. injection Hk' as <-. congruence. }
      split.
      + cbn. intros x Hx Hy. apply elem_of_list_singleton in Hx as ->.
        apply elem_of_cons in Hy as [->|Hy]; [done|]. by apply elem_of_list_singleton in Hy as ->.
      + rewrite Hrd. destruct Hrp as [->|(k' & st' & Hap & -> & Hk' & Hc')]; [intros x Hx; by apply elem_of_nil in Hx|].
        intros x Hx Hy. apply elem_of_list_singleton in Hx, Hy. subst x k'. rewrite Hk in Hk'. injection Hk' as <-. congruence.
    - (* Rendezvous / Run *)
      destruct (sync_run_enabled _ _ _ _ _ Hb Hbs) as (pp & Hp & Hrp).
      destruct (sync_rdv_enabled _ _ _ _ _ _ Ha) as (Hsr & ps & pr & k & m & st & Hs & Hr & Has & Har & Hrd & Hk & Hc).
      assert (q ≠ s).
      { intros ->. rewrite Hs in Hp. injection Hp as <-.
        destruct Hrp as [Hrp|(k' & st' & Hap & _)]; [|congruence]. cbn in Hrp. by rewrite Hs, Has in Hrp. }
      assert (q ≠ r).
      { intros ->. rewrite Hr in Hp. injection Hp as <-.
        destruct Hrp as [Hrp|(k' & st' & Hap & _ & Hk' & Hc')]; [cbn in Hrp; by rewrite Hr, Har in Hrp|].
        rewrite Har in Hap. injection Hap as <-. rewrite Hk in Hk'. injection Hk' as <-. congruence. }
      split.
      + cbn. intros x Hx Hy. apply elem_of_list_singleton in Hy as ->.
        apply elem_of_cons in Hx as [->|Hx]; [done|]. by apply elem_of_list_singleton in Hx as ->.
      + rewrite Hrd. destruct Hrp as [->|(k' & st' & Hap & -> & Hk' & Hc')]; [intros x _ Hx; by apply elem_of_nil in Hx|].
        intros x Hx Hy. apply elem_of_list_singleton in Hx, Hy. subst x k'. rewrite Hk in Hk'. injection Hk' as <-. congruence.
    - (* Rendezvous / Rendezvous *)
      destruct (sync_rdv_enabled _ _ _ _ _ _ Ha) as (Hsr & ps & pr & k & m & st & Hs & Hr & Has & Har & Hrd & Hk & Hc).
      destruct (sync_rdv_enabled _ _ _ _ _ _ Hbs) as (Hsr' & ps' & pr' & k' & m' & st' & Hs' & Hr' & Has' & Har' & Hrd' & Hk' & Hc').
      (* a process is a sender or a receiver, not both *)
      assert (s ≠ r') by (intros ->; rewrite Hs in Hr'; injection Hr' as <-; congruence).
      assert (r ≠ s') by (intros ->; rewrite Hr in Hs'; injection Hs' as <-; congruence).
      (* senders (receivers) on the same channel coincide *)
      assert (Hss : k = k' -> s = s').
      { intros <-. destruct (decide (s = s')) as [|Hne]; [done|].
        destruct (Hd s s' ps ps' Hne Hs Hs') as [Hx _]. destruct (Hx k). split; eexists; eauto. }
      assert (Hrr : k = k' -> r = r').
      { intros <-. destruct (decide (r = r')) as [|Hne]; [done|].
        destruct (Hd r r' pr pr' Hne Hr Hr') as [_ Hx]. destruct (Hx k). by split. }
      assert (Hkk : k ≠ k').
      { intros E. apply Hab. by rewrite (Hss E), (Hrr E). }
      assert (s ≠ s') by (intros ->; rewrite Hs in Hs'; injection Hs' as <-; congruence).
      assert (r ≠ r') by (intros ->; rewrite Hr in Hr'; injection Hr' as <-; congruence).
      split.
      + cbn. intros x Hx Hy. apply elem_of_cons in Hx as [->|Hx]; [|apply elem_of_list_singleton in Hx as ->];
          (apply elem_of_cons in Hy as [->|Hy]; [done|]; by apply elem_of_list_singleton in Hy as ->).
      + rewrite Hrd, Hrd'. intros x Hx Hy. apply elem_of_list_singleton in Hx, Hy. congruence. }
  destruct Hmr as [Hmov Hrd]. split; [done|]. split.
  - unfold footprint_ch in *. intros k Hk1 Hk2. apply elem_of_app in Hk1 as [Hk1|Hk1].
    + apply elem_of_app in Hk2 as [Hk2|Hk2]; [exact (Hrd k Hk1 Hk2)|].
      apply (Hcb k Hk2). apply elem_of_app. by left.
    + exact (Hca k Hk1 Hk2).
  - intros k Hk. apply elem_of_app in Hk as [Hk|Hk]; [by apply Hea|by apply Heb].
Qed.
