(* RtTcBisim.v — the type agreement of the run-time typing, instantiated: syntactic identity or
   BISIMILARITY of the infinite unfoldings (spec/TypEq.v, the agreement of C07/C08).
     * it satisfies `teq_laws` (spec/RtTyping.v) on every environment, unconditionally;
     * on a sane environment with syntactically proper definitions it contains the answers of
       EqualType on good types (C08: EqualProofs.equal_type_iff) and relates a good type to its
       unfolding;
   hence `tc_annotations_typed` is a THEOREM for it (proofs/RtTcSoundTop.v). *)
From stdpp Require Import gmap strings.
Require Import Grits.Base Grits.ModeDefs Grits.Modes Grits.STypes Grits.Forms Grits.TcDeps Grits.Expand
               Grits.Tc Grits.TcTop Grits.EqualWF Grits.spec.SynOk Grits.spec.Typing
               Grits.proofs.TcLemmas Grits.proofs.TeqMono Grits.proofs.TypingVerdict Grits.proofs.TypingBisim
               Grits.spec.RtTyping Grits.proofs.RtInit Grits.proofs.RtTcSyn Grits.proofs.RtTcSound Grits.proofs.RtTcSoundTop.
Require Grits.spec.TypEq Grits.proofs.TypEqFacts Grits.proofs.EqualWFFacts.

Definition teq_rt (D : tenv) (s t : sty) : Prop := s = t \/ TypEq.Bisim D s t.

Lemma teq_rt_refl D t : teq_rt D t t.
Proof. left. reflexivity. Qed.
Lemma teq_rt_sym D s t : teq_rt D s t -> teq_rt D t s.
Proof. intros [->|H]; [left; auto|right; apply TypEqFacts.Bisim_sym; auto]. Qed.
Lemma teq_rt_trans D s t u : teq_rt D s t -> teq_rt D t u -> teq_rt D s u.
Proof.
  intros [->|H1] [->|H2]; [left; reflexivity|right; assumption|right; assumption|].
  right. eapply TypEqFacts.Bisim_trans; eauto.
Qed.

(* the three copies of head unfolding *)
Lemma whd_head D t u : whd D t u <-> TypEq.head D t u.
Proof.
  split; induction 1.
  - now apply TypEq.head_struct.
  - eapply TypEq.head_name; eauto.
  - now apply whd_here.
  - eapply whd_name; eauto.
Qed.

Lemma head_bridge' D t h : Typing.head D t h -> TypEq.head D t h.
Proof. induction 1; [now apply TypEq.head_struct|eapply TypEq.head_name; eauto]. Qed.

Lemma brs_sim_rel (R : sty -> sty -> Prop) bs cs : TypEq.brs_sim R bs cs -> brs_rel R bs cs.
Proof.
  intros [H1 H2]. split.
  - intros l a Ha. destruct (find_br l cs) as [a'|] eqn:Ec; [eauto|]. apply H1 in Ec. congruence.
  - intros l a' Ha'. destruct (find_br l bs) as [a|] eqn:Eb; [eauto|]. apply H1 in Eb. congruence.
Qed.

Lemma head_rel_refl D u : is_name u = false -> head_rel (teq_rt D) u u.
Proof.
  destruct u; simpl; intros Hn; try discriminate Hn; auto using teq_rt_refl.
  - split; intros l a Ha; exists a; auto using teq_rt_refl.
  - split; intros l a Ha; exists a; auto using teq_rt_refl.
Qed.

Theorem teq_rt_laws D : teq_laws D (teq_rt D).
Proof.
  split.
  - apply teq_rt_refl.
  - apply teq_rt_sym.
  - apply teq_rt_trans.
  - intros s t u [<-|HB] Hw.
    + exists u. split; auto. apply head_rel_refl. clear -Hw. induction Hw; auto.
    + destruct (TypEqFacts.Bisim_inv D _ _ HB) as [h1 [h2 [H1 [H2 Hs]]]].
      apply whd_head in Hw. pose proof (TypEqFacts.head_det _ _ _ Hw _ H1) as ->.
      exists h2. split; [apply whd_head; exact H2|].
      destruct Hs; simpl; auto; try (split; right; assumption); try (right; assumption).
      * apply brs_sim_rel. eapply TypEqFacts.brs_sim_mono; [|eassumption]. intros; right; auto.
      * apply brs_sim_rel. eapply TypEqFacts.brs_sim_mono; [|eassumption]. intros; right; auto.
Qed.

Lemma teq_rt_alg D : sanity_typedefs D = Ok true -> env_syn D = true ->
  forall s t, good D s -> good D t -> equal_type D s t = Ok true -> teq_rt D s t.
Proof. intros SD SE s t Gs Gt H. right. apply (alg_iff_bisim D SD SE s t Gs Gt). exact H. Qed.

Lemma teq_rt_unfold D : sanity_typedefs D = Ok true -> env_syn D = true ->
  forall t h, good D t -> Typing.head D t h -> teq_rt D h t.
Proof.
  intros SD SE t h Gt Hh. right. pose proof (genv_intro _ SD SE) as HD.
  pose proof (good_head _ HD _ _ Hh Gt) as Gh.
  apply head_bridge' in Hh.
  apply (TypEqFacts.Bisim_same_head D h t h); [eapply TypEqFacts.head_idem; eauto|exact Hh|].
  apply (TypEqFacts.Bisim_refl D (EqualWFFacts.WT D) (EqualWFFacts.WT_productive D (sane_wf_env D SD SE))).
  apply good_wf_ty. exact Gh.
Qed.

(* the former premise of C01/C02, for this agreement *)
Theorem tc_annotations_typed_rt p p' :
  typecheck p = Accept p' -> prog_syn_ok p = true -> raw_ok p = true -> p_assumed p' = [] ->
  static_typed (teq_rt (p_types p')) p'.
Proof.
  apply (tc_annotations_typed_thm teq_rt teq_rt_alg teq_rt_refl teq_rt_sym teq_rt_trans teq_rt_unfold).
Qed.
