(* TopoReach.v — `topo_step` and `topo_reachable` for the core fragment (no drop, no split, no
   multi-name providers), in both polarized modes, and C03 for its programs with the premise
   `topo_reachable` of proofs/RtTheorems.v discharged.
   A synchronous step is one or two asynchronous steps from a configuration with empty buffers
   (AsyncSync.sync_step_async), so the invariant of TopoStep.v carries over. *)
From stdpp Require Import gmap strings sorting.
Require Import Grits.Base Grits.ModeDefs Grits.Modes Grits.STypes Grits.Forms Grits.Subst Grits.TcDeps Grits.Expand
               Grits.Tc Grits.TcTop Grits.Runtime Grits.RuntimeFootprint
               Grits.spec.RtTyping Grits.spec.Topo Grits.proofs.RtSubst Grits.proofs.StepErrors Grits.proofs.RtSafety
               Grits.proofs.RtInit Grits.proofs.RtProgress Grits.proofs.RtTheorems.
Require Import Grits.proofs.RuntimeFacts Grits.proofs.Diamond Grits.proofs.Determinism Grits.proofs.AsyncSync
               Grits.proofs.DeterminismTyped Grits.proofs.TopoLin Grits.proofs.TopoStep.

Section Reach.
Variable D : tenv.
Variable F : list fundef.
Variable teq : sty -> sty -> Prop.
Hypothesis Hteq : teq_laws D teq.
Hypothesis HF : funs_typed D F teq.
Hypothesis HFc : core_funs F.
Hypothesis HFa : funs_aff F.

Notation Inv := (Inv D F teq).

(* the step theorem, both polarized modes *)
Theorem inv_step md c ch c' :
  is_np md = false -> Inv c -> (md = Sync -> bufs_empty c) -> step md D F c ch = SStep c' ->
  Inv c' /\ (md = Sync -> bufs_empty c').
Proof.
  intros Hnp HI Hb Hs. destruct md; [| |done].
  - split; [eapply (inv_step_async D F teq Hteq HF); eauto|discriminate].
  - specialize (Hb eq_refl). split; [|intros _; eapply sync_step_bufs_empty; eauto].
    destruct (sync_step_async D F c ch c' Hb Hs) as [(p & -> & H1)|(s & r & c1 & -> & H1 & H2)].
    + eapply (inv_step_async D F teq Hteq HF); eauto.
    + eapply (inv_step_async D F teq Hteq HF c1); eauto. eapply (inv_step_async D F teq Hteq HF c); eauto.
Qed.

(* `topo_step` for the core fragment *)
Corollary topo_step_core md c ch c' :
  is_np md = false -> Inv c -> (md = Sync -> bufs_empty c) -> step md D F c ch = SStep c' -> Topo c'.
Proof. intros Hnp HI Hb Hs. destruct (inv_step md c ch c' Hnp HI Hb Hs) as [H _]. apply H. Qed.

Lemma inv_reachable md c0 c :
  is_np md = false -> Inv c0 -> (md = Sync -> bufs_empty c0) -> reachable D F md c0 c ->
  Inv c /\ (md = Sync -> bufs_empty c).
Proof.
  intros Hnp HI Hb Hr. induction Hr as [|c1 ch c2 Hr IH Hs]; [done|].
  destruct IH as [H1 H2]. eapply inv_step; eauto.
Qed.

(* `topo_reachable` for the core fragment *)
Theorem topo_reachable_core md c0 c :
  is_np md = false -> Inv c0 -> (md = Sync -> bufs_empty c0) -> reachable D F md c0 c -> Topo c.
Proof. intros Hnp HI Hb Hr. destruct (inv_reachable md c0 c Hnp HI Hb Hr) as [H _]. apply H. Qed.

(* C03 for typed configurations of the core fragment: no premise about the run is left *)
Theorem determinism_core_cfg md c pick1 pick2 f1 f2 t1 :
  is_np md = false -> Inv c -> (md = Sync -> bufs_empty c) ->
  exec_run f1 pick1 md D F c = RQuiescent t1 -> (f1 <= f2)%nat ->
  exists t2, exec_run f2 pick2 md D F c = RQuiescent t2 /\ cfg_equiv t2 t1 /\ labels t2 ≡ₚ labels t1.
Proof.
  intros Hnp HI Hb.
  apply (determinism_typed_cfg D F teq Hteq HF md Hnp (fun c0 => Inv c0 /\ (md = Sync -> bufs_empty c0))).
  - intros c0 ch c0' [H1 H2] Hs. eapply inv_step; eauto.
  - intros c0 [H1 _]. apply H1.
  - split; [done|]. split; [apply HI|]. split; [apply HI|]. split; [apply HI|done].
Qed.
End Reach.

(* ------------------------------------------------------------------ accepted closed programs of the core fragment *)
(* what is asked of the (annotated) program itself — all of it is about the program text and its
   INITIAL configuration only: function bodies without drop / split and affine in every scope; the
   initial configuration is a forest, its bodies are affine and in the core fragment (one provider
   name per process).  Nothing is assumed about the configurations reached later. *)
Definition init_linear (p' : program) : Prop :=
  core_funs (p_funs p') /\ funs_aff (p_funs p') /\
  Topo (init_config p') /\ LinCfg (init_config p') /\ CoreCfg (init_config p').

Section AcceptedCore.
Variable teqD : tenv -> sty -> sty -> Prop.
Hypothesis teq_ok : forall p p', typecheck p = Accept p' -> teq_laws (p_types p') (teqD (p_types p')).
Hypothesis tc_annotations_typed : forall p p',
  typecheck p = Accept p' -> in_fragment p' -> static_typed (teqD (p_types p')) p'.

Lemma initial_inv p p' :
  typecheck p = Accept p' -> in_fragment p' -> init_linear p' ->
  Inv (p_types p') (p_funs p') (teqD (p_types p')) (init_config p').
Proof.
  intros Ha Hf (_ & _ & Ht & Hl & Hc). split; try done.
  - exists (init_delta p'). apply initial_typed; [exact (teq_ok p p' Ha)|exact (tc_annotations_typed p p' Ha Hf)].
  - apply ns_ok_init.
Qed.

(* `topo_reachable` of proofs/RtTheorems.v, for the core fragment: a theorem *)
Theorem topo_reachable_core_program p p' md c :
  typecheck p = Accept p' -> in_fragment p' -> init_linear p' -> is_np md = false ->
  reachable (p_types p') (p_funs p') md (init_config p') c -> Topo c.
Proof.
  intros Ha Hf Hi Hnp Hr. pose proof (tc_annotations_typed p p' Ha Hf) as [HF _]. destruct Hi as (HFc & HFa & Hrest).
  eapply (topo_reachable_core (p_types p') (p_funs p') (teqD (p_types p')) (teq_ok p p' Ha) HF HFc HFa md (init_config p')); eauto.
  - apply (initial_inv p p' Ha Hf). by split.
  - intros _. apply bufs_empty_init.
Qed.

(* C03 for accepted closed programs of the core fragment, both polarized modes: the premises left
   are teq_ok and tc_annotations_typed (shared with C01 / C02) and init_linear (static) *)
Theorem determinism_typed_core p p' md pick1 pick2 f1 f2 t1 :
  typecheck p = Accept p' -> in_fragment p' -> init_linear p' -> is_np md = false ->
  exec_run f1 pick1 md (p_types p') (p_funs p') (init_config p') = RQuiescent t1 -> (f1 <= f2)%nat ->
  exists t2, exec_run f2 pick2 md (p_types p') (p_funs p') (init_config p') = RQuiescent t2 /\
             cfg_equiv t2 t1 /\ labels t2 ≡ₚ labels t1.
Proof.
  intros Ha Hf Hi Hnp. pose proof (tc_annotations_typed p p' Ha Hf) as [HF _]. destruct Hi as (HFc & HFa & Hrest).
  apply (determinism_core_cfg (p_types p') (p_funs p') (teqD (p_types p')) (teq_ok p p' Ha) HF HFc HFa md); try done.
  - apply (initial_inv p p' Ha Hf). by split.
  - intros _. apply bufs_empty_init.
Qed.

Theorem async_sync_agree_typed_core p p' pick1 f1 t1 :
  typecheck p = Accept p' -> in_fragment p' -> init_linear p' ->
  exec_run f1 pick1 Sync (p_types p') (p_funs p') (init_config p') = RQuiescent t1 ->
  exists n, forall pick2 f2, (n < f2)%nat ->
    exists t2, exec_run f2 pick2 Async (p_types p') (p_funs p') (init_config p') = RQuiescent t2 /\
               labels t2 ≡ₚ labels t1.
Proof.
  intros Ha Hf Hi. pose proof (tc_annotations_typed p p' Ha Hf) as [HF _]. pose proof Hi as (HFc & HFa & Hrest).
  set (D := p_types p'). set (F := p_funs p'). set (teq := teqD D).
  assert (HI0 : Inv D F teq (init_config p')) by (apply (initial_inv p p' Ha Hf Hi)).
  apply (async_sync_agree_partial D F (Inv D F teq)).
  - intros c ch c' HI Hs. eapply (inv_step_async D F teq (teq_ok p p' Ha) HF); eauto.
  - intros c a b c1 c2 HI. apply (typed_inv_compat D F teq (teq_ok p p' Ha) HF Async c a b c1 c2 eq_refl).
    destruct HI as [Ht1 Ht2 _ _ Hn]. split; [done|]. split; [done|]. split; [done|discriminate].
  - intros c a b w e c' HI He. exfalso. eapply (typed_inv_safe D F teq (teq_ok p p' Ha) HF Async c a w e eq_refl); eauto.
    destruct HI as [Ht1 Ht2 _ _ Hn]. split; [done|]. split; [done|]. split; [done|discriminate].
  - exact HI0.
  - apply ns_ok_init.
  - apply bufs_empty_init.
Qed.
End AcceptedCore.
