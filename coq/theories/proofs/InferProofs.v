(* proofs/InferProofs.v — C16: mode inference never hangs, is a function of the environment as a
   finite map (declaration order is irrelevant), fills in every omitted mode, and is stable under
   writing the inferred annotation explicitly. *)
Require Import Grits.Base Grits.ModeDefs Grits.Modes Grits.STypes Grits.Infer Grits.WF.
Require Import Grits.spec.WFSpec Grits.spec.ModeSpec Grits.proofs.WFProofs.
Require Import Coq.Sorting.Permutation.

(* ------------------------------------------------------------------ the fuel suffices *)
(* definitions whose name has not been expanded on the current path *)
Definition avail (D : tenv) (used : list string) : nat :=
  length (filter (fun d => negb (str_mem (td_name d) used)) D).

Lemma avail_nil D : avail D [] = length D.
Proof.
  unfold avail. induction D as [|d r IH]; cbn; auto.
Qed.

Lemma filter_length_le {A} (p : A -> bool) l : length (filter p l) <= length l.
Proof. induction l as [|x r IH]; cbn; [lia|]. destruct (p x); cbn; lia. Qed.

Lemma filter_length_mono {A} (p q : A -> bool) l :
  (forall e, p e = true -> q e = true) -> length (filter p l) <= length (filter q l).
Proof.
  intros H. induction l as [|x r IH]; cbn; [lia|].
  destruct (p x) eqn:Ep.
  - rewrite (H _ Ep). cbn. lia.
  - destruct (q x); cbn; lia.
Qed.

Lemma filter_length_lt {A} (p q : A -> bool) l d :
  (forall e, p e = true -> q e = true) -> In d l -> q d = true -> p d = false ->
  length (filter p l) < length (filter q l).
Proof.
  intros H. induction l as [|x r IH]; cbn; [tauto|].
  intros [<-|Hin] Hq Hp.
  - rewrite Hq, Hp. cbn. pose proof (filter_length_mono p q r H). lia.
  - specialize (IH Hin Hq Hp). destruct (p x) eqn:Ep.
    + rewrite (H _ Ep). cbn. lia.
    + destruct (q x); cbn; lia.
Qed.

Lemma avail_step D x used d :
  tlookup D x = Some d -> str_mem x used = false -> S (avail D (x :: used)) <= avail D used.
Proof.
  intros El Hu. destruct (tlookup_some _ _ _ El) as [Hin Hn]. unfold avail.
  apply (filter_length_lt _ _ D d); auto.
  - intros e. cbn. rewrite negb_orb. intros H. apply andb_true_iff in H. tauto.
  - rewrite Hn, Hu. reflexivity.
  - cbn. rewrite Hn, String.eqb_refl. reflexivity.
Qed.

Lemma tsize_pos : (forall t, 1 <= tsize t) /\ (forall b, 1 <= bsize b).
Proof. apply sty_brs_ind; cbn; intros; lia. Qed.

Lemma body_size_le D d : In d D -> tsize (td_body d) <= env_size D.
Proof.
  induction D as [|d0 r IH]; cbn; [tauto|]. intros [<-|H]; [lia|]. specialize (IH H). unfold env_size in IH. lia.
Qed.

Lemma infer_ok D : forall fuel,
  (forall t used, tsize t + avail D used * S (env_size D) <= fuel ->
     exists m u, infer fuel D t used = Ok (m, u)) /\
  (forall bs used, bsize bs + avail D used * S (env_size D) <= fuel ->
     exists m, infer_brs fuel D bs used = Ok m).
Proof.
  induction fuel as [|f [IHt IHb]].
  - split; intros x used H.
    + pose proof (proj1 tsize_pos x). lia.
    + pose proof (proj2 tsize_pos x). lia.
  - split.
    + intros t used H. destruct t; cbn [infer]; cbn [tsize] in H.
      * destruct (is_unset m); cbn [negb]; [|eauto].
        destruct (tlookup D x) as [d|] eqn:El; [|eauto].
        destruct (str_mem x used) eqn:Eu; cbn [negb]; [eauto|].
        apply IHt.
        pose proof (avail_step _ _ _ _ El Eu).
        destruct (tlookup_some _ _ _ El) as [Hin _].
        pose proof (body_size_le _ _ Hin). nia.
      * eauto.
      * destruct (is_unset m); cbn [negb]; [|eauto].
        destruct (IHt t1 used ltac:(lia)) as (lm & u1 & E1). rewrite E1. cbn [obind].
        destruct (IHt t2 used ltac:(lia)) as (rm & u2 & E2). rewrite E2. cbn [obind]. eauto.
      * destruct (is_unset m); cbn [negb]; [|eauto].
        destruct (IHt t1 used ltac:(lia)) as (lm & u1 & E1). rewrite E1. cbn [obind].
        destruct (IHt t2 used ltac:(lia)) as (rm & u2 & E2). rewrite E2. cbn [obind]. eauto.
      * destruct (is_unset m); cbn [negb]; [|eauto].
        destruct (IHb bs used ltac:(lia)) as (r & E). rewrite E. cbn [obind]. eauto.
      * destruct (is_unset m); cbn [negb]; [|eauto].
        destruct (IHb bs used ltac:(lia)) as (r & E). rewrite E. cbn [obind]. eauto.
      * eauto.
      * eauto.
    + intros bs used H. destruct bs; cbn [infer_brs]; cbn [bsize] in H; [eauto|].
      destruct (IHt a used ltac:(lia)) as (m & u & E). rewrite E. cbn [obind].
      destruct (IHb bs used ltac:(lia)) as (r & E2). rewrite E2. cbn [obind]. eauto.
Qed.

Lemma infer_fuel_bound D t : tsize t + avail D [] * S (env_size D) <= infer_fuel D t.
Proof. rewrite avail_nil. unfold infer_fuel. nia. Qed.

Lemma infer_top_ok D t : exists m u, infer (infer_fuel D t) D t [] = Ok (m, u).
Proof. apply infer_ok. apply infer_fuel_bound. Qed.

Theorem infer_never_hangs_proof D t : forall s, infer (infer_fuel D t) D t [] <> Hang s.
Proof. intros s. destruct (infer_top_ok D t) as (m & u & E). rewrite E. discriminate. Qed.

Theorem infer_never_panics_proof D t : forall s, infer (infer_fuel D t) D t [] <> Panic s.
Proof. intros s. destruct (infer_top_ok D t) as (m & u & E). rewrite E. discriminate. Qed.

(* the mode inferModality returns at top level, as a total function *)
Definition infer_mode (D : tenv) (t : sty) : mode :=
  match infer (infer_fuel D t) D t [] with Ok (m, _) => m | _ => Unset end.

Definition with_mode (D0 : tenv) (d : tdef) : tdef :=
  {| td_name := td_name d; td_body := td_body d; td_mode := or_default (infer_mode D0 (td_body d)) |}.

Definition with_body (D1 : tenv) (d : tdef) : tdef :=
  {| td_name := td_name d; td_body := assign D1 (td_mode d) (td_body d); td_mode := td_mode d |}.

Lemma infer_defs_map D0 l : infer_defs D0 l = Ok (map (with_mode D0) l).
Proof.
  induction l as [|d r IH]; cbn [infer_defs map]; [reflexivity|].
  unfold with_mode at 1, infer_mode.
  destruct (infer_top_ok D0 (td_body d)) as (m & u & E). rewrite E. cbn [obind]. rewrite IH. reflexivity.
Qed.

Lemma set_modality_map D0 :
  set_modality_typedefs D0 = Ok (map (with_body (map (with_mode D0) D0)) (map (with_mode D0) D0)).
Proof. unfold set_modality_typedefs. rewrite infer_defs_map. reflexivity. Qed.

Theorem set_modality_total_proof D0 : exists D, set_modality_typedefs D0 = Ok D.
Proof. eexists. apply set_modality_map. Qed.

Lemma add_missing_eq D t : add_missing D t = Ok (assign D (or_default (infer_mode D t)) t).
Proof.
  unfold add_missing, infer_mode. destruct (infer_top_ok D t) as (m & u & E). rewrite E. reflexivity.
Qed.

(* ------------------------------------------------------------------ determinism *)
Theorem infer_deterministic_proof : forall f D t u r1 r2,
  infer f D t u = r1 -> infer f D t u = r2 -> r1 = r2.
Proof. intros; congruence. Qed.

(* more fuel does not change an answer *)
Lemma infer_fuel_mono D : forall f,
  (forall t u r, infer f D t u = Ok r -> forall k, infer (f + k) D t u = Ok r) /\
  (forall b u r, infer_brs f D b u = Ok r -> forall k, infer_brs (f + k) D b u = Ok r).
Proof.
  induction f as [|f [IHt IHb]]; [split; cbn; discriminate|].
  split.
  - intros t u r H k. cbn [plus]. destruct t; cbn [infer] in *; auto.
    + destruct (negb (is_unset m)); auto. destruct (tlookup D x); auto.
      destruct (negb (str_mem x u)); auto.
    + destruct (negb (is_unset m)); auto.
      destruct (infer f D t1 u) as [[lm u1]| |] eqn:E1; cbn [obind] in H; try discriminate.
      rewrite (IHt _ _ _ E1 k). cbn [obind].
      destruct (infer f D t2 u) as [[rm u2]| |] eqn:E2; cbn [obind] in H; try discriminate.
      rewrite (IHt _ _ _ E2 k). cbn [obind]. exact H.
    + destruct (negb (is_unset m)); auto.
      destruct (infer f D t1 u) as [[lm u1]| |] eqn:E1; cbn [obind] in H; try discriminate.
      rewrite (IHt _ _ _ E1 k). cbn [obind].
      destruct (infer f D t2 u) as [[rm u2]| |] eqn:E2; cbn [obind] in H; try discriminate.
      rewrite (IHt _ _ _ E2 k). cbn [obind]. exact H.
    + destruct (negb (is_unset m)); auto.
      destruct (infer_brs f D bs u) as [rm| |] eqn:E1; cbn [obind] in H; try discriminate.
      rewrite (IHb _ _ _ E1 k). cbn [obind]. exact H.
    + destruct (negb (is_unset m)); auto.
      destruct (infer_brs f D bs u) as [rm| |] eqn:E1; cbn [obind] in H; try discriminate.
      rewrite (IHb _ _ _ E1 k). cbn [obind]. exact H.
  - intros b u r H k. cbn [plus]. destruct b; cbn [infer_brs] in *; auto.
    destruct (infer f D a u) as [[lm u1]| |] eqn:E1; cbn [obind] in H; try discriminate.
    rewrite (IHt _ _ _ E1 k). cbn [obind].
    destruct (infer_brs f D b u) as [rm| |] eqn:E2; cbn [obind] in H; try discriminate.
    rewrite (IHb _ _ _ E2 k). cbn [obind]. exact H.
Qed.

(* ------------------------------------------------------------------ assignUnsetModalities *)
Lemma is_unset_true m : is_unset m = true <-> m = Unset.
Proof. destruct m; cbn; split; congruence. Qed.
Lemma is_unset_false m : is_unset m = false <-> m <> Unset.
Proof. destruct m; cbn; split; congruence. Qed.

Lemma assign_idem D :
  (forall t cur, assign D cur (assign D cur t) = assign D cur t) /\
  (forall b cur, assign_brs D cur (assign_brs D cur b) = assign_brs D cur b).
Proof.
  apply sty_brs_ind; intros; cbn [assign assign_brs].
  - destruct (is_unset m) eqn:Em; cbn [negb].
    + destruct (tlookup D x) as [d|] eqn:El; cbn [assign].
      * destruct (is_unset (td_mode d)); cbn [negb]; [rewrite El|]; reflexivity.
      * destruct (is_unset cur); cbn [negb]; [rewrite El|]; reflexivity.
    + cbn [assign]. rewrite Em. reflexivity.
  - destruct (is_unset m) eqn:Em; cbn [assign].
    + destruct (is_unset cur); reflexivity.
    + rewrite Em. reflexivity.
  - destruct (is_unset m) eqn:Em.
    + destruct (is_unset cur) eqn:Ec; rewrite H, H0; reflexivity.
    + rewrite Em, H, H0. reflexivity.
  - destruct (is_unset m) eqn:Em.
    + destruct (is_unset cur) eqn:Ec; rewrite H, H0; reflexivity.
    + rewrite Em, H, H0. reflexivity.
  - destruct (is_unset m) eqn:Em.
    + destruct (is_unset cur) eqn:Ec; rewrite H; reflexivity.
    + rewrite Em, H. reflexivity.
  - destruct (is_unset m) eqn:Em.
    + destruct (is_unset cur) eqn:Ec; rewrite H; reflexivity.
    + rewrite Em, H. reflexivity.
  - rewrite H. reflexivity.
  - rewrite H. reflexivity.
  - reflexivity.
  - rewrite H, H0. reflexivity.
Qed.

Theorem assign_idempotent_proof D t cur : assign D cur (assign D cur t) = assign D cur t.
Proof. apply assign_idem. Qed.

(* a type that carries all its modes is left alone, whatever the current mode *)
Lemma assign_fixed D :
  (forall t, no_unset t -> forall cur, assign D cur t = t) /\
  (forall b, no_unset_brs b -> forall cur, assign_brs D cur b = b).
Proof.
  apply sty_brs_ind; cbn [no_unset no_unset_brs assign assign_brs]; intros.
  - apply is_unset_false in H. rewrite H. reflexivity.
  - apply is_unset_false in H. rewrite H. reflexivity.
  - destruct H1 as (Hm & Ha & Hb). apply is_unset_false in Hm. rewrite Hm, H, H0; auto.
  - destruct H1 as (Hm & Ha & Hb). apply is_unset_false in Hm. rewrite Hm, H, H0; auto.
  - destruct H0 as (Hm & Hb). apply is_unset_false in Hm. rewrite Hm, H; auto.
  - destruct H0 as (Hm & Hb). apply is_unset_false in Hm. rewrite Hm, H; auto.
  - destruct H0 as (Hf & Ht & Ha). rewrite H; auto.
  - destruct H0 as (Hf & Ht & Ha). rewrite H; auto.
  - reflexivity.
  - destruct H1. rewrite H, H0; auto.
Qed.

(* completeness of the filling-in itself (independent of the later checks): with a current mode and
   definition modes that are set, no node is left without a mode *)
Lemma assign_fills D : (forall d, In d D -> td_mode d <> Unset) ->
  (forall t cur, cur <> Unset -> shifts_set t -> no_unset (assign D cur t)) /\
  (forall b cur, cur <> Unset -> shifts_set_brs b -> no_unset_brs (assign_brs D cur b)).
Proof.
  intros HD. apply sty_brs_ind; cbn [shifts_set shifts_set_brs assign assign_brs]; intros.
  - destruct (is_unset m) eqn:Em; cbn [negb no_unset].
    + destruct (tlookup D x) as [d|] eqn:El; cbn [no_unset]; auto.
      destruct (tlookup_some _ _ _ El). auto.
    + cbn [no_unset]. apply is_unset_false; auto.
  - destruct (is_unset m) eqn:Em; cbn [no_unset]; auto. apply is_unset_false; auto.
  - destruct H2. destruct (is_unset m) eqn:Em; cbn [no_unset]; repeat split; auto;
      try (apply is_unset_false; auto); try (apply H; auto; apply is_unset_false; auto);
      try (apply H0; auto; apply is_unset_false; auto).
  - destruct H2. destruct (is_unset m) eqn:Em; cbn [no_unset]; repeat split; auto;
      try (apply is_unset_false; auto); try (apply H; auto; apply is_unset_false; auto);
      try (apply H0; auto; apply is_unset_false; auto).
  - destruct (is_unset m) eqn:Em; cbn [no_unset]; repeat split; auto;
      try (apply is_unset_false; auto); try (apply H; auto; apply is_unset_false; auto).
  - destruct (is_unset m) eqn:Em; cbn [no_unset]; repeat split; auto;
      try (apply is_unset_false; auto); try (apply H; auto; apply is_unset_false; auto).
  - destruct H1 as (Hf & Ht & Ha). cbn [no_unset]. repeat split; auto.
  - destruct H1 as (Hf & Ht & Ha). cbn [no_unset]. repeat split; auto.
  - cbn. auto.
  - destruct H2. cbn [no_unset_brs]. split; auto.
Qed.

Lemma or_default_set m : or_default m <> Unset.
Proof. unfold or_default, default_mode. destruct (is_unset m) eqn:E; [discriminate|]. apply is_unset_false; auto. Qed.

(* SetModalityTypeDef leaves no type without a mode (the two modes of a shift are always written) *)
Theorem set_modality_fills_proof D0 D :
  (forall d, In d D0 -> shifts_set (td_body d)) ->
  set_modality_typedefs D0 = Ok D ->
  forall d, In d D -> td_mode d <> Unset /\ no_unset (td_body d).
Proof.
  intros Hs H d Hin. rewrite set_modality_map in H. inversion H; subst D. clear H.
  apply in_map_iff in Hin as (d1 & <- & Hin1).
  apply in_map_iff in Hin1 as (d0 & <- & Hin0).
  cbn. split; [apply or_default_set|].
  apply assign_fills; auto.
  - intros e He. apply in_map_iff in He as (e0 & <- & _). cbn. apply or_default_set.
  - apply or_default_set.
Qed.

(* ------------------------------------------------------------------ after the checks *)
Lemma proper_not_unset m : proper m = true -> m <> Unset.
Proof. destruct m; cbn; congruence. Qed.

Lemma modes_ok_no_unset D :
  (forall m t, ModesOK D m t -> no_unset t) /\ (forall m b, BrsModesOK D m b -> no_unset_brs b).
Proof.
  apply ModesOK_mut; cbn [no_unset no_unset_brs]; intros; repeat split; auto using proper_not_unset.
Qed.

Theorem infer_total_proof D0 D :
  set_modality_typedefs D0 = Ok D -> sanity_typedefs D = Ok None ->
  forall d, In d D -> td_mode d <> Unset /\ no_unset (td_body d).
Proof.
  intros H Hs d Hin. split.
  - rewrite set_modality_map in H. inversion H; subst D.
    apply in_map_iff in Hin as (d1 & <- & Hin1). apply in_map_iff in Hin1 as (d0 & <- & _).
    cbn. apply or_default_set.
  - apply wf_sound_proof in Hs. destruct Hs as [_ _ _ Hm].
    eapply (proj1 (modes_ok_no_unset D)). apply Hm; auto.
Qed.

(* annotation types: AddMissingModalities then SanityChecksType *)
Theorem infer_total_ann_proof D t t' :
  add_missing D t = Ok t' -> sanity_types D [t'] = None -> no_unset t'.
Proof.
  intros _ H. apply sanity_types_sound in H. inversion H as [|? ? [_ Hm] _]; subst.
  eapply (proj1 (modes_ok_no_unset D)); eauto.
Qed.

(* ------------------------------------------------------------------ declaration order *)
(* the environment enters inference only through lookups *)
Definition env_equiv (D D' : tenv) : Prop := forall x, tlookup D x = tlookup D' x.

Lemma infer_ext D D' : env_equiv D D' -> forall f,
  (forall t u, infer f D t u = infer f D' t u) /\ (forall b u, infer_brs f D b u = infer_brs f D' b u).
Proof.
  intros He. induction f as [|f [IHt IHb]]; [split; reflexivity|].
  split.
  - intros t u. destruct t; cbn [infer]; auto.
    + rewrite <- He. destruct (tlookup D x); auto. rewrite IHt. reflexivity.
    + rewrite !IHt. reflexivity.
    + rewrite !IHt. reflexivity.
    + rewrite IHb. reflexivity.
    + rewrite IHb. reflexivity.
  - intros b u. destruct b; cbn [infer_brs]; auto. rewrite IHt, IHb. reflexivity.
Qed.

Lemma assign_ext D D' : env_equiv D D' ->
  (forall t cur, assign D cur t = assign D' cur t) /\ (forall b cur, assign_brs D cur b = assign_brs D' cur b).
Proof.
  intros He. apply sty_brs_ind; intros; cbn [assign assign_brs]; try rewrite <- He;
    try rewrite H; try rewrite H0; reflexivity.
Qed.

Lemma names_perm D D' : Permutation D D' -> Permutation (names D) (names D').
Proof. apply Permutation_map. Qed.

Lemma perm_env_equiv D D' : NoDup (names D) -> Permutation D D' -> env_equiv D D'.
Proof.
  intros Hnd Hp x.
  assert (Hnd' : NoDup (names D')) by (eapply Permutation_NoDup; [apply names_perm; eauto | auto]).
  destruct (tlookup D x) as [d|] eqn:E.
  - destruct (tlookup_some _ _ _ E) as [Hin <-]. symmetry. apply tlookup_nodup; auto.
    eapply Permutation_in; eauto.
  - symmetry. apply tlookup_none. apply tlookup_none in E. intros Hin. apply E.
    eapply Permutation_in; [apply Permutation_sym; apply names_perm; eauto | auto].
Qed.

Lemma env_size_perm D D' : Permutation D D' -> env_size D = env_size D'.
Proof. unfold env_size. induction 1; cbn; lia. Qed.

Lemma infer_fuel_perm D D' t : Permutation D D' -> infer_fuel D t = infer_fuel D' t.
Proof.
  intros Hp. unfold infer_fuel. rewrite (Permutation_length Hp), (env_size_perm _ _ Hp). reflexivity.
Qed.

Lemma infer_mode_perm D D' t : NoDup (names D) -> Permutation D D' -> infer_mode D t = infer_mode D' t.
Proof.
  intros Hnd Hp. unfold infer_mode. rewrite (infer_fuel_perm D D' t Hp).
  rewrite (proj1 (infer_ext D D' (perm_env_equiv _ _ Hnd Hp) _)). reflexivity.
Qed.

Lemma names_with_mode D0 l : names (map (with_mode D0) l) = names l.
Proof. unfold names. rewrite map_map. reflexivity. Qed.

Lemma names_with_body D1 l : names (map (with_body D1) l) = names l.
Proof. unfold names. rewrite map_map. reflexivity. Qed.

Lemma map_ext_in_ {A B} (f g : A -> B) l : (forall a, f a = g a) -> map f l = map g l.
Proof. intros H. apply map_ext. exact H. Qed.

(* the result of SetModalityTypeDef on a permuted environment is the permuted result: as finite
   maps from names to (mode, body) the two are equal *)
Theorem infer_perm_proof D D' : Permutation D D' -> NoDup (names D) ->
  exists R R', set_modality_typedefs D = Ok R /\ set_modality_typedefs D' = Ok R' /\
               Permutation R R' /\ (forall x, tlookup R x = tlookup R' x).
Proof.
  intros Hp Hnd. exists (map (with_body (map (with_mode D) D)) (map (with_mode D) D)),
                   (map (with_body (map (with_mode D') D')) (map (with_mode D') D')).
  split; [apply set_modality_map|]. split; [apply set_modality_map|].
  assert (Hm : forall d, with_mode D d = with_mode D' d).
  { intros d. unfold with_mode. rewrite (infer_mode_perm D D' _ Hnd Hp). reflexivity. }
  assert (H1 : Permutation (map (with_mode D) D) (map (with_mode D') D')).
  { rewrite <- (map_ext_in_ _ _ D' Hm). apply Permutation_map. exact Hp. }
  assert (Hnd1 : NoDup (names (map (with_mode D) D))) by (rewrite names_with_mode; exact Hnd).
  assert (Hb : forall d, with_body (map (with_mode D) D) d = with_body (map (with_mode D') D') d).
  { intros d. unfold with_body.
    rewrite (proj1 (assign_ext _ _ (perm_env_equiv _ _ Hnd1 H1))). reflexivity. }
  assert (H2 : Permutation (map (with_body (map (with_mode D) D)) (map (with_mode D) D))
                           (map (with_body (map (with_mode D') D')) (map (with_mode D') D'))).
  { rewrite <- (map_ext_in_ _ _ (map (with_mode D') D') Hb). apply Permutation_map. exact H1. }
  split; [exact H2|].
  apply perm_env_equiv; auto. rewrite names_with_body, names_with_mode. exact Hnd.
Qed.

(* ------------------------------------------------------------------ annotation stability *)
(* induction on initial types (branch lists are nested) *)
Section ity_induction.
  Variable P : ity -> Prop.
  Hypothesis HName : forall x, P (IName x).
  Hypothesis HUnit : P IUnit.
  Hypothesis HTensor : forall a b, P a -> P b -> P (ITensor a b).
  Hypothesis HLolli : forall a b, P a -> P b -> P (ILolli a b).
  Hypothesis HPlus : forall bs, Forall (fun lb => P (snd lb)) bs -> P (IPlus bs).
  Hypothesis HWith : forall bs, Forall (fun lb => P (snd lb)) bs -> P (IWith bs).
  Hypothesis HUp : forall f t a, P a -> P (IUp f t a).
  Hypothesis HDown : forall f t a, P a -> P (IDown f t a).
  Fixpoint ity_ind' (t : ity) : P t :=
    match t with
    | IName x => HName x
    | IUnit => HUnit
    | ITensor a b => HTensor a b (ity_ind' a) (ity_ind' b)
    | ILolli a b => HLolli a b (ity_ind' a) (ity_ind' b)
    | IPlus bs => HPlus bs ((fix go (l : list (string * ity)) : Forall (fun lb => P (snd lb)) l :=
                               match l with
                               | [] => Forall_nil _
                               | lb :: r => Forall_cons lb (ity_ind' (snd lb)) (go r)
                               end) bs)
    | IWith bs => HWith bs ((fix go (l : list (string * ity)) : Forall (fun lb => P (snd lb)) l :=
                               match l with
                               | [] => Forall_nil _
                               | lb :: r => Forall_cons lb (ity_ind' (snd lb)) (go r)
                               end) bs)
    | IUp f t a => HUp f t a (ity_ind' a)
    | IDown f t a => HDown f t a (ity_ind' a)
    end.
End ity_induction.

Fixpoint to_brs (m : mode) (l : list (string * ity)) : brs :=
  match l with [] => BNil | (lb, a) :: r => BCons lb (to_sty m a) (to_brs m r) end.

Lemma to_sty_plus m bs : to_sty m (IPlus bs) = TPlus (to_brs m bs) m.
Proof. cbn. f_equal. induction bs as [|[lb a] r IH]; cbn; [reflexivity|]. rewrite IH. reflexivity. Qed.
Lemma to_sty_with m bs : to_sty m (IWith bs) = TWith (to_brs m bs) m.
Proof. cbn. f_equal. induction bs as [|[lb a] r IH]; cbn; [reflexivity|]. rewrite IH. reflexivity. Qed.

Definition shift_headed (t : ity) : bool :=
  match t with IUp _ _ _ | IDown _ _ _ => true | _ => false end.

(* a type whose first node carries a mode answers inferModality at once, whatever the environment *)
Lemma infer_headed D f u m it : m <> Unset -> shift_headed it = false ->
  infer (S f) D (to_sty m it) u = Ok (m, u).
Proof.
  intros Hm Hs. apply is_unset_false in Hm.
  destruct it; try discriminate; try rewrite to_sty_plus; try rewrite to_sty_with; cbn [to_sty infer]; rewrite ?Hm; reflexivity.
Qed.

Lemma to_sty_shift_headed m it : shift_headed it = true ->
  to_sty m it = to_sty Unset it.
Proof. destruct it; try discriminate; reflexivity. Qed.

Lemma modes_ok_inv D m t : ModesOK D m t ->
  match t with
  | TName _ k | TUnit k => k = m
  | TTensor a b k | TLolli a b k => k = m /\ ModesOK D m a /\ ModesOK D m b
  | TPlus bs k | TWith bs k => k = m /\ BrsModesOK D m bs
  | TUp _ k _ | TDown _ k _ => k = m
  end.
Proof. intros H. inversion H; subst; auto. Qed.

Lemma brs_modes_ok_inv D m l a r : BrsModesOK D m (BCons l a r) -> ModesOK D m a /\ BrsModesOK D m r.
Proof. intros H. inversion H; subst; auto. Qed.

(* the heart: if the type the checks accept has region mode m, then writing m at its head yields
   the very same type *)
Lemma annot_stable_local D D' m : proper m = true ->
  forall it cur, ModesOK D' m (assign D cur (to_sty Unset it)) ->
                 assign D m (to_sty m it) = assign D cur (to_sty Unset it).
Proof.
  intros Hp. pose proof (proj2 (is_unset_false m) (proper_not_unset _ Hp)) as Hu.
  assert (Hbr : forall bs,
    Forall (fun lb => forall cur, ModesOK D' m (assign D cur (to_sty Unset (snd lb))) ->
                       assign D m (to_sty m (snd lb)) = assign D cur (to_sty Unset (snd lb))) bs ->
    forall cur, BrsModesOK D' m (assign_brs D cur (to_brs Unset bs)) ->
                assign_brs D m (to_brs m bs) = assign_brs D cur (to_brs Unset bs)).
  { induction 1 as [|[lb a] r Ha Hr IH]; intros cur Hm; cbn [to_brs assign_brs] in *; [reflexivity|].
    cbn [snd] in Ha. apply brs_modes_ok_inv in Hm as [H1 H2]. rewrite (Ha cur), (IH cur); auto. }
  induction it using ity_ind'; intros cur Hm.
  - cbn [to_sty assign is_unset negb] in *. rewrite Hu. cbn [negb].
    destruct (tlookup D x) as [d|]; apply modes_ok_inv in Hm; rewrite Hm; reflexivity.
  - cbn [to_sty assign is_unset] in *. rewrite Hu. apply modes_ok_inv in Hm. rewrite Hm. reflexivity.
  - cbn [to_sty assign is_unset] in *. rewrite Hu. apply modes_ok_inv in Hm as (E & Ha & Hb). subst cur.
    rewrite (IHit1 m), (IHit2 m); auto.
  - cbn [to_sty assign is_unset] in *. rewrite Hu. apply modes_ok_inv in Hm as (E & Ha & Hb). subst cur.
    rewrite (IHit1 m), (IHit2 m); auto.
  - rewrite (to_sty_plus Unset) in Hm. rewrite (to_sty_plus Unset), (to_sty_plus m). cbn [assign is_unset] in *. rewrite Hu. apply modes_ok_inv in Hm as (E & Hb). subst cur.
    rewrite (Hbr bs H m); auto.
  - rewrite (to_sty_with Unset) in Hm. rewrite (to_sty_with Unset), (to_sty_with m). cbn [assign is_unset] in *. rewrite Hu. apply modes_ok_inv in Hm as (E & Hb). subst cur.
    rewrite (Hbr bs H m); auto.
  - reflexivity.
  - reflexivity.
Qed.

(* annotation types (let / prc / assuming / typed cut): AddMissingModalities is stable *)
Theorem ann_annotation_stable_proof D it t' :
  add_missing D (to_sty Unset it) = Ok t' -> check_wf D t' = None ->
  add_missing D (to_sty (mode_of t') it) = Ok t'.
Proof.
  rewrite !add_missing_eq. intros H Hw.
  assert (Ht : assign D (or_default (infer_mode D (to_sty Unset it))) (to_sty Unset it) = t') by congruence. clear H.
  destruct (check_wf_sound _ _ Hw) as [_ Hm].
  destruct (proj1 (modes_ok_proper D) _ _ Hm) as [Hp _].
  set (m := mode_of t') in *.
  destruct (shift_headed it) eqn:Hs.
  - rewrite (to_sty_shift_headed m it Hs). rewrite Ht. reflexivity.
  - f_equal. unfold infer_mode, infer_fuel.
    rewrite (infer_headed D _ [] m it (proper_not_unset _ Hp) Hs).
    unfold or_default. rewrite (proj2 (is_unset_false m) (proper_not_unset _ Hp)).
    rewrite <- Ht in Hm |- *. apply (annot_stable_local D D); auto.
Qed.

(* definitions: SetModalityTypeDef is stable under writing the recorded modes explicitly *)
Lemma infer_mode_headed D m it : m <> Unset -> shift_headed it = false -> infer_mode D (to_sty m it) = m.
Proof. intros Hm Hs. unfold infer_mode, infer_fuel. rewrite (infer_headed D _ [] m it Hm Hs). reflexivity. Qed.

Lemma infer_mode_shift D D' h h' it : shift_headed it = true ->
  infer_mode D (to_sty h it) = infer_mode D' (to_sty h' it).
Proof. destruct it; try discriminate; intros _; reflexivity. Qed.

Lemma or_default_id m : m <> Unset -> or_default m = m.
Proof. intros H. unfold or_default. rewrite (proj2 (is_unset_false m) H). reflexivity. Qed.

Lemma assign_ext_modes D D' :
  (forall y, option_map td_mode (tlookup D y) = option_map td_mode (tlookup D' y)) ->
  (forall t cur, assign D cur t = assign D' cur t) /\ (forall b cur, assign_brs D cur b = assign_brs D' cur b).
Proof.
  intros He. apply sty_brs_ind; intros; cbn [assign assign_brs];
    try rewrite H; try rewrite H0; try reflexivity.
  specialize (He x). destruct (tlookup D x), (tlookup D' x); cbn in He; try discriminate; try reflexivity.
  inversion He. reflexivity.
Qed.

Lemma tlookup_map_modes {A} (g g' : A -> tdef) l :
  (forall s, In s l -> td_name (g s) = td_name (g' s) /\ td_mode (g s) = td_mode (g' s)) ->
  forall y, option_map td_mode (tlookup (map g l) y) = option_map td_mode (tlookup (map g' l) y).
Proof.
  induction l as [|s r IH]; intros H y; cbn [map tlookup]; [reflexivity|].
  assert (IH' := IH (fun s0 Hs => H s0 (or_intror Hs)) y).
  destruct (H s (or_introl eq_refl)) as [Hn Hm].
  destruct (tlookup (map g r) y), (tlookup (map g' r) y); cbn in IH'; try discriminate; try exact IH'.
  rewrite Hn. destruct (String.eqb y (td_name (g' s))); cbn; [rewrite Hm|]; reflexivity.
Qed.

Lemma map_conv E (S : list src_def) :
  map (with_mode E) (conv S) = map (fun s => with_mode E (conv1 s)) S.
Proof. unfold conv. rewrite map_map. reflexivity. Qed.

Lemma map_conv_annot E R (S : list src_def) :
  map (with_mode E) (conv (annotate R S)) = map (fun s => with_mode E (conv1 (annotate1 R s))) S.
Proof. unfold conv, annotate. rewrite !map_map. reflexivity. Qed.

Lemma map_body_conv E1 E0 (S : list src_def) :
  map (with_body E1) (map (with_mode E0) (conv S)) = map (fun s => with_body E1 (with_mode E0 (conv1 s))) S.
Proof. unfold conv. rewrite !map_map. reflexivity. Qed.

Lemma map_body_conv_annot E1 E0 R (S : list src_def) :
  map (with_body E1) (map (with_mode E0) (conv (annotate R S))) =
  map (fun s => with_body E1 (with_mode E0 (conv1 (annotate1 R s)))) S.
Proof. unfold conv, annotate. rewrite !map_map. reflexivity. Qed.

Theorem infer_annotation_stable_proof (S : list src_def) R :
  set_modality_typedefs (conv S) = Ok R -> sanity_typedefs R = Ok None ->
  set_modality_typedefs (conv (annotate R S)) = Ok R.
Proof.
  intros HR Hs. apply wf_sound_proof in Hs. destruct Hs as [Hnd _ _ Hmo Hdm].
  rewrite set_modality_map in HR. rewrite set_modality_map. f_equal.
  set (D0 := conv S) in *. set (D0' := conv (annotate R S)).
  set (D1 := map (with_mode D0) D0) in *. set (D1' := map (with_mode D0') D0').
  assert (ER : R = map (fun s => with_body D1 (with_mode D0 (conv1 s))) S).
  { transitivity (map (with_body D1) D1); [congruence | exact (map_body_conv D1 D0 S)]. }
  clear HR.
  (* what the recorded environment says about one source definition *)
  assert (Hdef : forall x h t, In (x, h, t) S ->
            let mx := or_default (infer_mode D0 (to_sty h t)) in
            tlookup R x = Some {| td_name := x; td_body := assign D1 mx (to_sty h t); td_mode := mx |} /\
            ModesOK R mx (assign D1 mx (to_sty h t)) /\ proper mx = true).
  { intros x h t Hin mx.
    assert (HinR : In {| td_name := x; td_body := assign D1 mx (to_sty h t); td_mode := mx |} R).
    { rewrite ER at 1. apply in_map_iff. exists (x, h, t). split; [reflexivity | exact Hin]. }
    split; [apply (tlookup_nodup R _ Hnd HinR)|].
    pose proof (Hmo _ HinR) as Hm. pose proof (Hdm _ HinR) as Hd. cbn [td_body td_mode] in Hm, Hd.
    rewrite <- Hd in Hm. split; [exact Hm|]. apply (proj1 (modes_ok_proper R) _ _ Hm). }
  (* the annotated source gets the same recorded modes ... *)
  assert (Hmode : forall s, In s S ->
            td_name (with_mode D0' (conv1 (annotate1 R s))) = td_name (with_mode D0 (conv1 s)) /\
            td_mode (with_mode D0' (conv1 (annotate1 R s))) = td_mode (with_mode D0 (conv1 s))).
  { intros [[x h] t] Hin. destruct (Hdef x h t Hin) as (El & _ & Hp).
    cbn [annotate1 conv1 with_mode td_mode td_body td_name]. split; [reflexivity|].
    rewrite El. cbn [td_mode].
    set (mx := or_default (infer_mode D0 (to_sty h t))) in *.
    destruct (shift_headed t) eqn:Hsh.
    - unfold mx. f_equal. apply infer_mode_shift; auto.
    - destruct (is_unset h) eqn:Eh.
      + rewrite (infer_mode_headed D0' mx t (proper_not_unset _ Hp) Hsh).
        apply or_default_id. apply proper_not_unset; auto.
      + apply is_unset_false in Eh. unfold mx.
        rewrite (infer_mode_headed D0' h t Eh Hsh), (infer_mode_headed D0 h t Eh Hsh). reflexivity. }
  assert (Hlk : forall y, option_map td_mode (tlookup D1' y) = option_map td_mode (tlookup D1 y)).
  { change D1' with (map (with_mode D0') (conv (annotate R S))).
    change D1 with (map (with_mode D0) (conv S)).
    rewrite (map_conv_annot D0' R S), (map_conv D0 S). apply tlookup_map_modes. exact Hmode. }
  (* ... and the same bodies *)
  transitivity (map (fun s => with_body D1' (with_mode D0' (conv1 (annotate1 R s)))) S);
    [exact (map_body_conv_annot D1' D0' R S)|].
  etransitivity; [|symmetry; exact ER].
  apply map_ext_in. intros [[x h] t] Hin.
  destruct (Hmode _ Hin) as [_ Hm]. destruct (Hdef x h t Hin) as (El & Hmok & Hp).
  unfold with_body. rewrite Hm. cbn [annotate1 conv1 with_mode td_mode td_body td_name] in *.
  f_equal.
  rewrite (proj1 (assign_ext_modes D1' D1 Hlk)).
  rewrite El. cbn [td_mode].
  set (mx := or_default (infer_mode D0 (to_sty h t))) in *.
  destruct (is_unset h) eqn:Eh; [|reflexivity].
  apply is_unset_true in Eh. subst h.
  destruct (shift_headed t) eqn:Hsh.
  - rewrite (to_sty_shift_headed mx t Hsh). reflexivity.
  - apply (annot_stable_local D1 R); auto.
Qed.

(* ------------------------------------------------------------------ the declarative assignment *)
(* soundness half of infer_correct: a mode returned by inferModality is one that a component fixes *)
Lemma infer_sound_fix D : forall f,
  (forall t u m u', infer f D t u = Ok (m, u') -> m <> Unset -> Fixes D t m) /\
  (forall b u m, infer_brs f D b u = Ok m -> m <> Unset -> FixesBrs D b m).
Proof.
  induction f as [|f [IHt IHb]]; [split; cbn; discriminate|].
  split.
  - intros t u m u' H Hm. destruct t; cbn [infer] in H.
    + destruct (is_unset m0) eqn:E0; cbn [negb] in H.
      * apply is_unset_true in E0. subst m0.
        destruct (tlookup D x) as [d|] eqn:El; [|inversion H; congruence].
        destruct (str_mem x u); cbn [negb] in H; [inversion H; congruence|].
        eapply Fx_NameRef; eauto.
      * inversion H; subst. apply Fx_NameAnn; auto.
    + inversion H; subst. apply Fx_Unit; auto.
    + destruct (is_unset m0) eqn:E0; cbn [negb] in H.
      * apply is_unset_true in E0. subst m0.
        destruct (infer f D t1 u) as [[lm u1]| |] eqn:E1; cbn [obind] in H; try discriminate.
        destruct (infer f D t2 u) as [[rm u2]| |] eqn:E2; cbn [obind] in H; try discriminate.
        inversion H; subst. unfold common2 in *. destruct (is_unset lm) eqn:El.
        -- apply Fx_TensorR. eauto.
        -- apply Fx_TensorL. eauto.
      * inversion H; subst. apply Fx_TensorAnn; auto.
    + destruct (is_unset m0) eqn:E0; cbn [negb] in H.
      * apply is_unset_true in E0. subst m0.
        destruct (infer f D t1 u) as [[lm u1]| |] eqn:E1; cbn [obind] in H; try discriminate.
        destruct (infer f D t2 u) as [[rm u2]| |] eqn:E2; cbn [obind] in H; try discriminate.
        inversion H; subst. unfold common2 in *. destruct (is_unset lm) eqn:El.
        -- apply Fx_LolliR. eauto.
        -- apply Fx_LolliL. eauto.
      * inversion H; subst. apply Fx_LolliAnn; auto.
    + destruct (is_unset m0) eqn:E0; cbn [negb] in H.
      * apply is_unset_true in E0. subst m0.
        destruct (infer_brs f D bs u) as [rm| |] eqn:E1; cbn [obind] in H; try discriminate.
        inversion H; subst. apply Fx_PlusBr. eauto.
      * inversion H; subst. apply Fx_PlusAnn; auto.
    + destruct (is_unset m0) eqn:E0; cbn [negb] in H.
      * apply is_unset_true in E0. subst m0.
        destruct (infer_brs f D bs u) as [rm| |] eqn:E1; cbn [obind] in H; try discriminate.
        inversion H; subst. apply Fx_WithBr. eauto.
      * inversion H; subst. apply Fx_WithAnn; auto.
    + inversion H; subst. apply Fx_Up; auto.
    + inversion H; subst. apply Fx_Down; auto.
  - intros b u m H Hm. destruct b; cbn [infer_brs] in H; [inversion H; congruence|].
    destruct (infer f D a u) as [[lm u1]| |] eqn:E1; cbn [obind] in H; try discriminate.
    destruct (infer_brs f D b u) as [rm| |] eqn:E2; cbn [obind] in H; try discriminate.
    inversion H; subst. unfold common2 in *. destruct (is_unset lm) eqn:El.
    + apply FxB_There. eauto.
    + apply FxB_Here. apply is_unset_false in El. eauto.
Qed.

(* full statement of infer_correct: the mode recorded for every definition is its declarative mode
   (proved in proofs/InferCorrect.v, which adds the completeness half) *)
Definition infer_correct_stmt : Prop :=
  forall D0 d, In d D0 -> HasMode D0 (td_body d) (td_mode (with_mode D0 d)).

(* soundness half: whenever inferModality answers with a mode, a component fixes it; when it
   answers Unset the recorded mode is the default *)
Theorem infer_correct_partial_proof D0 d :
  (infer_mode D0 (td_body d) <> Unset -> Fixes D0 (td_body d) (td_mode (with_mode D0 d))) /\
  (infer_mode D0 (td_body d) = Unset -> td_mode (with_mode D0 d) = Rep).
Proof.
  unfold with_mode. cbn [td_mode]. split.
  - intros H. rewrite (or_default_id _ H). unfold infer_mode in *.
    destruct (infer_top_ok D0 (td_body d)) as (m & u & E). rewrite E in *.
    eapply (proj1 (infer_sound_fix D0 _)); eauto.
  - intros H. rewrite H. reflexivity.
Qed.

(* ------------------------------------------------------------------ examples *)
(* the hypotheses of the theorems are satisfiable: a source environment with recursion, an alias
   chain, shifts, annotations present and omitted *)
Definition ex_src : list src_def :=
  [ ("a2", Unset, IName "alias");
    ("alias", Unset, IName "listNat");
    ("nat", Lin, IPlus [("zero", IUnit); ("succ", IName "nat")]);
    ("listNat", Unset, IPlus [("cons", ITensor (IName "nat") (IName "listNat")); ("nil", IUnit)]);
    ("mapType", Unset, IUp Lin Rep (ILolli (IName "nat") (IName "nat")));
    ("unitT", Unset, ITensor IUnit IUnit) ].

Definition ex_res : tenv :=
  match set_modality_typedefs (conv ex_src) with Ok R => R | _ => [] end.

Example ex_src_modes : map td_mode ex_res = [Lin; Lin; Lin; Lin; Rep; Rep].
Proof. vm_compute. reflexivity. Qed.

Example ex_src_hyps : set_modality_typedefs (conv ex_src) = Ok ex_res /\ sanity_typedefs ex_res = Ok None.
Proof. split; vm_compute; reflexivity. Qed.

Example ex_src_annotated :
  map (fun s => snd (fst s)) (annotate ex_res ex_src) = [Lin; Lin; Lin; Lin; Rep; Rep].
Proof. vm_compute. reflexivity. Qed.

Example ex_src_stable : set_modality_typedefs (conv (annotate ex_res ex_src)) = Ok ex_res.
Proof. apply infer_annotation_stable_proof; apply ex_src_hyps. Qed.

(* "writing the annotation explicitly" in the text: the word printed for a mode is read back as that
   mode, and the parser's conversion of an annotated type is to_sty at that mode *)
Lemma mode_word_roundtrip_proof m : proper m = true -> mode_of_string (mode_short m) = m.
Proof. destruct m; try discriminate; intros _; vm_compute; reflexivity. Qed.

Lemma convert_annotated_proof m t : proper m = true -> convert (Some (mode_short m)) t = to_sty m t.
Proof. intros H. unfold convert. rewrite mode_word_roundtrip_proof; auto. Qed.

Lemma annotation_word_roundtrip_proof : forall m t, proper m = true ->
  mode_of_string (mode_short m) = m /\ convert (Some (mode_short m)) t = to_sty m t.
Proof. intros m t H. split; [apply mode_word_roundtrip_proof | apply convert_annotated_proof]; exact H. Qed.
