(* TcShapeTop.v — the accepted program p' is the source program p up to type annotations:
   bodies agree after erasure, provider lists are the same. *)
Require Import Grits.Base Grits.ModeDefs Grits.Modes Grits.STypes Grits.Forms Grits.Subst Grits.Infer
               Grits.TcDeps Grits.Expand Grits.Tc Grits.TcTop Grits.spec.Linear Grits.proofs.TcInv
               Grits.proofs.LinearProofs Grits.proofs.LinearTop Grits.proofs.TcShape.

Definition fshape_e (f f' : fundef) : Prop := erase_form (fn_body f') = erase_form (fn_body f).
Definition pshape_e (d d' : procdef) : Prop :=
  erase_form (pr_body d') = erase_form (pr_body d) /\ pr_providers d' = pr_providers d.

Lemma tc_funs_erase D Sg : forall fs r, tc_funs D Sg fs = TOk r -> Forall2 fshape_e fs r.
Proof.
  induction fs as [|f fs IH]; intros r H; cbn in H.
  - inversion H. constructor.
  - tinv H. inversion H; subst. constructor; eauto. unfold fshape_e. cbn. eapply tc_form_erase; eauto.
Qed.

Lemma tc_procs_erase D Sg all assumed : forall ps r, tc_procs D Sg all assumed ps = TOk r -> Forall2 pshape_e ps r.
Proof.
  induction ps as [|d ps IH]; intros r H; cbn in H.
  - inversion H. constructor.
  - tinv H. inversion H; subst. constructor; eauto. split; cbn; [eapply tc_form_erase; eauto|reflexivity].
Qed.

Lemma Forall2_comp {A B C} (R : A -> B -> Prop) (S : B -> C -> Prop) (T : A -> C -> Prop) l1 l2 l3 :
  (forall a b c, R a b -> S b c -> T a c) -> Forall2 R l1 l2 -> Forall2 S l2 l3 -> Forall2 T l1 l3.
Proof.
  intros H H1. revert l3. induction H1; intros l3 H2; inversion H2; subst; constructor; eauto.
Qed.

Theorem typecheck_erase p p' : typecheck p = Accept p' ->
  Forall2 fshape_e (p_funs p) (p_funs p') /\ Forall2 pshape_e (p_procs p) (p_procs p') /\ p_types p' = p_types p.
Proof.
  unfold typecheck. intros H. destruct (tc_program p) as [q| | |] eqn:Hp; try discriminate. injection H as ->.
  unfold tc_program in Hp. tinv Hp. inversion Hp; subst; clear Hp. cbn.
  match goal with Hf : prelim_funs _ _ _ = TOk _ |- _ => pose proof (prelim_funs_shape _ _ _ _ Hf) as Sf end.
  match goal with Hf : prelim_procs _ _ _ = TOk _ |- _ => destruct (prelim_procs_shape _ _ _ _ _ Hf) as (Sp & _ & _) end.
  match goal with Hf : tc_funs _ _ _ = TOk _ |- _ => pose proof (tc_funs_erase _ _ _ _ Hf) as Af end.
  match goal with Hf : tc_procs _ _ _ _ _ = TOk _ |- _ => pose proof (tc_procs_erase _ _ _ _ _ _ Hf) as Ap end.
  split; [|split; [|reflexivity]].
  - eapply Forall2_comp; [|exact Sf|exact Af]. intros x1 x2 x3 [Q1 _] Q2. unfold fshape_e in *. now rewrite Q2, Q1.
  - eapply Forall2_comp; [|exact Sp|exact Ap]. intros x1 x2 x3 [Q1 Q2] [Q3 Q4]. split; congruence.
Qed.
