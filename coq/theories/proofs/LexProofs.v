(* LexProofs.v — the reference tokenizer reads a printed type back as its token-level print
   (C15, character half), and the composition parse_print_type. *)
Require Import Grits.Base Grits.ModeDefs Grits.Modes Grits.STypes Grits.Infer Grits.Print Grits.Scan Grits.EqualWF
               Grits.spec.TypeReader Grits.proofs.StrLemmas Grits.proofs.EqualWFFacts Grits.proofs.ReaderProofs.

Definition nolab_start (s : string) : Prop :=
  match s with EmptyString => True | String c _ => is_lab c = false end.

Lemma app_nil_l_s (x : string) : "" ^^ x = x.
Proof. reflexivity. Qed.
Lemma flush_nil : flush "" = [].
Proof. reflexivity. Qed.

Lemma lex_label x : forall acc rest, all_chars is_lab x = true -> nolab_start rest ->
  lex_go acc (x ^^ rest) = flush (acc ^^ x) ++ lex_go "" rest.
Proof.
  induction x as [|c x IH]; intros acc rest Hx Hr.
  - cbn [append]. rewrite app_nil_r_s. destruct rest as [|c r]; cbn [lex_go].
    + rewrite flush_nil, app_nil_r. reflexivity.
    + cbn in Hr. rewrite Hr. rewrite flush_nil. reflexivity.
  - cbn [all_chars] in Hx. apply andb_true_iff in Hx. destruct Hx as [Hc Hx].
    cbn [append lex_go]. rewrite Hc. rewrite IH by assumption. rewrite app_assoc_s. reflexivity.
Qed.

Lemma flush_ident x : ident_ok x = true -> flush x = [KLab x].
Proof.
  unfold ident_ok, flush. rewrite !andb_true_iff, !negb_true_iff. intros [[H1 _] H2]. rewrite H1, H2. reflexivity.
Qed.
Lemma ident_chars x : ident_ok x = true -> all_chars is_lab x = true.
Proof. unfold ident_ok. rewrite !andb_true_iff. tauto. Qed.
Lemma flush_mode m : proper m = true -> flush (mode_short m) = [KLab (mode_short m)] /\ all_chars is_lab (mode_short m) = true.
Proof. destruct m; cbn; try discriminate; intros _; split; reflexivity. Qed.

(* punctuation, by computation *)
Lemma lex_times r : lex_go "" (" * " ^^ r) = KTimes :: lex_go "" r. Proof. reflexivity. Qed.
Lemma lex_lolli r : lex_go "" (" -* " ^^ r) = KLolli :: lex_go "" r. Proof. reflexivity. Qed.
Lemma lex_lp r : lex_go "" ("(" ^^ r) = KLP :: lex_go "" r. Proof. reflexivity. Qed.
Lemma lex_rp r : lex_go "" (")" ^^ r) = KRP :: lex_go "" r. Proof. reflexivity. Qed.
Lemma lex_plus r : lex_go "" ("+{" ^^ r) = KPlus :: KLC :: lex_go "" r. Proof. reflexivity. Qed.
Lemma lex_with r : lex_go "" ("&{" ^^ r) = KAmp :: KLC :: lex_go "" r. Proof. reflexivity. Qed.
Lemma lex_rc r : lex_go "" ("}" ^^ r) = KRC :: lex_go "" r. Proof. reflexivity. Qed.
Lemma lex_colon r : lex_go "" (" : " ^^ r) = KColon :: lex_go "" r. Proof. reflexivity. Qed.
Lemma lex_comma r : lex_go "" (", " ^^ r) = KComma :: lex_go "" r. Proof. reflexivity. Qed.
Lemma lex_up r : lex_go "" ("/\" ^^ r) = KUp :: lex_go "" r. Proof. reflexivity. Qed.
Lemma lex_down r : lex_go "" ("\/" ^^ r) = KDown :: lex_go "" r. Proof. reflexivity. Qed.
Lemma lex_sp r : lex_go "" (" " ^^ r) = lex_go "" r. Proof. reflexivity. Qed.

Definition Lx (t : sty) : Prop := forall rest, syn_ok t = true -> modes_wf t = true -> nolab_start rest ->
  lex_go "" (print_type t ^^ rest) = ptoks t ++ lex_go "" rest.
Definition Lb (b : brs) : Prop := forall rest, syn_ok_brs b = true -> modes_wf_brs b = true -> nolab_start rest ->
  lex_go "" (print_brs b ^^ rest) = ptoks_brs b ++ lex_go "" rest.

Lemma lex_left a : Lx a -> forall rest, syn_ok a = true -> modes_wf a = true -> nolab_start rest ->
  lex_go "" (paren_if (needs_paren a) (print_type a) ^^ rest) = pleft a (ptoks a) ++ lex_go "" rest.
Proof.
  intros Ha rest Hs Hm Hr. unfold paren_if, pleft. destruct (needs_paren a).
  - rewrite !app_assoc_s, lex_lp, Ha by (auto; reflexivity). rewrite lex_rp.
    cbn [app]. rewrite <- app_assoc. reflexivity.
  - apply Ha; auto.
Qed.

Theorem lex_print : (forall t, Lx t) /\ (forall b, Lb b).
Proof.
  apply sty_brs_ind.
  - intros x m rest Hs _ Hr. cbn [print_type ptoks]. cbn in Hs.
    rewrite lex_label by (auto using ident_chars). rewrite app_nil_l_s. rewrite flush_ident by assumption. reflexivity.
  - intros m rest _ _ Hr. cbn [print_type ptoks]. rewrite lex_label by (auto; reflexivity). reflexivity.
  - intros a Ha b Hb m rest Hs Hm Hr. cbn [print_type ptoks]. cbn in Hs, Hm. rewrite ?andb_true_iff in *.
    rewrite !app_assoc_s, (lex_left a Ha) by (try tauto; reflexivity).
    rewrite lex_times, Hb by tauto. rewrite <- app_assoc. reflexivity.
  - intros a Ha b Hb m rest Hs Hm Hr. cbn [print_type ptoks]. cbn in Hs, Hm. rewrite ?andb_true_iff in *.
    rewrite !app_assoc_s, (lex_left a Ha) by (try tauto; reflexivity).
    rewrite lex_lolli, Hb by tauto. rewrite <- app_assoc. reflexivity.
  - intros bs Hb m rest Hs Hm Hr. cbn [print_type ptoks]. cbn in Hs, Hm. rewrite ?andb_true_iff in *.
    rewrite !app_assoc_s, lex_plus, Hb by (try tauto; reflexivity). rewrite lex_rc.
    cbn [app]. rewrite <- app_assoc. reflexivity.
  - intros bs Hb m rest Hs Hm Hr. cbn [print_type ptoks]. cbn in Hs, Hm. rewrite ?andb_true_iff in *.
    rewrite !app_assoc_s, lex_with, Hb by (try tauto; reflexivity). rewrite lex_rc.
    cbn [app]. rewrite <- app_assoc. reflexivity.
  - intros f t a Ha rest Hs Hm Hr. cbn [print_type ptoks]. cbn in Hs, Hm. rewrite ?andb_true_iff in *.
    destruct Hm as [[Hpf Hpt] Hma]. destruct (flush_mode f Hpf) as [Ff Cf]. destruct (flush_mode t Hpt) as [Ft Ct].
    rewrite !app_assoc_s. rewrite lex_label by (auto; reflexivity). rewrite app_nil_l_s. rewrite Ff. cbn [app].
    rewrite lex_up. rewrite lex_label by (auto; reflexivity). rewrite app_nil_l_s. rewrite Ft. cbn [app].
    rewrite lex_sp, Ha by auto. reflexivity.
  - intros f t a Ha rest Hs Hm Hr. cbn [print_type ptoks]. cbn in Hs, Hm. rewrite ?andb_true_iff in *.
    destruct Hm as [[Hpf Hpt] Hma]. destruct (flush_mode f Hpf) as [Ff Cf]. destruct (flush_mode t Hpt) as [Ft Ct].
    rewrite !app_assoc_s. rewrite lex_label by (auto; reflexivity). rewrite app_nil_l_s. rewrite Ff. cbn [app].
    rewrite lex_down. rewrite lex_label by (auto; reflexivity). rewrite app_nil_l_s. rewrite Ft. cbn [app].
    rewrite lex_sp, Ha by auto. reflexivity.
  - intros rest _ _ _. reflexivity.
  - intros l a Ha r Hr rest Hs Hm Hrest. cbn in Hs, Hm. rewrite ?andb_true_iff in *.
    destruct r as [|l2 a2 r2].
    + cbn [print_brs ptoks_brs]. rewrite !app_assoc_s. rewrite lex_label by (try apply ident_chars; try tauto; reflexivity).
      rewrite app_nil_l_s. rewrite flush_ident by tauto. cbn [app]. rewrite lex_colon, Ha by tauto. reflexivity.
    + change (print_brs (BCons l a (BCons l2 a2 r2))) with (l ^^ " : " ^^ print_type a ^^ ", " ^^ print_brs (BCons l2 a2 r2)).
      change (ptoks_brs (BCons l a (BCons l2 a2 r2))) with (KLab l :: KColon :: ptoks a ++ KComma :: ptoks_brs (BCons l2 a2 r2)).
      rewrite !app_assoc_s. rewrite lex_label by (try apply ident_chars; try tauto; reflexivity).
      rewrite app_nil_l_s. rewrite flush_ident by tauto. cbn [app]. rewrite lex_colon, Ha by (try tauto; reflexivity).
      rewrite lex_comma, Hr by tauto. rewrite <- app_assoc. reflexivity.
Qed.

Lemma lex_ty_print t : syn_ok t = true -> modes_wf t = true -> lex_ty (print_type t) = ptoks t.
Proof.
  intros Hs Hm. unfold lex_ty. rewrite <- (app_nil_r_s (print_type t)).
  rewrite (proj1 lex_print t "" Hs Hm I). cbn. apply app_nil_r.
Qed.

Lemma ptoks_size : (forall t, tsize t <= length (ptoks t)) /\ (forall b, bsize b <= length (ptoks_brs b) + 1).
Proof.
  apply sty_brs_ind; intros; cbn [tsize bsize ptoks ptoks_brs length]; try lia.
  - unfold pleft. destruct (needs_paren a); rewrite ?app_length; cbn [length]; rewrite ?app_length; cbn [length]; lia.
  - unfold pleft. destruct (needs_paren a); rewrite ?app_length; cbn [length]; rewrite ?app_length; cbn [length]; lia.
  - rewrite app_length. cbn [length]. lia.
  - rewrite app_length. cbn [length]. lia.
  - destruct rest; cbn [length]; rewrite ?app_length; cbn [length bsize] in *; lia.
Qed.

(* C15, types: print then read is the identity *)
Theorem parse_print_type_r t m :
  runiform m t = true -> syn_ok t = true -> modes_wf t = true -> rd_type m (lex_ty (print_type t)) = Some t.
Proof.
  intros Hu Hs Hm. rewrite lex_ty_print by assumption. unfold rd_type.
  rewrite <- (app_nil_r (ptoks t)) at 2.
  rewrite (proj1 (proj1 reader_inverts_ptoks t) m _ [] Hu Hs Hm); [reflexivity | | exact I].
  pose proof (proj1 ptoks_size t). lia.
Qed.

Theorem parse_print_type t m :
  uniform m t = true -> syn_ok t = true -> modes_wf t = true -> rd_type m (lex_ty (print_type t)) = Some t.
Proof. intros Hu. apply parse_print_type_r. apply uniform_runiform. exact Hu. Qed.
