(* DeterminismAccept.v — C03 for PARSED programs of the core fragment with `init_linear` derived from
   acceptance (proofs/InitAccept.v): the premises left are: the text parses, the program is accepted,
   it is closed (in_fragment: no assumed names), and the computable condition core_src_b on the
   SOURCE (no drop / split / droppable forward, one provider name per process, no empty case).
   prog_syn_ok and raw_ok are theorems for parsed programs (ParseSynOk, ParseRaw). *)
From stdpp Require Import gmap strings sorting.
Require Import Grits.Base Grits.ModeDefs Grits.Modes Grits.STypes Grits.Forms Grits.Subst Grits.TcDeps Grits.Expand
               Grits.Tc Grits.TcTop Grits.spec.SynOk Grits.Runtime Grits.RuntimeFootprint
               Grits.spec.RtTyping Grits.spec.Topo Grits.proofs.RtSafety
               Grits.proofs.RtInit Grits.proofs.RtTheorems Grits.proofs.RtStaticCheck
               Grits.proofs.RtTcSyn Grits.proofs.ParseSynOk Grits.proofs.ParseRaw Grits.proofs.RtTheoremsTc.
Require Import Grits.proofs.RuntimeFacts Grits.proofs.Diamond Grits.proofs.Determinism Grits.proofs.AsyncSync
               Grits.proofs.TopoLin Grits.proofs.TopoStep Grits.proofs.TopoReach Grits.proofs.DeterminismTc
               Grits.proofs.LinBridge Grits.proofs.InitAccept.

Theorem init_linear_parsed txt p p' :
  parse_string txt = POk p -> typecheck p = Accept p' -> in_fragment p' ->
  core_src_b p = true -> init_linear p'.
Proof. intros Hp Ha Hf Hc. exact (init_linear_accept p p' Ha Hf (parse_syn_ok _ _ Hp) (parse_raw_ok _ _ Hp) Hc). Qed.

Theorem topo_runs_core_accept txt p p' :
  parse_string txt = POk p -> typecheck p = Accept p' -> in_fragment p' ->
  core_src_b p = true -> topo_runs p'.
Proof.
  intros Hp Ha Hf Hc.
  exact (topo_runs_core_tc p p' Ha Hf (parse_syn_ok _ _ Hp) (parse_raw_ok _ _ Hp) (init_linear_parsed txt p p' Hp Ha Hf Hc)).
Qed.

Theorem determinism_core_accept txt p p' md pick1 pick2 f1 f2 t1 :
  parse_string txt = POk p -> typecheck p = Accept p' -> in_fragment p' ->
  core_src_b p = true -> is_np md = false ->
  exec_run f1 pick1 md (p_types p') (p_funs p') (init_config p') = RQuiescent t1 -> (f1 <= f2)%nat ->
  exists t2, exec_run f2 pick2 md (p_types p') (p_funs p') (init_config p') = RQuiescent t2 /\
             cfg_equiv t2 t1 /\ labels t2 ≡ₚ labels t1.
Proof.
  intros Hp Ha Hf Hc.
  exact (determinism_core_parsed txt p p' md pick1 pick2 f1 f2 t1 Hp Ha Hf (init_linear_parsed txt p p' Hp Ha Hf Hc)).
Qed.

Theorem async_sync_agree_core_accept txt p p' pick1 f1 t1 :
  parse_string txt = POk p -> typecheck p = Accept p' -> in_fragment p' ->
  core_src_b p = true ->
  exec_run f1 pick1 Sync (p_types p') (p_funs p') (init_config p') = RQuiescent t1 ->
  exists n, forall pick2 f2, (n < f2)%nat ->
    exists t2, exec_run f2 pick2 Async (p_types p') (p_funs p') (init_config p') = RQuiescent t2 /\ labels t2 ≡ₚ labels t1.
Proof.
  intros Hp Ha Hf Hc.
  exact (async_sync_agree_core_parsed txt p p' pick1 f1 t1 Hp Ha Hf (init_linear_parsed txt p p' Hp Ha Hf Hc)).
Qed.

(* the premises, decided on a program text *)
Definition core_accept_text (txt : string) : bool :=
  match parse_string txt with
  | POk p => match typecheck p with
             | Accept p' => in_fragment_b p' && core_src_b p
             | _ => false
             end
  | _ => false
  end.

Theorem core_accept_sound txt : core_accept_text txt = true ->
  exists p p', parse_string txt = POk p /\ typecheck p = Accept p' /\ init_linear p' /\
  forall md pick1 pick2 f1 f2 t1, is_np md = false ->
    exec_run f1 pick1 md (p_types p') (p_funs p') (init_config p') = RQuiescent t1 -> (f1 <= f2)%nat ->
    exists t2, exec_run f2 pick2 md (p_types p') (p_funs p') (init_config p') = RQuiescent t2 /\
               cfg_equiv t2 t1 /\ labels t2 ≡ₚ labels t1.
Proof.
  unfold core_accept_text. destruct (parse_string txt) as [p| | |] eqn:Ep; try discriminate.
  destruct (typecheck p) as [p'| | |] eqn:Et; try discriminate.
  rewrite !andb_true_iff. intros [Hf Hc]. apply in_fragment_b_sound in Hf.
  exists p, p'. split; [done|]. split; [done|]. split; [eapply init_linear_parsed; eauto|].
  intros md pick1 pick2 f1 f2 t1 Hnp. eapply determinism_core_accept; eauto.
Qed.

(* non-vacuity: a9's example (server with a channel-passing protocol, cuts, a call) passes the source test *)
Example example_core_accept : core_accept_text example_text = true.
Proof. vm_compute. reflexivity. Qed.
