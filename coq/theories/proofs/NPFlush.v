(* NPFlush.v — what the non-polarized mode can still do where the synchronous polarized mode is
   quiescent (contraction-free typed forests, empty buffers): ONLY control hand-overs `Control f t`,
   each of which prints nothing and leads to a configuration that is again quiescent for the
   synchronous mode (flush_step).  Hence every NP run from such a configuration keeps the output
   (flush_run).
   Argument: a forward f acts (in the polarized reading) on its client channel k; were any other
   process acting on k, typing (one sender, one receiver per channel) would make the two a
   rendezvous pair or an error — excluded by quiescence.  So the target t of the hand-over does not
   act on its own provider channel, its action keeps its kind and channel when its provider is
   replaced, and closing k enables nothing. *)
From stdpp Require Import gmap strings sorting.
Require Import Grits.Base Grits.ModeDefs Grits.Modes Grits.STypes Grits.Forms Grits.Subst Grits.TcDeps Grits.Expand
               Grits.Runtime Grits.RuntimeFootprint Grits.spec.RtTyping Grits.spec.Topo.
Require Import Grits.proofs.RtSubst Grits.proofs.StepErrors Grits.proofs.RtSafety Grits.proofs.RtSafetyNP Grits.proofs.TopoLin Grits.proofs.RuntimeFacts
               Grits.proofs.Diamond Grits.proofs.Determinism Grits.proofs.AsyncSync Grits.proofs.DeterminismTyped Grits.proofs.TopoStep Grits.proofs.InvAll Grits.proofs.InvNP
               Grits.proofs.NPCfree Grits.proofs.NPJoin Grits.proofs.Balanced Grits.proofs.NPJoinA Grits.proofs.NPConfluence Grits.proofs.NPDeterminism.

(* the kind of an action: what enabledness depends on *)
Inductive akind : Type := KD | KI | KS (k : cid) | KR (k : cid) | KN | KC | KE.
Definition akind_of (a : action) : akind :=
  match a with
  | ADup => KD | AInternal => KI | ASend k _ => KS k | ARecv k => KR k | ANever => KN | ACtrl _ _ => KC | AErr _ => KE
  end.
Lemma akind_KS a k : akind_of a = KS k -> exists m, a = ASend k m.
Proof. destruct a; try discriminate. intros [= ->]. eauto. Qed.
Lemma akind_KR a k : akind_of a = KR k -> a = ARecv k.
Proof. destruct a; try discriminate. by intros [= ->]. Qed.

Definition run_en (cm : gmap cid chan_st) (kd : akind) : Prop :=
  match kd with
  | KD | KI | KE => True
  | KS k => match cm !! k with None => True | Some st => ch_closed st = true end
  | KR k => match cm !! k with None => True | Some st => ch_buf st <> None \/ ch_closed st = true end
  | _ => False
  end.

Lemma run_en_close cm k K : K <> KS k -> K <> KR k -> run_en (close_all [k] cm) K -> run_en cm K.
Proof.
  destruct K as [| |k'|k'| | |]; unfold run_en; try done; intros H1 H2; rewrite close_all_lookup;
    (rewrite decide_False; [done|]); intros H%elem_of_list_singleton; congruence.
Qed.

Section Enabled.
Variable D : tenv.
Variable F : list fundef.

Definition sync_en (c : config) (ch : choice) : Prop := step Sync D F c ch <> SNotEnabled.

Lemma sync_en_run c p : sync_en c (Run p) <->
  exists pp, procs c !! p = Some pp /\ run_en (chans c) (akind_of (action_of Async D pp)).
Proof.
  unfold sync_en. cbn [step]. destruct (procs c !! p) as [pp|]; [|split; [done|intros (pp & [=] & _)]].
  rewrite action_of_sync. split.
  - intros H. exists pp. split; [done|]. destruct (action_of Async D pp) as [| |k m|k| |k pv|w]; cbn; try done.
    + destruct (chans c !! k) as [st|]; [|done]. destruct (ch_closed st); [done|]. exfalso. apply H. by destruct (ch_buf st).
    + destruct (chans c !! k) as [st|]; [|done]. destruct (ch_buf st); [by left|]. destruct (ch_closed st); [by right|done].
  - intros (pp' & [= <-] & H). destruct (action_of Async D pp) as [| |k m|k| |k pv|w]; cbn in H; try done.
    + unfold eff_step. by destruct (dup_effect p pp).
    + unfold eff_step. by destruct (internal_effect Sync F p pp).
    + destruct (chans c !! k) as [st|]; [|done]. by rewrite H.
    + destruct (chans c !! k) as [st|]; [|done]. destruct (ch_buf st) as [m|].
      * unfold eff_step. by destruct (on_message p pp m).
      * destruct H as [H|H]; [done|]. rewrite H. unfold eff_step. by destruct (on_message p pp zero_msg).
Qed.

Lemma sync_en_rdv c s r : sync_en c (Rendezvous s r) <->
  s <> r /\ exists ps pr k st, procs c !! s = Some ps /\ procs c !! r = Some pr /\
    akind_of (action_of Async D ps) = KS k /\ akind_of (action_of Async D pr) = KR k /\
    chans c !! k = Some st /\ ch_closed st = false.
Proof.
  unfold sync_en. cbn [step]. split.
  - destruct (bool_decide (s = r)) eqn:Esr; [done|]. apply bool_decide_eq_false in Esr.
    destruct (procs c !! s) as [ps|]; [|done]. destruct (procs c !! r) as [pr|]; [|done]. rewrite !action_of_sync.
    destruct (action_of Async D ps) as [| |k m|k| |k pv|w] eqn:Eas; try done.
    destruct (action_of Async D pr) as [| |k' m'|k'| |k' pv'|w'] eqn:Ear; try done.
    destruct (bool_decide (k = k')) eqn:Ekk; [|done]. apply bool_decide_eq_true in Ekk. subst k'.
    destruct (chans c !! k) as [st|] eqn:Ek; [|done]. destruct (ch_closed st) eqn:Ecl; [done|]. intros _.
    split; [done|]. exists ps, pr, k, st. rewrite Eas, Ear. done.
  - intros (Hsr & ps & pr & k & st & -> & -> & Hs & Hr & Hk & Hcl). rewrite bool_decide_eq_false_2 by done.
    rewrite !action_of_sync. apply akind_KS in Hs as [m ->]. apply akind_KR in Hr as ->.
    rewrite bool_decide_eq_true_2 by done. rewrite Hk, Hcl. unfold eff_step. by destruct (on_message r pr m).
Qed.

(* a forward, read in a polarized mode, acts on its client channel (or is an error) *)
Lemma fwd_async_kind pp to from d k : pr_body0 pp = FFwd to from d -> chan from = Some k ->
  akind_of (action_of Async D pp) = KS k \/ akind_of (action_of Async D pp) = KR k \/ akind_of (action_of Async D pp) = KE.
Proof.
  intros Hb Hk. unfold action_of. rewrite Hb. cbn [is_np]. rewrite Hk.
  destruct (negb (is_self to)); [by right; right|].
  destruct (fwd_polarity D from) as [pl|w|w]; [destruct pl|..]; cbn; auto.
Qed.

(* replacing the single provider of a process changes its action only if it acts on its own channel *)
Lemma akind_provs a b B nx nx' ka : chan a = Some ka -> (exists kb, chan b = Some kb) ->
  akind_of (action_of Async D (Proc [b] B nx')) = akind_of (action_of Async D (Proc [a] B nx)) \/
  akind_of (action_of Async D (Proc [a] B nx)) = KS ka \/ akind_of (action_of Async D (Proc [a] B nx)) = KR ka.
Proof.
  intros Ha [kb Hb]. unfold action_of, send_on, recv_on, internal, self_chan, prov0, multi.
  cbn [pr_body0 pr_provs head length Nat.ltb Nat.leb is_np]. rewrite Ha, Hb.
  destruct B; cbn;
    repeat match goal with
           | |- context [if ?x then _ else _] => destruct x; cbn
           | |- context [match chan ?x with _ => _ end] => destruct (chan x); cbn
           | |- context [match fwd_polarity ?d ?x with _ => _ end] => destruct (fwd_polarity d x) as [[]| |]; cbn
           end; auto.
Qed.
End Enabled.

Section Flush.
Variable D : tenv.
Variable F : list fundef.
Variable teq : sty -> sty -> Prop.
Hypothesis Hteq : teq_laws D teq.
Hypothesis HF : funs_typed D F teq.
Notation JN := (JN D F teq).
Notation stpN := (stp NP D F).
Notation runN := (bsteps stpN).

Theorem flush_step c ch c1 : JN c -> quiescent Sync D F c -> step NP D F c ch = SStep c1 ->
  quiescent Sync D F c1 /\ out c1 = out c /\ exists f t, ch = Control f t.
Proof.
  intros HJ Hq Hs. pose proof HJ as (HI & Hbe & Hcf). pose proof HI as [[Δ Hc] Ht _ Hns _ _ _].
  assert (Hnen : forall ch', ~ sync_en D F c ch') by (intros ch' H; apply H, Hq).
  destruct ch as [p|s r|f t].
  - exfalso. destruct (np_run_enabled D F c Ht Hbe p c1 Hs) as (pp & Hp & Ha & _).
    apply (Hnen (Run p)). apply sync_en_run. exists pp. split; [done|].
    destruct Ha as [Ha|Ha]; apply np_action_async in Ha; try done; by rewrite Ha.
  - exfalso. destruct (np_rdv_enabled D F c s r c1 Hs) as (Hsr & ps & pr & k & m & Hps & Hpr & Eas & Ear & Eas' & Ear' & _).
    revert Hs. cbn [step]. rewrite bool_decide_eq_false_2 by done. rewrite Hps, Hpr, Eas, Ear. rewrite bool_decide_eq_true_2 by done.
    destruct (chans c !! k) as [st|] eqn:Ek; [|done]. destruct (ch_closed st) eqn:Ecl; [done|]. intros _.
    apply (Hnen (Rendezvous s r)). apply sync_en_rdv. split; [done|]. exists ps, pr, k, st. rewrite Eas', Ear'. done.
  - destruct (np_ctl_enabled D F teq Hteq HF Δ c Hc Ht Hbe f t c1 Hs) as (Hft & pf & pt & k & Hf & Hpt & Eaf & Hsc & Hpoll & _ & _ & [st Hk] & _).
    destruct (ctrl_inv D pf k _ Eaf) as (to & from & d & Hbf & Hfrom & _).
    destruct (Hcf f pf Hf) as [_ [nf Hnf]]. destruct (Hcf t pt Hpt) as [_ [n0 Hn0]].
    assert (Hn0k : chan n0 = Some k) by (unfold self_chan, prov0 in Hsc; rewrite Hn0 in Hsc; exact Hsc).
    destruct (prov_chan D F teq Δ c f pf nf Hc Hf Hnf) as [kf Hkf].
    assert (Ec1 : c1 = Cfg (<[t := Proc [nf] (pr_body0 pt) (pr_next pt + 0)]> (delete f (procs c))) (close_all [k] (chans c)) (out c)).
    { revert Hs. cbn [step negb is_np orb]. rewrite bool_decide_eq_false_2 by done. rewrite Hf, Hpt, Eaf, Hsc.
      rewrite bool_decide_eq_true_2 by done. rewrite Hpoll. cbn [andb]. intros [= <-].
      rewrite apply_control_effect. rewrite Hnf, Hn0. cbn [tl app firstn cids_of flat_map del_proc procs chans out]. rewrite Hn0k. reflexivity. }
    split; [|split; [by rewrite Ec1|eauto]].
    (* f acts on k *)
    assert (Hfact : akind_of (action_of Async D pf) = KS k \/ akind_of (action_of Async D pf) = KR k).
    { destruct (fwd_async_kind D pf to from d k Hbf Hfrom) as [H|[H|H]]; auto.
      exfalso. apply (Hnen (Run f)). apply sync_en_run. exists pf. split; [done|]. by rewrite H. }
    (* nobody else does *)
    assert (HF2 : forall q qq, q <> f -> procs c !! q = Some qq ->
              akind_of (action_of Async D qq) <> KS k /\ akind_of (action_of Async D qq) <> KR k).
    { intros q qq Hqf Hqq.
      destruct (typed_async_discipline D F teq Hteq HF Δ c Hc Ht f q pf qq (not_eq_sym Hqf) Hf Hqq) as (Hss & Hrr & _).
      split; intros Hqk.
      - destruct Hfact as [Hfk|Hfk].
        + apply (Hss k). split; [apply akind_KS in Hfk|apply akind_KS in Hqk]; done.
        + destruct (ch_closed st) eqn:Ecl.
          * apply (Hnen (Run q)). apply sync_en_run. exists qq. split; [done|]. rewrite Hqk. cbn. by rewrite Hk.
          * apply (Hnen (Rendezvous q f)). apply sync_en_rdv. split; [done|]. exists qq, pf, k, st. done.
      - destruct Hfact as [Hfk|Hfk].
        + destruct (ch_closed st) eqn:Ecl.
          * apply (Hnen (Run f)). apply sync_en_run. exists pf. split; [done|]. rewrite Hfk. cbn. by rewrite Hk.
          * apply (Hnen (Rendezvous f q)). apply sync_en_rdv. split; [done|]. exists pf, qq, k, st. done.
        + apply (Hrr k). split; [apply akind_KR in Hfk|apply akind_KR in Hqk]; done. }
    (* the processes of c1 *)
    assert (Hlk : forall x px, procs c1 !! x = Some px -> x <> f /\ exists px0, procs c !! x = Some px0 /\
              akind_of (action_of Async D px) = akind_of (action_of Async D px0)).
    { intros x px. rewrite Ec1. cbn [procs]. intros H. apply lookup_insert_Some in H as [[<- <-]|[Hxt H]].
      - split; [done|]. exists pt. split; [done|]. destruct pt as [provs B nx]. cbn in Hn0. subst provs. cbn [pr_body0 pr_next].
        destruct (akind_provs D n0 nf B nx (nx + 0) k Hn0k (ex_intro _ kf Hkf)) as [H|[H|H]]; [done| |];
          exfalso; by destruct (HF2 t _ (not_eq_sym Hft) Hpt).
      - apply lookup_delete_Some in H as [Hxf H]. split; [done|]. eauto. }
    intros ch'. destruct (step Sync D F c1 ch') as [|c2|w e] eqn:E; [done| |]; exfalso;
      (assert (Hen : sync_en D F c1 ch') by (unfold sync_en; rewrite E; done)); clear E.
    all: destruct ch' as [q|s r|f' t']; [| |by apply Hen].
    all: try (apply sync_en_run in Hen as (qq & Hq1 & Hre); destruct (Hlk q qq Hq1) as (Hqf & qq0 & Hq0 & Ek);
              destruct (HF2 q qq0 Hqf Hq0) as [N1 N2];
              apply (Hnen (Run q)); apply sync_en_run; exists qq0; split; [done|];
              rewrite Ek in Hre; rewrite Ec1 in Hre; cbn [chans] in Hre; eapply run_en_close; eauto).
    all: apply sync_en_rdv in Hen as (Hsr & ps & pr & k2 & st2 & Hps & Hpr & Eks & Ekr & Hk2 & Hcl2);
         destruct (Hlk s ps Hps) as (Hsf & ps0 & Hps0 & Es); destruct (Hlk r pr Hpr) as (Hrf & pr0 & Hpr0 & Er);
         destruct (HF2 s ps0 Hsf Hps0) as [N1 _]; rewrite Es in Eks; rewrite Er in Ekr;
         assert (Hkk : k2 <> k) by (intros ->; by apply N1);
         rewrite Ec1 in Hk2; cbn [chans] in Hk2; rewrite close_all_lookup in Hk2;
         (rewrite decide_False in Hk2 by (intros H%elem_of_list_singleton; done));
         apply (Hnen (Rendezvous s r)); apply sync_en_rdv; split; [done|]; exists ps0, pr0, k2, st2; done.
Qed.

Lemma JN_step' c ch c' : funs_aff F -> nofd_funs F -> cfree_funs F -> JN c -> step NP D F c ch = SStep c' -> JN c'.
Proof. intros HFa HFn HFc. apply (JN_step D F teq Hteq HF HFa HFn HFc). Qed.

(* every NP run from a configuration where the synchronous mode is quiescent keeps the output *)
Theorem flush_run n c t : funs_aff F -> nofd_funs F -> cfree_funs F ->
  JN c -> quiescent Sync D F c -> runN n c t -> quiescent Sync D F t /\ out t = out c.
Proof.
  intros HFa HFn HFc HJ Hq Hr. induction Hr as [c|n c a c' t Hs Hn IH]; [done|].
  apply stp_Some in Hs. destruct (flush_step c a c' HJ Hq Hs) as (Hq' & Ho & _).
  destruct (IH (JN_step' c a c' HFa HFn HFc HJ Hs) Hq') as [H1 H2]. split; [done|congruence].
Qed.
End Flush.
