(* RuntimeCheckFacts.v — the executable check of RuntimeFootprint.v is sound for the side conditions
   of the commutation theorems: where it reports no bad pair, the hypotheses I_compat and I_err of
   `determinism_partial` hold; and the instrumented run is the run. *)
From stdpp Require Import gmap strings sorting.
Require Import Grits.Base Grits.ModeDefs Grits.Modes Grits.STypes Grits.Forms Grits.Subst Grits.TcDeps Grits.Expand.
Require Import Grits.Runtime Grits.RuntimeFootprint Grits.proofs.RuntimeFacts Grits.proofs.Diamond Grits.proofs.Determinism.

Lemma cid_eqb_eq (a b : list nat) : cid_eqb a b = true <-> a = b.
Proof. unfold cid_eqb. destruct (list_eq_dec Nat.eq_dec a b); split; congruence. Qed.

Lemma existsb_cid_eqb k l : existsb (cid_eqb k) l = true <-> k ∈ l.
Proof.
  rewrite existsb_exists. split.
  - intros (x & Hx & He). apply cid_eqb_eq in He as ->. by apply elem_of_list_In.
  - intros H. exists k. split; [by apply elem_of_list_In|by apply cid_eqb_eq].
Qed.

Lemma disj_b_spec l1 l2 : disj_b l1 l2 = true -> l1 ## l2.
Proof.
  unfold disj_b. rewrite forallb_forall. intros H x H1 H2.
  specialize (H x (proj1 (elem_of_list_In _ _) H1)). apply negb_true_iff in H.
  apply existsb_cid_eqb in H2. congruence.
Qed.

Lemma exists_b_spec c k : exists_b c k = true -> is_Some (chans c !! k).
Proof. unfold exists_b. destruct (chans c !! k); [eauto|discriminate]. Qed.
Lemma live_b_spec c p : live_b c p = true -> is_Some (procs c !! p).
Proof. unfold live_b. destruct (procs c !! p); [eauto|discriminate]. Qed.

Lemma indep_b_spec md D c a b : indep_b md D c a b = true -> indep md D c a b.
Proof.
  unfold indep_b. rewrite !andb_true_iff, forallb_forall. intros [[H1 H2] H3].
  split; [by apply disj_b_spec|]. split; [by apply disj_b_spec|].
  intros k Hk. apply exists_b_spec, H3. by apply elem_of_list_In.
Qed.

Lemma indep_read_b_spec md D c a b : indep_read_b md D c a b = true -> indep_read md D c a b.
Proof.
  unfold indep_read_b. rewrite !andb_true_iff, !forallb_forall. intros [[H1 H2] H3].
  split; [by apply disj_b_spec|]. split.
  - intros q Hq. apply live_b_spec, H2. by apply elem_of_list_In.
  - intros k Hk. specialize (H3 k (proj1 (elem_of_list_In _ _) Hk)). apply andb_true_iff in H3 as [H3 H4].
    split; [by apply exists_b_spec|]. intros Hin. apply existsb_cid_eqb in Hin. rewrite Hin in H4. discriminate.
Qed.

Lemma choice_eqb_eq a b : choice_eqb a b = true -> a = b.
Proof.
  destruct a, b; cbn; try discriminate; rewrite ?andb_true_iff, ?cid_eqb_eq; intuition congruence.
Qed.

(* where the check finds no bad pair, the side conditions of the diamond hold for every pair *)
Theorem check_sound md D F c :
  bad_pairs md D F c = [] ->
  (forall a b c1 c2, a ≠ b -> step md D F c a = SStep c1 -> step md D F c b = SStep c2 -> indep md D c a b) /\
  (forall a b w e c2, step md D F c a = SError w e -> step md D F c b = SStep c2 -> indep_read md D c a b).
Proof.
  intros Hb.
  assert (Hok : forall a b, In a (enabled md D F c) -> In b (enabled md D F c) -> pair_ok md D F c a b = true).
  { intros a b Ha Hb'. destruct (pair_ok md D F c a b) eqn:E; [done|].
    assert (In (a, b) (bad_pairs md D F c)) as Hin.
    { unfold bad_pairs. apply filter_In. split; [by apply in_prod|]. by rewrite E. }
    by rewrite Hb in Hin. }
  split.
  - intros a b c1 c2 Hab Ha Hb'.
    assert (H : pair_ok md D F c a b = true) by (apply Hok; apply enabled_spec; congruence).
    unfold pair_ok in H. rewrite Ha, Hb' in H. apply orb_true_iff in H as [H|H].
    + by apply choice_eqb_eq in H.
    + by apply indep_b_spec.
  - intros a b w e c2 Ha Hb'.
    assert (H : pair_ok md D F c a b = true) by (apply Hok; apply enabled_spec; congruence).
    unfold pair_ok in H. rewrite Ha, Hb' in H. apply orb_true_iff in H as [H|H].
    + apply choice_eqb_eq in H as ->. congruence.
    + by apply indep_read_b_spec.
Qed.

(* so at a checked configuration with hygienic namespaces the two commutation properties hold *)
Corollary checked_config_commutes md D F c :
  ns_ok c -> bad_pairs md D F c = [] ->
  (forall a b c1 c2, a ≠ b -> step md D F c a = SStep c1 -> step md D F c b = SStep c2 ->
     exists d1 d2, step md D F c1 b = SStep d1 /\ step md D F c2 a = SStep d2 /\ cfg_equiv d1 d2) /\
  (forall a b w e c2, step md D F c a = SError w e -> step md D F c b = SStep c2 -> step md D F c2 a = SError w e).
Proof.
  intros Hns Hb. destruct (check_sound md D F c Hb) as [H1 H2]. split.
  - intros a b c1 c2 Hab Ha Hb'. eapply diamond; eauto.
  - intros a b w e c2 Ha Hb'. eapply error_stable; eauto.
Qed.

(* the instrumented run is the run *)
Lemma exec_check_run fuel pick md D F : forall c st, (exec_check fuel pick md D F c st).1 = exec_run fuel pick md D F c.
Proof.
  induction fuel as [|f IH]; intros c st; cbn [exec_check exec_run]; [done|].
  destruct (enabled md D F c) as [|e0 es]; [done|].
  destruct (step md D F c _); [done|apply IH|done].
Qed.
