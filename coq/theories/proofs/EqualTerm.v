(* EqualTerm.v — termination of the memoising equality algorithm, for EVERY environment (the memo
   alone guarantees it: no well-formedness is needed).  Over a finite universe U closed under
   components and expansion, every memo entry is the key of a pair of U, each expansion adds a
   new key (outer fuel), and between two expansions the sizes shrink (inner fuel). *)
Require Import Grits.Base Grits.ModeDefs Grits.Modes Grits.STypes Grits.Infer Grits.Print Grits.Equal
               Grits.spec.TypEq Grits.proofs.TypEqFacts Grits.proofs.EqualWFFacts.

Lemma find_br_size l cs a : find_br l cs = Some a -> tsize a < bsize cs.
Proof.
  induction cs as [|l' a' r IH]; cbn; [discriminate|]. destruct (String.eqb l l'); intros H.
  - inversion H; subst. lia.
  - apply IH in H. lia.
Qed.
Lemma In_br_size c bs : In_br c bs -> tsize c < bsize bs.
Proof. induction bs; cbn; [tauto|]. intros [-> | H]; [lia | apply IHbs in H; lia]. Qed.

Section Term.
Variable D : tenv.
Variable U : list sty.
Hypothesis Uchild : forall t c, In t U -> child t c -> In c U.
Hypothesis Uexp : forall x m d, In (TName x m) U -> tlookup D x = Some d -> In (td_body d) U.

Definition keys : list string := map (fun p => memo_key (fst p) (snd p)) (list_prod U U).
Definition N : nat := length keys.
Definition inv (M : list string) : Prop := NoDup M /\ incl M keys.

Lemma N_eq : N = length U * length U.
Proof. unfold N, keys. rewrite map_length, prod_length. reflexivity. Qed.

Lemma inv_length M : inv M -> length M <= N.
Proof. intros [Hnd Hin]. apply NoDup_incl_length; assumption. Qed.

Lemma key_in a b : In a U -> In b U -> In (memo_key a b) keys.
Proof. intros Ha Hb. unfold keys. apply in_map_iff. exists (a, b). split; [reflexivity | apply in_prod; assumption]. Qed.

Lemma inv_cons M a b : inv M -> In a U -> In b U -> ~ In (memo_key a b) M ->
  inv (memo_key a b :: M) /\ length M < N.
Proof.
  intros [Hnd Hin] Ha Hb Hn.
  assert (Hi : inv (memo_key a b :: M)).
  { split; [constructor; assumption|]. intros k [<- | Hk]; [apply key_in; assumption | auto]. }
  split; [exact Hi|]. apply inv_length in Hi. cbn in Hi. lia.
Qed.

Definition total (r : res) (M : list string) : Prop :=
  exists b M', r = Ok (b, M') /\ inv M' /\ length M <= length M'.

Lemma total_ret b M : inv M -> total (Ok (b, M)) M.
Proof. intros H. exists b, M. auto. Qed.

Definition spec_s (rs : sty -> sty -> list string -> res) (K n : nat) : Prop :=
  forall a b M, In a U -> In b U -> inv M -> N - length M < K -> tsize a + tsize b < n -> total (rs a b M) M.
Definition spec_e (re : sty -> sty -> list string -> res) (K : nat) : Prop :=
  forall a b M, In a U -> In b U -> inv M -> N - length M < K -> total (re a b M) M.

Lemma both_total rs K n a a' b b' M :
  spec_s rs K n -> In a U -> In a' U -> In b U -> In b' U -> inv M -> N - length M < K ->
  tsize a + tsize a' < n -> tsize b + tsize b' < n -> total (both rs a a' b b' M) M.
Proof.
  intros Hs Ha Ha' Hb Hb' Hi HK H1 H2. unfold both.
  destruct (Hs a a' M Ha Ha' Hi HK H1) as (r & M1 & E1 & Hi1 & Hl1). rewrite E1.
  destruct r; [|exists false, M1; auto].
  destruct (Hs b b' M1 Hb Hb' Hi1) as (r2 & M2 & E2 & Hi2 & Hl2); [lia | exact H2 |].
  exists r2, M2. repeat split; try apply Hi2; auto; lia.
Qed.

Lemma branches_total rs K n cs : spec_s rs K n -> (forall c, In_br c cs -> In c U) ->
  forall bs M, (forall c, In_br c bs -> In c U) -> inv M -> N - length M < K ->
  (forall c c', In_br c bs -> In_br c' cs -> tsize c + tsize c' < n) ->
  total (branches rs bs cs M) M.
Proof.
  intros Hs Hcs. induction bs as [|l a rest IH]; intros M Hbs Hi HK Hsz; cbn [branches].
  - apply total_ret; auto.
  - destruct (find_br l cs) as [a'|] eqn:Ef; [|apply total_ret; auto].
    pose proof (find_br_In _ _ _ Ef) as Hin'.
    assert (Ha : In a U) by (apply Hbs; cbn; auto).
    destruct (Hs a a' M Ha (Hcs _ Hin') Hi HK) as (r & M1 & E1 & Hi1 & Hl1); [apply Hsz; cbn; auto|].
    rewrite E1. destruct r; [|exists false, M1; auto].
    destruct (IH M1) as (r2 & M2 & E2 & Hi2 & Hl2); auto.
    + intros c Hc. apply Hbs. cbn. auto.
    + lia.
    + intros c c' Hc Hc'. apply Hsz; cbn; auto.
    + exists r2, M2. repeat split; try apply Hi2; auto; lia.
Qed.

Lemma expand1_U a : In a U -> forall a', expand1 D a = Some a' -> In a' U.
Proof.
  intros Ha a' E. destruct a; cbn in E; try (inversion E; subst; exact Ha).
  destruct (tlookup D x) as [d|] eqn:El; [|discriminate]. inversion E; subst. eapply Uexp; eauto.
Qed.

Ltac uch :=
  match goal with
  | Ha : In ?a U, Hb : In ?b U |- In ?c U =>
    first [ apply (Uchild _ _ Ha); cbn; auto; fail | apply (Uchild _ _ Hb); cbn; auto; fail ]
  end.

Lemma step_total rs re K n a b M :
  spec_s rs (S K) n -> spec_e re K -> In a U -> In b U -> inv M -> N - length M < S K ->
  tsize a + tsize b < S n -> total (step rs re D a b M) M.
Proof.
  intros Hs He Ha Hb Hi HK Hsz. unfold step.
  destruct (negb (same_ctor a b) && negb (is_name a) && negb (is_name b)); [apply total_ret; auto|].
  destruct (is_name a || is_name b) eqn:En.
  - cbv zeta. destruct (str_mem (memo_key a b) M) eqn:Em; [apply total_ret; auto|].
    destruct (same_label a b); [apply total_ret; auto|].
    unfold expand_both.
    destruct (expand1 D a) as [a'|] eqn:Ea; [|apply total_ret; auto].
    destruct (expand1 D b) as [b'|] eqn:Eb; [|apply total_ret; auto].
    apply str_mem_notIn in Em.
    destruct (inv_cons M a b Hi Ha Hb Em) as [Hi' Hlt].
    destruct (He a' b' (memo_key a b :: M)) as (r & M' & E & HiM & Hl); eauto using expand1_U.
    + cbn [length]. lia.
    + exists r, M'. repeat split; try apply HiM; auto. cbn [length] in Hl. lia.
  - apply orb_false_iff in En. destruct En as [Ena Enb].
    destruct a as [x m|m|a1 a2 m|a1 a2 m|bs m|bs m|f g a1|f g a1]; try discriminate;
      destruct b as [x' m'|m'|b1 b2 m'|b1 b2 m'|cs m'|cs m'|f' g' b1|f' g' b1]; try discriminate;
      try (apply total_ret; auto; fail); cbn [tsize bsize] in Hsz.
    + destruct (mode_eqb m m'); [|apply total_ret; auto].
      apply (both_total rs (S K) n); auto; try uch; lia.
    + destruct (mode_eqb m m'); [|apply total_ret; auto].
      apply (both_total rs (S K) n); auto; try uch; lia.
    + destruct (brs_len bs =? brs_len cs)%nat; [|apply total_ret; auto].
      destruct (mode_eqb m m'); [|apply total_ret; auto].
      apply (branches_total rs (S K) n); auto.
      * intros c Hc. eapply Uchild; [exact Hb|exact Hc].
      * intros c Hc. eapply Uchild; [exact Ha|exact Hc].
      * intros c c' Hc Hc'. apply In_br_size in Hc. apply In_br_size in Hc'. lia.
    + destruct (brs_len bs =? brs_len cs)%nat; [|apply total_ret; auto].
      destruct (mode_eqb m m'); [|apply total_ret; auto].
      apply (branches_total rs (S K) n); auto.
      * intros c Hc. eapply Uchild; [exact Hb|exact Hc].
      * intros c Hc. eapply Uchild; [exact Ha|exact Hc].
      * intros c c' Hc Hc'. apply In_br_size in Hc. apply In_br_size in Hc'. lia.
    + destruct (mode_eqb g g'); [|apply total_ret; auto]. destruct (mode_eqb f f'); [|apply total_ret; auto].
      apply Hs; auto; try uch; lia.
    + destruct (mode_eqb g g'); [|apply total_ret; auto]. destruct (mode_eqb f f'); [|apply total_ret; auto].
      apply Hs; auto; try uch; lia.
Qed.

Lemma eq_in_total re K : spec_e re K -> forall n, spec_s (eq_in re D n) (S K) n.
Proof.
  intros He. induction n as [|n IH]; intros a b M Ha Hb Hi HK Hsz; [lia|].
  cbn [eq_in]. eapply step_total; eauto.
Qed.

Theorem eq_ty_total : forall K n, spec_s (eq_ty K D n) K n.
Proof.
  induction K as [|K IH]; intros n a b M Ha Hb Hi HK Hsz; [lia|].
  cbn [eq_ty]. refine (eq_in_total _ K _ n a b M Ha Hb Hi HK Hsz).
  intros a' b' M' Ha' Hb' Hi' HK'. apply IH; auto.
Qed.
End Term.

(* ---------- the universe of a run ---------- *)
Fixpoint subterms (t : sty) : list sty :=
  t :: match t with
       | TName _ _ | TUnit _ => []
       | TTensor a b _ | TLolli a b _ => subterms a ++ subterms b
       | TPlus bs _ | TWith bs _ => subterms_brs bs
       | TUp _ _ a | TDown _ _ a => subterms a
       end
with subterms_brs (b : brs) : list sty :=
  match b with BNil => [] | BCons _ a r => subterms a ++ subterms_brs r end.

Lemma subterms_self t : In t (subterms t).
Proof. destruct t; cbn; auto. Qed.

Lemma subterms_child_closed :
  (forall r t c, In t (subterms r) -> child t c -> In c (subterms r)) /\
  (forall b, (forall c, In_br c b -> In c (subterms_brs b)) /\
             (forall t c, In t (subterms_brs b) -> child t c -> In c (subterms_brs b))).
Proof.
  apply sty_brs_ind.
  - intros x m t c [<- | []] Hc. cbn in Hc. contradiction.
  - intros m t c [<- | []] Hc. cbn in Hc. contradiction.
  - intros a IHa b IHb m t c Hin Hc. cbn [subterms] in *. destruct Hin as [<- | Hin].
    + right. apply in_or_app. cbn in Hc. destruct Hc as [-> | ->]; [left | right]; apply subterms_self.
    + right. apply in_or_app. apply in_app_or in Hin. destruct Hin as [Hin | Hin]; [left; eapply IHa | right; eapply IHb]; eauto.
  - intros a IHa b IHb m t c Hin Hc. cbn [subterms] in *. destruct Hin as [<- | Hin].
    + right. apply in_or_app. cbn in Hc. destruct Hc as [-> | ->]; [left | right]; apply subterms_self.
    + right. apply in_or_app. apply in_app_or in Hin. destruct Hin as [Hin | Hin]; [left; eapply IHa | right; eapply IHb]; eauto.
  - intros bs [IH1 IH2] m t c Hin Hc. cbn [subterms] in *. destruct Hin as [<- | Hin].
    + right. apply IH1. exact Hc.
    + right. eapply IH2; eauto.
  - intros bs [IH1 IH2] m t c Hin Hc. cbn [subterms] in *. destruct Hin as [<- | Hin].
    + right. apply IH1. exact Hc.
    + right. eapply IH2; eauto.
  - intros f g a IHa t c Hin Hc. cbn [subterms] in *. destruct Hin as [<- | Hin].
    + right. cbn in Hc. subst. apply subterms_self.
    + right. eapply IHa; eauto.
  - intros f g a IHa t c Hin Hc. cbn [subterms] in *. destruct Hin as [<- | Hin].
    + right. cbn in Hc. subst. apply subterms_self.
    + right. eapply IHa; eauto.
  - split; [intros c []|intros t c []].
  - intros l a IHa r [IH1 IH2]. cbn [subterms_brs]. split.
    + intros c [-> | Hc]; apply in_or_app; [left; apply subterms_self | right; auto].
    + intros t c Hin Hc. apply in_or_app. apply in_app_or in Hin.
      destruct Hin as [Hin | Hin]; [left; eapply IHa | right; eapply IH2]; eauto.
Qed.

Lemma subterms_length : (forall t, length (subterms t) <= tsize t) /\ (forall b, length (subterms_brs b) <= bsize b).
Proof.
  apply sty_brs_ind; intros; cbn [subterms subterms_brs tsize bsize length]; rewrite ?app_length; lia.
Qed.

Definition universe (D : tenv) (s t : sty) : list sty :=
  subterms s ++ subterms t ++ flat_map (fun d => subterms (td_body d)) D.

Lemma universe_child D s t x c : In x (universe D s t) -> child x c -> In c (universe D s t).
Proof.
  unfold universe. intros Hin Hc. apply in_app_or in Hin. destruct Hin as [Hin | Hin].
  - apply in_or_app. left. eapply (proj1 subterms_child_closed); eauto.
  - apply in_or_app. right. apply in_app_or in Hin. destruct Hin as [Hin | Hin].
    + apply in_or_app. left. eapply (proj1 subterms_child_closed); eauto.
    + apply in_or_app. right. apply in_flat_map in Hin. destruct Hin as [d [Hd Hin]].
      apply in_flat_map. exists d. split; [exact Hd|]. eapply (proj1 subterms_child_closed); eauto.
Qed.
Lemma universe_exp D s t x m d : In (TName x m) (universe D s t) -> tlookup D x = Some d -> In (td_body d) (universe D s t).
Proof.
  intros _ Hl. unfold universe. apply in_or_app. right. apply in_or_app. right.
  apply in_flat_map. exists d. split; [apply (tlookup_In _ _ _ Hl) | apply subterms_self].
Qed.
Lemma universe_length D s t : length (universe D s t) <= tsize s + tsize t + env_size D.
Proof.
  unfold universe. rewrite !app_length.
  pose proof (proj1 subterms_length s). pose proof (proj1 subterms_length t).
  assert (length (flat_map (fun d => subterms (td_body d)) D) <= env_size D).
  { induction D as [|d r IH]; cbn; [lia|]. rewrite app_length. pose proof (proj1 subterms_length (td_body d)).
    unfold env_size in IH. lia. }
  lia.
Qed.

(* EqualType always returns: for every environment and every pair of types, with any outer fuel
   from eq_fuel upwards *)
Theorem eq_ty_terminates_ge D s t K : eq_fuel D s t <= K ->
  exists b M, eq_ty K D (S (tsize s + tsize t)) s t [] = Ok (b, M).
Proof.
  intros HK. pose (U := universe D s t).
  destruct (eq_ty_total D U (universe_child D s t) (universe_exp D s t) K (S (tsize s + tsize t)) s t [])
    as (b & M & E & _).
  - apply in_or_app. left. apply subterms_self.
  - apply in_or_app. right. apply in_or_app. left. apply subterms_self.
  - split; [constructor | intros k []].
  - cbn [length]. rewrite Nat.sub_0_r, N_eq. unfold eq_fuel in HK.
    pose proof (universe_length D s t) as Hl. fold U in Hl.
    assert (length U * length U <= S (env_size D + tsize s + tsize t) * S (env_size D + tsize s + tsize t)) by (apply Nat.mul_le_mono; lia).
    lia.
  - lia.
  - eauto.
Qed.

Theorem eq_ty_terminates D s t :
  exists b M, eq_ty (eq_fuel D s t) D (S (tsize s + tsize t)) s t [] = Ok (b, M).
Proof. apply eq_ty_terminates_ge. apply le_n. Qed.
