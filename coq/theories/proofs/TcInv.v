(* proofs/TcInv.v — inversion principles for the monadic code of Tc.v and facts about association
   lists as used by the checker's contexts (shared by LinearProofs.v and IndepProofs.v). *)
Require Import Grits.Base Grits.ModeDefs Grits.Modes Grits.STypes Grits.Forms Grits.Subst Grits.Infer
               Grits.TcDeps Grits.Expand Grits.Tc.

Lemma tbind_ok {A B} (r : tcr A) (f : A -> tcr B) b :
  tbind r f = TOk b -> exists a, r = TOk a /\ f a = TOk b.
Proof. destruct r; cbn; intros H; try discriminate. eauto. Qed.

Lemma guard_ok b w u : guard b w = TOk u -> b = true.
Proof. destruct b; cbn; congruence. Qed.

Lemma lift_ok {A} (o : outcome A) a : lift o = TOk a -> o = Ok a.
Proof. destruct o; cbn; congruence. Qed.

Lemma need_ok {A} (t : option A) w a : need t w = TOk a -> t = Some a.
Proof. destruct t; cbn; congruence. Qed.

Lemma linear_gamma_ok g u : linear_gamma g = TOk u -> g = [].
Proof. destruct g; cbn; congruence. Qed.

(* generic inversion of a hypothesis  <monadic code> = TOk r *)
Ltac tinv H :=
  repeat match type of H with
  | tbind ?r ?f = TOk _ =>
    let a := fresh "a" in let E := fresh "E" in
    apply tbind_ok in H; destruct H as (a & E & H); cbv beta in H
  | (let '(x, y) := ?p in _) = TOk _ => destruct p eqn:?
  | (let x := _ in _) = TOk _ => cbv zeta in H
  | match ?x with _ => _ end = TOk _ => destruct x eqn:?; try discriminate H
  | (if ?b then _ else _) = TOk _ => destruct b eqn:?; try discriminate H
  | type_mismatch _ _ = TOk _ => exfalso; revert H; unfold type_mismatch; clear; intros H; repeat match type of H with match ?x with _ => _ end = _ => destruct x end; discriminate H
  end.

(* ---------- association lists ---------- *)
Lemma amem_aremove {V} x y (g : list (string * V)) : amem x (aremove y g) = negb (String.eqb x y) && amem x g.
Proof.
  unfold amem. induction g as [|[k v] g IH]; cbn.
  - now rewrite andb_false_r.
  - destruct (String.eqb y k) eqn:Eyk.
    + apply String.eqb_eq in Eyk; subst k. rewrite IH.
      destruct (String.eqb x y) eqn:Exy; cbn; auto.
    + cbn. destruct (String.eqb x k) eqn:Exk.
      * apply String.eqb_eq in Exk; subst k. rewrite String.eqb_sym in Eyk. rewrite Eyk. reflexivity.
      * apply IH.
Qed.

Lemma amem_aset {V} x y (v : V) g : amem x (aset y v g) = String.eqb x y || amem x g.
Proof.
  unfold aset. unfold amem at 1. cbn. destruct (String.eqb x y) eqn:E; cbn; auto.
  fold (amem x (aremove y g)). rewrite amem_aremove, E. reflexivity.
Qed.

Lemma alookup_amem {V} x (g : list (string * V)) v : alookup x g = Some v -> amem x g = true.
Proof. unfold amem; intros ->; reflexivity. Qed.

Lemma alookup_none_amem {V} x (g : list (string * V)) : alookup x g = None -> amem x g = false.
Proof. unfold amem; intros ->; reflexivity. Qed.

Lemma amem_nil {V} x : amem x (@nil (string * V)) = false.
Proof. reflexivity. Qed.

Lemma amem_all_false_nil {V} (g : list (string * V)) : (forall x, amem x g = false) -> g = [].
Proof.
  destruct g as [|[k v] g]; auto. intros H. specialize (H k). unfold amem in H. cbn in H.
  rewrite String.eqb_refl in H. discriminate.
Qed.

(* ---------- the consume family ---------- *)
Lemma consume_ok n g t g1 :
  consume n g = TOk (t, g1) -> is_self n = false /\ alookup (ident n) g = Some t /\ g1 = aremove (ident n) g.
Proof.
  unfold consume. destruct (is_self n); try discriminate.
  destruct (alookup (ident n) g) eqn:E; try discriminate. intros H; inversion H; subst; auto.
Qed.

Lemma consume_opt_some n g t g1 :
  consume_opt n g = (Some t, g1) -> is_self n = false /\ alookup (ident n) g = Some t /\ g1 = aremove (ident n) g.
Proof.
  unfold consume_opt. destruct (is_self n); try discriminate.
  destruct (alookup (ident n) g) eqn:E; try discriminate. intros H; inversion H; subst; auto.
Qed.

Lemma consume_opt_none n g g1 : consume_opt n g = (None, g1) -> g1 = g.
Proof.
  unfold consume_opt. destruct (is_self n); [intros H; inversion H; auto|].
  destruct (alookup (ident n) g); intros H; inversion H; auto.
Qed.

Definition nonself (ns : list name) : list name := filter (fun n => negb (is_self n)) ns.

Lemma fold_append_nonself args acc :
  fold_left (fun a n => append_if_not_self n a) args acc = acc ++ nonself args.
Proof.
  revert acc; induction args as [|n r IH]; intros acc; cbn.
  - now rewrite app_nil_r.
  - rewrite IH. unfold append_if_not_self. destruct (is_self n); cbn; auto. now rewrite <- app_assoc.
Qed.

Lemma nonself_idem ns : nonself (nonself ns) = nonself ns.
Proof.
  unfold nonself. induction ns as [|n r IH]; cbn; auto.
  destruct (is_self n) eqn:E; cbn; auto. rewrite E. cbn. now rewrite IH.
Qed.


Lemma nonself_app a b : nonself (a ++ b) = nonself a ++ nonself b.
Proof. unfold nonself. apply filter_app. Qed.

Lemma nonself_append n l : nonself (append_if_not_self n l) = append_if_not_self n (nonself l).
Proof.
  unfold append_if_not_self. destruct (is_self n) eqn:E; auto.
  rewrite nonself_app. cbn. rewrite E. reflexivity.
Qed.

Lemma nonself_free_names_axiom f : has_continuation f = false -> nonself (free_names f) = free_names f.
Proof.
  destruct f; intros Hc; try discriminate Hc; cbn [free_names];
    rewrite ?nonself_append; try reflexivity.
  rewrite fold_append_nonself. cbn. apply nonself_idem.
Qed.

(* ---------- the cut ---------- *)
Lemma tc_new_inv D Sg g sh pty x body k f' :
  tc_form D Sg g sh pty (FNew x body k) = TOk f' ->
  is_provider x sh = false /\
  has_continuation body = false /\
  ctx_has g (ident x) = name_in_names x (free_names body) /\
  exists ns gl gr0 bt xs tk gr b' k',
    split_gamma D g ns [] = TOk (gl, gr0) /\
    nonself ns = free_names body /\
    indep_all (map snd gl) bt = TOk tt /\ indep_one bt pty = TOk tt /\
    ident xs = ident x /\
    tc_form D Sg gl (Some xs) bt body = TOk b' /\
    (gr = gr0 \/ exists t, gr = aset (ident x) t gr0) /\
    (tk = bt \/ unfold_opt D bt = TOk tk) /\
    tc_form D Sg (aset (ident x) tk gr) sh pty k = TOk k' /\
    match body with
    | FCall fn _ _ => exists sg, sig_lookup Sg fn = Some sg /\ unfold_opt D (fs_type sg) = TOk bt /\ tk = bt
    | _ => exists xt xt1, nty x = Some xt /\ add_missing D xt = Ok xt1 /\ check_wf D xt1 = true /\
                          unfold_opt D (Some xt1) = TOk bt /\ unfold_opt D bt = TOk tk
    end.
Proof.
  intros H. cbn [tc_form] in H.
  apply tbind_ok in H; destruct H as (u0 & G0 & H).
  apply tbind_ok in H; destruct H as (u1 & G1 & H).
  apply tbind_ok in H; destruct H as (u2 & G2 & H).
  apply tbind_ok in H; destruct H as (u3 & G3 & H).
  apply guard_ok in G0, G1, G2, G3.
  assert (Hp : is_provider x sh = false) by (destruct (is_provider x sh); auto; discriminate).
  assert (Hc : has_continuation body = false) by (destruct (has_continuation body); auto; discriminate).
  assert (Hr : ctx_has g (ident x) = name_in_names x (free_names body)).
  { destruct (ctx_has g (ident x)), (name_in_names x (free_names body)); auto; discriminate. }
  split; [exact Hp|]. split; [exact Hc|]. split; [exact Hr|].
  clear G0 G1 G2 G3 u0 u1 u2 u3.
  destruct body; try discriminate Hc.
  all: tinv H;
       repeat match goal with u : unit |- _ => destruct u end;
       repeat match goal with G : guard _ _ = TOk _ |- _ => apply guard_ok in G end;
       match goal with
       | Hs : split_gamma _ _ ?ns [] = TOk (?gl, ?gr0),
         Hb : tc_form _ _ ?gl (Some ?xs) ?bt _ = TOk ?b',
         Hk : tc_form _ _ (aset _ ?tk ?gr) _ _ _ = TOk ?k' |- _ =>
         exists ns, gl, gr0, bt, xs, tk, gr, b', k'
       end;
       repeat match goal with E : lift _ = TOk _ |- _ => apply lift_ok in E end;
       repeat split; auto;
       try (eexists; repeat split; eauto; fail);
       try (eexists _, _; repeat split; eauto; fail);
       try (apply nonself_free_names_axiom; reflexivity);
       try (cbn [free_names]; rewrite fold_append_nonself; reflexivity);
       try (match goal with |- _ \/ _ => first [left; reflexivity | right; assumption
             | match goal with |- context [ctx_has ?g0 ?i0] => destruct (ctx_has g0 i0); [right; eexists|left]; reflexivity end ] end).
Qed.

(* ---------- unfolding equations that keep the mutually defined functions folded ---------- *)
Lemma tc_form_case_eq D Sg g shadow pty from brs :
  tc_form D Sg g shadow pty (FCase from brs) =
    if is_provider from shadow then
      tdo pty' <- unfold_opt D pty;
      match as_with pty' with
      | None => type_mismatch pty' "expected a branching type"
      | Some (bs, m) =>
        tdo (brs', seen) <- tc_branches_provider D Sg g bs [] brs;
        tdo _ <- guard (negb (Nat.ltb (length seen) (brs_len bs))) "some labels are not pattern matched";
        let from' := set_nty from pty' in
        tdo _ <- check_pols [from'];
        TOk (FCase from' brs')
      end
    else
      tdo (ct, g1) <- consume from g;
      tdo ct' <- unfold_opt D ct;
      match as_plus ct' with
      | None => type_mismatch ct' "expected a select type"
      | Some (bs, m) =>
        tdo (brs', seen) <- tc_branches_client D Sg g1 shadow pty bs [] brs;
        tdo _ <- guard (negb (Nat.ltb (length seen) (brs_len bs))) "some labels are not pattern matched";
        let from' := set_nty from ct' in
        tdo _ <- check_pols [from'];
        TOk (FCase from' brs')
      end.
Proof. reflexivity. Qed.

Lemma tc_branches_provider_cons D Sg g bs seen l pay k r :
  tc_branches_provider D Sg g bs seen (BrCons l pay k r) =
    tdo _ <- guard (negb (str_mem l seen)) "label is duplicated";
    match find_br l bs with
    | None => TErr "branch does not match the type"
    | Some bt =>
      tdo _ <- guard (negb (ctx_has g (ident pay))) "variable name already defined";
      tdo bt' <- unfold_opt D (Some bt);
      let pay' := set_nty pay bt' in
      tdo _ <- check_pols [pay'];
      tdo k' <- tc_form D Sg g (Some pay') (Some bt) k;
      tdo (r', seen') <- tc_branches_provider D Sg g bs (l :: seen) r;
      TOk (BrCons l pay' k' r', seen')
    end.
Proof. reflexivity. Qed.

Lemma tc_branches_client_cons D Sg g shadow pty bs seen l pay k r :
  tc_branches_client D Sg g shadow pty bs seen (BrCons l pay k r) =
    tdo _ <- guard (negb (str_mem l seen)) "label is duplicated";
    match find_br l bs with
    | None => TErr "case does not match the type"
    | Some bt =>
      tdo _ <- guard (negb (is_provider pay shadow)) "you cannot assign self to a new channel";
      tdo _ <- guard (negb (ctx_has g (ident pay))) "variable name already defined";
      let g1 := aset (ident pay) (Some bt) g in
      tdo bt' <- unfold_opt D (Some bt);
      let pay' := set_nty pay bt' in
      tdo _ <- check_pols [pay'];
      tdo k' <- tc_form D Sg g1 shadow pty k;
      tdo (r', seen') <- tc_branches_client D Sg g shadow pty bs (l :: seen) r;
      TOk (BrCons l pay' k' r', seen')
    end.
Proof. reflexivity. Qed.

(* ---------- lookups after updates ---------- *)
Lemma alookup_aremove {V} k y (g : list (string * V)) : alookup k (aremove y g) = if String.eqb k y then None else alookup k g.
Proof.
  induction g as [|[k' v] r IH]; cbn.
  - now destruct (String.eqb k y).
  - destruct (String.eqb_spec y k'); subst.
    + rewrite IH. destruct (String.eqb_spec k k'); auto.
    + cbn. destruct (String.eqb_spec k k'); subst.
      * destruct (String.eqb_spec k' y); congruence.
      * apply IH.
Qed.
Lemma alookup_aset {V} k y (v : V) g : alookup k (aset y v g) = if String.eqb k y then Some v else alookup k g.
Proof. unfold aset. cbn. destruct (String.eqb_spec k y); auto. rewrite alookup_aremove. destruct (String.eqb_spec k y); congruence. Qed.


Lemma aremove_idem {V} y (g : list (string * V)) : aremove y (aremove y g) = aremove y g.
Proof.
  induction g as [|[k v] r IH]; cbn; auto.
  destruct (String.eqb y k) eqn:E; auto. cbn. rewrite E. now rewrite IH.
Qed.
Lemma aset_aset {V} y (v w : V) g : aset y v (aset y w g) = aset y v g.
Proof. unfold aset. cbn. rewrite String.eqb_refl. now rewrite aremove_idem. Qed.
