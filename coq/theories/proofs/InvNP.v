(* InvNP.v — the invariant InvX of InvAll.v along the runs of the NON-POLARIZED mode (Runtime.NP):
   a Run step is a DUP or an internal step (drop continues without reclaiming), a Rendezvous is an
   asynchronous send followed by the asynchronous receipt (the acting bodies are not forwards: the
   action of a forward is a control message in this mode), and Control f t hands the providers of the
   forward f to the process t whose first provider is the client channel of f (topo_control). *)
From stdpp Require Import gmap strings.
Require Import Grits.Base Grits.ModeDefs Grits.Modes Grits.STypes Grits.Forms Grits.Subst Grits.TcDeps Grits.Expand
               Grits.Runtime Grits.RuntimeFootprint Grits.spec.RtTyping Grits.spec.Topo Grits.spec.Linear.
Require Import Grits.proofs.RtSubst Grits.proofs.StepErrors Grits.proofs.RtSafety Grits.proofs.RtSafetyNP Grits.proofs.TopoLin
               Grits.proofs.RuntimeFacts Grits.proofs.AsyncSync Grits.proofs.TopoStep Grits.proofs.TopoStepExt Grits.proofs.TopoFinish
               Grits.proofs.DupSubst Grits.proofs.LinChan Grits.proofs.TopoDup Grits.proofs.InvAll.

(* ------------------------------------------------------------------ the control message of a forward *)
Lemma ctrl_inv D pp k provs : action_of NP D pp = ACtrl k provs ->
  exists to from d, pr_body0 pp = FFwd to from d /\ chan from = Some k /\ provs = pr_provs pp.
Proof.
  unfold action_of. destruct (pr_body0 pp) eqn:Eb; simpl; intros Ha;
    repeat match type of Ha with
           | (if ?b then _ else _) = _ => destruct b eqn:?
           | match ?x with _ => _ end = _ => destruct x eqn:?
           end; try discriminate;
    try (unfold internal in Ha; destruct (multi pp); discriminate);
    try (unfold send_on in Ha; destruct (multi pp); [discriminate|]; repeat match type of Ha with match ?x with _ => _ end = _ => destruct x end; discriminate);
    try (unfold recv_on in Ha; repeat match type of Ha with
           | (if ?b then _ else _) = _ => destruct b
           | match ?x with _ => _ end = _ => destruct x
           end; discriminate).
  all: injection Ha as <- <-; eexists _, _, _; eauto.
Qed.

Lemma apply_control_effect c0 t pt provs cl :
  apply_effect c0 t pt (Eff (Continue (set_provs_body pt provs (pr_body0 pt))) [] [] cl []) =
  Cfg (<[t := Proc provs (pr_body0 pt) (pr_next pt + 0)]> (procs c0)) (close_all cl (chans c0)) (out c0).
Proof. reflexivity. Qed.

Lemma topo_control c f t pf pt k to from d n0 rest :
  Topo c -> bufs_empty c -> f <> t -> procs c !! f = Some pf -> procs c !! t = Some pt ->
  pr_body0 pf = FFwd to from d -> chan to = None -> chan from = Some k ->
  pr_provs pt = n0 :: rest -> chan n0 = Some k -> NoDup (cids_of (pr_provs pt)) ->
  Topo (Cfg (<[t := Proc (pr_provs pf ++ rest) (pr_body0 pt) (pr_next pt + 0)]> (delete f (procs c)))
            (close_all [k] (chans c)) (out c)).
Proof.
  intros Ht Hbe Hft Hf Hpt Hbody Hto Hfrom Hprovs Hn0 Hnd.
  set (pt' := Proc (pr_provs pf ++ rest) (pr_body0 pt) (pr_next pt + 0)).
  set (c' := Cfg (<[t := pt']> (delete f (procs c))) (close_all [k] (chans c)) (out c)).
  assert (Hfrefs : refs (OProc f pf) = [k]).
  { cbn. rewrite Hbody. simpl. unfold name_chans. by rewrite Hto, Hfrom. }
  assert (Htprov : provides (OProc t pt) = k :: cids_of rest) by (cbn; rewrite Hprovs; cbn; by rewrite Hn0).
  assert (Hp' : forall j, j ∈ provides (OProc t pt') <-> j ∈ cids_of (pr_provs pf) \/ j ∈ cids_of rest).
  { intros j. cbn. unfold cids_of. rewrite flat_map_app. apply elem_of_app. }
  assert (Hk_rest : k ∉ cids_of rest).
  { rewrite Hprovs in Hnd. cbn in Hnd. rewrite Hn0 in Hnd. cbn in Hnd. inversion Hnd; subst. intros H. by apply elem_In in H. }
  assert (Hk_pf : k ∉ cids_of (pr_provs pf)).
  { intros H. apply Hft. assert (E : OProc f pf = OProc t pt); [|by injection E].
    eapply (topo_prov_unique c Ht _ _ k); eauto. rewrite Htprov. set_solver. }
  assert (Hk_reft : k ∉ refs (OProc t pt)).
  { intros H. eapply (topo_ne c (OProc t pt) k k); eauto. rewrite Htprov. set_solver. }
  assert (Hobj' : forall o', obj_in c' o' ->
            match o' with
            | OProc r rr => (r = t /\ rr = pt') \/ (r <> t /\ r <> f /\ procs c !! r = Some rr)
            | OMsg k' m' => obj_in c (OMsg k' m')
            end).
  { intros [r rr|k' m'] Ho'; unfold c', obj_in in Ho'; cbn [procs chans] in Ho'.
    - apply lookup_insert_Some in Ho' as [[<- <-]|[Hne H]]; [by left|]. apply lookup_delete_Some in H as [Hne' H]. right. done.
    - destruct Ho' as (st' & H & Hb). rewrite close_all_lookup in H. destruct (decide (k' ∈ [k])).
      + destruct (chans c !! k') as [st0|] eqn:E; [|discriminate]. cbn in H. injection H as <-. cbn in Hb. exists st0. done.
      + by exists st'. }
  apply (topo_rewrite c c' [OProc f pf; OProc t pt] [OProc t pt'] (fun _ => False)); try done.
  - intros o Ho. apply elem_of_cons in Ho as [->|Ho]; [exact Hf|]. by apply elem_of_list_singleton in Ho as ->.
  - intros [r rr|k' m'] Ho.
    + destruct (decide (r = f)) as [->|Hnf]; [left; cbn in Ho; rewrite Hf in Ho; injection Ho as <-; set_solver|].
      destruct (decide (r = t)) as [->|Hnt]; [left; cbn in Ho; rewrite Hpt in Ho; injection Ho as <-; set_solver|].
      right. intros Hx. apply elem_of_cons in Hx as [Hx|Hx]; [congruence|]. apply elem_of_list_singleton in Hx. congruence.
    + right. intros Hx. apply elem_of_cons in Hx as [Hx|Hx]; [discriminate|]. apply elem_of_list_singleton in Hx. discriminate.
  - intros o' Ho'. specialize (Hobj' o' Ho'). destruct o' as [r rr|k' m'].
    + destruct Hobj' as [[-> ->]|(H1 & H2 & H3)]; [right; set_solver|]. left. split; [exact H3|].
      intros Hx. apply elem_of_cons in Hx as [Hx|Hx]; [congruence|]. apply elem_of_list_singleton in Hx. congruence.
    + left. split; [exact Hobj'|]. intros Hx. apply elem_of_cons in Hx as [Hx|Hx]; [discriminate|]. apply elem_of_list_singleton in Hx. discriminate.
  - intros [r rr|k' m'] Ho Hx; unfold c'; cbn.
    + cbn in Ho. assert (r <> f) by (intros ->; apply Hx; rewrite Hf in Ho; injection Ho as <-; set_solver).
      assert (r <> t) by (intros ->; apply Hx; rewrite Hpt in Ho; injection Ho as <-; set_solver).
      rewrite lookup_insert_ne by done. by rewrite lookup_delete_ne.
    + destruct Ho as (st' & H & Hb). pose proof (Hbe _ _ H). congruence.
  - intros o' Ho'. apply elem_of_list_singleton in Ho' as ->. unfold c'. cbn. apply lookup_insert.
  - intros o' j Ho' Hj. apply elem_of_list_singleton in Ho' as ->. left. apply Hp' in Hj as [Hj|Hj].
    + exists (OProc f pf). split; [set_solver|done].
    + exists (OProc t pt). split; [set_solver|]. rewrite Htprov. set_solver.
  - intros o' j Ho' Hj. apply elem_of_list_singleton in Ho' as ->. left. exists (OProc t pt). split; [set_solver|done].
  - intros o1 o2 j H1 H2 _ _. apply elem_of_list_singleton in H1, H2. congruence.
  - intros o1 o2 j H1 H2 _ _. apply elem_of_list_singleton in H1, H2. congruence.
  - intros o j Ho Hj. apply elem_of_cons in Ho as [->|Ho].
    + left. exists (OProc t pt'). split; [set_solver|]. apply Hp'. by left.
    + apply elem_of_list_singleton in Ho as ->. rewrite Htprov in Hj. apply elem_of_cons in Hj as [->|Hj].
      * right. split.
        -- intros o2 Ho2 Hk2. assert (o2 = OProc f pf); [|set_solver]. eapply (topo_ref_unique c Ht _ _ k); eauto. rewrite Hfrefs. set_solver.
        -- intros o' Ho' Hk'. apply elem_of_list_singleton in Ho' as ->. by apply Hk_reft.
      * left. exists (OProc t pt'). split; [set_solver|]. apply Hp'. by right.
  - intros k' st' Hk' Hcl'. unfold c' in Hk'. cbn [chans] in Hk'. rewrite close_all_lookup in Hk'. destruct (decide (k' ∈ [k])) as [Hin|Hn].
    + apply elem_of_list_singleton in Hin as ->. destruct (chans c !! k) as [st0|] eqn:E; [|discriminate]. cbn in Hk'. injection Hk' as <-.
      right. split; [cbn; by apply (Hbe _ _ E)|]. intros o' Ho'. specialize (Hobj' o' Ho'). destruct o' as [r rr|k' m'].
      * destruct Hobj' as [[-> ->]|(H1 & H2 & H3)].
        -- split; [intros H; apply Hp' in H as [H|H]; contradiction|exact Hk_reft].
        -- split.
           ++ intros H. apply H1. assert (E' : OProc r rr = OProc t pt); [|by injection E'].
              eapply (topo_prov_unique c Ht _ _ k); eauto. rewrite Htprov. set_solver.
           ++ intros H. apply H2. assert (E' : OProc r rr = OProc f pf); [|by injection E'].
              eapply (topo_ref_unique c Ht _ _ k); eauto. rewrite Hfrefs. set_solver.
      * destruct Hobj' as (st1 & H1 & H2). pose proof (Hbe _ _ H1). congruence.
    + left. exists st'. done.
  - intros rk M [Hbd Hr]. exists rk, M. split.
    + intros j Hj. apply Hbd. unfold c' in Hj. cbn [chans] in Hj. rewrite close_all_lookup in Hj. destruct (decide (j ∈ [k])); [|done].
      destruct (chans c !! j); [eauto|]. cbn in Hj. by destruct Hj.
    + intros o' k1 j Ho' Hk1 Hj. specialize (Hobj' o' Ho'). destruct o' as [r rr|k' m'].
      * destruct Hobj' as [[-> ->]|(H1 & H2 & H3)]; [|eapply (Hr (OProc r rr)); eauto].
        apply Hp' in Hk1 as [Hk1|Hk1].
        -- apply (Nat.lt_trans _ (rk k)).
           ++ apply (Hr (OProc f pf)); [exact Hf|exact Hk1|rewrite Hfrefs; set_solver].
           ++ apply (Hr (OProc t pt)); [exact Hpt|rewrite Htprov; set_solver|exact Hj].
        -- apply (Hr (OProc t pt)); [exact Hpt|rewrite Htprov; set_solver|exact Hj].
      * eapply (Hr (OMsg k' m')); eauto.
Qed.

Lemma bufs_empty_effect c0 p pp e : bufs_empty c0 -> bufs_empty (apply_effect c0 p pp e).
Proof.
  intros Hb k st Hk. destruct (ch_buf st) as [m|] eqn:E; [|done]. exfalso.
  assert (Ho : obj_in (apply_effect c0 p pp e) (OMsg k m)) by (exists st; done).
  apply apply_effect_objs in Ho. destruct Ho as (st0 & H0 & Hb0). pose proof (Hb _ _ H0). congruence.
Qed.
Lemma bufs_empty_del c p : bufs_empty c -> bufs_empty (del_proc c p).
Proof. intros Hb k st Hk. exact (Hb k st Hk). Qed.

Lemma np_step_bufs_empty D F c ch c' : bufs_empty c -> step NP D F c ch = SStep c' -> bufs_empty c'.
Proof.
  intros Hb. destruct ch as [p|s r|f t]; cbn [step].
  - destruct (procs c !! p) as [pp|]; [|done]. destruct (action_of NP D pp) as [| |k m|k| |k pv|w]; try done.
    + destruct (dup_effect p pp); [|done]. intros [= <-]. by apply bufs_empty_effect.
    + destruct (internal_effect NP F p pp); [|done]. intros [= <-]. by apply bufs_empty_effect.
    + destruct (chans c !! k) as [st|]; [|done]. destruct (ch_closed st); [done|]. by destruct (ch_buf st).
    + destruct (chans c !! k) as [st|] eqn:Ek; [|done]. rewrite (Hb _ _ Ek). destruct (ch_closed st); [|done].
      destruct (on_message p pp zero_msg); [|done]. intros [= <-]. by apply bufs_empty_effect.
  - destruct (bool_decide (s = r)); [done|]. destruct (procs c !! s) as [ps|]; [|done]. destruct (procs c !! r) as [pr|]; [|done].
    destruct (action_of NP D ps) as [| |k m|k| |k pv|w]; try done. destruct (action_of NP D pr) as [| |k' m'|k'| |k' pv'|w']; try done.
    destruct (bool_decide (k = k')); [|done]. destruct (chans c !! k) as [st|]; [|done]. destruct (ch_closed st); [done|].
    destruct (on_message r pr m); [|done]. intros [= <-]. by apply bufs_empty_effect, bufs_empty_del.
  - cbn [negb is_np orb]. destruct (bool_decide (f = t)); [done|]. destruct (procs c !! f) as [pf|]; [|done]. destruct (procs c !! t) as [pt|]; [|done].
    destruct (action_of NP D pf) as [| |k m|k| |k pv|w]; try done. destruct (self_chan pt) as [k'|]; [|done].
    destruct (bool_decide (k = k') && polls_control NP D pt); [|done]. intros [= <-]. by apply bufs_empty_effect, bufs_empty_del.
Qed.

Lemma np_fwd_action D pp : body_is_fwd (pr_body0 pp) = true ->
  match action_of NP D pp with AErr _ | ACtrl _ _ | ANever => True | _ => False end.
Proof.
  unfold action_of. destruct (pr_body0 pp); try discriminate. intros _. simpl.
  destruct (negb (is_self to)); [done|]. by destruct (chan from).
Qed.
Lemma np_action_async D pp a : action_of NP D pp = a ->
  match a with AErr _ | ACtrl _ _ | ANever => False | _ => True end -> action_of Async D pp = a.
Proof.
  intros Ha Hk. destruct (body_is_fwd (pr_body0 pp)) eqn:Ef.
  - pose proof (np_fwd_action D pp Ef) as H. rewrite Ha in H. by destruct a.
  - by rewrite <- (action_np_nonfwd D pp Ef).
Qed.

(* a rendezvous of the non-polarized mode is an asynchronous send followed by its receipt *)
Lemma np_rdv_async D F c s r c' :
  bufs_empty c -> step NP D F c (Rendezvous s r) = SStep c' ->
  exists c1, step Async D F c (Run s) = SStep c1 /\ step Async D F c1 (Run r) = SStep c'.
Proof.
  intros Hb. cbn [step]. destruct (bool_decide (s = r)) eqn:Esr; [done|]. apply bool_decide_eq_false in Esr.
  destruct (procs c !! s) as [ps|] eqn:Es; [|done]. destruct (procs c !! r) as [pr|] eqn:Er; [|done].
  destruct (action_of NP D ps) as [| |k m|k| |k pv|w] eqn:Eas; try done.
  destruct (action_of NP D pr) as [| |k' m'|k'| |k' pv'|w'] eqn:Ear; try done.
  apply np_action_async in Eas; [|done]. apply np_action_async in Ear; [|done].
  destruct (bool_decide (k = k')) eqn:Ekk; [|done]. apply bool_decide_eq_true in Ekk. subst k'.
  destruct (chans c !! k) as [[buf cl]|] eqn:Ek; [|done]. cbn [ch_closed].
  destruct cl; [done|]. intros H.
  assert (buf = None) as -> by (apply (Hb _ _ Ek)).
  exists (del_proc (put_msg c k (Chan None false) (Some m)) s). split.
  - rewrite Eas, Ek. done.
  - cbn [step procs del_proc put_msg chans]. rewrite lookup_delete_ne by done. rewrite Er, Ear.
    rewrite lookup_insert. cbn [ch_buf ch_closed].
    replace (put_msg _ k _ None) with (del_proc c s); [done|].
    unfold put_msg, del_proc. cbn. f_equal. rewrite insert_insert. symmetry. by apply insert_id.
Qed.

Section NPAll.
Variable D : tenv.
Variable F : list fundef.
Variable teq : sty -> sty -> Prop.
Hypothesis Hteq : teq_laws D teq.
Hypothesis HF : funs_typed D F teq.
Hypothesis HFa : funs_aff F.
Hypothesis HFn : nofd_funs F.
Notation InvX := (InvX D F teq).
Notation Rest := (Rest).

(* drop in the non-polarized mode: the process goes on, nothing is reclaimed *)
Lemma invx_np_drop Δ c p n0 cl k0 nx :
  cfg_typed D F teq Δ c -> Topo c -> LinCfg c -> ProvsOk c -> DropUnref c -> NoFd c ->
  procs c !! p = Some (Proc [n0] (FDrop cl k0) nx) ->
  Rest (apply_effect c p (Proc [n0] (FDrop cl k0) nx) (no_eff (Continue (set_body (Proc [n0] (FDrop cl k0) nx) k0)))).
Proof.
  intros Hc Ht Hl Hpv Hd Hnf Hp.
  pose proof (lc_procs c Hl p _ Hp) as Hlinp. pose proof (Hnf p _ Hp) as Hnfp. pose proof (proj1 Hpv p _ Hp) as Hndp.
  cbn [pr_body0 pr_provs] in *. split.
  - unfold no_eff. rewrite apply_cont_effect. cbn [pr_provs pr_body0 set_body rev map app].
    apply (topo_cont c p (Proc [n0] (FDrop cl k0) nx)); try done. intros i Hi. cbn [pr_body0 form_chans]. set_solver.
  - apply (rest_of_effect D F teq Δ c c p _ _ (fun j => j ∈ form_chans (FDrop cl k0))); auto.
    + intros j Hj. exists (OProc p (Proc [n0] (FDrop cl k0) nx)). split; [exact Hp|exact Hj].
    + intros pp1 [= <-]. cbn. split; [simpl in Hlinp; tauto|]. split; [exact Hndp|]. split; [exact Hnfp|].
      intros j Hj. left. simpl. set_solver.
    + intros s0 [].
Qed.

Lemma invx_control Δ c f t c' :
  cfg_typed D F teq Δ c -> Topo c -> LinCfg c -> ProvsOk c -> DropUnref c -> NoFd c -> bufs_empty c ->
  step NP D F c (Control f t) = SStep c' -> Rest c'.
Proof.
  intros Hc Ht Hl Hpv Hd Hnf Hbe. cbn [step negb is_np orb].
  destruct (bool_decide (f = t)) eqn:Eft; [done|]. apply bool_decide_eq_false in Eft.
  destruct (procs c !! f) as [pf|] eqn:Hf; [|done]. destruct (procs c !! t) as [pt|] eqn:Hpt; [|done].
  destruct (action_of NP D pf) as [| |k m|k| |k provs|w] eqn:Ea; try done.
  destruct (self_chan pt) as [k'|] eqn:Esc; [|done].
  destruct (bool_decide (k = k')) eqn:Ek; [|done]. apply bool_decide_eq_true in Ek. subst k'.
  destruct (polls_control NP D pt); [|done]. cbn [andb]. intros [= <-].
  destruct (ctrl_inv D pf k provs Ea) as (to & from & d & Hbody & Hfrom & ->).
  destruct (ct_procs D F teq Δ c Hc f pf Hf) as (sf & rsf & _ & _ & Htyf). rewrite Hbody in Htyf.
  inversion Htyf as [| | | | | | | | | | |? ? ? ? to' from' d' Hto Hcl| | | | | | | |]; subst.
  destruct Hto as [Hto _].
  unfold self_chan, prov0 in Esc. destruct (pr_provs pt) as [|n0 rest] eqn:Hprovs; [discriminate|]. cbn in Esc.
  pose proof (proj1 Hpv t pt Hpt) as Hndt. pose proof (proj1 Hpv f pf Hf) as Hndf.
  assert (Hcl1 : cids_of (firstn 1 (n0 :: rest)) = [k]) by (cbn; by rewrite Esc).
  cbn [tl]. rewrite Hcl1.
  assert (Hkref : k ∈ refs (OProc f pf)).
  { cbn. rewrite Hbody. simpl. unfold name_chans at 2. rewrite Hfrom. set_solver. }
  assert (Hkprov : k ∈ cids_of (pr_provs pt)) by (rewrite Hprovs; cbn; rewrite Esc; set_solver).
  assert (Hnofdt : nofd (pr_body0 pt) = true).
  { pose proof (Hnf t pt Hpt) as H. unfold nofd_top in H. apply orb_true_iff in H as [Hdf|H]; [|done]. exfalso.
    destruct (Hd t pt Hpt Hdf) as [_ Hun]. exact (Hun k (OProc f pf) Hkprov Hf Hkref). }
  split.
  - rewrite apply_control_effect. cbn [procs chans out del_proc].
    eapply (topo_control c f t pf pt k to from d n0 rest); eauto.
  - apply (rest_of_effect D F teq Δ c (del_proc c f) t pt _ (fun j => j ∈ form_chans (pr_body0 pt))); auto.
    + intros [q v|k' m'] Ho; cbn in Ho |- *; [by apply lookup_delete_Some in Ho as [_ Ho]|exact Ho].
    + intros q v Hq. cbn in Hq. by apply lookup_delete_Some in Hq as [_ Hq].
    + intros j Hj. exists (OProc t pt). split; [exact Hpt|exact Hj].
    + intros pp1 [= <-]. cbn [pr_body0 pr_provs set_provs_body]. split; [exact (lc_procs c Hl t pt Hpt)|]. split.
      { unfold cids_of. rewrite flat_map_app. apply NoDup_app_intro'.
        - exact Hndf.
        - rewrite Hprovs in Hndt. cbn in Hndt. rewrite Esc in Hndt. cbn in Hndt. by inversion Hndt.
        - intros j Hj1 Hj2. apply Eft. assert (E : OProc f pf = OProc t pt); [|by injection E].
          eapply (topo_prov_unique c Ht _ _ j); eauto; cbn; [by apply elem_In|]. rewrite Hprovs. cbn. apply elem_of_app. right. by apply elem_In. }
      split; [exact Hnofdt|]. intros j Hj. by left.
    + intros s0 [].
Qed.

(* the invariant along the steps of the non-polarized mode *)
Theorem invx_step_np c ch c' :
  InvX c -> bufs_empty c -> step NP D F c ch = SStep c' -> InvX c' /\ bufs_empty c'.
Proof.
  intros HI Hbe Hs. split; [|eapply np_step_bufs_empty; eauto].
  pose proof HI as [[Δ Hc] Ht Hl Hns Hpv Hd Hnf].
  assert (Hcu : closed_unused D NP c) by (by apply topo_closed_unused_np).
  destruct (preservation_np D F teq Hteq HF Δ c ch c' Hc Hcu Hs) as (Δ' & _ & Hc').
  pose proof (ns_ok_step _ _ _ _ _ _ Hns Hs) as Hns'.
  assert (Hgoal : Rest c'); [|destruct Hgoal as (H1 & H2 & H3 & H4 & H5); split; eauto].
  clear Hc' Hns' Δ'.
  destruct ch as [p|s r|f t].
  - (* Run: DUP or an internal step *)
    cbn [step] in Hs. destruct (procs c !! p) as [pp|] eqn:Hp; [|done].
    destruct (action_of NP D pp) as [| |k m|k| |k pv|w] eqn:Ea; try done.
    + apply np_action_async in Ea; [|done]. destruct (dup_effect p pp) as [e|] eqn:He; [|done]. cbn [eff_step] in Hs. injection Hs as <-.
      eapply invx_dup; eauto.
    + apply np_action_async in Ea; [|done]. destruct (is_drop (pr_body0 pp)) eqn:Edr.
      * (* drop *)
        destruct (ct_procs D F teq Δ c Hc p pp Hp) as (s & rs & Hne & _ & _).
        assert (Hm : multi pp = false).
        { destruct (multi pp) eqn:E; [|done]. exfalso. unfold action_of in Ea. destruct (pr_body0 pp); try discriminate. simpl in Ea.
          destruct (is_self c0); [discriminate|]. unfold internal in Ea. rewrite E in Ea. discriminate. }
        destruct (single_provs pp Hne Hm) as [n0 Hn0]. destruct pp as [provs body nx]. cbn [pr_body0 pr_provs] in *. subst provs.
        destruct body; try discriminate. unfold internal_effect in Hs. cbn [pr_body0 is_np eff_step] in Hs. injection Hs as <-.
        eapply invx_np_drop; eauto.
      * rewrite (internal_np_nondrop F p pp Edr) in Hs. destruct (internal_effect Async F p pp) as [e|] eqn:He; [|done].
        cbn [eff_step] in Hs. injection Hs as <-. eapply invx_internal; eauto.
    + destruct (chans c !! k) as [st|]; [|done]. destruct (ch_closed st); [done|]. by destruct (ch_buf st).
    + destruct (chans c !! k) as [st|] eqn:Ek; [|done]. rewrite (Hbe _ _ Ek) in Hs.
      rewrite (Hcu p pp k st Hp (or_introl Ea) Ek) in Hs. done.
  - (* Rendezvous: an asynchronous send and its receipt *)
    destruct (np_rdv_async D F c s r c' Hbe Hs) as (c1 & H1 & H2).
    assert (HI1 : InvX c1) by (eapply (invx_step_async D F teq Hteq HF HFa HFn c); eauto).
    pose proof (invx_step_async D F teq Hteq HF HFa HFn c1 (Run r) c' HI1 H2) as HI2.
    destruct HI2 as [_ ? ? _ ? ? ?]. split; auto.
  - eapply invx_control; eauto.
Qed.

Lemma invx_reachable_np c0 c : InvX c0 -> bufs_empty c0 -> reachable D F NP c0 c -> InvX c /\ bufs_empty c.
Proof.
  intros HI Hb Hr. induction Hr as [|c1 ch c2 Hr IH Hs]; [done|]. destruct IH as [H1 H2]. eapply invx_step_np; eauto.
Qed.

Theorem topo_reachable_np c0 c : InvX c0 -> bufs_empty c0 -> reachable D F NP c0 c -> Topo c.
Proof. intros HI Hb Hr. destruct (invx_reachable_np c0 c HI Hb Hr) as [H _]. apply H. Qed.
End NPAll.
