(* RtTcSound.v — what the typechecker model returns is typed in the RUN-TIME judgement
   (spec/RtTyping.v), form by form: `tc_form D Sg g sh (Some A) f = TOk f'` implies
   `typed D F teq ∅ Γ sh' rs A f'` for every structural context Γ that covers the checker's linear
   context g.  The output f' is f with the annotations (nty) the interpreter reads; the declarative
   system of spec/Typing.v (C07) says nothing about them, so this goes through the algorithm once more,
   with the inversion tactics of proofs/TypingSound.v.
   Type agreement `teq` is a parameter; what is needed of it: it contains the answers of EqualType on
   good types (well-formed and syn_ok), is symmetric and transitive, and relates a good type to its
   unfolding. *)
From stdpp Require Import gmap strings.
Require Import Grits.Base Grits.ModeDefs Grits.Modes Grits.STypes Grits.Forms Grits.Subst Grits.Infer
               Grits.TcDeps Grits.Expand Grits.Tc Grits.TcTop Grits.EqualWF Grits.spec.SynOk Grits.spec.Typing
               Grits.proofs.TcLemmas Grits.proofs.TcUnfold Grits.proofs.TypingSound Grits.proofs.TeqMono
               Grits.Runtime Grits.spec.RtTyping Grits.proofs.RtSubst Grits.proofs.RtTcSyn.

(* ------------------------------------------------------------------ association lists *)
Lemma alookup_aremove_ne {V} k x (m : list (string * V)) : x <> k -> alookup x (aremove k m) = alookup x m.
Proof.
  intros Hne. induction m as [|[k' v] m IH]; simpl; auto.
  destruct (String.eqb k k') eqn:E1.
  - apply String.eqb_eq in E1. subst k'. rewrite IH. destruct (String.eqb x k) eqn:E2; auto.
    apply String.eqb_eq in E2. contradiction.
  - simpl. rewrite IH. reflexivity.
Qed.
Lemma alookup_aremove_eq {V} k (m : list (string * V)) : alookup k (aremove k m) = None.
Proof.
  induction m as [|[k' v] m IH]; simpl; auto.
  destruct (String.eqb k k') eqn:E1; auto. simpl. rewrite E1. auto.
Qed.
Lemma alookup_aremove_Some {V} k x (m : list (string * V)) v : alookup x (aremove k m) = Some v -> x <> k /\ alookup x m = Some v.
Proof.
  intros H. destruct (String.eqb x k) eqn:E.
  - apply String.eqb_eq in E. subst x. rewrite alookup_aremove_eq in H. discriminate.
  - apply String.eqb_neq in E. rewrite alookup_aremove_ne in H by auto. auto.
Qed.
Lemma alookup_aset {V} k x (v : V) m : alookup x (aset k v m) = if String.eqb x k then Some v else alookup x m.
Proof.
  unfold aset. simpl. destruct (String.eqb x k) eqn:E; auto.
  apply String.eqb_neq in E. apply alookup_aremove_ne; auto.
Qed.
Lemma alookup_nil_all {V} (m : list (string * V)) : m = [] -> forall x, alookup x m = None.
Proof. intros ->. reflexivity. Qed.

(* the two copies of head unfolding *)
Lemma whd_of_head D t h : Typing.head D t h -> whd D t h.
Proof. induction 1; [constructor; auto|econstructor; eauto]. Qed.

Definition shid (sh : option name) : option string := match sh with Some s => Some (ident s) | None => None end.

(* the names of a form without continuation, in the order free_names lists them *)
Definition leaf_names (f : form) : list name :=
  match f with
  | FSend a b c => [a; b; c]
  | FSel a _ c => [a; c]
  | FClose c => [c]
  | FFwd a b _ => [a; b]
  | FCall _ args _ => args
  | FCast a c => [a; c]
  | _ => []
  end.
Definition nonself (l : list name) : list name := filter (fun n => negb (is_self n)) l.

Section RtTc.
Variable teq : tenv -> sty -> sty -> Prop.
Variable D : tenv.
Variable Sg : sigma.
Variable F : list fundef.
Hypothesis HD : genv D.
Hypothesis Heq : forall s t, good D s -> good D t -> equal_type D s t = Ok true -> teq D s t.
Hypothesis Hrefl : forall t, teq D t t.
Hypothesis Hsym : forall s t, teq D s t -> teq D t s.
Hypothesis Htrans : forall s t u, teq D s t -> teq D t u -> teq D s u.
Hypothesis Hunf : forall t h, good D t -> Typing.head D t h -> teq D h t.
Hypothesis HSg : gsigma D Sg.
Hypothesis HSgw : wf_sigma D Sg.
(* the function table the interpreter uses agrees with the signatures the checker used *)
Hypothesis HF : forall fn sg, sig_lookup Sg fn = Some sg ->
  forall n, (n = length (fs_params sg) \/ n = S (length (fs_params sg))) ->
  exists fd tf h, get_function F fn n = Some fd /\ fn_params fd = fs_params sg /\
                  fn_type fd = Some tf /\ good D tf /\ fs_type sg = Some h /\ Typing.head D tf h.

Let HDw : wf_env D := proj1 HD.

Local Notation typed := (typed D F (teq D)).
Local Notation client_ty := (client_ty (teq D)).

(* Γ covers the linear context g, up to type agreement *)
Definition ctx_rel (g : ctx) (Γ : gmap string sty) : Prop :=
  forall x t, alookup x g = Some (Some t) -> exists t', Γ !! x = Some t' /\ teq D t' t.
Definition shadow_fresh (g : ctx) (sh : option name) : Prop :=
  forall s, sh = Some s -> alookup (ident s) g = None.

Lemma gctx_wf g : gctx D g -> wf_ctx D g.
Proof.
  unfold gctx, wf_ctx. intros H. eapply Forall_impl; [|exact H]. intros kv [s [E [W _]]]. exists s. auto.
Qed.

Lemma ctx_rel_without g Γ n : ctx_rel g Γ -> ctx_rel (without g n) Γ.
Proof. intros H x t L. unfold without in L. apply alookup_aremove_Some in L. destruct L. eauto. Qed.
Lemma ctx_rel_bind g Γ n t : ctx_rel g Γ -> ctx_rel (bind g n t) (<[ident n := t]> Γ).
Proof.
  intros H x t0 L. unfold bind in L. rewrite alookup_aset in L.
  destruct (String.eqb x (ident n)) eqn:E.
  - apply String.eqb_eq in E. subst x. injection L as <-. rewrite lookup_insert. eauto.
  - apply String.eqb_neq in E. rewrite lookup_insert_ne by auto. eauto.
Qed.
Lemma ctx_rel_delete g Γ c : ctx_rel g Γ -> alookup c g = None -> ctx_rel g (delete c Γ).
Proof.
  intros H Hc x t L. destruct (H x t L) as [t' [H1 H2]]. exists t'. split; auto.
  rewrite lookup_delete_ne; auto. intros <-. congruence.
Qed.

(* ------------------------------------------------------------------ names *)
Lemma has_without g a n t : has (without g a) n t -> has g n t /\ ident n <> ident a.
Proof. intros [S L]. unfold without in L. apply alookup_aremove_Some in L. destruct L. split; [split|]; auto. Qed.
Lemma has_ctx g n t : has g n t -> ctx_has g (ident n) = true.
Proof. intros [_ L]. unfold ctx_has. apply amem_true. eauto. Qed.

Lemma geq a b : good D a -> good D b -> equal_opt D (Some a) (Some b) = TOk true -> teq D a b.
Proof.
  intros Ga Gb Q. apply equal_opt_true in Q. destruct Q as [s [t [E1 [E2 Q]]]].
  inversion E1; inversion E2; subst. auto.
Qed.

(* a client occurrence, annotated by the checker with the unfolded type of the name *)
Lemma client_ok g Γ msh rs n t h T :
  gctx D g -> ctx_rel g Γ -> has g n t -> Typing.head D t h -> nm_ok rs n = true ->
  msh <> Some (ident n) -> teq D t T ->
  client_ty ∅ Γ msh (set_nty n (Some h)) T.
Proof.
  intros Gg HR Hn Hh Hok Hm HT. pose proof (gctx_has _ _ _ _ Gg Hn) as Gt.
  destruct Hn as [Hs L]. split; [exact Hs|]. split.
  - exists h. simpl. split; auto. split; [eapply head_nonname; eauto|]. eapply Htrans; [|exact HT]. apply Hunf; auto.
  - simpl. rewrite (nm_ok_chan _ _ Hok). split; auto.
    destruct (HR _ _ L) as [t' [H1 H2]]. exists t'. split; auto. eapply Htrans; eauto.
Qed.

Lemma client_ok' g Γ msh rs n t h T :
  ctx_rel g Γ -> has g n t -> is_name h = false -> teq D h T -> nm_ok rs n = true ->
  msh <> Some (ident n) -> teq D t T ->
  client_ty ∅ Γ msh (set_nty n (Some h)) T.
Proof.
  intros HR [Hs L] Hn Hh Hok Hm HT. split; [exact Hs|]. split.
  - exists h. simpl. auto.
  - simpl. rewrite (nm_ok_chan _ _ Hok). split; auto.
    destruct (HR _ _ L) as [t' [H1 H2]]. exists t'. split; auto. eapply Htrans; eauto.
Qed.

(* a provider designator *)
Lemma prov_ok msh rs n t :
  nm_ok rs n = true -> (is_self n = false -> msh = Some (ident n)) -> prov_name msh rs (set_nty n t).
Proof.
  intros Hok Hm. split; [exact (nm_ok_chan _ _ Hok)|]. simpl.
  destruct (is_self n) eqn:S; [left; split; auto; eapply nm_ok_self; eauto|right; split; auto].
Qed.

(* what a leaf form must be told about the names the checker treats as the provider *)
Record leaf_obl (g : ctx) (sh : option name) (msh : option string) (f : form) : Prop := {
  lo_prov : forall n, In n (leaf_names f) -> is_self n = false -> is_provider n sh = true ->
            ctx_has g (ident n) = false -> msh = Some (ident n);
  lo_client : forall n, In n (leaf_names f) -> is_self n = false -> ctx_has g (ident n) = true ->
              msh <> Some (ident n);
  lo_lin : (forall n, In n (leaf_names f) -> is_self n = false -> is_provider n sh = true ->
                      ctx_has g (ident n) = false) \/
           NoDup (map ident (nonself (leaf_names f)))
}.

Definition LeafAt (f : form) : Prop := forall g sh A f' Γ rs msh,
  gctx D g -> good D A -> tc_form D Sg g sh (Some A) f = TOk f' ->
  ctx_rel g Γ -> syn_form rs f = true -> leaf_obl g sh msh f ->
  typed ∅ Γ msh rs A f'.

(* everything in g has been consumed by the names removed: a key of g is one of them *)
Lemma consumed2 g a b k : without (without g a) b = [] -> ctx_has g k = true -> k = ident a \/ k = ident b.
Proof.
  intros E Hk. destruct (String.eqb k (ident a)) eqn:E1; [apply String.eqb_eq in E1; auto|].
  destruct (String.eqb k (ident b)) eqn:E2; [apply String.eqb_eq in E2; auto|].
  apply String.eqb_neq in E1. apply String.eqb_neq in E2. exfalso.
  unfold ctx_has in Hk. apply amem_true in Hk. destruct Hk as [v Hv].
  assert (alookup k (without (without g a) b) = Some v).
  { unfold without. rewrite !alookup_aremove_ne by auto. exact Hv. }
  rewrite E in H. discriminate.
Qed.
Lemma consumed1 g a k : without g a = [] -> ctx_has g k = true -> k = ident a.
Proof.
  intros E Hk. destruct (String.eqb k (ident a)) eqn:E1; [apply String.eqb_eq in E1; auto|].
  apply String.eqb_neq in E1. exfalso.
  unfold ctx_has in Hk. apply amem_true in Hk. destruct Hk as [v Hv].
  assert (alookup k (without g a) = Some v) by (unfold without; rewrite alookup_aremove_ne by auto; exact Hv).
  rewrite E in H. discriminate.
Qed.

Ltac syn_split H := simpl in H; repeat (apply andb_true_iff in H; let H2 := fresh "N" in destruct H as [H H2]).

(* a provider designator that is not `self` is not a key of the (fully consumed) context *)
Ltac nodup_contra Hnd :=
  unfold nonself in Hnd; simpl in Hnd;
  repeat match goal with Hs : is_self ?x = false |- _ => rewrite Hs in Hnd end; simpl in Hnd;
  repeat match goal with
         | Hn : NoDup (_ :: _) |- _ => apply NoDup_cons_iff in Hn; destruct Hn
         end; simpl in *; intuition congruence.

Lemma leaf_send to pay cont : LeafAt (FSend to pay cont).
Proof.
  intros g sh A f' Γ rs msh Gg GA H HR Hsyn Hob. pose proof (gctx_wf _ Gg) as Wg. pose proof (proj1 GA) as WA.
  cbn [tc_form] in H. syn_split Hsyn.
  destruct (is_provider to sh) eqn:Pto.
  - (* tensor R *)
    unf HDw H WA. as3 H as_tensor as_tensor_some.
    destruct (good_tensor _ _ _ _ (good_head _ HD _ _ Hh GA)) as [Gel Ger].
    cnso H Wg; [|cbn in H; destruct (consume_opt cont g0) as [fr g2]; destruct fr; cbn in H; try step H; discriminate H].
    unf HDw H Wt.
    cnso H Wg0; [|cbn in H; discriminate H].
    unf HDw H Wt0. cbn [Tc.guard tbind] in H.
    eqs H. eqs H. step H. step H. apply linear_gamma_ok in E0. injection H as <-.
    destruct (has_without _ _ _ _ Has0) as [Hasc Hnec].
    pose proof (gctx_has _ _ _ _ Gg Has) as Gt. pose proof (gctx_has _ _ _ _ Gg Hasc) as Gt0.
    pose proof (good_head _ HD _ _ Hh0 Gt) as Gh. pose proof (good_head _ HD _ _ Hh1 Gt0) as Gh0.
    pose proof (geq _ _ Gel Gh Q) as Q1. pose proof (geq _ _ Ger Gh0 Q0) as Q2.
    pose proof (proj1 Has) as Sp. pose proof (proj1 Hasc) as Sc.
    eapply T_SendP with (A := s) (B := s0) (m := m).
    + apply prov_ok; auto. intros Sf. apply (lo_prov _ _ _ _ Hob to); simpl; auto.
      destruct (lo_lin _ _ _ _ Hob) as [Hl|Hnd]; [apply Hl; simpl; auto|].
      destruct (ctx_has g (ident to)) eqn:Ec; auto. exfalso.
      destruct (consumed2 _ _ _ _ E0 Ec); nodup_contra Hnd.
    + apply whd_of_head. exact Hh.
    + apply (client_ok g Γ msh rs pay t h s Gg HR Has Hh0 N0).
      * apply (lo_client _ _ _ _ Hob pay); simpl; auto. eapply has_ctx; eauto.
      * eapply Htrans; [apply Hsym, Hunf; eauto|apply Hsym; exact Q1].
    + apply (client_ok g Γ msh rs cont t0 h0 s0 Gg HR Hasc Hh1 N).
      * apply (lo_client _ _ _ _ Hob cont); simpl; auto. eapply has_ctx; eauto.
      * eapply Htrans; [apply Hsym, Hunf; eauto|apply Hsym; exact Q2].
  - (* lolli L *)
    destruct (is_provider cont sh) eqn:Pc; [|discriminate H].
    cns H Wg. unf HDw H Wt. as3 H as_lolli as_lolli_some.
    pose proof (gctx_has _ _ _ _ Gg Has) as Gt.
    destruct (good_lolli _ _ _ _ (good_head _ HD _ _ Hh Gt)) as [Gel Ger].
    pose proof (proj1 Gel) as Wel. pose proof (proj1 Ger) as Wer.
    cnso H Wg0.
    2:{ rewrite (consume_maybe_self_opt_prov _ _ _ _ Pc) in H. unf HDw H Wel. unf HDw H Wer.
        cbn [unfold_opt tbind] in H. step H. cbn in H. discriminate H. }
    rewrite (consume_maybe_self_opt_prov _ _ _ _ Pc) in H.
    unf HDw H Wel. unf HDw H Wer. unf HDw H Wt0. unf HDw H WA. cbn [Tc.guard tbind] in H.
    eqs H. eqs H. step H. step H. apply linear_gamma_ok in E0. injection H as <-.
    destruct (has_without _ _ _ _ Has0) as [Hasp Hnep].
    pose proof (gctx_has _ _ _ _ Gg Hasp) as Gt0.
    pose proof (good_head _ HD _ _ Hh0 Gel) as Gh. pose proof (good_head _ HD _ _ Hh1 Ger) as Gh0.
    pose proof (good_head _ HD _ _ Hh2 Gt0) as Gh1. pose proof (good_head _ HD _ _ Hh3 GA) as Gh2.
    pose proof (geq _ _ Gh Gh1 Q) as Q1. pose proof (geq _ _ Gh0 Gh2 Q0) as Q2.
    pose proof (proj1 Has) as St. pose proof (proj1 Hasp) as Sp.
    eapply T_SendC with (T := t) (A := s) (B := s0) (m := m).
    + apply (client_ok g Γ msh rs to t _ t Gg HR Has Hh Hsyn); [|apply Hrefl].
      apply (lo_client _ _ _ _ Hob to); simpl; auto. eapply has_ctx; eauto.
    + apply whd_of_head. exact Hh.
    + apply (client_ok g Γ msh rs pay t0 h1 s Gg HR Hasp Hh2 N0).
      * apply (lo_client _ _ _ _ Hob pay); simpl; auto. eapply has_ctx; eauto.
      * eapply Htrans; [apply Hsym, Hunf; eauto|]. eapply Htrans; [apply Hsym; exact Q1|]. apply Hunf; auto.
    + apply prov_ok; auto. intros Sf. apply (lo_prov _ _ _ _ Hob cont); simpl; auto.
      destruct (lo_lin _ _ _ _ Hob) as [Hl|Hnd]; [apply Hl; simpl; auto|].
      destruct (ctx_has g (ident cont)) eqn:Ec; auto. exfalso.
      destruct (consumed2 _ _ _ _ E0 Ec); nodup_contra Hnd.
    + eapply Htrans; [apply Hsym, Hunf; eauto|]. eapply Htrans; [exact Q2|]. apply Hunf; auto.
Qed.

Lemma leaf_sel to l cont : LeafAt (FSel to l cont).
Proof.
  intros g sh A f' Γ rs msh Gg GA H HR Hsyn Hob. pose proof (gctx_wf _ Gg) as Wg. pose proof (proj1 GA) as WA.
  cbn [tc_form] in H. syn_split Hsyn.
  destruct (is_provider to sh) eqn:Pto.
  - (* plus R *)
    unf HDw H WA. as2 H as_plus as_plus_some.
    destruct (find_br l b) as [ct|] eqn:Fb; [|discriminate H].
    pose proof (good_plus _ _ _ _ _ (good_head _ HD _ _ Hh GA) Fb) as Gct. pose proof (proj1 Gct) as Wct.
    cns H Wg. eqs H. unf HDw H Wct. step H. step H. apply linear_gamma_ok in E0. injection H as <-.
    pose proof (gctx_has _ _ _ _ Gg Has) as Gt. pose proof (proj1 Has) as Sc.
    pose proof (geq _ _ Gct Gt Q) as Q1.
    eapply T_SelP with (bs := b) (A := ct).
    + apply prov_ok; auto. intros Sf. apply (lo_prov _ _ _ _ Hob to); simpl; auto.
      destruct (lo_lin _ _ _ _ Hob) as [Hl|Hnd]; [apply Hl; simpl; auto|].
      destruct (ctx_has g (ident to)) eqn:Ec; auto. exfalso.
      pose proof (consumed1 _ _ _ E0 Ec). nodup_contra Hnd.
    + apply whd_of_head. exact Hh.
    + exact Fb.
    + apply (client_ok' g Γ msh rs cont t h ct HR Has (head_nonname _ _ _ Hh0) (Hunf _ _ Gct Hh0) N).
      * apply (lo_client _ _ _ _ Hob cont); simpl; auto. eapply has_ctx; eauto.
      * apply Hsym. exact Q1.
  - (* with L *)
    destruct (is_provider cont sh) eqn:Pc; [|discriminate H].
    cns H Wg. unf HDw H Wt. as2 H as_with as_with_some.
    destruct (find_br l b) as [ct|] eqn:Fb; [|discriminate H].
    pose proof (gctx_has _ _ _ _ Gg Has) as Gt.
    pose proof (good_with _ _ _ _ _ (good_head _ HD _ _ Hh Gt) Fb) as Gct. pose proof (proj1 Gct) as Wct.
    rewrite (consume_maybe_self_prov _ _ _ _ Pc) in H. cbn [tbind] in H.
    eqs H. unf HDw H Wct. step H. step H. apply linear_gamma_ok in E0. injection H as <-.
    pose proof (geq _ _ Gct GA Q) as Q1. pose proof (proj1 Has) as St.
    eapply T_SelC with (T := t) (bs := b) (A := ct).
    + apply (client_ok g Γ msh rs to t _ t Gg HR Has Hh Hsyn); [|apply Hrefl].
      apply (lo_client _ _ _ _ Hob to); simpl; auto. eapply has_ctx; eauto.
    + apply whd_of_head. exact Hh.
    + exact Fb.
    + apply prov_ok; auto. intros Sf. apply (lo_prov _ _ _ _ Hob cont); simpl; auto.
      destruct (lo_lin _ _ _ _ Hob) as [Hl|Hnd]; [apply Hl; simpl; auto|].
      destruct (ctx_has g (ident cont)) eqn:Ec; auto. exfalso.
      pose proof (consumed1 _ _ _ E0 Ec). nodup_contra Hnd.
    + exact Q1.
Qed.

Lemma leaf_close c : LeafAt (FClose c).
Proof.
  intros g sh A f' Γ rs msh Gg GA H HR Hsyn Hob. pose proof (gctx_wf _ Gg) as Wg. pose proof (proj1 GA) as WA.
  cbn [tc_form] in H. simpl in Hsyn.
  unf HDw H WA.
  destruct (is_provider c sh) eqn:Pc.
  - destruct (is_unit (Some h)) eqn:Un; [|now apply type_mismatch_not_ok in H].
    apply is_unit_some in Un. destruct Un as [m Un]. inversion Un; subst h.
    step H. step H. apply linear_gamma_ok in E0. subst g. injection H as <-.
    eapply T_Close with (m := m); [|apply whd_of_head; exact Hh].
    apply prov_ok; auto. intros Sf. apply (lo_prov _ _ _ _ Hob c); simpl; auto.
  - destruct (is_unit (Some h)); [discriminate H|now apply type_mismatch_not_ok in H].
Qed.

Lemma leaf_fwd to from d : LeafAt (FFwd to from d).
Proof.
  intros g sh A f' Γ rs msh Gg GA H HR Hsyn Hob. pose proof (gctx_wf _ Gg) as Wg. pose proof (proj1 GA) as WA.
  cbn [tc_form] in H. syn_split Hsyn.
  destruct (is_provider from sh) eqn:Pf; [discriminate H|].
  destruct (is_provider to sh) eqn:Pt; [|discriminate H]. cbn [negb] in H.
  cnso H Wg; [|cbn in H; discriminate H].
  unf HDw H Wt. cbn [Tc.guard tbind] in H.
  eqs H. unf HDw H WA. cbn [need tbind] in H.
  step H. step H. step H. apply pol_eqb_eq in G. subst.
  step H. step H. apply linear_gamma_ok in E2. injection H as <-.
  pose proof (gctx_has _ _ _ _ Gg Has) as Gt. pose proof (good_head _ HD _ _ Hh Gt) as Gh.
  pose proof (geq _ _ GA Gh Q) as Q1. pose proof (proj1 Has) as Sf.
  eapply T_Fwd.
  - apply prov_ok; auto. intros St. apply (lo_prov _ _ _ _ Hob to); simpl; auto.
    destruct (lo_lin _ _ _ _ Hob) as [Hl|Hnd]; [apply Hl; simpl; auto|].
    destruct (ctx_has g (ident to)) eqn:Ec; auto. exfalso.
    pose proof (consumed1 _ _ _ E2 Ec). nodup_contra Hnd.
  - apply (client_ok g Γ msh rs from t h A Gg HR Has Hh N).
    + apply (lo_client _ _ _ _ Hob from); simpl; auto. eapply has_ctx; eauto.
    + eapply Htrans; [apply Hsym, Hunf; eauto|apply Hsym; exact Q1].
Qed.

Lemma leaf_cast to cont : LeafAt (FCast to cont).
Proof.
  intros g sh A f' Γ rs msh Gg GA H HR Hsyn Hob. pose proof (gctx_wf _ Gg) as Wg. pose proof (proj1 GA) as WA.
  cbn [tc_form] in H. syn_split Hsyn.
  destruct (is_provider to sh) eqn:Pto.
  - (* down R *)
    unf HDw H WA. as3 H as_down as_down_some.
    pose proof (good_down _ _ _ _ (good_head _ HD _ _ Hh GA)) as Ga. pose proof (proj1 Ga) as Wa.
    step H. step H. subst. apply down_o_true in E.
    unf HDw H Wa.
    cnso H Wg; [|cbn in H; discriminate H].
    unf HDw H Wt. cbn [Tc.guard need tbind] in H.
    step H. eqs H. step H. step H. apply linear_gamma_ok in E1. injection H as <-.
    pose proof (gctx_has _ _ _ _ Gg Has) as Gt.
    pose proof (good_head _ HD _ _ Hh0 Ga) as Gh0. pose proof (good_head _ HD _ _ Hh1 Gt) as Gh1.
    pose proof (geq _ _ Gh0 Gh1 Q) as Q1. pose proof (proj1 Has) as Sc.
    eapply T_CastP with (A := s).
    + apply prov_ok; auto. intros Sf. apply (lo_prov _ _ _ _ Hob to); simpl; auto.
      destruct (lo_lin _ _ _ _ Hob) as [Hl|Hnd]; [apply Hl; simpl; auto|].
      destruct (ctx_has g (ident to)) eqn:Ec; auto. exfalso.
      pose proof (consumed1 _ _ _ E1 Ec). nodup_contra Hnd.
    + apply whd_of_head. exact Hh.
    + apply (client_ok g Γ msh rs cont t h0 s Gg HR Has Hh1 N).
      * apply (lo_client _ _ _ _ Hob cont); simpl; auto. eapply has_ctx; eauto.
      * eapply Htrans; [apply Hsym, Hunf; eauto|]. eapply Htrans; [apply Hsym; exact Q1|]. apply Hunf; auto.
  - (* up L *)
    destruct (is_provider cont sh) eqn:Pc; [|discriminate H].
    cns H Wg. unf HDw H Wt. as3 H as_up as_up_some.
    pose proof (gctx_has _ _ _ _ Gg Has) as Gt.
    pose proof (good_up _ _ _ _ (good_head _ HD _ _ Hh Gt)) as Ga. pose proof (proj1 Ga) as Wa.
    step H. step H. subst. apply up_o_true in E.
    rewrite (consume_maybe_self_opt_prov _ _ _ _ Pc) in H.
    unf HDw H Wa. unf HDw H WA. cbn [Tc.guard need tbind] in H.
    step H. eqs H. step H. step H. apply linear_gamma_ok in E1. injection H as <-.
    pose proof (good_head _ HD _ _ Hh0 Ga) as Gh0. pose proof (good_head _ HD _ _ Hh1 GA) as Gh1.
    pose proof (geq _ _ Gh0 Gh1 Q) as Q1. pose proof (proj1 Has) as St.
    eapply T_CastC with (T := t) (A := s).
    + apply (client_ok g Γ msh rs to t _ t Gg HR Has Hh Hsyn); [|apply Hrefl].
      apply (lo_client _ _ _ _ Hob to); simpl; auto. eapply has_ctx; eauto.
    + apply whd_of_head. exact Hh.
    + apply prov_ok; auto. intros Sf. apply (lo_prov _ _ _ _ Hob cont); simpl; auto.
      destruct (lo_lin _ _ _ _ Hob) as [Hl|Hnd]; [apply Hl; simpl; auto|].
      destruct (ctx_has g (ident cont)) eqn:Ec; auto. exfalso.
      pose proof (consumed1 _ _ _ E1 Ec). nodup_contra Hnd.
    + eapply Htrans; [apply Hsym, Hunf; eauto|]. eapply Htrans; [exact Q1|]. apply Hunf; auto.
Qed.

(* ------------------------------------------------------------------ call *)
Lemma ctx_has_without g a k : ctx_has (without g a) k = true -> ctx_has g k = true.
Proof.
  unfold ctx_has. rewrite !amem_true. intros [v Hv]. unfold without in Hv.
  apply alookup_aremove_Some in Hv. destruct Hv. eauto.
Qed.

Lemma rt_args Γ msh rs : forall args params g args' g',
  gctx D g -> Forall (fun p => forall tp, nty p = Some tp -> good D tp) params ->
  Forall (typed_name_ok D) params -> length args = length params ->
  tc_args D g args params = TOk (args', g') ->
  ctx_rel g Γ -> forallb (nm_ok rs) args = true ->
  (forall a, In a args -> is_self a = false -> ctx_has g (ident a) = true -> msh <> Some (ident a)) ->
  args_ok (teq D) ∅ Γ msh args' params /\ length args' = length args /\
  (forall k, ctx_has g k = true -> ctx_has g' k = true \/ exists a, In a args /\ is_self a = false /\ k = ident a).
Proof.
  induction args as [|a ar IH]; intros [|p pr] g args' g' Gg Gp Wp L H HR Hok Hm; try discriminate L.
  - cbn in H. inversion H; subst. split; [constructor|]. split; auto.
  - cbn [tc_args] in H. pose proof (gctx_wf _ Gg) as Wg.
    inversion Wp as [|p0 pr0 [tp [Np Wtp]] Wpr]; subst. inversion Gp as [|p1 pr1 Gtp Gpr]; subst.
    simpl in Hok. apply andb_true_iff in Hok. destruct Hok as [Hoka Hokr].
    cns H Wg. rewrite Np in H. eqs H. unf HDw H Wt. step H.
    step H. destruct a0 as [ar' g2]. inversion H; subst.
    pose proof (gctx_has _ _ _ _ Gg Has) as Gt. pose proof (Gtp _ Np) as Gtp'.
    pose proof (geq _ _ Gt Gtp' Q) as Q1.
    destruct (IH pr (without g a) ar' g' (gctx_without _ _ _ Gg) Gpr Wpr) as [IH1 [IH2 IH3]]; auto.
    { apply ctx_rel_without; auto. }
    { intros a' Ha' Sa' Hc'. apply Hm; auto. right; auto. eapply ctx_has_without; eauto. }
    split; [|split].
    + constructor; auto. exists tp. split; auto.
      apply (client_ok g Γ msh rs a t h tp Gg HR Has Hh Hoka); auto.
      apply Hm; [left; auto|apply Has|eapply has_ctx; eauto].
    + simpl. rewrite IH2. reflexivity.
    + intros k Hk. destruct (String.eqb k (ident a)) eqn:Ek.
      * apply String.eqb_eq in Ek. right. exists a. split; [left; auto|]. split; [apply Has|auto].
      * apply String.eqb_neq in Ek.
        assert (Hk' : ctx_has (without g a) k = true).
        { unfold ctx_has in *. rewrite amem_true in *. destruct Hk as [v Hv]. exists v.
          unfold without. rewrite alookup_aremove_ne; auto. }
        destruct (IH3 k Hk') as [H1|[a' [H1 [H2 H3]]]]; [left; auto|].
        right. exists a'. split; [right; auto|auto].
Qed.

Lemma leaf_call fn args o : LeafAt (FCall fn args o).
Proof.
  intros g sh A f' Γ rs msh Gg GA H HR Hsyn Hob. pose proof (gctx_wf _ Gg) as Wg. pose proof (proj1 GA) as WA.
  cbn [tc_form] in H. simpl in Hsyn.
  destruct (sig_lookup Sg fn) as [sg|] eqn:SL; [|discriminate H].
  destruct (HSgw _ _ SL) as [[ft [Eft Wft]] Wps]. rewrite Eft in H.
  destruct (HSg _ _ SL) as [Gft Gps].
  destruct (S (length (fs_params sg)) =? length args)%nat eqn:N1.
  - apply Nat.eqb_eq in N1. destruct args as [|a0 rest]; [discriminate H|].
    step H. rewrite is_provider_sym in G.
    eqs H. step H. destruct a as [rest' g1]. step H. apply linear_gamma_ok in E0. subst g1. injection H as <-.
    assert (L : length rest = length (fs_params sg)) by (cbn in N1; lia).
    simpl in Hsyn. apply andb_true_iff in Hsyn. destruct Hsyn as [Hok0 Hokr].
    destruct (HF _ _ SL (S (length (fs_params sg))) (or_intror eq_refl)) as [fd [tf [h [Hgf [Hps [Htf [Gtf [Efs Hhf]]]]]]]].
    rewrite Eft in Efs. injection Efs as ->.
    pose proof (geq _ _ GA (Gft _ Eft) Q) as Q1.
    destruct (rt_args Γ msh rs rest (fs_params sg) g rest' [] Gg Gps Wps L E HR Hokr) as [Ha [Hl Hk]].
    { intros a Ha Sa Hc. apply (lo_client _ _ _ _ Hob a); simpl; auto. }
    eapply T_Call with (fd := fd) (tf := tf).
    + simpl. rewrite Hl, L. exact Hgf.
    + exact Htf.
    + apply Hsym. eapply Htrans; [exact Q1|]. apply Hunf; auto.
    + right. exists a0, rest'. split; auto. split; [rewrite Hps; lia|]. split; [|rewrite Hps; exact Ha].
      rewrite <- (set_nty_id a0) || idtac.
      destruct (prov_ok msh rs a0 (nty a0) Hok0) as [Hp1 Hp2].
      { intros Sf. apply (lo_prov _ _ _ _ Hob a0); simpl; auto.
        destruct (lo_lin _ _ _ _ Hob) as [Hl'|Hnd]; [apply Hl'; simpl; auto|].
        destruct (ctx_has g (ident a0)) eqn:Ec; auto. exfalso.
        destruct (Hk _ Ec) as [Hx|[a [Hin [Sa Hid]]]]; [discriminate Hx|].
        clear -Hnd Sf Hin Sa Hid. simpl in Hnd. unfold nonself in Hnd. simpl in Hnd. rewrite Sf in Hnd. simpl in Hnd.
        apply NoDup_cons_iff in Hnd. destruct Hnd as [Hn _]. apply Hn. rewrite Hid.
        apply in_map. apply filter_In. split; auto. rewrite Sa. reflexivity. }
      split; auto.
  - destruct (length (fs_params sg) =? length args)%nat eqn:N2; [|discriminate H].
    apply Nat.eqb_eq in N2. symmetry in N2.
    eqs H. step H. destruct a as [args' g1]. step H. apply linear_gamma_ok in E0. subst g1. injection H as <-.
    destruct (HF _ _ SL (length (fs_params sg)) (or_introl eq_refl)) as [fd [tf [h [Hgf [Hps [Htf [Gtf [Efs Hhf]]]]]]]].
    rewrite Eft in Efs. injection Efs as ->.
    pose proof (geq _ _ GA (Gft _ Eft) Q) as Q1.
    destruct (rt_args Γ msh rs args (fs_params sg) g args' [] Gg Gps Wps N2 E HR Hsyn) as [Ha [Hl Hk]].
    { intros a Ha Sa Hc. apply (lo_client _ _ _ _ Hob a); simpl; auto. }
    eapply T_Call with (fd := fd) (tf := tf).
    + rewrite Hl, N2. exact Hgf.
    + exact Htf.
    + apply Hsym. eapply Htrans; [exact Q1|]. apply Hunf; auto.
    + left. split; [rewrite Hps; lia|rewrite Hps; exact Ha].
Qed.

(* ------------------------------------------------------------------ cut *)
Lemma leaf_all body : has_continuation body = false -> LeafAt body.
Proof.
  destruct body; simpl; intros Hc; try discriminate Hc;
    [apply leaf_send|apply leaf_sel|apply leaf_close|apply leaf_fwd|apply leaf_call|apply leaf_cast].
Qed.

Lemma fold_append args : forall acc,
  fold_left (fun acc n => append_if_not_self n acc) args acc = acc ++ nonself args.
Proof.
  induction args as [|a r IH]; intros acc; simpl; [rewrite app_nil_r; auto|].
  rewrite IH. unfold append_if_not_self, nonself. simpl. destruct (is_self a); simpl; auto.
  rewrite <- app_assoc. reflexivity.
Qed.
Lemma free_names_leaf f : has_continuation f = false -> free_names f = nonself (leaf_names f).
Proof.
  destruct f; simpl; intros Hc; try discriminate Hc; unfold append_if_not_self, nonself; simpl;
    repeat match goal with |- context [is_self ?n] => destruct (is_self n) end; simpl; auto.
  rewrite fold_append. reflexivity.
Qed.
Lemma nonself_idem l : nonself (nonself l) = nonself l.
Proof.
  unfold nonself. induction l as [|a l IH]; simpl; auto. destruct (is_self a) eqn:E; simpl; auto.
  rewrite E. simpl. rewrite IH. reflexivity.
Qed.
Lemma in_nonself n l : In n l -> is_self n = false -> In n (nonself l).
Proof. intros Hin Sf. apply filter_In. split; auto. rewrite Sf. reflexivity. Qed.

Lemma split_ctx_facts g ns acc gl gr : split_ctx D g ns acc gl gr -> gctx D g ->
  (forall Γ, ctx_rel g Γ -> ctx_rel acc Γ -> ctx_rel gl Γ) /\
  (forall k v, alookup k gr = Some v -> alookup k g = Some v) /\
  NoDup (map ident (nonself ns)) /\
  (forall n, In n (nonself ns) -> ctx_has g (ident n) = true /\ ctx_has gl (ident n) = true) /\
  (forall k, ctx_has acc k = true -> ctx_has gl k = true).
Proof.
  induction 1 as [g acc|g n r acc gl gr Sf SP IH|g n r acc gl gr t h Hn Hh SP IH]; intros Gg.
  - split; [auto|]. split; [auto|]. split; [constructor|]. split; [intros n []|auto].
  - assert (E : nonself (n :: r) = nonself r) by (unfold nonself; simpl; rewrite Sf; reflexivity).
    rewrite E. apply IH; auto.
  - pose proof (proj1 Hn) as Sf.
    assert (E : nonself (n :: r) = n :: nonself r) by (unfold nonself; simpl; rewrite Sf; reflexivity).
    rewrite E. destruct (IH (gctx_without _ _ _ Gg)) as [I1 [I2 [I3 [I4 I5]]]].
    pose proof (gctx_has _ _ _ _ Gg Hn) as Gt.
    assert (Hacc : ctx_has gl (ident n) = true).
    { apply I5. unfold ctx_has, bind. apply amem_true. rewrite alookup_aset, String.eqb_refl. eauto. }
    split; [|split; [|split; [|split]]].
    + intros Γ HR HA. apply I1; [apply ctx_rel_without; auto|].
      intros y t0 L. unfold bind in L. rewrite alookup_aset in L.
      destruct (String.eqb y (ident n)) eqn:Ey; [|eauto].
      apply String.eqb_eq in Ey. subst y. injection L as <-.
      destruct (HR _ _ (proj2 Hn)) as [t' [H1 H2]]. exists t'. split; auto.
      eapply Htrans; [exact H2|]. apply Hsym, Hunf; auto.
    + intros k v L. apply I2 in L. unfold without in L. apply alookup_aremove_Some in L. tauto.
    + simpl. constructor; auto. intros Hin. apply in_map_iff in Hin. destruct Hin as [n' [Hid Hn']].
      destruct (I4 _ Hn') as [Hc _]. unfold ctx_has, without in Hc. apply amem_true in Hc. destruct Hc as [v Hv].
      rewrite Hid, alookup_aremove_eq in Hv. discriminate.
    + intros n' [<-|Hin]; [split; auto; eapply has_ctx; eauto|].
      destruct (I4 _ Hin) as [Hc Hl]. split; auto. eapply ctx_has_without; eauto.
    + intros k Hk. apply I5. unfold ctx_has, bind in *. apply amem_true. rewrite alookup_aset.
      destruct (String.eqb k (ident n)); eauto. apply amem_true in Hk. exact Hk.
Qed.

Lemma ctx_rel_sub g g' Γ : (forall k v, alookup k g' = Some v -> alookup k g = Some v) -> ctx_rel g Γ -> ctx_rel g' Γ.
Proof. intros Hs HR x t L. apply HR. apply Hs. exact L. Qed.
Lemma ctx_rel_nil Γ : ctx_rel [] Γ.
Proof. intros x t L. discriminate L. Qed.

(* ------------------------------------------------------------------ a context entry the body cannot name makes the checker fail
   (linearity without weakening: every leaf demands an empty context; a binder of the same identifier is
   refused while the entry is there).  Used to DERIVE from acceptance that binders of context channels
   and parameters are not the keyword self, and that the explicit provider is not a parameter. *)
Lemma has_nu g n t z : has g n t -> nu z n = true -> ident n <> z.
Proof.
  intros [Sf _] H. unfold nu in H. rewrite Sf in H. simpl in H. apply negb_true_iff in H. apply String.eqb_neq. exact H.
Qed.
Lemma keep_without g n z : ident n <> z -> ctx_has g z = true -> ctx_has (without g n) z = true.
Proof.
  intros Hne Hz. unfold ctx_has, without in *. apply amem_true in Hz. destruct Hz as [v Hv]. apply amem_true.
  exists v. rewrite alookup_aremove_ne; auto.
Qed.
Lemma keep_aset g k (v : option sty) z : ctx_has g z = true -> ctx_has (aset k v g) z = true.
Proof.
  intros Hz. unfold ctx_has in *. apply amem_true in Hz. destruct Hz as [w Hw]. apply amem_true.
  rewrite alookup_aset. destruct (String.eqb z k); eauto.
Qed.
Lemma nil_no_key (g : ctx) z : g = [] -> ctx_has g z = true -> False.
Proof. intros ->. discriminate. Qed.
Lemma fresh_ne g x z : ctx_has g x = false -> ctx_has g z = true -> String.eqb x z = false.
Proof. intros H1 H2. destruct (String.eqb x z) eqn:E; auto. apply String.eqb_eq in E. subst. congruence. Qed.

Definition StuckAt (z : string) (f : form) : Prop := forall g sh A f' rs,
  gctx D g -> good D A -> ctx_has g z = true -> nouse z f = true -> syn_form rs f = true -> form_syn f = true ->
  tc_form D Sg g sh (Some A) f = TOk f' -> False.
Definition StuckBrs (z : string) (b : branches) : Prop :=
  (forall g bs seen b' seen' rs, gctx D g -> gbrs D bs -> ctx_has g z = true -> nouse_brs z b = true ->
     syn_brs rs b = true -> branches_syn b = true -> b <> BrNil ->
     tc_branches_provider D Sg g bs seen b = TOk (b', seen') -> False) /\
  (forall g sh A bs seen b' seen' rs, gctx D g -> good D A -> gbrs D bs -> ctx_has g z = true -> nouse_brs z b = true ->
     syn_brs rs b = true -> branches_syn b = true -> b <> BrNil ->
     tc_branches_client D Sg g sh (Some A) bs seen b = TOk (b', seen') -> False).

Ltac nou_split H := simpl in H; repeat (apply andb_true_iff in H; let H2 := fresh "U" in destruct H as [H H2]).

Lemma stuck_args z : forall args params g args' g', gctx D g -> Forall (typed_name_ok D) params ->
  ctx_has g z = true -> forallb (nu z) args = true ->
  tc_args D g args params = TOk (args', g') -> ctx_has g' z = true.
Proof.
  induction args as [|a ar IH]; intros [|p pr] g args' g' Gg Wp Hz Hn H; cbn [tc_args] in H; try discriminate H.
  - inversion H; subst; auto.
  - inversion H; subst; auto.
  - pose proof (gctx_wf _ Gg) as Wg. simpl in Hn. apply andb_true_iff in Hn. destruct Hn as [Hna Hnr].
    inversion Wp as [|p0 pr0 [tp [Np Wtp]] Wpr]; subst.
    cns H Wg. rewrite Np in H. eqs H. unf HDw H Wt. step H. step H. destruct a0 as [ar' g2]. inversion H; subst.
    eapply (IH pr (without g a)); eauto.
    + apply gctx_without; auto.
    + apply keep_without; auto. eapply has_nu; eauto.
Qed.

Lemma stuck_leaf z f : has_continuation f = false -> StuckAt z f.
Proof.
  intros Hc g sh A f' rs0 Gg GA Hz Hn _ _ H. pose proof (gctx_wf _ Gg) as Wg. pose proof (proj1 GA) as WA.
  destruct f as [to pay cont|? ? ? ?|to l cont|? ?|? ? ?|c|? ?|to from d|? ? ? ?|fn args o|to cont|? ? ?|? ?|? ?];
    try discriminate Hc; cbn [tc_form] in H; nou_split Hn.
  - (* send *)
    destruct (is_provider to sh) eqn:Pto.
    + unf HDw H WA. as3 H as_tensor as_tensor_some.
      cnso H Wg; [|cbn in H; destruct (consume_opt cont g0) as [fr g2]; destruct fr; cbn in H; try step H; discriminate H].
      unf HDw H Wt. cnso H Wg0; [|cbn in H; discriminate H].
      unf HDw H Wt0. cbn [Tc.guard tbind] in H. eqs H. eqs H. step H. step H. apply linear_gamma_ok in E0.
      destruct (has_without _ _ _ _ Has0) as [Hasc _].
      eapply nil_no_key; [exact E0|]. apply keep_without; [eapply has_nu; eauto|]. apply keep_without; [eapply has_nu; eauto|auto].
    + destruct (is_provider cont sh) eqn:Pc; [|discriminate H].
      cns H Wg. unf HDw H Wt. as3 H as_lolli as_lolli_some.
      pose proof (gctx_has _ _ _ _ Gg Has) as Gt.
      destruct (good_lolli _ _ _ _ (good_head _ HD _ _ Hh Gt)) as [Gel Ger].
      pose proof (proj1 Gel) as Wel. pose proof (proj1 Ger) as Wer.
      cnso H Wg0.
      2:{ rewrite (consume_maybe_self_opt_prov _ _ _ _ Pc) in H. unf HDw H Wel. unf HDw H Wer.
          cbn [unfold_opt tbind] in H. step H. cbn in H. discriminate H. }
      rewrite (consume_maybe_self_opt_prov _ _ _ _ Pc) in H.
      unf HDw H Wel. unf HDw H Wer. unf HDw H Wt0. unf HDw H WA. cbn [Tc.guard tbind] in H.
      eqs H. eqs H. step H. step H. apply linear_gamma_ok in E0.
      destruct (has_without _ _ _ _ Has0) as [Hasp _].
      eapply nil_no_key; [exact E0|]. apply keep_without; [eapply has_nu; eauto|]. apply keep_without; [eapply has_nu; eauto|auto].
  - (* sel *)
    destruct (is_provider to sh) eqn:Pto.
    + unf HDw H WA. as2 H as_plus as_plus_some.
      destruct (find_br l b) as [ct|] eqn:Fb; [|discriminate H].
      pose proof (good_plus _ _ _ _ _ (good_head _ HD _ _ Hh GA) Fb) as Gct. pose proof (proj1 Gct) as Wct.
      cns H Wg. eqs H. unf HDw H Wct. step H. step H. apply linear_gamma_ok in E0.
      eapply nil_no_key; [exact E0|]. apply keep_without; [eapply has_nu; eauto|auto].
    + destruct (is_provider cont sh) eqn:Pc; [|discriminate H].
      cns H Wg. unf HDw H Wt. as2 H as_with as_with_some.
      destruct (find_br l b) as [ct|] eqn:Fb; [|discriminate H].
      pose proof (gctx_has _ _ _ _ Gg Has) as Gt.
      pose proof (good_with _ _ _ _ _ (good_head _ HD _ _ Hh Gt) Fb) as Gct. pose proof (proj1 Gct) as Wct.
      rewrite (consume_maybe_self_prov _ _ _ _ Pc) in H. cbn [tbind] in H.
      eqs H. unf HDw H Wct. step H. step H. apply linear_gamma_ok in E0.
      eapply nil_no_key; [exact E0|]. apply keep_without; [eapply has_nu; eauto|auto].
  - (* close *)
    unf HDw H WA. destruct (is_provider c sh) eqn:Pc.
    + destruct (is_unit (Some h)) eqn:Un; [|now apply type_mismatch_not_ok in H].
      step H. step H. apply linear_gamma_ok in E0. eapply nil_no_key; eauto.
    + destruct (is_unit (Some h)); [discriminate H|now apply type_mismatch_not_ok in H].
  - (* fwd *)
    destruct (is_provider from sh) eqn:Pf; [discriminate H|].
    destruct (is_provider to sh) eqn:Pt; [|discriminate H]. cbn [negb] in H.
    cnso H Wg; [|cbn in H; discriminate H].
    unf HDw H Wt. cbn [Tc.guard tbind] in H.
    eqs H. unf HDw H WA. cbn [need tbind] in H.
    step H. step H. step H. step H. step H. apply linear_gamma_ok in E2.
    eapply nil_no_key; [exact E2|]. apply keep_without; [eapply has_nu; eauto|auto].
  - (* call *)
    destruct (sig_lookup Sg fn) as [sg|] eqn:SL; [|discriminate H].
    destruct (HSgw _ _ SL) as [[ft [Eft Wft]] Wps]. rewrite Eft in H.
    destruct (S (length (fs_params sg)) =? length args)%nat eqn:N1.
    + destruct args as [|a0 rest]; [discriminate H|].
      step H. eqs H. step H. destruct a as [rest' g1]. step H. apply linear_gamma_ok in E0. subst g1.
      simpl in Hn. apply andb_true_iff in Hn. destruct Hn as [_ Hn].
      pose proof (stuck_args z _ _ _ _ _ Gg Wps Hz Hn E) as Hk. discriminate Hk.
    + destruct (length (fs_params sg) =? length args)%nat eqn:N2; [|discriminate H].
      eqs H. step H. destruct a as [args' g1]. step H. apply linear_gamma_ok in E0. subst g1.
      pose proof (stuck_args z _ _ _ _ _ Gg Wps Hz Hn E) as Hk. discriminate Hk.
  - (* cast *)
    destruct (is_provider to sh) eqn:Pto.
    + unf HDw H WA. as3 H as_down as_down_some.
      pose proof (good_down _ _ _ _ (good_head _ HD _ _ Hh GA)) as Ga. pose proof (proj1 Ga) as Wa.
      step H. step H. unf HDw H Wa.
      cnso H Wg; [|cbn in H; discriminate H].
      unf HDw H Wt. cbn [Tc.guard need tbind] in H. step H. eqs H. step H. step H. apply linear_gamma_ok in E1.
      eapply nil_no_key; [exact E1|]. apply keep_without; [eapply has_nu; eauto|auto].
    + destruct (is_provider cont sh) eqn:Pc; [|discriminate H].
      cns H Wg. unf HDw H Wt. as3 H as_up as_up_some.
      pose proof (gctx_has _ _ _ _ Gg Has) as Gt.
      pose proof (good_up _ _ _ _ (good_head _ HD _ _ Hh Gt)) as Ga. pose proof (proj1 Ga) as Wa.
      step H. step H. rewrite (consume_maybe_self_opt_prov _ _ _ _ Pc) in H.
      unf HDw H Wa. unf HDw H WA. cbn [Tc.guard need tbind] in H. step H. eqs H. step H. step H.
      apply linear_gamma_ok in E1.
      eapply nil_no_key; [exact E1|]. apply keep_without; [eapply has_nu; eauto|auto].
Qed.

Lemma stuck_recv z pay cont from k : StuckAt z k -> StuckAt z (FRecv pay cont from k).
Proof.
  intros IH g sh A f' rs0 Gg GA Hz Hn Hsyn Hfs H. pose proof (gctx_wf _ Gg) as Wg. pose proof (proj1 GA) as WA.
  cbn [tc_form] in H. syn_split Hsyn. syn_split Hfs. simpl in Hn. apply andb_true_iff in Hn. destruct Hn as [Hnf Hnk].
  destruct (is_provider from sh) eqn:Pf.
  - unf HDw H WA. as3 H as_lolli as_lolli_some.
    destruct (good_lolli _ _ _ _ (good_head _ HD _ _ Hh GA)) as [Gl Gr].
    pose proof (proj1 Gl) as Wl. pose proof (proj1 Gr) as Wr.
    unf HDw H Wl. unf HDw H Wr. step H. step H.
    apply negb_true_iff, orb_false_iff in G. destruct G as [F1 F2].
    step H. step H.
    rewrite (fresh_ne _ _ _ F1 Hz), (fresh_ne _ _ _ F2 Hz) in Hnk. simpl in Hnk.
    eapply (IH (bind g pay h)); [| | |eassumption|eassumption|eassumption|eassumption].
    + apply gctx_bind; auto. eapply good_head; eauto.
    + eapply good_head; eauto.
    + apply keep_aset; auto.
  - destruct (is_provider pay sh || is_provider cont sh) eqn:Pp; [discriminate H|].
    cns H Wg. unf HDw H Wt. as3 H as_tensor as_tensor_some.
    pose proof (gctx_has _ _ _ _ Gg Has) as Gt.
    destruct (good_tensor _ _ _ _ (good_head _ HD _ _ Hh Gt)) as [Gl Gr].
    pose proof (proj1 Gl) as Wl. pose proof (proj1 Gr) as Wr.
    unf HDw H Wl. unf HDw H Wr. step H. step H.
    apply negb_true_iff, orb_false_iff in G. destruct G as [F1 F2].
    step H. step H.
    pose proof (keep_without _ _ _ (has_nu _ _ _ _ Has Hnf) Hz) as Hz1.
    rewrite (fresh_ne _ _ _ F1 Hz1), (fresh_ne _ _ _ F2 Hz1) in Hnk. simpl in Hnk.
    eapply (IH (bind (bind (without g from) pay h) cont h0)); [| | |eassumption|eassumption|eassumption|eassumption].
    + apply gctx_bind; [apply gctx_bind; [apply gctx_without; auto|]|]; eapply good_head; eauto.
    + exact GA.
    + apply keep_aset. apply keep_aset. auto.
Qed.

Lemma stuck_wait z c k : StuckAt z k -> StuckAt z (FWait c k).
Proof.
  intros IH g sh A f' rs0 Gg GA Hz Hn Hsyn Hfs H. pose proof (gctx_wf _ Gg) as Wg. pose proof (proj1 GA) as WA.
  cbn [tc_form] in H. syn_split Hsyn. syn_split Hfs. simpl in Hn. apply andb_true_iff in Hn. destruct Hn as [Hnf Hnk].
  destruct (is_provider c sh) eqn:Pc.
  - unf HDw H WA. destruct (is_unit (Some h)); [discriminate H|now apply type_mismatch_not_ok in H].
  - cns H Wg. unf HDw H Wt.
    destruct (is_unit (Some h)) eqn:Un; [|now apply type_mismatch_not_ok in H].
    step H. step H.
    eapply (IH (without g c)); [| | |eassumption|eassumption|eassumption|eassumption];
      [apply gctx_without; auto|exact GA|apply keep_without; auto; eapply has_nu; eauto].
Qed.

Lemma stuck_drop z c k : StuckAt z k -> StuckAt z (FDrop c k).
Proof.
  intros IH g sh A f' rs0 Gg GA Hz Hn Hsyn Hfs H. pose proof (gctx_wf _ Gg) as Wg. pose proof (proj1 GA) as WA.
  cbn [tc_form] in H. syn_split Hsyn. syn_split Hfs. simpl in Hn. apply andb_true_iff in Hn. destruct Hn as [Hnf Hnk].
  destruct (negb (is_provider c sh)) eqn:Pc; [|discriminate H].
  cns H Wg. cbn [need tbind] in H.
  destruct (weak (mode_of t)) eqn:Wk; [|discriminate H].
  unf HDw H Wt. step H. step H.
  eapply (IH (without g c)); [| | |eassumption|eassumption|eassumption|eassumption];
    [apply gctx_without; auto|exact GA|apply keep_without; auto; eapply has_nu; eauto].
Qed.

Lemma stuck_print z l k : StuckAt z k -> StuckAt z (FPrint l k).
Proof.
  intros IH g sh A f' rs0 Gg GA Hz Hn Hsyn Hfs H. cbn [tc_form] in H. simpl in Hn, Hsyn, Hfs. step H. eapply IH; [| | |eassumption|eassumption|eassumption|eassumption]; auto.
Qed.

Lemma stuck_shift z x from k : StuckAt z k -> StuckAt z (FShift x from k).
Proof.
  intros IH g sh A f' rs0 Gg GA Hz Hn Hsyn Hfs H. pose proof (gctx_wf _ Gg) as Wg. pose proof (proj1 GA) as WA.
  cbn [tc_form] in H. syn_split Hsyn. syn_split Hfs. simpl in Hn. apply andb_true_iff in Hn. destruct Hn as [Hnf Hnk].
  destruct (is_provider from sh) eqn:Pf.
  - unf HDw H WA. as3 H as_up as_up_some.
    pose proof (good_up _ _ _ _ (good_head _ HD _ _ Hh GA)) as Ga. pose proof (proj1 Ga) as Wa.
    step H. step H. unf HDw H Wa. step H. apply negb_true_iff in G0.
    step H. step H.
    rewrite (fresh_ne _ _ _ G0 Hz) in Hnk. simpl in Hnk.
    eapply (IH g); [| | |eassumption|eassumption|eassumption|eassumption]; auto. eapply good_head; eauto.
  - destruct (is_provider x sh) eqn:Px; [discriminate H|].
    cns H Wg. unf HDw H Wt. as3 H as_down as_down_some.
    pose proof (gctx_has _ _ _ _ Gg Has) as Gt.
    pose proof (good_down _ _ _ _ (good_head _ HD _ _ Hh Gt)) as Ga. pose proof (proj1 Ga) as Wa.
    step H. step H. unf HDw H Wa. step H. apply negb_true_iff in G0.
    step H. step H.
    pose proof (keep_without _ _ _ (has_nu _ _ _ _ Has Hnf) Hz) as Hz1.
    rewrite (fresh_ne _ _ _ G0 Hz1) in Hnk. simpl in Hnk.
    eapply (IH (bind (without g from) x h)); [| | |eassumption|eassumption|eassumption|eassumption].
    + apply gctx_bind; [apply gctx_without; auto|eapply good_head; eauto].
    + exact GA.
    + apply keep_aset. auto.
Qed.

Lemma stuck_split z x y from k : StuckAt z k -> StuckAt z (FSplit x y from k).
Proof.
  intros IH g sh A f' rs0 Gg GA Hz Hn Hsyn Hfs H. pose proof (gctx_wf _ Gg) as Wg. pose proof (proj1 GA) as WA.
  cbn [tc_form] in H. syn_split Hsyn. syn_split Hfs. simpl in Hn. apply andb_true_iff in Hn. destruct Hn as [Hnf Hnk].
  destruct (is_provider from sh) eqn:Pf; [discriminate H|].
  cnso H Wg; [|cbn in H; discriminate H].
  unf HDw H Wt. cbn [Tc.guard tbind] in H. step H. step H. step H.
  apply negb_true_iff, orb_false_iff in G0. destruct G0 as [F1 F2].
  cbn [need tbind] in H. step H. step H. step H.
  pose proof (gctx_has _ _ _ _ Gg Has) as Gt. pose proof (good_head _ HD _ _ Hh Gt) as Gh.
  pose proof (keep_without _ _ _ (has_nu _ _ _ _ Has Hnf) Hz) as Hz1.
  rewrite (fresh_ne _ _ _ F1 Hz1), (fresh_ne _ _ _ F2 Hz1) in Hnk. simpl in Hnk.
  eapply (IH (bind (bind (without g from) x h) y h)); [| | |eassumption|eassumption|eassumption|eassumption].
  - apply gctx_bind; auto. apply gctx_bind; auto. apply gctx_without; auto.
  - exact GA.
  - apply keep_aset. apply keep_aset. auto.
Qed.

Lemma stuck_brs_nil z : StuckBrs z BrNil.
Proof. split; intros; congruence. Qed.

Lemma stuck_brs_cons z l pay k r : StuckAt z k -> StuckBrs z (BrCons l pay k r).
Proof.
  intros IHk. split.
  - intros g bs seen b' seen' rs0 Gg Gbs Hz Hn Hsyn Hfs _ H. pose proof (gctx_wf _ Gg) as Wg.
    rewrite tc_brsR_cons in H. syn_split Hsyn. syn_split Hfs. simpl in Hn. apply andb_true_iff in Hn. destruct Hn as [Hnk _].
    step H. destruct (find_br l bs) as [bt|] eqn:Fb; [|discriminate H].
    pose proof (Gbs _ _ Fb) as Gbt. pose proof (proj1 Gbt) as Wbt.
    step H. apply negb_true_iff in G0.
    unf HDw H Wbt. step H. step H.
    rewrite (fresh_ne _ _ _ G0 Hz) in Hnk. simpl in Hnk.
    eapply (IHk g); [| | |eassumption|eassumption|eassumption|eassumption]; auto.
  - intros g sh A bs seen b' seen' rs0 Gg GA Gbs Hz Hn Hsyn Hfs _ H. pose proof (gctx_wf _ Gg) as Wg.
    rewrite tc_brsL_cons in H. syn_split Hsyn. syn_split Hfs. simpl in Hn. apply andb_true_iff in Hn. destruct Hn as [Hnk _].
    step H. destruct (find_br l bs) as [bt|] eqn:Fb; [|discriminate H].
    pose proof (Gbs _ _ Fb) as Gbt. pose proof (proj1 Gbt) as Wbt.
    step H. step H. apply negb_true_iff in G1.
    unf HDw H Wbt. step H. step H.
    rewrite (fresh_ne _ _ _ G1 Hz) in Hnk. simpl in Hnk.
    eapply (IHk (bind g pay bt)); [| | |eassumption|eassumption|eassumption|eassumption].
    + apply gctx_bind; auto.
    + exact GA.
    + apply keep_aset; auto.
Qed.

Lemma brs_len_pos bs m : (good D (TPlus bs m) \/ good D (TWith bs m)) -> brs_len bs <> 0%nat.
Proof.
  intros [[_ S]|[_ S]]; simpl in S; apply andb_true_iff in S; destruct S as [S _];
    apply negb_true_iff, Nat.eqb_neq in S; exact S.
Qed.

Lemma stuck_case z from b : StuckBrs z b -> StuckAt z (FCase from b).
Proof.
  intros [IHR IHL] g sh A f' rs0 Gg GA Hz Hn Hsyn Hfs H. pose proof (gctx_wf _ Gg) as Wg. pose proof (proj1 GA) as WA.
  cbn [tc_form] in H. syn_split Hsyn. syn_split Hfs. simpl in Hn. apply andb_true_iff in Hn. destruct Hn as [Hnf Hnb].
  destruct (is_provider from sh) eqn:Pf.
  - unf HDw H WA. as2 H as_with as_with_some.
    pose proof (good_head _ HD _ _ Hh GA) as Gh.
    step H. destruct a as [b' seen']. step H.
    destruct b as [|l pay k r].
    + cbn in E. inversion E; subst. simpl in G. pose proof (brs_len_pos _ _ (or_intror Gh)).
      destruct (brs_len b0); [congruence|discriminate G].
    + eapply (IHR g); [exact Gg|intros l0 a0; apply (good_with _ _ _ l0 a0 Gh)|exact Hz|exact Hnb|exact N|eassumption|discriminate|exact E].
  - cns H Wg. unf HDw H Wt. as2 H as_plus as_plus_some.
    pose proof (gctx_has _ _ _ _ Gg Has) as Gt. pose proof (good_head _ HD _ _ Hh Gt) as Gh.
    step H. destruct a as [b' seen']. step H.
    destruct b as [|l pay k r].
    + cbn in E. inversion E; subst. simpl in G. pose proof (brs_len_pos _ _ (or_introl Gh)).
      destruct (brs_len b0); [congruence|discriminate G].
    + eapply (IHL (without g from)); [apply gctx_without; auto|exact GA|intros l0 a0; apply (good_plus _ _ _ l0 a0 Gh)
        |apply keep_without; auto; eapply has_nu; eauto|exact Hnb|exact N|eassumption|discriminate|exact E].
Qed.

Lemma split_keep z g ns acc gl gr : split_ctx D g ns acc gl gr ->
  forallb (nu z) ns = true -> ctx_has g z = true -> ctx_has gr z = true.
Proof.
  induction 1 as [g acc|g n r acc gl gr Sf SP IH|g n r acc gl gr t h Hn Hh SP IH]; intros Hnu Hz; auto;
    simpl in Hnu; apply andb_true_iff in Hnu; destruct Hnu as [Hn1 Hn2]; auto.
  apply IH; auto. apply keep_without; auto. eapply has_nu; eauto.
Qed.

Lemma nouse_leaf z f : has_continuation f = false -> nouse z f = true -> forallb (nu z) (leaf_names f) = true.
Proof.
  destruct f; simpl; intros Hc H; try discriminate Hc; auto;
    repeat (apply andb_true_iff in H; destruct H as [H ?]); repeat (apply andb_true_iff; split); auto.
Qed.
Lemma syn_leaf_chan rs f : has_continuation f = false -> syn_form rs f = true ->
  forall n, In n (leaf_names f) -> chan n = None.
Proof.
  destruct f; simpl; intros Hc H n Hin; try discriminate Hc;
    repeat (apply andb_true_iff in H; destruct H as [H ?]);
    try (rewrite forallb_forall in H; eapply nm_ok_chan; eauto; fail);
    repeat (destruct Hin as [<-|Hin]; [eapply nm_ok_chan; eauto|]); destruct Hin.
Qed.

(* the name of a cut that re-uses the entry z must occur in the spawned body: impossible when the
   body cannot name z *)
Lemma reuse_needs_name z x body rs : has_continuation body = false -> syn_form rs body = true ->
  nouse z body = true -> chan x = None -> ident x = z -> name_in_names x (free_names body) = false.
Proof.
  intros Hc Hs Hn Hx Hi. rewrite (free_names_leaf _ Hc).
  destruct (name_in_names x (nonself (leaf_names body))) eqn:E; auto. exfalso.
  unfold name_in_names in E. apply existsb_exists in E. destruct E as [n [Hin Hne]].
  unfold nonself in Hin. apply filter_In in Hin. destruct Hin as [Hin Hsf]. apply negb_true_iff in Hsf.
  pose proof (syn_leaf_chan _ _ Hc Hs n Hin) as Hcn.
  unfold name_equal, initialized in Hne. rewrite Hx, Hcn in Hne. simpl in Hne.
  apply andb_true_iff in Hne. destruct Hne as [Hne _]. apply String.eqb_eq in Hne.
  pose proof (nouse_leaf _ _ Hc Hn) as Hall. rewrite forallb_forall in Hall. specialize (Hall n Hin).
  unfold nu in Hall. rewrite Hsf in Hall. simpl in Hall. apply negb_true_iff, String.eqb_neq in Hall. congruence.
Qed.

Lemma stuck_new z x body k : StuckAt z k -> StuckAt z (FNew x body k).
Proof.
  intros IHk g sh A f' rs0 Gg GA Hz Hn Hsyn Hfs H. pose proof (gctx_wf _ Gg) as Wg. pose proof (proj1 GA) as WA.
  syn_split Hsyn. syn_split Hfs. simpl in Hn. apply andb_true_iff in Hn. destruct Hn as [Hnb Hnk].
  pose proof (bd_ok_chan _ Hsyn) as Hcx.
  destruct (call_or_not body) as [[fn [args [o ->]]]|NC].
  - rewrite tc_new_call_eq in H. unfold tc_new_call in H. cbv zeta in H.
    step H. step H. step H. step H. apply negb_true_iff in G2.
    step H. destruct a as [gl gr0].
    destruct (split_gamma_sound D HDw _ _ _ _ _ Wg (Forall_nil _) E) as [SP [Wgl Wgr]].
    destruct (split_ctx_good _ HD _ _ _ _ _ SP Gg (gctx_nil _)) as [Ggl Ggr].
    destruct (sig_lookup Sg fn) as [sg|] eqn:SL; [|discriminate H].
    destruct (HSgw _ _ SL) as [[ft [Eft Wft]] Wps]. rewrite Eft in H.
    destruct (HSg _ _ SL) as [Gft Gps].
    unf HDw H Wft.
    step H. clear E0. step H. step H. step H.
    pose proof (good_head _ HD _ _ Hh (Gft _ Eft)) as Gh.
    assert (EQ : aset (ident x) (Some h) (if ctx_has g (ident x) then aset (ident x) (nty x) gr0 else gr0)
                 = bind gr0 x h) by (destruct (ctx_has g (ident x)); [apply aset_aset|reflexivity]).
    rewrite EQ in E2.
    destruct (String.eqb (ident x) z) eqn:Exz.
    + apply String.eqb_eq in Exz. rewrite Exz, Hz in G1.
      rewrite (reuse_needs_name z x _ _ G2 N0 Hnb Hcx Exz) in G1. discriminate G1.
    + simpl in Hnk. eapply (IHk (bind gr0 x h)); [| | |eassumption|eassumption|eassumption|eassumption].
      * apply gctx_bind; auto.
      * exact GA.
      * apply keep_aset. eapply split_keep; eauto.
  - rewrite (tc_new_ax_eq _ _ _ _ _ _ _ _ NC) in H. unfold tc_new_ax in H. cbv zeta in H.
    step H. step H. step H. step H. apply negb_true_iff in G2.
    step H. destruct a as [gl gr0].
    destruct (split_gamma_sound D HDw _ _ _ _ _ Wg (Forall_nil _) E) as [SP [Wgl Wgr]].
    destruct (split_ctx_good _ HD _ _ _ _ _ SP Gg (gctx_nil _)) as [Ggl Ggr].
    destruct (nty x) as [xt|] eqn:Nx; [|discriminate H].
    step H. step H. rename a into xt1.
    unf HDw H G3.
    step H. step H. step H. cbn [unfold_opt] in H.
    rewrite (unfold_nonname _ _ (head_nonname _ _ _ Hh)) in H. cbn [lift tbind] in H.
    step H. step H.
    assert (EQ : aset (ident x) (Some h) (if ctx_has g (ident x) then aset (ident x) (Some xt) gr0 else gr0)
                 = bind gr0 x h) by (destruct (ctx_has g (ident x)); [apply aset_aset|reflexivity]).
    rewrite EQ in E5.
    destruct (String.eqb (ident x) z) eqn:Exz.
    + apply String.eqb_eq in Exz. rewrite Exz, Hz in G1.
      rewrite (reuse_needs_name z x _ _ G2 N0 Hnb Hcx Exz) in G1. discriminate G1.
    + simpl in Hnk. eapply (IHk (bind gr0 x h)); [| | |eassumption|eassumption|eassumption|eassumption].
      * apply gctx_bind; auto. apply (good_head _ HD _ _ Hh). split; [exact G3|].
        eapply add_missing_syn; eauto. unfold name_syn in Hfs. rewrite Nx in Hfs. exact Hfs.
      * exact GA.
      * apply keep_aset. eapply split_keep; eauto.
        rewrite (free_names_leaf _ G2). apply forallb_forall. intros n Hin.
        unfold nonself in Hin. apply filter_In in Hin. destruct Hin as [Hin _].
        pose proof (nouse_leaf _ _ G2 Hnb) as Hall. rewrite forallb_forall in Hall. auto.
Qed.

Theorem stuck_all z : (forall f, StuckAt z f) /\ (forall b, StuckBrs z b).
Proof.
  apply form_branches_ind; intros.
  - apply stuck_leaf; reflexivity.
  - now apply stuck_recv.
  - apply stuck_leaf; reflexivity.
  - now apply stuck_case.
  - now apply stuck_new.
  - apply stuck_leaf; reflexivity.
  - now apply stuck_wait.
  - apply stuck_leaf; reflexivity.
  - now apply stuck_split.
  - apply stuck_leaf; reflexivity.
  - apply stuck_leaf; reflexivity.
  - now apply stuck_shift.
  - now apply stuck_drop.
  - now apply stuck_print.
  - apply stuck_brs_nil.
  - now apply stuck_brs_cons.
Qed.

(* a successful check of f leaves no room for a context entry "" *)
Lemma no_empty_key g sh A f f' rs : gctx D g -> good D A -> syn_form rs f = true -> form_syn f = true ->
  tc_form D Sg g sh (Some A) f = TOk f' -> ctx_has g "" = false.
Proof.
  intros Gg GA Hs Hf H. destruct (ctx_has g "") eqn:E; auto. exfalso.
  eapply (proj1 (stuck_all "") f); eauto. eapply (proj1 syn_nouse_empty); eauto.
Qed.

(* ------------------------------------------------------------------ the provided type up to unfolding *)
Lemma client_conv Δ Γ sh n t t' : client_ty Δ Γ sh n t -> teq D t t' -> client_ty Δ Γ sh n t'.
Proof.
  intros [H1 [[t0 [Ha [Hb Hc]]] H2]] HT. split; auto. split.
  - exists t0. split; auto. split; auto. eapply Htrans; eauto.
  - destruct (chan n).
    + destruct H2 as [u [Hu1 Hu2]]. exists u. split; auto. eapply Htrans; eauto.
    + destruct H2 as [Hs [u [Hu1 Hu2]]]. split; auto. exists u. split; auto. eapply Htrans; eauto.
Qed.

Lemma typed_conv_mut :
  (forall Γ sh rs s f, typed ∅ Γ sh rs s f ->
     forall s', (forall u, whd D s u -> whd D s' u) -> teq D s s' -> typed ∅ Γ sh rs s' f) /\
  (forall Γ rs bs b, typed_brs_p D F (teq D) ∅ Γ rs bs b -> True) /\
  (forall Γ sh rs s bs b, typed_brs_c D F (teq D) ∅ Γ sh rs s bs b ->
     forall s', (forall u, whd D s u -> whd D s' u) -> teq D s s' -> typed_brs_c D F (teq D) ∅ Γ sh rs s' bs b).
Proof.
  apply typed_mutind; intros; try exact I.
  - eapply T_SendP; eauto.
  - eapply T_SendC; eauto.
  - eapply T_RecvP; eauto.
  - eapply T_RecvC; eauto.
  - eapply T_SelP; eauto.
  - eapply T_SelC; eauto.
  - eapply T_CaseP; eauto.
  - eapply T_CaseC; eauto.
  - eapply T_New; eauto.
  - eapply T_Close; eauto.
  - eapply T_Wait; eauto.
  - eapply T_Fwd; eauto using client_conv.
  - eapply T_Drop; eauto.
  - eapply T_Call; eauto.
  - eapply T_CastP; eauto.
  - eapply T_CastC; eauto.
  - eapply T_ShiftP; eauto.
  - eapply T_ShiftC; eauto.
  - eapply T_Split; eauto.
  - eapply T_Print; eauto.
  - constructor.
  - econstructor; eauto.
Qed.

Lemma typed_unfolded Γ sh rs t h f : good D t -> Typing.head D t h -> typed ∅ Γ sh rs h f -> typed ∅ Γ sh rs t f.
Proof.
  intros G Hh HT. eapply (proj1 typed_conv_mut); [exact HT| |apply Hunf; auto].
  intros u Hu. pose proof (whd_of_head _ _ _ Hh) as W.
  assert (u = h) as -> by (eapply whd_det; [exact Hu|eapply whd_idem; exact W]). exact W.
Qed.

(* ------------------------------------------------------------------ the shadow *)
Lemma ctx_has_false g x : ctx_has g x = false -> alookup x g = None.
Proof. unfold ctx_has. apply amem_false. Qed.

Lemma prov_eq n sh : is_self n = false -> is_provider n sh = true -> shid sh = Some (ident n).
Proof.
  unfold is_provider. intros -> H. destruct sh as [s|]; [|discriminate H]. simpl in H.
  apply String.eqb_eq in H. simpl. congruence.
Qed.
Lemma not_prov_shid n sh : is_provider n sh = false -> shid sh <> Some (ident n).
Proof.
  unfold is_provider. intros H. apply orb_false_iff in H. destruct H as [_ H].
  destruct sh as [s|]; [|discriminate]. simpl. intros E. injection E as E. rewrite E, String.eqb_refl in H. discriminate.
Qed.
Lemma prov_shid sh rs n t : nm_ok rs n = true -> is_provider n sh = true -> prov_name (shid sh) rs (set_nty n t).
Proof. intros Hok Hp. apply prov_ok; auto. intros Sf. apply prov_eq; auto. Qed.

Lemma shadow_fresh_bind g sh n t : shadow_fresh g sh -> is_provider n sh = false -> shadow_fresh (bind g n t) sh.
Proof.
  intros SF Hp s ->. unfold bind. rewrite alookup_aset.
  destruct (String.eqb (ident s) (ident n)) eqn:E; [|apply SF; auto].
  unfold is_provider in Hp. apply orb_false_iff in Hp. destruct Hp as [_ Hp]. simpl in Hp.
  rewrite String.eqb_sym in Hp. congruence.
Qed.
Lemma shadow_fresh_sub g g' sh : (forall k v, alookup k g' = Some v -> alookup k g = Some v) ->
  shadow_fresh g sh -> shadow_fresh g' sh.
Proof.
  intros Hs SF s E. destruct (alookup (ident s) g') eqn:L; auto. apply Hs in L. rewrite (SF _ E) in L. discriminate.
Qed.
Lemma shadow_fresh_without g sh n : shadow_fresh g sh -> shadow_fresh (without g n) sh.
Proof.
  apply shadow_fresh_sub. intros k v L. unfold without in L. apply alookup_aremove_Some in L. tauto.
Qed.

Lemma leaf_obl_shid g sh f : shadow_fresh g sh -> leaf_obl g sh (shid sh) f.
Proof.
  intros SF. assert (P : forall n, is_self n = false -> is_provider n sh = true -> ctx_has g (ident n) = false).
  { intros n Sf Hp. pose proof (prov_eq _ _ Sf Hp) as E. destruct sh as [s|]; [|discriminate E].
    simpl in E. injection E as E. unfold ctx_has. apply amem_false. rewrite <- E. apply SF; auto. }
  split.
  - intros n _ Sf Hp _. apply prov_eq; auto.
  - intros n _ Sf Hc E. destruct sh as [s|]; [|discriminate E]. simpl in E. injection E as E.
    unfold ctx_has in Hc. apply amem_true in Hc. destruct Hc as [v Hv]. rewrite <- E, (SF s eq_refl) in Hv. discriminate.
  - left. intros n _. apply P.
Qed.

Lemma ctx_rel_bind' g Γ n t t' : ctx_rel g Γ -> teq D t' t -> ctx_rel (bind g n t) (<[ident n := t']> Γ).
Proof.
  intros H HT x t0 L. unfold bind in L. rewrite alookup_aset in L.
  destruct (String.eqb x (ident n)) eqn:E.
  - apply String.eqb_eq in E. subst x. injection L as <-. rewrite lookup_insert. eauto.
  - apply String.eqb_neq in E. rewrite lookup_insert_ne by auto. eauto.
Qed.

Lemma name_equal_bd a b : bd_ok a = true -> bd_ok b = true -> name_equal a b = false -> ident a <> ident b.
Proof.
  intros Ha Hb. apply bd_ok_chan in Ha. apply bd_ok_chan in Hb. unfold name_equal, initialized. rewrite Ha, Hb.
  simpl. intros H E. rewrite E, String.eqb_refl in H. discriminate.
Qed.

(* a payload binder that is the keyword self would put the entry "" into the context *)
Lemma strict_by_key g x (v : option sty) sh A f f' rs :
  bd_ok x = true -> gctx D (aset (ident x) v g) -> good D A -> syn_form rs f = true -> form_syn f = true ->
  tc_form D Sg (aset (ident x) v g) sh (Some A) f = TOk f' -> binder x.
Proof.
  intros Hb Gg GA Hs Hf H. apply bd_ok_binder; auto. destruct (is_self x) eqn:S; auto. exfalso.
  pose proof (bd_ok_self _ Hb S) as E.
  pose proof (no_empty_key _ _ _ _ _ _ Gg GA Hs Hf H) as K.
  unfold ctx_has in K. apply amem_false in K. rewrite E, alookup_aset in K. simpl in K. discriminate.
Qed.

(* ------------------------------------------------------------------ all forms *)
Definition RtAt (f : form) : Prop := forall g sh A f' Γ rs,
  gctx D g -> good D A -> shadow_fresh g sh -> tc_form D Sg g sh (Some A) f = TOk f' ->
  ctx_rel g Γ -> syn_form rs f = true -> form_syn f = true ->
  typed ∅ Γ (shid sh) rs A f'.

Lemma leaf_rt f : LeafAt f -> RtAt f.
Proof.
  intros HL g sh A f' Γ rs Gg GA SF H HR Hsyn _. eapply HL; eauto. apply leaf_obl_shid; auto.
Qed.

Lemma rt_recv pay cont from k : RtAt k -> RtAt (FRecv pay cont from k).
Proof.
  intros IH g sh A f' Γ rs Gg GA SF H HR Hsyn Hfs. pose proof (gctx_wf _ Gg) as Wg. pose proof (proj1 GA) as WA.
  cbn [tc_form] in H. syn_split Hsyn. simpl in Hfs. apply andb_true_iff in Hfs. destruct Hfs as [_ Fk].
  destruct (is_provider from sh) eqn:Pf.
  - unf HDw H WA. as3 H as_lolli as_lolli_some.
    destruct (good_lolli _ _ _ _ (good_head _ HD _ _ Hh GA)) as [Gl Gr].
    pose proof (proj1 Gl) as Wl. pose proof (proj1 Gr) as Wr.
    unf HDw H Wl. unf HDw H Wr. step H. step H.
    apply negb_true_iff, orb_false_iff in G. destruct G as [F1 F2]. apply negb_true_iff in G0.
    step H. step H. injection H as <-.
    pose proof (name_equal_bd _ _ Hsyn N1 G0) as Hne.
    pose proof (good_head _ HD _ _ Hh0 Gl) as Gh. pose proof (good_head _ HD _ _ Hh1 Gr) as Gh0.
    assert (Gg1 : gctx D (bind g pay h)) by (apply gctx_bind; auto).
    pose proof (strict_by_key g pay (Some h) _ _ _ _ _ Hsyn Gg1 Gh0 N Fk E0) as Hbp.
    rewrite (under_strict _ _ (proj2 Hbp)) in N.
    eapply T_RecvP with (A := s) (B := s0) (m := m).
    + apply prov_shid; auto.
    + apply whd_of_head. exact Hh.
    + exact Hbp.
    + apply bd_ok_pbinder. exact N1.
    + exact Hne.
    + eapply typed_unfolded; [exact Gr|exact Hh1|].
      eapply (IH (bind g pay h) (Some (set_nty cont (Some h0)))); eauto.
      * intros z Ez. injection Ez as <-. change (ident (set_nty cont (Some h0))) with (ident cont).
        unfold bind. rewrite alookup_aset.
        destruct (String.eqb (ident cont) (ident pay)) eqn:Ecp; [apply String.eqb_eq in Ecp; congruence|].
        apply ctx_has_false; auto.
      * apply (ctx_rel_bind' _ _ pay h s); [|apply Hsym, Hunf; auto].
        apply (ctx_rel_delete g Γ (ident cont)); auto. apply ctx_has_false; auto.
  - destruct (is_provider pay sh || is_provider cont sh) eqn:Pp; [discriminate H|].
    apply orb_false_iff in Pp. destruct Pp as [Pp Pc].
    cns H Wg. unf HDw H Wt. as3 H as_tensor as_tensor_some.
    pose proof (gctx_has _ _ _ _ Gg Has) as Gt.
    destruct (good_tensor _ _ _ _ (good_head _ HD _ _ Hh Gt)) as [Gl Gr].
    pose proof (proj1 Gl) as Wl. pose proof (proj1 Gr) as Wr.
    unf HDw H Wl. unf HDw H Wr. step H. step H.
    apply negb_true_iff, orb_false_iff in G. destruct G as [F1 F2]. apply negb_true_iff in G0.
    step H. step H. injection H as <-.
    pose proof (name_equal_bd _ _ Hsyn N1 G0) as Hne.
    pose proof (bd_ok_binder _ Hsyn (not_provider_not_self _ _ Pp)) as Hbp.
    pose proof (bd_ok_binder _ N1 (not_provider_not_self _ _ Pc)) as Hbc.
    rewrite (under_strict _ _ (proj2 Hbp)), (under_strict _ _ (proj2 Hbc)) in N.
    eapply T_RecvC with (T := t) (A := s) (B := s0) (m := m).
    + apply (client_ok g Γ (shid sh) rs from t _ t Gg HR Has Hh N0); [apply not_prov_shid; auto|apply Hrefl].
    + apply whd_of_head. exact Hh.
    + exact Hbp.
    + exact Hbc.
    + exact Hne.
    + apply not_prov_shid; auto.
    + apply not_prov_shid; auto.
    + eapply (IH (bind (bind (without g from) pay h) cont h0) sh); eauto.
      * apply gctx_bind; [apply gctx_bind; [apply gctx_without; auto|]|]; eapply good_head; eauto.
      * apply shadow_fresh_bind; auto. apply shadow_fresh_bind; auto. apply shadow_fresh_without; auto.
      * apply (ctx_rel_bind' _ _ cont h0 s0); [|apply Hsym, Hunf; auto].
        apply (ctx_rel_bind' _ _ pay h s); [|apply Hsym, Hunf; auto]. apply ctx_rel_without; auto.
Qed.

Lemma rt_wait c k : RtAt k -> RtAt (FWait c k).
Proof.
  intros IH g sh A f' Γ rs Gg GA SF H HR Hsyn Hfs. pose proof (gctx_wf _ Gg) as Wg. pose proof (proj1 GA) as WA.
  cbn [tc_form] in H. syn_split Hsyn. simpl in Hfs. apply andb_true_iff in Hfs. destruct Hfs as [_ Fk].
  destruct (is_provider c sh) eqn:Pc.
  - unf HDw H WA. destruct (is_unit (Some h)); [discriminate H|now apply type_mismatch_not_ok in H].
  - cns H Wg. unf HDw H Wt.
    destruct (is_unit (Some h)) eqn:Un; [|now apply type_mismatch_not_ok in H].
    apply is_unit_some in Un. destruct Un as [m Un]. inversion Un; subst h.
    step H. step H. injection H as <-.
    eapply T_Wait with (T := t) (m := m).
    + apply (client_ok g Γ (shid sh) rs c t _ t Gg HR Has Hh Hsyn); [apply not_prov_shid; auto|apply Hrefl].
    + apply whd_of_head. exact Hh.
    + eapply (IH (without g c) sh); eauto.
      * apply gctx_without; auto.
      * apply shadow_fresh_without; auto.
      * apply ctx_rel_without; auto.
Qed.

Lemma rt_drop c k : RtAt k -> RtAt (FDrop c k).
Proof.
  intros IH g sh A f' Γ rs Gg GA SF H HR Hsyn Hfs. pose proof (gctx_wf _ Gg) as Wg. pose proof (proj1 GA) as WA.
  cbn [tc_form] in H. syn_split Hsyn. simpl in Hfs. apply andb_true_iff in Hfs. destruct Hfs as [_ Fk].
  destruct (negb (is_provider c sh)) eqn:Pc; [|discriminate H]. apply negb_true_iff in Pc.
  cns H Wg. cbn [need tbind] in H.
  destruct (weak (mode_of t)) eqn:Wk; [|discriminate H].
  unf HDw H Wt. step H. step H. injection H as <-.
  eapply T_Drop with (T := t).
  - apply (client_ok g Γ (shid sh) rs c t _ t Gg HR Has Hh Hsyn); [apply not_prov_shid; auto|apply Hrefl].
  - eapply (IH (without g c) sh); eauto.
    + apply gctx_without; auto.
    + apply shadow_fresh_without; auto.
    + apply ctx_rel_without; auto.
Qed.

Lemma rt_print l k : RtAt k -> RtAt (FPrint l k).
Proof.
  intros IH g sh A f' Γ rs Gg GA SF H HR Hsyn Hfs.
  cbn [tc_form] in H. simpl in Hsyn, Hfs. step H. injection H as <-.
  apply T_Print. eapply IH; eauto.
Qed.

Lemma rt_shift x from k : RtAt k -> RtAt (FShift x from k).
Proof.
  intros IH g sh A f' Γ rs Gg GA SF H HR Hsyn Hfs. pose proof (gctx_wf _ Gg) as Wg. pose proof (proj1 GA) as WA.
  cbn [tc_form] in H. syn_split Hsyn. simpl in Hfs. apply andb_true_iff in Hfs. destruct Hfs as [_ Fk].
  destruct (is_provider from sh) eqn:Pf.
  - unf HDw H WA. as3 H as_up as_up_some.
    pose proof (good_up _ _ _ _ (good_head _ HD _ _ Hh GA)) as Ga. pose proof (proj1 Ga) as Wa.
    step H. step H. unf HDw H Wa. step H. apply negb_true_iff in G0.
    step H. step H. injection H as <-.
    eapply T_ShiftP; [apply prov_shid; auto|apply whd_of_head; exact Hh|apply bd_ok_pbinder; exact Hsyn|].
    change (rs ∖ ({[ident (set_nty x (Some h))]} ∖ {[""]})) with (under rs x).
    eapply typed_unfolded; [exact Ga|exact Hh0|].
    eapply (IH g (Some (set_nty x (Some h)))); eauto.
    + eapply good_head; eauto.
    + intros z Ez. injection Ez as <-. apply ctx_has_false. exact G0.
    + apply (ctx_rel_delete g Γ (ident x)); auto. apply ctx_has_false; auto.
  - destruct (is_provider x sh) eqn:Px; [discriminate H|].
    cns H Wg. unf HDw H Wt. as3 H as_down as_down_some.
    pose proof (gctx_has _ _ _ _ Gg Has) as Gt.
    pose proof (good_down _ _ _ _ (good_head _ HD _ _ Hh Gt)) as Ga. pose proof (proj1 Ga) as Wa.
    step H. step H. unf HDw H Wa. step H. apply negb_true_iff in G0.
    step H. step H. injection H as <-.
    pose proof (bd_ok_binder _ Hsyn (not_provider_not_self _ _ Px)) as Hbx.
    rewrite (under_strict _ _ (proj2 Hbx)) in N.
    eapply T_ShiftC with (T := t);
      [apply (client_ok g Γ (shid sh) rs from t _ t Gg HR Has Hh N0); [apply not_prov_shid; auto|apply Hrefl]
      |apply whd_of_head; exact Hh|exact Hbx|apply not_prov_shid; auto|].
    eapply (IH (bind (without g from) x h) sh); eauto.
    + apply gctx_bind; [apply gctx_without; auto|eapply good_head; eauto].
    + apply shadow_fresh_bind; auto. apply shadow_fresh_without; auto.
    + apply (ctx_rel_bind' _ _ x h s); [|apply Hsym, Hunf; auto]. apply ctx_rel_without; auto.
Qed.

Lemma rt_split x y from k : RtAt k -> RtAt (FSplit x y from k).
Proof.
  intros IH g sh A f' Γ rs Gg GA SF H HR Hsyn Hfs. pose proof (gctx_wf _ Gg) as Wg. pose proof (proj1 GA) as WA.
  cbn [tc_form] in H. syn_split Hsyn. simpl in Hfs. apply andb_true_iff in Hfs. destruct Hfs as [_ Fk].
  destruct (is_provider from sh) eqn:Pf; [discriminate H|].
  cnso H Wg; [|cbn in H; discriminate H].
  unf HDw H Wt. cbn [Tc.guard tbind] in H. step H. step H. step H.
  apply negb_true_iff, orb_false_iff in G. destruct G as [Px Py].
  apply negb_true_iff, orb_false_iff in G0. destruct G0 as [F1 F2]. apply negb_true_iff in G1.
  cbn [need tbind] in H. step H. step H. step H. injection H as <-.
  pose proof (gctx_has _ _ _ _ Gg Has) as Gt. pose proof (good_head _ HD _ _ Hh Gt) as Gh.
  pose proof (bd_ok_binder _ Hsyn (not_provider_not_self _ _ Px)) as Hbx.
  pose proof (bd_ok_binder _ N1 (not_provider_not_self _ _ Py)) as Hby.
  rewrite (under_strict _ _ (proj2 Hbx)), (under_strict _ _ (proj2 Hby)) in N.
  eapply T_Split with (T := t).
  - apply (client_ok g Γ (shid sh) rs from t _ t Gg HR Has Hh N0); [apply not_prov_shid; auto|apply Hrefl].
  - exact Hbx.
  - exact Hby.
  - exact (name_equal_bd _ _ Hsyn N1 G1).
  - apply not_prov_shid; auto.
  - apply not_prov_shid; auto.
  - eapply (IH (bind (bind (without g from) x h) y h) sh); eauto.
    + apply gctx_bind; auto. apply gctx_bind; auto. apply gctx_without; auto.
    + apply shadow_fresh_bind; auto. apply shadow_fresh_bind; auto. apply shadow_fresh_without; auto.
    + apply (ctx_rel_bind' _ _ y h t); [|apply Hsym, Hunf; auto].
      apply (ctx_rel_bind' _ _ x h t); [|apply Hsym, Hunf; auto]. apply ctx_rel_without; auto.
Qed.

(* ------------------------------------------------------------------ branches *)
Definition RtBrs (b : branches) : Prop :=
  (forall g bs seen b' seen' Γ rs, gctx D g -> gbrs D bs ->
     tc_branches_provider D Sg g bs seen b = TOk (b', seen') ->
     ctx_rel g Γ -> syn_brs rs b = true -> branches_syn b = true ->
     typed_brs_p D F (teq D) ∅ Γ rs bs b' /\ br_labels b' = br_labels b) /\
  (forall g sh A bs seen b' seen' Γ rs, gctx D g -> good D A -> gbrs D bs -> shadow_fresh g sh ->
     tc_branches_client D Sg g sh (Some A) bs seen b = TOk (b', seen') ->
     ctx_rel g Γ -> syn_brs rs b = true -> branches_syn b = true ->
     typed_brs_c D F (teq D) ∅ Γ (shid sh) rs A bs b' /\ br_labels b' = br_labels b).

Lemma rt_brs_nil : RtBrs BrNil.
Proof.
  split.
  - intros g bs seen b' seen' Γ rs _ _ H _ _ _. cbn in H. inversion H; subst. split; [constructor|reflexivity].
  - intros g sh A bs seen b' seen' Γ rs _ _ _ _ H _ _ _. cbn in H. inversion H; subst. split; [constructor|reflexivity].
Qed.

Lemma rt_brs_cons l pay k r : RtAt k -> RtBrs r -> RtBrs (BrCons l pay k r).
Proof.
  intros IHk [IHR IHL]. split.
  - intros g bs seen b' seen' Γ rs Gg Gbs H HR Hsyn Hfs. pose proof (gctx_wf _ Gg) as Wg.
    rewrite tc_brsR_cons in H. syn_split Hsyn.
    simpl in Hfs. apply andb_true_iff in Hfs. destruct Hfs as [Hfs Fr]. apply andb_true_iff in Hfs. destruct Hfs as [_ Fk].
    step H. destruct (find_br l bs) as [bt|] eqn:Fb; [|discriminate H].
    pose proof (Gbs _ _ Fb) as Gbt. pose proof (proj1 Gbt) as Wbt.
    step H. apply negb_true_iff in G0.
    unf HDw H Wbt. step H. step H. step H. destruct a0 as [r' s']. inversion H; subst.
    destruct (IHR _ _ _ _ _ Γ rs Gg Gbs E1 HR N Fr) as [TR LR].
    split; [|simpl; rewrite LR; reflexivity].
    eapply TBP_cons with (A := bt); [exact Fb|apply bd_ok_pbinder; exact Hsyn| |exact TR].
    change (rs ∖ ({[ident (set_nty pay (Some h))]} ∖ {[""]})) with (under rs pay).
    eapply (IHk g (Some (set_nty pay (Some h)))); eauto.
    + intros z Ez. injection Ez as <-. apply ctx_has_false. exact G0.
    + apply (ctx_rel_delete g Γ (ident pay)); auto. apply ctx_has_false; auto.
  - intros g sh A bs seen b' seen' Γ rs Gg GA Gbs SF H HR Hsyn Hfs. pose proof (gctx_wf _ Gg) as Wg.
    rewrite tc_brsL_cons in H. syn_split Hsyn.
    simpl in Hfs. apply andb_true_iff in Hfs. destruct Hfs as [Hfs Fr]. apply andb_true_iff in Hfs. destruct Hfs as [_ Fk].
    step H. destruct (find_br l bs) as [bt|] eqn:Fb; [|discriminate H].
    pose proof (Gbs _ _ Fb) as Gbt. pose proof (proj1 Gbt) as Wbt.
    step H. apply negb_true_iff in G0. step H. apply negb_true_iff in G1.
    unf HDw H Wbt. step H. step H. step H. destruct a0 as [r' s']. inversion H; subst.
    destruct (IHL _ _ _ _ _ _ _ Γ rs Gg GA Gbs SF E1 HR N Fr) as [TR LR].
    split; [|simpl; rewrite LR; reflexivity].
    pose proof (bd_ok_binder _ Hsyn (not_provider_not_self _ _ G0)) as Hbp.
    rewrite (under_strict _ _ (proj2 Hbp)) in N0.
    eapply TBC_cons with (A := bt); [exact Fb|exact Hbp|apply not_prov_shid; auto| |exact TR].
    eapply (IHk (bind g pay bt) sh); eauto.
    + apply gctx_bind; auto.
    + apply shadow_fresh_bind; auto.
    + apply (ctx_rel_bind g Γ pay bt); auto.
Qed.

Lemma find_branch_labels l : forall b, In l (br_labels b) -> find_branch l b <> None.
Proof.
  induction b as [|l' p k r IH]; simpl; [tauto|].
  intros [->|Hin]; [rewrite String.eqb_refl; discriminate|].
  destruct (String.eqb l' l); [discriminate|auto].
Qed.

Lemma rt_case from b : RtBrs b -> RtAt (FCase from b).
Proof.
  intros [IHR IHL] g sh A f' Γ rs Gg GA SF H HR Hsyn Hfs. pose proof (gctx_wf _ Gg) as Wg. pose proof (proj1 GA) as WA.
  pose proof (proj2 (tc_form_sound_all (fun _ _ _ => True) D Sg HDw (fun _ _ _ _ _ => I) HSgw) b) as [SR SL].
  cbn [tc_form] in H. syn_split Hsyn. simpl in Hfs. apply andb_true_iff in Hfs. destruct Hfs as [_ Fb].
  destruct (is_provider from sh) eqn:Pf.
  - unf HDw H WA. as2 H as_with as_with_some.
    pose proof (good_head _ HD _ _ Hh GA) as Gh.
    step H. destruct a as [b' seen']. step H. step H. injection H as <-.
    destruct (IHR _ _ _ _ _ Γ rs Gg (fun l a => good_with _ _ _ l a Gh) E HR N Fb) as [TR LR].
    destruct (SR _ _ _ _ _ Wg (fun l a => wf_with _ _ _ l a Wh) E) as [TT [SE [SN _]]].
    eapply T_CaseP; [apply prov_shid; auto|apply whd_of_head; exact Hh| |exact TR].
    intros l a Fl. apply find_branch_labels. rewrite LR.
    eapply labels_cover; eauto using typed_brsR_labels. eapply find_br_Some_In; eauto.
  - cns H Wg. unf HDw H Wt. as2 H as_plus as_plus_some.
    pose proof (gctx_has _ _ _ _ Gg Has) as Gt. pose proof (good_head _ HD _ _ Hh Gt) as Gh.
    step H. destruct a as [b' seen']. step H. step H. injection H as <-.
    destruct (IHL _ _ _ _ _ _ _ Γ rs (gctx_without _ _ _ Gg) GA (fun l a => good_plus _ _ _ l a Gh)
                (shadow_fresh_without _ _ _ SF) E (ctx_rel_without _ _ _ HR) N Fb) as [TR LR].
    destruct (SL _ _ _ _ _ _ _ Wg0 WA (fun l a => wf_plus _ _ _ l a Wh) E) as [TT [SE [SN _]]].
    eapply T_CaseC with (T := t);
      [apply (client_ok g Γ (shid sh) rs from t _ t Gg HR Has Hh Hsyn); [apply not_prov_shid; auto|apply Hrefl]
      |apply whd_of_head; exact Hh| |exact TR].
    intros l a Fl. apply find_branch_labels. rewrite LR.
    eapply labels_cover; eauto using typed_brsL_labels. eapply find_br_Some_In; eauto.
Qed.

Lemma rt_new x body k : RtAt k -> RtAt (FNew x body k).
Proof.
  intros IHk g sh A f' Γ rs Gg GA SF H HR Hsyn Hfs. pose proof (gctx_wf _ Gg) as Wg. pose proof (proj1 GA) as WA.
  syn_split Hsyn.
  simpl in Hfs. apply andb_true_iff in Hfs. destruct Hfs as [Hfs Fk]. apply andb_true_iff in Hfs. destruct Hfs as [Fx Fb].
  destruct (call_or_not body) as [[fn [args [o ->]]]|NC].
  - rewrite tc_new_call_eq in H. unfold tc_new_call in H. cbv zeta in H.
    step H. apply negb_true_iff in G. rename G into PX.
    step H. step H. step H. pose proof (reuse_guards _ _ G G0) as RU.
    step H. destruct a as [gl gr0].
    destruct (split_gamma_sound D HDw _ _ _ _ _ Wg (Forall_nil _) E) as [SP [Wgl Wgr]].
    destruct (split_ctx_good _ HD _ _ _ _ _ SP Gg (gctx_nil _)) as [Ggl Ggr].
    destruct (split_ctx_facts _ _ _ _ _ SP Gg) as [SR [SS [SN [SI _]]]].
    destruct (sig_lookup Sg fn) as [sg|] eqn:SL; [|discriminate H].
    destruct (HSgw _ _ SL) as [[ft [Eft Wft]] Wps]. rewrite Eft in H.
    destruct (HSg _ _ SL) as [Gft Gps].
    unf HDw H Wft.
    step H. clear E0. step H. step H. step H. step H. step H. injection H as <-.
    pose proof (good_head _ HD _ _ Hh (Gft _ Eft)) as Gh.
    assert (EQ : aset (ident x) (Some h) (if ctx_has g (ident x) then aset (ident x) (nty x) gr0 else gr0)
                 = bind gr0 x h) by (destruct (ctx_has g (ident x)); [apply aset_aset|reflexivity]).
    rewrite EQ in E2.
    pose proof (bd_ok_binder _ Hsyn (not_provider_not_self _ _ PX)) as Hbx.
    rewrite (under_strict _ _ (proj2 Hbx)) in N.
    eapply T_New with (A := h).
    + exact Hbx.
    + apply not_prov_shid; auto.
    + eapply (leaf_call fn args o gl (Some x) h _ Γ rs None); eauto.
      * apply SR; auto. apply ctx_rel_nil.
      * split.
        -- intros n Hin Sf Hp Hc. exfalso. destruct (SI n (in_nonself _ _ Hin Sf)) as [_ Hg].
           rewrite Hg in Hc. discriminate.
        -- intros; discriminate.
        -- right. exact SN.
    + eapply (IHk (bind gr0 x h) sh); eauto.
      * apply gctx_bind; auto.
      * apply shadow_fresh_bind; auto. eapply shadow_fresh_sub; eauto.
      * apply (ctx_rel_bind gr0 Γ x h). eapply ctx_rel_sub; eauto.
  - rewrite (tc_new_ax_eq _ _ _ _ _ _ _ _ NC) in H. unfold tc_new_ax in H. cbv zeta in H.
    step H. apply negb_true_iff in G. rename G into PX.
    step H. step H. step H. pose proof (reuse_guards _ _ G G0) as RU. apply negb_true_iff in G1.
    step H. destruct a as [gl gr0].
    destruct (split_gamma_sound D HDw _ _ _ _ _ Wg (Forall_nil _) E) as [SP [Wgl Wgr]].
    destruct (split_ctx_good _ HD _ _ _ _ _ SP Gg (gctx_nil _)) as [Ggl Ggr].
    destruct (split_ctx_facts _ _ _ _ _ SP Gg) as [SR [SS [SN [SI _]]]].
    destruct (nty x) as [xt|] eqn:Nx; [|discriminate H].
    step H. step H. rename a into xt1.
    assert (Gx1 : good D xt1).
    { split; [exact G2|]. eapply add_missing_syn; eauto. unfold name_syn in Fx. rewrite Nx in Fx. exact Fx. }
    unf HDw H G2.
    step H. step H. step H. cbn [unfold_opt] in H.
    rewrite (unfold_nonname _ _ (head_nonname _ _ _ Hh)) in H. cbn [lift tbind] in H.
    step H. step H. injection H as <-.
    pose proof (good_head _ HD _ _ Hh Gx1) as Gh.
    assert (EQ : aset (ident x) (Some h) (if ctx_has g (ident x) then aset (ident x) (Some xt) gr0 else gr0)
                 = bind gr0 x h) by (destruct (ctx_has g (ident x)); [apply aset_aset|reflexivity]).
    rewrite EQ in E5.
    rewrite (free_names_leaf _ G1) in SN, SI. rewrite nonself_idem in SN, SI.
    pose proof (bd_ok_binder _ Hsyn (not_provider_not_self _ _ PX)) as Hbx.
    rewrite (under_strict _ _ (proj2 Hbx)) in N.
    eapply T_New with (A := h).
    + exact Hbx.
    + apply not_prov_shid; auto.
    + eapply (leaf_all body G1 gl (Some (set_nty x (Some h))) h _ Γ rs None); eauto.
      * apply SR; auto. apply ctx_rel_nil.
      * split.
        -- intros n Hin Sf Hp Hc. exfalso. destruct (SI n (in_nonself _ _ Hin Sf)) as [_ Hg].
           rewrite Hg in Hc. discriminate.
        -- intros; discriminate.
        -- right. exact SN.
    + eapply (IHk (bind gr0 x h) sh); eauto.
      * apply gctx_bind; auto.
      * apply shadow_fresh_bind; auto. eapply shadow_fresh_sub; eauto.
      * apply (ctx_rel_bind gr0 Γ x h). eapply ctx_rel_sub; eauto.
Qed.

Theorem rt_form_all : (forall f, RtAt f) /\ (forall b, RtBrs b).
Proof.
  apply form_branches_ind; intros.
  - apply leaf_rt, leaf_send.
  - now apply rt_recv.
  - apply leaf_rt, leaf_sel.
  - now apply rt_case.
  - now apply rt_new.
  - apply leaf_rt, leaf_close.
  - now apply rt_wait.
  - apply leaf_rt, leaf_fwd.
  - now apply rt_split.
  - apply leaf_rt, leaf_call.
  - apply leaf_rt, leaf_cast.
  - now apply rt_shift.
  - now apply rt_drop.
  - now apply rt_print.
  - apply rt_brs_nil.
  - now apply rt_brs_cons.
Qed.

Theorem tc_form_rt g sh A f f' Γ rs :
  gctx D g -> good D A -> shadow_fresh g sh -> tc_form D Sg g sh (Some A) f = TOk f' ->
  ctx_rel g Γ -> syn_form rs f = true -> form_syn f = true ->
  typed ∅ Γ (shid sh) rs A f'.
Proof. intros. eapply (proj1 rt_form_all); eauto. Qed.

End RtTc.
