(* RtTcSound.v — what the typechecker model returns is typed in the RUN-TIME judgement
   (spec/RtTyping.v), form by form: `tc_form D Sg g sh (Some A) f = TOk f'` implies
   `typed D F teq ∅ Γ sh' rs A f'` for every structural context Γ that covers the checker's linear
   context g.  The output f' is f with the annotations (nty) the interpreter reads; the declarative
   system of spec/Typing.v (C07) says nothing about them, so this goes through the algorithm once more,
   with the inversion tactics of proofs/TypingSound.v.
   Type agreement `teq` is a parameter; what is needed of it: it contains the answers of EqualType on
   good types (well-formed and syn_ok), is symmetric and transitive, and relates a good type to its
   unfolding. *)
From stdpp Require Import gmap strings.
Require Import Grits.Base Grits.ModeDefs Grits.Modes Grits.STypes Grits.Forms Grits.Subst Grits.Infer
               Grits.TcDeps Grits.Expand Grits.Tc Grits.TcTop Grits.EqualWF Grits.spec.SynOk Grits.spec.Typing
               Grits.proofs.TcLemmas Grits.proofs.TcUnfold Grits.proofs.TypingSound Grits.proofs.TeqMono
               Grits.Runtime Grits.spec.RtTyping Grits.proofs.RtSubst Grits.proofs.RtTcSyn.

(* ------------------------------------------------------------------ association lists *)
Lemma alookup_aremove_ne {V} k x (m : list (string * V)) : x <> k -> alookup x (aremove k m) = alookup x m.
Proof.
  intros Hne. induction m as [|[k' v] m IH]; simpl; auto.
  destruct (String.eqb k k') eqn:E1.
  - apply String.eqb_eq in E1. subst k'. rewrite IH. destruct (String.eqb x k) eqn:E2; auto.
    apply String.eqb_eq in E2. contradiction.
  - simpl. rewrite IH. reflexivity.
Qed.
Lemma alookup_aremove_eq {V} k (m : list (string * V)) : alookup k (aremove k m) = None.
Proof.
  induction m as [|[k' v] m IH]; simpl; auto.
  destruct (String.eqb k k') eqn:E1; auto. simpl. rewrite E1. auto.
Qed.
Lemma alookup_aremove_Some {V} k x (m : list (string * V)) v : alookup x (aremove k m) = Some v -> x <> k /\ alookup x m = Some v.
Proof.
  intros H. destruct (String.eqb x k) eqn:E.
  - apply String.eqb_eq in E. subst x. rewrite alookup_aremove_eq in H. discriminate.
  - apply String.eqb_neq in E. rewrite alookup_aremove_ne in H by auto. auto.
Qed.
Lemma alookup_aset {V} k x (v : V) m : alookup x (aset k v m) = if String.eqb x k then Some v else alookup x m.
Proof.
  unfold aset. simpl. destruct (String.eqb x k) eqn:E; auto.
  apply String.eqb_neq in E. apply alookup_aremove_ne; auto.
Qed.
Lemma alookup_nil_all {V} (m : list (string * V)) : m = [] -> forall x, alookup x m = None.
Proof. intros ->. reflexivity. Qed.

(* the two copies of head unfolding *)
Lemma whd_of_head D t h : Typing.head D t h -> whd D t h.
Proof. induction 1; [constructor; auto|econstructor; eauto]. Qed.

Definition shid (sh : option name) : option string := match sh with Some s => Some (ident s) | None => None end.

(* the names of a form without continuation, in the order free_names lists them *)
Definition leaf_names (f : form) : list name :=
  match f with
  | FSend a b c => [a; b; c]
  | FSel a _ c => [a; c]
  | FClose c => [c]
  | FFwd a b _ => [a; b]
  | FCall _ args _ => args
  | FCast a c => [a; c]
  | _ => []
  end.
Definition nonself (l : list name) : list name := filter (fun n => negb (is_self n)) l.

Section RtTc.
Variable teq : tenv -> sty -> sty -> Prop.
Variable D : tenv.
Variable Sg : sigma.
Variable F : list fundef.
Hypothesis HD : genv D.
Hypothesis Heq : forall s t, good D s -> good D t -> equal_type D s t = Ok true -> teq D s t.
Hypothesis Hrefl : forall t, teq D t t.
Hypothesis Hsym : forall s t, teq D s t -> teq D t s.
Hypothesis Htrans : forall s t u, teq D s t -> teq D t u -> teq D s u.
Hypothesis Hunf : forall t h, good D t -> Typing.head D t h -> teq D h t.
Hypothesis HSg : gsigma D Sg.
Hypothesis HSgw : wf_sigma D Sg.
(* the function table the interpreter uses agrees with the signatures the checker used *)
Hypothesis HF : forall fn sg, sig_lookup Sg fn = Some sg ->
  forall n, (n = length (fs_params sg) \/ n = S (length (fs_params sg))) ->
  exists fd tf h, get_function F fn n = Some fd /\ fn_params fd = fs_params sg /\
                  fn_type fd = Some tf /\ good D tf /\ fs_type sg = Some h /\ Typing.head D tf h.

Let HDw : wf_env D := proj1 HD.

Local Notation typed := (typed D F (teq D)).
Local Notation client_ty := (client_ty (teq D)).

(* Γ covers the linear context g, up to type agreement *)
Definition ctx_rel (g : ctx) (Γ : gmap string sty) : Prop :=
  forall x t, alookup x g = Some (Some t) -> exists t', Γ !! x = Some t' /\ teq D t' t.
Definition shadow_fresh (g : ctx) (sh : option name) : Prop :=
  forall s, sh = Some s -> alookup (ident s) g = None.

Lemma gctx_wf g : gctx D g -> wf_ctx D g.
Proof.
  unfold gctx, wf_ctx. intros H. eapply Forall_impl; [|exact H]. intros kv [s [E [W _]]]. exists s. auto.
Qed.

Lemma ctx_rel_without g Γ n : ctx_rel g Γ -> ctx_rel (without g n) Γ.
Proof. intros H x t L. unfold without in L. apply alookup_aremove_Some in L. destruct L. eauto. Qed.
Lemma ctx_rel_bind g Γ n t : ctx_rel g Γ -> ctx_rel (bind g n t) (<[ident n := t]> Γ).
Proof.
  intros H x t0 L. unfold bind in L. rewrite alookup_aset in L.
  destruct (String.eqb x (ident n)) eqn:E.
  - apply String.eqb_eq in E. subst x. injection L as <-. rewrite lookup_insert. eauto.
  - apply String.eqb_neq in E. rewrite lookup_insert_ne by auto. eauto.
Qed.
Lemma ctx_rel_delete g Γ c : ctx_rel g Γ -> alookup c g = None -> ctx_rel g (delete c Γ).
Proof.
  intros H Hc x t L. destruct (H x t L) as [t' [H1 H2]]. exists t'. split; auto.
  rewrite lookup_delete_ne; auto. intros <-. congruence.
Qed.

(* ------------------------------------------------------------------ names *)
Lemma has_without g a n t : has (without g a) n t -> has g n t /\ ident n <> ident a.
Proof. intros [S L]. unfold without in L. apply alookup_aremove_Some in L. destruct L. split; [split|]; auto. Qed.
Lemma has_ctx g n t : has g n t -> ctx_has g (ident n) = true.
Proof. intros [_ L]. unfold ctx_has. apply amem_true. eauto. Qed.

Lemma geq a b : good D a -> good D b -> equal_opt D (Some a) (Some b) = TOk true -> teq D a b.
Proof.
  intros Ga Gb Q. apply equal_opt_true in Q. destruct Q as [s [t [E1 [E2 Q]]]].
  inversion E1; inversion E2; subst. auto.
Qed.

(* a client occurrence, annotated by the checker with the unfolded type of the name *)
Lemma client_ok g Γ msh rs n t h T :
  gctx D g -> ctx_rel g Γ -> has g n t -> Typing.head D t h -> nm_ok rs n = true ->
  msh <> Some (ident n) -> teq D t T ->
  client_ty ∅ Γ msh (set_nty n (Some h)) T.
Proof.
  intros Gg HR Hn Hh Hok Hm HT. pose proof (gctx_has _ _ _ _ Gg Hn) as Gt.
  destruct Hn as [Hs L]. split; [exact Hs|]. split.
  - exists h. simpl. split; auto. split; [eapply head_nonname; eauto|]. eapply Htrans; [|exact HT]. apply Hunf; auto.
  - simpl. rewrite (nm_ok_chan _ _ Hok). split; auto.
    destruct (HR _ _ L) as [t' [H1 H2]]. exists t'. split; auto. eapply Htrans; eauto.
Qed.

Lemma client_ok' g Γ msh rs n t h T :
  ctx_rel g Γ -> has g n t -> is_name h = false -> teq D h T -> nm_ok rs n = true ->
  msh <> Some (ident n) -> teq D t T ->
  client_ty ∅ Γ msh (set_nty n (Some h)) T.
Proof.
  intros HR [Hs L] Hn Hh Hok Hm HT. split; [exact Hs|]. split.
  - exists h. simpl. auto.
  - simpl. rewrite (nm_ok_chan _ _ Hok). split; auto.
    destruct (HR _ _ L) as [t' [H1 H2]]. exists t'. split; auto. eapply Htrans; eauto.
Qed.

(* a provider designator *)
Lemma prov_ok msh rs n t :
  nm_ok rs n = true -> (is_self n = false -> msh = Some (ident n)) -> prov_name msh rs (set_nty n t).
Proof.
  intros Hok Hm. split; [exact (nm_ok_chan _ _ Hok)|]. simpl.
  destruct (is_self n) eqn:S; [left; split; auto; eapply nm_ok_self; eauto|right; split; auto].
Qed.

(* what a leaf form must be told about the names the checker treats as the provider *)
Record leaf_obl (g : ctx) (sh : option name) (msh : option string) (f : form) : Prop := {
  lo_prov : forall n, In n (leaf_names f) -> is_self n = false -> is_provider n sh = true ->
            ctx_has g (ident n) = false -> msh = Some (ident n);
  lo_client : forall n, In n (leaf_names f) -> is_self n = false -> ctx_has g (ident n) = true ->
              msh <> Some (ident n);
  lo_lin : (forall n, In n (leaf_names f) -> is_self n = false -> is_provider n sh = true ->
                      ctx_has g (ident n) = false) \/
           NoDup (map ident (nonself (leaf_names f)))
}.

Definition LeafAt (f : form) : Prop := forall g sh A f' Γ rs msh,
  gctx D g -> good D A -> tc_form D Sg g sh (Some A) f = TOk f' ->
  ctx_rel g Γ -> syn_form rs f = true -> leaf_obl g sh msh f ->
  typed ∅ Γ msh rs A f'.

(* everything in g has been consumed by the names removed: a key of g is one of them *)
Lemma consumed2 g a b k : without (without g a) b = [] -> ctx_has g k = true -> k = ident a \/ k = ident b.
Proof.
  intros E Hk. destruct (String.eqb k (ident a)) eqn:E1; [apply String.eqb_eq in E1; auto|].
  destruct (String.eqb k (ident b)) eqn:E2; [apply String.eqb_eq in E2; auto|].
  apply String.eqb_neq in E1. apply String.eqb_neq in E2. exfalso.
  unfold ctx_has in Hk. apply amem_true in Hk. destruct Hk as [v Hv].
  assert (alookup k (without (without g a) b) = Some v).
  { unfold without. rewrite !alookup_aremove_ne by auto. exact Hv. }
  rewrite E in H. discriminate.
Qed.
Lemma consumed1 g a k : without g a = [] -> ctx_has g k = true -> k = ident a.
Proof.
  intros E Hk. destruct (String.eqb k (ident a)) eqn:E1; [apply String.eqb_eq in E1; auto|].
  apply String.eqb_neq in E1. exfalso.
  unfold ctx_has in Hk. apply amem_true in Hk. destruct Hk as [v Hv].
  assert (alookup k (without g a) = Some v) by (unfold without; rewrite alookup_aremove_ne by auto; exact Hv).
  rewrite E in H. discriminate.
Qed.

Ltac syn_split H := simpl in H; repeat (apply andb_true_iff in H; let H2 := fresh "N" in destruct H as [H H2]).

(* a provider designator that is not `self` is not a key of the (fully consumed) context *)
Ltac nodup_contra Hnd :=
  unfold nonself in Hnd; simpl in Hnd;
  repeat match goal with Hs : is_self ?x = false |- _ => rewrite Hs in Hnd end; simpl in Hnd;
  repeat match goal with
         | Hn : NoDup (_ :: _) |- _ => apply NoDup_cons_iff in Hn; destruct Hn
         end; simpl in *; intuition congruence.

Lemma leaf_send to pay cont : LeafAt (FSend to pay cont).
Proof.
  intros g sh A f' Γ rs msh Gg GA H HR Hsyn Hob. pose proof (gctx_wf _ Gg) as Wg. pose proof (proj1 GA) as WA.
  cbn [tc_form] in H. syn_split Hsyn.
  destruct (is_provider to sh) eqn:Pto.
  - (* tensor R *)
    unf HDw H WA. as3 H as_tensor as_tensor_some.
    destruct (good_tensor _ _ _ _ (good_head _ HD _ _ Hh GA)) as [Gel Ger].
    cnso H Wg; [|cbn in H; destruct (consume_opt cont g0) as [fr g2]; destruct fr; cbn in H; try step H; discriminate H].
    unf HDw H Wt.
    cnso H Wg0; [|cbn in H; discriminate H].
    unf HDw H Wt0. cbn [Tc.guard tbind] in H.
    eqs H. eqs H. step H. step H. apply linear_gamma_ok in E0. injection H as <-.
    destruct (has_without _ _ _ _ Has0) as [Hasc Hnec].
    pose proof (gctx_has _ _ _ _ Gg Has) as Gt. pose proof (gctx_has _ _ _ _ Gg Hasc) as Gt0.
    pose proof (good_head _ HD _ _ Hh0 Gt) as Gh. pose proof (good_head _ HD _ _ Hh1 Gt0) as Gh0.
    pose proof (geq _ _ Gel Gh Q) as Q1. pose proof (geq _ _ Ger Gh0 Q0) as Q2.
    pose proof (proj1 Has) as Sp. pose proof (proj1 Hasc) as Sc.
    eapply T_SendP with (A := s) (B := s0) (m := m).
    + apply prov_ok; auto. intros Sf. apply (lo_prov _ _ _ _ Hob to); simpl; auto.
      destruct (lo_lin _ _ _ _ Hob) as [Hl|Hnd]; [apply Hl; simpl; auto|].
      destruct (ctx_has g (ident to)) eqn:Ec; auto. exfalso.
      destruct (consumed2 _ _ _ _ E0 Ec); nodup_contra Hnd.
    + apply whd_of_head. exact Hh.
    + apply (client_ok g Γ msh rs pay t h s Gg HR Has Hh0 N0).
      * apply (lo_client _ _ _ _ Hob pay); simpl; auto. eapply has_ctx; eauto.
      * eapply Htrans; [apply Hsym, Hunf; eauto|apply Hsym; exact Q1].
    + apply (client_ok g Γ msh rs cont t0 h0 s0 Gg HR Hasc Hh1 N).
      * apply (lo_client _ _ _ _ Hob cont); simpl; auto. eapply has_ctx; eauto.
      * eapply Htrans; [apply Hsym, Hunf; eauto|apply Hsym; exact Q2].
  - (* lolli L *)
    destruct (is_provider cont sh) eqn:Pc; [|discriminate H].
    cns H Wg. unf HDw H Wt. as3 H as_lolli as_lolli_some.
    pose proof (gctx_has _ _ _ _ Gg Has) as Gt.
    destruct (good_lolli _ _ _ _ (good_head _ HD _ _ Hh Gt)) as [Gel Ger].
    pose proof (proj1 Gel) as Wel. pose proof (proj1 Ger) as Wer.
    cnso H Wg0.
    2:{ rewrite (consume_maybe_self_opt_prov _ _ _ _ Pc) in H. unf HDw H Wel. unf HDw H Wer.
        cbn [unfold_opt tbind] in H. step H. cbn in H. discriminate H. }
    rewrite (consume_maybe_self_opt_prov _ _ _ _ Pc) in H.
    unf HDw H Wel. unf HDw H Wer. unf HDw H Wt0. unf HDw H WA. cbn [Tc.guard tbind] in H.
    eqs H. eqs H. step H. step H. apply linear_gamma_ok in E0. injection H as <-.
    destruct (has_without _ _ _ _ Has0) as [Hasp Hnep].
    pose proof (gctx_has _ _ _ _ Gg Hasp) as Gt0.
    pose proof (good_head _ HD _ _ Hh0 Gel) as Gh. pose proof (good_head _ HD _ _ Hh1 Ger) as Gh0.
    pose proof (good_head _ HD _ _ Hh2 Gt0) as Gh1. pose proof (good_head _ HD _ _ Hh3 GA) as Gh2.
    pose proof (geq _ _ Gh Gh1 Q) as Q1. pose proof (geq _ _ Gh0 Gh2 Q0) as Q2.
    pose proof (proj1 Has) as St. pose proof (proj1 Hasp) as Sp.
    eapply T_SendC with (T := t) (A := s) (B := s0) (m := m).
    + apply (client_ok g Γ msh rs to t _ t Gg HR Has Hh Hsyn); [|apply Hrefl].
      apply (lo_client _ _ _ _ Hob to); simpl; auto. eapply has_ctx; eauto.
    + apply whd_of_head. exact Hh.
    + apply (client_ok g Γ msh rs pay t0 h1 s Gg HR Hasp Hh2 N0).
      * apply (lo_client _ _ _ _ Hob pay); simpl; auto. eapply has_ctx; eauto.
      * eapply Htrans; [apply Hsym, Hunf; eauto|]. eapply Htrans; [apply Hsym; exact Q1|]. apply Hunf; auto.
    + apply prov_ok; auto. intros Sf. apply (lo_prov _ _ _ _ Hob cont); simpl; auto.
      destruct (lo_lin _ _ _ _ Hob) as [Hl|Hnd]; [apply Hl; simpl; auto|].
      destruct (ctx_has g (ident cont)) eqn:Ec; auto. exfalso.
      destruct (consumed2 _ _ _ _ E0 Ec); nodup_contra Hnd.
    + eapply Htrans; [apply Hsym, Hunf; eauto|]. eapply Htrans; [exact Q2|]. apply Hunf; auto.
Qed.

Lemma leaf_sel to l cont : LeafAt (FSel to l cont).
Proof.
  intros g sh A f' Γ rs msh Gg GA H HR Hsyn Hob. pose proof (gctx_wf _ Gg) as Wg. pose proof (proj1 GA) as WA.
  cbn [tc_form] in H. syn_split Hsyn.
  destruct (is_provider to sh) eqn:Pto.
  - (* plus R *)
    unf HDw H WA. as2 H as_plus as_plus_some.
    destruct (find_br l b) as [ct|] eqn:Fb; [|discriminate H].
    pose proof (good_plus _ _ _ _ _ (good_head _ HD _ _ Hh GA) Fb) as Gct. pose proof (proj1 Gct) as Wct.
    cns H Wg. eqs H. unf HDw H Wct. step H. step H. apply linear_gamma_ok in E0. injection H as <-.
    pose proof (gctx_has _ _ _ _ Gg Has) as Gt. pose proof (proj1 Has) as Sc.
    pose proof (geq _ _ Gct Gt Q) as Q1.
    eapply T_SelP with (bs := b) (A := ct).
    + apply prov_ok; auto. intros Sf. apply (lo_prov _ _ _ _ Hob to); simpl; auto.
      destruct (lo_lin _ _ _ _ Hob) as [Hl|Hnd]; [apply Hl; simpl; auto|].
      destruct (ctx_has g (ident to)) eqn:Ec; auto. exfalso.
      pose proof (consumed1 _ _ _ E0 Ec). nodup_contra Hnd.
    + apply whd_of_head. exact Hh.
    + exact Fb.
    + apply (client_ok' g Γ msh rs cont t h ct HR Has (head_nonname _ _ _ Hh0) (Hunf _ _ Gct Hh0) N).
      * apply (lo_client _ _ _ _ Hob cont); simpl; auto. eapply has_ctx; eauto.
      * apply Hsym. exact Q1.
  - (* with L *)
    destruct (is_provider cont sh) eqn:Pc; [|discriminate H].
    cns H Wg. unf HDw H Wt. as2 H as_with as_with_some.
    destruct (find_br l b) as [ct|] eqn:Fb; [|discriminate H].
    pose proof (gctx_has _ _ _ _ Gg Has) as Gt.
    pose proof (good_with _ _ _ _ _ (good_head _ HD _ _ Hh Gt) Fb) as Gct. pose proof (proj1 Gct) as Wct.
    rewrite (consume_maybe_self_prov _ _ _ _ Pc) in H. cbn [tbind] in H.
    eqs H. unf HDw H Wct. step H. step H. apply linear_gamma_ok in E0. injection H as <-.
    pose proof (geq _ _ Gct GA Q) as Q1. pose proof (proj1 Has) as St.
    eapply T_SelC with (T := t) (bs := b) (A := ct).
    + apply (client_ok g Γ msh rs to t _ t Gg HR Has Hh Hsyn); [|apply Hrefl].
      apply (lo_client _ _ _ _ Hob to); simpl; auto. eapply has_ctx; eauto.
    + apply whd_of_head. exact Hh.
    + exact Fb.
    + apply prov_ok; auto. intros Sf. apply (lo_prov _ _ _ _ Hob cont); simpl; auto.
      destruct (lo_lin _ _ _ _ Hob) as [Hl|Hnd]; [apply Hl; simpl; auto|].
      destruct (ctx_has g (ident cont)) eqn:Ec; auto. exfalso.
      pose proof (consumed1 _ _ _ E0 Ec). nodup_contra Hnd.
    + exact Q1.
Qed.

Lemma leaf_close c : LeafAt (FClose c).
Proof.
  intros g sh A f' Γ rs msh Gg GA H HR Hsyn Hob. pose proof (gctx_wf _ Gg) as Wg. pose proof (proj1 GA) as WA.
  cbn [tc_form] in H. simpl in Hsyn.
  unf HDw H WA.
  destruct (is_provider c sh) eqn:Pc.
  - destruct (is_unit (Some h)) eqn:Un; [|now apply type_mismatch_not_ok in H].
    apply is_unit_some in Un. destruct Un as [m Un]. inversion Un; subst h.
    step H. step H. apply linear_gamma_ok in E0. subst g. injection H as <-.
    eapply T_Close with (m := m); [|apply whd_of_head; exact Hh].
    apply prov_ok; auto. intros Sf. apply (lo_prov _ _ _ _ Hob c); simpl; auto.
  - destruct (is_unit (Some h)); [discriminate H|now apply type_mismatch_not_ok in H].
Qed.

Lemma leaf_fwd to from d : LeafAt (FFwd to from d).
Proof.
  intros g sh A f' Γ rs msh Gg GA H HR Hsyn Hob. pose proof (gctx_wf _ Gg) as Wg. pose proof (proj1 GA) as WA.
  cbn [tc_form] in H. syn_split Hsyn.
  destruct (is_provider from sh) eqn:Pf; [discriminate H|].
  destruct (is_provider to sh) eqn:Pt; [|discriminate H]. cbn [negb] in H.
  cnso H Wg; [|cbn in H; discriminate H].
  unf HDw H Wt. cbn [Tc.guard tbind] in H.
  eqs H. unf HDw H WA. cbn [need tbind] in H.
  step H. step H. step H. apply pol_eqb_eq in G. subst.
  step H. step H. apply linear_gamma_ok in E2. injection H as <-.
  pose proof (gctx_has _ _ _ _ Gg Has) as Gt. pose proof (good_head _ HD _ _ Hh Gt) as Gh.
  pose proof (geq _ _ GA Gh Q) as Q1. pose proof (proj1 Has) as Sf.
  eapply T_Fwd.
  - apply prov_ok; auto. intros St. apply (lo_prov _ _ _ _ Hob to); simpl; auto.
    destruct (lo_lin _ _ _ _ Hob) as [Hl|Hnd]; [apply Hl; simpl; auto|].
    destruct (ctx_has g (ident to)) eqn:Ec; auto. exfalso.
    pose proof (consumed1 _ _ _ E2 Ec). nodup_contra Hnd.
  - apply (client_ok g Γ msh rs from t h A Gg HR Has Hh N).
    + apply (lo_client _ _ _ _ Hob from); simpl; auto. eapply has_ctx; eauto.
    + eapply Htrans; [apply Hsym, Hunf; eauto|apply Hsym; exact Q1].
Qed.

Lemma leaf_cast to cont : LeafAt (FCast to cont).
Proof.
  intros g sh A f' Γ rs msh Gg GA H HR Hsyn Hob. pose proof (gctx_wf _ Gg) as Wg. pose proof (proj1 GA) as WA.
  cbn [tc_form] in H. syn_split Hsyn.
  destruct (is_provider to sh) eqn:Pto.
  - (* down R *)
    unf HDw H WA. as3 H as_down as_down_some.
    pose proof (good_down _ _ _ _ (good_head _ HD _ _ Hh GA)) as Ga. pose proof (proj1 Ga) as Wa.
    step H. step H. subst. apply down_o_true in E.
    unf HDw H Wa.
    cnso H Wg; [|cbn in H; discriminate H].
    unf HDw H Wt. cbn [Tc.guard need tbind] in H.
    step H. eqs H. step H. step H. apply linear_gamma_ok in E1. injection H as <-.
    pose proof (gctx_has _ _ _ _ Gg Has) as Gt.
    pose proof (good_head _ HD _ _ Hh0 Ga) as Gh0. pose proof (good_head _ HD _ _ Hh1 Gt) as Gh1.
    pose proof (geq _ _ Gh0 Gh1 Q) as Q1. pose proof (proj1 Has) as Sc.
    eapply T_CastP with (A := s).
    + apply prov_ok; auto. intros Sf. apply (lo_prov _ _ _ _ Hob to); simpl; auto.
      destruct (lo_lin _ _ _ _ Hob) as [Hl|Hnd]; [apply Hl; simpl; auto|].
      destruct (ctx_has g (ident to)) eqn:Ec; auto. exfalso.
      pose proof (consumed1 _ _ _ E1 Ec). nodup_contra Hnd.
    + apply whd_of_head. exact Hh.
    + apply (client_ok g Γ msh rs cont t h0 s Gg HR Has Hh1 N).
      * apply (lo_client _ _ _ _ Hob cont); simpl; auto. eapply has_ctx; eauto.
      * eapply Htrans; [apply Hsym, Hunf; eauto|]. eapply Htrans; [apply Hsym; exact Q1|]. apply Hunf; auto.
  - (* up L *)
    destruct (is_provider cont sh) eqn:Pc; [|discriminate H].
    cns H Wg. unf HDw H Wt. as3 H as_up as_up_some.
    pose proof (gctx_has _ _ _ _ Gg Has) as Gt.
    pose proof (good_up _ _ _ _ (good_head _ HD _ _ Hh Gt)) as Ga. pose proof (proj1 Ga) as Wa.
    step H. step H. subst. apply up_o_true in E.
    rewrite (consume_maybe_self_opt_prov _ _ _ _ Pc) in H.
    unf HDw H Wa. unf HDw H WA. cbn [Tc.guard need tbind] in H.
    step H. eqs H. step H. step H. apply linear_gamma_ok in E1. injection H as <-.
    pose proof (good_head _ HD _ _ Hh0 Ga) as Gh0. pose proof (good_head _ HD _ _ Hh1 GA) as Gh1.
    pose proof (geq _ _ Gh0 Gh1 Q) as Q1. pose proof (proj1 Has) as St.
    eapply T_CastC with (T := t) (A := s).
    + apply (client_ok g Γ msh rs to t _ t Gg HR Has Hh Hsyn); [|apply Hrefl].
      apply (lo_client _ _ _ _ Hob to); simpl; auto. eapply has_ctx; eauto.
    + apply whd_of_head. exact Hh.
    + apply prov_ok; auto. intros Sf. apply (lo_prov _ _ _ _ Hob cont); simpl; auto.
      destruct (lo_lin _ _ _ _ Hob) as [Hl|Hnd]; [apply Hl; simpl; auto|].
      destruct (ctx_has g (ident cont)) eqn:Ec; auto. exfalso.
      pose proof (consumed1 _ _ _ E1 Ec). nodup_contra Hnd.
    + eapply Htrans; [apply Hsym, Hunf; eauto|]. eapply Htrans; [exact Q1|]. apply Hunf; auto.
Qed.

(* ------------------------------------------------------------------ call *)
Lemma ctx_has_without g a k : ctx_has (without g a) k = true -> ctx_has g k = true.
Proof.
  unfold ctx_has. rewrite !amem_true. intros [v Hv]. unfold without in Hv.
  apply alookup_aremove_Some in Hv. destruct Hv. eauto.
Qed.

Lemma rt_args Γ msh rs : forall args params g args' g',
  gctx D g -> Forall (fun p => forall tp, nty p = Some tp -> good D tp) params ->
  Forall (typed_name_ok D) params -> length args = length params ->
  tc_args D g args params = TOk (args', g') ->
  ctx_rel g Γ -> forallb (nm_ok rs) args = true ->
  (forall a, In a args -> is_self a = false -> ctx_has g (ident a) = true -> msh <> Some (ident a)) ->
  args_ok (teq D) ∅ Γ msh args' params /\ length args' = length args /\
  (forall k, ctx_has g k = true -> ctx_has g' k = true \/ exists a, In a args /\ is_self a = false /\ k = ident a).
Proof.
  induction args as [|a ar IH]; intros [|p pr] g args' g' Gg Gp Wp L H HR Hok Hm; try discriminate L.
  - cbn in H. inversion H; subst. split; [constructor|]. split; auto.
  - cbn [tc_args] in H. pose proof (gctx_wf _ Gg) as Wg.
    inversion Wp as [|p0 pr0 [tp [Np Wtp]] Wpr]; subst. inversion Gp as [|p1 pr1 Gtp Gpr]; subst.
    simpl in Hok. apply andb_true_iff in Hok. destruct Hok as [Hoka Hokr].
    cns H Wg. rewrite Np in H. eqs H. unf HDw H Wt. step H.
    step H. destruct a0 as [ar' g2]. inversion H; subst.
    pose proof (gctx_has _ _ _ _ Gg Has) as Gt. pose proof (Gtp _ Np) as Gtp'.
    pose proof (geq _ _ Gt Gtp' Q) as Q1.
    destruct (IH pr (without g a) ar' g' (gctx_without _ _ _ Gg) Gpr Wpr) as [IH1 [IH2 IH3]]; auto.
    { apply ctx_rel_without; auto. }
    { intros a' Ha' Sa' Hc'. apply Hm; auto. right; auto. eapply ctx_has_without; eauto. }
    split; [|split].
    + constructor; auto. exists tp. split; auto.
      apply (client_ok g Γ msh rs a t h tp Gg HR Has Hh Hoka); auto.
      apply Hm; [left; auto|apply Has|eapply has_ctx; eauto].
    + simpl. rewrite IH2. reflexivity.
    + intros k Hk. destruct (String.eqb k (ident a)) eqn:Ek.
      * apply String.eqb_eq in Ek. right. exists a. split; [left; auto|]. split; [apply Has|auto].
      * apply String.eqb_neq in Ek.
        assert (Hk' : ctx_has (without g a) k = true).
        { unfold ctx_has in *. rewrite amem_true in *. destruct Hk as [v Hv]. exists v.
          unfold without. rewrite alookup_aremove_ne; auto. }
        destruct (IH3 k Hk') as [H1|[a' [H1 [H2 H3]]]]; [left; auto|].
        right. exists a'. split; [right; auto|auto].
Qed.

Lemma leaf_call fn args o : LeafAt (FCall fn args o).
Proof.
  intros g sh A f' Γ rs msh Gg GA H HR Hsyn Hob. pose proof (gctx_wf _ Gg) as Wg. pose proof (proj1 GA) as WA.
  cbn [tc_form] in H. simpl in Hsyn.
  destruct (sig_lookup Sg fn) as [sg|] eqn:SL; [|discriminate H].
  destruct (HSgw _ _ SL) as [[ft [Eft Wft]] Wps]. rewrite Eft in H.
  destruct (HSg _ _ SL) as [Gft Gps].
  destruct (S (length (fs_params sg)) =? length args)%nat eqn:N1.
  - apply Nat.eqb_eq in N1. destruct args as [|a0 rest]; [discriminate H|].
    step H. rewrite is_provider_sym in G.
    eqs H. step H. destruct a as [rest' g1]. step H. apply linear_gamma_ok in E0. subst g1. injection H as <-.
    assert (L : length rest = length (fs_params sg)) by (cbn in N1; lia).
    simpl in Hsyn. apply andb_true_iff in Hsyn. destruct Hsyn as [Hok0 Hokr].
    destruct (HF _ _ SL (S (length (fs_params sg))) (or_intror eq_refl)) as [fd [tf [h [Hgf [Hps [Htf [Gtf [Efs Hhf]]]]]]]].
    rewrite Eft in Efs. injection Efs as ->.
    pose proof (geq _ _ GA (Gft _ Eft) Q) as Q1.
    destruct (rt_args Γ msh rs rest (fs_params sg) g rest' [] Gg Gps Wps L E HR Hokr) as [Ha [Hl Hk]].
    { intros a Ha Sa Hc. apply (lo_client _ _ _ _ Hob a); simpl; auto. }
    eapply T_Call with (fd := fd) (tf := tf).
    + simpl. rewrite Hl, L. exact Hgf.
    + exact Htf.
    + apply Hsym. eapply Htrans; [exact Q1|]. apply Hunf; auto.
    + right. exists a0, rest'. split; auto. split; [rewrite Hps; lia|]. split; [|rewrite Hps; exact Ha].
      rewrite <- (set_nty_id a0) || idtac.
      destruct (prov_ok msh rs a0 (nty a0) Hok0) as [Hp1 Hp2].
      { intros Sf. apply (lo_prov _ _ _ _ Hob a0); simpl; auto.
        destruct (lo_lin _ _ _ _ Hob) as [Hl'|Hnd]; [apply Hl'; simpl; auto|].
        destruct (ctx_has g (ident a0)) eqn:Ec; auto. exfalso.
        destruct (Hk _ Ec) as [Hx|[a [Hin [Sa Hid]]]]; [discriminate Hx|].
        clear -Hnd Sf Hin Sa Hid. simpl in Hnd. unfold nonself in Hnd. simpl in Hnd. rewrite Sf in Hnd. simpl in Hnd.
        apply NoDup_cons_iff in Hnd. destruct Hnd as [Hn _]. apply Hn. rewrite Hid.
        apply in_map. apply filter_In. split; auto. rewrite Sa. reflexivity. }
      split; auto.
  - destruct (length (fs_params sg) =? length args)%nat eqn:N2; [|discriminate H].
    apply Nat.eqb_eq in N2. symmetry in N2.
    eqs H. step H. destruct a as [args' g1]. step H. apply linear_gamma_ok in E0. subst g1. injection H as <-.
    destruct (HF _ _ SL (length (fs_params sg)) (or_introl eq_refl)) as [fd [tf [h [Hgf [Hps [Htf [Gtf [Efs Hhf]]]]]]]].
    rewrite Eft in Efs. injection Efs as ->.
    pose proof (geq _ _ GA (Gft _ Eft) Q) as Q1.
    destruct (rt_args Γ msh rs args (fs_params sg) g args' [] Gg Gps Wps N2 E HR Hsyn) as [Ha [Hl Hk]].
    { intros a Ha Sa Hc. apply (lo_client _ _ _ _ Hob a); simpl; auto. }
    eapply T_Call with (fd := fd) (tf := tf).
    + rewrite Hl, N2. exact Hgf.
    + exact Htf.
    + apply Hsym. eapply Htrans; [exact Q1|]. apply Hunf; auto.
    + left. split; [rewrite Hps; lia|rewrite Hps; exact Ha].
Qed.

End RtTc.
