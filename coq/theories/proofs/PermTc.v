(* proofs/PermTc.v — C14, permutation of declarations (verdict).
   Part 1: the checker reads the type environment only through `tlookup`, `length` and `env_size`
           (fuel), and the signature environment only through `sig_lookup`: `tc_form_ext`.
   Part 2: a permutation of type definitions with distinct names is such an environment: the verdict
           class of a program is unchanged by permuting its type definitions (`perm_types_invariant`).
   Part 3: statement order across KINDS of declarations is irrelevant already for the AST that
           ParseString builds (`expand1_kinds`), except for `exec` statements, which are numbered in
           statement order (execN): permutations are therefore stated on the expanded program. *)
Require Import Grits.Base Grits.ModeDefs Grits.Modes Grits.STypes Grits.Forms Grits.Subst Grits.Infer
               Grits.TcDeps Grits.Expand Grits.Tc Grits.TcTop
               Grits.proofs.TcInv Grits.proofs.TcEnv Grits.proofs.TcInferFuel Grits.proofs.TcEqFuel Grits.proofs.TcTotal.
Require Import Coq.Sorting.Permutation.

Definition env_eqv (D D' : tenv) : Prop :=
  (forall x, tlookup D x = tlookup D' x) /\ length D = length D' /\ env_size D = env_size D'.

Section Ext.
Variables D D' : tenv.
Hypothesis HE : env_eqv D D'.
Let Hl := proj1 HE.
Let Hn := proj1 (proj2 HE).
Let Hs := proj2 (proj2 HE).

Lemma unfold_f_ext : forall fuel t, unfold_f fuel D t = unfold_f fuel D' t.
Proof.
  induction fuel as [|fuel IH]; intros t; cbn; [reflexivity|]. destruct t; try reflexivity.
  rewrite Hl. destruct (tlookup D' x); [apply IH | reflexivity].
Qed.
Lemma unfold_ext t : unfold D t = unfold D' t.
Proof. unfold unfold. rewrite Hn. apply unfold_f_ext. Qed.

Lemma check_labels_ext :
  (forall t, check_labels D t = check_labels D' t) /\
  (forall b seen, check_labels_brs D seen b = check_labels_brs D' seen b).
Proof. apply sty_brs_ind; intros; cbn; rewrite ?Hl, ?H, ?H0; auto. Qed.
Lemma check_modes_ext :
  (forall t cur, check_modes D cur t = check_modes D' cur t) /\
  (forall b cur, check_modes_brs D cur b = check_modes_brs D' cur b).
Proof. apply sty_brs_ind; intros; cbn; rewrite ?Hl, ?H, ?H0; auto. Qed.
Lemma check_wf_ext t : check_wf D t = check_wf D' t.
Proof. unfold check_wf. now rewrite (proj1 check_labels_ext), (proj1 check_modes_ext). Qed.
Lemma sanity_types_ext ts : sanity_types D ts = sanity_types D' ts.
Proof. unfold sanity_types. induction ts as [|t ts IH]; cbn; [reflexivity|]. now rewrite check_wf_ext, IH. Qed.

Lemma contractive_f_ext : forall fuel seen t, contractive_f fuel D seen t = contractive_f fuel D' seen t.
Proof.
  induction fuel as [|fuel IH]; intros seen t; cbn; [reflexivity|]. destruct t; try reflexivity.
  destruct (str_mem x seen); [reflexivity|]. rewrite Hl. destruct (tlookup D' x); [apply IH | reflexivity].
Qed.
Lemma contractive_ext t : contractive D t = contractive D' t.
Proof. unfold contractive. rewrite Hn. apply contractive_f_ext. Qed.

Lemma infer_ext : forall fuel,
  (forall t used, infer fuel D t used = infer fuel D' t used) /\
  (forall b used, infer_brs fuel D b used = infer_brs fuel D' b used).
Proof.
  induction fuel as [|fuel [IH1 IH2]]; [split; intros; reflexivity|]. split.
  - intros t used. destruct t; cbn [infer]; rewrite ?Hl;
      repeat match goal with
      | |- (if ?c then _ else _) = _ => destruct c; try reflexivity
      | |- match tlookup D' ?x with _ => _ end = _ => destruct (tlookup D' x); try reflexivity
      end;
      repeat (rewrite ?IH1, ?IH2; try reflexivity;
              match goal with |- obind ?x _ = obind ?x _ => destruct x as [[? ?]| |]; cbn [obind]; try reflexivity end).
  - intros b used. destruct b; cbn [infer_brs]; [reflexivity|].
    repeat (rewrite ?IH1, ?IH2; try reflexivity;
            match goal with |- obind ?x _ = obind ?x _ => destruct x as [[? ?]| |]; cbn [obind]; try reflexivity end).
Qed.
Lemma infer_fuel_ext t : infer_fuel D t = infer_fuel D' t.
Proof. unfold infer_fuel. now rewrite Hn, Hs. Qed.
Lemma assign_ext :
  (forall t cur, assign D cur t = assign D' cur t) /\ (forall b cur, assign_brs D cur b = assign_brs D' cur b).
Proof. apply sty_brs_ind; intros; cbn; rewrite ?Hl, ?H, ?H0; auto. Qed.
Lemma add_missing_ext t : add_missing D t = add_missing D' t.
Proof.
  unfold add_missing. rewrite infer_fuel_ext, (proj1 (infer_ext _)).
  destruct (infer _ D' t []) as [[m u]| |]; cbn; auto. now rewrite (proj1 assign_ext).
Qed.

Lemma eq_ty_ext : forall k n s t memo, eq_ty k D n s t memo = eq_ty k D' n s t memo.
Proof.
  induction k as [|k' IHk]; [reflexivity|]. induction n as [|n' IHn]; [reflexivity|].
  intros s t memo. rewrite !eq_ty_unfold. cbv zeta.
  destruct (negb (same_ctor s t) && negb (is_name s) && negb (is_name t)); [reflexivity|].
  destruct (is_name s || is_name t).
  - destruct (str_mem (eq_key s t) memo); [reflexivity|].
    destruct s, t; rewrite ?Hl; try reflexivity;
      repeat match goal with
      | |- context [String.eqb ?a ?b] => destruct (String.eqb a b); [reflexivity|]
      | |- context [tlookup D' ?x] => destruct (tlookup D' x)
      end; try reflexivity; apply IHk.
  - destruct s, t; try reflexivity;
      repeat match goal with |- (if ?c then _ else _) = _ => destruct c; try reflexivity end;
      try (rewrite IHn; destruct (eq_ty (S k') D' n' _ _ memo) as [[[|] ?]| |]; cbn; auto; fail);
      try apply IHn.
    + generalize memo. induction bs as [|l a bs IHb]; intros mm; cbn [eq_brs_with]; [reflexivity|].
      destruct (find_br l bs0); [|reflexivity]. rewrite IHn.
      destruct (eq_ty (S k') D' n' a s mm) as [[[|] ?]| |]; cbn; auto.
    + generalize memo. induction bs as [|l a bs IHb]; intros mm; cbn [eq_brs_with]; [reflexivity|].
      destruct (find_br l bs0); [|reflexivity]. rewrite IHn.
      destruct (eq_ty (S k') D' n' a s mm) as [[[|] ?]| |]; cbn; auto.
Qed.
Lemma equal_type_ext s t : equal_type D s t = equal_type D' s t.
Proof. unfold equal_type, eq_fuel. now rewrite Hs, eq_ty_ext. Qed.

Lemma unfold_opt_ext t : unfold_opt D t = unfold_opt D' t.
Proof. destruct t; cbn [unfold_opt]; [now rewrite unfold_ext | reflexivity]. Qed.
Lemma equal_opt_ext a b : equal_opt D a b = equal_opt D' a b.
Proof. destruct a as [[]|], b as [[]|]; cbn [equal_opt]; rewrite ?equal_type_ext; reflexivity. Qed.

Lemma tbind_ext {A B} (x x' : tcr A) (k k' : A -> tcr B) :
  x = x' -> (forall a, k a = k' a) -> tbind x k = tbind x' k'.
Proof. intros -> H. destruct x'; cbn; auto. Qed.

Lemma split_gamma_ext : forall ns g acc, split_gamma D g ns acc = split_gamma D' g ns acc.
Proof.
  induction ns as [|n ns IH]; intros g acc; cbn [split_gamma]; [reflexivity|].
  destruct (is_self n); [apply IH|]. destruct (consume_opt n g) as [[t|] g']; [|reflexivity].
  apply tbind_ext; [apply unfold_opt_ext | intros; apply IH].
Qed.

Section Sg.
Variables Sg Sg' : sigma.
Hypothesis HSg : forall f, sig_lookup Sg f = sig_lookup Sg' f.

Ltac leaf :=
  rewrite ?unfold_opt_ext, ?equal_opt_ext, ?check_wf_ext, ?add_missing_ext, ?split_gamma_ext; reflexivity.

Ltac ext_step :=
  cbv zeta;
  match goal with
  | |- ?a = ?a => reflexivity
  | |- tbind (match ?x with _ => _ end) _ = tbind (match ?x with _ => _ end) _ => destruct x
  | |- tbind (tbind _ _) _ = _ => rewrite !tbind_assoc
  | |- tbind (tc_form _ _ _ _ _ _) _ = tbind _ _ => apply tbind_ext; [solve [auto] | intros ?]
  | |- tbind (tc_branches_provider _ _ _ _ _ _) _ = tbind _ _ => apply tbind_ext; [solve [auto] | intros ?]
  | |- tbind (tc_branches_client _ _ _ _ _ _ _ _) _ = tbind _ _ => apply tbind_ext; [solve [auto] | intros ?]
  | |- tbind (tc_args _ _ _ _) _ = tbind _ _ => apply tbind_ext; [solve [auto] | intros ?]
  | |- tbind _ _ = tbind _ _ => apply tbind_ext; [leaf | intros ?]
  | |- match ?x with _ => _ end = match ?x with _ => _ end => destruct x
  | |- (if ?b then _ else _) = (if ?b then _ else _) => destruct b
  | |- (let '(_, _) := ?x in _) = (let '(_, _) := ?x in _) => destruct x
  | |- type_mismatch _ _ = type_mismatch _ _ => reflexivity
  end.

Lemma tc_args_ext : forall args params g, tc_args D g args params = tc_args D' g args params.
Proof.
  induction args as [|a args IH]; intros params g; [reflexivity|]. destruct params as [|p params]; [reflexivity|].
  cbn [tc_args]. repeat ext_step.
Qed.

Definition E_form (f : form) : Prop := forall g sh pty, tc_form D Sg g sh pty f = tc_form D' Sg' g sh pty f.
Definition E_brs (b : branches) : Prop :=
  (forall g bs seen, tc_branches_provider D Sg g bs seen b = tc_branches_provider D' Sg' g bs seen b) /\
  (forall g sh pty bs seen, tc_branches_client D Sg g sh pty bs seen b = tc_branches_client D' Sg' g sh pty bs seen b).

Theorem tc_form_ext : (forall f, E_form f) /\ (forall b, E_brs b).
Proof.
  apply form_branches_ind; unfold E_form, E_brs; intros.
  - cbn [tc_form]. repeat ext_step.
  - cbn [tc_form]. repeat ext_step.
  - cbn [tc_form]. repeat ext_step.
  - rewrite !tc_form_case_eq. destruct H as [H1 H2]. repeat ext_step.
  - cbn [tc_form]. do 4 ext_step. destruct body; rewrite ?HSg; repeat ext_step.
  - cbn [tc_form]. repeat ext_step.
  - cbn [tc_form]. repeat ext_step.
  - cbn [tc_form]. repeat ext_step.
  - cbn [tc_form]. repeat ext_step.
  - cbn [tc_form]. rewrite HSg. pose proof tc_args_ext as Hargs. repeat ext_step.
  - cbn [tc_form]. repeat ext_step.
  - cbn [tc_form]. repeat ext_step.
  - cbn [tc_form]. repeat ext_step.
  - cbn [tc_form]. repeat ext_step.
  - split; intros; reflexivity.
  - destruct H0 as [H1 H2]. split; intros.
    + rewrite !tc_branches_provider_cons. repeat ext_step.
    + rewrite !tc_branches_client_cons. repeat ext_step.
Qed.
End Sg.

(* ---------- the drivers of TcTop.v ---------- *)
Ltac top_step :=
  cbv zeta;
  match goal with
  | |- ?a = ?a => reflexivity
  | |- tbind (match ?x with _ => _ end) _ = tbind (match ?x with _ => _ end) _ => destruct x
  | |- tbind (tbind _ _) _ = _ => rewrite !tbind_assoc
  | |- tbind _ _ = tbind _ _ =>
    apply tbind_ext; [first [solve [auto] | rewrite ?unfold_opt_ext, ?sanity_types_ext, ?add_missing_ext; reflexivity] | intros ?]
  | |- match ?x with _ => _ end = match ?x with _ => _ end => destruct x
  | |- (if ?b then _ else _) = (if ?b then _ else _) => destruct b
  | |- (let '(_, _) := ?x in _) = (let '(_, _) := ?x in _) => destruct x
  end.

Lemma add_missing_opt_ext t : add_missing_opt D t = add_missing_opt D' t.
Proof. destruct t; cbn [add_missing_opt]; repeat top_step. Qed.
Lemma add_missing_names_ext ns : add_missing_names D ns = add_missing_names D' ns.
Proof. induction ns as [|n ns IH]; cbn [add_missing_names]; [reflexivity|]. pose proof add_missing_opt_ext. repeat top_step. Qed.
Lemma prelim_funs_ext : forall fs seen, prelim_funs D fs seen = prelim_funs D' fs seen.
Proof.
  induction fs as [|f fs IH]; intros seen; cbn [prelim_funs]; [reflexivity|].
  pose proof add_missing_opt_ext. pose proof add_missing_names_ext. repeat top_step.
Qed.
Lemma prelim_procs_types_ext : forall ps a p, prelim_procs_types D ps a p = prelim_procs_types D' ps a p.
Proof.
  induction ps as [|q ps IH]; intros a p; cbn [prelim_procs_types]; [reflexivity|].
  pose proof add_missing_opt_ext. repeat top_step.
Qed.
Lemma prelim_procs_ext ps assumed : prelim_procs D ps assumed = prelim_procs D' ps assumed.
Proof.
  unfold prelim_procs. pose proof add_missing_names_ext. pose proof prelim_procs_types_ext. repeat top_step.
Qed.
Lemma make_sigma_ext fs : make_sigma D fs = make_sigma D' fs.
Proof. induction fs as [|f fs IH]; cbn [make_sigma]; [reflexivity|]. repeat top_step. Qed.
Lemma tc_funs_ext Sg fs : tc_funs D Sg fs = tc_funs D' Sg fs.
Proof.
  induction fs as [|f fs IH]; cbn [tc_funs]; [reflexivity|].
  pose proof (proj1 (tc_form_ext Sg Sg (fun _ => eq_refl))) as Hf. unfold E_form in Hf. repeat top_step.
Qed.
Lemma tc_procs_ext Sg all assumed ps : tc_procs D Sg all assumed ps = tc_procs D' Sg all assumed ps.
Proof.
  induction ps as [|q ps IH]; cbn [tc_procs]; [reflexivity|].
  pose proof (proj1 (tc_form_ext Sg Sg (fun _ => eq_refl))) as Hf. unfold E_form in Hf. repeat top_step.
Qed.
End Ext.

(* ---------------------------------------------------------------- permutations of type definitions *)
Lemma tlookup_none D x : ~ In x (map td_name D) -> tlookup D x = None.
Proof.
  induction D as [|e D IH]; cbn; [reflexivity|]. intros H. rewrite IH by tauto.
  destruct (String.eqb_spec x (td_name e)); [exfalso; apply H; left; congruence | reflexivity].
Qed.
Lemma tlookup_in D d : NoDup (map td_name D) -> In d D -> tlookup D (td_name d) = Some d.
Proof.
  induction D as [|e D IH]; cbn [map In tlookup]; [tauto|]. intros Hnd [->|Hin].
  - inversion Hnd; subst. rewrite tlookup_none by assumption. now rewrite String.eqb_refl.
  - inversion Hnd; subst. now rewrite IH.
Qed.
Lemma tlookup_perm D D' : NoDup (map td_name D) -> Permutation D D' -> forall x, tlookup D x = tlookup D' x.
Proof.
  intros Hnd Hp x.
  assert (Hnd' : NoDup (map td_name D')) by (eapply Permutation_NoDup; [apply Permutation_map, Hp | exact Hnd]).
  destruct (tlookup D x) as [d|] eqn:E.
  - destruct (tlookup_some _ _ _ E) as [Hin <-]. symmetry. apply tlookup_in; [exact Hnd'|]. eapply Permutation_in; eauto.
  - destruct (tlookup D' x) as [d'|] eqn:E'; [|reflexivity].
    destruct (tlookup_some _ _ _ E') as [Hin <-].
    rewrite tlookup_in in E; [discriminate | exact Hnd|]. eapply Permutation_in; [apply Permutation_sym, Hp | exact Hin].
Qed.
Lemma env_size_perm D D' : Permutation D D' -> env_size D = env_size D'.
Proof. unfold env_size. induction 1; cbn; lia. Qed.
Lemma env_eqv_perm D D' : NoDup (map td_name D) -> Permutation D D' -> env_eqv D D'.
Proof. intros Hnd Hp. split; [apply tlookup_perm; assumption|]. split; [apply Permutation_length, Hp | apply env_size_perm, Hp]. Qed.

Lemma has_dup_NoDup l : has_dup l = false <-> NoDup l.
Proof.
  induction l as [|x l IH]; cbn; [split; [constructor | reflexivity]|].
  rewrite Bool.orb_false_iff, IH. split.
  - intros [H1 H2]. constructor; [|exact H2]. intro Hin. apply str_mem_In in Hin. congruence.
  - intros H. inversion H; subst. split; [|assumption]. destruct (str_mem x l) eqn:E; [|reflexivity]. apply str_mem_In in E. contradiction.
Qed.

(* SanityChecksTypeDefinitions accepts iff: distinct names, and every definition passes *)
Definition def_ok (D : tenv) (d : tdef) : Prop :=
  check_wf D (td_body d) = true /\ mode_eqb (mode_of (td_body d)) (td_mode d) = true /\ contractive D (td_body d) = Ok true.
Lemma sanity_ok_iff D : sanity_typedefs D = Ok true <-> NoDup (map td_name D) /\ Forall (def_ok D) D.
Proof.
  unfold sanity_typedefs. destruct (has_dup (map td_name D)) eqn:Ed.
  - split; [discriminate|]. intros [H _]. apply has_dup_NoDup in H. congruence.
  - apply has_dup_NoDup in Ed.
    set (chk := fun d => check_wf D (td_body d) && mode_eqb (mode_of (td_body d)) (td_mode d)).
    assert (Hgo : forall l, (fix go (l : tenv) : outcome bool :=
                     match l with
                     | [] => Ok true
                     | d :: r => do c <- contractive D (td_body d);
                                 if c then (if check_wf D (td_body d) then go r else Ok false) else Ok false
                     end) l = Ok true <-> Forall (fun d => contractive D (td_body d) = Ok true /\ check_wf D (td_body d) = true) l).
    { induction l as [|d l IH]; [split; [constructor | reflexivity]|].
      destruct (contractive D (td_body d)) as [[|]| |] eqn:Ec; cbn [obind].
      - destruct (check_wf D (td_body d)) eqn:Ew.
        + rewrite IH. split; [intros H; constructor; auto | intros H; inversion H; auto].
        + split; [discriminate | intros H; inversion H; subst; destruct H2; congruence].
      - split; [discriminate | intros H; inversion H; subst; destruct H2; congruence].
      - split; [discriminate | intros H; inversion H; subst; destruct H2; congruence].
      - split; [discriminate | intros H; inversion H; subst; destruct H2; congruence]. }
    destruct (forallb chk D) eqn:Ef; cbn [negb].
    + rewrite Hgo. rewrite forallb_forall in Ef. split.
      * intros H. split; [exact Ed|]. rewrite Forall_forall in *. intros d Hd. specialize (H d Hd). specialize (Ef d Hd).
        unfold chk in Ef. apply andb_prop in Ef. unfold def_ok. tauto.
      * intros [_ H]. rewrite Forall_forall in *. intros d Hd. destruct (H d Hd) as (? & ? & ?). auto.
    + split; [discriminate|]. intros [_ H]. exfalso.
      assert (forallb chk D = true); [|congruence]. apply forallb_forall. intros d Hd. rewrite Forall_forall in H.
      destruct (H d Hd) as (H1 & H2 & _). unfold chk. now rewrite H1, H2.
Qed.

Lemma sanity_perm D D' : Permutation D D' -> sanity_typedefs D = Ok true -> sanity_typedefs D' = Ok true.
Proof.
  intros Hp H. apply sanity_ok_iff in H. destruct H as [Hnd Hall]. apply sanity_ok_iff.
  pose proof (env_eqv_perm D D' Hnd Hp) as HE.
  split; [eapply Permutation_NoDup; [apply Permutation_map, Hp | exact Hnd]|].
  rewrite Forall_forall in *. intros d Hd.
  destruct (Hall d) as (H1 & H2 & H3); [eapply Permutation_in; [apply Permutation_sym, Hp | exact Hd]|].
  unfold def_ok. rewrite <- (check_wf_ext D D' HE), <- (contractive_ext D D' HE). auto.
Qed.

Definition with_types (D : tenv) (p : program) : program :=
  {| p_procs := p_procs p; p_assumed := p_assumed p; p_funs := p_funs p; p_types := D |}.
Definition accepts (v : verdict) : bool := match v with Accept _ => true | _ => false end.

Theorem tc_program_perm_types p D' : Permutation (p_types p) D' -> sanity_typedefs (p_types p) = Ok true ->
  tc_program (with_types D' p) = match tc_program p with TOk q => TOk (with_types D' q) | other => other end.
Proof.
  intros Hp Hs. pose proof (sanity_perm _ _ Hp Hs) as Hs'.
  pose proof (proj1 (proj1 (sanity_ok_iff _) Hs)) as Hnd.
  pose proof (env_eqv_perm _ _ Hnd Hp) as HE.
  unfold tc_program. cbn [with_types p_types p_funs p_procs p_assumed]. rewrite Hs, Hs'. cbn [lift tbind guard].
  rewrite <- (prelim_funs_ext _ _ HE). destruct (prelim_funs (p_types p) (p_funs p) []) as [fs| | |]; cbn [tbind]; try reflexivity.
  rewrite <- (prelim_procs_ext _ _ HE). destruct (prelim_procs (p_types p) (p_procs p) (p_assumed p)) as [[ps assumed]| | |]; cbn [tbind]; try reflexivity.
  rewrite <- (make_sigma_ext _ _ HE). destruct (make_sigma (p_types p) fs) as [Sg| | |]; cbn [tbind]; try reflexivity.
  rewrite <- (tc_funs_ext _ _ HE). destruct (tc_funs (p_types p) Sg fs) as [fs'| | |]; cbn [tbind]; try reflexivity.
  rewrite <- (tc_procs_ext _ _ HE). destruct (tc_procs (p_types p) Sg ps assumed ps) as [ps'| | |]; cbn [tbind]; reflexivity.
Qed.

(* the verdict is invariant under permutation of the type definitions *)
Theorem perm_types_invariant p D' : Permutation (p_types p) D' ->
  accepts (typecheck (with_types D' p)) = accepts (typecheck p).
Proof.
  intros Hp. unfold typecheck.
  destruct (sanity_typedefs (p_types p)) as [[|]| |] eqn:Hs.
  - rewrite (tc_program_perm_types p D' Hp Hs). destruct (tc_program p); reflexivity.
  - (* rejected by the sanity checks: so is the permuted environment *)
    assert (Hs' : sanity_typedefs D' <> Ok true).
    { intro H. apply (sanity_perm D' (p_types p) (Permutation_sym Hp)) in H. congruence. }
    unfold tc_program. cbn [with_types p_types]. rewrite Hs. cbn [lift tbind guard].
    destruct (sanity_typedefs D') as [[|]| |]; cbn; try reflexivity. congruence.
  - assert (Hs' : sanity_typedefs D' <> Ok true).
    { intro H. apply (sanity_perm D' (p_types p) (Permutation_sym Hp)) in H. congruence. }
    unfold tc_program. cbn [with_types p_types]. rewrite Hs. cbn [lift tbind guard].
    destruct (sanity_typedefs D') as [[|]| |]; cbn; try reflexivity. congruence.
  - assert (Hs' : sanity_typedefs D' <> Ok true).
    { intro H. apply (sanity_perm D' (p_types p) (Permutation_sym Hp)) in H. congruence. }
    unfold tc_program. cbn [with_types p_types]. rewrite Hs. cbn [lift tbind guard].
    destruct (sanity_typedefs D') as [[|]| |]; cbn; try reflexivity. congruence.
Qed.

(* ---------------------------------------------------------------- permutations of function definitions *)
Definition with_funs (fs : list fundef) (p : program) : program :=
  {| p_procs := p_procs p; p_assumed := p_assumed p; p_funs := fs; p_types := p_types p |}.

(* the per-function part of preliminaryFunctionDefinitionsChecks *)
Definition pre1 (D : tenv) (f : fundef) : tcr fundef :=
  tdo _ <- guard (match fn_type f with Some _ => true | None => false end) "missing type of provider";
  tdo _ <- guard (forallb (fun p => match nty p with Some _ => true | None => false end) (fn_params f)) "parameter has a missing type";
  tdo _ <- guard (all_names_unique (fn_params f)) "parameters defined more than once";
  tdo ft <- add_missing_opt D (fn_type f);
  tdo ps <- add_missing_names D (fn_params f);
  tdo _ <- guard (sanity_types D (match ft with Some t => [t] | None => [] end ++ types_of ps)) "type error in function definition";
  tdo _ <- indep_all (map nty ps) ft;
  TOk {| fn_name := fn_name f; fn_params := ps; fn_body := fn_body f; fn_type := ft; fn_explicit := fn_explicit f |}.

Lemma pre1_name D f o : pre1 D f = TOk o -> fn_name o = fn_name f.
Proof. unfold pre1. intros H. tinv H. inversion H; reflexivity. Qed.

Lemma prelim_funs_cons D f r seen :
  prelim_funs D (f :: r) seen =
  tdo _ <- guard (negb (str_mem (fn_name f) seen)) "duplicate function name";
  tdo o <- pre1 D f;
  tdo r' <- prelim_funs D r (fn_name f :: seen);
  TOk (o :: r').
Proof.
  cbn [prelim_funs]. unfold pre1.
  repeat match goal with
  | |- tbind ?x _ = tbind ?x _ => destruct x; cbn [tbind]; try reflexivity
  | |- tbind ?x _ = tbind (tbind ?x _) _ => destruct x; cbn [tbind]; try reflexivity
  end.
Qed.

Lemma prelim_funs_spec D : forall fs seen out,
  prelim_funs D fs seen = TOk out <->
  Forall2 (fun f o => pre1 D f = TOk o) fs out /\ NoDup (map fn_name fs) /\ Forall (fun f => ~ In (fn_name f) seen) fs.
Proof.
  induction fs as [|f fs IH]; intros seen out.
  - cbn [prelim_funs]. split.
    + intros H; inversion H; subst. repeat split; constructor.
    + intros (H & _). inversion H; reflexivity.
  - rewrite prelim_funs_cons. split.
    + intros H. tinv H. inversion H; subst. apply guard_ok in E.
      apply IH in E1. destruct E1 as (H1 & H2 & H3).
      assert (Hn : ~ In (fn_name f) seen).
      { intro Hin. apply str_mem_In in Hin. rewrite Hin in E. discriminate. }
      repeat split.
      * constructor; assumption.
      * cbn [map]. constructor; [|exact H2]. intro Hin. apply in_map_iff in Hin. destruct Hin as (g & Hg & Hgin).
        rewrite Forall_forall in H3. apply (H3 g Hgin). left; congruence.
      * constructor; [exact Hn|]. rewrite Forall_forall in *. intros g Hg Hin. apply (H3 g Hg). right; exact Hin.
    + intros (H1 & H2 & H3). inversion H1 as [|? o ? r' Ho Hr]; subst. inversion H2; subst. inversion H3; subst.
      assert (Em : str_mem (fn_name f) seen = false).
      { destruct (str_mem (fn_name f) seen) eqn:E; [|reflexivity]. apply str_mem_In in E. contradiction. }
      rewrite Em. cbn [negb guard tbind]. rewrite Ho. cbn [tbind].
      assert (Hrec : prelim_funs D fs (fn_name f :: seen) = TOk r').
      { apply IH. repeat split; [exact Hr | assumption|].
        rewrite Forall_forall in *. intros g Hg [Hin|Hin]; [|exact (H7 g Hg Hin)].
        apply H4. rewrite Hin. apply in_map, Hg. }
      rewrite Hrec. reflexivity.
Qed.

Lemma Forall2_map_eq {A B C} (R : A -> B -> Prop) (g : A -> C) (h : B -> C) l m :
  (forall a b, R a b -> h b = g a) -> Forall2 R l m -> map h m = map g l.
Proof. intros H. induction 1; cbn; f_equal; auto. Qed.

Lemma prelim_funs_perm D fs fs' out : Permutation fs fs' -> prelim_funs D fs [] = TOk out ->
  exists out', prelim_funs D fs' [] = TOk out' /\ Permutation out out' /\ NoDup (map fn_name out).
Proof.
  intros Hp H. apply prelim_funs_spec in H. destruct H as (H1 & H2 & _).
  destruct (Permutation_Forall2 Hp H1) as (out' & Hpo & H1').
  exists out'. split; [|split; [exact Hpo|]].
  - apply prelim_funs_spec. repeat split; [exact H1' | |apply Forall_forall; intros ? ? []].
    eapply Permutation_NoDup; [apply Permutation_map, Hp | exact H2].
  - rewrite (Forall2_map_eq _ fn_name fn_name _ _ (pre1_name D) H1). exact H2.
Qed.

(* sigma *)
Definition sig1 (D : tenv) (f : fundef) : tcr fsig :=
  tdo t <- unfold_opt D (fn_type f); TOk {| fs_name := fn_name f; fs_params := fn_params f; fs_type := t |}.
Lemma make_sigma_spec D : forall fs Sg, make_sigma D fs = TOk Sg <-> Forall2 (fun f s => sig1 D f = TOk s) fs Sg.
Proof.
  induction fs as [|f fs IH]; intros Sg; cbn [make_sigma].
  - split; [intros H; inversion H; constructor | intros H; inversion H; reflexivity].
  - unfold sig1. split.
    + intros H. tinv H. inversion H; subst. constructor; [now rewrite E | apply IH, E0].
    + intros H. inversion H as [|? s ? r' Hs Hr]; subst. apply IH in Hr. tinv Hs. inversion Hs; subst.
      rewrite E, Hr. reflexivity.
Qed.
Lemma sig1_name D f s : sig1 D f = TOk s -> fs_name s = fn_name f.
Proof. unfold sig1. intros H. tinv H. inversion H; reflexivity. Qed.

Lemma sig_lookup_none Sg x : ~ In x (map fs_name Sg) -> sig_lookup Sg x = None.
Proof.
  induction Sg as [|e Sg IH]; cbn; [reflexivity|]. intros H. rewrite IH by tauto.
  destruct (String.eqb_spec x (fs_name e)); [exfalso; apply H; left; congruence | reflexivity].
Qed.
Lemma sig_lookup_in Sg s : NoDup (map fs_name Sg) -> In s Sg -> sig_lookup Sg (fs_name s) = Some s.
Proof.
  induction Sg as [|e Sg IH]; cbn [map In sig_lookup]; [tauto|]. intros Hnd [->|Hin].
  - inversion Hnd; subst. rewrite sig_lookup_none by assumption. now rewrite String.eqb_refl.
  - inversion Hnd; subst. now rewrite IH.
Qed.
Lemma sig_lookup_some Sg x s : sig_lookup Sg x = Some s -> In s Sg /\ fs_name s = x.
Proof.
  induction Sg as [|e Sg IH]; cbn; [discriminate|]. destruct (sig_lookup Sg x) eqn:E.
  - intros H; inversion H; subst. destruct (IH eq_refl); auto.
  - destruct (String.eqb_spec x (fs_name e)); [|discriminate]. intros H; inversion H; subst; auto.
Qed.
Lemma sig_lookup_perm Sg Sg' : NoDup (map fs_name Sg) -> Permutation Sg Sg' -> forall x, sig_lookup Sg x = sig_lookup Sg' x.
Proof.
  intros Hnd Hp x.
  assert (Hnd' : NoDup (map fs_name Sg')) by (eapply Permutation_NoDup; [apply Permutation_map, Hp | exact Hnd]).
  destruct (sig_lookup Sg x) as [s|] eqn:E.
  - destruct (sig_lookup_some _ _ _ E) as [Hin <-]. symmetry. apply sig_lookup_in; [exact Hnd'|]. eapply Permutation_in; eauto.
  - destruct (sig_lookup Sg' x) as [s'|] eqn:E'; [|reflexivity].
    destruct (sig_lookup_some _ _ _ E') as [Hin <-].
    rewrite sig_lookup_in in E; [discriminate | exact Hnd|]. eapply Permutation_in; [apply Permutation_sym, Hp | exact Hin].
Qed.

(* the bodies *)
Definition tcf1 (D : tenv) (Sg : sigma) (f : fundef) : tcr fundef :=
  tdo b <- tc_form D Sg (make_ctx (fn_params f)) None (fn_type f) (fn_body f);
  TOk {| fn_name := fn_name f; fn_params := fn_params f; fn_body := b; fn_type := fn_type f; fn_explicit := fn_explicit f |}.
Lemma tc_funs_spec D Sg : forall fs out, tc_funs D Sg fs = TOk out <-> Forall2 (fun f o => tcf1 D Sg f = TOk o) fs out.
Proof.
  induction fs as [|f fs IH]; intros out; cbn [tc_funs].
  - split; [intros H; inversion H; constructor | intros H; inversion H; reflexivity].
  - unfold tcf1. split.
    + intros H. tinv H. inversion H; subst. constructor; [now rewrite E | apply IH, E0].
    + intros H. inversion H as [|? o ? r' Ho Hr]; subst. apply IH in Hr. tinv Ho. inversion Ho; subst.
      rewrite E, Hr. reflexivity.
Qed.

Lemma env_eqv_refl D : env_eqv D D. Proof. repeat split. Qed.

Lemma tc_procs_sg D Sg Sg' all assumed : (forall f, sig_lookup Sg f = sig_lookup Sg' f) ->
  forall ps, tc_procs D Sg all assumed ps = tc_procs D Sg' all assumed ps.
Proof.
  intros HS. induction ps as [|q ps IH]; cbn [tc_procs]; [reflexivity|].
  rewrite (proj1 (tc_form_ext D D (env_eqv_refl D) Sg Sg' HS)). rewrite IH. reflexivity.
Qed.

Theorem tc_program_perm_funs p fs' q : Permutation (p_funs p) fs' -> tc_program p = TOk q ->
  exists q', tc_program (with_funs fs' p) = TOk q' /\ Permutation (p_funs q) (p_funs q') /\
             p_procs q' = p_procs q /\ p_assumed q' = p_assumed q /\ p_types q' = p_types q.
Proof.
  intros Hp H. unfold tc_program in *. cbn [with_funs p_types p_funs p_procs p_assumed].
  tinv H. inversion H; subst. clear H.
  rewrite E. cbn [tbind]. rewrite E0. cbn [tbind].
  destruct (prelim_funs_perm _ _ _ _ Hp E1) as (fs1' & Ef1 & Hp1 & Hnd1).
  rewrite Ef1. cbn [tbind]. rewrite E2. cbn [tbind].
  (* sigma *)
  apply make_sigma_spec in E3.
  destruct (Permutation_Forall2 Hp1 E3) as (Sg' & HpS & E3').
  assert (HndS : NoDup (map fs_name a3)) by (rewrite (Forall2_map_eq _ fn_name fs_name _ _ (sig1_name (p_types p)) E3); exact Hnd1).
  pose proof (sig_lookup_perm _ _ HndS HpS) as HS.
  apply make_sigma_spec in E3'. rewrite E3'. cbn [tbind].
  (* bodies *)
  apply tc_funs_spec in E4.
  destruct (Permutation_Forall2 Hp1 E4) as (fs2' & Hp2 & E4').
  assert (E4'' : tc_funs (p_types p) Sg' fs1' = TOk fs2').
  { apply tc_funs_spec. clear - E4' HS. induction E4' as [|f o l m Ho _ IH]; constructor; [|exact IH]. unfold tcf1 in *.
    rewrite <- (proj1 (tc_form_ext _ _ (env_eqv_refl _) a3 Sg' HS)). exact Ho. }
  rewrite E4''. cbn [tbind].
  rewrite <- (tc_procs_sg _ a3 Sg' _ _ HS). rewrite E5. cbn [tbind].
  eexists. split; [reflexivity|]. cbn. auto.
Qed.

Theorem perm_funs_invariant p fs' : Permutation (p_funs p) fs' ->
  accepts (typecheck (with_funs fs' p)) = accepts (typecheck p).
Proof.
  intros Hp. unfold typecheck.
  destruct (tc_program p) as [q| | |] eqn:E.
  - destruct (tc_program_perm_funs p fs' q Hp E) as (q' & -> & _). reflexivity.
  - destruct (tc_program (with_funs fs' p)) as [q'| | |] eqn:E'; try reflexivity.
    destruct (tc_program_perm_funs (with_funs fs' p) (p_funs p) q' (Permutation_sym Hp) E') as (q'' & E'' & _).
    replace (with_funs (p_funs p) (with_funs fs' p)) with p in E'' by (destruct p; reflexivity). congruence.
  - destruct (tc_program (with_funs fs' p)) as [q'| | |] eqn:E'; try reflexivity.
    destruct (tc_program_perm_funs (with_funs fs' p) (p_funs p) q' (Permutation_sym Hp) E') as (q'' & E'' & _).
    replace (with_funs (p_funs p) (with_funs fs' p)) with p in E'' by (destruct p; reflexivity). congruence.
  - destruct (tc_program (with_funs fs' p)) as [q'| | |] eqn:E'; try reflexivity.
    destruct (tc_program_perm_funs (with_funs fs' p) (p_funs p) q' (Permutation_sym Hp) E') as (q'' & E'' & _).
    replace (with_funs (p_funs p) (with_funs fs' p)) with p in E'' by (destruct p; reflexivity). congruence.
Qed.

(* ---------------------------------------------------------------- statement order across kinds *)
(* ParseString's expansion sorts the statements by kind: the program it builds depends only on the
   sub-sequence of statements of each kind (so interleaving declarations of different kinds
   differently changes nothing), the `exec` statements being numbered in THEIR relative order. *)
Definition is_proc (s : stmt) : bool := match s with SProc _ _ _ => true | _ => false end.
Definition is_fun (s : stmt) : bool := match s with SFun _ => true | _ => false end.
Definition is_type (s : stmt) : bool := match s with SType _ _ => true | _ => false end.
Definition is_assume (s : stmt) : bool := match s with SAssume _ => true | _ => false end.
Definition is_exec (s : stmt) : bool := match s with SExec _ => true | _ => false end.

Lemma expand1_app_kinds : forall l procs assumed funs tys,
  expand1 l procs assumed funs tys =
  match expand1 (filter is_proc l) procs [] [] [] with
  | POk (procs', _, _, _) =>
    match expand1 (filter is_assume l) [] assumed [] [], expand1 (filter is_fun l) [] [] funs [], expand1 (filter is_type l) [] [] [] tys with
    | POk (_, assumed', _, _), POk (_, _, funs', _), POk (_, _, _, tys') => POk (procs', assumed', funs', tys')
    | _, _, _ => PPanic "unreachable"
    end
  | PErr w => PErr w | PPanic w => PPanic w | PHang w => PHang w
  end.
Proof.
  induction l as [|s l IH]; intros procs assumed funs tys; [reflexivity|].
  destruct s; cbn [filter is_proc is_fun is_type is_assume expand1].
  - (* proc *) destruct providers as [|p [|p2 ps]];
      try (destruct (existsb _ _); [reflexivity|]); apply IH.
  - apply IH.
  - apply IH.
  - apply IH.
  - apply IH.
Qed.

Lemma expand_exec_filter : forall l funs count procs,
  expand_exec l funs count procs = expand_exec (filter is_exec l) funs count procs.
Proof.
  induction l as [|s l IH]; intros funs count procs; [reflexivity|].
  destruct s; cbn [filter is_exec expand_exec]; try apply IH.
  destruct (get_function funs fname 0); [apply IH | reflexivity].
Qed.

Theorem expand_kinds l l' :
  filter is_proc l = filter is_proc l' -> filter is_fun l = filter is_fun l' -> filter is_type l = filter is_type l' ->
  filter is_assume l = filter is_assume l' -> filter is_exec l = filter is_exec l' ->
  expand l = expand l'.
Proof.
  intros H1 H2 H3 H4 H5. unfold expand. rewrite (expand1_app_kinds l), (expand1_app_kinds l'), H1, H2, H3, H4.
  destruct (expand1 (filter is_proc l') [] [] [] []) as [[[[? ?] ?] ?]| | |]; try reflexivity.
  destruct (expand1 (filter is_assume l') [] [] [] []) as [[[[? ?] ?] ?]| | |],
           (expand1 (filter is_fun l') [] [] [] []) as [[[[? ?] ?] ?]| | |],
           (expand1 (filter is_type l') [] [] [] []) as [[[[? ?] ?] ?]| | |]; try reflexivity.
  now rewrite (expand_exec_filter l), (expand_exec_filter l'), H5.
Qed.
