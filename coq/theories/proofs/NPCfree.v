(* NPCfree.v — contraction-free configurations in the non-polarized mode: no split in any body and one
   provider per process.  The class is closed under the steps of the mode (cf_step_np): no DUP ever
   happens, a control message replaces the single provider of its target by the single provider of
   the forward. *)
From stdpp Require Import gmap strings sorting.
Require Import Grits.Base Grits.ModeDefs Grits.Modes Grits.STypes Grits.Forms Grits.Subst Grits.TcDeps Grits.Expand
               Grits.Runtime Grits.RuntimeFootprint Grits.spec.RtTyping Grits.spec.Topo.
Require Import Grits.proofs.StepErrors Grits.proofs.RtSafety Grits.proofs.RtSafetyNP Grits.proofs.RuntimeFacts Grits.proofs.AsyncSync
               Grits.proofs.TopoStep Grits.proofs.InvAll Grits.proofs.InvNP.

Fixpoint cfree (f : form) : bool :=
  match f with
  | FRecv _ _ _ k | FWait _ k | FShift _ _ k | FPrint _ k | FDrop _ k => cfree k
  | FCase _ bs => cfree_brs bs
  | FNew _ b k => cfree b && cfree k
  | FSplit _ _ _ _ => false
  | _ => true
  end
with cfree_brs (b : branches) : bool :=
  match b with BrNil => true | BrCons _ _ k r => cfree k && cfree_brs r end.

Lemma cfree_subst_mut old new :
  (forall f, cfree (subst old new f) = cfree f) /\ (forall b, cfree_brs (subst_brs old new b) = cfree_brs b).
Proof.
  apply form_branches_ind; simpl; intros; auto;
    repeat match goal with |- context [if ?c then _ else _] => destruct c end; congruence.
Qed.
Lemma cfree_subst old new f : cfree (subst old new f) = cfree f.
Proof. apply cfree_subst_mut. Qed.
Lemma cfree_find l bs pay K : find_branch l bs = Some (pay, K) -> cfree_brs bs = true -> cfree K = true.
Proof.
  induction bs as [|l' p' k' r IH]; simpl; [discriminate|]. rewrite andb_true_iff. destruct (String.eqb l' l).
  - intros [= -> ->]. tauto.
  - intros H [_ H']. auto.
Qed.
Lemma cfree_sub_all : forall ps ar b, cfree (sub_all ps ar b) = cfree b.
Proof. induction ps as [|q ps IH]; intros [|a ar] b; simpl; auto. by rewrite IH, cfree_subst. Qed.
Definition cfree_funs (Fs : list fundef) : Prop := Forall (fun fd => cfree (fn_body fd) = true) Fs.
Lemma cfree_call_body Fs fn args b : cfree_funs Fs -> call_body Fs fn args = Some b -> cfree b = true.
Proof.
  intros HFc. rewrite call_body_unfold. destruct (get_function Fs fn (length args)) as [fd|] eqn:Hg; [|discriminate].
  apply get_function_In in Hg. unfold cfree_funs in HFc. rewrite Forall_forall in HFc. specialize (HFc fd Hg).
  cbn zeta. destruct (fn_explicit fd); repeat case_match; intros [= <-]; rewrite cfree_sub_all, ?cfree_subst; done.
Qed.

Definition CF (c : config) : Prop :=
  forall p pp, procs c !! p = Some pp -> cfree (pr_body0 pp) = true /\ exists n, pr_provs pp = [n].

Section CFree.
Variable D : tenv.
Variable F : list fundef.
Hypothesis HFc : cfree_funs F.

Lemma cf_effect c0 p pp e :
  CF c0 ->
  (forall pp1, e_after e = Continue pp1 -> cfree (pr_body0 pp1) = true /\ exists n, pr_provs pp1 = [n]) ->
  (forall s, In s (e_spawn e) -> cfree (sp_body s) = true /\ exists n, sp_provs s = [n]) ->
  CF (apply_effect c0 p pp e).
Proof.
  intros Hcf Hc Hs q v Hq. pose proof (apply_effect_objs c0 p pp e (OProc q v) Hq) as [(-> & pp1 & Ea & Hp & Hb)|[(s & n & Hin & -> & ->)|[_ Ho]]].
  - rewrite Hp, Hb. by apply Hc.
  - cbn. by apply Hs.
  - exact (Hcf q v Ho).
Qed.

(* the internal steps of the mode *)
Lemma cf_internal p provs body nx e : cfree body = true -> internal_effect NP F p (Proc provs body nx) = EOk e ->
  (exists B nx1, e_after e = Continue (Proc provs B nx1) /\ cfree B = true) /\
  (forall s, In s (e_spawn e) -> cfree (sp_body s) = true /\ exists n, sp_provs s = [n]) /\ e_close e = [].
Proof.
  unfold internal_effect. cbn [pr_body0]. destruct body as [| | | |x b k0| | | | |fn args pt| | |cl k0|l k0]; try discriminate; simpl; intros Hb.
  - apply andb_true_iff in Hb as [Hb1 Hb2]. unfold fresh_chan. cbn [pr_next pr_provs pr_body0]. intros [= <-]. cbn.
    split; [eexists _, _; split; [reflexivity|by rewrite cfree_subst]|]. split; [|done]. intros s [<-|[]]. cbn. eauto.
  - destruct (call_body F fn args) as [b|] eqn:Ecb; [|done]. intros [= <-]. cbn.
    split; [eexists _, _; split; [reflexivity|eapply cfree_call_body; eauto]|]. split; [intros s []|done].
  - intros [= <-]. cbn. split; [eexists _, _; split; [reflexivity|done]|]. split; [intros s []|done].
  - intros [= <-]. cbn. split; [eexists _, _; split; [reflexivity|done]|]. split; [intros s []|done].
Qed.

(* what a process that is not a forward becomes when it receives a message that is not a request *)
Lemma cf_on_message p pp m e :
  on_message p pp m = EOk e -> cfree (pr_body0 pp) = true -> (exists n, pr_provs pp = [n]) -> body_is_fwd (pr_body0 pp) = false ->
  m_rule m <> RFWD -> m_rule m <> RGC ->
  exists pp1, e = Eff (Continue pp1) [] [] [] [] /\ cfree (pr_body0 pp1) = true /\ exists n, pr_provs pp1 = [n].
Proof.
  intros He Hpl Hpv Hnf Hfw Hgc. unfold on_message in He.
  destruct (rule_eqb (m_rule m) RFWD && negb _) eqn:E1.
  { apply andb_true_iff in E1 as [E1 _]. apply rule_eqb_eq in E1. contradiction. }
  destruct (rule_eqb (m_rule m) RGC && negb _) eqn:E2.
  { apply andb_true_iff in E2 as [E2 _]. apply rule_eqb_eq in E2. contradiction. }
  destruct (pr_body0 pp) as [to pay cont|pay cont from k0|to l cont|from bs|x b k0|c0|c0 k0|to from d|x y from k0|fn args pt|to cont|x from k0|c0 k0|l k0] eqn:Eb;
    try discriminate; simpl in Hpl.
  - destruct (is_self from); [destruct (rule_eqb (m_rule m) RRCV)|destruct (rule_eqb (m_rule m) RSND)]; try discriminate; injection He as <-;
      (eexists; split; [reflexivity|]); cbn; rewrite ?cfree_subst; eauto.
  - destruct (is_self from); [destruct (rule_eqb (m_rule m) RBRA)|destruct (rule_eqb (m_rule m) RSEL)]; try discriminate;
      destruct (find_branch (m_label m) bs) as [[pay K]|] eqn:Efb; try discriminate; injection He as <-;
      (eexists; split; [reflexivity|]); cbn; rewrite ?cfree_subst; (split; [eapply cfree_find; eauto|eauto]).
  - destruct (rule_eqb (m_rule m) RCLS); try discriminate; injection He as <-;
      (eexists; split; [reflexivity|]); cbn; eauto.
  - destruct (is_self from); [destruct (rule_eqb (m_rule m) RSHF)|destruct (rule_eqb (m_rule m) RCST)]; try discriminate; injection He as <-;
      (eexists; split; [reflexivity|]); cbn; rewrite ?cfree_subst; eauto.
Qed.

(* sends of bodies that are not forwards are not requests *)
Lemma nonfwd_send_rule pp k m : action_of Async D pp = ASend k m -> body_is_fwd (pr_body0 pp) = false ->
  m_rule m <> RFWD /\ m_rule m <> RGC.
Proof.
  intros Ha Hpl. unfold action_of in Ha.
  destruct (pr_body0 pp) eqn:Eb; try discriminate Hpl; simpl in Ha;
    repeat match type of Ha with
           | (if ?b then _ else _) = _ => destruct b eqn:?
           | match ?x with _ => _ end = _ => destruct x eqn:?
           end;
    try discriminate;
    try (unfold internal in Ha; destruct (multi pp); discriminate);
    try (unfold recv_on in Ha; repeat match type of Ha with
           | (if ?b then _ else _) = _ => destruct b
           | match ?x with _ => _ end = _ => destruct x
           end; discriminate);
    try (unfold send_on in Ha; destruct (multi pp); [discriminate|];
         repeat match type of Ha with match ?x with _ => _ end = _ => destruct x end; try discriminate;
         injection Ha as <- <-; split; discriminate).
Qed.

Lemma np_act_nonfwd pp a : action_of NP D pp = a ->
  match a with AErr _ | ACtrl _ _ | ANever => False | _ => True end -> body_is_fwd (pr_body0 pp) = false.
Proof.
  intros Ha Hk. destruct (body_is_fwd (pr_body0 pp)) eqn:Ef; [|done]. pose proof (np_fwd_action D pp Ef) as H. rewrite Ha in H. by destruct a.
Qed.

Theorem cf_step_np c ch c' : CF c -> bufs_empty c -> step NP D F c ch = SStep c' -> CF c'.
Proof.
  intros Hcf Hbe. destruct ch as [p|s r|f t]; cbn [step].
  - destruct (procs c !! p) as [pp|] eqn:Hp; [|done]. destruct (Hcf p pp Hp) as [Hb [n0 Hn0]].
    destruct (action_of NP D pp) as [| |k m|k| |k pv|w] eqn:Ea; try done.
    + apply np_action_async in Ea; [|done]. apply action_dup_multi in Ea. unfold multi in Ea. rewrite Hn0 in Ea. done.
    + destruct (internal_effect NP F p pp) as [e|] eqn:He; [|done]. intros [= <-]. destruct pp as [provs body nx]. cbn in Hb, Hn0. subst provs.
      destruct (cf_internal p [n0] body nx e Hb He) as ((B & nx1 & Ea' & HB) & Hsp & _).
      apply cf_effect; [done| |done]. intros pp1 E. rewrite Ea' in E. injection E as <-. cbn. eauto.
    + destruct (chans c !! k) as [st|]; [|done]. destruct (ch_closed st); [done|]. by destruct (ch_buf st).
    + destruct (chans c !! k) as [st|] eqn:Ek; [|done]. rewrite (Hbe _ _ Ek). destruct (ch_closed st); [|done].
      destruct (on_message p pp zero_msg) as [e|] eqn:He; [|done]. intros [= <-].
      pose proof (np_act_nonfwd pp _ Ea I) as Hnf.
      destruct (cf_on_message p pp zero_msg e He Hb (ex_intro _ n0 Hn0) Hnf) as (pp1 & -> & H1 & H2); [discriminate|discriminate|].
      apply cf_effect; [done| |intros s0 []]. intros pp2 [= <-]. done.
  - destruct (bool_decide (s = r)); [done|]. destruct (procs c !! s) as [ps|] eqn:Hs; [|done].
    destruct (procs c !! r) as [pr|] eqn:Hr; [|done].
    destruct (action_of NP D ps) as [| |k m|k| |k pv|w] eqn:Eas; try done.
    destruct (action_of NP D pr) as [| |k' m'|k'| |k' pv'|w'] eqn:Ear; try done.
    destruct (bool_decide (k = k')); [|done]. destruct (chans c !! k) as [st|]; [|done]. destruct (ch_closed st); [done|].
    destruct (on_message r pr m) as [e|] eqn:He; [|done]. intros [= <-].
    destruct (Hcf r pr Hr) as [Hbr Hnr].
    pose proof (np_act_nonfwd ps _ Eas I) as Hnfs. pose proof (np_act_nonfwd pr _ Ear I) as Hnfr.
    apply np_action_async in Eas; [|done].
    destruct (nonfwd_send_rule ps k m Eas Hnfs) as [Hfw Hgc].
    destruct (cf_on_message r pr m e He Hbr Hnr Hnfr Hfw Hgc) as (pp1 & -> & H1 & H2).
    apply cf_effect; [|intros pp2 [= <-]; done|intros s0 []].
    intros q v Hq. cbn in Hq. apply lookup_delete_Some in Hq as [_ Hq]. exact (Hcf q v Hq).
  - cbn [negb is_np orb]. destruct (bool_decide (f = t)); [done|]. destruct (procs c !! f) as [pf|] eqn:Hf; [|done].
    destruct (procs c !! t) as [pt|] eqn:Hpt; [|done]. destruct (action_of NP D pf) as [| |k m|k| |k pv|w] eqn:Ea; try done.
    destruct (self_chan pt) as [k'|]; [|done]. destruct (bool_decide (k = k') && polls_control NP D pt); [|done]. intros [= <-].
    destruct (ctrl_inv D pf k pv Ea) as (to & from & d & _ & _ & ->).
    destruct (Hcf f pf Hf) as [_ [nf Hnf]]. destruct (Hcf t pt Hpt) as [Hbt [n0 Hn0]].
    apply cf_effect; [|intros pp2 [= <-]; cbn; rewrite Hnf, Hn0; cbn; eauto|intros s0 []].
    intros q v Hq. cbn in Hq. apply lookup_delete_Some in Hq as [_ Hq]. exact (Hcf q v Hq).
Qed.
End CFree.
