(* RtProgressNP.v — C02 for the NON-POLARIZED mode: in a typed, Topo configuration with empty buffers that is
   quiescent in this mode
     (0) no forward is left: a forward offers its providers on the control channel of its client
         channel k; the provider of k is a process (nothing is buffered) which, if it is not a forward
         itself, is about to send or receive (anything else is enabled) and therefore polls its control
         channel — `Control f t` would be enabled; if it is a forward, its own client channel has a
         larger rank (induction on the rank of Topo);
     (1) hence the configuration is quiescent in the SYNCHRONOUS mode too, where every other process acts
         as here, and `progress_sync_partial` applies: every survivor is blocked on its own provider
         channel, receiving, or sending a positive message; if each of these channels has a client,
         nobody survives. *)
From stdpp Require Import gmap strings.
Require Import Grits.Base Grits.ModeDefs Grits.Modes Grits.STypes Grits.Forms Grits.Subst Grits.TcDeps Grits.Expand
               Grits.Tc Grits.TcTop
               Grits.Runtime Grits.spec.RtTyping Grits.spec.Topo Grits.proofs.RtSubst Grits.proofs.RtEffect
               Grits.proofs.StepErrors Grits.proofs.RtSafety Grits.proofs.RtSafetyNP Grits.proofs.RtProgress
               Grits.proofs.AsyncSync.

Section PNP.
Variable D : tenv.
Variable F : list fundef.
Variable teq : sty -> sty -> Prop.
Hypothesis Hteq : teq_laws D teq.
Hypothesis HF : funs_typed D F teq.

Local Notation cfg_typed := (cfg_typed D F teq).

Lemma eff_step_enabled c self p r : eff_step c self p r <> SNotEnabled.
Proof. destruct r; discriminate. Qed.

(* a typed process that is not blocked in a send / receive / control offer can move *)
Lemma quiescent_np_action Δ c self p :
  cfg_typed Δ c -> quiescent NP D F c -> procs c !! self = Some p ->
  (exists k m, action_of NP D p = ASend k m) \/ (exists k, action_of NP D p = ARecv k) \/
  (exists k, action_of NP D p = ACtrl k (pr_provs p)).
Proof.
  intros Hc Hq Ep. pose proof (Hq (Run self)) as Hs. simpl in Hs. rewrite Ep in Hs.
  pose proof (typed_action_np D F teq Hteq HF Δ p (ct_procs _ _ _ _ _ Hc _ _ Ep)) as Hv.
  destruct (action_of NP D p) as [| |k m|k| |k pv|w]; simpl in Hv; try contradiction; eauto.
  - exfalso. eapply eff_step_enabled; eauto.
  - exfalso. eapply eff_step_enabled; eauto.
  - destruct Hv as [-> _]. eauto.
Qed.

Lemma ctrl_is_fwd p k pv : action_of NP D p = ACtrl k pv ->
  exists to from d, pr_body0 p = FFwd to from d /\ chan from = Some k.
Proof.
  intros Ea. unfold action_of in Ea. destruct (pr_body0 p) eqn:Eb; try discriminate; simpl in Ea;
    repeat match type of Ea with (if ?b then _ else _) = _ => destruct b end;
    try discriminate; unfold send_on, recv_on, internal in Ea;
    repeat match type of Ea with
           | (if ?b then _ else _) = _ => destruct b
           | match ?x with _ => _ end = _ => destruct x eqn:?
           end; try discriminate.
  injection Ea as <- _. eauto.
Qed.

Lemma send_recv_single p :
  ((exists k m, action_of NP D p = ASend k m) \/ (exists k, action_of NP D p = ARecv k)) ->
  body_is_fwd (pr_body0 p) = false /\ multi p = false.
Proof.
  intros H. assert (Hf : body_is_fwd (pr_body0 p) = false).
  { destruct (body_is_fwd (pr_body0 p)) eqn:E; auto. exfalso. unfold action_of in H.
    destruct (pr_body0 p); try discriminate E. simpl in H.
    destruct (negb (is_self to)); [destruct H as [(k & m & H)|(k & H)]; discriminate|].
    destruct (chan from); destruct H as [(k & m & H)|(k & H)]; discriminate. }
  split; auto. destruct (multi p) eqn:Em; auto. exfalso.
  unfold action_of in H. destruct (pr_body0 p); try discriminate Hf; simpl in H;
    repeat match type of H with context [if ?b then _ else _] => destruct b end;
    unfold send_on, recv_on, internal in H; rewrite ?Em in H;
    repeat match type of H with context [match ?x with _ => _ end] => destruct x end;
    destruct H as [(k & m & H)|(k & H)]; discriminate.
Qed.

(* (0) no forward survives *)
Lemma prov_in_dom Δ c t pt k : cfg_typed Δ c -> procs c !! t = Some pt -> k ∈ cids_of (pr_provs pt) ->
  is_Some (chans c !! k).
Proof.
  intros Hc Ep Hk. destruct (ct_procs _ _ _ _ _ Hc _ _ Ep) as (s & rs & _ & Hprovs & _).
  apply elem_of_list_In in Hk. unfold cids_of in Hk. apply in_flat_map in Hk as (n & Hn & Hk).
  rewrite Forall_forall in Hprovs. destruct (Hprovs n Hn) as (c0 & t' & Hc0 & Ht' & _).
  rewrite Hc0 in Hk. destruct Hk as [<-|[]]. apply (ct_dom _ _ _ _ _ Hc). eauto.
Qed.

Lemma fwd_refs p k pv : action_of NP D p = ACtrl k pv -> forall self, k ∈ refs (OProc self p).
Proof.
  intros Ea self. destruct (ctrl_is_fwd p k _ Ea) as (to & from & d & Eb & Hfrom).
  cbn. rewrite Eb. simpl. unfold name_chans at 2. rewrite Hfrom. set_solver.
Qed.

(* the provider of the client channel of a forward is a process; at quiescence it is a forward too *)
Lemma fwd_step_up Δ c self p k :
  cfg_typed Δ c -> Topo c -> buffers_empty c -> quiescent NP D F c ->
  procs c !! self = Some p -> action_of NP D p = ACtrl k (pr_provs p) ->
  exists t pt kt, procs c !! t = Some pt /\ k ∈ cids_of (pr_provs pt) /\ action_of NP D pt = ACtrl kt (pr_provs pt).
Proof.
  intros Hc Ht Hbe Hq Ep Ea.
  destruct (topo_ref_prov c Ht (OProc self p) k Ep (fwd_refs p k _ Ea self)) as (o & Ho & Hko).
  destruct o as [t pt|k' m']; [|destruct Ho as (st & Hst & Hb); rewrite (Hbe _ _ Hst) in Hb; discriminate].
  cbn in Ho, Hko.
  destruct (quiescent_np_action Δ c t pt Hc Hq Ho) as [Hsr|[Hsr|(kt & Hct)]]; [| |eauto 10].
  all: exfalso.
  all: assert (Hsr' : (exists k0 m0, action_of NP D pt = ASend k0 m0) \/ (exists k0, action_of NP D pt = ARecv k0)) by tauto.
  all: destruct (send_recv_single pt Hsr') as [_ Hm].
  all: assert (Hsc : self_chan pt = Some k)
         by (unfold multi in Hm; unfold self_chan, prov0; destruct (pr_provs pt) as [|n0 [|n1 r]]; simpl in *;
             [set_solver|destruct (chan n0); set_solver|discriminate Hm]).
  all: assert (Hne : self <> t)
         by (intros ->; rewrite Ep in Ho; injection Ho as <-; rewrite Ea in Hsr'; destruct Hsr' as [(?&?&?)|(?&?)]; discriminate).
  all: pose proof (Hq (Control self t)) as Hs; simpl in Hs.
  all: rewrite bool_decide_eq_false_2 in Hs by auto; rewrite Ep, Ho, Ea, Hsc in Hs.
  all: rewrite bool_decide_eq_true_2 in Hs by auto; unfold polls_control in Hs.
  all: destruct Hsr' as [(k0 & m0 & E)|(k0 & E)]; rewrite E in Hs; discriminate Hs.
Qed.

Lemma no_forward_np Δ c :
  cfg_typed Δ c -> Topo c -> buffers_empty c -> quiescent NP D F c ->
  forall self p k, procs c !! self = Some p -> action_of NP D p = ACtrl k (pr_provs p) -> False.
Proof.
  intros Hc Ht Hbe Hq. destruct (topo_rank c Ht) as (rk & M & Hdom & Hrk).
  assert (G : forall n self p k, procs c !! self = Some p -> action_of NP D p = ACtrl k (pr_provs p) ->
            (M - rk k <= n)%nat -> False).
  { induction n as [|n IH]; intros self p k Ep Ea Hn;
      destruct (fwd_step_up Δ c self p k Hc Ht Hbe Hq Ep Ea) as (t & pt & kt & Ho & Hko & Hct);
      assert (Hlt : (rk k < rk kt)%nat) by (eapply (Hrk (OProc t pt)); eauto; apply (fwd_refs pt kt _ Hct));
      destruct (fwd_step_up Δ c t pt kt Hc Ht Hbe Hq Ho Hct) as (t2 & pt2 & _ & Ho2 & Hko2 & _);
      pose proof (Hdom kt (prov_in_dom Δ c t2 pt2 kt Hc Ho2 Hko2)) as Hkt.
    - lia.
    - apply (IH t pt kt Ho Hct). lia. }
  intros self p k Ep Ea. exact (G (M - rk k)%nat self p k Ep Ea (le_n _)).
Qed.

(* (1) quiescence in this mode is quiescence in the synchronous mode *)
Lemma quiescent_np_sync Δ c :
  cfg_typed Δ c -> Topo c -> buffers_empty c -> quiescent NP D F c -> quiescent Sync D F c.
Proof.
  intros Hc Ht Hbe Hq.
  assert (Hnf : forall self p, procs c !! self = Some p ->
            action_of Sync D p = action_of NP D p /\
            ((exists k m, action_of NP D p = ASend k m) \/ (exists k, action_of NP D p = ARecv k))).
  { intros self p Ep. destruct (quiescent_np_action Δ c self p Hc Hq Ep) as [H|[H|(k & H)]].
    - split; [|auto]. destruct (send_recv_single p (or_introl H)) as [Hf _].
      rewrite (action_np_nonfwd D p Hf). apply action_of_sync.
    - split; [|auto]. destruct (send_recv_single p (or_intror H)) as [Hf _].
      rewrite (action_np_nonfwd D p Hf). apply action_of_sync.
    - exfalso. eapply no_forward_np; eauto. }
  intros ch. pose proof (Hq ch) as Hs. destruct ch as [self|s r|f t]; [| |reflexivity]; simpl in *.
  - destruct (procs c !! self) as [p|] eqn:Ep; [|reflexivity].
    destruct (Hnf self p Ep) as [-> [(k & m & E)|(k & E)]]; rewrite E in *.
    + destruct (chans c !! k) as [st|]; auto.
    + exact Hs.
  - destruct (bool_decide (s = r)); [reflexivity|].
    destruct (procs c !! s) as [ps|] eqn:Es; [|reflexivity]. destruct (procs c !! r) as [pr|] eqn:Er; [|reflexivity].
    destruct (Hnf s ps Es) as [-> _]. destruct (Hnf r pr Er) as [-> _]. exact Hs.
Qed.

Theorem progress_np_partial Δ c :
  cfg_typed Δ c -> Topo c -> buffers_empty c -> quiescent NP D F c ->
  (forall self p, procs c !! self = Some p ->
     exists k, own_chan p k /\
       (action_of NP D p = ARecv k \/ exists m, action_of NP D p = ASend k m /\ is_pos_rule (m_rule m) = true)) /\
  ((forall k, (exists self p, procs c !! self = Some p /\ k ∈ cids_of (pr_provs p)) ->
              exists o, obj_in c o /\ k ∈ refs o) -> procs c = ∅).
Proof.
  intros Hc Ht Hbe Hq. pose proof (quiescent_np_sync Δ c Hc Ht Hbe Hq) as Hqs.
  destruct (progress_sync_partial D F teq Hteq HF Δ c Hc Ht Hbe Hqs) as [H1 H2]. split; [|exact H2].
  intros self p Ep. destruct (H1 self p Ep) as (k & Hown & Ha). exists k. split; auto.
  assert (E : action_of Sync D p = action_of NP D p).
  { destruct (quiescent_np_action Δ c self p Hc Hq Ep) as [H|[H|(k0 & H)]].
    - destruct (send_recv_single p (or_introl H)) as [Hf _]. rewrite (action_np_nonfwd D p Hf). apply action_of_sync.
    - destruct (send_recv_single p (or_intror H)) as [Hf _]. rewrite (action_np_nonfwd D p Hf). apply action_of_sync.
    - exfalso. eapply no_forward_np; eauto. }
  rewrite <- E. exact Ha.
Qed.
End PNP.
