(* NPJoinBC.v — the other conflicting peaks of the non-polarized mode for contraction-free configurations:
   Control f t / Control t t' (one step on each side, the second message goes to t'), and
   Control f t / Rendezvous with t. *)
From stdpp Require Import gmap strings.
Require Import Grits.Base Grits.ModeDefs Grits.Modes Grits.STypes Grits.Forms Grits.Subst Grits.TcDeps Grits.Expand
               Grits.Runtime Grits.RuntimeFootprint Grits.spec.RtTyping Grits.spec.Topo.
Require Import Grits.proofs.RtSubst Grits.proofs.StepErrors Grits.proofs.RtSafety Grits.proofs.RtSafetyNP Grits.proofs.TopoLin Grits.proofs.RuntimeFacts
               Grits.proofs.Diamond Grits.proofs.Determinism Grits.proofs.AsyncSync Grits.proofs.TopoStep Grits.proofs.InvAll Grits.proofs.InvNP
               Grits.proofs.NPCfree Grits.proofs.NPJoin Grits.proofs.Balanced Grits.proofs.NPJoinA.

Section JoinBC.
Variable D : tenv.
Variable F : list fundef.
Variable teq : sty -> sty -> Prop.
Hypothesis Hteq : teq_laws D teq.
Hypothesis HF : funs_typed D F teq.
Hypothesis HFa : funs_aff F.
Hypothesis HFn : nofd_funs F.
Hypothesis HFc : cfree_funs F.
Notation JN := (JN D F teq).
Notation stpN := (stp NP D F).
Notation runN := (bsteps stpN).

(* what an enabled control message is, in a contraction-free configuration *)
Lemma ctl_of_step c f t c2 : CF c -> step NP D F c (Control f t) = SStep c2 ->
  exists nf k pt, CtlReady D c f t nf k /\ c2 = ctl nf k f t c /\ procs c !! t = Some pt /\ polls_control NP D pt = true.
Proof.
  intros Hcf Hc2. pose proof Hc2 as Hc2'. revert Hc2. cbn [step negb is_np orb]. destruct (bool_decide (f = t)) eqn:Eft; [done|]. apply bool_decide_eq_false in Eft.
  destruct (procs c !! f) as [pf|] eqn:Hf; [|done]. destruct (procs c !! t) as [pt|] eqn:Hpt; [|done].
  destruct (action_of NP D pf) as [| |k m|k| |k provs|w] eqn:Ea; try done.
  destruct (self_chan pt) as [k'|] eqn:Esc; [|done].
  destruct (bool_decide (k = k')) eqn:Ek; [|done]. apply bool_decide_eq_true in Ek. subst k'.
  destruct (polls_control NP D pt) eqn:Hpoll; [|done]. intros _.
  destruct (ctrl_inv D pf k provs Ea) as (to & from & d & _ & _ & ->).
  destruct (Hcf f pf Hf) as [_ [nf Hnf]]. destruct (Hcf t pt Hpt) as [_ [n0 Hn0]].
  assert (Hk : chan n0 = Some k) by (unfold self_chan, prov0 in Esc; rewrite Hn0 in Esc; exact Esc).
  rewrite Hnf in Ea. assert (Hr : CtlReady D c f t nf k) by (split; [done|]; exists pf, pt, n0; done).
  exists nf, k, pt. split; [exact Hr|]. split; [|done].
  pose proof (ctl_fire D F c f t nf k pt Hr Hpt Hpoll) as Hs'. congruence.
Qed.

(* polling does not depend on which channel the single provider is *)
Lemma polls_provs a b ka kb body nx : chan a = Some ka -> chan b = Some kb ->
  polls_control NP D (Proc [a] body nx) = polls_control NP D (Proc [b] body nx).
Proof.
  intros Ha Hb. unfold polls_control, action_of. cbn [pr_body0].
  destruct body; simpl; unfold send_on, recv_on, internal, self_chan, prov0, multi; simpl; rewrite ?Ha, ?Hb;
    repeat match goal with |- context [if ?x then _ else _] => destruct x end;
    repeat match goal with |- context [match chan ?x with _ => _ end] => destruct (chan x) end; reflexivity.
Qed.

Lemma fwd_action_provs a b body nx k : action_of NP D (Proc [a] body nx) = ACtrl k [a] -> action_of NP D (Proc [b] body nx) = ACtrl k [b].
Proof.
  intros Ha. destruct (ctrl_inv D _ k [a] Ha) as (to & from & d & Hb & Hfrom & _). cbn in Hb. subst body.
  revert Ha. unfold action_of. cbn. destruct (negb (is_self to)); [done|]. rewrite Hfrom. intros _. done.
Qed.

(* f -> t -> t' *)
Theorem join_ctl_ctl c f t t' c1 c2 :
  JN c -> step NP D F c (Control f t) = SStep c1 -> step NP D F c (Control t t') = SStep c2 ->
  exists d, step NP D F c1 (Control t t') = SStep d /\ step NP D F c2 (Control f t') = SStep d.
Proof.
  intros (HI & Hb & Hcf) H1 H2.
  destruct (ctl_of_step c f t c1 Hcf H1) as (nf & k & pt & Hr1 & -> & Hpt & Hpoll1).
  destruct (ctl_of_step c t t' c2 Hcf H2) as (n0 & k2 & pt' & Hr2 & -> & Hpt' & Hpoll2).
  destruct Hr1 as (Hft & pf & pt1 & n0' & Hf & Hpt1 & Eaf & Hn0 & Hk).
  destruct Hr2 as (Htt' & pt2 & pt2' & n1 & Hpt2 & Hpt2' & Eat & Hn1 & Hk2).
  rewrite Hpt in Hpt1, Hpt2. injection Hpt1 as <-. injection Hpt2 as <-. rewrite Hpt' in Hpt2'. injection Hpt2' as <-.
  assert (Hn0n : n0' = n0).
  { destruct (ctrl_inv D pt k2 [n0] Eat) as (_ & _ & _ & _ & _ & E). rewrite Hn0 in E. by injection E. }
  subst n0'.
  assert (Hft' : f <> t').
  { intros ->. rewrite Hf in Hpt'. injection Hpt' as ->. destruct (ctrl_inv D pt' k [nf] Eaf) as (to & from & d & Hbody & _).
    (* t' would be a forward that is the target of t: fine in general, but then f = t' is the client of k and provides k2: *)
    destruct HI as [_ Ht _ _ _ _ _].
    (* f refers to k, which t provides; t refers to k2, which t' = f provides: a cycle *)
    destruct (topo_rank c Ht) as (rk & M & _ & Hrk).
    assert (Hfk : k ∈ refs (OProc t' pt')) by (cbn; rewrite Hbody; simpl; destruct (ctrl_inv D pt' k [nf] Eaf) as (? & ? & ? & Hb' & Hfr & _); rewrite Hbody in Hb'; injection Hb' as <- <- <-; unfold name_chans at 2; rewrite Hfr; set_solver).
    assert (Htk : k ∈ provides (OProc t pt)) by (cbn; rewrite Hn0; cbn; rewrite Hk; set_solver).
    assert (Htk2 : k2 ∈ refs (OProc t pt)).
    { destruct (ctrl_inv D pt k2 [n0] Eat) as (to2 & from2 & d2 & Hb2 & Hfr2 & _). cbn. rewrite Hb2. simpl. unfold name_chans at 2. rewrite Hfr2. set_solver. }
    assert (Hfk2 : k2 ∈ provides (OProc t' pt')) by (cbn; rewrite Hn1; cbn; rewrite Hk2; set_solver).
    pose proof (Hrk (OProc t pt) k k2 Hpt Htk Htk2). pose proof (Hrk (OProc t' pt') k2 k Hf Hfk2 Hfk). lia. }
  exists (ctl nf k f t' (ctl n0 k2 t t' c)). split.
  - rewrite <- (ctl_ctl_commute c f t t' nf n0 k k2 pt pt' Hft Hft' Htt' Hpt Hpt').
    assert (Hl1 : procs (ctl nf k f t c) !! t = Some (Proc [nf] (pr_body0 pt) (pr_next pt))) by (unfold ctl; rewrite Hpt; cbn; apply lookup_insert).
    assert (Hl2 : procs (ctl nf k f t c) !! t' = Some pt') by (unfold ctl; rewrite Hpt; cbn; rewrite lookup_insert_ne by done; by rewrite lookup_delete_ne).
    eapply ctl_fire; [|exact Hl2|exact Hpoll2].
    split; [done|]. exists (Proc [nf] (pr_body0 pt) (pr_next pt)), pt', n1. split; [done|]. split; [done|]. split; [|done].
    destruct pt as [provs body nx]. cbn in Hn0. subst provs. cbn. eapply fwd_action_provs; eauto.
  - assert (Hl1 : procs (ctl n0 k2 t t' c) !! f = Some pf) by (unfold ctl; rewrite Hpt'; cbn; rewrite lookup_insert_ne by done; by rewrite lookup_delete_ne).
    assert (Hl2 : procs (ctl n0 k2 t t' c) !! t' = Some (Proc [n0] (pr_body0 pt') (pr_next pt'))) by (unfold ctl; rewrite Hpt'; cbn; apply lookup_insert).
    eapply ctl_fire; [|exact Hl2|].
    + split; [done|]. exists pf, (Proc [n0] (pr_body0 pt') (pr_next pt')), n0. done.
    + destruct pt' as [provs' body' nx']. cbn in Hn1. subst provs'. cbn. rewrite <- Hpoll2. eapply polls_provs; eauto.
Qed.

(* ------------------------------------------------------------------ the generic join: a step b that commutes with the formal
   control message (possibly moving its target from t to t1), then the chain of the new target *)
Lemma join_generic c f t t1 nf k b c1 N :
  JN c -> step NP D F c (Control f t) = SStep (ctl nf k f t c) -> step NP D F c b = SStep c1 ->
  step NP D F (ctl nf k f t c) b = SStep (ctl nf k f t1 c1) -> CtlReady D c1 f t1 nf k ->
  ((forall m c', runN m c1 c' -> (m <= N)%nat) \/ (forall m c', runN m (ctl nf k f t c) c' -> (m <= N)%nat)) ->
  exists k' d, runN k' c1 d /\ runN k' (ctl nf k f t c) d.
Proof.
  intros HJ Hctl Hb Hb' Hr1 Hbound.
  assert (HJ1 : JN c1) by (eapply (JN_step D F teq); eauto).
  destruct (chain D F teq Hteq HF HFa HFn HFc f t1 nf k N c1 HJ1 Hr1) as (m & d & ptd & H1 & H2 & HJd & Hrd & Hptd & Hpd).
  { destruct Hbound as [Hbd|Hbd]; [by left|right]. intros m0 c' Hm.
    assert (H : runN (S m0) (ctl nf k f t c) c') by (eapply bs_S; [by apply stp_Some|exact Hm]). specialize (Hbd _ _ H). lia. }
  exists (S m), (ctl nf k f t1 d). split.
  - replace (S m) with (m + 1)%nat by lia. eapply bsteps_trans; [exact H1|]. eapply bs_S; [|apply bs_O].
    apply stp_Some. eapply ctl_fire; eauto.
  - eapply bs_S; [by apply stp_Some|exact H2].
Qed.
End JoinBC.
