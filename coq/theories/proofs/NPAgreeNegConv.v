(* NPAgreeNegConv.v — the converse of NPAgreeNeg: for the class of negative forwards, if a run of the
   SYNCHRONOUS polarized mode completes, every long enough run of the non-polarized mode completes and
   prints a permutation of its labels.
   The synchronous run is an NP run to the same configuration S (sync_step_np_exact); from S the NP mode
   can only hand over control (NPFlush.flush_step), each hand-over removes one process, so after at most
   size (procs S) of them the NP mode is quiescent too, with the output of S; NP determinism
   (exec_run_complete_np) carries this to every run of the interpreter. *)
From stdpp Require Import gmap strings sorting.
Require Import Grits.Base Grits.ModeDefs Grits.Modes Grits.STypes Grits.Forms Grits.Subst Grits.TcDeps Grits.Expand
               Grits.Tc Grits.TcTop Grits.spec.SynOk Grits.Runtime Grits.RuntimeFootprint
               Grits.spec.RtTyping Grits.spec.Topo Grits.proofs.RtSafety Grits.proofs.RtInit Grits.proofs.RtTheorems
               Grits.proofs.RtTcSyn Grits.proofs.RtTcBisim Grits.proofs.ParseSynOk Grits.proofs.ParseRaw Grits.proofs.RtTheoremsTc Grits.proofs.SrcAll.
Require Import Grits.proofs.RuntimeFacts Grits.proofs.Diamond Grits.proofs.Determinism Grits.proofs.AsyncSync
               Grits.proofs.TopoStep Grits.proofs.InvAll Grits.proofs.InvNP Grits.proofs.DeterminismAll Grits.proofs.NPCfree Grits.proofs.Balanced
               Grits.proofs.NPJoinA Grits.proofs.NPDeterminism Grits.proofs.RtTheoremsFinal Grits.proofs.NPFlush Grits.proofs.NPNegFwd Grits.proofs.NPAgreeNeg.

(* a control hand-over removes one process *)
Lemma control_size D F c f t c1 : step NP D F c (Control f t) = SStep c1 -> (size (procs c1) < size (procs c))%nat.
Proof.
  cbn [step negb is_np orb]. destruct (bool_decide (f = t)) eqn:Eft; [done|]. apply bool_decide_eq_false in Eft.
  destruct (procs c !! f) as [pf|] eqn:Hf; [|done]. destruct (procs c !! t) as [pt|] eqn:Hpt; [|done].
  destruct (action_of NP D pf) as [| |k m|k| |k provs|w]; try done. destruct (self_chan pt) as [k'|]; [|done].
  destruct (bool_decide (k = k') && polls_control NP D pt); [|done]. intros [= <-].
  rewrite apply_control_effect. cbn [procs del_proc].
  rewrite map_size_insert_Some by (rewrite lookup_delete_ne by done; eauto).
  rewrite map_size_delete_Some by eauto.
  assert (size (procs c) <> 0)%nat by (intros H; apply map_size_empty_inv in H; rewrite H, lookup_empty in Hf; done). lia.
Qed.

Section Conv.
Variable D : tenv.
Variable F : list fundef.
Variable teq : sty -> sty -> Prop.
Hypothesis Hteq : teq_laws D teq.
Hypothesis HF : funs_typed D F teq.
Hypothesis HFa : funs_aff F.
Hypothesis HFn : nofd_funs F.
Hypothesis HFw : nfw_funs D F.
Notation JN := (JN D F teq).
Notation stpN := (stp NP D F).
Notation runN := (bsteps stpN).

Let HFc : cfree_funs F := nfw_funs_cfree D F HFw.

Lemma bsteps_app n m a b c : runN n a b -> runN m b c -> runN (n + m) a c.
Proof. induction 1 as [|n a ch a' b Hs Hn IH]; intros H; [done|]. cbn. eapply bs_S; eauto. Qed.

(* a synchronous step sequence is a non-polarized one *)
Lemma sync_nsteps_np n c S : nsteps (stp Sync D F) n c S -> JN c -> NF D c -> runN n c S /\ JN S /\ NF D S.
Proof.
  induction 1 as [c|n c a c' S Hs Hn IH]; intros HJ Hnf; [split; [apply bs_O|done]|].
  apply stp_Some in Hs. destruct (sync_step_np_exact D F teq Hteq HF c a c' HJ Hnf Hs) as [a' Hs'].
  pose proof HJ as (_ & Hbe & _).
  assert (HJ' : JN c') by (eapply (JN_step D F teq Hteq HF HFa HFn HFc); eauto).
  assert (Hnf' : NF D c') by (eapply nf_step_np; eauto).
  destruct (IH HJ' Hnf') as (Hr & HJS & HnS). split; [|done]. eapply bs_S; [by apply stp_Some|done].
Qed.

(* the hand-overs that remain where the synchronous mode is quiescent come to an end *)
Lemma flush_terminates : forall n c, (size (procs c) <= n)%nat -> JN c -> quiescent Sync D F c ->
  exists j t, runN j c t /\ quiescent NP D F t.
Proof.
  induction n as [|n IH]; intros c Hsz HJ Hq.
  - exists 0%nat, c. split; [apply bs_O|]. intros ch. destruct (step NP D F c ch) as [|c1|w e] eqn:Es; [done| |].
    + exfalso. destruct (flush_step D F teq Hteq HF c ch c1 HJ Hq Es) as (_ & _ & f & t & ->).
      pose proof (control_size D F c f t c1 Es). lia.
    + by destruct (np_no_error D F teq Hteq HF c ch w e HJ).
  - destruct (enabled NP D F c) as [|e0 es] eqn:E.
    + exists 0%nat, c. split; [apply bs_O|]. by apply enabled_nil_quiescent_np.
    + assert (Hin : In e0 (enabled NP D F c)) by (rewrite E; by left).
      apply enabled_spec in Hin. destruct (step NP D F c e0) as [|c1|w e] eqn:Es; [done| |].
      * destruct (flush_step D F teq Hteq HF c e0 c1 HJ Hq Es) as (Hq1 & _ & f & t & ->).
        pose proof (control_size D F c f t c1 Es) as Hlt.
        assert (HJ1 : JN c1) by (eapply (JN_step D F teq Hteq HF HFa HFn HFc); eauto).
        destruct (IH c1 ltac:(lia) HJ1 Hq1) as (j & t' & Hr & Hqt).
        exists (S j), t'. split; [|done]. eapply bs_S; [by apply stp_Some|done].
      * by destruct (np_no_error D F teq Hteq HF c e0 w e HJ).
Qed.

Theorem sync_np_agree_neg_cfg c pick1 f1 t1 : JN c -> NF D c ->
  exec_run f1 pick1 Sync D F c = RQuiescent t1 ->
  exists n, forall pick2 f2, (n < f2)%nat ->
    exists t2, exec_run f2 pick2 NP D F c = RQuiescent t2 /\ labels t2 ≡ₚ labels t1.
Proof.
  intros HJ Hnf H1. apply exec_run_sound in H1 as (m & _ & Hr & Hq).
  destruct (sync_nsteps_np m c t1 Hr HJ Hnf) as (Hrn & HJ1 & _).
  destruct (flush_terminates (size (procs t1)) t1 (le_n _) HJ1 Hq) as (j & t & Hj & Hqt).
  destruct (flush_run D F teq Hteq HF j t1 t HFa HFn HFc HJ1 Hq Hj) as [_ Ho].
  exists (m + j)%nat. intros pick2 f2 Hlt.
  destruct (exec_run_complete_np D F teq Hteq HF HFa HFn HFc pick2 f2 (m + j) c t HJ (bsteps_app _ _ _ _ _ Hrn Hj) Hqt Hlt) as (t2 & H2 & He).
  exists t2. split; [done|]. rewrite (cfg_equiv_labels t2 t He). unfold labels. by rewrite Ho.
Qed.
End Conv.

Theorem polarized_np_agree_negfwd txt p p' pick1 f1 t1 :
  parse_string txt = POk p -> typecheck p = Accept p' -> in_fragment p' -> negfwd_prog_b p' = true ->
  exec_run f1 pick1 Sync (p_types p') (p_funs p') (init_config p') = RQuiescent t1 ->
  exists n, forall pick2 f2, (n < f2)%nat ->
    exists t2, exec_run f2 pick2 NP (p_types p') (p_funs p') (init_config p') = RQuiescent t2 /\ labels t2 ≡ₚ labels t1.
Proof.
  intros Hp Ha Hf Hcf Hr.
  pose proof (parse_syn_ok _ _ Hp) as PS. pose proof (parse_raw_ok _ _ Hp) as RS.
  pose proof (all_src_parsed txt p p' Hp Ha) as Hall.
  destruct (init_invx p p' Ha Hf PS RS Hall) as (HFa & HFn & HI).
  destruct (init_nf p' Hcf) as [HFw Hnf].
  pose proof (tc_annotations_typed_rt p p' Ha PS RS Hf) as Hst.
  assert (HJ : JN (p_types p') (p_funs p') (teq_rt (p_types p')) (init_config p')).
  { split; [exact HI|]. split; [apply bufs_empty_init|by apply NF_CF in Hnf]. }
  exact (sync_np_agree_neg_cfg (p_types p') (p_funs p') (teq_rt (p_types p')) (teq_rt_laws _) (proj1 Hst) HFa HFn HFw
           (init_config p') pick1 f1 t1 HJ Hnf Hr).
Qed.

(* ------------------------------------------------------------------ what is NOT proved *)
(* The statement for all contraction-free programs (forwards of either polarity, drop): kept as a
   Definition.  Proved above: the instance for negfwd_prog_b (both directions).  Missing for positive
   forwards: when `Control f t` absorbs a positive forward f, the polarized run keeps f as the process
   that re-sends t's message (on_message, FFwd case), so after the hand-over the two runs differ in the
   identifier of a blocked sender (f there, t here) and in the closed flag of a dead channel; the
   simulation relation must be equality up to that renaming, and NPFlush.flush_step must be transported
   along it.  Missing for drop: the polarized modes reclaim the dropped subtree (droppable forwards,
   GC requests), the non-polarized mode leaves it blocked; the relation must ignore that garbage. *)
Require Grits.proofs.DeterminismNPCfree.
Definition np_polarized_agree_cfree_statement : Prop :=
  forall txt p p' pick1 f1 t1,
  parse_string txt = POk p -> typecheck p = Accept p' -> in_fragment p' -> Grits.proofs.DeterminismNPCfree.cfree_src_b p = true ->
  exec_run f1 pick1 NP (p_types p') (p_funs p') (init_config p') = RQuiescent t1 ->
  exists n, forall pick2 f2, (n < f2)%nat ->
    exists t2, exec_run f2 pick2 Sync (p_types p') (p_funs p') (init_config p') = RQuiescent t2 /\ labels t2 ≡ₚ labels t1.
