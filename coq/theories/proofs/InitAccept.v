(* InitAccept.v — init_linear p' from acceptance: for a program p with
     typecheck p = Accept p',  in_fragment p',  prog_syn_ok p,  raw_ok p   (as in DeterminismTc.v)
   and the decidable syntactic test core_src_b on the SOURCE p (no drop / split / droppable forward,
   one provider name per process, no empty case), `init_linear p'` is a theorem.
   Affinity of the bodies: C05 (LinearTop.tc_linear) through LinBridge; the initial forest: C07's
   ProgOK (TypingSoundTop.tc_sound: every declared name used by at most one process, distinct
   provider names, acyclic uses) with the rank read off the marking order (KahnOrder). *)
From stdpp Require Import gmap strings sorting.
Require Import Grits.Base Grits.ModeDefs Grits.Modes Grits.STypes Grits.Forms Grits.Subst Grits.TcDeps Grits.Expand
               Grits.Tc Grits.TcTop Grits.spec.SynOk Grits.spec.Typing Grits.spec.Linear
               Grits.proofs.TcLemmas Grits.proofs.LinearTop Grits.proofs.TypingSoundTop Grits.proofs.Acyclic
               Grits.proofs.KahnOrder Grits.proofs.TcShape Grits.proofs.TcShapeTop.
Require Import Grits.Runtime Grits.RuntimeFootprint
               Grits.spec.RtTyping Grits.spec.Topo Grits.proofs.RtSubst Grits.proofs.RtSafety
               Grits.proofs.RtInit Grits.proofs.RtTheorems Grits.proofs.RtTcSyn Grits.proofs.RtTcBisim.
Require Import Grits.proofs.RuntimeFacts Grits.proofs.AsyncSync Grits.proofs.TopoLin Grits.proofs.TopoStep
               Grits.proofs.TopoReach Grits.proofs.LinBridge Grits.proofs.InitForest.

(* the syntactic test on the source program *)
Definition core_src_b (p : program) : bool :=
  forallb (fun fd => core_form (fn_body fd) && nec (fn_body fd)) (p_funs p) &&
  forallb (fun pd => core_form (pr_body pd) && nec (pr_body pd) &&
                     match pr_providers pd with [_] => true | _ => false end) (p_procs p).

(* ------------------------------------------------------------------ raw_ok: no channels in the source *)
Lemma syn_uninit_mut :
  (forall f rs, syn_form rs f = true -> uninit_form f = true) /\
  (forall b rs, syn_brs rs b = true -> uninit_brs b = true).
Proof.
  assert (Hn : forall rs n, nm_ok rs n = true -> uninit n = true).
  { intros rs n. unfold nm_ok, uninit. by destruct (chan n). }
  assert (Hb : forall n, bd_ok n = true -> uninit n = true).
  { intros n. unfold bd_ok, uninit. by destruct (chan n). }
  apply form_branches_ind; simpl; intros;
    repeat match goal with H : _ && _ = true |- _ => apply andb_true_iff in H as [? ?] end;
    repeat (apply andb_true_iff; split); eauto.
  (* FCall *) apply forallb_forall. intros a Ha. rewrite forallb_forall in H. eauto.
Qed.

Lemma raw_uninit p : raw_ok p = true -> uninit_prog p = true.
Proof.
  unfold raw_ok, uninit_prog. rewrite !andb_true_iff, !forallb_forall. intros [Hf Hp]. split.
  - intros fd Hfd. specialize (Hf fd Hfd). unfold fun_raw in Hf. apply andb_true_iff in Hf as [_ Hf].
    eapply (proj1 syn_uninit_mut); eauto.
  - intros pd Hpd. specialize (Hp pd Hpd). unfold proc_raw in Hp. apply andb_true_iff in Hp as [_ Hp].
    eapply (proj1 syn_uninit_mut); eauto.
Qed.

(* ------------------------------------------------------------------ lists *)
Lemma lookup_nth_error {A} (l : list A) i : l !! i = nth_error l i.
Proof. revert i. induction l as [|a l IH]; intros [|i]; simpl; auto. Qed.

Lemma nodup_flat_map_idx {A B} (f : A -> list B) l : NoDup (flat_map f l) ->
  forall i j a b x, l !! i = Some a -> l !! j = Some b -> In x (f a) -> In x (f b) -> i = j.
Proof.
  induction l as [|c l IH]; intros Hnd i j a b x Hi Hj Ha Hb; [destruct i; discriminate|].
  simpl in Hnd. apply NoDup_app_inv in Hnd as (_ & Hnd & Hdj).
  assert (Hin : forall k d, l !! k = Some d -> In x (f d) -> In x (flat_map f l)).
  { intros k d Hk Hd. apply in_flat_map. exists d. split; [|done]. apply elem_of_list_In. eapply elem_of_list_lookup_2; eauto. }
  destruct i as [|i], j as [|j]; simpl in Hi, Hj; auto.
  - injection Hi as ->. destruct (Hdj x Ha (Hin j b Hj Hb)).
  - injection Hj as ->. destruct (Hdj x Hb (Hin i a Hi Ha)).
  - f_equal. eapply IH; eauto.
Qed.

Lemma Forall2_lookup_both {A B} (R : A -> B -> Prop) l1 l2 i b : List.Forall2 R l1 l2 -> l2 !! i = Some b ->
  exists a, l1 !! i = Some a /\ R a b.
Proof.
  intros H. revert i. induction H as [|x y l1 l2 Hxy H IH]; intros [|i] Hi; simpl in *; try discriminate.
  - injection Hi as ->. eauto.
  - eauto.
Qed.

Lemma scope_uses p pd x : In x (proc_scope p pd) -> In x (map ident (Typing.proc_uses pd)).
Proof.
  unfold proc_scope, Typing.proc_uses. rewrite !in_map_iff. intros (n & <- & Hn). exists n. split; [done|].
  apply filter_In in Hn as [Hn Hc]. apply filter_In. split; [done|]. by apply andb_true_iff in Hc as [? _].
Qed.

Lemma uses_shape ps ps' : List.Forall2 same_shape ps ps' ->
  flat_map (fun d => map ident (Typing.proc_uses d)) ps' = flat_map (fun d => map ident (Typing.proc_uses d)) ps.
Proof.
  induction 1 as [|d d' ps ps' [E1 E2] H IH]; simpl; [reflexivity|]. rewrite IH. f_equal.
  unfold Typing.proc_uses. by rewrite E1, E2.
Qed.

(* ------------------------------------------------------------------ the theorem *)
(* the part of the source test that the forest and the affinity need: no empty case *)
Definition nec_src_b (p : program) : bool :=
  forallb (fun fd => nec (fn_body fd)) (p_funs p) && forallb (fun pd => nec (pr_body pd)) (p_procs p).

Theorem init_forest_accept p p' :
  typecheck p = Accept p' -> in_fragment p' -> prog_syn_ok p = true -> raw_ok p = true ->
  nec_src_b p = true ->
  funs_aff (p_funs p') /\ Topo (init_config p') /\ LinCfg (init_config p').
Proof.
  intros Ha Hf PS RS Hc.
  pose proof (teq_rt_laws (p_types p')) as Hlaws.
  pose proof (tc_annotations_typed_rt p p' Ha PS RS Hf) as Hst.
  destruct (typecheck_erase p p' Ha) as (Sf & Sp & _).
  pose proof (raw_uninit p RS) as Hu.
  destruct (tc_linear p p' Hu Ha) as (Lf & Lp & _).
  destruct (tc_sound (fun _ _ _ => True) (fun _ _ _ _ _ _ _ => I) p p' Ha) as (pe & (_ & _ & Ep & _) & OK).
  pose proof (elab_procs_shape _ _ _ Ep) as Sh.
  assert (U : NoDup (flat_map (fun d => map ident (Typing.proc_uses d)) (p_procs p))).
  { rewrite <- (uses_shape _ _ Sh). exact (pk_uses_once _ _ OK). }
  assert (P : NoDup (Typing.all_providers (p_procs p))).
  { rewrite <- (elab_procs_providers _ _ _ Ep). exact (pk_providers_unique _ _ OK). }
  assert (A : deps_acyclic (p_procs p) = true).
  { rewrite <- (deps_acyclic_shape _ _ Sh). exact (pk_acyclic _ _ OK). }
  unfold uninit_prog in Hu. apply andb_true_iff in Hu as [Huf Hup]. rewrite forallb_forall in Huf, Hup.
  unfold nec_src_b in Hc. apply andb_true_iff in Hc as [Hcf Hcp]. rewrite forallb_forall in Hcf, Hcp.
  (* the processes of p' against those of p *)
  assert (Hproc : forall i pr', p_procs p' !! i = Some pr' ->
            exists pd, p_procs p !! i = Some pd /\ In pd (p_procs p) /\
              erase_form (pr_body pr') = erase_form (pr_body pd) /\ pr_providers pr' = pr_providers pd).
  { intros i pr' Hi. destruct (Forall2_lookup_both _ _ _ _ _ Sp Hi) as (pd & Hpd & E1 & E2).
    exists pd. repeat split; auto. apply elem_of_list_In. eapply elem_of_list_lookup_2; eauto. }
  assert (Hsrc : forall pd, In pd (p_procs p) ->
            uninit_form (pr_body pd) = true /\ nec (pr_body pd) = true).
  { intros pd Hpd. specialize (Hcp pd Hpd). split; auto. }
  assert (HaffP : forall pr', In pr' (p_procs p') -> affr None (pr_body pr')).
  { intros pr' Hin. apply elem_of_list_In, elem_of_list_lookup_1 in Hin as [i Hi].
    destruct (Hproc i pr' Hi) as (pd & _ & Hpd & E & _). destruct (Hsrc pd Hpd) as (H1 & H2).
    eapply affr_erase_eq; [exact E|]. eapply linear_affr; eauto. }
  set (us := fun i => match p_procs p !! i with Some pd => proc_scope p pd | None => [] end).
  assert (Hus : forall i pr' pi x, p_procs p' !! i = Some pr' -> In pi (pnames None (pr_body pr')) -> In (KV x) pi -> In x (us i)).
  { intros i pr' pi x Hi Hpi Hx. destruct (Hproc i pr' Hi) as (pd & Hpd & Hin & E & _). destruct (Hsrc pd Hin) as (H1 & H2).
    unfold us. rewrite Hpd. apply str_mem_In.
    apply (path_var_scope (proc_scope p pd) None (pr_body pd) pi x H1 H2 (Lp pd Hin)); [|done].
    rewrite <- pnames_erase, <- E, pnames_erase. exact Hpi. }
  assert (Hus_inv : forall i x, In x (us i) -> exists pd, p_procs p !! i = Some pd /\ In x (map ident (Typing.proc_uses pd))).
  { intros i x. unfold us. destruct (p_procs p !! i) as [pd|] eqn:E; [|intros []]. intros H. exists pd. split; [done|].
    eapply scope_uses; eauto. }
  assert (Hdisj : forall i i' x, In x (us i) -> In x (us i') -> i = i').
  { intros i i' x H1 H2. apply Hus_inv in H1 as (pd1 & Hp1 & Hx1). apply Hus_inv in H2 as (pd2 & Hp2 & Hx2).
    eapply (nodup_flat_map_idx (fun d => map ident (Typing.proc_uses d)) (p_procs p) U); eauto. }
  set (deps := map (proc_deps (p_procs p)) (p_procs p)).
  set (pos := fun i => idx i (mark_rounds (length deps) deps [])).
  assert (Hpos : forall i i' pr' n, In (ident n) (us i) -> p_procs p' !! i' = Some pr' -> In n (pr_providers pr') ->
            (pos i' < pos i)%nat /\ (pos i <= length deps)%nat).
  { intros i i' pr' n H1 Hi' Hn. apply Hus_inv in H1 as (pd & Hpd & Hx).
    destruct (Hproc i' pr' Hi') as (pd' & Hpd' & _ & _ & Epv). rewrite Epv in Hn.
    apply in_map_iff in Hx as (fn & Efn & Hfn).
    assert (Hlen : length deps = length (p_procs p)) by (unfold deps; apply map_length).
    assert (L : length (mark_rounds (length deps) deps []) = length deps).
    { unfold deps_acyclic in A. apply Nat.eqb_eq in A. rewrite Hlen. exact A. }
    rewrite lookup_nth_error in Hpd, Hpd'.
    apply (kahn_rank deps L i i').
    - rewrite Hlen. apply nth_error_Some. congruence.
    - unfold deps. rewrite (deps_nth _ _ _ Hpd). apply in_proc_deps. exists fn. split; [done|].
      rewrite Efn. eapply provider_index_nodup; eauto. apply in_map_iff. eauto. }
  split; [|split].
  - (* funs_aff *)
    unfold funs_aff. rewrite Forall_forall. intros fd' Hfd'.
    destruct (Forall2_In_r _ _ _ _ Sf Hfd') as (fd & Hfd & E). specialize (Hcf fd Hfd).
    eapply affr_erase_eq; [exact E|]. eapply linear_affr; eauto.
  - exact (init_topo p' _ Hlaws Hst HaffP us Hus Hdisj pos (length deps) Hpos).
  - exact (init_lincfg p' _ Hlaws Hst HaffP us Hus Hdisj pos (length deps) Hpos).
Qed.

Theorem init_linear_accept p p' :
  typecheck p = Accept p' -> in_fragment p' -> prog_syn_ok p = true -> raw_ok p = true ->
  core_src_b p = true -> init_linear p'.
Proof.
  intros Ha Hf PS RS Hc.
  pose proof (teq_rt_laws (p_types p')) as Hlaws.
  pose proof (tc_annotations_typed_rt p p' Ha PS RS Hf) as Hst.
  destruct (typecheck_erase p p' Ha) as (Sf & Sp & _).
  pose proof (raw_uninit p RS) as Hu.
  destruct (tc_linear p p' Hu Ha) as (Lf & Lp & _).
  destruct (tc_sound (fun _ _ _ => True) (fun _ _ _ _ _ _ _ => I) p p' Ha) as (pe & (_ & _ & Ep & _) & OK).
  pose proof (elab_procs_shape _ _ _ Ep) as Sh.
  assert (U : NoDup (flat_map (fun d => map ident (Typing.proc_uses d)) (p_procs p))).
  { rewrite <- (uses_shape _ _ Sh). exact (pk_uses_once _ _ OK). }
  assert (P : NoDup (Typing.all_providers (p_procs p))).
  { rewrite <- (elab_procs_providers _ _ _ Ep). exact (pk_providers_unique _ _ OK). }
  assert (A : deps_acyclic (p_procs p) = true).
  { rewrite <- (deps_acyclic_shape _ _ Sh). exact (pk_acyclic _ _ OK). }
  unfold uninit_prog in Hu. apply andb_true_iff in Hu as [Huf Hup]. rewrite forallb_forall in Huf, Hup.
  unfold core_src_b in Hc. apply andb_true_iff in Hc as [Hcf Hcp]. rewrite forallb_forall in Hcf, Hcp.
  (* the processes of p' against those of p *)
  assert (Hproc : forall i pr', p_procs p' !! i = Some pr' ->
            exists pd, p_procs p !! i = Some pd /\ In pd (p_procs p) /\
              erase_form (pr_body pr') = erase_form (pr_body pd) /\ pr_providers pr' = pr_providers pd).
  { intros i pr' Hi. destruct (Forall2_lookup_both _ _ _ _ _ Sp Hi) as (pd & Hpd & E1 & E2).
    exists pd. repeat split; auto. apply elem_of_list_In. eapply elem_of_list_lookup_2; eauto. }
  assert (Hsrc : forall pd, In pd (p_procs p) ->
            uninit_form (pr_body pd) = true /\ nec (pr_body pd) = true /\ core_form (pr_body pd) = true /\
            exists n, pr_providers pd = [n]).
  { intros pd Hpd. specialize (Hcp pd Hpd). apply andb_true_iff in Hcp as [Hcp H3]. apply andb_true_iff in Hcp as [H1 H2].
    repeat split; auto. destruct (pr_providers pd) as [|n [|]]; try discriminate. eauto. }
  assert (HaffP : forall pr', In pr' (p_procs p') -> affr None (pr_body pr')).
  { intros pr' Hin. apply elem_of_list_In, elem_of_list_lookup_1 in Hin as [i Hi].
    destruct (Hproc i pr' Hi) as (pd & _ & Hpd & E & _). destruct (Hsrc pd Hpd) as (H1 & H2 & _).
    eapply affr_erase_eq; [exact E|]. eapply linear_affr; eauto. }
  set (us := fun i => match p_procs p !! i with Some pd => proc_scope p pd | None => [] end).
  assert (Hus : forall i pr' pi x, p_procs p' !! i = Some pr' -> In pi (pnames None (pr_body pr')) -> In (KV x) pi -> In x (us i)).
  { intros i pr' pi x Hi Hpi Hx. destruct (Hproc i pr' Hi) as (pd & Hpd & Hin & E & _). destruct (Hsrc pd Hin) as (H1 & H2 & _).
    unfold us. rewrite Hpd. apply str_mem_In.
    apply (path_var_scope (proc_scope p pd) None (pr_body pd) pi x H1 H2 (Lp pd Hin)); [|done].
    rewrite <- pnames_erase, <- E, pnames_erase. exact Hpi. }
  assert (Hus_inv : forall i x, In x (us i) -> exists pd, p_procs p !! i = Some pd /\ In x (map ident (Typing.proc_uses pd))).
  { intros i x. unfold us. destruct (p_procs p !! i) as [pd|] eqn:E; [|intros []]. intros H. exists pd. split; [done|].
    eapply scope_uses; eauto. }
  assert (Hdisj : forall i i' x, In x (us i) -> In x (us i') -> i = i').
  { intros i i' x H1 H2. apply Hus_inv in H1 as (pd1 & Hp1 & Hx1). apply Hus_inv in H2 as (pd2 & Hp2 & Hx2).
    eapply (nodup_flat_map_idx (fun d => map ident (Typing.proc_uses d)) (p_procs p) U); eauto. }
  set (deps := map (proc_deps (p_procs p)) (p_procs p)).
  set (pos := fun i => idx i (mark_rounds (length deps) deps [])).
  assert (Hpos : forall i i' pr' n, In (ident n) (us i) -> p_procs p' !! i' = Some pr' -> In n (pr_providers pr') ->
            (pos i' < pos i)%nat /\ (pos i <= length deps)%nat).
  { intros i i' pr' n H1 Hi' Hn. apply Hus_inv in H1 as (pd & Hpd & Hx).
    destruct (Hproc i' pr' Hi') as (pd' & Hpd' & _ & _ & Epv). rewrite Epv in Hn.
    apply in_map_iff in Hx as (fn & Efn & Hfn).
    assert (Hlen : length deps = length (p_procs p)) by (unfold deps; apply map_length).
    assert (L : length (mark_rounds (length deps) deps []) = length deps).
    { unfold deps_acyclic in A. apply Nat.eqb_eq in A. rewrite Hlen. exact A. }
    rewrite lookup_nth_error in Hpd, Hpd'.
    apply (kahn_rank deps L i i').
    - rewrite Hlen. apply nth_error_Some. congruence.
    - unfold deps. rewrite (deps_nth _ _ _ Hpd). apply in_proc_deps. exists fn. split; [done|].
      rewrite Efn. eapply provider_index_nodup; eauto. apply in_map_iff. eauto. }
  split; [|split; [|split; [|split]]].
  - (* core_funs *)
    unfold core_funs. rewrite Forall_forall. intros fd' Hfd'.
    destruct (Forall2_In_r _ _ _ _ Sf Hfd') as (fd & Hfd & E). specialize (Hcf fd Hfd). apply andb_true_iff in Hcf as [H1 _].
    by rewrite (core_erase_eq _ _ E).
  - (* funs_aff *)
    unfold funs_aff. rewrite Forall_forall. intros fd' Hfd'.
    destruct (Forall2_In_r _ _ _ _ Sf Hfd') as (fd & Hfd & E). specialize (Hcf fd Hfd). apply andb_true_iff in Hcf as [_ H2].
    eapply affr_erase_eq; [exact E|]. eapply linear_affr; eauto.
  - exact (init_topo p' _ Hlaws Hst HaffP us Hus Hdisj pos (length deps) Hpos).
  - exact (init_lincfg p' _ Hlaws Hst HaffP us Hus Hdisj pos (length deps) Hpos).
  - apply init_corecfg. intros pr' Hin. apply elem_of_list_In, elem_of_list_lookup_1 in Hin as [i Hi].
    destruct (Hproc i pr' Hi) as (pd & _ & Hpd & E & Epv). destruct (Hsrc pd Hpd) as (_ & _ & H3 & n & Hn).
    split; [by rewrite (core_erase_eq _ _ E)|]. exists n. congruence.
Qed.
