(* proofs/RuneSweepAgree.v — every non-ASCII rune is scanned as the model's "other" character. *)
Require Import Grits.Base Grits.Tokens Grits.Scan Grits.gen.RuneTable Grits.GenRuneChecks.

Lemma rune_sweep_agrees : rune_sweep_ok_b = true.
Proof. vm_compute. reflexivity. Qed.

Lemma rune_no_deviation : rune_deviations = [].
Proof. vm_compute. reflexivity. Qed.
