(* PlainNP.v — the non-polarized mode on configurations WITHOUT forwards: when no body contains a
   forward, a drop or a split and every process has one provider (so the interpreter never creates a
   forward either: no DUP, no droppable forward), a step of the non-polarized mode IS the step of the
   synchronous polarized mode (plain_step_eq), the enabled choices are the same, and so are the runs
   (plain_run_eq).  Hence NP determinism and the agreement of the NP print multiset with the polarized
   modes for these programs, from the theorems of DeterminismAll.v.
   With forwards the two modes differ in the order of events (Control versus FWD request / positive
   forward) and `drop` reclaims nothing in NP; that case is not covered here. *)
From stdpp Require Import gmap strings sorting.
Require Import Grits.Base Grits.ModeDefs Grits.Modes Grits.STypes Grits.Forms Grits.Subst Grits.TcDeps Grits.Expand
               Grits.Runtime Grits.RuntimeFootprint Grits.spec.RtTyping Grits.spec.Topo.
Require Import Grits.proofs.StepErrors Grits.proofs.RtSafety Grits.proofs.RtSafetyNP Grits.proofs.RuntimeFacts Grits.proofs.AsyncSync
               Grits.proofs.TopoStep Grits.proofs.InvAll Grits.proofs.InvNP.

Fixpoint plain (f : form) : bool :=
  match f with
  | FRecv _ _ _ k | FWait _ k | FShift _ _ k | FPrint _ k => plain k
  | FCase _ bs => plain_brs bs
  | FNew _ b k => plain b && plain k
  | FFwd _ _ _ | FSplit _ _ _ _ | FDrop _ _ => false
  | _ => true
  end
with plain_brs (b : branches) : bool :=
  match b with BrNil => true | BrCons _ _ k r => plain k && plain_brs r end.

Lemma plain_subst_mut old new :
  (forall f, plain (subst old new f) = plain f) /\ (forall b, plain_brs (subst_brs old new b) = plain_brs b).
Proof.
  apply form_branches_ind; simpl; intros; auto;
    repeat match goal with |- context [if ?c then _ else _] => destruct c end; congruence.
Qed.
Lemma plain_subst old new f : plain (subst old new f) = plain f.
Proof. apply plain_subst_mut. Qed.
Lemma plain_find l bs pay K : find_branch l bs = Some (pay, K) -> plain_brs bs = true -> plain K = true.
Proof.
  induction bs as [|l' p' k' r IH]; simpl; [discriminate|]. rewrite andb_true_iff. destruct (String.eqb l' l).
  - intros [= -> ->]. tauto.
  - intros H [_ H']. auto.
Qed.
Lemma plain_sub_all : forall ps ar b, plain (sub_all ps ar b) = plain b.
Proof. induction ps as [|q ps IH]; intros [|a ar] b; simpl; auto. by rewrite IH, plain_subst. Qed.
Definition plain_funs (Fs : list fundef) : Prop := Forall (fun fd => plain (fn_body fd) = true) Fs.
Lemma plain_call_body Fs fn args b : plain_funs Fs -> call_body Fs fn args = Some b -> plain b = true.
Proof.
  intros HFc. rewrite call_body_unfold. destruct (get_function Fs fn (length args)) as [fd|] eqn:Hg; [|discriminate].
  apply get_function_In in Hg. unfold plain_funs in HFc. rewrite Forall_forall in HFc. specialize (HFc fd Hg).
  cbn zeta. destruct (fn_explicit fd); repeat case_match; intros [= <-]; rewrite plain_sub_all, ?plain_subst; done.
Qed.
Lemma plain_not_fwd f : plain f = true -> body_is_fwd f = false.
Proof. by destruct f. Qed.

Definition PlainCfg (c : config) : Prop :=
  forall p pp, procs c !! p = Some pp -> plain (pr_body0 pp) = true /\ exists n, pr_provs pp = [n].

Section Plain.
Variable D : tenv.
Variable F : list fundef.
Hypothesis HFp : plain_funs F.

Lemma plain_action pp : plain (pr_body0 pp) = true -> action_of NP D pp = action_of Sync D pp.
Proof. intros H. rewrite action_of_sync. apply action_np_nonfwd. by apply plain_not_fwd. Qed.
Lemma plain_internal p pp : plain (pr_body0 pp) = true -> internal_effect NP F p pp = internal_effect Sync F p pp.
Proof. intros H. rewrite internal_effect_sync. apply internal_np_nondrop. by destruct (pr_body0 pp). Qed.

(* one step: the same *)
Lemma plain_step_eq c ch : PlainCfg c -> step NP D F c ch = step Sync D F c ch.
Proof.
  intros Hpl. destruct ch as [p|s r|f t]; cbn [step].
  - destruct (procs c !! p) as [pp|] eqn:Hp; [|done]. destruct (Hpl p pp Hp) as [Hb _].
    rewrite (plain_action pp Hb), (plain_internal p pp Hb). by destruct (action_of Sync D pp).
  - destruct (bool_decide (s = r)); [done|]. destruct (procs c !! s) as [ps|] eqn:Hs; [|done].
    destruct (procs c !! r) as [pr|] eqn:Hr; [|done]. destruct (Hpl s ps Hs) as [Hbs _]. destruct (Hpl r pr Hr) as [Hbr _].
    by rewrite (plain_action ps Hbs), (plain_action pr Hbr).
  - cbn [negb is_np orb]. destruct (bool_decide (f = t)); [done|]. destruct (procs c !! f) as [pf|] eqn:Hf; [|done].
    destruct (procs c !! t) as [pt|]; [|done]. destruct (Hpl f pf Hf) as [Hbf _].
    pose proof (plain_action pf Hbf) as Ea. destruct (action_of NP D pf) as [| |k m|k| |k pv|w] eqn:E; try done.
    exfalso. destruct (ctrl_inv D pf k pv E) as (to & from & d & Hb & _). rewrite Hb in Hbf. discriminate.
Qed.

(* the enabled choices: the same list *)
Lemma plain_enabled_eq c : PlainCfg c -> enabled NP D F c = enabled Sync D F c.
Proof.
  intros Hpl. unfold enabled, candidates. rewrite !filter_app.
  assert (Hctl : filter (fun ch => match step NP D F c ch with SNotEnabled => false | _ => true end)
                        (flat_map (fun s => map (fun r => Control s r) (pids c)) (pids c)) = []).
  { induction (flat_map (fun s => map (fun r => Control s r) (pids c)) (pids c)) as [|ch l IH] eqn:El in |- *; [done|].
    assert (Hall : forall ch', In ch' (ch :: l) -> step NP D F c ch' = SNotEnabled).
    { intros ch' Hin. rewrite (plain_step_eq c ch' Hpl).
      assert (exists f t, ch' = Control f t) as (f & t & ->).
      { rewrite <- El in Hin. apply in_flat_map in Hin as (s & _ & Hin). apply in_map_iff in Hin as (r & <- & _). eauto. }
      cbn [step negb is_np orb]. done. }
    clear El IH. induction (ch :: l) as [|a l' IH']; [done|]. simpl. rewrite (Hall a (or_introl eq_refl)). apply IH'.
    intros ch' Hin. apply Hall. by right. }
  rewrite Hctl, app_nil_r. f_equal; apply filter_ext; intros ch; by rewrite (plain_step_eq c ch Hpl).
Qed.

(* sends of plain bodies are not forward / GC requests *)
Lemma plain_send_rule pp k m : action_of Async D pp = ASend k m -> plain (pr_body0 pp) = true ->
  m_rule m <> RFWD /\ m_rule m <> RGC.
Proof.
  intros Ha Hpl. unfold action_of in Ha.
  destruct (pr_body0 pp) eqn:Eb; try discriminate Hpl; simpl in Ha;
    repeat match type of Ha with
           | (if ?b then _ else _) = _ => destruct b eqn:?
           | match ?x with _ => _ end = _ => destruct x eqn:?
           end;
    try discriminate;
    try (unfold internal in Ha; destruct (multi pp); discriminate);
    try (unfold recv_on in Ha; repeat match type of Ha with
           | (if ?b then _ else _) = _ => destruct b
           | match ?x with _ => _ end = _ => destruct x
           end; discriminate);
    try (unfold send_on in Ha; destruct (multi pp); [discriminate|];
         repeat match type of Ha with match ?x with _ => _ end = _ => destruct x end; try discriminate;
         injection Ha as <- <-; split; discriminate).
Qed.

(* what a plain process becomes when it receives a message that is not a request *)
Lemma plain_on_message p pp m e :
  on_message p pp m = EOk e -> plain (pr_body0 pp) = true -> (exists n, pr_provs pp = [n]) ->
  m_rule m <> RFWD -> m_rule m <> RGC ->
  exists pp1 cl, e = Eff (Continue pp1) [] [] cl [] /\ plain (pr_body0 pp1) = true /\ exists n, pr_provs pp1 = [n].
Proof.
  intros He Hpl Hpv Hfw Hgc. unfold on_message in He.
  destruct (rule_eqb (m_rule m) RFWD && negb _) eqn:E1.
  { apply andb_true_iff in E1 as [E1 _]. apply rule_eqb_eq in E1. contradiction. }
  destruct (rule_eqb (m_rule m) RGC && negb _) eqn:E2.
  { apply andb_true_iff in E2 as [E2 _]. apply rule_eqb_eq in E2. contradiction. }
  destruct (pr_body0 pp) as [to pay cont|pay cont from k0|to l cont|from bs|x b k0|c0|c0 k0|to from d|x y from k0|fn args pt|to cont|x from k0|c0 k0|l k0] eqn:Eb;
    try discriminate; simpl in Hpl.
  - destruct (is_self from); [destruct (rule_eqb (m_rule m) RRCV)|destruct (rule_eqb (m_rule m) RSND)]; try discriminate; injection He as <-;
      (eexists _, _; split; [reflexivity|]); cbn; rewrite ?plain_subst; eauto.
  - destruct (is_self from); [destruct (rule_eqb (m_rule m) RBRA)|destruct (rule_eqb (m_rule m) RSEL)]; try discriminate;
      destruct (find_branch (m_label m) bs) as [[pay K]|] eqn:Efb; try discriminate; injection He as <-;
      (eexists _, _; split; [reflexivity|]); cbn; rewrite ?plain_subst; (split; [eapply plain_find; eauto|eauto]).
  - destruct (rule_eqb (m_rule m) RCLS); try discriminate; injection He as <-;
      (eexists _, _; split; [reflexivity|]); cbn; eauto.
  - destruct (is_self from); [destruct (rule_eqb (m_rule m) RSHF)|destruct (rule_eqb (m_rule m) RCST)]; try discriminate; injection He as <-;
      (eexists _, _; split; [reflexivity|]); cbn; rewrite ?plain_subst; eauto.
Qed.

(* the class is closed under the steps (of either mode: they are the same) *)
Lemma plain_effect c0 p pp e :
  PlainCfg c0 ->
  (forall pp1, e_after e = Continue pp1 -> plain (pr_body0 pp1) = true /\ exists n, pr_provs pp1 = [n]) ->
  (forall s, In s (e_spawn e) -> plain (sp_body s) = true /\ exists n, sp_provs s = [n]) ->
  PlainCfg (apply_effect c0 p pp e).
Proof.
  intros Hpl Hc Hs q v Hq. pose proof (apply_effect_objs c0 p pp e (OProc q v) Hq) as [(-> & pp1 & Ea & Hp & Hb)|[(s & n & Hin & -> & ->)|[_ Ho]]].
  - rewrite Hp, Hb. by apply Hc.
  - cbn. by apply Hs.
  - exact (Hpl q v Ho).
Qed.

Lemma plain_step c ch c' : PlainCfg c -> bufs_empty c -> step Sync D F c ch = SStep c' -> PlainCfg c'.
Proof.
  intros Hpl Hbe. destruct ch as [p|s r|f t]; cbn [step].
  - destruct (procs c !! p) as [pp|] eqn:Hp; [|done]. destruct (Hpl p pp Hp) as [Hb [n0 Hn0]]. rewrite action_of_sync.
    destruct (action_of Async D pp) as [| |k m|k| |k pv|w] eqn:Ea; try done.
    + apply action_dup_multi in Ea. unfold multi in Ea. rewrite Hn0 in Ea. done.
    + rewrite internal_effect_sync. unfold internal_effect. destruct pp as [provs body nx]. cbn [pr_body0 pr_provs pr_next] in *. subst provs.
      destruct body as [| | | |x b k0| | | | |fn args pt| | | |l k0]; try done; simpl in Hb; try discriminate.
      * apply andb_true_iff in Hb as [Hb1 Hb2]. unfold fresh_chan. cbn [pr_next pr_provs pr_body0]. intros [= <-].
        apply plain_effect; [done| |].
        -- intros pp1 [= <-]. cbn. rewrite plain_subst. eauto.
        -- intros s0 [<-|[]]. cbn. eauto.
      * destruct (call_body F fn args) as [b|] eqn:Ecb; [|done]. intros [= <-]. apply plain_effect; [done| |intros s0 []].
        intros pp1 [= <-]. cbn. split; [eapply plain_call_body; eauto|eauto].
      * intros [= <-]. apply plain_effect; [done| |intros s0 []]. intros pp1 [= <-]. cbn. eauto.
    + destruct (chans c !! k) as [st|]; [|done]. destruct (ch_closed st); [done|]. by destruct (ch_buf st).
    + destruct (chans c !! k) as [st|] eqn:Ek; [|done]. rewrite (Hbe _ _ Ek). destruct (ch_closed st); [|done].
      destruct (on_message p pp zero_msg) as [e|] eqn:He; [|done]. intros [= <-].
      destruct (plain_on_message p pp zero_msg e He Hb (ex_intro _ n0 Hn0)) as (pp1 & cl & -> & H1 & H2); [discriminate|discriminate|].
      apply plain_effect; [done| |intros s0 []]. intros pp2 [= <-]. done.
  - destruct (bool_decide (s = r)); [done|]. destruct (procs c !! s) as [ps|] eqn:Hs; [|done].
    destruct (procs c !! r) as [pr|] eqn:Hr; [|done]. rewrite !action_of_sync.
    destruct (action_of Async D ps) as [| |k m|k| |k pv|w] eqn:Eas; try done.
    destruct (action_of Async D pr) as [| |k' m'|k'| |k' pv'|w'] eqn:Ear; try done.
    destruct (bool_decide (k = k')); [|done]. destruct (chans c !! k) as [st|]; [|done]. destruct (ch_closed st); [done|].
    destruct (on_message r pr m) as [e|] eqn:He; [|done]. intros [= <-].
    destruct (Hpl s ps Hs) as [Hbs _]. destruct (Hpl r pr Hr) as [Hbr Hnr].
    destruct (plain_send_rule ps k m Eas Hbs) as [Hfw Hgc].
    destruct (plain_on_message r pr m e He Hbr Hnr Hfw Hgc) as (pp1 & cl & -> & H1 & H2).
    apply plain_effect; [|intros pp2 [= <-]; done|intros s0 []].
    intros q v Hq. cbn in Hq. apply lookup_delete_Some in Hq as [_ Hq]. exact (Hpl q v Hq).
  - done.
Qed.

(* the runs: the same *)
Theorem plain_run_eq : forall fuel pick c, PlainCfg c -> bufs_empty c ->
  exec_run fuel pick NP D F c = exec_run fuel pick Sync D F c.
Proof.
  induction fuel as [|fuel IH]; intros pick c Hpl Hbe; [reflexivity|]. cbn [exec_run].
  rewrite (plain_enabled_eq c Hpl). destruct (enabled Sync D F c) as [|e0 es]; [reflexivity|]. cbv zeta.
  rewrite (plain_step_eq c _ Hpl). destruct (step Sync D F c _) as [|c'|who w] eqn:Es; try reflexivity.
  apply IH; [eapply plain_step; eauto|eapply sync_step_bufs_empty; eauto].
Qed.
End Plain.
