(* KahnOrder.v — the marking order of the acyclicity test (spec/Typing.mark_rounds, the checker's
   procs_acyclic) is a topological order: a node is marked after all its dependencies.  The position
   in the final list is a rank function for the dependency graph. *)
Require Import Grits.Base Grits.ModeDefs Grits.STypes Grits.Forms Grits.Subst Grits.Tc Grits.spec.Typing
               Grits.proofs.TcLemmas Grits.proofs.Acyclic.

Section Order.
Variable deps : list (list nat).
Notation n := (length deps).
Notation Dp i := (nth i deps []).

Definition Ord (done : list nat) : Prop :=
  forall l1 i l2, done = l1 ++ i :: l2 -> forall j, In j (Dp i) -> In j l1.

Lemma Ord_nil : Ord [].
Proof. intros l1 i l2 E. destruct l1; discriminate. Qed.

Lemma app_split_cases {A} (a b l1 l2 : list A) x : a ++ b = l1 ++ x :: l2 ->
  (exists r, a = l1 ++ x :: r /\ l2 = r ++ b) \/ (exists r, l1 = a ++ r /\ b = r ++ x :: l2).
Proof.
  revert l1. induction a as [|y a IH]; intros l1 E; simpl in E.
  - right. exists l1. auto.
  - destruct l1 as [|z l1]; simpl in E.
    + inversion E; subst. left. exists a. auto.
    + inversion E; subst. destruct (IH l1 H1) as [[r [-> ->]]|[r [-> ->]]].
      * left. exists r. auto.
      * right. exists r. auto.
Qed.

Lemma Ord_step done : Ord done -> Ord (Acyclic.step deps done).
Proof.
  intros H l1 i l2 E j Hj. unfold Acyclic.step in E.
  destruct (app_split_cases _ _ _ _ _ E) as [[r [E1 _]]|[r [-> E2]]].
  - eapply H; eauto.
  - apply in_or_app. left.
    assert (Hi : In i (filter (Acyclic.ready deps done) (seq 0 n))) by (rewrite E2; apply in_or_app; right; left; reflexivity).
    apply filter_In in Hi as [_ Hr]. apply ready_spec in Hr as [_ Hr]. auto.
Qed.

Lemma Ord_rounds : forall k done, Ord done -> Ord (mark_rounds k deps done).
Proof. induction k as [|k IH]; intros done H; auto. rewrite mark_rounds_step. apply IH. now apply Ord_step. Qed.

(* position of the first occurrence *)
Fixpoint idx (i : nat) (l : list nat) : nat :=
  match l with [] => 0 | a :: r => if Nat.eqb a i then 0 else S (idx i r) end.

Lemma idx_le i l : idx i l <= length l.
Proof. induction l as [|a r IH]; simpl; [lia|]. destruct (Nat.eqb a i); lia. Qed.
Lemma idx_in_lt j l1 l2 : In j l1 -> idx j (l1 ++ l2) < length l1.
Proof.
  induction l1 as [|a r IH]; simpl; [tauto|]. intros [->|H].
  - rewrite Nat.eqb_refl. lia.
  - destruct (Nat.eqb a j); [lia|]. apply IH in H. lia.
Qed.
Lemma idx_at i l1 l2 : ~ In i l1 -> idx i (l1 ++ i :: l2) = length l1.
Proof.
  induction l1 as [|a r IH]; simpl; intros H.
  - now rewrite Nat.eqb_refl.
  - destruct (Nat.eqb a i) eqn:E; [apply Nat.eqb_eq in E; tauto|]. rewrite IH; tauto.
Qed.

Theorem kahn_rank : length (mark_rounds n deps []) = n ->
  let pos := fun i => idx i (mark_rounds n deps []) in
  forall i j, i < n -> In j (Dp i) -> pos j < pos i /\ pos i <= n.
Proof.
  intros L pos i j Hi Hj.
  pose proof (Inv_rounds deps n [] (Inv_nil deps)) as [ND Hin].
  pose proof (Ord_rounds n [] Ord_nil) as HO.
  assert (Hi' : In i (mark_rounds n deps [])).
  { refine (@NoDup_length_incl nat (mark_rounds n deps []) (seq 0 n) ND _ _ i _).
    - rewrite seq_length. lia.
    - intros x Hx. apply in_seq. destruct (Hin x Hx). lia.
    - apply in_seq. lia. }
  apply in_split in Hi' as (l1 & l2 & E).
  assert (Hni : ~ In i l1).
  { rewrite E in ND. clear -ND. induction l1 as [|a r IH]; simpl in *; [tauto|].
    inversion ND; subst. intros [->|H]; [apply H1; apply in_or_app; right; left; reflexivity|tauto]. }
  pose proof (HO l1 i l2 E j Hj) as Hj1.
  unfold pos. rewrite E. rewrite (idx_at i l1 l2 Hni). split.
  - now apply idx_in_lt.
  - assert (length (l1 ++ i :: l2) = n) by (rewrite <- E; exact L). rewrite app_length in H. simpl in H. lia.
Qed.
End Order.
