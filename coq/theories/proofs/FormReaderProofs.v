(* FormReaderProofs.v — the reference reader of process terms inverts the token-level printer
   `ftoks` on self-style terms (C15, term half, token level). *)
Require Import Grits.Base Grits.ModeDefs Grits.STypes Grits.Forms Grits.Tokens Grits.Scan Grits.EqualWF
               Grits.spec.FormReader.

(* a word that the scanner returns as LABEL *)
Definition word_ok (x : string) : bool := ident_ok x && tk_eqb (keyword x) LABEL.

(* `self`, or a plain identifier: no explicit polarity, type annotation or channel *)
Definition name_ok (n : name) : bool :=
  match n with
  | mkName x s None None None => if s then String.eqb x "" else word_ok x
  | _ => false
  end.

Fixpoint self_style (f : form) : bool :=
  match f with
  | FSend a b c => name_ok a && name_ok b && name_ok c
  | FRecv p c fr k => name_ok p && name_ok c && name_ok fr && self_style k
  | FSel a l c => name_ok a && word_ok l && name_ok c
  | FCase fr bs => name_ok fr && self_style_brs bs
  | FNew x b k => name_ok x && self_style b && self_style k
  | FClose c => name_ok c
  | FWait c k => name_ok c && self_style k
  | FFwd a b d => name_ok a && name_ok b && negb d
  | FSplit x y fr k => name_ok x && name_ok y && name_ok fr && self_style k
  | FCall fn args pt => word_ok fn && forallb name_ok args && match pt with None => true | Some _ => false end
  | FCast a c => name_ok a && name_ok c
  | FShift x fr k => name_ok x && name_ok fr && self_style k
  | FDrop c k => name_ok c && self_style k
  | FPrint l k => word_ok l && self_style k
  end
with self_style_brs (b : branches) : bool :=
  match b with
  | BrNil => true
  | BrCons l p k r => word_ok l && name_ok p && self_style k && self_style_brs r
  end.

Definition nt (n : name) : ftok := if is_self n then FSelf else FLab (ident n).

Fixpoint nstoks (l : list name) : list ftok :=
  match l with
  | [] => []
  | [n] => [nt n]
  | n :: r => nt n :: FComma :: nstoks r
  end.

Fixpoint ftoks (f : form) : list ftok :=
  match f with
  | FSend a b c => FSendK :: nt a :: FLt :: nt b :: FComma :: nt c :: [FGt]
  | FRecv p c fr k => FLt :: nt p :: FComma :: nt c :: FGt :: FArrow :: FRecvK :: nt fr :: FSemi :: ftoks k
  | FSel a l c => nt a :: FDot :: FLab l :: FLt :: nt c :: [FGt]
  | FCase fr bs => FCaseK :: nt fr :: FLP :: btoks bs ++ [FRP]
  | FNew x b k => nt x :: FArrow :: FNewK :: FLP :: ftoks b ++ FRP :: FSemi :: ftoks k
  | FClose c => [FCloseK; nt c]
  | FWait c k => FWaitK :: nt c :: FSemi :: ftoks k
  | FFwd a b _ => [FFwdK; nt a; nt b]
  | FSplit x y fr k => FLt :: nt x :: FComma :: nt y :: FGt :: FArrow :: FSplitK :: nt fr :: FSemi :: ftoks k
  | FCall fn args _ => FLab fn :: FLP :: nstoks args ++ [FRP]
  | FCast a c => FCastK :: nt a :: FLt :: nt c :: [FGt]
  | FShift x fr k => nt x :: FArrow :: FShiftK :: nt fr :: FSemi :: ftoks k
  | FDrop c k => FDropK :: nt c :: FSemi :: ftoks k
  | FPrint l k => FPrintK :: FLab l :: FSemi :: ftoks k
  end
with btoks (b : branches) : list ftok :=
  match b with
  | BrNil => []
  | BrCons l p k r =>
    match r with
    | BrNil => FLab l :: FLt :: nt p :: FGt :: FDArrow :: ftoks k
    | BrCons _ _ _ _ => FLab l :: FLt :: nt p :: FGt :: FDArrow :: ftoks k ++ FPipe :: btoks r
    end
  end.

Fixpoint fsize (f : form) : nat :=
  match f with
  | FSend _ _ _ | FSel _ _ _ | FClose _ | FFwd _ _ _ | FCast _ _ => 1
  | FCall _ args _ => S (length args)
  | FRecv _ _ _ k | FWait _ k | FSplit _ _ _ k | FShift _ _ k | FDrop _ k | FPrint _ k => S (fsize k)
  | FNew _ b k => S (fsize b + fsize k)
  | FCase _ bs => S (brsize bs)
  end
with brsize (b : branches) : nat :=
  match b with BrNil => 0 | BrCons _ _ k r => S (fsize k + brsize r) end.

Lemma name_ok_inv n : name_ok n = true -> n = self_name \/ exists x, n = plain_name x /\ word_ok x = true.
Proof.
  destruct n as [x s [p|] [t|] [c|]]; cbn; try discriminate. destruct s.
  - intros H. apply String.eqb_eq in H. subst. left. reflexivity.
  - intros H. right. exists x. split; [reflexivity | exact H].
Qed.

Lemma rd_name_nt a r : name_ok a = true -> rd_name (nt a :: r) = Some (a, r).
Proof. intros H. destruct (name_ok_inv a H) as [-> | [x [-> _]]]; reflexivity. Qed.

Lemma rd_name_self r : rd_name (FSelf :: r) = Some (self_name, r). Proof. reflexivity. Qed.
Lemma rd_name_lab x r : rd_name (FLab x :: r) = Some (plain_name x, r). Proof. reflexivity. Qed.

Definition nopipe (rest : list ftok) : Prop := match rest with FPipe :: _ => False | _ => True end.
Definition nocomma (rest : list ftok) : Prop := match rest with FComma :: _ => False | _ => True end.

Lemma rd_names_ok : forall args n rest, args <> [] -> forallb name_ok args = true -> length args <= n -> nocomma rest ->
  rd_names n (nstoks args ++ rest) = Some (args, rest).
Proof.
  induction args as [|a r IH]; intros n rest Hne Hok Hn Hrest; [congruence|].
  cbn [forallb] in Hok. apply andb_true_iff in Hok. destruct Hok as [Ha Hr].
  destruct n as [|n']; [cbn in Hn; lia|]. destruct r as [|b r'].
  - cbn [nstoks app rd_names]. rewrite rd_name_nt by assumption.
    destruct rest as [|[] rr]; cbn in Hrest; try contradiction; reflexivity.
  - change (nstoks (a :: b :: r')) with (nt a :: FComma :: nstoks (b :: r')).
    cbn [app rd_names]. rewrite rd_name_nt by assumption.
    rewrite IH; auto; [discriminate | cbn in Hn |- *; lia].
Qed.

Definition PF (f : form) : Prop := forall n rest, self_style f = true -> fsize f <= n ->
  rd_form n (ftoks f ++ rest) = Some (f, rest).
Definition PB (b : branches) : Prop := forall n rest, b <> BrNil -> self_style_brs b = true -> brsize b <= n -> nopipe rest ->
  rd_branches n (btoks b ++ rest) = Some (b, rest).

Ltac names_split H :=
  cbn [self_style self_style_brs] in H; rewrite ?andb_true_iff in H;
  repeat match type of H with _ /\ _ => let H1 := fresh "Hn" in destruct H as [H H1] end.

Theorem reader_inverts_ftoks : (forall f, PF f) /\ (forall b, PB b).
Proof.
  apply form_branches_ind.
  - (* send *) intros a b c n rest H Hn. names_split H. destruct n; [cbn in Hn; lia|].
    cbn [ftoks app rd_form]. rewrite !rd_name_nt by assumption. reflexivity.
  - (* recv *) intros p c fr k IH n rest H Hn. names_split H. destruct n as [|n']; [cbn in Hn; lia|].
    cbn [ftoks app rd_form]. rewrite !rd_name_nt by assumption. cbn [fsize] in Hn.
    rewrite IH by (auto; lia). reflexivity.
  - (* select *) intros a l c n rest H Hn. names_split H. destruct n; [cbn in Hn; lia|].
    destruct (name_ok_inv a H) as [-> | [x [-> Hx]]]; cbn [ftoks nt is_self ident self_name plain_name app rd_form];
      rewrite ?rd_name_self, ?rd_name_lab; rewrite ?rd_name_nt by assumption; reflexivity.
  - (* case *) intros fr bs IH n rest H Hn. names_split H. destruct n as [|n']; [cbn in Hn; lia|].
    cbn [ftoks app rd_form]. rewrite rd_name_nt by assumption. destruct bs as [|l p k r].
    + reflexivity.
    + rewrite <- app_assoc. cbn [app]. cbn [fsize] in Hn.
      assert (E : rd_branches n' (btoks (BrCons l p k r) ++ FRP :: rest) = Some (BrCons l p k r, FRP :: rest))
        by (apply IH; [discriminate | assumption | lia | exact I]).
      destruct (btoks (BrCons l p k r) ++ FRP :: rest) as [|t0 ts0] eqn:Ets.
      { destruct r; cbn in Ets; discriminate. }
      destruct t0; try (rewrite E; reflexivity).
      (* the first token of a branch list is a label, never `)` *)
      destruct r; cbn in Ets; discriminate.
  - (* new *) intros x b IHb k IHk n rest H Hn. names_split H. destruct n as [|n']; [cbn in Hn; lia|]. cbn [fsize] in Hn.
    destruct (name_ok_inv x H) as [-> | [y [-> Hy]]]; cbn [ftoks nt is_self ident self_name plain_name app rd_form];
      rewrite ?rd_name_self, ?rd_name_lab; rewrite <- app_assoc; cbn [app]; rewrite IHb by (auto; lia); rewrite IHk by (auto; lia); reflexivity.
  - (* close *) intros c n rest H Hn. names_split H. destruct n; [cbn in Hn; lia|].
    cbn [ftoks app rd_form]. rewrite rd_name_nt by assumption. reflexivity.
  - (* wait *) intros c k IH n rest H Hn. names_split H. destruct n as [|n']; [cbn in Hn; lia|]. cbn [fsize] in Hn.
    cbn [ftoks app rd_form]. rewrite rd_name_nt by assumption. rewrite IH by (auto; lia). reflexivity.
  - (* fwd *) intros a b d n rest H Hn. names_split H. destruct n; [cbn in Hn; lia|].
    cbn [ftoks app rd_form]. rewrite !rd_name_nt by assumption. apply negb_true_iff in Hn0. subst. reflexivity.
  - (* split *) intros x y fr k IH n rest H Hn. names_split H. destruct n as [|n']; [cbn in Hn; lia|]. cbn [fsize] in Hn.
    cbn [ftoks app rd_form]. rewrite !rd_name_nt by assumption. rewrite IH by (auto; lia). reflexivity.
  - (* call *) intros fn args pt n rest H Hn. cbn [self_style] in H. rewrite !andb_true_iff in H. destruct n as [|n']; [cbn in Hn; lia|]. cbn [fsize] in Hn.
    assert (Hargs : forallb name_ok args = true) by tauto.
    destruct pt; [destruct H as [_ H]; discriminate|]. destruct args as [|a r].
    + reflexivity.
    + cbn [ftoks app]. rewrite <- app_assoc. cbn [app].
      assert (E : rd_names n' (nstoks (a :: r) ++ FRP :: rest) = Some (a :: r, FRP :: rest))
        by (apply rd_names_ok; [discriminate | exact Hargs | lia | exact I]).
      cbn [rd_form].
      destruct (nstoks (a :: r) ++ FRP :: rest) as [|t0 ts0] eqn:Ets.
      { destruct r; cbn in Ets; discriminate. }
      assert (Ht0 : t0 = nt a) by (destruct r; cbn in Ets; congruence).
      cbn [forallb] in Hargs. apply andb_true_iff in Hargs. destruct Hargs as [Ha _].
      destruct (name_ok_inv a Ha) as [-> | [y [-> Hy]]]; subst t0; cbn [nt is_self self_name plain_name ident] in E |- *; rewrite E; reflexivity.
  - (* cast *) intros a c n rest H Hn. names_split H. destruct n; [cbn in Hn; lia|].
    cbn [ftoks app rd_form]. rewrite !rd_name_nt by assumption. reflexivity.
  - (* shift *) intros x fr k IH n rest H Hn. names_split H. destruct n as [|n']; [cbn in Hn; lia|]. cbn [fsize] in Hn.
    destruct (name_ok_inv x H) as [-> | [y [-> Hy]]]; cbn [ftoks nt is_self ident self_name plain_name app rd_form];
      rewrite ?rd_name_self, ?rd_name_lab; rewrite rd_name_nt by assumption; rewrite IH by (auto; lia); reflexivity.
  - (* drop *) intros c k IH n rest H Hn. names_split H. destruct n as [|n']; [cbn in Hn; lia|]. cbn [fsize] in Hn.
    cbn [ftoks app rd_form]. rewrite rd_name_nt by assumption. rewrite IH by (auto; lia). reflexivity.
  - (* print *) intros l k IH n rest H Hn. names_split H. destruct n as [|n']; [cbn in Hn; lia|]. cbn [fsize] in Hn.
    cbn [ftoks app rd_form]. rewrite IH by (auto; lia). reflexivity.
  - (* no branch *) intros n rest Hne. congruence.
  - (* a branch *) intros l p k IHk r IHr n rest _ H Hn Hrest. names_split H.
    destruct n as [|n']; [cbn in Hn; lia|]. cbn [brsize] in Hn. destruct r as [|l2 p2 k2 r2].
    + cbn [btoks app rd_branches]. rewrite rd_name_nt by assumption. rewrite IHk by (auto; lia).
      destruct rest as [|[] rr]; cbn in Hrest; try contradiction; reflexivity.
    + change (btoks (BrCons l p k (BrCons l2 p2 k2 r2))) with
        (FLab l :: FLt :: nt p :: FGt :: FDArrow :: ftoks k ++ FPipe :: btoks (BrCons l2 p2 k2 r2)).
      cbn [app rd_branches]. rewrite rd_name_nt by assumption. rewrite <- app_assoc. cbn [app].
      rewrite IHk by (auto; lia). rewrite IHr; auto; [discriminate | lia].
Qed.
