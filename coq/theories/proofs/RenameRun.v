(* proofs/RenameRun.v — C14, outcome half on the interpreter model (Runtime.v).
   (a)+(c-injective)  `step_rn`: one step of the interpreter commutes with a renaming whose channel /
       function / type / label maps are injective (channel map fixes ""), for every mode and every
       scheduler choice; hence (`run_equivariant`) a configuration and its renamed version run in
       lock step under the same oracle and the printed labels of the renamed run are the images of
       the printed labels of the original run — for ANY injective label map this is the label part
       (`run_label_equivariant`), for the channel map it is "a program and its injectively renamed
       version have the same outcome" (`run_chan_equivariant`).
   (b) is in proofs/RenameSim.v (identifiers of initialised names are irrelevant).
   (c) what remains (alpha-equivalence for non-injective, capture-avoiding renamings) is stated at the
       end as `run_alpha_invariant`. *)
From stdpp Require Import pmap gmap strings.
Require Import Grits.Base Grits.ModeDefs Grits.Modes Grits.STypes Grits.Forms Grits.Subst Grits.TcDeps Grits.Expand.
Require Import Grits.Tc Grits.TcTop Grits.Runtime Grits.spec.Rename Grits.spec.Alpha Grits.proofs.RenameTypes Grits.proofs.RenameSubst.

(* ---------------------------------------------------------------- map_to_list of a gmap commutes with fmap *)
Lemma Pto_list_raw_fmap {A B} (f : A -> B) (t : Pmap_raw A) : forall j acc,
  Pto_list_raw j (Pfmap_raw f t) (prod_map id f <$> acc) = prod_map id f <$> Pto_list_raw j t acc.
Proof.
  induction t as [|o l IHl r' IHr]; intros j acc; [reflexivity|].
  cbn [Pfmap_raw Pto_list_raw]. rewrite fmap_app, <- IHl, <- IHr. f_equal. destruct o; reflexivity.
Qed.

Lemma gmap_to_list_fmap `{Countable K} {A B} (f : A -> B) (m : gmap K A) :
  map_to_list (f <$> m) = prod_map id f <$> map_to_list m.
Proof.
  destruct m as [[t Ht] Hm]. unfold map_to_list, fmap. cbn [gmap_to_list gmap_fmap].
  unfold map_to_list, fmap. cbn [Pto_list Pfmap].
  change (@nil (positive * B)) with (prod_map id f <$> (@nil (positive * A))).
  change (f <$> t) with (Pfmap_raw f t). rewrite (Pto_list_raw_fmap f t 1 []).
  induction (Pto_list_raw 1 t []) as [|[i x] l IH]; [reflexivity|].
  simpl. match goal with |- context [@decode ?K' ?E ?C i] => destruct (@decode K' E C i) as [k|] end; simpl; [f_equal|]; apply IH.
Qed.

(* ---------------------------------------------------------------- renaming of configurations *)
Section Run.
Variable r : renaming.
Hypothesis Hc : injective (rc r).
Hypothesis Hc0 : rc r "" = "".
Hypothesis Hf : injective (rf r).
Hypothesis Ht : injective (rt r).
Hypothesis Hl : injective (rl r).

Notation rs := (rn_sty r).
Notation rO := (rn_osty r).
Notation rD := (rn_tenv r).
Notation rN := (rn_name r).
Notation rF := (rn_form r).
Notation rB := (rn_branches r).
Notation rFs := (map (rn_fundef r)).

(* only select / branch messages carry a label (the others have "") *)
Definition rn_msg (m : msg) : msg :=
  Msg (m_rule m) (rN (m_c1 m)) (rN (m_c2 m)) (map rN (m_provs m))
      (match m_rule m with RSEL | RBRA => rl r (m_label m) | _ => m_label m end).
Definition rn_proc (p : proc) : proc := Proc (map rN (pr_provs p)) (rF (pr_body0 p)) (pr_next p).
Definition rn_chan (st : chan_st) : chan_st := Chan (option_map rn_msg (ch_buf st)) (ch_closed st).
Definition rn_out (o : list (pid * string)) : list (pid * string) := map (fun pl => (fst pl, rp r (snd pl))) o.
Definition rn_cfg (c : config) : config :=
  Cfg (rn_proc <$> procs c) (rn_chan <$> chans c) (rn_out (out c)).
Definition rn_spawn (s : spawn) : spawn := Spawn (map rN (sp_provs s)) (rF (sp_body s)).
Definition rn_after (a : after) : after := match a with Continue p => Continue (rn_proc p) | Finish => Finish end.
Definition rn_eff (e : effect) : effect :=
  Eff (rn_after (e_after e)) (map rn_spawn (e_spawn e)) (e_newch e) (e_close e) (map (rp r) (e_out e)).
Definition rn_eres (x : Runtime.eres) : Runtime.eres := match x with EOk e => EOk (rn_eff e) | EErr w => EErr w end.
Definition rn_action (a : action) : action :=
  match a with
  | ASend c m => ASend c (rn_msg m)
  | ACtrl c provs => ACtrl c (map rN provs)
  | other => other
  end.
Definition rn_sres (s : sres) : sres :=
  match s with SStep c => SStep (rn_cfg c) | other => other end.
Definition rn_run_res (x : run_res) : run_res :=
  match x with
  | RQuiescent c => RQuiescent (rn_cfg c)
  | RError c who e => RError (rn_cfg c) who e
  | ROutOfFuel c => ROutOfFuel (rn_cfg c)
  end.

Lemma rn_zero_name : rN zero_name = zero_name.
Proof. unfold rn_name, zero_name. cbn. now rewrite Hc0. Qed.
Lemma rn_new_self : rN (new_self "") = new_self "".
Proof. unfold rn_name, new_self. cbn. now rewrite Hc0. Qed.
Lemma rn_zero_msg : rn_msg zero_msg = zero_msg.
Proof. unfold rn_msg, zero_msg. cbn. now rewrite rn_zero_name. Qed.

(* ---------------------------------------------------------------- actions *)
Lemma fwd_polarity_rn D n : fwd_polarity (rD D) (rN n) = fwd_polarity D n.
Proof.
  unfold fwd_polarity. cbn [rn_name nty]. destruct (nty n) as [t|]; cbn [rn_osty option_map]; [|reflexivity].
  destruct t; try reflexivity. cbn [rn_sty]. change (TName (rt r x) m) with (rs (TName x m)).
  rewrite (unfold_rn r Ht D (TName x m)). destruct (unfold D (TName x m)) as [[u|]| |]; cbn; auto using polarity_of_rn.
Qed.

Lemma multi_rn p : multi (rn_proc p) = multi p.
Proof. unfold multi, rn_proc. cbn. now rewrite map_length. Qed.
Lemma self_chan_rn p : self_chan (rn_proc p) = self_chan p.
Proof. unfold self_chan, prov0, rn_proc. cbn. destruct (pr_provs p); reflexivity. Qed.
Lemma self_name_of_rn p : self_name_of (rn_proc p) = rN (self_name_of p).
Proof. unfold self_name_of, prov0, rn_proc. cbn. destruct (pr_provs p); cbn; [now rewrite rn_zero_name | reflexivity]. Qed.

Lemma send_on_rn p t m : send_on (rn_proc p) t (rn_msg m) = rn_action (send_on p t m).
Proof. unfold send_on. rewrite multi_rn. destruct (multi p); [reflexivity|]. destruct t; reflexivity. Qed.
Lemma recv_on_rn p t : recv_on (rn_proc p) t = rn_action (recv_on p t).
Proof. unfold recv_on. rewrite multi_rn. destruct t; [|reflexivity]. destruct (multi p); reflexivity. Qed.
Lemma internal_rn p : internal (rn_proc p) = rn_action (internal p).
Proof. unfold internal. rewrite multi_rn. destruct (multi p); reflexivity. Qed.

Lemma action_of_rn md D p : action_of md (rD D) (rn_proc p) = rn_action (action_of md D p).
Proof.
  unfold action_of. cbn [rn_proc pr_body0]. fold (rn_proc p).
  destruct (pr_body0 p); cbn [rn_form];
    change (is_self (rN ?x)) with (is_self x); change (chan (rN ?x)) with (chan x);
    rewrite ?self_chan_rn;
    repeat match goal with
    | |- context [if ?b then _ else _] => destruct b
    end;
    try reflexivity;
    try (rewrite <- ?recv_on_rn, <- ?internal_rn; reflexivity);
    try (rewrite <- send_on_rn; unfold rn_msg; cbn [m_rule m_c1 m_c2 m_provs m_label map];
         rewrite ?rn_zero_name, ?self_name_of_rn; reflexivity).
  all: rewrite ?fwd_polarity_rn;
    repeat match goal with
    | |- context [match ?x with _ => _ end] => destruct x
    end; try reflexivity.
  all: unfold rn_action, rn_msg; cbn [m_rule m_c1 m_c2 m_provs m_label map rn_proc pr_provs]; rewrite ?rn_zero_name; reflexivity.
Qed.

(* ---------------------------------------------------------------- effects *)
Lemma fresh_chan_rn self p id t po :
  fresh_chan self (rn_proc p) (rc r id) (rO t) po =
  (rN (fst (fresh_chan self p id t po)), rn_proc (snd (fresh_chan self p id t po))).
Proof. reflexivity. Qed.

Lemma droppable_fwd_rn self p cl :
  droppable_fwd self (rn_proc p) (rN cl) =
  let '(s, c, p') := droppable_fwd self p cl in (rn_spawn s, c, rn_proc p').
Proof. reflexivity. Qed.

Lemma droppable_fwds_rn self : forall cls p,
  droppable_fwds self (rn_proc p) (map rN cls) =
  let '(ss, cs, p') := droppable_fwds self p cls in (map rn_spawn ss, cs, rn_proc p').
Proof.
  induction cls as [|cl cls IH]; intros p; cbn [map droppable_fwds]; [reflexivity|].
  rewrite droppable_fwd_rn. destruct (droppable_fwd self p cl) as [[s c] p1].
  rewrite IH. destruct (droppable_fwds self p1 cls) as [[ss cs] p2]. reflexivity.
Qed.

Definition rn_pk (x : name * form) : name * form := (rN (fst x), rF (snd x)).
Lemma find_branch_rn l b : find_branch (rl r l) (rB b) = option_map rn_pk (find_branch l b).
Proof.
  induction b as [|l' pay k b IH]; cbn [rn_branches find_branch]; [reflexivity|].
  rewrite (eqb_inj _ Hl). destruct (String.eqb l' l); [reflexivity | apply IH].
Qed.

Lemma set_body_rn p b : set_body (rn_proc p) (rF b) = rn_proc (set_body p b).
Proof. reflexivity. Qed.
Lemma set_provs_body_rn p ps b : set_provs_body (rn_proc p) (map rN ps) (rF b) = rn_proc (set_provs_body p ps b).
Proof. reflexivity. Qed.
Lemma cids_of_rn ns : cids_of (map rN ns) = cids_of ns.
Proof. unfold cids_of. induction ns as [|n ns IH]; cbn [map flat_map]; [reflexivity|]. now rewrite IH. Qed.

Notation sub_rn := (subst_rn1 r Hc Hc0).

Lemma sub_self_rn old f : subst (rN old) (new_self "") (rF f) = rF (subst old (new_self "") f).
Proof. rewrite <- rn_new_self at 1. apply sub_rn. Qed.

Lemma on_message_rn self p m : on_message self (rn_proc p) (rn_msg m) = rn_eres (on_message self p m).
Proof.
  unfold on_message. cbn [rn_proc pr_body0 pr_provs rn_msg m_rule m_c1 m_c2 m_provs m_label].
  assert (Efwd : match rF (pr_body0 p) with FFwd _ _ _ => true | _ => false end =
                 match pr_body0 p with FFwd _ _ _ => true | _ => false end) by (destruct (pr_body0 p); reflexivity).
  rewrite Efwd. clear Efwd.
  destruct (rule_eqb (m_rule m) RFWD && negb match pr_body0 p with FFwd _ _ _ => true | _ => false end).
  { unfold rn_eres, rn_eff, rn_after. cbn. now rewrite cids_of_rn. }
  destruct (rule_eqb (m_rule m) RGC && negb match pr_body0 p with FFwd _ _ _ => true | _ => false end).
  { rewrite (free_names_rn1 r Hc). fold (rn_proc p). rewrite droppable_fwds_rn.
    destruct (droppable_fwds self p (free_names (pr_body0 p))) as [[ss cs] p']. reflexivity. }
  destruct (pr_body0 p) eqn:Eb; cbn [rn_form]; try reflexivity; change (is_self (rN ?x)) with (is_self x).
  - (* recv *) destruct (is_self from).
    + destruct (rule_eqb (m_rule m) RRCV); [|reflexivity].
      rewrite !sub_rn, sub_self_rn. reflexivity.
    + destruct (rule_eqb (m_rule m) RSND); [|reflexivity]. rewrite !sub_rn. reflexivity.
  - (* case *) destruct (is_self from).
    + destruct (rule_eqb (m_rule m) RBRA) eqn:Er; [|reflexivity].
      destruct (m_rule m); try discriminate Er. rewrite find_branch_rn.
      destruct (find_branch (m_label m) bs) as [[pay k]|]; cbn [option_map rn_pk fst snd]; [|reflexivity].
      rewrite sub_self_rn. reflexivity.
    + destruct (rule_eqb (m_rule m) RSEL) eqn:Er; [|reflexivity].
      destruct (m_rule m); try discriminate Er. rewrite find_branch_rn.
      destruct (find_branch (m_label m) bs) as [[pay k]|]; cbn [option_map rn_pk fst snd]; [|reflexivity].
      rewrite sub_rn. reflexivity.
  - (* wait *) destruct (rule_eqb (m_rule m) RCLS); reflexivity.
  - (* fwd *) destruct droppable.
    + change (initialized (rN ?x)) with (initialized x).
      assert (E : (if initialized (m_c1 m) then [rN (m_c1 m)] else []) ++ (if initialized (m_c2 m) then [rN (m_c2 m)] else []) =
                  map rN ((if initialized (m_c1 m) then [m_c1 m] else []) ++ (if initialized (m_c2 m) then [m_c2 m] else [])))
        by (destruct (initialized (m_c1 m)), (initialized (m_c2 m)); reflexivity).
      rewrite E. fold (rn_proc p). rewrite droppable_fwds_rn.
      destruct (droppable_fwds self p _) as [[ss cs] p']. reflexivity.
    + destruct (m_rule m); try reflexivity.
      destruct (m_provs m); reflexivity.
  - (* shift *) destruct (is_self from).
    + destruct (rule_eqb (m_rule m) RSHF); [|reflexivity]. rewrite sub_self_rn. reflexivity.
    + destruct (rule_eqb (m_rule m) RCST); [|reflexivity]. rewrite sub_rn. reflexivity.
Qed.

(* ---------- calls ---------- *)
Lemma get_function_rn F f n : get_function (rFs F) (rf r f) n = option_map (rn_fundef r) (get_function F f n).
Proof.
  induction F as [|d F IH]; cbn [map get_function]; [reflexivity|].
  cbn [rn_fundef fn_name fn_params]. rewrite (eqb_inj _ Hf), map_length.
  destruct (String.eqb (fn_name d) f && _); [reflexivity | apply IH].
Qed.

Definition sub_all := fix go (ps : list name) (as_ : list name) (b : form) : form :=
  match ps, as_ with
  | p :: pr, a :: ar => go pr ar (subst p a b)
  | _, _ => b
  end.
Lemma sub_all_rn : forall ps as_ b, sub_all (map rN ps) (map rN as_) (rF b) = rF (sub_all ps as_ b).
Proof.
  induction ps as [|p ps IH]; intros as_ b; [reflexivity|].
  destruct as_ as [|a as_]; [reflexivity|]. cbn [map sub_all]. rewrite sub_rn. apply IH.
Qed.

Lemma call_body_rn F fn args : call_body (rFs F) (rf r fn) (map rN args) = option_map rF (call_body F fn args).
Proof.
  unfold call_body. rewrite map_length, get_function_rn.
  destruct (get_function F fn (length args)) as [fd|]; cbn [option_map]; [|reflexivity].
  cbn [rn_fundef fn_body fn_params fn_explicit]. rewrite map_length.
  fold sub_all.
  destruct (fn_explicit fd) as [ep|]; cbn [option_map].
  - destruct (length args =? length (fn_params fd))%nat; [now rewrite sub_all_rn|].
    destruct (length args =? S (length (fn_params fd)))%nat; [|reflexivity].
    destruct args as [|a0 rest]; [reflexivity|]. cbn [map option_map]. f_equal.
    change (is_self (rN a0)) with (is_self a0).
    replace (if is_self a0 then new_self "" else rN a0) with (rN (if is_self a0 then new_self "" else a0))
      by (destruct (is_self a0); [apply rn_new_self | reflexivity]).
    rewrite sub_rn. apply sub_all_rn.
  - destruct (length args =? length (fn_params fd))%nat; [now rewrite sub_all_rn|].
    destruct (length args =? S (length (fn_params fd)))%nat; [|reflexivity].
    cbn [option_map]. f_equal. rewrite <- sub_all_rn. f_equal. destruct args; reflexivity.
Qed.

(* ---------- duplication ---------- *)
Lemma fresh_row_rn self fn : forall n p,
  fresh_row self (rn_proc p) (rN fn) n =
  (map rN (fst (fresh_row self p fn n)), rn_proc (snd (fresh_row self p fn n))).
Proof.
  induction n as [|n IH]; intros p; cbn [fresh_row]; [reflexivity|].
  change (ident (rN fn)) with (rc r (ident fn)). change (nty (rN fn)) with (rO (nty fn)). change (pol (rN fn)) with (pol fn).
  rewrite fresh_chan_rn. destruct (fresh_chan self p (ident fn) (nty fn) (pol fn)) as [c p1]. cbn [fst snd].
  rewrite IH. destruct (fresh_row self p1 fn n) as [cs p2]. reflexivity.
Qed.
Lemma fresh_matrix_rn self n : forall fns p,
  fresh_matrix self (rn_proc p) (map rN fns) n =
  (map (map rN) (fst (fresh_matrix self p fns n)), rn_proc (snd (fresh_matrix self p fns n))).
Proof.
  induction fns as [|fn fns IH]; intros p; cbn [map fresh_matrix]; [reflexivity|].
  rewrite fresh_row_rn. destruct (fresh_row self p fn n) as [row p1]. cbn [fst snd].
  rewrite IH. destruct (fresh_matrix self p1 fns n) as [rows p2]. reflexivity.
Qed.
Lemma subst_col_rn i : forall fns rows b,
  subst_col (map rN fns) (map (map rN) rows) i (rF b) = rF (subst_col fns rows i b).
Proof.
  induction fns as [|fn fns IH]; intros rows b; [reflexivity|].
  destruct rows as [|row rows]; [reflexivity|]. cbn [map subst_col].
  rewrite nth_error_map. destruct (nth_error row i); cbn [option_map]; [rewrite sub_rn|]; apply IH.
Qed.

Lemma dup_effect_rn self p : dup_effect self (rn_proc p) = rn_eres (dup_effect self p).
Proof.
  unfold dup_effect. cbn [rn_proc pr_provs pr_body0]. rewrite map_length.
  destruct (length (pr_provs p) =? 1)%nat; [reflexivity|].
  rewrite (free_names_rn1 r Hc). fold (rn_proc p). rewrite fresh_matrix_rn.
  destruct (fresh_matrix self p (free_names (pr_body0 p)) (length (pr_provs p))) as [rows p'].
  cbn [fst snd rn_eres]. f_equal. unfold rn_eff. cbn [e_after e_spawn e_newch e_close e_out rn_after map]. f_equal.
  - rewrite map_app. f_equal.
    + rewrite imap_fmap. change (map rn_spawn ?l) with (rn_spawn <$> l). rewrite fmap_imap.
      apply imap_ext. intros i pr _. cbn. unfold rn_spawn. cbn [sp_provs sp_body map]. now rewrite subst_col_rn.
    + generalize (free_names (pr_body0 p)) as fns. intros fns. revert rows.
      induction fns as [|fn fns IH]; intros rows; [reflexivity|].
      destruct rows as [|row rows]; [reflexivity|]. cbn [map combine]. now rewrite IH.
  - induction rows as [|row rows IH]; cbn [map flat_map]; [reflexivity|]. now rewrite cids_of_rn, IH.
Qed.

(* ---------- internal transitions ---------- *)
Lemma internal_effect_rn md F self p :
  internal_effect md (rFs F) self (rn_proc p) = rn_eres (internal_effect md F self p).
Proof.
  unfold internal_effect. cbn [rn_proc pr_body0].
  destruct (pr_body0 p) eqn:Eb; cbn [rn_form]; try reflexivity.
  - (* new *) fold (rn_proc p).
    change (ident (rN x)) with (rc r (ident x)). change (nty (rN x)) with (rO (nty x)). change (pol (rN x)) with (pol x).
    rewrite fresh_chan_rn. destruct (fresh_chan self p (ident x) (nty x) (pol x)) as [c p1]. cbn [fst snd].
    rewrite sub_rn. reflexivity.
  - (* split *) fold (rn_proc p).
    change (ident (rN ?n)) with (rc r (ident n)). change (nty (rN ?n)) with (rO (nty n)). change (pol (rN ?n)) with (pol n).
    rewrite fresh_chan_rn. destruct (fresh_chan self p (ident x) (nty from) (pol from)) as [c1 p1]. cbn [fst snd].
    rewrite fresh_chan_rn. destruct (fresh_chan self p1 (ident y) (nty from) (pol from)) as [c2 p2]. cbn [fst snd].
    rewrite !sub_rn. reflexivity.
  - (* call *) rewrite call_body_rn. destruct (call_body F f args); reflexivity.
  - (* drop *) destruct (is_np md); [reflexivity|]. fold (rn_proc p). rewrite droppable_fwd_rn.
    destruct (droppable_fwd self p c) as [[s ch] p1]. reflexivity.
Qed.

(* ---------------------------------------------------------------- applying an effect *)
Lemma add_spawns_rn self : forall ss next m,
  add_spawns self next (map rn_spawn ss) (rn_proc <$> m) =
  (rn_proc <$> fst (add_spawns self next ss m), snd (add_spawns self next ss m)).
Proof.
  induction ss as [|s ss IH]; intros next m; cbn [map add_spawns]; [reflexivity|].
  change (Proc (sp_provs (rn_spawn s)) (sp_body (rn_spawn s)) 0) with (rn_proc (Proc (sp_provs s) (sp_body s) 0)).
  rewrite <- fmap_insert. apply IH.
Qed.

Lemma rn_empty_chan : rn_chan empty_chan = empty_chan.
Proof. reflexivity. Qed.

Lemma apply_effect_rn c self p e :
  apply_effect (rn_cfg c) self (rn_proc p) (rn_eff e) = rn_cfg (apply_effect c self p e).
Proof.
  unfold apply_effect. cbn [rn_cfg procs chans out rn_eff e_after e_spawn e_newch e_close e_out].
  assert (Eb : match rn_after (e_after e) with Continue p' => pr_next p' | Finish => pr_next (rn_proc p) end =
               match e_after e with Continue p' => pr_next p' | Finish => pr_next p end)
    by (destruct (e_after e); reflexivity).
  rewrite Eb. clear Eb. rewrite add_spawns_rn.
  destruct (add_spawns self _ (e_spawn e) (procs c)) as [pm next1]. cbn [fst snd].
  unfold rn_cfg. cbn [procs chans out]. f_equal.
  - destruct (e_after e) as [p'|]; cbn [rn_after].
    + rewrite fmap_insert. reflexivity.
    + now rewrite fmap_delete.
  - assert (E1 : forall l, foldr (fun ch m => <[ch := empty_chan]> m) (rn_chan <$> chans c) l =
                           rn_chan <$> foldr (fun ch m => <[ch := empty_chan]> m) (chans c) l).
    { induction l as [|ch l IH]; cbn [foldr]; [reflexivity|]. now rewrite IH, fmap_insert. }
    rewrite E1. generalize (foldr (fun ch m => <[ch := empty_chan]> m) (chans c) (e_newch e)) as cm. intros cm.
    induction (e_close e) as [|ch l IH]; cbn [foldr]; [reflexivity|]. rewrite IH, lookup_fmap.
    destruct (foldr _ cm l !! ch) as [st|]; cbn [fmap option_fmap option_map]; [|reflexivity].
    now rewrite fmap_insert.
  - unfold rn_out. rewrite map_app, map_map, <- map_rev, map_map. reflexivity.
Qed.

Lemma eff_step_rn c self p x : eff_step (rn_cfg c) self (rn_proc p) (rn_eres x) = rn_sres (eff_step c self p x).
Proof. destruct x; cbn [rn_eres eff_step rn_sres]; [now rewrite apply_effect_rn | reflexivity]. Qed.

Lemma put_msg_rn c ch st m : put_msg (rn_cfg c) ch (rn_chan st) (option_map rn_msg m) = rn_cfg (put_msg c ch st m).
Proof. unfold put_msg, rn_cfg. cbn [procs chans out]. rewrite fmap_insert. reflexivity. Qed.
Lemma del_proc_rn c p : del_proc (rn_cfg c) p = rn_cfg (del_proc c p).
Proof. unfold del_proc, rn_cfg. cbn [procs chans out]. now rewrite fmap_delete. Qed.

Lemma polls_control_rn md D p : polls_control md (rD D) (rn_proc p) = polls_control md D p.
Proof.
  unfold polls_control. rewrite action_of_rn. destruct (action_of md D p); cbn [rn_action]; try reflexivity.
  cbn [rn_proc pr_body0]. destruct (pr_body0 p); reflexivity.
Qed.

(* ---------------------------------------------------------------- one step *)
Theorem step_rn md D F c ch : Runtime.step md (rD D) (rFs F) (rn_cfg c) ch = rn_sres (Runtime.step md D F c ch).
Proof.
  unfold Runtime.step. destruct ch as [self|s0 r0|f0 t0].
  - cbn [rn_cfg procs chans]. rewrite lookup_fmap. destruct (procs c !! self) as [p|]; cbn [fmap option_fmap option_map]; [|reflexivity].
    rewrite action_of_rn. destruct (action_of md D p) as [| |k m|k| |k provs|w]; cbn [rn_action]; try reflexivity.
    + rewrite dup_effect_rn. apply (eff_step_rn c self p).
    + rewrite internal_effect_rn. apply (eff_step_rn c self p).
    + rewrite lookup_fmap. destruct (chans c !! k) as [st|]; cbn [fmap option_fmap option_map]; [|reflexivity].
      cbn [rn_chan ch_closed ch_buf]. destruct (ch_closed st); [reflexivity|].
      destruct md; try (destruct (ch_buf st); reflexivity).
      destruct (ch_buf st); cbn [option_map]; [reflexivity|].
      cbn [rn_sres]. f_equal. fold (rn_chan st). change (Some (rn_msg m)) with (option_map rn_msg (Some m)).
      fold (rn_cfg c). rewrite put_msg_rn. apply del_proc_rn.
    + rewrite lookup_fmap. destruct (chans c !! k) as [st|]; cbn [fmap option_fmap option_map]; [|reflexivity].
      cbn [rn_chan ch_closed ch_buf]. destruct (ch_buf st) as [m|]; cbn [option_map].
      * rewrite on_message_rn. fold (rn_chan st). change (@None msg) with (option_map rn_msg None).
        fold (rn_cfg c). rewrite put_msg_rn. apply eff_step_rn.
      * destruct (ch_closed st); [|reflexivity]. rewrite <- rn_zero_msg at 1. rewrite on_message_rn.
        fold (rn_cfg c). apply eff_step_rn.
  - destruct md; [reflexivity| |].
    all: destruct (bool_decide (s0 = r0)); [reflexivity|];
      cbn [rn_cfg procs chans]; rewrite !lookup_fmap;
      destruct (procs c !! s0) as [ps|]; cbn [fmap option_fmap option_map]; [|reflexivity];
      destruct (procs c !! r0) as [pr|]; cbn [fmap option_fmap option_map]; [|reflexivity];
      rewrite !action_of_rn;
      destruct (action_of _ D ps) as [| |k m|k| |k provs|w]; cbn [rn_action]; try reflexivity;
      destruct (action_of _ D pr) as [| |k' m'|k'| |k' provs'|w']; cbn [rn_action]; try reflexivity;
      destruct (bool_decide (k = k')); [|reflexivity];
      rewrite lookup_fmap; destruct (chans c !! k) as [st|]; cbn [fmap option_fmap option_map]; [|reflexivity];
      cbn [rn_chan ch_closed]; destruct (ch_closed st); [reflexivity|];
      rewrite on_message_rn; fold (rn_cfg c); rewrite del_proc_rn; apply eff_step_rn.
  - destruct (negb (is_np md) || bool_decide (f0 = t0)); [reflexivity|].
    cbn [rn_cfg procs chans]. rewrite !lookup_fmap.
    destruct (procs c !! f0) as [pf|]; cbn [fmap option_fmap option_map]; [|reflexivity].
    destruct (procs c !! t0) as [pt|]; cbn [fmap option_fmap option_map]; [|reflexivity].
    rewrite action_of_rn, self_chan_rn, polls_control_rn.
    destruct (action_of md D pf) as [| |k m|k| |k provs|w]; cbn [rn_action]; try reflexivity.
    destruct (self_chan pt) as [k'|]; [|reflexivity].
    destruct (bool_decide (k = k') && polls_control md D pt); [|reflexivity].
    cbn [rn_sres]. f_equal. fold (rn_cfg c). rewrite del_proc_rn.
    rewrite <- apply_effect_rn. f_equal. unfold rn_eff. cbn [e_after e_spawn e_newch e_close e_out rn_after map].
    f_equal.
    + f_equal. unfold set_provs_body, rn_proc. cbn [pr_provs pr_body0 pr_next]. f_equal.
      rewrite map_app. f_equal. destruct (pr_provs pt); reflexivity.
    + cbn [rn_proc pr_provs]. destruct (pr_provs pt) as [|n l]; reflexivity.
Qed.

(* ---------------------------------------------------------------- runs *)
Lemma pids_rn c : pids (rn_cfg c) = pids c.
Proof.
  unfold pids. cbn [rn_cfg procs]. rewrite gmap_to_list_fmap.
  change (map fst (prod_map id rn_proc <$> map_to_list (procs c))) with (map fst (map (prod_map id rn_proc) (map_to_list (procs c)))).
  rewrite map_map. apply map_ext. intros [k v]. reflexivity.
Qed.
Lemma candidates_rn md c : candidates md (rn_cfg c) = candidates md c.
Proof. unfold candidates. now rewrite pids_rn. Qed.
Lemma enabled_rn md D F c : enabled md (rD D) (rFs F) (rn_cfg c) = enabled md D F c.
Proof.
  unfold enabled. rewrite candidates_rn. apply filter_ext. intros ch. rewrite step_rn.
  destruct (Runtime.step md D F c ch); reflexivity.
Qed.

Theorem exec_run_rn pick md D F : forall fuel c,
  exec_run fuel pick md (rD D) (rFs F) (rn_cfg c) = rn_run_res (exec_run fuel pick md D F c).
Proof.
  induction fuel as [|fuel IH]; intros c; cbn [exec_run]; [reflexivity|].
  rewrite enabled_rn. destruct (enabled md D F c) as [|e0 es]; [reflexivity|].
  rewrite step_rn. destruct (Runtime.step md D F c _); cbn [rn_sres rn_run_res]; auto.
Qed.

(* ---------------------------------------------------------------- the initial configuration *)
Definition rnn (x : name * name) : name * name := (rN (fst x), rN (snd x)).

Lemma init_provs_rn i provs : init_provs i (map rN provs) = map rnn (init_provs i provs).
Proof.
  unfold init_provs. change (map rN provs) with (rN <$> provs). rewrite imap_fmap.
  change (map rnn ?l) with (rnn <$> l). rewrite fmap_imap. apply imap_ext. intros j old _. reflexivity.
Qed.

Lemma fold_subst_rn : forall all b,
  fold_left (fun b '(old, new) => subst old new b) (map rnn all) (rF b) =
  rF (fold_left (fun b '(old, new) => subst old new b) all b).
Proof.
  induction all as [|[o n] all IH]; intros b; cbn [map fold_left]; [reflexivity|].
  cbn [rnn fst snd]. rewrite sub_rn. apply IH.
Qed.

Lemma combine_map2 {A B A' B'} (g : A -> A') (h : B -> B') : forall (l : list A) (k : list B),
  combine (map g l) (map h k) = map (fun x => (g (fst x), h (snd x))) (combine l k).
Proof.
  induction l as [|a l IH]; intros k; [reflexivity|]. destruct k as [|b k]; [reflexivity|].
  cbn [map combine fst snd]. now rewrite IH.
Qed.

Theorem init_config_rn p : init_config (rn_program r p) = rn_cfg (init_config p).
Proof.
  unfold init_config. cbn [rn_program p_procs].
  set (inits := imap (fun i pr => init_provs i (pr_providers pr)) (p_procs p)).
  assert (Ei : imap (fun i pr => init_provs i (pr_providers pr)) (map (rn_procdef r) (p_procs p)) = map (map rnn) inits).
  { unfold inits. change (map (rn_procdef r) ?l) with (rn_procdef r <$> l). rewrite imap_fmap.
    change (map (map rnn) ?l) with (map rnn <$> l). rewrite fmap_imap. apply imap_ext.
    intros i pr _. cbn. apply init_provs_rn. }
  rewrite Ei. clear Ei.
  assert (Ec : concat (map (map rnn) inits) = map rnn (concat inits)) by (symmetry; apply concat_map).
  rewrite Ec. clear Ec. set (all := concat inits).
  unfold rn_cfg. cbn [procs chans out]. f_equal.
  - rewrite combine_map2.
    set (G := fun x : nat * (procdef * list (name * name)) => (fst x, (rn_procdef r (fst (snd x)), map rnn (snd (snd x))))).
    assert (EL : imap (fun i x => (i, x)) (map (fun x => (rn_procdef r (fst x), map rnn (snd x))) (combine (p_procs p) inits)) =
                 map G (imap (fun i x => (i, x)) (combine (p_procs p) inits))).
    { change (map ?g ?l) with (g <$> l). rewrite imap_fmap, fmap_imap. apply imap_ext. intros i [pr ini] _. reflexivity. }
    rewrite EL. clear EL.
    generalize (imap (fun i (x : procdef * list (name * name)) => (i, x)) (combine (p_procs p) inits)) as L.
    assert (EF : forall L m,
      fold_left (fun (m : gmap pid proc) '(i, (pr, ini)) =>
                   <[ [i] := Proc (map snd ini) (fold_left (fun b '(old, new) => subst old new b) (map rnn all) (pr_body pr)) (length ini) ]> m)
                (map G L) (rn_proc <$> m) =
      rn_proc <$> fold_left (fun (m : gmap pid proc) '(i, (pr, ini)) =>
                   <[ [i] := Proc (map snd ini) (fold_left (fun b '(old, new) => subst old new b) all (pr_body pr)) (length ini) ]> m) L m).
    { induction L as [|[i [pr ini]] L IH]; intros m; [reflexivity|].
      cbn [map fold_left G fst snd]. cbn [rn_procdef pr_body]. rewrite fold_subst_rn.
      replace (Proc (map snd (map rnn ini)) (rF (fold_left (fun b '(old, new) => subst old new b) all (pr_body pr))) (length (map rnn ini)))
        with (rn_proc (Proc (map snd ini) (fold_left (fun b '(old, new) => subst old new b) all (pr_body pr)) (length ini))).
      2:{ unfold rn_proc. cbn [pr_provs pr_body0 pr_next]. rewrite map_length, !map_map. reflexivity. }
      rewrite <- fmap_insert. apply IH. }
    intros L. rewrite <- (EF L ∅). now rewrite fmap_empty.
  - assert (EF : forall l (m : gmap cid chan_st),
      fold_left (fun m '(_, new) => match chan new with Some k => <[ k := empty_chan ]> m | None => m end) (map rnn l) (rn_chan <$> m) =
      rn_chan <$> fold_left (fun m '(_, new) => match chan new with Some k => <[ k := empty_chan ]> m | None => m end) l m).
    { induction l as [|[o n] l IH]; intros m; cbn [map fold_left]; [reflexivity|].
      cbn [rnn fst snd]. change (chan (rN n)) with (chan n).
      destruct (chan n); [|apply IH]. rewrite <- rn_empty_chan at 1. rewrite <- fmap_insert. apply IH. }
    rewrite <- (EF all ∅). now rewrite fmap_empty.
Qed.

Lemma labels_rn c : labels (rn_cfg c) = map (rp r) (labels c).
Proof. unfold labels, rn_cfg, rn_out. cbn [out]. rewrite map_rev. f_equal. rewrite !map_map. reflexivity. Qed.


Lemma live_rn md D c : live md (rD D) (rn_cfg c) = live md D c.
Proof.
  unfold live. cbn [rn_cfg procs]. rewrite gmap_to_list_fmap.
  change (prod_map id rn_proc <$> ?l) with (map (prod_map id rn_proc) l). rewrite map_map.
  apply map_ext. intros [k p]. cbn [prod_map fst snd]. rewrite action_of_rn.
  destruct (action_of md D p); reflexivity.
Qed.

(* the observable part of the result of a run *)
Definition final_cfg (x : run_res) : config :=
  match x with RQuiescent c | RError c _ _ | ROutOfFuel c => c end.
Inductive run_kind : Type := KQuiescent | KError (who : pid) (e : rt_err) | KOutOfFuel.
Definition kind_of (x : run_res) : run_kind :=
  match x with RQuiescent _ => KQuiescent | RError _ who e => KError who e | ROutOfFuel _ => KOutOfFuel end.
Definition run_program (fuel : nat) (pick : nat -> nat -> nat) (md : exec_mode) (p : program) : run_res :=
  exec_run fuel pick md (p_types p) (p_funs p) (init_config p).

(* lock-step execution of a program and its renamed version, for every mode, oracle and fuel *)
Theorem run_equivariant fuel pick md p :
  run_program fuel pick md (rn_program r p) = rn_run_res (run_program fuel pick md p).
Proof. unfold run_program. cbn [rn_program p_types p_funs]. rewrite init_config_rn. apply exec_run_rn. Qed.

Theorem run_observables fuel pick md p :
  let R := run_program fuel pick md p in
  let R' := run_program fuel pick md (rn_program r p) in
  kind_of R' = kind_of R /\
  labels (final_cfg R') = map (rp r) (labels (final_cfg R)) /\
  live md (p_types (rn_program r p)) (final_cfg R') = live md (p_types p) (final_cfg R) /\
  pids (final_cfg R') = pids (final_cfg R).
Proof.
  cbv zeta. rewrite run_equivariant. destruct (run_program fuel pick md p); cbn [rn_run_res kind_of final_cfg];
    (split; [reflexivity|]); (split; [apply labels_rn|]); (split; [apply live_rn | apply pids_rn]).
Qed.

End Run.

(* (a) label renaming alone: any injective map on choice labels, any map on print labels *)
Corollary run_label_equivariant (l : string -> string) : injective l -> forall fuel pick md p,
  let R := run_program fuel pick md p in
  let R' := run_program fuel pick md (rn_labels l p) in
  kind_of R' = kind_of R /\ labels (final_cfg R') = map l (labels (final_cfg R)).
Proof.
  intros Hl fuel pick md p. cbv zeta.
  destruct (run_observables (ren_labels l) (fun x y E => E) eq_refl (fun x y E => E) (fun x y E => E) Hl fuel pick md p) as (H1 & H2 & _).
  split; [exact H1 | exact H2].
Qed.

(* (c, injective case) channel identifiers alone *)
Corollary run_chan_equivariant (c : string -> string) : injective c -> c "" = "" -> forall fuel pick md p,
  let r := Ren c (fun x => x) (fun x => x) (fun x => x) (fun x => x) in
  let R := run_program fuel pick md p in
  let R' := run_program fuel pick md (rn_program r p) in
  kind_of R' = kind_of R /\ labels (final_cfg R') = labels (final_cfg R).
Proof.
  intros Hc Hc0 fuel pick md p. cbv zeta.
  destruct (run_observables (Ren c (fun x => x) (fun x => x) (fun x => x) (fun x => x)) Hc Hc0
              (fun x y E => E) (fun x y E => E) (fun x y E => E) fuel pick md p) as (H1 & H2 & _).
  split; [exact H1|]. rewrite H2. cbn [rp]. apply map_id.
Qed.

(* (c) what is NOT proved here.  A renaming of BOUND variables that is capture-avoiding but not
   injective on all identifiers of the program (e.g. two binders in different scopes, or in different
   declarations, renamed to the same identifier; or a per-declaration renaming as the generator
   lib/vlib/proggen_mut.py produces) relates programs that are alpha-equivalent but not images of one
   another under one injective map.  The statement for those: *)
Definition run_alpha_invariant : Prop :=
  forall p q p' q', alpha_program p q ->
    typecheck p = Accept p' -> typecheck q = Accept q' ->
    forall fuel pick md,
      kind_of (run_program fuel pick md q') = kind_of (run_program fuel pick md p') /\
      labels (final_cfg (run_program fuel pick md q')) = labels (final_cfg (run_program fuel pick md p')).
(* Proved since: `C14Alpha.run_decl_alpha` — every declaration renamed by its OWN injective map (process
   names kept), polarized modes; `RenameSimT.stepT_sim` — typed configurations, identifiers of
   initialised and self names irrelevant for every transition.  Still open: two binders of ONE
   declaration mapped to one identifier.
   Proved part: `run_chan_equivariant` (q = image of p under one globally injective identifier map; by
   proofs/RenameExt.v this covers every map that is injective on the identifiers of p).  The proof
   obligations that remain for the general case: (1) `subst old new` respects `alpha` when `new` is
   fresh for the binders it passes (needs the scoping invariants the typechecker establishes — no
   binder shadows a name that is free below it: F21/F22 — and that run-time names are initialised,
   hence compared by channel: proofs/RenameSim.v); (2) `step` maps alpha-related configurations to
   alpha-related configurations (one case per transition, as in `step_rn`). *)
