(* EqualBridge.v — TcDeps.eq_ty (the function Tc.v calls, written with nested fixpoints) is the
   function Equal.eq_ty (written with the combinators the proofs use). *)
Require Import Grits.Base Grits.ModeDefs Grits.Modes Grits.STypes Grits.Infer Grits.Print.
Require Grits.TcDeps.
Require Import Grits.Equal Grits.proofs.StrLemmas.

(* the two printers coincide *)
Lemma print_agree :
  (forall t, TcDeps.print_type t = print_type t /\ TcDeps.print_left t = paren_if (needs_paren t) (print_type t)) /\
  (forall b, TcDeps.print_brs b = print_brs b).
Proof.
  apply sty_brs_ind; intros;
    cbn [TcDeps.print_type TcDeps.print_left TcDeps.print_brs print_type print_brs needs_paren paren_if];
    repeat match goal with H : _ /\ _ |- _ => destruct H end;
    repeat match goal with H : _ = _ |- _ => rewrite H; clear H end;
    rewrite ?app_assoc_s; split; reflexivity.
Qed.
Lemma print_type_agree t : TcDeps.print_type t = print_type t.
Proof. apply print_agree. Qed.
Lemma key_agree s t : TcDeps.eq_key s t = memo_key s t.
Proof. unfold TcDeps.eq_key, memo_key. rewrite !print_type_agree. reflexivity. Qed.

(* the body of TcDeps.eq_ty (S k') D (S n'), with its two kinds of recursive calls abstracted *)
Definition tc_step (go : sty -> sty -> list string -> res) (ex : sty -> sty -> list string -> res)
           (D : tenv) (s t : sty) (memo : list string) : res :=
  if negb (TcDeps.same_ctor s t) && negb (TcDeps.is_name s) && negb (TcDeps.is_name t) then Ok (false, memo)
  else if TcDeps.is_name s || TcDeps.is_name t then
    let key := TcDeps.eq_key s t in
    if str_mem key memo then Ok (true, memo)
    else
      let expand (s' t' : sty) := ex s' t' (key :: memo) in
      match s, t with
      | TName x m, TName y m' =>
        if String.eqb x y then Ok (mode_eqb m m', memo)
        else match tlookup D x, tlookup D y with
             | Some d1, Some d2 => expand (td_body d1) (td_body d2)
             | _, _ => Ok (false, memo)
             end
      | TName x _, _ =>
        match tlookup D x with
        | Some d1 => expand (td_body d1) t
        | None => Ok (false, memo)
        end
      | _, TName y _ =>
        match tlookup D y with
        | Some d2 => expand s (td_body d2)
        | None => Ok (false, memo)
        end
      | _, _ => Ok (false, memo)
      end
  else
    match s, t with
    | TUnit m, TUnit m' => Ok (mode_eqb m m', memo)
    | TTensor a b m, TTensor a' b' m' | TLolli a b m, TLolli a' b' m' =>
      if mode_eqb m m' then
        do (r1, M1) <- go a a' memo;
        if r1 then go b b' M1 else Ok (false, M1)
      else Ok (false, memo)
    | TPlus bs m, TPlus cs m' | TWith bs m, TWith cs m' =>
      if (brs_len bs =? brs_len cs)%nat then
        if mode_eqb m m' then
          (fix go_brs (bs : brs) (memo : list string) {struct bs} : res :=
             match bs with
             | BNil => Ok (true, memo)
             | BCons l a r =>
               match find_br l cs with
               | None => Ok (false, memo)
               | Some a' =>
                 do (r1, M1) <- go a a' memo;
                 if r1 then go_brs r M1 else Ok (false, M1)
               end
             end) bs memo
        else Ok (false, memo)
      else Ok (false, memo)
    | TUp f1 t1 a, TUp f2 t2 a' | TDown f1 t1 a, TDown f2 t2 a' =>
      if mode_eqb t1 t2 && mode_eqb f1 f2 then go a a' memo else Ok (false, memo)
    | _, _ => Ok (false, memo)
    end.

Lemma tc_unfold k D n s t M :
  TcDeps.eq_ty (S k) D (S n) s t M =
  tc_step (TcDeps.eq_ty (S k) D n) (fun s' t' M' => TcDeps.eq_ty k D (S (tsize s' + tsize t')) s' t' M') D s t M.
Proof. reflexivity. Qed.

Lemma brs_loop_agree (go : sty -> sty -> list string -> res) cs : forall bs memo,
  (fix go_brs (bs : brs) (memo : list string) {struct bs} : res :=
     match bs with
     | BNil => Ok (true, memo)
     | BCons l a r =>
       match find_br l cs with
       | None => Ok (false, memo)
       | Some a' =>
         do (r1, M1) <- go a a' memo;
         if r1 then go_brs r M1 else Ok (false, M1)
       end
     end) bs memo = branches go bs cs memo.
Proof.
  induction bs as [|l a r IH]; intros memo; cbn [branches]; [reflexivity|].
  destruct (find_br l cs) as [a'|]; [|reflexivity].
  destruct (go a a' memo) as [[[|] M1]| |]; cbn [obind]; [apply IH | reflexivity | reflexivity | reflexivity].
Qed.

Lemma both_agree (go : sty -> sty -> list string -> res) a a' b b' memo :
  (do (r1, M1) <- go a a' memo; if r1 then go b b' M1 else Ok (false, M1)) = both go a a' b b' memo.
Proof. unfold both. destruct (go a a' memo) as [[[|] M1]| |]; reflexivity. Qed.

Lemma tc_step_agree go ex D s t M : tc_step go ex D s t M = step go ex D s t M.
Proof.
  unfold tc_step, step. rewrite key_agree.
  change TcDeps.same_ctor with same_ctor. change TcDeps.is_name with is_name.
  destruct (negb (same_ctor s t) && negb (is_name s) && negb (is_name t)); [reflexivity|].
  destruct (is_name s || is_name t) eqn:En.
  - cbv zeta. destruct (str_mem (memo_key s t) M); [reflexivity|].
    unfold expand_both, expand1, same_label.
    destruct s, t; cbn in En; try discriminate; cbn [mode_of];
      repeat match goal with
             | |- context [String.eqb ?x ?y] => destruct (String.eqb x y)
             | |- context [tlookup D ?x] => destruct (tlookup D x)
             end; reflexivity.
  - destruct s, t; try reflexivity;
      rewrite ?both_agree, ?brs_loop_agree;
      repeat match goal with |- context [mode_eqb ?x ?y] => destruct (mode_eqb x y) end; reflexivity.
Qed.

Section Ext.
Variables rs rs' re re' : sty -> sty -> list string -> res.
Hypothesis Hrs : forall a b M, rs a b M = rs' a b M.
Hypothesis Hre : forall a b M, re a b M = re' a b M.
Lemma both_ext a a' b b' M : both rs a a' b b' M = both rs' a a' b b' M.
Proof. unfold both. rewrite Hrs. destruct (rs' a a' M) as [[[|] M1]| |]; auto. Qed.
Lemma branches_ext cs : forall bs M, branches rs bs cs M = branches rs' bs cs M.
Proof.
  induction bs as [|l a r IH]; intros M; cbn [branches]; [reflexivity|].
  destruct (find_br l cs); [|reflexivity]. rewrite Hrs. destruct (rs' a s M) as [[[|] M1]| |]; auto.
Qed.
Lemma step_ext D s t M : step rs re D s t M = step rs' re' D s t M.
Proof.
  unfold step, expand_both. destruct s, t; cbn [same_ctor is_name negb andb orb];
    rewrite ?both_ext, ?branches_ext, ?Hrs;
    repeat match goal with
           | |- context [expand1 D ?x] => destruct (expand1 D x)
           end; rewrite ?Hre; reflexivity.
Qed.
End Ext.

Lemma eq_in_ext re re' D (Hre : forall a b M, re a b M = re' a b M) :
  forall n s t M, eq_in re D n s t M = eq_in re' D n s t M.
Proof. induction n; intros; cbn [eq_in]; [reflexivity|]. apply step_ext; auto. Qed.

Theorem eq_ty_bridge D : forall k n s t M, TcDeps.eq_ty k D n s t M = eq_ty k D n s t M.
Proof.
  induction k as [|k IHk]; intros n s t M; [reflexivity|].
  revert s t M. induction n as [|n IHn]; intros s t M; [reflexivity|].
  rewrite tc_unfold, tc_step_agree. cbn [eq_ty eq_in].
  apply step_ext; [exact IHn | intros; apply IHk].
Qed.

Theorem equal_type_bridge D s t : TcDeps.equal_type D s t = equal_type D s t.
Proof.
  unfold TcDeps.equal_type, equal_type. rewrite eq_ty_bridge.
  change (TcDeps.eq_fuel D s t) with (eq_fuel D s t).
  destruct (eq_ty (eq_fuel D s t) D (S (tsize s + tsize t)) s t []) as [[b M]| |]; reflexivity.
Qed.
