(* proofs/TcTotal.v — C09, first half: the typechecker model never reaches one of its modelled Go
   panics (nil dereference, Polarity() of a name type, shift of an improper mode, index out of range)
   and never exhausts the fuel of Unfold / isContractive, for EVERY program (no hypothesis on the
   program at all: the preliminary checks establish what the syntax-directed part relies on).

   Two facts about package `types` are taken as Section hypotheses (they belong to C08 / the mode
   inference contributor and are stated over TcDeps' boolean checks so that they can be discharged
   by instantiation):
     equal_terminates  : EqualType returns on well-formed types in a well-formed environment
     add_missing_total : AddMissingModalities returns in a well-formed environment *)
Require Import Grits.Base Grits.ModeDefs Grits.Modes Grits.STypes Grits.Forms Grits.Subst Grits.Infer
               Grits.TcDeps Grits.Expand Grits.Tc Grits.TcTop Grits.proofs.TcEnv.

Definition safe {A} (r : tcr A) : Prop := match r with TPanic _ | THang _ => False | _ => True end.

Lemma safe_bind : forall {A B} (r : tcr A) (k : A -> tcr B),
  safe r -> (forall a, r = TOk a -> safe (k a)) -> safe (tbind r k).
Proof. intros A B r k Hr Hk. destruct r; cbn in *; auto. Qed.

Lemma safe_bind_any : forall {A B} (r : tcr A) (k : A -> tcr B),
  safe r -> (forall a, safe (k a)) -> safe (tbind r k).
Proof. intros. apply safe_bind; auto. Qed.

Lemma wp_guard : forall {B} b w (k : unit -> tcr B), (b = true -> safe (k tt)) -> safe (tbind (guard b w) k).
Proof. intros B b w k H. destruct b; cbn; auto. Qed.

Lemma wp_linear : forall {B} g (k : unit -> tcr B), safe (k tt) -> safe (tbind (linear_gamma g) k).
Proof. intros B g k H. destruct g; cbn; auto. Qed.

Definition nn (t : option sty) : Prop := match t with Some s => is_name s = false | None => True end.
Definition pol_ok (n : name) : Prop := nn (nty n).

Lemma polarity_nonname : forall t, is_name t = false -> exists p, polarity_of t = Ok p.
Proof. destruct t; cbn; intros; try discriminate; eexists; reflexivity. Qed.

Lemma pol_valid_ok : forall n, pol_ok n -> exists b, pol_valid n = TOk b.
Proof.
  unfold pol_ok, pol_valid. intros n H. destruct (pol n); [|eexists; reflexivity].
  destruct (nty n) as [t|]; [|eexists; reflexivity]. cbn in H.
  destruct (polarity_nonname _ H) as [q Hq]. rewrite Hq. cbn. eexists; reflexivity.
Qed.

Lemma check_pols_safe : forall l, Forall pol_ok l -> safe (check_pols l).
Proof.
  induction 1 as [|n l Hn Hl IH]; cbn; auto.
  destruct (pol_valid_ok _ Hn) as [b Hb]. rewrite Hb. cbn. destruct b; cbn; auto.
Qed.

Lemma wp_check_pols : forall {B} l (k : unit -> tcr B), Forall pol_ok l -> safe (k tt) -> safe (tbind (check_pols l) k).
Proof. intros. apply safe_bind; [apply check_pols_safe; auto | intros []; auto]. Qed.

Lemma wp_polarity : forall {B} t (k : polarity -> tcr B), is_name t = false -> (forall p, safe (k p)) -> safe (tbind (lift (polarity_of t)) k).
Proof. intros B t k H Hk. destruct (polarity_nonname _ H) as [p Hp]. rewrite Hp. cbn. auto. Qed.

Lemma wp_down : forall {B} a b (k : bool -> tcr B), proper a = true -> proper b = true -> (forall r, safe (k r)) -> safe (tbind (lift (down_o a b)) k).
Proof. intros B a b k Ha Hb Hk. unfold down_o. rewrite Ha, Hb. cbn. auto. Qed.
Lemma wp_up : forall {B} a b (k : bool -> tcr B), proper a = true -> proper b = true -> (forall r, safe (k r)) -> safe (tbind (lift (up_o a b)) k).
Proof. intros B a b k Ha Hb Hk. unfold up_o. rewrite Ha, Hb. cbn. auto. Qed.

Lemma as_tensor_inv : forall t a b m, as_tensor t = Some (a, b, m) -> t = Some (TTensor a b m).
Proof. intros t0 a b m H; destruct t0 as [[]|]; cbn in H; inversion H; subst; auto. Qed.
Lemma as_lolli_inv : forall t a b m, as_lolli t = Some (a, b, m) -> t = Some (TLolli a b m).
Proof. intros t0 a b m H; destruct t0 as [[]|]; cbn in H; inversion H; subst; auto. Qed.
Lemma as_plus_inv : forall t bs m, as_plus t = Some (bs, m) -> t = Some (TPlus bs m).
Proof. intros t0 bs m H; destruct t0 as [[]|]; cbn in H; inversion H; subst; auto. Qed.
Lemma as_with_inv : forall t bs m, as_with t = Some (bs, m) -> t = Some (TWith bs m).
Proof. intros t0 bs m H; destruct t0 as [[]|]; cbn in H; inversion H; subst; auto. Qed.
Lemma as_up_inv : forall t f to a, as_up t = Some (f, to, a) -> t = Some (TUp f to a).
Proof. intros t0 f to a H; destruct t0 as [[]|]; cbn in H; inversion H; subst; auto. Qed.
Lemma as_down_inv : forall t f to a, as_down t = Some (f, to, a) -> t = Some (TDown f to a).
Proof. intros t0 f to a H; destruct t0 as [[]|]; cbn in H; inversion H; subst; auto. Qed.

Section Total.
(* ---- the two facts about package types that other properties establish ---- *)
Hypothesis equal_terminates : forall D s t,
  sanity_typedefs D = Ok true -> check_wf D s = true -> check_wf D t = true -> exists b, equal_type D s t = Ok b.
Hypothesis add_missing_total : forall D t,
  sanity_typedefs D = Ok true -> exists t', add_missing D t = Ok t'.

Section Env.
Variable D : tenv.
Hypothesis HD : wf_env D.

Definition oty_ok (t : option sty) : Prop := match t with Some s => wf_type D s | None => False end.
Definition ctx_ok (g : ctx) : Prop := Forall (fun kv => oty_ok (snd kv)) g.

Lemma ctx_ok_nil : ctx_ok [].
Proof. constructor. Qed.
Lemma aremove_ok : forall k g, ctx_ok g -> ctx_ok (aremove k g).
Proof.
  induction 1 as [|[k' v] g Hv Hg IH]; cbn; [constructor|].
  destruct (String.eqb k k'); auto. constructor; auto.
Qed.
Lemma aset_ok : forall k t g, oty_ok t -> ctx_ok g -> ctx_ok (aset k t g).
Proof. intros. constructor; auto. apply aremove_ok; auto. Qed.
Lemma aset_aset_ok : forall k t w g, oty_ok t -> ctx_ok g -> ctx_ok (aset k t (aset k w g)).
Proof.
  intros k t w g Ht Hg. unfold aset. constructor; auto. cbn. rewrite String.eqb_refl.
  apply aremove_ok, aremove_ok; auto.
Qed.
Lemma alookup_ok : forall k g t, ctx_ok g -> alookup k g = Some t -> oty_ok t.
Proof.
  induction 1 as [|[k' v] g Hv Hg IH]; cbn; intros H; [discriminate|].
  destruct (String.eqb k k'); [inversion H; subst; auto | auto].
Qed.

Lemma wp_unfold : forall {B} s (k : option sty -> tcr B), wf_type D s ->
  (forall u, wf_type D u -> is_name u = false -> safe (k (Some u))) -> safe (tbind (unfold_opt D (Some s)) k).
Proof.
  intros B s k Hs Hk. destruct (unfold_wf D s HD Hs) as (u & Hu & Hn & Hw).
  cbn [unfold_opt]. rewrite Hu. cbn [lift tbind]. auto.
Qed.
Lemma wp_unfold_none : forall {B} (k : option sty -> tcr B), safe (k None) -> safe (tbind (unfold_opt D None) k).
Proof. intros. cbn [unfold_opt tbind]. auto. Qed.

Lemma equal_opt_some : forall s t, equal_opt D (Some s) (Some t) = lift (equal_type D s t).
Proof. intros s t. destruct s; reflexivity. Qed.

Lemma wp_equal : forall {B} s t (k : bool -> tcr B), wf_type D s -> wf_type D t -> (forall e, safe (k e)) ->
  safe (tbind (equal_opt D (Some s) (Some t)) k).
Proof. intros B s t k Hs Ht Hk. destruct (equal_terminates D s t HD Hs Ht) as [b Hb]. rewrite equal_opt_some, Hb. cbn [lift tbind]. auto. Qed.

Lemma wp_add_missing : forall {B} t (k : sty -> tcr B), (forall t', safe (k t')) -> safe (tbind (lift (add_missing D t)) k).
Proof. intros B t k Hk. destruct (add_missing_total D t HD) as [t' Ht]. rewrite Ht. cbn [lift tbind]. auto. Qed.

Lemma wp_consume : forall {B} n g (k : option sty * ctx -> tcr B), ctx_ok g ->
  (forall s g', wf_type D s -> ctx_ok g' -> safe (k (Some s, g'))) -> safe (tbind (consume n g) k).
Proof.
  intros B n g k Hg Hk. unfold consume. destruct (is_self n); cbn; auto.
  destruct (alookup (ident n) g) as [t|] eqn:E; cbn; auto.
  pose proof (alookup_ok _ _ _ Hg E) as Ht. destruct t as [s|]; [|contradiction].
  apply Hk; auto. apply aremove_ok; auto.
Qed.
Lemma wp_consume_ms : forall {B} n sh g p (k : option sty * ctx -> tcr B), ctx_ok g -> wf_type D p ->
  (forall s g', wf_type D s -> ctx_ok g' -> safe (k (Some s, g'))) -> safe (tbind (consume_maybe_self n sh g (Some p)) k).
Proof.
  intros B n sh g p k Hg Hp Hk. unfold consume_maybe_self. destruct (is_self n); cbn; auto.
  destruct (match sh with Some s => String.eqb (ident s) (ident n) | None => false end); cbn; auto.
  destruct (alookup (ident n) g) as [t|] eqn:E; cbn; auto.
  pose proof (alookup_ok _ _ _ Hg E) as Ht. destruct t as [s|]; [|contradiction].
  apply Hk; auto. apply aremove_ok; auto.
Qed.

(* the *_opt variants: the name was found with a well-formed type, or not found *)
Definition found_ok (fl : option (option sty)) : Prop :=
  match fl with Some (Some s) => wf_type D s | Some None => False | None => True end.
Lemma consume_opt_ok : forall n g fl g', ctx_ok g -> consume_opt n g = (fl, g') -> found_ok fl /\ ctx_ok g'.
Proof.
  unfold consume_opt. intros n g fl g' Hg H. destruct (is_self n); [inversion H; subst; cbn; auto|].
  destruct (alookup (ident n) g) as [t|] eqn:E; inversion H; subst; cbn; auto.
  pose proof (alookup_ok _ _ _ Hg E) as Ht. destruct t; [|contradiction]. split; auto. apply aremove_ok; auto.
Qed.
Lemma consume_ms_opt_ok : forall n sh g p fl g', ctx_ok g -> wf_type D p ->
  consume_maybe_self_opt n sh g (Some p) = (fl, g') -> found_ok fl /\ ctx_ok g'.
Proof.
  unfold consume_maybe_self_opt. intros n sh g p fl g' Hg Hp H. destruct (is_self n); [inversion H; subst; cbn; auto|].
  destruct (match sh with Some s => String.eqb (ident s) (ident n) | None => false end); [inversion H; subst; cbn; auto|].
  destruct (alookup (ident n) g) as [t|] eqn:E; inversion H; subst; cbn; auto.
  pose proof (alookup_ok _ _ _ Hg E) as Ht. destruct t; [|contradiction]. split; auto. apply aremove_ok; auto.
Qed.

Lemma wp_need : forall {B} s w (k : sty -> tcr B), safe (k s) -> safe (tbind (need (Some s) w) k).
Proof. intros. cbn. auto. Qed.

Lemma indep_one_safe : forall l r, wf_type D l -> wf_type D r -> safe (indep_one (Some l) (Some r)).
Proof.
  intros l r Hl Hr. unfold indep_one. cbn [need tbind]. apply wp_down.
  - eapply wf_proper; eauto.
  - eapply wf_proper; eauto.
  - intros []; cbn; auto.
Qed.
Lemma indep_all_safe : forall ls r, Forall oty_ok ls -> wf_type D r -> safe (indep_all ls (Some r)).
Proof.
  induction 1 as [|l ls Hl Hls IH]; cbn; intros Hr; auto.
  destruct l as [l|]; [|contradiction].
  apply safe_bind_any; [apply indep_one_safe; auto | intros; auto].
Qed.

Lemma ctx_ok_snd : forall g, ctx_ok g -> Forall oty_ok (map snd g).
Proof. induction 1; cbn; constructor; auto. Qed.

Lemma split_gamma_ok : forall ns g acc, ctx_ok g -> ctx_ok acc ->
  safe (split_gamma D g ns acc) /\ (forall gl gr, split_gamma D g ns acc = TOk (gl, gr) -> ctx_ok gl /\ ctx_ok gr).
Proof.
  induction ns as [|n ns IH]; cbn [split_gamma]; intros g acc Hg Ha.
  - split; [exact I|]. intros gl gr H. inversion H; subst; auto.
  - destruct (is_self n); [apply IH; auto|].
    destruct (consume_opt n g) as [fl g'] eqn:E.
    destruct (consume_opt_ok _ _ _ _ Hg E) as [Hfl Hg'].
    destruct fl as [[s|]|]; cbn in Hfl; try contradiction.
    + destruct (unfold_wf D s HD Hfl) as (u & Hu & Hn & Hw). cbn [unfold_opt]. rewrite Hu. cbn [lift tbind].
      apply IH; auto. apply aset_ok; auto.
    + split; [exact I|]. intros; discriminate.
Qed.

(* ---------- the syntax-directed part ---------- *)
Variable Sg : sigma.
Definition sig_ok (sg : fsig) : Prop := oty_ok (fs_type sg) /\ Forall (fun p => oty_ok (nty p)) (fs_params sg).
Hypothesis HSg : forall fn sg, sig_lookup Sg fn = Some sg -> sig_ok sg.

Ltac ok := cbn [oty_ok snd]; eauto using aset_ok, aremove_ok, aset_aset_ok, ctx_ok_nil.

Ltac learn :=
  repeat match goal with
  | H : as_tensor _ = Some _ |- _ => apply as_tensor_inv in H; inversion H; subst; clear H
  | H : as_lolli _ = Some _ |- _ => apply as_lolli_inv in H; inversion H; subst; clear H
  | H : as_plus _ = Some _ |- _ => apply as_plus_inv in H; inversion H; subst; clear H
  | H : as_with _ = Some _ |- _ => apply as_with_inv in H; inversion H; subst; clear H
  | H : as_up _ = Some _ |- _ => apply as_up_inv in H; inversion H; subst; clear H
  | H : as_down _ = Some _ |- _ => apply as_down_inv in H; inversion H; subst; clear H
  | H : wf_type D (TTensor _ _ _) |- _ => destruct (wf_tensor _ _ _ _ H); clear H
  | H : wf_type D (TLolli _ _ _) |- _ => destruct (wf_lolli _ _ _ _ H); clear H
  | H : wf_type D (TPlus _ _) |- _ => apply wf_plus in H
  | H : wf_type D (TWith _ _) |- _ => apply wf_with in H
  | H : wf_type D (TUp _ _ _) |- _ => destruct (wf_up _ _ _ _ H) as (? & ? & ?); clear H
  | H : wf_type D (TDown _ _ _) |- _ => destruct (wf_down _ _ _ _ H) as (? & ? & ?); clear H
  end.

Ltac pols := repeat constructor; cbn; auto.

Ltac step :=
  cbv beta iota;
  first
  [ exact I
  | match goal with
    | |- safe (tbind (TOk _) _) => cbn [tbind]
    | |- safe (let _ := _ in _) => cbv zeta
    | |- safe (tbind (guard _ _) _) => apply wp_guard; intro
    | |- safe (tbind (linear_gamma _) _) => apply wp_linear
    | |- safe (tbind (unfold_opt D None) _) => apply wp_unfold_none
    | |- safe (tbind (unfold_opt D (Some _)) _) => apply wp_unfold; [ok | intros ? ? ?]
    | |- safe (tbind (unfold_opt D (match ?fl with _ => _ end)) _) =>
        destruct fl as [[?|]|]; cbn [found_ok] in *; try contradiction
    | |- safe (tbind (equal_opt D (Some _) (Some _)) _) => apply wp_equal; [ok | ok | intro]
    | |- safe (tbind (check_pols _) _) => apply wp_check_pols; [pols | ]
    | |- safe (tbind (consume _ _) _) => apply wp_consume; [ok | intros ? ? ? ?]
    | |- safe (tbind (consume_maybe_self _ _ _ (Some _)) _) => apply wp_consume_ms; [ok | ok | intros ? ? ? ?]
    | |- safe (tbind (need (Some _) _) _) => apply wp_need
    | |- safe (tbind (lift (down_o _ _)) _) => apply wp_down; [auto | auto | intro]
    | |- safe (tbind (lift (up_o _ _)) _) => apply wp_up; [auto | auto | intro]
    | |- safe (tbind (lift (polarity_of _)) _) => apply wp_polarity; [auto | intro]
    | |- safe (tbind (lift (add_missing D _)) _) => apply wp_add_missing; intro
    | |- safe (tbind (if ?e then TOk tt else _) _) => destruct e
    | |- safe (tbind (split_gamma D ?g ?ns []) _) =>
        let Hs := fresh "Hs" in let Hr := fresh "Hr" in let E := fresh "E" in
        destruct (split_gamma_ok ns g [] ltac:(ok) ctx_ok_nil) as [Hs Hr];
        apply safe_bind; [exact Hs | intros [? ?] E; destruct (Hr _ _ E); clear Hs Hr]
    | |- safe (tbind (indep_all (map snd _) (Some _)) _) =>
        apply safe_bind_any; [apply indep_all_safe; [apply ctx_ok_snd; ok | ok] | intro]
    | |- safe (tbind (indep_one (Some _) (Some _)) _) =>
        apply safe_bind_any; [apply indep_one_safe; ok | intro]
    | |- safe (match consume_opt ?n ?g with _ => _ end) =>
        let E := fresh "E" in destruct (consume_opt n g) as [? ?] eqn:E; apply consume_opt_ok in E; [destruct E | ok]
    | |- safe (match consume_maybe_self_opt ?n ?sh ?g (Some ?p) with _ => _ end) =>
        let E := fresh "E" in destruct (consume_maybe_self_opt n sh g (Some p)) as [? ?] eqn:E;
        apply consume_ms_opt_ok in E; [destruct E | ok | ok]
    | |- safe (match as_tensor ?t with _ => _ end) => destruct (as_tensor t) as [[[? ?] ?]|] eqn:?; learn
    | |- safe (match as_lolli ?t with _ => _ end) => destruct (as_lolli t) as [[[? ?] ?]|] eqn:?; learn
    | |- safe (match as_plus ?t with _ => _ end) => destruct (as_plus t) as [[? ?]|] eqn:?; learn
    | |- safe (match as_with ?t with _ => _ end) => destruct (as_with t) as [[? ?]|] eqn:?; learn
    | |- safe (match as_up ?t with _ => _ end) => destruct (as_up t) as [[[? ?] ?]|] eqn:?; learn
    | |- safe (match as_down ?t with _ => _ end) => destruct (as_down t) as [[[? ?] ?]|] eqn:?; learn
    | H : brs_wf D ?bs |- safe (match find_br ?l ?bs with _ => _ end) =>
        let E := fresh "E" in destruct (find_br l bs) eqn:E; [apply H in E|]
    | |- safe (if ?b then _ else _) => destruct b eqn:?
    | |- safe (match nty ?x with _ => _ end) => destruct (nty x) eqn:?
    end ].

Lemma tc_args_safe : forall args params g, ctx_ok g -> Forall (fun p => oty_ok (nty p)) params ->
  (length args <= length params)%nat -> safe (tc_args D g args params).
Proof.
  induction args as [|a args IH]; intros params g Hg Hp Hlen; [destruct params; exact I|].
  destruct params as [|p params]; [cbn in Hlen; lia|].
  inversion Hp as [|? ? Hp1 Hp2]; subst. cbn in Hlen.
  cbn [tc_args]. destruct (nty p) as [pt|] eqn:Ept; [|contradiction]. cbn [oty_ok] in Hp1.
  repeat step.
  apply safe_bind_any; [apply IH; auto; lia | intros [? ?]; exact I].
Qed.

Definition P_form (f : form) : Prop :=
  forall g shadow p, ctx_ok g -> wf_type D p -> safe (tc_form D Sg g shadow (Some p) f).
Definition P_brs (b : branches) : Prop :=
  (forall g bs seen, ctx_ok g -> brs_wf D bs -> safe (tc_branches_provider D Sg g bs seen b)) /\
  (forall g shadow p bs seen, ctx_ok g -> wf_type D p -> brs_wf D bs ->
     safe (tc_branches_client D Sg g shadow (Some p) bs seen b)).

Ltac use_ih :=
  match goal with
  | IH : P_form ?k |- safe (tbind (tc_form D Sg _ _ (Some _) ?k) _) =>
      apply safe_bind_any; [apply IH; [ok | ok] | intro]
  | IH : P_brs ?b |- safe (tbind (tc_branches_provider D Sg _ _ _ ?b) _) =>
      apply safe_bind_any; [apply (proj1 IH); [ok | ok] | intros [? ?]]
  | IH : P_brs ?b |- safe (tbind (tc_branches_client D Sg _ _ (Some _) _ _ ?b) _) =>
      apply safe_bind_any; [apply (proj2 IH); [ok | ok | ok] | intros [? ?]]
  end.
Ltac go := repeat first [step | use_ih].

Lemma tc_call_safe : forall fn args pt, P_form (FCall fn args pt).
Proof.
  intros fn args pt g shadow p Hg Hp. cbn [tc_form].
  destruct (sig_lookup Sg fn) as [sg|] eqn:Esg; [|exact I].
  destruct (HSg _ _ Esg) as [Ht Hps]. destruct (fs_type sg) as [ft|] eqn:Eft; [|contradiction]. cbn [oty_ok] in Ht.
  destruct (S (length (fs_params sg)) =? length args)%nat eqn:E1.
  - apply Nat.eqb_eq in E1. destruct args as [|a0 rest]; [exact I|]. cbn in E1.
    go. apply safe_bind_any; [apply tc_args_safe; auto; lia | intros [? ?]; go].
  - destruct (length (fs_params sg) =? length args)%nat eqn:E2; [|exact I].
    apply Nat.eqb_eq in E2.
    go. apply safe_bind_any; [apply tc_args_safe; auto; lia | intros [? ?]; go].
Qed.

Lemma tc_safe : (forall f, P_form f) /\ (forall b, P_brs b).
Proof.
  apply form_branches_ind.
  - (* send *) intros to pay cont g shadow p Hg Hp. cbn [tc_form]. go.
  - (* recv *) intros pay cont from k IHk g shadow p Hg Hp. cbn [tc_form]. go.
  - (* select *) intros to l cont g shadow p Hg Hp. cbn [tc_form]. go.
  - (* case *) intros from bs IHb g shadow p Hg Hp. cbn [tc_form].
    fold (tc_branches_provider D Sg) (tc_branches_client D Sg). go.
  - (* new *) intros x body IHbody k IHk g shadow p Hg Hp. cbn [tc_form].
    destruct (ctx_has g (ident x)) eqn:Er; do 3 step.
    all: destruct body;
      try (match goal with |- context [sig_lookup Sg ?fn] =>
             step; destruct (sig_lookup Sg fn) as [sg|] eqn:Esg; [|exact I];
             destruct (HSg _ _ Esg) as [Ht Hps]; destruct (fs_type sg) as [ft|] eqn:Eft; [|contradiction];
             cbn [oty_ok] in Ht end);
      go.
  - (* close *) intros c g shadow p Hg Hp. cbn [tc_form]. go.
  - (* wait *) intros c k IHk g shadow p Hg Hp. cbn [tc_form]. go.
  - (* fwd *) intros to from d g shadow p Hg Hp. cbn [tc_form]. go.
  - (* split *) intros x y from k IHk g shadow p Hg Hp. cbn [tc_form]. go.
  - (* call *) apply tc_call_safe.
  - (* cast *) intros to cont g shadow p Hg Hp. cbn [tc_form]. go.
  - (* shift *) intros x from k IHk g shadow p Hg Hp. cbn [tc_form]. go.
  - (* drop *) intros c k IHk g shadow p Hg Hp. cbn [tc_form]. go.
  - (* print *) intros l k IHk g shadow p Hg Hp. cbn [tc_form]. go.
  - (* BrNil *) split; intros; exact I.
  - (* BrCons *) intros l pay k IHk r IHr. split.
    + intros g bs seen Hg Hbs. cbn [tc_branches_provider].
      fold (tc_form D Sg) (tc_branches_provider D Sg). go.
    + intros g shadow p bs seen Hg Hp Hbs. cbn [tc_branches_client].
      fold (tc_form D Sg) (tc_branches_client D Sg). go.
Qed.
End Env.
End Total.
