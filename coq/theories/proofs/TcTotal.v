(* proofs/TcTotal.v — C09, first half: the typechecker model never reaches one of its modelled Go
   panics (nil dereference, Polarity() of a name type, shift of an improper mode, index out of range)
   and never exhausts the fuel of Unfold / isContractive, for EVERY program (no hypothesis on the
   program at all: the preliminary checks establish what the syntax-directed part relies on).

   Two facts about package `types` are taken as Section hypotheses (they belong to C08 / the mode
   inference contributor and are stated over TcDeps' boolean checks so that they can be discharged
   by instantiation):
     equal_terminates  : EqualType returns on well-formed types in a well-formed environment
     add_missing_total : AddMissingModalities returns in a well-formed environment *)
Require Import Grits.Base Grits.ModeDefs Grits.Modes Grits.STypes Grits.Forms Grits.Subst Grits.Infer
               Grits.TcDeps Grits.Expand Grits.Tc Grits.TcTop Grits.proofs.TcEnv.

Definition safe {A} (r : tcr A) : Prop := match r with TPanic _ | THang _ => False | _ => True end.

Lemma safe_bind : forall {A B} (r : tcr A) (k : A -> tcr B),
  safe r -> (forall a, r = TOk a -> safe (k a)) -> safe (tbind r k).
Proof. intros A B r k Hr Hk. destruct r; cbn in *; auto. Qed.

Lemma safe_bind_any : forall {A B} (r : tcr A) (k : A -> tcr B),
  safe r -> (forall a, safe (k a)) -> safe (tbind r k).
Proof. intros. apply safe_bind; auto. Qed.

Lemma tbind_assoc : forall {A B C} (r : tcr A) (f : A -> tcr B) (k : B -> tcr C),
  tbind (tbind r f) k = tbind r (fun a => tbind (f a) k).
Proof. intros. destruct r; reflexivity. Qed.

Lemma wp_guard : forall {B} b w (k : unit -> tcr B), (b = true -> safe (k tt)) -> safe (tbind (guard b w) k).
Proof. intros B b w k H. destruct b; cbn; auto. Qed.

Lemma wp_linear : forall {B} g (k : unit -> tcr B), safe (k tt) -> safe (tbind (linear_gamma g) k).
Proof. intros B g k H. destruct g; cbn; auto. Qed.

Definition nn (t : option sty) : Prop := match t with Some s => is_name s = false | None => True end.
Definition pol_ok (n : name) : Prop := nn (nty n).

Lemma polarity_nonname : forall t, is_name t = false -> exists p, polarity_of t = Ok p.
Proof. destruct t; cbn; intros; try discriminate; eexists; reflexivity. Qed.

Lemma pol_valid_ok : forall n, pol_ok n -> exists b, pol_valid n = TOk b.
Proof.
  unfold pol_ok, pol_valid. intros n H. destruct (pol n); [|eexists; reflexivity].
  destruct (nty n) as [t|]; [|eexists; reflexivity]. cbn in H.
  destruct (polarity_nonname _ H) as [q Hq]. rewrite Hq. cbn. eexists; reflexivity.
Qed.

Lemma check_pols_safe : forall l, Forall pol_ok l -> safe (check_pols l).
Proof.
  induction 1 as [|n l Hn Hl IH]; cbn; auto.
  destruct (pol_valid_ok _ Hn) as [b Hb]. rewrite Hb. cbn. destruct b; cbn; auto.
Qed.

Lemma wp_check_pols : forall {B} l (k : unit -> tcr B), Forall pol_ok l -> safe (k tt) -> safe (tbind (check_pols l) k).
Proof. intros. apply safe_bind; [apply check_pols_safe; auto | intros []; auto]. Qed.

Lemma wp_polarity : forall {B} t (k : polarity -> tcr B), is_name t = false -> (forall p, safe (k p)) -> safe (tbind (lift (polarity_of t)) k).
Proof. intros B t k H Hk. destruct (polarity_nonname _ H) as [p Hp]. rewrite Hp. cbn. auto. Qed.

Lemma wp_down : forall {B} a b (k : bool -> tcr B), proper a = true -> proper b = true -> (forall r, safe (k r)) -> safe (tbind (lift (down_o a b)) k).
Proof. intros B a b k Ha Hb Hk. unfold down_o. rewrite Ha, Hb. cbn. auto. Qed.
Lemma wp_up : forall {B} a b (k : bool -> tcr B), proper a = true -> proper b = true -> (forall r, safe (k r)) -> safe (tbind (lift (up_o a b)) k).
Proof. intros B a b k Ha Hb Hk. unfold up_o. rewrite Ha, Hb. cbn. auto. Qed.

Lemma as_tensor_inv : forall t a b m, as_tensor t = Some (a, b, m) -> t = Some (TTensor a b m).
Proof. intros t0 a b m H; destruct t0 as [[]|]; cbn in H; inversion H; subst; auto. Qed.
Lemma as_lolli_inv : forall t a b m, as_lolli t = Some (a, b, m) -> t = Some (TLolli a b m).
Proof. intros t0 a b m H; destruct t0 as [[]|]; cbn in H; inversion H; subst; auto. Qed.
Lemma as_plus_inv : forall t bs m, as_plus t = Some (bs, m) -> t = Some (TPlus bs m).
Proof. intros t0 bs m H; destruct t0 as [[]|]; cbn in H; inversion H; subst; auto. Qed.
Lemma as_with_inv : forall t bs m, as_with t = Some (bs, m) -> t = Some (TWith bs m).
Proof. intros t0 bs m H; destruct t0 as [[]|]; cbn in H; inversion H; subst; auto. Qed.
Lemma as_up_inv : forall t f to a, as_up t = Some (f, to, a) -> t = Some (TUp f to a).
Proof. intros t0 f to a H; destruct t0 as [[]|]; cbn in H; inversion H; subst; auto. Qed.
Lemma as_down_inv : forall t f to a, as_down t = Some (f, to, a) -> t = Some (TDown f to a).
Proof. intros t0 f to a H; destruct t0 as [[]|]; cbn in H; inversion H; subst; auto. Qed.

Section Total.
(* ---- the two facts about package types that other properties establish ---- *)
Hypothesis equal_terminates : forall D s t,
  sanity_typedefs D = Ok true -> check_wf D s = true -> check_wf D t = true -> exists b, equal_type D s t = Ok b.
Hypothesis add_missing_total : forall D t,
  sanity_typedefs D = Ok true -> exists t', add_missing D t = Ok t'.

Section Env.
Variable D : tenv.
Hypothesis HD : wf_env D.

Definition oty_ok (t : option sty) : Prop := match t with Some s => wf_type D s | None => False end.
Definition ctx_ok (g : ctx) : Prop := Forall (fun kv => oty_ok (snd kv)) g.

Lemma ctx_ok_nil : ctx_ok [].
Proof. constructor. Qed.
Lemma aremove_ok : forall k g, ctx_ok g -> ctx_ok (aremove k g).
Proof.
  induction 1 as [|[k' v] g Hv Hg IH]; cbn; [constructor|].
  destruct (String.eqb k k'); auto. constructor; auto.
Qed.
Lemma aset_ok : forall k t g, oty_ok t -> ctx_ok g -> ctx_ok (aset k t g).
Proof. intros. constructor; auto. apply aremove_ok; auto. Qed.
Lemma aset_aset_ok : forall k t w g, oty_ok t -> ctx_ok g -> ctx_ok (aset k t (aset k w g)).
Proof.
  intros k t w g Ht Hg. unfold aset. constructor; auto. cbn. rewrite String.eqb_refl.
  apply aremove_ok, aremove_ok; auto.
Qed.
Lemma alookup_ok : forall k g t, ctx_ok g -> alookup k g = Some t -> oty_ok t.
Proof.
  induction 1 as [|[k' v] g Hv Hg IH]; cbn; intros H; [discriminate|].
  destruct (String.eqb k k'); [inversion H; subst; auto | auto].
Qed.

Lemma wp_unfold : forall {B} s (k : option sty -> tcr B), wf_type D s ->
  (forall u, wf_type D u -> is_name u = false -> safe (k (Some u))) -> safe (tbind (unfold_opt D (Some s)) k).
Proof.
  intros B s k Hs Hk. destruct (unfold_wf D s HD Hs) as (u & Hu & Hn & Hw).
  cbn [unfold_opt]. rewrite Hu. cbn [lift tbind]. auto.
Qed.
Lemma wp_unfold_none : forall {B} (k : option sty -> tcr B), safe (k None) -> safe (tbind (unfold_opt D None) k).
Proof. intros. cbn [unfold_opt tbind]. auto. Qed.

Lemma equal_opt_some : forall s t, equal_opt D (Some s) (Some t) = lift (equal_type D s t).
Proof. intros s t. destruct s; reflexivity. Qed.

Lemma wp_equal : forall {B} s t (k : bool -> tcr B), wf_type D s -> wf_type D t -> (forall e, safe (k e)) ->
  safe (tbind (equal_opt D (Some s) (Some t)) k).
Proof. intros B s t k Hs Ht Hk. destruct (equal_terminates D s t HD Hs Ht) as [b Hb]. rewrite equal_opt_some, Hb. cbn [lift tbind]. auto. Qed.

Lemma wp_add_missing : forall {B} t (k : sty -> tcr B), (forall t', safe (k t')) -> safe (tbind (lift (add_missing D t)) k).
Proof. intros B t k Hk. destruct (add_missing_total D t HD) as [t' Ht]. rewrite Ht. cbn [lift tbind]. auto. Qed.

Lemma wp_consume : forall {B} n g (k : option sty * ctx -> tcr B), ctx_ok g ->
  (forall s g', wf_type D s -> ctx_ok g' -> safe (k (Some s, g'))) -> safe (tbind (consume n g) k).
Proof.
  intros B n g k Hg Hk. unfold consume. destruct (is_self n); cbn; auto.
  destruct (alookup (ident n) g) as [t|] eqn:E; cbn; auto.
  pose proof (alookup_ok _ _ _ Hg E) as Ht. destruct t as [s|]; [|contradiction].
  apply Hk; auto. apply aremove_ok; auto.
Qed.
Lemma wp_consume_ms : forall {B} n sh g p (k : option sty * ctx -> tcr B), ctx_ok g -> wf_type D p ->
  (forall s g', wf_type D s -> ctx_ok g' -> safe (k (Some s, g'))) -> safe (tbind (consume_maybe_self n sh g (Some p)) k).
Proof.
  intros B n sh g p k Hg Hp Hk. unfold consume_maybe_self. destruct (is_self n); cbn; auto.
  destruct (match sh with Some s => String.eqb (ident s) (ident n) | None => false end); cbn; auto.
  destruct (alookup (ident n) g) as [t|] eqn:E; cbn; auto.
  pose proof (alookup_ok _ _ _ Hg E) as Ht. destruct t as [s|]; [|contradiction].
  apply Hk; auto. apply aremove_ok; auto.
Qed.

(* the *_opt variants: the name was found with a well-formed type, or not found *)
Definition found_ok (fl : option (option sty)) : Prop :=
  match fl with Some (Some s) => wf_type D s | Some None => False | None => True end.
Lemma consume_opt_ok : forall n g fl g', ctx_ok g -> consume_opt n g = (fl, g') -> found_ok fl /\ ctx_ok g'.
Proof.
  unfold consume_opt. intros n g fl g' Hg H. destruct (is_self n); [inversion H; subst; cbn; auto|].
  destruct (alookup (ident n) g) as [t|] eqn:E; inversion H; subst; cbn; auto.
  pose proof (alookup_ok _ _ _ Hg E) as Ht. destruct t; [|contradiction]. split; auto. apply aremove_ok; auto.
Qed.
Lemma consume_ms_opt_ok : forall n sh g p fl g', ctx_ok g -> wf_type D p ->
  consume_maybe_self_opt n sh g (Some p) = (fl, g') -> found_ok fl /\ ctx_ok g'.
Proof.
  unfold consume_maybe_self_opt. intros n sh g p fl g' Hg Hp H. destruct (is_self n); [inversion H; subst; cbn; auto|].
  destruct (match sh with Some s => String.eqb (ident s) (ident n) | None => false end); [inversion H; subst; cbn; auto|].
  destruct (alookup (ident n) g) as [t|] eqn:E; inversion H; subst; cbn; auto.
  pose proof (alookup_ok _ _ _ Hg E) as Ht. destruct t; [|contradiction]. split; auto. apply aremove_ok; auto.
Qed.

Lemma wp_need : forall {B} s w (k : sty -> tcr B), safe (k s) -> safe (tbind (need (Some s) w) k).
Proof. intros. cbn. auto. Qed.

Lemma indep_one_safe : forall l r, wf_type D l -> wf_type D r -> safe (indep_one (Some l) (Some r)).
Proof.
  intros l r Hl Hr. unfold indep_one. cbn [need tbind]. apply wp_down.
  - eapply wf_proper; eauto.
  - eapply wf_proper; eauto.
  - intros []; cbn; auto.
Qed.
Lemma indep_all_safe : forall ls r, Forall oty_ok ls -> wf_type D r -> safe (indep_all ls (Some r)).
Proof.
  induction 1 as [|l ls Hl Hls IH]; cbn; intros Hr; auto.
  destruct l as [l|]; [|contradiction].
  apply safe_bind_any; [apply indep_one_safe; auto | intros; auto].
Qed.

Lemma ctx_ok_snd : forall g, ctx_ok g -> Forall oty_ok (map snd g).
Proof. induction 1; cbn; constructor; auto. Qed.

Lemma split_gamma_ok : forall ns g acc, ctx_ok g -> ctx_ok acc ->
  safe (split_gamma D g ns acc) /\ (forall gl gr, split_gamma D g ns acc = TOk (gl, gr) -> ctx_ok gl /\ ctx_ok gr).
Proof.
  induction ns as [|n ns IH]; cbn [split_gamma]; intros g acc Hg Ha.
  - split; [exact I|]. intros gl gr H. inversion H; subst; auto.
  - destruct (is_self n); [apply IH; auto|].
    destruct (consume_opt n g) as [fl g'] eqn:E.
    destruct (consume_opt_ok _ _ _ _ Hg E) as [Hfl Hg'].
    destruct fl as [[s|]|]; cbn in Hfl; try contradiction.
    + destruct (unfold_wf D s HD Hfl) as (u & Hu & Hn & Hw). cbn [unfold_opt]. rewrite Hu. cbn [lift tbind].
      apply IH; auto. apply aset_ok; auto.
    + split; [exact I|]. intros; discriminate.
Qed.

(* ---------- the syntax-directed part ---------- *)
Section Forms.
Variable Sg : sigma.
Definition sig_ok (sg : fsig) : Prop := oty_ok (fs_type sg) /\ Forall (fun p => oty_ok (nty p)) (fs_params sg).
Definition sigma_ok : Prop := forall fn sg, sig_lookup Sg fn = Some sg -> sig_ok sg.
Hypothesis HSg : forall fn sg, sig_lookup Sg fn = Some sg -> sig_ok sg.

Ltac ok := cbn [oty_ok snd]; eauto using aset_ok, aremove_ok, aset_aset_ok, ctx_ok_nil.

Ltac learn :=
  repeat match goal with
  | H : as_tensor _ = Some _ |- _ => apply as_tensor_inv in H; inversion H; subst; clear H
  | H : as_lolli _ = Some _ |- _ => apply as_lolli_inv in H; inversion H; subst; clear H
  | H : as_plus _ = Some _ |- _ => apply as_plus_inv in H; inversion H; subst; clear H
  | H : as_with _ = Some _ |- _ => apply as_with_inv in H; inversion H; subst; clear H
  | H : as_up _ = Some _ |- _ => apply as_up_inv in H; inversion H; subst; clear H
  | H : as_down _ = Some _ |- _ => apply as_down_inv in H; inversion H; subst; clear H
  | H : wf_type D (TTensor _ _ _) |- _ => destruct (wf_tensor _ _ _ _ H); clear H
  | H : wf_type D (TLolli _ _ _) |- _ => destruct (wf_lolli _ _ _ _ H); clear H
  | H : wf_type D (TPlus _ _) |- _ => apply wf_plus in H
  | H : wf_type D (TWith _ _) |- _ => apply wf_with in H
  | H : wf_type D (TUp _ _ _) |- _ => destruct (wf_up _ _ _ _ H) as (? & ? & ?); clear H
  | H : wf_type D (TDown _ _ _) |- _ => destruct (wf_down _ _ _ _ H) as (? & ? & ?); clear H
  end.

Ltac pols := repeat constructor; cbn; auto.

Ltac step :=
  cbv beta iota;
  first
  [ exact I
  | match goal with
    | |- safe (tbind (TOk _) _) => cbn [tbind]
    | |- safe (tbind (tbind _ _) _) => rewrite tbind_assoc
    | |- safe (tbind (match nty ?x with _ => _ end) _) => destruct (nty x) eqn:?
    | |- safe (let _ := _ in _) => cbv zeta
    | |- safe (tbind (guard _ _) _) => apply wp_guard; intro
    | |- safe (tbind (linear_gamma _) _) => apply wp_linear
    | |- safe (tbind (unfold_opt D None) _) => apply wp_unfold_none
    | |- safe (tbind (unfold_opt D (Some _)) _) => apply wp_unfold; [ok | intros ? ? ?]
    | |- safe (tbind (unfold_opt D (match ?fl with _ => _ end)) _) =>
        destruct fl as [[?|]|]; cbn [found_ok] in *; try contradiction
    | |- safe (tbind (equal_opt D (Some _) (Some _)) _) => apply wp_equal; [ok | ok | intro]
    | |- safe (tbind (check_pols _) _) => apply wp_check_pols; [pols | ]
    | |- safe (tbind (consume _ _) _) => apply wp_consume; [ok | intros ? ? ? ?]
    | |- safe (tbind (consume_maybe_self _ _ _ (Some _)) _) => apply wp_consume_ms; [ok | ok | intros ? ? ? ?]
    | |- safe (tbind (need (Some _) _) _) => apply wp_need
    | |- safe (tbind (lift (down_o _ _)) _) => apply wp_down; [auto | auto | intro]
    | |- safe (tbind (lift (up_o _ _)) _) => apply wp_up; [auto | auto | intro]
    | |- safe (tbind (lift (polarity_of _)) _) => apply wp_polarity; [auto | intro]
    | |- safe (tbind (lift (add_missing D _)) _) => apply wp_add_missing; intro
    | |- safe (tbind (if ?e then TOk tt else _) _) => destruct e
    | |- safe (tbind (split_gamma D ?g ?ns []) _) =>
        let Hs := fresh "Hs" in let Hr := fresh "Hr" in let E := fresh "E" in
        destruct (split_gamma_ok ns g [] ltac:(ok) ctx_ok_nil) as [Hs Hr];
        apply safe_bind; [exact Hs | intros [? ?] E; destruct (Hr _ _ E); clear Hs Hr]
    | |- safe (tbind (indep_all (map snd _) (Some _)) _) =>
        apply safe_bind_any; [apply indep_all_safe; [apply ctx_ok_snd; ok | ok] | intro]
    | |- safe (tbind (indep_one (Some _) (Some _)) _) =>
        apply safe_bind_any; [apply indep_one_safe; ok | intro]
    | |- safe (match consume_opt ?n ?g with _ => _ end) =>
        let E := fresh "E" in destruct (consume_opt n g) as [? ?] eqn:E; apply consume_opt_ok in E; [destruct E | ok]
    | |- safe (match consume_maybe_self_opt ?n ?sh ?g (Some ?p) with _ => _ end) =>
        let E := fresh "E" in destruct (consume_maybe_self_opt n sh g (Some p)) as [? ?] eqn:E;
        apply consume_ms_opt_ok in E; [destruct E | ok | ok]
    | |- safe (match as_tensor ?t with _ => _ end) => destruct (as_tensor t) as [[[? ?] ?]|] eqn:?; learn
    | |- safe (match as_lolli ?t with _ => _ end) => destruct (as_lolli t) as [[[? ?] ?]|] eqn:?; learn
    | |- safe (match as_plus ?t with _ => _ end) => destruct (as_plus t) as [[? ?]|] eqn:?; learn
    | |- safe (match as_with ?t with _ => _ end) => destruct (as_with t) as [[? ?]|] eqn:?; learn
    | |- safe (match as_up ?t with _ => _ end) => destruct (as_up t) as [[[? ?] ?]|] eqn:?; learn
    | |- safe (match as_down ?t with _ => _ end) => destruct (as_down t) as [[[? ?] ?]|] eqn:?; learn
    | H : brs_wf D ?bs |- safe (match find_br ?l ?bs with _ => _ end) =>
        let E := fresh "E" in destruct (find_br l bs) eqn:E; [apply H in E|]
    | |- safe (if ?b then _ else _) => destruct b eqn:?
    | |- safe (match nty ?x with _ => _ end) => destruct (nty x) eqn:?
    end ].

Lemma tc_args_safe : forall args params g, ctx_ok g -> Forall (fun p => oty_ok (nty p)) params ->
  (length args <= length params)%nat -> safe (tc_args D g args params).
Proof.
  induction args as [|a args IH]; intros params g Hg Hp Hlen; [destruct params; exact I|].
  destruct params as [|p params]; [cbn in Hlen; lia|].
  inversion Hp as [|? ? Hp1 Hp2]; subst. cbn in Hlen.
  cbn [tc_args]. destruct (nty p) as [pt|] eqn:Ept; [|contradiction]. cbn [oty_ok] in Hp1.
  repeat step.
  apply safe_bind_any; [apply IH; auto; lia | intros [? ?]; exact I].
Qed.

Definition P_form (f : form) : Prop :=
  forall g shadow p, ctx_ok g -> wf_type D p -> safe (tc_form D Sg g shadow (Some p) f).
Definition P_brs (b : branches) : Prop :=
  (forall g bs seen, ctx_ok g -> brs_wf D bs -> safe (tc_branches_provider D Sg g bs seen b)) /\
  (forall g shadow p bs seen, ctx_ok g -> wf_type D p -> brs_wf D bs ->
     safe (tc_branches_client D Sg g shadow (Some p) bs seen b)).

Ltac use_ih :=
  match goal with
  | IH : P_form ?k |- safe (tbind (tc_form D Sg _ _ (Some _) ?k) _) =>
      apply safe_bind_any; [apply IH; [ok | ok] | intro]
  | IH : P_brs ?b |- safe (tbind (tc_branches_provider D Sg _ _ _ ?b) _) =>
      apply safe_bind_any; [apply (proj1 IH); [ok | ok] | intros [? ?]]
  | IH : P_brs ?b |- safe (tbind (tc_branches_client D Sg _ _ (Some _) _ _ ?b) _) =>
      apply safe_bind_any; [apply (proj2 IH); [ok | ok | ok] | intros [? ?]]
  end.
Ltac go := repeat first [step | use_ih].

Lemma tc_call_safe : forall fn args pt, P_form (FCall fn args pt).
Proof.
  intros fn args pt g shadow p Hg Hp. cbn [tc_form].
  destruct (sig_lookup Sg fn) as [sg|] eqn:Esg; [|exact I].
  destruct (HSg _ _ Esg) as [Ht Hps]. destruct (fs_type sg) as [ft|] eqn:Eft; [|contradiction]. cbn [oty_ok] in Ht.
  destruct (S (length (fs_params sg)) =? length args)%nat eqn:E1.
  - apply Nat.eqb_eq in E1. destruct args as [|a0 rest]; [exact I|]. cbn in E1.
    go. apply safe_bind_any; [apply tc_args_safe; auto; lia | intros [? ?]; go].
  - destruct (length (fs_params sg) =? length args)%nat eqn:E2; [|exact I].
    apply Nat.eqb_eq in E2.
    go. apply safe_bind_any; [apply tc_args_safe; auto; lia | intros [? ?]; go].
Qed.

Lemma tc_safe : (forall f, P_form f) /\ (forall b, P_brs b).
Proof.
  apply form_branches_ind.
  - (* send *) intros to pay cont g shadow p Hg Hp. cbn [tc_form]. go.
  - (* recv *) intros pay cont from k IHk g shadow p Hg Hp. cbn [tc_form]. go.
  - (* select *) intros to l cont g shadow p Hg Hp. cbn [tc_form]. go.
  - (* case *) intros from bs IHb g shadow p Hg Hp. cbn [tc_form].
    fold (tc_branches_provider D Sg) (tc_branches_client D Sg). go.
  - (* new *) intros x body IHbody k IHk g shadow p Hg Hp. cbn [tc_form].
    repeat (cbv zeta; match goal with |- safe (tbind (guard _ _) _) => apply wp_guard; intro end).
    destruct (ctx_has g (ident x)) eqn:Er.
    all: destruct body;
      try (match goal with |- context [sig_lookup Sg ?fn] =>
             step; destruct (sig_lookup Sg fn) as [sg|] eqn:Esg; [|exact I];
             destruct (HSg _ _ Esg) as [Ht Hps]; destruct (fs_type sg) as [ft|] eqn:Eft; [|contradiction];
             cbn [oty_ok] in Ht end);
      go.
  - (* close *) intros c g shadow p Hg Hp. cbn [tc_form]. go.
  - (* wait *) intros c k IHk g shadow p Hg Hp. cbn [tc_form]. go.
  - (* fwd *) intros to from d g shadow p Hg Hp. cbn [tc_form]. go.
  - (* split *) intros x y from k IHk g shadow p Hg Hp. cbn [tc_form]. go.
  - (* call *) apply tc_call_safe.
  - (* cast *) intros to cont g shadow p Hg Hp. cbn [tc_form]. go.
  - (* shift *) intros x from k IHk g shadow p Hg Hp. cbn [tc_form]. go.
  - (* drop *) intros c k IHk g shadow p Hg Hp. cbn [tc_form]. go.
  - (* print *) intros l k IHk g shadow p Hg Hp. cbn [tc_form]. go.
  - (* BrNil *) split; intros; exact I.
  - (* BrCons *) intros l pay k IHk r IHr. split.
    + intros g bs seen Hg Hbs. cbn [tc_branches_provider].
      fold (tc_form D Sg) (tc_branches_provider D Sg). go.
    + intros g shadow p bs seen Hg Hp Hbs. cbn [tc_branches_client].
      fold (tc_form D Sg) (tc_branches_client D Sg). go.
Qed.

Theorem tc_form_safe : forall f g shadow p, ctx_ok g -> wf_type D p -> safe (tc_form D Sg g shadow (Some p) f).
Proof. intro f. apply (proj1 tc_safe f). Qed.
End Forms.

(* ---------- the preliminary checks establish the invariants ---------- *)
Definition has_ty (n : name) : bool := match nty n with Some _ => true | None => false end.
Definition names_ok (ns : list name) : Prop := Forall (fun n => oty_ok (nty n)) ns.
Definition fun_ok (f : fundef) : Prop := oty_ok (fn_type f) /\ names_ok (fn_params f).
Definition proc_ok (p : procdef) : Prop := oty_ok (pr_type p).

Lemma add_missing_names_spec : forall ns, forallb has_ty ns = true ->
  exists ns', add_missing_names D ns = TOk ns' /\ forallb has_ty ns' = true.
Proof.
  induction ns as [|n ns IH]; cbn [add_missing_names forallb]; intros H.
  - exists []. split; reflexivity.
  - apply andb_prop in H. destruct H as [Hn Hns]. destruct (IH Hns) as (ns' & E & Hns').
    unfold has_ty in Hn. destruct (nty n) as [t|] eqn:Et; [|discriminate].
    destruct (add_missing_total D t HD) as [t' Ht']. cbn [add_missing_opt]. rewrite Ht'. cbn [lift tbind].
    rewrite E. cbn [tbind]. eexists. split; [reflexivity|]. cbn. auto.
Qed.

Lemma types_of_wf : forall ns, forallb has_ty ns = true -> sanity_types D (types_of ns) = true -> names_ok ns.
Proof.
  unfold sanity_types. induction ns as [|n ns IH]; cbn [forallb types_of flat_map]; intros H Hs; [constructor|].
  apply andb_prop in H. destruct H as [Hn Hns]. unfold has_ty in Hn.
  destruct (nty n) as [t|] eqn:Et; [|discriminate]. cbn [app forallb] in Hs.
  apply andb_prop in Hs. destruct Hs as [Ht Hs].
  constructor; [rewrite Et; exact Ht | apply IH; auto].
Qed.

Lemma prelim_funs_spec : forall fs seen,
  safe (prelim_funs D fs seen) /\ (forall fs', prelim_funs D fs seen = TOk fs' -> Forall fun_ok fs').
Proof.
  induction fs as [|f fs IH]; intros seen; cbn [prelim_funs].
  - split; [exact I|]. intros fs' H. inversion H; subst. constructor.
  - destruct (negb (str_mem (fn_name f) seen)); cbn [guard tbind]; [|split; [exact I | discriminate]].
    destruct (fn_type f) as [ft|] eqn:Eft; cbn [guard tbind]; [|split; [exact I | discriminate]].
    fold has_ty. fold (forallb has_ty (fn_params f)).
    destruct (forallb has_ty (fn_params f)) eqn:Eps; cbn [guard tbind]; [|split; [exact I | discriminate]].
    destruct (all_names_unique (fn_params f)); cbn [guard tbind]; [|split; [exact I | discriminate]].
    destruct (add_missing_total D ft HD) as [ft' Hft']. cbn [add_missing_opt]. rewrite Hft'. cbn [lift tbind].
    destruct (add_missing_names_spec _ Eps) as (ps & Eps' & Hps). rewrite Eps'. cbn [tbind].
    destruct (sanity_types D ([ft'] ++ types_of ps)) eqn:Es; cbn [guard tbind]; [|split; [exact I | discriminate]].
    unfold sanity_types in Es. rewrite forallb_app in Es. apply andb_prop in Es. destruct Es as [Es1 Es2].
    cbn [forallb] in Es1. apply andb_prop in Es1. destruct Es1 as [Hwft _].
    pose proof (types_of_wf _ Hps Es2) as Hok.
    assert (Hind : safe (indep_all (map nty ps) (Some ft'))).
    { apply indep_all_safe; auto. clear - Hok. induction Hok; cbn; constructor; auto. }
    destruct (indep_all (map nty ps) (Some ft')) as [[]| | |] eqn:Ei; cbn [tbind]; try (split; [exact I | discriminate]);
      try contradiction.
    destruct (IH (fn_name f :: seen)) as [Hs Hr].
    destruct (prelim_funs D fs (fn_name f :: seen)) as [r'| | |]; cbn [tbind]; try (split; [exact I | discriminate]);
      try contradiction.
    split; [exact I|]. intros fs' H. inversion H; subst. constructor; auto.
    split; cbn; auto.
Qed.

Lemma prelim_procs_types_spec : forall ps assumed procsn,
  safe (prelim_procs_types D ps assumed procsn) /\
  (forall ps' a', prelim_procs_types D ps assumed procsn = TOk (ps', a') -> Forall proc_ok ps').
Proof.
  induction ps as [|p ps IH]; intros assumed procsn; cbn [prelim_procs_types].
  - split; [exact I|]. intros ps' a' H. inversion H; subst. constructor.
  - destruct (pr_type p) as [pt|] eqn:Ept; cbn [guard tbind]; [|split; [exact I | discriminate]].
    destruct (add_missing_total D pt HD) as [pt' Hpt']. cbn [add_missing_opt]. rewrite Hpt'. cbn [lift tbind].
    destruct (sanity_types D ([pt'])) eqn:Es; cbn [guard tbind]; [|split; [exact I | discriminate]].
    unfold sanity_types in Es. cbn [forallb] in Es. apply andb_prop in Es. destruct Es as [Hw _].
    match goal with |- context [guard ?b ?w] => destruct b end; cbn [guard tbind]; [|split; [exact I | discriminate]].
    destruct (use_free_names _ assumed procsn) as [[a1 p1]| | |] eqn:Eu; cbn [tbind];
      try (split; [exact I | discriminate]).
    + destruct (IH a1 p1) as [Hs Hr].
      destruct (prelim_procs_types D ps a1 p1) as [[r' a'']| | |]; cbn [tbind];
        try (split; [exact I | discriminate]); try contradiction.
      split; [exact I|]. intros ps' a' H. inversion H; subst. constructor; [exact Hw | eapply Hr; eauto].
    + exfalso. clear - Eu. revert assumed procsn Eu.
      induction (names_first_only (free_names (pr_body p)) (pr_providers p)) as [|fn r IHr]; cbn [use_free_names]; intros a q E;
        [discriminate|].
      destruct (alookup (ident fn) a) as [[]|]; try discriminate; eauto.
      destruct (alookup (ident fn) q) as [[]|]; try discriminate; eauto.
    + exfalso. clear - Eu. revert assumed procsn Eu.
      induction (names_first_only (free_names (pr_body p)) (pr_providers p)) as [|fn r IHr]; cbn [use_free_names]; intros a q E;
        [discriminate|].
      destruct (alookup (ident fn) a) as [[]|]; try discriminate; eauto.
      destruct (alookup (ident fn) q) as [[]|]; try discriminate; eauto.
Qed.

Lemma prelim_procs_spec : forall ps assumed,
  safe (prelim_procs D ps assumed) /\
  (forall ps' a', prelim_procs D ps assumed = TOk (ps', a') -> Forall proc_ok ps' /\ names_ok a').
Proof.
  intros ps assumed. unfold prelim_procs.
  destruct (all_names_unique assumed); cbn [guard tbind]; [|split; [exact I | discriminate]].
  fold has_ty. fold (forallb has_ty assumed).
  destruct (forallb has_ty assumed) eqn:Ea; cbn [guard tbind]; [|split; [exact I | discriminate]].
  destruct (add_missing_names_spec _ Ea) as (as' & Eas & Has). rewrite Eas. cbn [tbind].
  destruct (sanity_types D (types_of as')) eqn:Es; cbn [guard tbind]; [|split; [exact I | discriminate]].
  pose proof (types_of_wf _ Has Es) as Hok.
  destruct (providers_unique ps []); cbn [guard tbind]; [|split; [exact I | discriminate]].
  match goal with |- context [guard ?b ?w] => destruct b end; cbn [guard tbind]; [|split; [exact I | discriminate]].
  match goal with |- context [prelim_procs_types D ps ?a ?q] =>
    destruct (prelim_procs_types_spec ps a q) as [Hs Hr]; destruct (prelim_procs_types D ps a q) as [[ps1 rem]| | |] end;
    cbn [tbind]; try (split; [exact I | discriminate]); try contradiction.
  destruct (negb (existsb snd rem)); cbn [guard tbind]; [|split; [exact I | discriminate]].
  split; [exact I|]. intros ps' a' H. inversion H; subst. split; auto. eapply Hr; eauto.
Qed.

Lemma sig_lookup_in : forall Sg fn sg, sig_lookup Sg fn = Some sg -> In sg Sg.
Proof.
  induction Sg as [|s Sg IH]; cbn; intros fn sg H; [discriminate|].
  destruct (sig_lookup Sg fn) eqn:E.
  - inversion H; subst. right. eauto.
  - destruct (String.eqb fn (fs_name s)); [inversion H; subst; auto | discriminate].
Qed.

Lemma make_sigma_spec : forall fs, Forall fun_ok fs ->
  exists Sg, make_sigma D fs = TOk Sg /\ Forall sig_ok Sg.
Proof.
  induction 1 as [|f fs [Hft Hps] Hfs IH]; cbn [make_sigma].
  - exists []. split; [reflexivity | constructor].
  - destruct IH as (Sg & E & HSg). destruct (fn_type f) as [ft|]; [|contradiction]. cbn [oty_ok] in Hft.
    destruct (unfold_wf D ft HD Hft) as (u & Hu & Hn & Hw). cbn [unfold_opt]. rewrite Hu. cbn [lift tbind].
    rewrite E. cbn [tbind]. eexists. split; [reflexivity|]. constructor; auto. split; cbn; auto.
Qed.

Lemma make_ctx_ok : forall ns, names_ok ns -> ctx_ok (make_ctx ns).
Proof.
  unfold make_ctx. intros ns H. assert (Hacc : ctx_ok []) by constructor. revert Hacc. generalize (@nil (string * option sty)).
  induction H as [|n ns Hn Hns IH]; cbn [fold_left]; intros acc Hacc; auto.
  apply IH. apply aset_ok; auto.
Qed.

Lemma tc_funs_safe : forall Sg fs, sigma_ok Sg -> Forall fun_ok fs -> safe (tc_funs D Sg fs).
Proof.
  intros Sg fs HSg. induction 1 as [|f fs [Hft Hps] Hfs IH]; cbn [tc_funs]; [exact I|].
  destruct (fn_type f) as [ft|]; [|contradiction]. cbn [oty_ok] in Hft.
  apply safe_bind_any; [apply tc_form_safe; auto; apply make_ctx_ok; auto | intro].
  apply safe_bind_any; [exact IH | intro; exact I].
Qed.

(* getFreeNameTypes: every name it hands out carries the (well-formed) type of its declaration *)
Definition vals_ok (m : list (string * name)) : Prop := Forall (fun kv => oty_ok (nty (snd kv))) m.
Lemma vals_aremove : forall k m, vals_ok m -> vals_ok (aremove k m).
Proof.
  induction 1 as [|[k' v] m Hv Hm IH]; cbn; [constructor|].
  destruct (String.eqb k k'); auto. constructor; auto.
Qed.
Lemma vals_alookup : forall k m v, vals_ok m -> alookup k m = Some v -> oty_ok (nty v).
Proof.
  induction 1 as [|[k' v'] m Hv Hm IH]; cbn; intros H; [discriminate|].
  destruct (String.eqb k k'); [inversion H; subst; auto | auto].
Qed.

Lemma available_names_ok : forall ps assumed, Forall proc_ok ps -> names_ok assumed -> vals_ok (available_names ps assumed).
Proof.
  intros ps assumed Hps Has. unfold available_names.
  assert (H1 : vals_ok (fold_left (fun m kv => aset (fst kv) (snd kv) m)
                (flat_map (fun p => map (fun n => (ident n, set_nty n (pr_type p))) (pr_providers p)) ps) [])).
  { assert (Hl : Forall (fun kv : string * name => oty_ok (nty (snd kv)))
                   (flat_map (fun p => map (fun n => (ident n, set_nty n (pr_type p))) (pr_providers p)) ps)).
    { clear - Hps. induction Hps as [|p ps Hp Hps IH]; cbn [flat_map]; [constructor|].
      apply Forall_app. split; auto. clear - Hp. induction (pr_providers p); cbn; constructor; auto. }
    assert (Hacc : vals_ok []) by constructor. revert Hacc. generalize (@nil (string * name)).
    induction Hl as [|kv l Hkv Hl IH]; cbn [fold_left]; intros acc Hacc; auto.
    apply IH. constructor; auto. apply vals_aremove; auto. }
  revert H1. generalize (fold_left (fun m kv => aset (fst kv) (snd kv) m)
                (flat_map (fun p => map (fun n => (ident n, set_nty n (pr_type p))) (pr_providers p)) ps) []).
  induction Has as [|a assumed Ha Has IH]; cbn [fold_left]; intros acc Hacc; auto.
  apply IH. constructor; auto. apply vals_aremove; auto.
Qed.

Lemma free_name_types_ok : forall p ps assumed, Forall proc_ok ps -> names_ok assumed -> names_ok (free_name_types p ps assumed).
Proof.
  intros p ps assumed Hps Has. unfold free_name_types.
  pose proof (available_names_ok _ _ Hps Has) as Hav.
  induction (names_first_only (free_names (pr_body p)) (pr_providers p)) as [|fn r IH]; cbn [flat_map]; [constructor|].
  destruct (alookup (ident fn) (available_names ps assumed)) as [n|] eqn:E; cbn [app]; auto.
  constructor; auto. eapply vals_alookup; eauto.
Qed.

Lemma tc_procs_safe : forall Sg all assumed ps, sigma_ok Sg -> Forall proc_ok all -> names_ok assumed ->
  Forall proc_ok ps -> safe (tc_procs D Sg all assumed ps).
Proof.
  intros Sg all assumed ps HSg Hall Has. induction 1 as [|p ps Hp Hps IH]; cbn [tc_procs]; [exact I|].
  unfold proc_ok in Hp. destruct (pr_type p) as [pt|]; [|contradiction]. cbn [oty_ok] in Hp.
  apply safe_bind_any; [apply tc_form_safe; auto; apply make_ctx_ok, free_name_types_ok; auto | intro].
  apply safe_bind_any; [exact IH | intro; exact I].
Qed.
End Env.

(* ---------- typecheckFunctionsAndProcesses ---------- *)
Theorem tc_program_safe : forall p, safe (tc_program p).
Proof.
  intro p. unfold tc_program.
  destruct (sanity_typedefs_total (p_types p)) as [b Hb]. rewrite Hb. cbn [lift tbind].
  destruct b; cbn [guard tbind]; [|exact I].
  assert (HD : wf_env (p_types p)) by exact Hb.
  destruct (prelim_funs_spec _ HD (p_funs p) []) as [Hs1 Hr1].
  apply safe_bind; [exact Hs1 | intros fs Efs]. pose proof (Hr1 _ Efs) as Hfs.
  destruct (prelim_procs_spec _ HD (p_procs p) (p_assumed p)) as [Hs2 Hr2].
  apply safe_bind; [exact Hs2 | intros [ps assumed] Eps]. destruct (Hr2 _ _ Eps) as [Hps Has].
  destruct (make_sigma_spec _ HD fs Hfs) as (Sg & ESg & HSg). rewrite ESg. cbn [tbind].
  assert (HSg' : sigma_ok (p_types p) Sg).
  { intros fn sg H. rewrite Forall_forall in HSg. apply HSg. eapply sig_lookup_in; eauto. }
  apply safe_bind_any; [apply tc_funs_safe; auto | intro].
  apply safe_bind_any; [apply tc_procs_safe; auto | intro; exact I].
Qed.

(* C09 (model half): for EVERY program, process.Typecheck's computation yields a verdict:
   it neither panics internally nor diverges *)
Theorem tc_total_all : forall p, (forall w, typecheck p <> RejectInternal w) /\ (forall w, typecheck p <> Diverge w).
Proof.
  intro p. pose proof (tc_program_safe p) as H. unfold typecheck.
  destruct (tc_program p); cbn in H; split; intros w E; try discriminate; contradiction.
Qed.

(* the statement of DESIGN.md 6/C09: for every program the parser produces *)
Definition parsed (p : program) : Prop := exists s, parse_string s = POk p.
Lemma parse_string_parsed : forall s p, parse_string s = POk p -> parsed p.
Proof. intros s p H. exists s. exact H. Qed.
Theorem tc_total : forall p, parsed p ->
  (forall w, typecheck p <> RejectInternal w) /\ (forall w, typecheck p <> Diverge w).
Proof. intros p _. apply tc_total_all. Qed.
End Total.
