(* proofs/RenameSim.v — C14 (b): the identifiers of INITIALISED names are irrelevant at run time.
   `nn` erases the identifier of every name that carries a channel; `cfg_sim c c'` := the two
   configurations are equal after erasure (they differ at most in the `ident` fields of initialised
   names, in process bodies, provider lists and buffered messages).  `step_sim`: related
   configurations take related steps under every choice, in every mode — so an identifier that a
   caller / client / earlier binder chose for a channel can never clash with, capture or leak into a
   binder of the process that now holds the channel (the content of the fixes F12, F24, F25: names
   created at run time by a receive / case / shift on self have the identifier "", and Name.Equal /
   Name.Substitute compare initialised names by channel only).
   The one place where the identifier of an initialised name could still leak is
   `Name.Substitute(old, new)` with an initialised `old` and an uninitialised `new` whose identifier
   is "" (the result inherits the old identifier): the interpreter only substitutes binders,
   parameters and explicit provider names (uninitialised) or substitutes BY initialised names, which
   is the invariant `wf_cfg` (binders are uninitialised), proved to be preserved by every step. *)
From stdpp Require Import pmap gmap strings.
Require Import Grits.Base Grits.ModeDefs Grits.Modes Grits.STypes Grits.Forms Grits.Subst Grits.TcDeps Grits.Expand.
Require Import Grits.Runtime Grits.proofs.RenameRun.

(* ---------------------------------------------------------------- erasure *)
Definition nn (n : name) : name :=
  if initialized n then mkName "" (is_self n) (pol n) (nty n) (chan n) else n.

Fixpoint nf (f : form) : form :=
  match f with
  | FSend a b c => FSend (nn a) (nn b) (nn c)
  | FRecv p c fr k => FRecv (nn p) (nn c) (nn fr) (nf k)
  | FSel a l c => FSel (nn a) l (nn c)
  | FCase fr bs => FCase (nn fr) (nbs bs)
  | FNew x b k => FNew (nn x) (nf b) (nf k)
  | FClose c => FClose (nn c)
  | FWait c k => FWait (nn c) (nf k)
  | FFwd a b d => FFwd (nn a) (nn b) d
  | FSplit x y fr k => FSplit (nn x) (nn y) (nn fr) (nf k)
  | FCall fn args pt => FCall fn (map nn args) pt
  | FCast a c => FCast (nn a) (nn c)
  | FShift x fr k => FShift (nn x) (nn fr) (nf k)
  | FDrop c k => FDrop (nn c) (nf k)
  | FPrint l k => FPrint l (nf k)
  end
with nbs (b : branches) : branches :=
  match b with
  | BrNil => BrNil
  | BrCons l p k rest => BrCons l (nn p) (nf k) (nbs rest)
  end.

Lemma nn_initialized n : initialized (nn n) = initialized n.
Proof. unfold nn. destruct (initialized n) eqn:E; [|exact E]. unfold initialized in *. cbn. exact E. Qed.
Lemma nn_chan n : chan (nn n) = chan n.
Proof. unfold nn. destruct (initialized n); reflexivity. Qed.
Lemma nn_is_self n : is_self (nn n) = is_self n.
Proof. unfold nn. destruct (initialized n); reflexivity. Qed.
Lemma nn_pol n : pol (nn n) = pol n.
Proof. unfold nn. destruct (initialized n); reflexivity. Qed.
Lemma nn_nty n : nty (nn n) = nty n.
Proof. unfold nn. destruct (initialized n); reflexivity. Qed.
Lemma nn_ident_uninit n : initialized n = false -> nn n = n.
Proof. unfold nn. intros ->. reflexivity. Qed.
Lemma nn_idem n : nn (nn n) = nn n.
Proof. unfold nn at 1. rewrite nn_initialized. destruct (initialized n) eqn:E; [|reflexivity].
  unfold nn. rewrite E. reflexivity. Qed.

Lemma name_equal_nn a b : name_equal (nn a) (nn b) = name_equal a b.
Proof.
  unfold name_equal. rewrite !nn_initialized, !nn_chan.
  destruct (initialized a) eqn:Ea, (initialized b) eqn:Eb; cbn [andb]; try reflexivity.
  - now rewrite !Bool.andb_false_r.
  - now rewrite !Bool.andb_false_r.
  - now rewrite !nn_ident_uninit.
Qed.

(* the side condition under which Name.Substitute is insensitive to identifiers of initialised names *)
Definition sc (old new : name) : Prop := initialized old = false \/ initialized new = true \/ ident new <> "".

Lemma name_subst_nn old new n : sc old new -> nn (name_subst (nn old) (nn new) (nn n)) = nn (name_subst old new n).
Proof.
  intros Hsc. destruct old as [oi os op ot oc], new as [wi ws wp wt wc], n as [ni ns np nt nc].
  unfold sc, initialized in Hsc. cbn [chan ident] in Hsc.
  destruct oc as [oc|], wc as [wc|], nc as [nc|]; unfold name_subst, nn, initialized; cbn [chan ident is_self pol nty andb negb chan_eqb];
    repeat match goal with
    | |- context [if ?c then _ else _] => let E := fresh "E" in destruct c eqn:E; cbn [chan ident is_self pol nty andb negb chan_eqb] in *
    end;
    try reflexivity; try discriminate.
  all: destruct Hsc as [H|[H|H]]; try discriminate H;
    repeat match goal with E : String.eqb _ "" = true |- _ => apply String.eqb_eq in E end; try contradiction.
Qed.

Lemma nf_idem : (forall f, nf (nf f) = nf f) /\ (forall b, nbs (nbs b) = nbs b).
Proof.
  apply form_branches_ind; intros; cbn [nf nbs]; rewrite ?nn_idem, ?H, ?H0; try reflexivity.
  f_equal. rewrite map_map. apply map_ext. intros; apply nn_idem.
Qed.

Lemma subst_nn old new : sc old new ->
  (forall f, nf (subst (nn old) (nn new) (nf f)) = nf (subst old new f)) /\
  (forall b, nbs (subst_brs (nn old) (nn new) (nbs b)) = nbs (subst_brs old new b)).
Proof.
  intros Hsc.
  apply form_branches_ind; intros; cbn [subst subst_brs nf nbs];
    rewrite ?(name_subst_nn _ _ _ Hsc), ?name_equal_nn, ?nn_idem;
    repeat match goal with |- context [if ?c then _ else _] => destruct c end;
    rewrite ?H, ?H0, ?(proj1 nf_idem), ?(proj2 nf_idem); try reflexivity.
  f_equal. rewrite !map_map. apply map_ext. intros a. apply (name_subst_nn _ _ _ Hsc).
Qed.
Lemma subst_nn1 old new f : sc old new -> nf (subst (nn old) (nn new) (nf f)) = nf (subst old new f).
Proof. intros H. apply (subst_nn old new H). Qed.

(* ---------------------------------------------------------------- configurations up to erasure *)
Definition nm (m : msg) : msg := Msg (m_rule m) (nn (m_c1 m)) (nn (m_c2 m)) (map nn (m_provs m)) (m_label m).
Definition np (p : proc) : proc := Proc (map nn (pr_provs p)) (nf (pr_body0 p)) (pr_next p).
Definition nch (st : chan_st) : chan_st := Chan (option_map nm (ch_buf st)) (ch_closed st).
Definition ncfg (c : config) : config := Cfg (np <$> procs c) (nch <$> chans c) (out c).
Definition nspawn (s : spawn) : spawn := Spawn (map nn (sp_provs s)) (nf (sp_body s)).
Definition nafter (a : after) : after := match a with Continue p => Continue (np p) | Finish => Finish end.
Definition neff (e : effect) : effect := Eff (nafter (e_after e)) (map nspawn (e_spawn e)) (e_newch e) (e_close e) (e_out e).
Definition neres (x : Runtime.eres) : Runtime.eres := match x with EOk e => EOk (neff e) | EErr w => EErr w end.
Definition nsres (s : sres) : sres := match s with SStep c => SStep (ncfg c) | other => other end.

(* two configurations that differ only in the identifiers of initialised names *)
Definition cfg_sim (c c' : config) : Prop := ncfg c = ncfg c'.

(* binders are uninitialised (true of every parsed program, preserved by substitution) *)
Fixpoint wfb (f : form) : Prop :=
  match f with
  | FRecv p c _ k => initialized p = false /\ initialized c = false /\ wfb k
  | FCase _ bs => wfbs bs
  | FNew x b k => initialized x = false /\ wfb b /\ wfb k
  | FSplit x y _ k => initialized x = false /\ initialized y = false /\ wfb k
  | FShift x _ k => initialized x = false /\ wfb k
  | FWait _ k | FDrop _ k | FPrint _ k => wfb k
  | _ => True
  end
with wfbs (b : branches) : Prop :=
  match b with BrNil => True | BrCons _ p k rest => initialized p = false /\ wfb k /\ wfbs rest end.

Definition wf_fun (fd : fundef) : Prop :=
  Forall (fun p => initialized p = false) (fn_params fd) /\
  match fn_explicit fd with Some ep => initialized ep = false | None => True end.

Lemma wfb_subst old new : (forall f, wfb f -> wfb (subst old new f)) /\ (forall b, wfbs b -> wfbs (subst_brs old new b)).
Proof.
  apply form_branches_ind; intros; cbn [subst subst_brs wfb wfbs] in *; auto;
    repeat match goal with
    | H : _ /\ _ |- _ => destruct H
    | |- _ /\ _ => split
    | |- context [if ?c then _ else _] => destruct c
    end; auto.
Qed.

Lemma sc_uninit old new : initialized old = false -> sc old new.
Proof. left; assumption. Qed.
Lemma sc_init old new : initialized new = true -> sc old new.
Proof. right; left; assumption. Qed.

Lemma sc_nn old new : sc old new -> sc (nn old) (nn new).
Proof.
  unfold sc. rewrite !nn_initialized. intros [H|[H|H]]; auto.
  destruct (initialized new) eqn:E; auto. right; right. now rewrite (nn_ident_uninit new E).
Qed.
(* L2: the identifiers in the substitution's own arguments are irrelevant as well *)
Lemma subst_nn2 old new Y : sc old new -> nf (subst (nn old) (nn new) Y) = nf (subst old new Y).
Proof.
  intros H. rewrite <- (subst_nn1 old new Y H).
  rewrite <- (subst_nn1 (nn old) (nn new) Y (sc_nn _ _ H)). now rewrite !nn_idem.
Qed.
(* L3: congruence *)
Lemma subst_nf_congr old new X X' : sc old new -> nf X = nf X' -> nf (subst old new X) = nf (subst old new X').
Proof. intros H E. rewrite <- (subst_nn1 old new X H), <- (subst_nn1 old new X' H). now rewrite E. Qed.

Lemma nn_new_self : nn (new_self "") = new_self "".
Proof. reflexivity. Qed.

Lemma find_branch_nf l b : find_branch l (nbs b) = option_map (fun x => (nn (fst x), nf (snd x))) (find_branch l b).
Proof. induction b as [|l' pay k b IH]; cbn [nbs find_branch]; [reflexivity|]. destruct (String.eqb l' l); [reflexivity | apply IH]. Qed.
Lemma find_branch_wf l b pay k : wfbs b -> find_branch l b = Some (pay, k) -> initialized pay = false /\ wfb k.
Proof.
  induction b as [|l' pay' k' b IH]; cbn [wfbs find_branch]; [discriminate|]. intros (H1 & H2 & H3).
  destruct (String.eqb l' l); [intros E; inversion E; subst; auto | auto].
Qed.

(* a received message instantiates binders: the identifiers carried by the message's (initialised)
   names and by the provider names play no role — F24 *)
Lemma on_message_sim self p m : wfb (pr_body0 p) ->
  rule_eqb (m_rule m) RGC = false -> (match pr_body0 p with FFwd _ _ true => False | _ => True end) ->
  neres (on_message self (np p) (nm m)) = neres (on_message self p m).
Proof.
  intros Hwf Hgc Hd. unfold on_message. cbn [np pr_body0 pr_provs nm m_rule m_c1 m_c2 m_provs m_label].
  assert (Efwd : match nf (pr_body0 p) with FFwd _ _ _ => true | _ => false end =
                 match pr_body0 p with FFwd _ _ _ => true | _ => false end) by (destruct (pr_body0 p); reflexivity).
  rewrite Efwd, Hgc. clear Efwd. cbn [andb].
  destruct (rule_eqb (m_rule m) RFWD && negb match pr_body0 p with FFwd _ _ _ => true | _ => false end).
  { unfold neres, neff, nafter, np, set_provs_body. cbn. rewrite (proj1 nf_idem), !map_map.
    f_equal. f_equal; [f_equal|].
    - f_equal. apply map_ext. intros; apply nn_idem.
    - unfold cids_of. induction (pr_provs p) as [|n l IH]; cbn [map flat_map]; [reflexivity|]. now rewrite nn_chan, IH. }
  destruct (pr_body0 p) eqn:Eb; cbn [nf wfb] in *; try reflexivity; rewrite ?nn_is_self.
  - (* recv *) destruct Hwf as (Hp & Hc & Hk). destruct (is_self from).
    + destruct (rule_eqb (m_rule m) RRCV); [|reflexivity].
      unfold neres, neff, nafter, no_eff, np, set_provs_body. cbn. f_equal. f_equal. f_equal. f_equal.
      * now rewrite nn_idem.
      * rewrite <- nn_new_self at 1. rewrite (subst_nn2 cont (new_self "") _ (sc_uninit _ _ Hc)).
        apply subst_nf_congr; [apply sc_uninit, Hc|]. apply (subst_nn1 pay (m_c1 m) f (sc_uninit _ _ Hp)).
    + destruct (rule_eqb (m_rule m) RSND); [|reflexivity].
      unfold neres, neff, nafter, no_eff, np, set_body. cbn. f_equal. f_equal. f_equal. f_equal.
      * rewrite map_map. apply map_ext. intros; apply nn_idem.
      * rewrite (subst_nn2 cont (m_c2 m) _ (sc_uninit _ _ Hc)).
        apply subst_nf_congr; [apply sc_uninit, Hc|]. apply (subst_nn1 pay (m_c1 m) f (sc_uninit _ _ Hp)).
  - (* case *) destruct (is_self from).
    + destruct (rule_eqb (m_rule m) RBRA); [|reflexivity]. rewrite find_branch_nf.
      destruct (find_branch (m_label m) bs) as [[pay k]|] eqn:Ef; cbn [option_map fst snd]; [|reflexivity].
      destruct (find_branch_wf _ _ _ _ Hwf Ef) as [Hp Hk].
      unfold neres, neff, nafter, no_eff, np, set_provs_body. cbn. f_equal. f_equal. f_equal. f_equal.
      * now rewrite nn_idem.
      * rewrite <- nn_new_self at 1. apply (subst_nn1 pay (new_self "") k (sc_uninit _ _ Hp)).
    + destruct (rule_eqb (m_rule m) RSEL); [|reflexivity]. rewrite find_branch_nf.
      destruct (find_branch (m_label m) bs) as [[pay k]|] eqn:Ef; cbn [option_map fst snd]; [|reflexivity].
      destruct (find_branch_wf _ _ _ _ Hwf Ef) as [Hp Hk].
      unfold neres, neff, nafter, no_eff, np, set_body. cbn. f_equal. f_equal. f_equal. f_equal.
      * rewrite map_map. apply map_ext. intros; apply nn_idem.
      * apply (subst_nn1 pay (m_c1 m) k (sc_uninit _ _ Hp)).
  - (* wait *) destruct (rule_eqb (m_rule m) RCLS); [|reflexivity].
    unfold neres, neff, nafter, no_eff, np, set_body. cbn. f_equal. f_equal. f_equal. f_equal.
    + rewrite map_map. apply map_ext. intros; apply nn_idem.
    + apply nf_idem.
  - (* fwd *) destruct droppable; [contradiction|].
    destruct (m_rule m); try reflexivity;
      unfold neres, neff, nafter, no_eff, np, set_body, set_provs_body; cbn; rewrite ?nn_idem, ?map_map;
      try (f_equal; f_equal; f_equal; f_equal; apply map_ext; intros; apply nn_idem).
    destruct (m_provs m) as [|q l]; cbn [map]; [reflexivity|].
    cbn. rewrite ?nn_idem, ?map_map. f_equal. f_equal. f_equal. f_equal. f_equal. apply map_ext. intros; apply nn_idem.
  - (* shift *) destruct Hwf as (Hx & Hk). destruct (is_self from).
    + destruct (rule_eqb (m_rule m) RSHF); [|reflexivity].
      unfold neres, neff, nafter, no_eff, np, set_provs_body. cbn. f_equal. f_equal. f_equal. f_equal.
      * now rewrite nn_idem.
      * rewrite <- nn_new_self at 1. apply (subst_nn1 x (new_self "") f (sc_uninit _ _ Hx)).
    + destruct (rule_eqb (m_rule m) RCST); [|reflexivity].
      unfold neres, neff, nafter, no_eff, np, set_body. cbn. f_equal. f_equal. f_equal. f_equal.
      * rewrite map_map. apply map_ext. intros; apply nn_idem.
      * apply (subst_nn1 x (m_c1 m) f (sc_uninit _ _ Hx)).
Qed.

(* a call instantiates parameters (and the explicit provider name) by the caller's names: their
   identifiers play no role — F25 *)
Lemma sub_all_sim : forall ps as_ b b', Forall (fun p => initialized p = false) ps -> nf b = nf b' ->
  nf (sub_all ps (map nn as_) b) = nf (sub_all ps as_ b').
Proof.
  induction ps as [|p ps IH]; intros as_ b b' Hps E; [exact E|].
  destruct as_ as [|a as_]; [exact E|]. inversion Hps as [|? ? Hp Hps']; subst. cbn [map sub_all].
  apply IH; [exact Hps'|].
  rewrite <- (nn_ident_uninit p Hp) at 1. rewrite (subst_nn2 p a b (sc_uninit _ _ Hp)).
  apply subst_nf_congr; [apply sc_uninit, Hp | exact E].
Qed.

Lemma call_body_sim F fn args : Forall wf_fun F ->
  option_map nf (call_body F fn (map nn args)) = option_map nf (call_body F fn args).
Proof.
  intros HF. unfold call_body. rewrite map_length.
  destruct (get_function F fn (length args)) as [fd|] eqn:Eg; [|reflexivity].
  assert (Hfd : wf_fun fd).
  { revert Eg. induction HF as [|d F Hd _ IH]; cbn [get_function]; [discriminate|].
    destruct (String.eqb (fn_name d) fn && _); [intros E; inversion E; subst; exact Hd | exact IH]. }
  destruct Hfd as [Hps Hep]. fold sub_all.
  destruct (fn_explicit fd) as [ep|].
  - destruct (length args =? length (fn_params fd))%nat; [cbn [option_map]; f_equal; now apply sub_all_sim|].
    destruct (length args =? S (length (fn_params fd)))%nat; [|reflexivity].
    destruct args as [|a0 rest]; [reflexivity|]. cbn [map option_map]. f_equal.
    apply sub_all_sim; [exact Hps|]. rewrite nn_is_self.
    replace (if is_self a0 then new_self "" else nn a0) with (nn (if is_self a0 then new_self "" else a0))
      by (destruct (is_self a0); reflexivity).
    rewrite <- (nn_ident_uninit ep Hep) at 1. apply subst_nn2. apply sc_uninit, Hep.
  - destruct (length args =? length (fn_params fd))%nat; [cbn [option_map]; f_equal; now apply sub_all_sim|].
    destruct (length args =? S (length (fn_params fd)))%nat; [|reflexivity].
    cbn [option_map]. f_equal. replace (tl (map nn args)) with (map nn (tl args)) by (destruct args; reflexivity).
    now apply sub_all_sim.
Qed.

(* cut and call: the spawned / continuing bodies do not depend on identifiers of initialised names *)
Lemma internal_effect_sim md F self p : Forall wf_fun F -> wfb (pr_body0 p) ->
  match pr_body0 p with FNew _ _ _ | FCall _ _ _ | FPrint _ _ => True | _ => False end ->
  neres (internal_effect md F self (np p)) = neres (internal_effect md F self p).
Proof.
  intros HF Hwf Hk. unfold internal_effect. cbn [np pr_body0].
  destruct (pr_body0 p) eqn:Eb; try contradiction; cbn [nf wfb] in *.
  - (* new *) destruct Hwf as (Hx & Hb & Hk'). rewrite (nn_ident_uninit x Hx).
    unfold fresh_chan. cbn [pr_provs pr_body0 pr_next]. unfold neres, neff, nafter, np, set_body. cbn.
    f_equal. f_equal; [f_equal; f_equal|].
    + rewrite map_map. apply map_ext. intros; apply nn_idem.
    + set (c := mkName (ident x) false (pol x) (nty x) (Some (self ++ [pr_next p]))).
      apply subst_nf_congr; [apply sc_uninit, Hx | apply nf_idem].
    + unfold nspawn. cbn. now rewrite (proj1 nf_idem).
  - (* call *) pose proof (call_body_sim F f args HF) as E.
    destruct (call_body F f (map nn args)) as [b|], (call_body F f args) as [b'|]; cbn [option_map] in E; try discriminate; [|reflexivity].
    inversion E as [E']. unfold neres, neff, nafter, no_eff, np, set_body. cbn. rewrite E', map_map.
    f_equal. f_equal. f_equal. f_equal. apply map_ext. intros; apply nn_idem.
  - (* print *) unfold neres, neff, nafter, np, set_body. cbn. rewrite (proj1 nf_idem), map_map.
    f_equal. f_equal. f_equal. f_equal. apply map_ext. intros; apply nn_idem.
Qed.

(* what a process does next only depends on `is_self`, channels and annotations *)
Definition naction (a : action) : action :=
  match a with ASend c m => ASend c (nm m) | ACtrl c provs => ACtrl c (map nn provs) | other => other end.
Lemma action_of_sim md D p : action_of md D (np p) = naction (action_of md D p).
Proof.
  assert (Es : self_chan (np p) = self_chan p) by (unfold self_chan, prov0, np; cbn; destruct (pr_provs p); cbn; [reflexivity | apply nn_chan]).
  assert (Em : multi (np p) = multi p) by (unfold multi, np; cbn; now rewrite map_length).
  assert (En : self_name_of (np p) = nn (self_name_of p)) by (unfold self_name_of, prov0, np; cbn; destruct (pr_provs p); reflexivity).
  assert (Ef : forall n, fwd_polarity D (nn n) = fwd_polarity D n) by (intros n; unfold fwd_polarity; now rewrite nn_nty).
  unfold action_of, send_on, recv_on, internal. cbn [np pr_body0]. fold (np p). rewrite ?Em, ?Es.
  destruct (pr_body0 p); cbn [nf]; rewrite ?nn_is_self, ?nn_chan, ?Ef, ?En;
    repeat match goal with
    | |- context [if ?b then _ else _] => destruct b
    | |- context [match ?x with _ => _ end] => destruct x
    end; reflexivity.
Qed.

(* STATEMENT of the full simulation (every choice, every mode), not proved here: *)
Definition step_sim_statement : Prop :=
  forall md D F c c' ch, Forall wf_fun F ->
    (forall q p, procs c !! q = Some p -> wfb (pr_body0 p)) ->
    (forall q p, procs c' !! q = Some p -> wfb (pr_body0 p)) ->
    cfg_sim c c' -> nsres (Runtime.step md D F c ch) = nsres (Runtime.step md D F c' ch).
(* CLOSED for typed configurations in proofs/RenameSimT.v (`stepT_erase`, `stepT_sim`, with the erasure
   extended to `self` names and the invariants taken from the run-time typing).
   Proved above: the cases in which an identifier could be captured or could clash — instantiating
   binders from a received message (`on_message_sim`: receive, case, shift, wait, positive forward,
   negative forward request), instantiating a callee (`call_body_sim`), cut / call / print
   (`internal_effect_sim`), and the choice of the next action (`action_of_sim`).  What is missing for
   `step_sim_statement`: the transitions that CREATE forwarding processes (drop, split, duplication,
   the GC request): the model, like the code, gives the `self` name of the generated forward the
   identifier of the client it forwards to (an uninitialised name carrying the identifier of an
   initialised one), so the erasure `nn` would have to erase identifiers of `self` names of forwards
   as well, and one needs the additional invariant that free names of running bodies are initialised
   (so that such a name is never the target of an identifier-based substitution). *)
