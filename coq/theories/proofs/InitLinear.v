(* InitLinear.v — the static condition `init_linear` of TopoReach.v is decidable: a boolean check on
   the annotated program and its initial configuration, proved sound, so that the last premise of
   `determinism_typed_core` about the program can be established by computation for a given
   program (Examples at the end: accepted programs with channel passing, cuts, calls). *)
From stdpp Require Import gmap strings sorting.
Require Import Grits.Base Grits.ModeDefs Grits.Modes Grits.STypes Grits.Forms Grits.Subst Grits.TcDeps Grits.Expand
               Grits.Tc Grits.TcTop Grits.Runtime Grits.RuntimeFootprint
               Grits.spec.RtTyping Grits.spec.Topo Grits.proofs.RtSafety Grits.proofs.RtInit Grits.proofs.RtTheorems
               Grits.proofs.RtStaticCheck Grits.proofs.TopoCheck.
Require Import Grits.proofs.RuntimeFacts Grits.proofs.AsyncSync Grits.proofs.TopoLin Grits.proofs.TopoStep Grits.proofs.TopoReach.

(* ------------------------------------------------------------------ affinity, decided *)
Definition key_eqb (x y : key) : bool :=
  match x, y with KC a, KC b => cid_eqb a b | KV a, KV b => String.eqb a b | _, _ => false end.
Lemma key_eqb_eq x y : key_eqb x y = true <-> x = y.
Proof.
  destruct x as [a|a], y as [b|b]; simpl; try (split; [discriminate|discriminate]).
  - unfold cid_eqb. destruct (list_eq_dec Nat.eq_dec a b); split; congruence.
  - rewrite String.eqb_eq. split; congruence.
Qed.
Fixpoint nodup_b (l : list key) : bool :=
  match l with [] => true | x :: r => negb (existsb (key_eqb x) r) && nodup_b r end.
Lemma nodup_b_sound l : nodup_b l = true -> NoDup l.
Proof.
  induction l as [|x r IH]; simpl; [constructor|]. rewrite andb_true_iff, negb_true_iff. intros [H1 H2].
  constructor; [|auto]. intros Hin. assert (existsb (key_eqb x) r = true); [|congruence].
  apply existsb_exists. exists x. split; [done|by apply key_eqb_eq].
Qed.
Definition paths_ok_b (ps : list (list key)) : bool := forallb nodup_b ps.

Fixpoint affr_b (sh : option string) (f : form) : bool :=
  paths_ok_b (pnames sh f) &&
  match f with
  | FRecv p c fr k => if pdes sh fr then affr_b (Some (ident c)) k else affr_b sh k
  | FCase fr bs => if pdes sh fr then affr_bp_b bs else affr_bc_b sh bs
  | FNew y b k => affr_b None b && affr_b sh k
  | FWait _ k | FDrop _ k | FPrint _ k | FSplit _ _ _ k => affr_b sh k
  | FShift y fr k => if pdes sh fr then affr_b (Some (ident y)) k else affr_b sh k
  | _ => true
  end
with affr_bp_b (b : branches) : bool :=
  match b with BrNil => true | BrCons _ p k r => affr_b (Some (ident p)) k && affr_bp_b r end
with affr_bc_b (sh : option string) (b : branches) : bool :=
  match b with BrNil => true | BrCons _ p k r => affr_b sh k && affr_bc_b sh r end.

Lemma paths_ok_b_sound ps : paths_ok_b ps = true -> Forall (NoDup (A:=key)) ps.
Proof.
  unfold paths_ok_b. rewrite forallb_forall, Forall_forall. intros H l Hl. by apply nodup_b_sound, H.
Qed.

Lemma affr_b_sound_mut :
  (forall f sh, affr_b sh f = true -> affr sh f) /\
  (forall b, (affr_bp_b b = true -> affr_bp b) /\ (forall sh, affr_bc_b sh b = true -> affr_bc sh b)).
Proof.
  apply form_branches_ind.
  all: try (intros; match goal with H : affr_b _ _ = true |- _ => simpl in H; apply andb_true_iff in H as [H1 H2] end;
            simpl; split; [by apply paths_ok_b_sound|]).
  - exact I.
  - destruct (pdes sh from); auto.
  - exact I.
  - destruct H as [IHp IHc]. destruct (pdes sh from); auto.
  - apply andb_true_iff in H2 as [? ?]. split; auto.
  - exact I.
  - auto.
  - exact I.
  - auto.
  - exact I.
  - exact I.
  - destruct (pdes sh from); auto.
  - auto.
  - auto.
  - split; intros; exact I.
  - intros l p f IHf r [IHp IHc]. split.
    + intros Hb. simpl in Hb. apply andb_true_iff in Hb as [? ?]. split; auto.
    + intros sh Hb. simpl in Hb. apply andb_true_iff in Hb as [? ?]. split; auto.
Qed.
Lemma affr_b_sound sh f : affr_b sh f = true -> affr sh f.
Proof. apply affr_b_sound_mut. Qed.

(* ------------------------------------------------------------------ the initial configuration is a forest, decided *)
(* for configurations without buffered messages and without closed channels *)
Definition procs_list (c : config) : list (pid * proc) := map_to_list (procs c).
Definition pobjs (c : config) : list obj := map (fun sp : pid * proc => OProc (fst sp) (snd sp)) (procs_list c).

Definition mem_b (k : cid) (l : list cid) : bool := existsb (cid_eqb k) l.
Definition pair_disj_b (g : proc -> list cid) (x y : pid * proc) : bool :=
  cid_eqb (fst x) (fst y) || forallb (fun k => negb (mem_b k (g (snd y)))) (g (snd x)).

Definition init_topo_b (c : config) : bool :=
  let ps := procs_list c in
  let objs := pobjs c in
  let rk := relax_n (S (length objs)) objs ∅ in
  forallb (fun x => forallb (pair_disj_b (fun p => cids_of (pr_provs p)) x) ps) ps &&
  forallb (fun x => forallb (pair_disj_b (fun p => form_chans (pr_body0 p)) x) ps) ps &&
  forallb (fun x => forallb (fun k => existsb (fun y => mem_b k (cids_of (pr_provs (snd y)))) ps) (form_chans (pr_body0 (snd x)))) ps &&
  forallb (fun ks : cid * chan_st => negb (ch_closed (snd ks)) && match ch_buf (snd ks) with None => true | Some _ => false end)
          (map_to_list (chans c)) &&
  TopoCheck.rank_ok objs rk.

Lemma mem_b_true k l : mem_b k l = true <-> k ∈ l.
Proof.
  unfold mem_b. rewrite existsb_exists. split.
  - intros (x & Hx & E). unfold cid_eqb in E. destruct (list_eq_dec Nat.eq_dec k x); [subst|discriminate]. by apply elem_of_list_In.
  - intros H. exists k. split; [by apply elem_of_list_In|]. unfold cid_eqb. by destruct (list_eq_dec Nat.eq_dec k k).
Qed.

Lemma pair_disj_sound g ps : forallb (fun x => forallb (pair_disj_b g x) ps) ps = true ->
  forall x y k, In x ps -> In y ps -> k ∈ g (snd x) -> k ∈ g (snd y) -> fst x = fst y.
Proof.
  rewrite forallb_forall. intros H x y k Hx Hy Hkx Hky. specialize (H x Hx). rewrite forallb_forall in H.
  specialize (H y Hy). unfold pair_disj_b in H. apply orb_true_iff in H as [H|H].
  - unfold cid_eqb in H. by destruct (list_eq_dec Nat.eq_dec (fst x) (fst y)).
  - rewrite forallb_forall in H. specialize (H k (proj1 (elem_of_list_In _ _) Hkx)). apply negb_true_iff in H.
    apply mem_b_true in Hky. congruence.
Qed.

Lemma rank_bound (rk : gmap cid nat) : exists M, forall k, (default 0%nat (rk !! k) <= M)%nat.
Proof.
  induction rk as [|i x m Hi IH] using map_ind.
  - exists 0%nat. intros k. by rewrite lookup_empty.
  - destruct IH as [M HM]. exists (Nat.max M x). intros k. destruct (decide (k = i)) as [->|Hn].
    + rewrite lookup_insert. cbn. lia.
    + rewrite lookup_insert_ne by done. specialize (HM k). lia.
Qed.

Theorem init_topo_b_sound c : init_topo_b c = true -> Topo c.
Proof.
  unfold init_topo_b. rewrite !andb_true_iff. intros [[[[Hp Hr] Hd] Hc] Hrk].
  assert (Hin : forall p pp, procs c !! p = Some pp <-> In (p, pp) (procs_list c)).
  { intros p pp. unfold procs_list. rewrite <- elem_of_list_In. symmetry. apply elem_of_map_to_list. }
  assert (Hnomsg : forall k m, ~ obj_in c (OMsg k m)).
  { intros k m (st & Hst & Hb). rewrite forallb_forall in Hc.
    specialize (Hc (k, st) (proj1 (elem_of_list_In _ _) (proj2 (elem_of_map_to_list _ _ _) Hst))). cbn in Hc.
    apply andb_true_iff in Hc as [_ Hc]. by rewrite Hb in Hc. }
  assert (Heq : forall p pp qq, procs c !! p = Some pp -> procs c !! p = Some qq -> pp = qq) by (intros; congruence).
  split.
  - intros [p pp|k m] [q qq|k' m'] j H1 H2 Hj1 Hj2; try (by destruct (Hnomsg _ _ H1)); try (by destruct (Hnomsg _ _ H2)).
    cbn in H1, H2, Hj1, Hj2.
    assert (p = q) by (apply (pair_disj_sound _ _ Hp (p, pp) (q, qq) j); try apply Hin; done). subst q.
    by rewrite (Heq p pp qq).
  - intros [p pp|k m] [q qq|k' m'] j H1 H2 Hj1 Hj2; try (by destruct (Hnomsg _ _ H1)); try (by destruct (Hnomsg _ _ H2)).
    cbn in H1, H2, Hj1, Hj2.
    assert (p = q) by (apply (pair_disj_sound _ _ Hr (p, pp) (q, qq) j); try apply Hin; done). subst q.
    by rewrite (Heq p pp qq).
  - intros [p pp|k m] j H1 Hj; [|by destruct (Hnomsg _ _ H1)]. cbn in H1, Hj.
    rewrite forallb_forall in Hd. specialize (Hd (p, pp) (proj1 (Hin p pp) H1)). rewrite forallb_forall in Hd.
    specialize (Hd j (proj1 (elem_of_list_In _ _) Hj)). apply existsb_exists in Hd as ([q qq] & Hq & Hk).
    exists (OProc q qq). split; [by apply Hin|]. cbn. by apply mem_b_true.
  - intros k st Hst Hcl. rewrite forallb_forall in Hc.
    specialize (Hc (k, st) (proj1 (elem_of_list_In _ _) (proj2 (elem_of_map_to_list _ _ _) Hst))). cbn in Hc.
    apply andb_true_iff in Hc as [Hc _]. by rewrite Hcl in Hc.
  - set (rkm := relax_n (S (length (pobjs c))) (pobjs c) ∅) in *.
    destruct (rank_bound rkm) as [M HM]. exists (fun k => default 0%nat (rkm !! k)), M. split; [intros; apply HM|].
    intros [p pp|k m] k1 j H1 Hk1 Hj; [|by destruct (Hnomsg _ _ H1)].
    unfold TopoCheck.rank_ok in Hrk. rewrite forallb_forall in Hrk.
    assert (Ho : In (OProc p pp) (pobjs c)).
    { unfold pobjs. apply in_map_iff. exists (p, pp). split; [done|]. by apply Hin. }
    specialize (Hrk _ Ho). rewrite forallb_forall in Hrk. specialize (Hrk k1 (proj1 (elem_of_list_In _ _) Hk1)).
    rewrite forallb_forall in Hrk. specialize (Hrk j (proj1 (elem_of_list_In _ _) Hj)). by apply Nat.ltb_lt in Hrk.
Qed.

(* ------------------------------------------------------------------ init_linear, decided *)
Definition init_linear_b (p' : program) : bool :=
  let c := init_config p' in
  forallb (fun fd => core_form (fn_body fd) && affr_b None (fn_body fd)) (p_funs p') &&
  forallb (fun x : pid * proc => core_form (pr_body0 (snd x)) && affr_b None (pr_body0 (snd x)) &&
                                 match pr_provs (snd x) with [_] => true | _ => false end) (procs_list c) &&
  init_topo_b c.

Theorem init_linear_b_sound p' : init_linear_b p' = true -> init_linear p'.
Proof.
  unfold init_linear_b. rewrite !andb_true_iff. intros [[Hf Hp] Ht].
  rewrite forallb_forall in Hf, Hp.
  assert (Hin : forall p pp, procs (init_config p') !! p = Some pp -> In (p, pp) (procs_list (init_config p'))).
  { intros p pp H. unfold procs_list. apply elem_of_list_In. by apply elem_of_map_to_list. }
  split; [|split; [|split; [by apply init_topo_b_sound|split]]].
  - unfold core_funs. rewrite Forall_forall. intros fd Hfd. specialize (Hf fd Hfd). by apply andb_true_iff in Hf as [? _].
  - unfold funs_aff. rewrite Forall_forall. intros fd Hfd. specialize (Hf fd Hfd). apply andb_true_iff in Hf as [_ ?].
    by apply affr_b_sound.
  - split.
    + intros p pp H. specialize (Hp _ (Hin p pp H)). cbn in Hp. rewrite !andb_true_iff in Hp. destruct Hp as [[_ Ha] _].
      by apply affr_b_sound.
    + intros k st m Hk Hb. pose proof (bufs_empty_init p' k st Hk). congruence.
  - split.
    + intros p pp H. specialize (Hp _ (Hin p pp H)). cbn in Hp. rewrite !andb_true_iff in Hp. destruct Hp as [[Hc _] Hs].
      split; [done|]. destruct (pr_provs pp) as [|n [|]]; try done. eauto.
    + intros k st m Hk Hb. pose proof (bufs_empty_init p' k st Hk). congruence.
Qed.

(* ------------------------------------------------------------------ non-vacuity *)
Definition init_linear_text (txt : string) : option bool :=
  match parse_string txt with
  | POk p => match typecheck p with Accept p' => Some (in_fragment_b p' && init_linear_b p') | _ => None end
  | _ => None
  end.

(* a9's example of the fragment: a server with a channel-passing protocol, cuts, a call *)
Example example_init_linear : init_linear_text example_text = Some true.
Proof. vm_compute. reflexivity. Qed.

Definition demo_pass_text : string := "prc[a] : 1 = print left; close self
prc[b] : 1 = print right; wait a; print done; close self".
Example demo_init_linear : init_linear_text demo_pass_text = Some true.
Proof. vm_compute. reflexivity. Qed.

(* a program outside the core fragment (split) is reported as such *)
Example split_not_core : init_linear_text example_split_text = Some false.
Proof. vm_compute. reflexivity. Qed.
