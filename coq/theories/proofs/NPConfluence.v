(* NPConfluence.v — the peaks of the non-polarized mode, for typed forest configurations with empty
   buffers: two different enabled choices are INDEPENDENT (Diamond.indep: they commute in one step,
   Diamond.diamond) unless they share the target t of a control message:
     (A) Control f t  and  Run t          (t polls its control channel at an internal step),
     (B) Control f t  and  a Rendezvous in which t is the sender or the receiver,
     (C) Control f t  and  Control t t'   (t is itself a forward).
   Nothing else conflicts.  The conflicting peaks do not close in one step with the same labels (see
   DeterminismNP.v / the manifest note); Balanced.uniform_balanced_bounded is the abstract theorem for
   closing them with balanced joins. *)
From stdpp Require Import gmap strings.
Require Import Grits.Base Grits.ModeDefs Grits.Modes Grits.STypes Grits.Forms Grits.Subst Grits.TcDeps Grits.Expand
               Grits.Runtime Grits.RuntimeFootprint Grits.spec.RtTyping Grits.spec.Topo.
Require Import Grits.proofs.RtSubst Grits.proofs.StepErrors Grits.proofs.RtSafety Grits.proofs.RtSafetyNP Grits.proofs.TopoLin Grits.proofs.RuntimeFacts
               Grits.proofs.Diamond Grits.proofs.AsyncSync Grits.proofs.DeterminismTyped Grits.proofs.TopoStep Grits.proofs.InvAll Grits.proofs.InvNP.

Section NPPeaks.
Variable D : tenv.
Variable F : list fundef.
Variable teq : sty -> sty -> Prop.
Hypothesis Hteq : teq_laws D teq.
Hypothesis HF : funs_typed D F teq.
Variables (Δ : gmap cid sty) (c : config).
Hypothesis Hc : cfg_typed D F teq Δ c.
Hypothesis Ht : Topo c.
Hypothesis Hbe : bufs_empty c.

Let Hcu : closed_unused D NP c := topo_closed_unused_np D c Ht.

(* ------------------------------------------------------------------ what an enabled choice looks like *)
Lemma np_run_enabled p c' : step NP D F c (Run p) = SStep c' ->
  exists pp, procs c !! p = Some pp /\ (action_of NP D pp = ADup \/ action_of NP D pp = AInternal) /\
             reads NP D c (Run p) = [] /\ closes NP D c (Run p) = [].
Proof.
  cbn [step reads closes]. destruct (procs c !! p) as [pp|] eqn:Hp; [|done]. intros H. exists pp. split; [done|].
  destruct (action_of NP D pp) as [| |k m|k| |k pv|w] eqn:Ea; try done; try (split; [eauto|split; done]).
  - destruct (chans c !! k) as [st|]; [|done]. destruct (ch_closed st); [done|]. by destruct (ch_buf st).
  - destruct (chans c !! k) as [st|] eqn:Ek; [|done]. rewrite (Hbe _ _ Ek) in H. rewrite (Hcu p pp k st Hp (or_introl Ea) Ek) in H. done.
Qed.

Lemma np_rdv_enabled s r c' : step NP D F c (Rendezvous s r) = SStep c' ->
  s <> r /\ exists ps pr k m, procs c !! s = Some ps /\ procs c !! r = Some pr /\
    action_of NP D ps = ASend k m /\ action_of NP D pr = ARecv k /\
    action_of Async D ps = ASend k m /\ action_of Async D pr = ARecv k /\
    reads NP D c (Rendezvous s r) = [k] /\ closes NP D c (Rendezvous s r) = [].
Proof.
  cbn [step reads closes]. destruct (bool_decide (s = r)) eqn:Esr; [done|]. apply bool_decide_eq_false in Esr.
  destruct (procs c !! s) as [ps|] eqn:Hs; [|done]. destruct (procs c !! r) as [pr|] eqn:Hr; [|done].
  destruct (action_of NP D ps) as [| |k m|k| |k pv|w] eqn:Eas; try done.
  destruct (action_of NP D pr) as [| |k' m'|k'| |k' pv'|w'] eqn:Ear; try done.
  destruct (bool_decide (k = k')) eqn:Ekk; [|done]. apply bool_decide_eq_true in Ekk. subst k'. intros _.
  pose proof (np_action_async D ps _ Eas I) as Eas'. pose proof (np_action_async D pr _ Ear I) as Ear'.
  split; [done|]. exists ps, pr, k, m. repeat split; try done.
  cbn [act_chan]. unfold closes_of. destruct (send_msg_facts D ps k m Eas') as [_ Hfw].
  destruct (rule_eqb (m_rule m) RFWD) eqn:E; [|done]. exfalso. apply rule_eqb_eq in E.
  (* a forward request is sent by a forward only, and a forward does not send in this mode *)
  unfold action_of in Eas'. destruct (body_is_fwd (pr_body0 ps)) eqn:Ef.
  - pose proof (np_fwd_action D ps Ef) as H. by rewrite Eas in H.
  - clear Hfw. revert E. unfold action_of in Eas. destruct (pr_body0 ps); try discriminate Ef; simpl in Eas';
      repeat match type of Eas' with
             | (if ?b then _ else _) = _ => destruct b
             | match ?x with _ => _ end = _ => destruct x
             end; try discriminate;
      try (unfold internal in Eas'; destruct (multi ps); discriminate);
      try (unfold recv_on in Eas'; repeat match type of Eas' with
             | (if ?b then _ else _) = _ => destruct b
             | match ?x with _ => _ end = _ => destruct x
             end; discriminate);
      unfold send_on in Eas'; destruct (multi ps); try discriminate;
      repeat match type of Eas' with match ?x with _ => _ end = _ => destruct x end; try discriminate;
      injection Eas' as <- <-; discriminate.
Qed.

Lemma np_ctl_enabled f t c' : step NP D F c (Control f t) = SStep c' ->
  f <> t /\ exists pf pt k, procs c !! f = Some pf /\ procs c !! t = Some pt /\
    action_of NP D pf = ACtrl k (pr_provs pf) /\ self_chan pt = Some k /\ polls_control NP D pt = true /\
    k ∈ refs (OProc f pf) /\ k ∈ provides (OProc t pt) /\ is_Some (chans c !! k) /\
    reads NP D c (Control f t) = [] /\ closes NP D c (Control f t) = [k].
Proof.
  cbn [step negb is_np orb reads closes]. destruct (bool_decide (f = t)) eqn:Eft; [done|]. apply bool_decide_eq_false in Eft.
  destruct (procs c !! f) as [pf|] eqn:Hf; [|done]. destruct (procs c !! t) as [pt|] eqn:Hpt; [|done].
  destruct (action_of NP D pf) as [| |k m|k| |k provs|w] eqn:Ea; try done.
  destruct (self_chan pt) as [k'|] eqn:Esc; [|done].
  destruct (bool_decide (k = k')) eqn:Ek; [|done]. apply bool_decide_eq_true in Ek. subst k'.
  destruct (polls_control NP D pt) eqn:Epoll; [|done]. intros _.
  destruct (ctrl_inv D pf k provs Ea) as (to & from & d & Hbody & Hfrom & ->).
  split; [done|]. exists pf, pt, k. repeat split; try done.
  - cbn. rewrite Hbody. simpl. unfold name_chans at 2. rewrite Hfrom. set_solver.
  - cbn. by apply self_chan_provides.
  - destruct (ct_procs D F teq Δ c Hc f pf Hf) as (sf & rsf & _ & _ & Hty). rewrite Hbody in Hty.
    apply (ct_dom D F teq Δ c Hc). eapply (form_chans_typed D F teq Δ _ _ _ _ _ k Hty). simpl. unfold name_chans at 2. rewrite Hfrom.
    apply in_app_iff. right. by left.
  - unfold self_chan, prov0 in Esc. destruct (pr_provs pt) as [|n0 rest]; [discriminate|]. cbn in Esc |- *. by rewrite Esc.
Qed.

(* one sender and one receiver per channel, among the processes that are not forwards *)
Lemma np_one_sender p q pp qq k m m' : procs c !! p = Some pp -> procs c !! q = Some qq ->
  action_of Async D pp = ASend k m -> action_of Async D qq = ASend k m' -> p = q.
Proof.
  intros Hp Hq H1 H2. destruct (decide (p = q)) as [|Hne]; [done|]. exfalso.
  destruct (typed_async_discipline D F teq Hteq HF Δ c Hc Ht p q pp qq Hne Hp Hq) as (Hs & _). apply (Hs k). split; eexists; eauto.
Qed.
Lemma np_one_receiver p q pp qq k : procs c !! p = Some pp -> procs c !! q = Some qq ->
  action_of Async D pp = ARecv k -> action_of Async D qq = ARecv k -> p = q.
Proof.
  intros Hp Hq H1 H2. destruct (decide (p = q)) as [|Hne]; [done|]. exfalso.
  destruct (typed_async_discipline D F teq Hteq HF Δ c Hc Ht p q pp qq Hne Hp Hq) as (_ & Hr & _). apply (Hr k). by split.
Qed.

(* who acts on a channel provides it or refers to it *)
Lemma np_actor_own p pp k : procs c !! p = Some pp ->
  (action_of Async D pp = ARecv k \/ exists m, action_of Async D pp = ASend k m) ->
  k ∈ provides (OProc p pp) \/ k ∈ refs (OProc p pp).
Proof. intros Hp H. exact (action_chan_own Async D pp k eq_refl H). Qed.

Ltac inl := solve [cbn; repeat first [apply elem_of_list_here | apply elem_of_list_further]].
Ltac mvc Hmv x := exfalso; apply (Hmv x); inl.

(* ------------------------------------------------------------------ the peaks *)
Inductive np_conflict : choice -> choice -> Prop :=
| NC_run f t : np_conflict (Control f t) (Run t)
| NC_rdv_s f t r : np_conflict (Control f t) (Rendezvous t r)
| NC_rdv_r f t s : np_conflict (Control f t) (Rendezvous s t)
| NC_ctl f t t' : np_conflict (Control f t) (Control t t').

Theorem np_peak_cases a b c1 c2 :
  a <> b -> step NP D F c a = SStep c1 -> step NP D F c b = SStep c2 ->
  indep NP D c a b \/ np_conflict a b \/ np_conflict b a.
Proof.
  intros Hab Ha Hb.
  assert (Hfp : forall ch c', step NP D F c ch = SStep c' ->
            (footprint_ch NP D c ch = [] /\ closes NP D c ch = []) \/
            exists k, footprint_ch NP D c ch = [k] /\ (closes NP D c ch = [] \/ closes NP D c ch = [k]) /\ is_Some (chans c !! k)).
  { intros [p|s r|f t] c' Hs.
    - left. destruct (np_run_enabled _ _ Hs) as (? & _ & _ & H1 & H2). unfold footprint_ch. by rewrite H1, H2.
    - right. destruct (np_rdv_enabled _ _ _ Hs) as (_ & ps & pr & k & m & Hps & _ & Eas & _ & _ & _ & H1 & H2). exists k. unfold footprint_ch. rewrite H1, H2.
      split; [done|]. split; [by left|]. pose proof (typed_action_np D F teq Hteq HF Δ ps (ct_procs D F teq Δ c Hc s ps Hps)) as Hv. rewrite Eas in Hv. cbn in Hv.
      destruct Hv as (T & HT & _). apply (ct_dom D F teq Δ c Hc). eauto.
    - right. destruct (np_ctl_enabled _ _ _ Hs) as (_ & pf & pt & k & _ & _ & _ & _ & _ & _ & _ & He & H1 & H2). exists k. unfold footprint_ch. rewrite H1, H2.
      split; [done|]. split; [by right|done]. }
  assert (Hdisj : movers a ## movers b -> indep NP D c a b).
  { intros Hmv. split; [exact Hmv|]. split.
    - destruct a as [p|s r|f t], b as [q|s' r'|f' t'].
      all: try (destruct (np_run_enabled _ _ Ha) as (? & _ & _ & H1 & H2); unfold footprint_ch at 1; rewrite H1, H2; set_solver).
      all: try (destruct (np_run_enabled _ _ Hb) as (? & _ & _ & H1 & H2); unfold footprint_ch at 2; rewrite H1, H2; set_solver).
      + destruct (np_rdv_enabled _ _ _ Ha) as (_ & ps & pr & k & m & Hs & Hr & _ & _ & Eas & Ear & H1 & H2).
        destruct (np_rdv_enabled _ _ _ Hb) as (_ & ps' & pr' & k' & m' & Hs' & Hr' & _ & _ & Eas' & Ear' & H1' & H2').
        unfold footprint_ch. rewrite H1, H2, H1', H2'. intros x Hx Hx'. apply elem_of_list_singleton in Hx, Hx'. subst x k'.
        pose proof (np_one_sender s s' ps ps' k m m' Hs Hs' Eas Eas') as ->. mvc Hmv s'.
      + destruct (np_rdv_enabled _ _ _ Ha) as (_ & ps & pr & k & m & Hs & Hr & _ & _ & Eas & Ear & H1 & H2).
        destruct (np_ctl_enabled _ _ _ Hb) as (_ & pf & pt & k' & Hf & Hpt & _ & _ & _ & Hkr & Hkp & _ & H1' & H2').
        unfold footprint_ch. rewrite H1, H2, H1', H2'. intros x Hx Hx'. apply elem_of_list_singleton in Hx, Hx'. subst x k'.
        destruct (np_actor_own s ps k Hs (or_intror (ex_intro _ m Eas))) as [H|H].
        * assert (E : OProc s ps = OProc t' pt) by (eapply (topo_prov_unique c Ht _ _ k); eauto). injection E as -> _. mvc Hmv t'.
        * assert (E : OProc s ps = OProc f' pf) by (eapply (topo_ref_unique c Ht _ _ k); eauto). injection E as -> _. mvc Hmv f'.
      + destruct (np_rdv_enabled _ _ _ Hb) as (_ & ps & pr & k & m & Hs & Hr & _ & _ & Eas & Ear & H1 & H2).
        destruct (np_ctl_enabled _ _ _ Ha) as (_ & pf & pt & k' & Hf & Hpt & _ & _ & _ & Hkr & Hkp & _ & H1' & H2').
        unfold footprint_ch. rewrite H1, H2, H1', H2'. intros x Hx Hx'. apply elem_of_list_singleton in Hx, Hx'. subst x k'.
        destruct (np_actor_own s' ps k Hs (or_intror (ex_intro _ m Eas))) as [H|H].
        * assert (E : OProc s' ps = OProc t pt) by (eapply (topo_prov_unique c Ht _ _ k); eauto). injection E as -> _. mvc Hmv t.
        * assert (E : OProc s' ps = OProc f pf) by (eapply (topo_ref_unique c Ht _ _ k); eauto). injection E as -> _. mvc Hmv f.
      + destruct (np_ctl_enabled _ _ _ Ha) as (_ & pf & pt & k & Hf & Hpt & _ & _ & _ & Hkr & Hkp & _ & H1 & H2).
        destruct (np_ctl_enabled _ _ _ Hb) as (_ & pf' & pt' & k' & Hf' & Hpt' & _ & _ & _ & Hkr' & Hkp' & _ & H1' & H2').
        unfold footprint_ch. rewrite H1, H2, H1', H2'. intros x Hx Hx'. apply elem_of_list_singleton in Hx, Hx'. subst x k'.
        assert (E : OProc f pf = OProc f' pf') by (eapply (topo_ref_unique c Ht _ _ k); eauto). injection E as -> _. mvc Hmv f'.
    - intros k Hk. apply elem_of_app in Hk as [Hk|Hk].
      + destruct (Hfp a c1 Ha) as [[_ H]|(k0 & _ & [H|H] & He)]; rewrite H in Hk; try (by apply elem_of_nil in Hk). by apply elem_of_list_singleton in Hk as ->.
      + destruct (Hfp b c2 Hb) as [[_ H]|(k0 & _ & [H|H] & He)]; rewrite H in Hk; try (by apply elem_of_nil in Hk). by apply elem_of_list_singleton in Hk as ->. }
  assert (Hd2 : forall x y u v : pid, x <> u -> x <> v -> y <> u -> y <> v -> [x; y] ## [u; v]).
  { intros x y u v ? ? ? ? z Hz Hz'. apply elem_of_cons in Hz as [->|Hz]; [|apply elem_of_list_singleton in Hz as ->];
      (apply elem_of_cons in Hz' as [->|Hz']; [done|apply elem_of_list_singleton in Hz' as ->; done]). }
  assert (Hd12 : forall x u v : pid, x <> u -> x <> v -> [x] ## [u; v]).
  { intros x u v ? ? z Hz Hz'. apply elem_of_list_singleton in Hz as ->. apply elem_of_cons in Hz' as [->|Hz']; [done|apply elem_of_list_singleton in Hz' as ->; done]. }
  assert (Hd21 : forall x u v : pid, x <> u -> x <> v -> [u; v] ## [x]).
  { intros x u v ? ? z Hz' Hz. apply elem_of_list_singleton in Hz as ->. apply elem_of_cons in Hz' as [->|Hz']; [done|apply elem_of_list_singleton in Hz' as ->; done]. }
  destruct a as [p|s r|f t], b as [q|s' r'|f' t'].
  - left. apply Hdisj. cbn. intros z Hz Hz'. apply elem_of_list_singleton in Hz, Hz'. congruence.
  - left. apply Hdisj. destruct (np_run_enabled _ _ Ha) as (pp & Hp & Hact & _).
    destruct (np_rdv_enabled _ _ _ Hb) as (_ & ps & pr & k & m & Hs & Hr & Eas & Ear & _).
    apply Hd12; intros ->; rewrite Hp in *; [injection Hs as <-|injection Hr as <-]; destruct Hact; congruence.
  - destruct (np_run_enabled _ _ Ha) as (pp & Hp & Hact & _).
    destruct (np_ctl_enabled _ _ _ Hb) as (_ & pf & pt & k & Hf & Hpt & Eaf & _).
    destruct (decide (p = t')) as [->|Hne]; [right; right; constructor|]. left. apply Hdisj. apply Hd12; [|done].
    intros ->. rewrite Hp in Hf. injection Hf as <-. destruct Hact; congruence.
  - left. apply Hdisj. destruct (np_run_enabled _ _ Hb) as (pp & Hp & Hact & _).
    destruct (np_rdv_enabled _ _ _ Ha) as (_ & ps & pr & k & m & Hs & Hr & Eas & Ear & _).
    apply Hd21; intros ->; rewrite Hp in *; [injection Hs as <-|injection Hr as <-]; destruct Hact; congruence.
  - left. apply Hdisj.
    destruct (np_rdv_enabled _ _ _ Ha) as (_ & ps & pr & k & m & Hs & Hr & Eas & Ear & Eas2 & Ear2 & _).
    destruct (np_rdv_enabled _ _ _ Hb) as (_ & ps' & pr' & k' & m' & Hs' & Hr' & Eas' & Ear' & Eas2' & Ear2' & _).
    apply Hd2.
    + intros ->. rewrite Hs in Hs'. injection Hs' as <-. rewrite Eas in Eas'. injection Eas' as <- <-.
      apply Hab. f_equal. eapply np_one_receiver; eauto.
    + intros ->. rewrite Hs in Hr'. injection Hr' as <-. congruence.
    + intros ->. rewrite Hr in Hs'. injection Hs' as <-. congruence.
    + intros ->. rewrite Hr in Hr'. injection Hr' as <-. rewrite Ear in Ear'. injection Ear' as <-.
      apply Hab. f_equal. eapply np_one_sender; eauto.
  - destruct (np_rdv_enabled _ _ _ Ha) as (_ & ps & pr & k & m & Hs & Hr & Eas & Ear & _).
    destruct (np_ctl_enabled _ _ _ Hb) as (_ & pf & pt & k' & Hf & Hpt & Eaf & _).
    destruct (decide (s = t')) as [->|Hst]; [right; right; constructor|].
    destruct (decide (r = t')) as [->|Hrt]; [right; right; constructor|].
    left. apply Hdisj. apply Hd2; try done; intros ->; [rewrite Hs in Hf|rewrite Hr in Hf]; injection Hf as <-; congruence.
  - destruct (np_run_enabled _ _ Hb) as (pp & Hp & Hact & _).
    destruct (np_ctl_enabled _ _ _ Ha) as (_ & pf & pt & k & Hf & Hpt & Eaf & _).
    destruct (decide (q = t)) as [->|Hne]; [right; left; constructor|]. left. apply Hdisj. apply Hd21; [|done].
    intros ->. rewrite Hp in Hf. injection Hf as <-. destruct Hact; congruence.
  - destruct (np_rdv_enabled _ _ _ Hb) as (_ & ps & pr & k & m & Hs & Hr & Eas & Ear & _).
    destruct (np_ctl_enabled _ _ _ Ha) as (_ & pf & pt & k' & Hf & Hpt & Eaf & _).
    destruct (decide (s' = t)) as [->|Hst]; [right; left; constructor|].
    destruct (decide (r' = t)) as [->|Hrt]; [right; left; constructor|].
    left. apply Hdisj. apply Hd2; try (intros E; symmetry in E; done); intros <-; [rewrite Hs in Hf|rewrite Hr in Hf]; injection Hf as <-; congruence.
  - destruct (np_ctl_enabled _ _ _ Ha) as (Hft & pf & pt & k & Hf & Hpt & Eaf & Hsc & _ & Hkr & Hkp & _).
    destruct (np_ctl_enabled _ _ _ Hb) as (Hft' & pf' & pt' & k' & Hf' & Hpt' & Eaf' & Hsc' & _ & Hkr' & Hkp' & _).
    destruct (decide (t = f')) as [->|Htf]; [right; left; constructor|].
    destruct (decide (f = t')) as [->|Hft2]; [right; right; constructor|].
    left. apply Hdisj. apply Hd2; try done.
    + intros ->. rewrite Hf in Hf'. injection Hf' as <-. rewrite Eaf in Eaf'. injection Eaf' as <-.
      apply Hab. f_equal. assert (E : OProc t pt = OProc t' pt') by (eapply (topo_prov_unique c Ht _ _ k); eauto). by injection E.
    + intros ->. rewrite Hpt in Hpt'. injection Hpt' as <-. rewrite Hsc in Hsc'. injection Hsc' as <-.
      apply Hab. f_equal. assert (E : OProc f pf = OProc f' pf') by (eapply (topo_ref_unique c Ht _ _ k); eauto). by injection E.
Qed.

(* the peaks that do not share the target of a control message close in one step, labels swapped *)
Corollary np_peak_diamond a b c1 c2 :
  ns_ok c -> a <> b -> step NP D F c a = SStep c1 -> step NP D F c b = SStep c2 ->
  ~ np_conflict a b -> ~ np_conflict b a ->
  exists d1 d2, step NP D F c1 b = SStep d1 /\ step NP D F c2 a = SStep d2 /\ cfg_equiv d1 d2.
Proof.
  intros Hns Hab Ha Hb Hn1 Hn2. destruct (np_peak_cases a b c1 c2 Hab Ha Hb) as [Hi|[H|H]]; [|contradiction..].
  eapply diamond; eauto.
Qed.
End NPPeaks.
