(* proofs/AlphaSubst.v — C14, general alpha-equivalence (A1): Form.Substitute respects `AlphaEq.aeq`.
   `aeq_subst_gen`: instantiating a related pair of binders (an entry ANYWHERE in the correspondence, as
   long as it is not shadowed) by the same channel on both sides removes the entry; the substitution
   may stop on one side earlier than on the other (an inner binder that re-uses the identifier on one side
   only) — the statement carries one "still substituting" bit per side.
   `aeq_subst_free`: the same for an identifier that is free on both sides.
   `aeq_subst_chan`: replacing a channel by a channel.  `aeq_erased`: related bodies are erased (nf'). *)
From stdpp Require Import gmap strings.
Require Import Grits.Base Grits.ModeDefs Grits.STypes Grits.Forms Grits.Subst Grits.Runtime.
Require Import Grits.spec.Alpha Grits.spec.AlphaEq Grits.proofs.RenameSimT.

(* ---------------------------------------------------------------- the correspondence *)
Lemma var_rel_mid e2 x y a b : forall e1, var_rel (e1 ++ (x, y) :: e2) a b ->
  ((a = x /\ ~ In x (map fst e1)) /\ (b = y /\ ~ In y (map snd e1))) \/
  (~ (a = x /\ ~ In x (map fst e1)) /\ ~ (b = y /\ ~ In y (map snd e1)) /\ var_rel (e1 ++ e2) a b).
Proof.
  induction e1 as [|[u v] e1 IH]; cbn [app var_rel map fst snd In].
  - intros [[-> ->]|(Ha & Hb & H)]; [left | right]; tauto.
  - intros [[-> ->]|(Ha & Hb & H)].
    + right. split; [|split]; [tauto | tauto | left; auto].
    + destruct (IH H) as [[[-> Hx] [-> Hy]]|(NL & NR & Hv)].
      * left. split; split; auto; intros [E|E]; auto.
      * right. split; [|split]; [tauto | tauto | right; auto].
Qed.

(* an entry (x, x) at the bottom changes nothing *)
Lemma var_rel_snoc x a b : forall e, var_rel (e ++ [(x, x)]) a b <-> var_rel e a b.
Proof.
  induction e as [|[u v] e IH]; cbn [app var_rel].
  - split.
    + intros [[-> ->]|(_ & _ & H)]; auto.
    + intros ->. destruct (String.eqb_spec b x); [left; auto | right; auto].
  - rewrite IH. reflexivity.
Qed.

(* a partial bijection *)
Lemma var_rel_inj : forall e a b a' b', var_rel e a b -> var_rel e a' b' -> (a = a' <-> b = b').
Proof.
  induction e as [|[u v] e IH]; cbn [var_rel]; intros a b a' b'.
  - intros -> ->. reflexivity.
  - intros [[-> ->]|(H1 & H2 & H3)] [[-> ->]|(H1' & H2' & H3')]; try (split; congruence). eapply IH; eauto.
Qed.

Definition mode_ok (b : bool) (x : string) (l : list string) : Prop := if b then ~ In x l else In x l.

Lemma name_equal_binders x X : chan x = None -> chan X = None -> name_equal x X = String.eqb (ident x) (ident X).
Proof. intros H1 H2. unfold name_equal, initialized. rewrite H1, H2. cbn. apply andb_true_r. Qed.

Lemma mode_ok_cons bl x X l : chan x = None -> chan X = None -> mode_ok bl (ident X) l ->
  mode_ok (bl && negb (name_equal x X)) (ident X) (ident x :: l).
Proof.
  intros H1 H2 Hm. rewrite (name_equal_binders x X H1 H2). unfold mode_ok in *. cbn [In].
  destruct (String.eqb_spec (ident x) (ident X)) as [E|N]; destruct bl; cbn [andb negb]; auto; tauto.
Qed.

(* ---------------------------------------------------------------- names *)
Lemma isvar_facts a : isvar a = true -> chan a = None /\ is_self a = false /\ ident a <> "".
Proof.
  unfold isvar, initialized. destruct (chan a); [discriminate|]. destruct (is_self a); [discriminate|].
  destruct (String.eqb_spec (ident a) ""); [discriminate|]. auto.
Qed.
Lemma isvar_nn' a : isvar a = true -> nn' a = a.
Proof. intros H. destruct (isvar_facts a H) as (H1 & H2 & _). apply nn'_var; auto. unfold initialized. now rewrite H1. Qed.
Lemma nonvar_nn' a : isvar a = false -> ident a = "" -> nn' a = a.
Proof.
  intros _ Hi. unfold nn'. destruct (initialized a || is_self a); [|reflexivity]. destruct a; cbn in *. now subst.
Qed.
Lemma aeqn_erased e a b : aeqn e a b -> nn' a = a /\ nn' b = b.
Proof.
  unfold aeqn. destruct (isvar a) eqn:Ea.
  - intros (Eb & _). split; now apply isvar_nn'.
  - intros [<- Hi]. split; now apply nonvar_nn'.
Qed.
Lemma aeqn_refl_nonvar e c : isvar c = false -> ident c = "" -> aeqn e c c.
Proof. intros H1 H2. unfold aeqn. rewrite H1. auto. Qed.

Lemma name_subst_var_hit X c a : isvar a = true -> chan X = None -> ident a = ident X ->
  name_subst X c a = mkName (ident c) (is_self c) (pol a) (nty a) (chan c).
Proof.
  intros Ha HX E. destruct (isvar_facts a Ha) as (H1 & _). unfold name_subst, initialized. rewrite H1, HX, E, String.eqb_refl. reflexivity.
Qed.
Lemma name_subst_var_miss X c a : isvar a = true -> chan X = None -> ident a <> ident X -> name_subst X c a = a.
Proof.
  intros Ha HX N. destruct (isvar_facts a Ha) as (H1 & _). unfold name_subst, initialized. rewrite H1, HX.
  destruct (String.eqb_spec (ident a) (ident X)); [contradiction | reflexivity].
Qed.
Lemma name_subst_nonvar X c a : ident a = "" -> chan X = None -> ident X <> "" -> name_subst X c a = a.
Proof.
  intros Hi HX N. unfold name_subst, initialized. rewrite HX, Hi.
  destruct (String.eqb_spec "" (ident X)) as [E|_]; [symmetry in E; contradiction|].
  destruct (chan a); cbn; reflexivity.
Qed.

Definition mname (b : bool) (X c a : name) : name := if b then name_subst X c a else a.

Section Inst.
Variables X Y c : name.
Variable e2 : benv.
Hypothesis HX : chan X = None.
Hypothesis HY : chan Y = None.
Hypothesis NX : ident X <> "".
Hypothesis NY : ident Y <> "".
Hypothesis Hc : isvar c = false.
Hypothesis Ic : ident c = "".

Lemma aeqn_subst e1 bl br a b :
  mode_ok bl (ident X) (map fst e1) -> mode_ok br (ident Y) (map snd e1) ->
  aeqn (e1 ++ (ident X, ident Y) :: e2) a b -> aeqn (e1 ++ e2) (mname bl X c a) (mname br Y c b).
Proof.
  intros Ml Mr. unfold aeqn. destruct (isvar a) eqn:Ea.
  - intros (Eb & Hp & Ht & Hv). destruct (var_rel_mid _ _ _ _ _ _ Hv) as [[[Hax Hxn] [Hby Hyn]]|(NL & NR & Hv')].
    + destruct bl; [|exfalso; exact (Hxn Ml)]. destruct br; [|exfalso; exact (Hyn Mr)]. cbn [mname].
      rewrite (name_subst_var_hit X c a Ea HX Hax), (name_subst_var_hit Y c b Eb HY Hby).
      assert (Ev : isvar (mkName (ident c) (is_self c) (pol a) (nty a) (chan c)) = false) by exact Hc.
      rewrite Ev. rewrite Hp, Ht. auto.
    + assert (El : mname bl X c a = a).
      { destruct bl; [|reflexivity]. cbn [mname]. apply name_subst_var_miss; auto; try (intros E; apply NL; split; assumption). }
      assert (Er : mname br Y c b = b).
      { destruct br; [|reflexivity]. cbn [mname]. apply name_subst_var_miss; auto; try (intros E; apply NR; split; assumption). }
      rewrite El, Er, Ea. auto.
  - intros [<- Hi].
    assert (El : mname bl X c a = a) by (destruct bl; [apply name_subst_nonvar; auto | reflexivity]).
    assert (Er : mname br Y c a = a) by (destruct br; [apply name_subst_nonvar; auto | reflexivity]).
    rewrite El, Er, Ea. auto.
Qed.

Lemma aeqn_subst_list e1 bl br l l' :
  mode_ok bl (ident X) (map fst e1) -> mode_ok br (ident Y) (map snd e1) ->
  Forall2 (aeqn (e1 ++ (ident X, ident Y) :: e2)) l l' ->
  Forall2 (aeqn (e1 ++ e2)) (map (mname bl X c) l) (map (mname br Y c) l').
Proof. intros Ml Mr. induction 1; cbn [map]; constructor; auto using aeqn_subst. Qed.

(* ---------------------------------------------------------------- forms *)
Definition msub (b : bool) (old new : name) (f : form) : form := if b then subst old new f else f.
Definition msubb (b : bool) (old new : name) (f : branches) : branches := if b then subst_brs old new f else f.

Ltac msub_eq := intros b old new; intros; destruct b; cbn [msub msubb mname subst subst_brs andb];
  repeat match goal with |- context [negb (name_equal ?a ?b)] => destruct (negb (name_equal a b)) end; cbn [andb]; try reflexivity.
Lemma msub_FSend : forall b old new x y z, msub b old new (FSend x y z) = FSend (mname b old new x) (mname b old new y) (mname b old new z).
Proof. msub_eq. Qed.
Lemma msub_FRecv : forall b old new p c0 fr k, msub b old new (FRecv p c0 fr k) =
  FRecv p c0 (mname b old new fr) (msub ((b && negb (name_equal c0 old)) && negb (name_equal p old)) old new k).
Proof. msub_eq. Qed.
Lemma msub_FSel : forall b old new x l z, msub b old new (FSel x l z) = FSel (mname b old new x) l (mname b old new z).
Proof. msub_eq. Qed.
Lemma msub_FCase : forall b old new fr bs, msub b old new (FCase fr bs) = FCase (mname b old new fr) (msubb b old new bs).
Proof. msub_eq. Qed.
Lemma msub_FNew : forall b old new x body k, msub b old new (FNew x body k) =
  FNew x (msub b old new body) (msub (b && negb (name_equal x old)) old new k).
Proof. msub_eq. Qed.
Lemma msub_FClose : forall b old new x, msub b old new (FClose x) = FClose (mname b old new x).
Proof. msub_eq. Qed.
Lemma msub_FWait : forall b old new x k, msub b old new (FWait x k) = FWait (mname b old new x) (msub b old new k).
Proof. msub_eq. Qed.
Lemma msub_FFwd : forall b old new x y d, msub b old new (FFwd x y d) = FFwd (mname b old new x) (mname b old new y) d.
Proof. msub_eq. Qed.
Lemma msub_FSplit : forall b old new x y fr k, msub b old new (FSplit x y fr k) =
  FSplit x y (mname b old new fr) (msub ((b && negb (name_equal y old)) && negb (name_equal x old)) old new k).
Proof. msub_eq. Qed.
Lemma msub_FCall : forall b old new fn args pt, msub b old new (FCall fn args pt) = FCall fn (map (mname b old new) args) pt.
Proof. msub_eq. now rewrite map_id. Qed.
Lemma msub_FCast : forall b old new x y, msub b old new (FCast x y) = FCast (mname b old new x) (mname b old new y).
Proof. msub_eq. Qed.
Lemma msub_FShift : forall b old new x fr k, msub b old new (FShift x fr k) =
  FShift x (mname b old new fr) (msub (b && negb (name_equal x old)) old new k).
Proof. msub_eq. Qed.
Lemma msub_FDrop : forall b old new x k, msub b old new (FDrop x k) = FDrop (mname b old new x) (msub b old new k).
Proof. msub_eq. Qed.
Lemma msub_FPrint : forall b old new l k, msub b old new (FPrint l k) = FPrint l (msub b old new k).
Proof. msub_eq. Qed.
Lemma msubb_nil : forall b old new, msubb b old new BrNil = BrNil.
Proof. msub_eq. Qed.
Lemma msubb_cons : forall b old new l p k r, msubb b old new (BrCons l p k r) =
  BrCons l p (msub (b && negb (name_equal p old)) old new k) (msubb b old new r).
Proof. msub_eq. Qed.

Definition modes (e1 : benv) (bl br : bool) : Prop := mode_ok bl (ident X) (map fst e1) /\ mode_ok br (ident Y) (map snd e1).
Lemma modes_cons e1 bl br x x' : bnd x x' -> modes e1 bl br ->
  modes ((ident x, ident x') :: e1) (bl && negb (name_equal x X)) (br && negb (name_equal x' Y)).
Proof.
  intros (B1 & B2 & _) [M1 M2]. split; cbn [map fst snd]; apply mode_ok_cons; auto.
Qed.

Theorem aeq_subst_gen :
  (forall f g e1 bl br, modes e1 bl br ->
     aeq (e1 ++ (ident X, ident Y) :: e2) f g -> aeq (e1 ++ e2) (msub bl X c f) (msub br Y c g)) /\
  (forall bs bs' e1 bl br, modes e1 bl br ->
     aeq_brs (e1 ++ (ident X, ident Y) :: e2) bs bs' -> aeq_brs (e1 ++ e2) (msubb bl X c bs) (msubb br Y c bs')).
Proof.
  apply form_branches_ind.
  all: intros.
  all: try match goal with Ha : aeq _ _ ?g |- _ => destruct g; cbn [aeq] in Ha; try contradiction end.
  all: try match goal with Ha : aeq_brs _ _ ?g |- _ => destruct g; cbn [aeq_brs] in Ha; try contradiction end.
  all: rewrite ?msub_FSend, ?msub_FRecv, ?msub_FSel, ?msub_FCase, ?msub_FNew, ?msub_FClose, ?msub_FWait, ?msub_FFwd,
         ?msub_FSplit, ?msub_FCall, ?msub_FCast, ?msub_FShift, ?msub_FDrop, ?msub_FPrint, ?msubb_nil, ?msubb_cons.
  all: cbn [aeq aeq_brs].
  all: match goal with M : modes _ _ _ |- _ => pose proof M as [M1 M2] end.
  all: repeat match goal with H : _ /\ _ |- _ => destruct H end.
  all: repeat match goal with |- _ /\ _ => split end; auto using aeqn_subst, aeqn_subst_list.
  all: match goal with
       | |- aeq (bind ?a ?b (bind ?a2 ?b2 (?E1 ++ _))) (msub _ _ _ ?k) _ =>
         match goal with IH : context [aeq _ k _] |- _ =>
           apply (IH _ ((ident a, ident b) :: (ident a2, ident b2) :: E1)); [apply modes_cons; [assumption | apply modes_cons; assumption] | assumption] end
       | |- aeq (bind ?a ?b (?E1 ++ _)) (msub _ _ _ ?k) _ =>
         match goal with IH : context [aeq _ k _] |- _ =>
           apply (IH _ ((ident a, ident b) :: E1)); [apply modes_cons; assumption | assumption] end
       end.
Qed.
End Inst.

(* ---------------------------------------------------------------- related bodies are erased *)
Lemma aeqn_list_erased e l l' : Forall2 (aeqn e) l l' -> map nn' l = l /\ map nn' l' = l'.
Proof. induction 1 as [|a b l l' H _ [IH1 IH2]]; cbn [map]; [auto|]. destruct (aeqn_erased _ _ _ H) as [E1 E2]. split; congruence. Qed.

Lemma aeq_erased :
  (forall f g e, aeq e f g -> nf' f = f /\ nf' g = g) /\
  (forall b b' e, aeq_brs e b b' -> nbs' b = b /\ nbs' b' = b').
Proof.
  apply form_branches_ind; intros.
  all: try match goal with Ha : aeq _ _ ?g |- _ => destruct g; cbn [aeq] in Ha; try contradiction end.
  all: try match goal with Ha : aeq_brs _ _ ?g |- _ => destruct g; cbn [aeq_brs] in Ha; try contradiction end.
  all: repeat match goal with H : _ /\ _ |- _ => destruct H end.
  all: repeat match goal with Hn : aeqn _ _ _ |- _ => apply aeqn_erased in Hn; destruct Hn as [? ?] end.
  all: repeat match goal with Hn : Forall2 (aeqn _) _ _ |- _ => apply aeqn_list_erased in Hn; destruct Hn as [? ?] end.
  all: repeat match goal with IH : forall g e, aeq e ?k g -> _, Ha : aeq _ ?k _ |- _ => destruct (IH _ _ Ha) as [? ?]; clear IH end.
  all: repeat match goal with IH : forall g e, aeq_brs e ?k g -> _, Ha : aeq_brs _ ?k _ |- _ => destruct (IH _ _ Ha) as [? ?]; clear IH end.
  all: cbn [nf' nbs']; split; congruence.
Qed.

(* ---------------------------------------------------------------- changing the correspondence *)
Definition ext (e e' : benv) : Prop := forall l a b, var_rel (l ++ e) a b -> var_rel (l ++ e') a b.
Lemma aeqn_ext e e' l a b : ext e e' -> aeqn (l ++ e) a b -> aeqn (l ++ e') a b.
Proof. intros He. unfold aeqn. destruct (isvar a); [|auto]. intros (H1 & H2 & H3 & H4). auto. Qed.
Lemma aeq_mono e e' : ext e e' ->
  (forall f g l, aeq (l ++ e) f g -> aeq (l ++ e') f g) /\
  (forall b b' l, aeq_brs (l ++ e) b b' -> aeq_brs (l ++ e') b b').
Proof.
  intros He. apply form_branches_ind; intros.
  all: try match goal with Ha : aeq _ _ ?g |- _ => destruct g; cbn [aeq] in Ha; try contradiction end.
  all: try match goal with Ha : aeq_brs _ _ ?g |- _ => destruct g; cbn [aeq_brs] in Ha; try contradiction end.
  all: cbn [aeq aeq_brs]; repeat match goal with H : _ /\ _ |- _ => destruct H end.
  all: repeat match goal with |- _ /\ _ => split end; eauto using aeqn_ext.
  all: try match goal with
       | |- aeq (bind ?a ?b (bind ?a2 ?b2 (?E1 ++ _))) ?k _ =>
         match goal with IH : context [aeq _ k _] |- _ => apply (IH _ ((ident a, ident b) :: (ident a2, ident b2) :: E1)); assumption end
       | |- aeq (bind ?a ?b (?E1 ++ _)) ?k _ =>
         match goal with IH : context [aeq _ k _] |- _ => apply (IH _ ((ident a, ident b) :: E1)); assumption end
       end.
  match goal with H : Forall2 _ _ _ |- _ => induction H; constructor; eauto using aeqn_ext end.
Qed.

Lemma ext_snoc e x : ext e (e ++ [(x, x)]).
Proof. intros l a b H. rewrite app_assoc. apply var_rel_snoc. exact H. Qed.
Lemma ext_snoc_inv e x : ext (e ++ [(x, x)]) e.
Proof. intros l a b H. rewrite app_assoc in H. apply var_rel_snoc in H. exact H. Qed.

(* ---------------------------------------------------------------- the forms in which the steps use it *)
Lemma isvar_nn'_eq c : isvar (nn' c) = isvar c.
Proof.
  unfold isvar. rewrite nn'_initialized, nn'_is_self. unfold nn'.
  destruct (initialized c) eqn:E1; cbn; [reflexivity|]. destruct (is_self c); cbn; reflexivity.
Qed.
Lemma nonvar_ident_nn' c : isvar c = false -> ident (nn' c) = "".
Proof.
  unfold isvar, nn'. destruct (initialized c); cbn; [reflexivity|]. destruct (is_self c); cbn; [reflexivity|].
  destruct (String.eqb_spec (ident c) ""); [auto | discriminate].
Qed.

(* instantiating the top entry; the replacement may carry any identifier *)
Lemma aeq_subst_top e X Y c c' k k' : bnd X Y -> isvar c = false -> nn' c' = nn' c ->
  aeq ((ident X, ident Y) :: e) k k' -> aeq e (nf' (subst X c k)) (nf' (subst Y c' k')).
Proof.
  intros (B1 & B2 & _ & _ & B5 & B6) Hc Ec H.
  rewrite <- (proj1 (subst_D X c)), <- (proj1 (subst_D Y c')), Ec.
  assert (Hv : isvar (nn' c) = false) by now rewrite isvar_nn'_eq.
  pose proof (proj1 (aeq_subst_gen X Y (nn' c) e B1 B2 B5 B6 Hv (nonvar_ident_nn' c Hc)) k k' [] true true) as G.
  cbn [app msub] in G. assert (G' : aeq e (subst X (nn' c) k) (subst Y (nn' c) k')).
  { apply G; [|exact H]. split; cbn; auto. }
  destruct (proj1 aeq_erased _ _ _ G') as [E1 E2]. now rewrite E1, E2.
Qed.

(* instantiating an identifier that is free on both sides *)
Lemma aeq_subst_free e X c c' f g : chan X = None -> ident X <> "" -> isvar c = false -> nn' c' = nn' c ->
  ~ In (ident X) (map fst e) -> ~ In (ident X) (map snd e) ->
  aeq e f g -> aeq e (nf' (subst X c f)) (nf' (subst X c' g)).
Proof.
  intros HX NX Hc Ec N1 N2 H.
  rewrite <- (proj1 (subst_D X c)), <- (proj1 (subst_D X c')), Ec.
  assert (Hv : isvar (nn' c) = false) by now rewrite isvar_nn'_eq.
  pose proof (proj1 (aeq_mono e (e ++ [(ident X, ident X)]) (ext_snoc e (ident X))) f g [] H) as H'. cbn [app] in H'.
  pose proof (proj1 (aeq_subst_gen X X (nn' c) [] HX HX NX NX Hv (nonvar_ident_nn' c Hc)) f g e true true) as G.
  cbn [msub] in G. rewrite app_nil_r in G.
  assert (G' : aeq e (subst X (nn' c) f) (subst X (nn' c) g)) by (apply G; [split; assumption | exact H']).
  destruct (proj1 aeq_erased _ _ _ G') as [E1 E2]. now rewrite E1, E2.
Qed.

(* ---------------------------------------------------------------- a channel for a channel (DUP) *)
Lemma name_equal_binder_chan x old : chan x = None -> initialized old = true -> name_equal x old = false.
Proof. intros H1 H2. unfold name_equal, initialized in *. rewrite H1. cbn. destruct (chan old); [|discriminate]. cbn. apply andb_false_r. Qed.

Lemma aeqn_subst_chan e old new a b : initialized old = true -> initialized new = true -> ident new = "" ->
  aeqn e a b -> aeqn e (name_subst old new a) (name_subst old new b).
Proof.
  intros Ho Hn Hi. unfold aeqn. destruct (isvar a) eqn:Ea.
  - intros (Eb & H). destruct (isvar_facts a Ea) as (A1 & _). destruct (isvar_facts b Eb) as (B1 & _).
    assert (E1 : name_subst old new a = a) by (unfold name_subst, initialized in *; rewrite A1; destruct (chan old); [reflexivity | discriminate]).
    assert (E2 : name_subst old new b = b) by (unfold name_subst, initialized in *; rewrite B1; destruct (chan old); [reflexivity | discriminate]).
    rewrite E1, E2, Ea. auto.
  - intros [<- Ia]. unfold name_subst. rewrite Ho, Hi, Ia. cbn [negb andb].
    destruct (initialized a && chan_eqb (chan a) (chan old)) eqn:E.
    + unfold isvar, initialized in *. cbn [chan is_self ident]. destruct (chan new); [|discriminate]. cbn. auto.
    + rewrite andb_false_r. cbn. rewrite Ea. auto.
Qed.

Lemma aeq_subst_chan old new : initialized old = true -> initialized new = true -> ident new = "" ->
  (forall f g e, aeq e f g -> aeq e (subst old new f) (subst old new g)) /\
  (forall b b' e, aeq_brs e b b' -> aeq_brs e (subst_brs old new b) (subst_brs old new b')).
Proof.
  intros Ho Hn Hi. apply form_branches_ind; intros.
  all: try match goal with Ha : aeq _ _ ?g |- _ => destruct g; cbn [aeq] in Ha; try contradiction end.
  all: try match goal with Ha : aeq_brs _ _ ?g |- _ => destruct g; cbn [aeq_brs] in Ha; try contradiction end.
  all: repeat match goal with H : _ /\ _ |- _ => destruct H end.
  all: cbn [subst subst_brs].
  all: repeat match goal with B : bnd ?x ?y |- _ =>
         rewrite ?(name_equal_binder_chan x old (proj1 B) Ho), ?(name_equal_binder_chan y old (proj1 (proj2 B)) Ho);
         revert B end; intros; cbn [negb andb aeq aeq_brs].
  all: repeat match goal with |- _ /\ _ => split end; auto using aeqn_subst_chan.
  match goal with H : Forall2 _ _ _ |- _ => induction H; cbn [map]; constructor; auto using aeqn_subst_chan end.
Qed.
