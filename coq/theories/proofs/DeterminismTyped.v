(* DeterminismTyped.v — C03 for typed configurations: the three hypotheses of `determinism_partial`
   (Determinism.v) are discharged from the run-time typing of C01 (spec/RtTyping.v `cfg_typed`,
   proofs/RtSafety.v) and the forest invariant `Topo` (spec/Topo.v):
     I_compat  two distinct enabled choices are independent: Topo gives at most one provider and
               one client per channel, typing tells which of the two may send (duality);
     I_err     there are no run-time errors (no_error_md);
     I_step    preservation_md for the typing; `Topo` along the run is taken from the premise
               `topo_reachable` shared with C01 / C02 (see the end of the file for what remains). *)
From stdpp Require Import gmap strings sorting.
Require Import Grits.Base Grits.ModeDefs Grits.Modes Grits.STypes Grits.Forms Grits.Subst Grits.TcDeps Grits.Expand
               Grits.Tc Grits.TcTop Grits.Runtime Grits.RuntimeFootprint
               Grits.spec.RtTyping Grits.spec.Topo Grits.proofs.RtSubst Grits.proofs.StepErrors Grits.proofs.RtSafety
               Grits.proofs.RtInit Grits.proofs.RtProgress Grits.proofs.RtTheorems.
Require Import Grits.proofs.RuntimeFacts Grits.proofs.Diamond Grits.proofs.Determinism Grits.proofs.AsyncSync.

Section TypedDet.
Variable D : tenv.
Variable F : list fundef.
Variable teq : sty -> sty -> Prop.
Hypothesis Hteq : teq_laws D teq.
Hypothesis HF : funs_typed D F teq.

(* which side of channel k a process is on, given the polarity of the type of k *)
Definition sideS (pp : proc) (k : cid) (T : sty) : Prop :=
  (own_chan pp k /\ pol_of_ty D T Pos) \/ (k ∈ form_chans (pr_body0 pp) /\ pol_of_ty D T Neg).
Definition sideR (pp : proc) (k : cid) (T : sty) : Prop :=
  (own_chan pp k /\ pol_of_ty D T Neg) \/ (k ∈ form_chans (pr_body0 pp) /\ pol_of_ty D T Pos).

Lemma typed_send_side Δ pp k m :
  proc_typed D F teq Δ pp -> action_of Async D pp = ASend k m ->
  msg_typed D teq Δ k m /\ exists T, Δ !! k = Some T /\ sideS pp k T.
Proof.
  intros Hp Ha. pose proof (typed_action D F teq Hteq HF Δ pp Hp) as Hv. rewrite Ha in Hv.
  inversion Hv as [k' m' Hmsg Hside| | |]; subst. split; [done|].
  destruct (msg_pol D teq Δ k m Hmsg) as (T & HT & Hpol). exists T. split; [done|].
  destruct Hside as [[Hown Hpos]|[Hin Hneg]]; rewrite ?Hpos, ?Hneg in Hpol; [left|right]; done.
Qed.

Lemma typed_recv_side Δ pp k :
  proc_typed D F teq Δ pp -> action_of Async D pp = ARecv k -> exists T, Δ !! k = Some T /\ sideR pp k T.
Proof.
  intros Hp Ha. pose proof (typed_action D F teq Hteq HF Δ pp Hp) as Hv. rewrite Ha in Hv.
  inversion Hv as [|k' Hk Hside Hrecv| |]; subst. exact Hside.
Qed.

(* two different processes are never on the same side of a channel *)
Lemma same_side_eq c p q pp qq k T :
  Topo c -> procs c !! p = Some pp -> procs c !! q = Some qq ->
  (sideS pp k T /\ sideS qq k T) \/ (sideR pp k T /\ sideR qq k T) -> p = q.
Proof.
  intros Ht Hp Hq H.
  assert (Hown : own_chan pp k -> own_chan qq k -> p = q).
  { intros H1 H2. assert (E : OProc p pp = OProc q qq); [|by injection E].
    apply (topo_prov_unique c Ht _ _ k); try done; cbn; by apply own_chan_provides. }
  assert (Href : k ∈ form_chans (pr_body0 pp) -> k ∈ form_chans (pr_body0 qq) -> p = q).
  { intros H1 H2. assert (E : OProc p pp = OProc q qq); [|by injection E].
    apply (topo_ref_unique c Ht _ _ k); done. }
  destruct H as [[[[H1 P1]|[H1 P1]] [[H2 P2]|[H2 P2]]]|[[[H1 P1]|[H1 P1]] [[H2 P2]|[H2 P2]]]]; auto;
    exfalso; eapply (pol_unique D); eauto.
Qed.

(* a process closes channels only when it receives a forward request on its own provider channel *)
Lemma typed_closes_run Δ c p pp x :
  cfg_typed D F teq Δ c -> procs c !! p = Some pp -> x ∈ closes Async D c (Run p) ->
  exists st m, action_of Async D pp = ARecv x /\ own_chan pp x /\ chans c !! x = Some st /\
               ch_buf st = Some m /\ m_rule m = RFWD.
Proof.
  intros Hc Hp. cbn [closes]. rewrite Hp.
  destruct (action_of Async D pp) as [| |k m|k| |k pv|w] eqn:Ea; try (intros H; by apply elem_of_nil in H).
  destruct (chans c !! k) as [st|] eqn:Ek; [|intros H; by apply elem_of_nil in H].
  destruct (ch_buf st) as [m|] eqn:Eb; [|intros H; by apply elem_of_nil in H].
  unfold closes_of. destruct (rule_eqb (m_rule m) RFWD) eqn:Er; [|intros H; by apply elem_of_nil in H].
  apply rule_eqb_eq in Er. cbn [andb]. destruct (negb _); [|intros H; by apply elem_of_nil in H].
  intros Hx.
  pose proof (ct_msgs D F teq Δ c Hc k st m Ek Eb) as (T & HT & Hm). rewrite Er in Hm. destruct Hm as (Hneg & _).
  destruct (typed_recv_side Δ pp k (ct_procs D F teq Δ c Hc p pp Hp) Ea) as (T' & HT' & Hside).
  rewrite HT in HT'. injection HT' as <-.
  assert (Hown : own_chan pp k).
  { destruct Hside as [[H _]|[_ Hpos]]; [done|]. exfalso. eapply (pol_unique D); eauto. }
  rewrite (own_chan_only pp k x Hown Hx). exists st, m. done.
Qed.

Theorem typed_async_discipline Δ c : cfg_typed D F teq Δ c -> Topo c -> async_discipline D c.
Proof.
  intros Hc Ht p q pp qq Hpq Hp Hq.
  pose proof (ct_procs D F teq Δ c Hc p pp Hp) as Htp. pose proof (ct_procs D F teq Δ c Hc q qq Hq) as Htq.
  split; [|split; [|split]].
  - intros k [[m1 E1] [m2 E2]].
    destruct (typed_send_side Δ pp k m1 Htp E1) as (_ & T & HT & S1).
    destruct (typed_send_side Δ qq k m2 Htq E2) as (_ & T' & HT' & S2).
    rewrite HT in HT'. injection HT' as <-. apply Hpq. eapply same_side_eq; eauto.
  - intros k [E1 E2]. unfold is_recv_on in E1, E2.
    destruct (typed_recv_side Δ pp k Htp E1) as (T & HT & S1).
    destruct (typed_recv_side Δ qq k Htq E2) as (T' & HT' & S2).
    rewrite HT in HT'. injection HT' as <-. apply Hpq. eapply same_side_eq; eauto.
  - intros x Hx Hy.
    destruct (typed_closes_run Δ c p pp x Hc Hp Hx) as (st & m & Eap & Hown & Ek & Eb & Er).
    unfold footprint, footprint_ch in Hy. apply elem_of_app in Hy as [Hy|Hy].
    + cbn [reads] in Hy. rewrite Hq in Hy.
      destruct (action_of Async D qq) as [| |k m'|k| |k pv|w] eqn:Eaq; cbn in Hy; try (by apply elem_of_nil in Hy);
        apply elem_of_list_singleton in Hy as <-.
      * (* q sends on x *)
        destruct (typed_send_side Δ qq x m' Htq Eaq) as (_ & T & HT & [[Hown' _]|[Href _]]).
        -- apply Hpq. assert (E : OProc p pp = OProc q qq); [|by injection E].
           apply (topo_prov_unique c Ht _ _ x); try done; cbn; by apply own_chan_provides.
        -- assert (E : OProc q qq = OMsg x m); [|discriminate].
           apply (topo_ref_unique c Ht _ _ x); try done; [by exists st|]. cbn. rewrite Er. set_solver.
      * (* q receives on x *)
        destruct (typed_recv_side Δ pp x Htp Eap) as (T & HT & S1).
        destruct (typed_recv_side Δ qq x Htq Eaq) as (T' & HT' & S2).
        rewrite HT in HT'. injection HT' as <-. apply Hpq. eapply same_side_eq; eauto.
    + destruct (typed_closes_run Δ c q qq x Hc Hq Hy) as (_ & _ & _ & Hown' & _).
      apply Hpq. assert (E : OProc p pp = OProc q qq); [|by injection E].
      apply (topo_prov_unique c Ht _ _ x); try done; cbn; by apply own_chan_provides.
  - intros x Hx. destruct (typed_closes_run Δ c p pp x Hc Hp Hx) as (st & m & _ & _ & Ek & _). by eexists.
Qed.

(* ------------------------------------------------------------------ synchronous mode *)
Lemma typed_closes_rdv Δ c s r c' x :
  cfg_typed D F teq Δ c -> step Sync D F c (Rendezvous s r) = SStep c' -> x ∈ closes Sync D c (Rendezvous s r) ->
  exists ps pr m st, procs c !! s = Some ps /\ procs c !! r = Some pr /\ action_of Sync D ps = ASend x m /\
                     action_of Sync D pr = ARecv x /\ own_chan pr x /\ chans c !! x = Some st /\ ch_closed st = false.
Proof.
  intros Hc Hs. destruct (sync_rdv_enabled _ _ _ _ _ _ Hs) as (Hsr & ps & pr & k & m & st & Es & Er & Eas & Ear & _ & Ek & Ecl).
  cbn [closes]. rewrite Es, Er, Eas. unfold closes_of.
  destruct (rule_eqb (m_rule m) RFWD) eqn:Erl; [|intros H; by apply elem_of_nil in H].
  apply rule_eqb_eq in Erl. cbn [andb]. destruct (negb _); [|intros H; by apply elem_of_nil in H].
  intros Hx. rewrite action_of_sync in Eas, Ear.
  destruct (typed_send_side Δ ps k m (ct_procs D F teq Δ c Hc s ps Es) Eas) as ((T & HT & Hm) & _).
  rewrite Erl in Hm. destruct Hm as (Hneg & _).
  destruct (typed_recv_side Δ pr k (ct_procs D F teq Δ c Hc r pr Er) Ear) as (T' & HT' & Hside).
  rewrite HT in HT'. injection HT' as <-.
  assert (Hown : own_chan pr k).
  { destruct Hside as [[H _]|[_ Hpos]]; [done|]. exfalso. eapply (pol_unique D); eauto. }
  rewrite (own_chan_only pr k x Hown Hx). exists ps, pr, m, st. rewrite !action_of_sync. done.
Qed.

Lemma closes_run_sync_nil c p : bufs_empty c -> closes Sync D c (Run p) = [].
Proof.
  intros Hb. cbn [closes]. destruct (procs c !! p) as [pp|]; [|done].
  destruct (action_of Sync D pp); try done. destruct (chans c !! c0) as [st|] eqn:Ek; [|done].
  by rewrite (Hb _ _ Ek).
Qed.

Theorem typed_sync_discipline Δ c : cfg_typed D F teq Δ c -> Topo c -> bufs_empty c -> sync_discipline D F c.
Proof.
  intros Hc Ht Hb.
  assert (Hone : forall p q pp qq, p ≠ q -> procs c !! p = Some pp -> procs c !! q = Some qq ->
     (forall k, ~ (is_send_on (action_of Sync D pp) k /\ is_send_on (action_of Sync D qq) k)) /\
     (forall k, ~ (is_recv_on (action_of Sync D pp) k /\ is_recv_on (action_of Sync D qq) k))).
  { intros p q pp qq Hpq Hp Hq. rewrite !action_of_sync.
    destruct (typed_async_discipline Δ c Hc Ht p q pp qq Hpq Hp Hq) as (H1 & H2 & _). done. }
  split; [done|]. split; [done|].
  intros a b c1 c2 Hab Ha Hbs.
  destruct a as [p|s r|f t]; [| |by cbn in Ha; destruct (bool_decide (f = t))].
  { rewrite (closes_run_sync_nil c p Hb). split; [intros x Hx; by apply elem_of_nil in Hx|intros x Hx; by apply elem_of_nil in Hx]. }
  split.
  - intros x Hx Hy.
    destruct (typed_closes_rdv Δ c s r c1 x Hc Ha Hx) as (ps & pr & m & st & Es & Er & Eas & Ear & Hown & Ek & Ecl).
    destruct b as [q|s' r'|f' t']; [| |by cbn in Hbs; destruct (bool_decide (f' = t'))].
    + unfold footprint_ch in Hy. rewrite (closes_run_sync_nil c q Hb), app_nil_r in Hy.
      destruct (sync_run_enabled _ _ _ _ _ Hb Hbs) as (qq & Hq & [Hr|(k' & st' & _ & Hr & Ek' & Ecl')]); rewrite Hr in Hy.
      * by apply elem_of_nil in Hy.
      * apply elem_of_list_singleton in Hy as <-. rewrite Ek in Ek'. injection Ek' as <-. congruence.
    + (* another rendezvous touching x: it is on x too, hence the same pair *)
      destruct (sync_rdv_enabled _ _ _ _ _ _ Hbs) as (Hsr' & ps' & pr' & k' & m' & st' & Es' & Er' & Eas' & Ear' & Hrd' & Ek' & Ecl').
      assert (x = k').
      { unfold footprint_ch in Hy. apply elem_of_app in Hy as [Hy|Hy].
        - rewrite Hrd' in Hy. by apply elem_of_list_singleton in Hy.
        - destruct (typed_closes_rdv Δ c s' r' c2 x Hc Hbs Hy) as (ps2 & pr2 & m2 & st2 & Es2 & Er2 & Eas2 & _).
          rewrite Es' in Es2. injection Es2 as <-. rewrite Eas' in Eas2. by injection Eas2. }
      subst k'. apply Hab.
      assert (s = s').
      { destruct (decide (s = s')) as [|Hne]; [done|]. destruct (Hone s s' ps ps' Hne Es Es') as [Hss _].
        destruct (Hss x). split; eexists; eauto. }
      assert (r = r').
      { destruct (decide (r = r')) as [|Hne]; [done|]. destruct (Hone r r' pr pr' Hne Er Er') as [_ Hrr].
        destruct (Hrr x). by split. }
      congruence.
  - intros x Hx. destruct (typed_closes_rdv Δ c s r c1 x Hc Ha Hx) as (_ & _ & _ & st & _ & _ & _ & _ & _ & Ek & _).
    by eexists.
Qed.

(* ------------------------------------------------------------------ the invariant *)
Definition typed_inv (md : exec_mode) (c : config) : Prop :=
  (exists Δ, cfg_typed D F teq Δ c) /\ Topo c /\ ns_ok c /\ (md = Sync -> bufs_empty c).

Lemma typed_inv_compat md c a b c1 c2 :
  is_np md = false -> typed_inv md c -> a ≠ b ->
  step md D F c a = SStep c1 -> step md D F c b = SStep c2 -> indep md D c a b.
Proof.
  intros Hnp ((Δ & Hc) & Ht & _ & Hb) Hab Ha Hbs. destruct md; [| |done].
  - eapply async_discipline_indep; eauto using typed_async_discipline.
  - eapply sync_discipline_indep; eauto using typed_sync_discipline.
Qed.

Lemma typed_inv_safe md c ch who e :
  is_np md = false -> typed_inv md c -> step md D F c ch ≠ SError who e.
Proof.
  intros Hnp ((Δ & Hc) & Ht & _). eapply (no_error_md D F teq Hteq HF); eauto.
  intros self p k st. eapply topo_closed_unused; eauto.
Qed.

Lemma typed_inv_step md c ch c' :
  is_np md = false -> typed_inv md c -> Topo c' -> step md D F c ch = SStep c' -> typed_inv md c'.
Proof.
  intros Hnp ((Δ & Hc) & Ht & Hns & Hb) Ht' Hs. split; [|split; [done|split]].
  - destruct (preservation_md D F teq Hteq HF md Δ c ch c' Hnp Hc) as (Δ' & _ & Hc'); [|done|eauto].
    intros self p k st. eapply topo_closed_unused; eauto.
  - eapply ns_ok_step; eauto.
  - intros ->. eapply sync_step_bufs_empty; eauto.
Qed.

(* determinism for typed configurations, relative to an invariant that carries Topo along the run *)
Section Run.
Variable md : exec_mode.
Hypothesis Hnp : is_np md = false.
(* the configurations considered: closed under steps, and all of them are forests *)
Variable R : config -> Prop.
Hypothesis R_step : forall c ch c', R c -> step md D F c ch = SStep c' -> R c'.
Hypothesis R_topo : forall c, R c -> Topo c.

Definition RI (c : config) : Prop := R c /\ typed_inv md c.

Lemma RI_step c ch c' : RI c -> step md D F c ch = SStep c' -> RI c'.
Proof. intros [HR HI] Hs. split; [eauto|]. eapply typed_inv_step; eauto. Qed.

Theorem determinism_typed_cfg c pick1 pick2 f1 f2 t1 :
  RI c -> exec_run f1 pick1 md D F c = RQuiescent t1 -> (f1 <= f2)%nat ->
  exists t2, exec_run f2 pick2 md D F c = RQuiescent t2 /\ cfg_equiv t2 t1 /\ labels t2 ≡ₚ labels t1.
Proof.
  intros HI. apply (determinism_partial_safe md D F RI).
  - apply RI_step.
  - intros c0 a b c1 c2 [_ H0]. by apply typed_inv_compat.
  - intros c0 ch who e [_ H0]. by apply typed_inv_safe.
  - done.
  - apply HI.
Qed.
End Run.
End TypedDet.

(* ------------------------------------------------------------------ accepted closed programs *)
Section Accepted.
Variable teqD : tenv -> sty -> sty -> Prop.
(* the premises the theorems of C01 / C02 (proofs/RtTheorems.v) carry as well *)
Hypothesis teq_ok : forall p p', typecheck p = Accept p' -> teq_laws (p_types p') (teqD (p_types p')).
Hypothesis tc_annotations_typed : forall p p',
  typecheck p = Accept p' -> in_fragment p' -> static_typed (teqD (p_types p')) p'.
Hypothesis topo_reachable : forall p p' md c,
  typecheck p = Accept p' -> in_fragment p' -> is_np md = false ->
  reachable (p_types p') (p_funs p') md (init_config p') c -> Topo c.

Lemma initial_RI p p' md :
  typecheck p = Accept p' -> in_fragment p' -> is_np md = false ->
  RI (p_types p') (p_funs p') (teqD (p_types p')) md (reachable (p_types p') (p_funs p') md (init_config p')) (init_config p').
Proof.
  intros Ha Hf Hnp. split; [apply reach_refl|]. split; [|split; [|split]].
  - exists (init_delta p'). apply initial_typed; [exact (teq_ok p p' Ha)|exact (tc_annotations_typed p p' Ha Hf)].
  - exact (topo_reachable p p' md _ Ha Hf Hnp (reach_refl _ _ _ _)).
  - apply ns_ok_init.
  - intros _. apply bufs_empty_init.
Qed.

(* C03 for every accepted closed program, asynchronous and synchronous polarized mode: if one run
   reaches quiescence, every run does, with the same processes, channels and multiset of labels *)
Theorem determinism_typed p p' md pick1 pick2 f1 f2 t1 :
  typecheck p = Accept p' -> in_fragment p' -> is_np md = false ->
  exec_run f1 pick1 md (p_types p') (p_funs p') (init_config p') = RQuiescent t1 -> (f1 <= f2)%nat ->
  exists t2, exec_run f2 pick2 md (p_types p') (p_funs p') (init_config p') = RQuiescent t2 /\
             cfg_equiv t2 t1 /\ labels t2 ≡ₚ labels t1.
Proof.
  intros Ha Hf Hnp. pose proof (tc_annotations_typed p p' Ha Hf) as [HF _].
  apply (determinism_typed_cfg (p_types p') (p_funs p') (teqD (p_types p')) (teq_ok p p' Ha) HF md Hnp
           (reachable (p_types p') (p_funs p') md (init_config p'))).
  - intros c ch c' Hr Hs. eapply reach_step; eauto.
  - intros c Hr. exact (topo_reachable p p' md c Ha Hf Hnp Hr).
  - exact (initial_RI p p' md Ha Hf Hnp).
Qed.

(* ... and the two polarized modes print the same multiset *)
Theorem async_sync_agree_typed p p' pick1 f1 t1 :
  typecheck p = Accept p' -> in_fragment p' ->
  exec_run f1 pick1 Sync (p_types p') (p_funs p') (init_config p') = RQuiescent t1 ->
  exists n, forall pick2 f2, (n < f2)%nat ->
    exists t2, exec_run f2 pick2 Async (p_types p') (p_funs p') (init_config p') = RQuiescent t2 /\
               labels t2 ≡ₚ labels t1.
Proof.
  intros Ha Hf. pose proof (tc_annotations_typed p p' Ha Hf) as [HF _].
  set (D := p_types p'). set (F := p_funs p').
  set (I := RI D F (teqD D) Async (reachable D F Async (init_config p'))).
  assert (Rstep : forall c ch c', reachable D F Async (init_config p') c -> step Async D F c ch = SStep c' ->
                                  reachable D F Async (init_config p') c').
  { intros c0 ch0 c0' Hr Hs0. eapply reach_step; eauto. }
  assert (Rtopo : forall c, reachable D F Async (init_config p') c -> Topo c).
  { intros c0 Hr. exact (topo_reachable p p' Async c0 Ha Hf eq_refl Hr). }
  apply (async_sync_agree_partial D F I).
  - intros c ch c' HI Hs.
    exact (RI_step D F (teqD D) (teq_ok p p' Ha) HF Async eq_refl _ Rstep Rtopo c ch c' HI Hs).
  - intros c a b c1 c2 [_ H0]. by apply (typed_inv_compat D F (teqD D) (teq_ok p p' Ha) HF).
  - intros c a b w e c' [_ H0] He. by destruct (typed_inv_safe D F (teqD D) (teq_ok p p' Ha) HF Async c a w e eq_refl H0).
  - exact (initial_RI p p' Async Ha Hf eq_refl).
  - apply ns_ok_init.
  - apply bufs_empty_init.
Qed.
End Accepted.
