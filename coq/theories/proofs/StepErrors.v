(* StepErrors.v — exact characterisation of when `Runtime.step` returns `SError`.
   This is the list of situations that the invariants of C01 must exclude:
     * `action_err`  : the static shape errors of `action_of` (need only the shape of the body) and
                       the polarity lookup of a forward;
     * `msg_err`     : a message of the wrong kind / label / shape in `on_message`;
     * call instantiation failure, send on a closed / unknown channel, receive on an unknown channel.
   `dup_effect` and the "not an internal form" branch of `internal_effect` are shown unreachable
   from `step` (ADup is only chosen for a process with more than one provider). *)
From stdpp Require Import gmap strings.
Require Import Grits.Base Grits.ModeDefs Grits.Modes Grits.STypes Grits.Forms Grits.Subst Grits.TcDeps Grits.Expand
               Grits.Runtime.

(* the channel a receive-like form listens on *)
Definition target_of (p : proc) (n : name) : option cid := if is_self n then self_chan p else chan n.

(* ------------------------------------------------------------------ action_of = AErr *)
Inductive action_err (md : exec_mode) (D : tenv) (p : proc) : rt_err -> Prop :=
| AE_send_cont to pay cont :
    pr_body0 p = FSend to pay cont -> is_self to = false -> is_self cont = false ->
    action_err md D p "in RCV rule, the continuation channel should be self"
| AE_recv_uninit pay cont from k :
    pr_body0 p = FRecv pay cont from k -> target_of p from = None ->
    action_err md D p "Channel not initialized"
| AE_sel_noself to l cont :
    pr_body0 p = FSel to l cont -> is_self to = false -> is_self cont = false ->
    action_err md D p "neither the sender or continuation is self"
| AE_case_uninit from bs :
    pr_body0 p = FCase from bs -> target_of p from = None ->
    action_err md D p "Channel not initialized"
| AE_close_client c :
    pr_body0 p = FClose c -> is_self c = false ->
    action_err md D p "Found a close on a client"
| AE_wait_self c k :
    pr_body0 p = FWait c k -> is_self c = true ->
    action_err md D p "Found a wait on self"
| AE_wait_uninit c k :
    pr_body0 p = FWait c k -> is_self c = false -> chan c = None ->
    action_err md D p "Channel not initialized"
| AE_drop_self c k :
    pr_body0 p = FDrop c k -> is_self c = true ->
    action_err md D p "Found a drop on self"
| AE_fwd_not_self to from d :
    pr_body0 p = FFwd to from d -> is_self to = false ->
    action_err md D p "should forward on self"
| AE_fwd_unknown to from d :
    pr_body0 p = FFwd to from d -> is_self to = true -> is_np md = false ->
    fwd_polarity D from = Ok UnknownPol ->
    action_err md D p "forward has an unknown polarity"
| AE_fwd_panic to from d w :
    pr_body0 p = FFwd to from d -> is_self to = true -> is_np md = false ->
    fwd_polarity D from = Panic w ->
    action_err md D p w
| AE_fwd_hang to from d w :
    pr_body0 p = FFwd to from d -> is_self to = true -> is_np md = false ->
    fwd_polarity D from = Hang w ->
    action_err md D p w
| AE_split_self x y from k :
    pr_body0 p = FSplit x y from k -> is_self from = true ->
    action_err md D p "should not split on self"
| AE_cast_cont to cont :
    pr_body0 p = FCast to cont -> is_self to = false -> is_self cont = false ->
    action_err md D p "in SHF rule, the continuation channel should be self"
| AE_shift_uninit x from k :
    pr_body0 p = FShift x from k -> target_of p from = None ->
    action_err md D p "Channel not initialized".

Lemma send_on_not_err p t m e : send_on p t m <> AErr e.
Proof. unfold send_on. destruct (multi p); [discriminate|]. destruct t; discriminate. Qed.
Lemma internal_not_err p e : internal p <> AErr e.
Proof. unfold internal. destruct (multi p); discriminate. Qed.
Lemma recv_on_err p t e : recv_on p t = AErr e <-> t = None /\ e = "Channel not initialized".
Proof.
  unfold recv_on. destruct t as [c|].
  - split; [destruct (multi p); discriminate | intros [? _]; discriminate].
  - split; [intros [= <-]; auto | intros [_ ->]; reflexivity].
Qed.

Lemma action_of_err_iff md D p e : action_of md D p = AErr e <-> action_err md D p e.
Proof.
  split.
  - unfold action_of. destruct (pr_body0 p) eqn:Eb.
    + (* FSend *) destruct (is_self to) eqn:E1; [intros H; exfalso; eapply send_on_not_err; eauto|].
      destruct (is_self cont) eqn:E2; simpl; [intros H; exfalso; eapply send_on_not_err; eauto|].
      intros [= <-]. eapply AE_send_cont; eauto.
    + (* FRecv *) intros H.
      assert (Ht : recv_on p (target_of p from) = AErr e) by (unfold target_of; destruct (is_self from); exact H).
      apply recv_on_err in Ht. destruct Ht as [Ht ->]. eapply AE_recv_uninit; eauto.
    + (* FSel *) destruct (is_self to) eqn:E1; [intros H; exfalso; eapply send_on_not_err; eauto|].
      destruct (is_self cont) eqn:E2; [intros H; exfalso; eapply send_on_not_err; eauto|].
      intros [= <-]. eapply AE_sel_noself; eauto.
    + (* FCase *) intros H.
      assert (Ht : recv_on p (target_of p from) = AErr e) by (unfold target_of; destruct (is_self from); exact H).
      apply recv_on_err in Ht. destruct Ht as [Ht ->]. eapply AE_case_uninit; eauto.
    + (* FNew *) intros H; exfalso; eapply internal_not_err; eauto.
    + (* FClose *) destruct (is_self c) eqn:E1; [intros H; exfalso; eapply send_on_not_err; eauto|].
      intros [= <-]. eapply AE_close_client; eauto.
    + (* FWait *) destruct (is_self c) eqn:E1.
      * intros [= <-]. eapply AE_wait_self; eauto.
      * intros H. apply recv_on_err in H. destruct H as [Ht ->]. eapply AE_wait_uninit; eauto.
    + (* FFwd *) destruct (is_self to) eqn:E1; simpl; [|intros [= <-]; eapply AE_fwd_not_self; eauto].
      destruct (is_np md) eqn:Enp; [destruct (chan from); discriminate|].
      destruct (fwd_polarity D from) as [[| |]|w|w] eqn:Ep.
      * destruct (chan from); discriminate.
      * destruct (chan from); discriminate.
      * intros [= <-]. eapply AE_fwd_unknown; eauto.
      * intros [= <-]. eapply AE_fwd_panic; eauto.
      * intros [= <-]. eapply AE_fwd_hang; eauto.
    + (* FSplit *) destruct (is_self from) eqn:E1; [|intros H; exfalso; eapply internal_not_err; eauto].
      intros [= <-]. eapply AE_split_self; eauto.
    + (* FCall *) intros H; exfalso; eapply internal_not_err; eauto.
    + (* FCast *) destruct (is_self to) eqn:E1; [intros H; exfalso; eapply send_on_not_err; eauto|].
      destruct (is_self cont) eqn:E2; simpl; [intros H; exfalso; eapply send_on_not_err; eauto|].
      intros [= <-]. eapply AE_cast_cont; eauto.
    + (* FShift *) intros H.
      assert (Ht : recv_on p (target_of p from) = AErr e) by (unfold target_of; destruct (is_self from); exact H).
      apply recv_on_err in Ht. destruct Ht as [Ht ->]. eapply AE_shift_uninit; eauto.
    + (* FDrop *) destruct (is_self c) eqn:E1; [|intros H; exfalso; eapply internal_not_err; eauto].
      intros [= <-]. eapply AE_drop_self; eauto.
    + (* FPrint *) intros H; exfalso; eapply internal_not_err; eauto.
  - intros H. unfold action_of.
    destruct H as [to pay cont Eb E1 E2|pay cont from k Eb Ht|to l cont Eb E1 E2|from bs Eb Ht|c Eb E1|c k Eb E1
                  |c k Eb E1 E2|c k Eb E1|to from d Eb E1|to from d Eb E1 Enp Ep|to from d w Eb E1 Enp Ep
                  |to from d w Eb E1 Enp Ep|x y from k Eb E1|to cont Eb E1 E2|x from k Eb Ht];
      rewrite Eb; unfold target_of in *;
      repeat match goal with H : is_self _ = _ |- _ => rewrite H; clear H end; simpl; try reflexivity.
    + destruct (is_self from); rewrite Ht; reflexivity.
    + destruct (is_self from); rewrite Ht; reflexivity.
    + rewrite E2. reflexivity.
    + rewrite Enp, Ep. reflexivity.
    + rewrite Enp, Ep. reflexivity.
    + rewrite Enp, Ep. reflexivity.
    + destruct (is_self from); rewrite Ht; reflexivity.
Qed.

(* the unknown polarity never comes out of the polarity table *)
Lemma fwd_polarity_known D n : fwd_polarity D n <> Ok UnknownPol.
Proof.
  unfold fwd_polarity. destruct (nty n) as [t|]; [|discriminate].
  assert (Hp : forall u, polarity_of u <> Ok UnknownPol) by (intros u; destruct u; discriminate).
  destruct t; try apply Hp. destruct (unfold D _) as [[u|]|w|w]; try discriminate. apply Hp.
Qed.

(* ------------------------------------------------------------------ on_message = EErr *)
Definition body_is_fwd (f : form) : bool := match f with FFwd _ _ _ => true | _ => false end.
(* FWD / GC requests are handled before the form is looked at, except by forwards *)
Definition is_request (p : proc) (m : msg) : bool :=
  (rule_eqb (m_rule m) RFWD || rule_eqb (m_rule m) RGC) && negb (body_is_fwd (pr_body0 p)).

Inductive msg_err (p : proc) (m : msg) : rt_err -> Prop :=
| ME_rcv pay cont from k :
    pr_body0 p = FRecv pay cont from k -> is_self from = true -> m_rule m <> RRCV -> msg_err p m "expected RCV"
| ME_snd pay cont from k :
    pr_body0 p = FRecv pay cont from k -> is_self from = false -> m_rule m <> RSND -> msg_err p m "expected SND"
| ME_bra from bs :
    pr_body0 p = FCase from bs -> is_self from = true -> m_rule m <> RBRA -> msg_err p m "expected BRA"
| ME_sel from bs :
    pr_body0 p = FCase from bs -> is_self from = false -> m_rule m <> RSEL -> msg_err p m "expected SEL"
| ME_label from bs :
    pr_body0 p = FCase from bs -> m_rule m = (if is_self from then RBRA else RSEL) ->
    find_branch (m_label m) bs = None -> msg_err p m "no matching labels found"
| ME_cls c k :
    pr_body0 p = FWait c k -> m_rule m <> RCLS -> msg_err p m "expected CLS"
| ME_shf x from k :
    pr_body0 p = FShift x from k -> is_self from = true -> m_rule m <> RSHF -> msg_err p m "expected SHF"
| ME_cst x from k :
    pr_body0 p = FShift x from k -> is_self from = false -> m_rule m <> RCST -> msg_err p m "expected CST"
| ME_fwd_rcv to from :
    pr_body0 p = FFwd to from false -> m_rule m = RRCV ->
    msg_err p m "a positive forward should never receive RCV messages"
| ME_fwd_other to from :
    pr_body0 p = FFwd to from false -> (m_rule m = RSHF \/ m_rule m = RBRA \/ m_rule m = RGC) ->
    msg_err p m "forward should handle message"
| ME_fwd_noprov to from :
    pr_body0 p = FFwd to from false -> m_rule m = RFWD -> m_provs m = [] ->
    msg_err p m "index out of range (FWD without providers)"
| ME_not_receiving :
    match pr_body0 p with
    | FRecv _ _ _ _ | FCase _ _ | FWait _ _ | FShift _ _ _ | FFwd _ _ _ => False
    | _ => True
    end -> msg_err p m "receive in a form that does not receive".

Lemma rule_eqb_eq a b : rule_eqb a b = true <-> a = b.
Proof. destruct a, b; simpl; split; intros; try discriminate; try reflexivity. Qed.
Lemma rule_eqb_neq a b : rule_eqb a b = false <-> a <> b.
Proof. destruct a, b; simpl; split; intros; try discriminate; try congruence; try reflexivity. Qed.

Lemma droppable_fwds_ok self p l : exists ss cs p', droppable_fwds self p l = (ss, cs, p').
Proof. destruct (droppable_fwds self p l) as [[ss cs] p']. eauto. Qed.

Lemma on_message_err_iff self p m e :
  on_message self p m = EErr e <-> is_request p m = false /\ msg_err p m e.
Proof.
  unfold on_message, is_request.
  change (match pr_body0 p with FFwd _ _ _ => true | _ => false end) with (body_is_fwd (pr_body0 p)).
  destruct (rule_eqb (m_rule m) RFWD && negb (body_is_fwd (pr_body0 p))) eqn:Ef.
  { split; [discriminate|]. intros [H _]. apply andb_true_iff in Ef. destruct Ef as [E1 E2]. rewrite E1, E2 in H. discriminate. }
  destruct (rule_eqb (m_rule m) RGC && negb (body_is_fwd (pr_body0 p))) eqn:Eg.
  { split.
    - destruct (droppable_fwds self p (free_names (pr_body0 p))) as [[ss cs] p']. discriminate.
    - intros [H _]. apply andb_true_iff in Eg. destruct Eg as [Eg1 Eg2]. rewrite Eg1, Eg2 in H.
      rewrite orb_true_r in H. discriminate. }
  assert (Hreq : (rule_eqb (m_rule m) RFWD || rule_eqb (m_rule m) RGC) && negb (body_is_fwd (pr_body0 p)) = false).
  { destruct (body_is_fwd (pr_body0 p)); simpl in *; [apply andb_false_r|].
    rewrite andb_true_r in *. rewrite Ef, Eg. reflexivity. }
  rewrite Hreq. clear Ef Eg Hreq.
  split.
  - intros H. split; [reflexivity|].
    destruct (pr_body0 p) eqn:Eb; try (injection H as <-; apply ME_not_receiving; rewrite Eb; exact I).
    + (* FRecv *) destruct (is_self from) eqn:E1.
      * destruct (rule_eqb (m_rule m) RRCV) eqn:Er; [discriminate|]. injection H as <-.
        eapply ME_rcv; eauto. apply rule_eqb_neq; auto.
      * destruct (rule_eqb (m_rule m) RSND) eqn:Er; [discriminate|]. injection H as <-.
        eapply ME_snd; eauto. apply rule_eqb_neq; auto.
    + (* FCase *) destruct (is_self from) eqn:E1.
      * destruct (rule_eqb (m_rule m) RBRA) eqn:Er.
        -- destruct (find_branch (m_label m) bs) as [[pay k]|] eqn:Efb; [discriminate|]. injection H as <-.
           eapply ME_label; eauto. rewrite E1. apply rule_eqb_eq; auto.
        -- injection H as <-. eapply ME_bra; eauto. apply rule_eqb_neq; auto.
      * destruct (rule_eqb (m_rule m) RSEL) eqn:Er.
        -- destruct (find_branch (m_label m) bs) as [[pay k]|] eqn:Efb; [discriminate|]. injection H as <-.
           eapply ME_label; eauto. rewrite E1. apply rule_eqb_eq; auto.
        -- injection H as <-. eapply ME_sel; eauto. apply rule_eqb_neq; auto.
    + (* FWait *) destruct (rule_eqb (m_rule m) RCLS) eqn:Er; [discriminate|]. injection H as <-.
      eapply ME_cls; eauto. apply rule_eqb_neq; auto.
    + (* FFwd *) destruct droppable.
      * destruct (droppable_fwds self p _) as [[ss cs] p']. discriminate.
      * destruct (m_rule m) eqn:Er; try discriminate; try (injection H as <-).
        -- eapply ME_fwd_rcv; eauto.
        -- eapply ME_fwd_other; eauto.
        -- eapply ME_fwd_other; eauto.
        -- destruct (m_provs m) eqn:Ep; [|discriminate]. injection H as <-. eapply ME_fwd_noprov; eauto.
        -- eapply ME_fwd_other; eauto.
    + (* FShift *) destruct (is_self from) eqn:E1.
      * destruct (rule_eqb (m_rule m) RSHF) eqn:Er; [discriminate|]. injection H as <-.
        eapply ME_shf; eauto. apply rule_eqb_neq; auto.
      * destruct (rule_eqb (m_rule m) RCST) eqn:Er; [discriminate|]. injection H as <-.
        eapply ME_cst; eauto. apply rule_eqb_neq; auto.
  - intros [_ H].
    destruct H as [pay cont from k Eb E1 Hr|pay cont from k Eb E1 Hr|from bs Eb E1 Hr|from bs Eb E1 Hr|from bs Eb Hr Hl
                  |c k Eb Hr|x from k Eb E1 Hr|x from k Eb E1 Hr|to from Eb Hr|to from Eb Hr|to from Eb Hr Hp|Hb];
      try rewrite Eb; try rewrite E1;
      try (apply rule_eqb_neq in Hr; rewrite Hr; reflexivity).
    + destruct (is_self from); rewrite Hr; simpl; rewrite Hl; reflexivity.
    + rewrite Hr. reflexivity.
    + destruct Hr as [-> | [-> | ->]]; reflexivity.
    + rewrite Hr, Hp. reflexivity.
    + destruct (pr_body0 p); try contradiction; reflexivity.
Qed.

(* ------------------------------------------------------------------ effects that cannot fail *)
Lemma dup_effect_ok self p : multi p = true -> exists e, dup_effect self p = EOk e.
Proof.
  unfold multi, dup_effect. intros Hm. apply Nat.ltb_lt in Hm.
  destruct (length (pr_provs p) =? 1)%nat eqn:E1; [apply Nat.eqb_eq in E1; lia|].
  destruct (fresh_matrix self p (free_names (pr_body0 p)) (length (pr_provs p))) as [rows p']. eauto.
Qed.

Lemma action_dup_multi md D p : action_of md D p = ADup -> multi p = true.
Proof.
  assert (Hs : forall t m, send_on p t m = ADup -> multi p = true).
  { intros t m. unfold send_on. destruct (multi p); auto. destruct t; discriminate. }
  assert (Hr : forall t, recv_on p t = ADup -> multi p = true).
  { intros t. unfold recv_on. destruct t; [|discriminate]. destruct (multi p); auto. discriminate. }
  assert (Hi : internal p = ADup -> multi p = true).
  { unfold internal. destruct (multi p); auto. discriminate. }
  unfold action_of. destruct (pr_body0 p); repeat case_match; try discriminate; eauto.
Qed.

Inductive internal_err (F : list fundef) (p : proc) : rt_err -> Prop :=
| IE_call fn args pt :
    pr_body0 p = FCall fn args pt -> call_body F fn args = None ->
    internal_err F p "Function does not exist or could not be initialized".

Lemma action_internal_form md D p : action_of md D p = AInternal ->
  match pr_body0 p with FNew _ _ _ | FCall _ _ _ | FDrop _ _ | FSplit _ _ _ _ | FPrint _ _ => True | _ => False end.
Proof.
  assert (Hs : forall t m, send_on p t m <> AInternal).
  { intros t m. unfold send_on. destruct (multi p); [discriminate|]. destruct t; discriminate. }
  assert (Hr : forall t, recv_on p t <> AInternal).
  { intros t. unfold recv_on. destruct t; [|discriminate]. destruct (multi p); discriminate. }
  unfold action_of. destruct (pr_body0 p); auto; repeat case_match; try discriminate;
    intros Hx; try (exfalso; eapply Hs; eassumption); try (exfalso; eapply Hr; eassumption).
Qed.

Lemma internal_effect_err_iff md D F self p e : action_of md D p = AInternal ->
  (internal_effect md F self p = EErr e <-> internal_err F p e).
Proof.
  intros Ha. apply action_internal_form in Ha. unfold internal_effect.
  split.
  - destruct (pr_body0 p) eqn:Eb; try contradiction.
    + destruct (fresh_chan self p (ident x) (nty x) (pol x)). discriminate.
    + destruct (fresh_chan self p _ _ _) as [c1 p1]. destruct (fresh_chan self p1 _ _ _). discriminate.
    + destruct (call_body F f args) eqn:Ec; [discriminate|]. intros [= <-]. eapply IE_call; eauto.
    + destruct (is_np md); [discriminate|]. destruct (droppable_fwd self p c) as [[s ch] p1]. discriminate.
    + discriminate.
  - intros [fn args pt Eb Ec]. rewrite Eb, Ec. reflexivity.
Qed.

(* ------------------------------------------------------------------ step = SError *)
Inductive step_err (md : exec_mode) (D : tenv) (F : list fundef) (c : config) : choice -> pid -> rt_err -> Prop :=
| SE_action self p e :
    procs c !! self = Some p -> action_err md D p e -> step_err md D F c (Run self) self e
| SE_internal self p e :
    procs c !! self = Some p -> action_of md D p = AInternal -> internal_err F p e ->
    step_err md D F c (Run self) self e
| SE_send_unknown self p k m :
    procs c !! self = Some p -> action_of md D p = ASend k m -> chans c !! k = None ->
    step_err md D F c (Run self) self "send on a channel that does not exist"
| SE_send_closed self p k m st :
    procs c !! self = Some p -> action_of md D p = ASend k m -> chans c !! k = Some st -> ch_closed st = true ->
    step_err md D F c (Run self) self "send on closed channel"
| SE_recv_unknown self p k :
    procs c !! self = Some p -> action_of md D p = ARecv k -> chans c !! k = None ->
    step_err md D F c (Run self) self "receive on a channel that does not exist"
| SE_recv_msg self p k st m e :
    procs c !! self = Some p -> action_of md D p = ARecv k -> chans c !! k = Some st -> ch_buf st = Some m ->
    is_request p m = false -> msg_err p m e ->
    step_err md D F c (Run self) self e
| SE_recv_closed self p k st e :
    (* a receive on a closed, empty channel yields the zero message *)
    procs c !! self = Some p -> action_of md D p = ARecv k -> chans c !! k = Some st -> ch_buf st = None ->
    ch_closed st = true -> msg_err p zero_msg e ->
    step_err md D F c (Run self) self e
| SE_rendezvous s r ps pr k m st e :
    md <> Async -> s <> r -> procs c !! s = Some ps -> procs c !! r = Some pr ->
    action_of md D ps = ASend k m -> action_of md D pr = ARecv k ->
    chans c !! k = Some st -> ch_closed st = false ->
    is_request pr m = false -> msg_err pr m e ->
    step_err md D F c (Rendezvous s r) r e.

Lemma eff_step_err c self p r who e : eff_step c self p r = SError who e <-> who = self /\ r = EErr e.
Proof.
  unfold eff_step. destruct r as [x|w].
  - split; [discriminate | intros [_ H]; discriminate].
  - split; [intros [= <- <-]; auto | intros [-> [= ->]]; reflexivity].
Qed.

Lemma is_request_zero p : is_request p zero_msg = false.
Proof. reflexivity. Qed.

Theorem step_error_inv md D F c ch who e :
  step md D F c ch = SError who e <-> step_err md D F c ch who e.
Proof.
  split.
  - destruct ch as [self|s r|f t]; simpl.
    + destruct (procs c !! self) as [p|] eqn:Ep; [|discriminate].
      destruct (action_of md D p) eqn:Ea.
      * (* ADup *) intros H. apply eff_step_err in H. destruct H as [-> H].
        destruct (dup_effect_ok self p (action_dup_multi _ _ _ Ea)) as [x Hx]. congruence.
      * (* AInternal *) intros H. apply eff_step_err in H. destruct H as [-> H].
        eapply SE_internal; eauto. eapply internal_effect_err_iff; eauto.
      * (* ASend *) destruct (chans c !! c0) as [st|] eqn:Ec.
        -- destruct (ch_closed st) eqn:Ecl.
           ++ intros [= <- <-]. eapply SE_send_closed; eauto.
           ++ destruct md; try discriminate. destruct (ch_buf st); discriminate.
        -- intros [= <- <-]. eapply SE_send_unknown; eauto.
      * (* ARecv *) destruct (chans c !! c0) as [st|] eqn:Ec.
        -- destruct (ch_buf st) as [m|] eqn:Eb.
           ++ intros H. apply eff_step_err in H. destruct H as [-> H].
              apply on_message_err_iff in H. destruct H. eapply SE_recv_msg; eauto.
           ++ destruct (ch_closed st) eqn:Ecl; [|discriminate].
              intros H. apply eff_step_err in H. destruct H as [-> H].
              apply on_message_err_iff in H. destruct H. eapply SE_recv_closed; eauto.
        -- intros [= <- <-]. eapply SE_recv_unknown; eauto.
      * discriminate.
      * discriminate.
      * intros [= <- <-]. eapply SE_action; eauto. apply action_of_err_iff; auto.
    + destruct md eqn:Emd; [discriminate| |];
        (destruct (bool_decide (s = r)) eqn:Esr; [discriminate|]; apply bool_decide_eq_false in Esr;
         destruct (procs c !! s) as [ps|] eqn:Eps; [|discriminate];
         destruct (procs c !! r) as [pr|] eqn:Epr; [|discriminate];
         destruct (action_of _ D ps) eqn:Eas; try discriminate;
         destruct (action_of _ D pr) eqn:Ear; try discriminate;
         destruct (bool_decide (c0 = c1)) eqn:Ek; [|discriminate]; apply bool_decide_eq_true in Ek; subst c1;
         destruct (chans c !! c0) as [st|] eqn:Ec; [|discriminate];
         destruct (ch_closed st) eqn:Ecl; [discriminate|];
         intros H; apply eff_step_err in H; destruct H as [-> H];
         apply on_message_err_iff in H; destruct H;
         eapply SE_rendezvous; eauto; discriminate).
    + destruct (negb (is_np md) || bool_decide (f = t)); [discriminate|].
      destruct (procs c !! f); [|discriminate]. destruct (procs c !! t); [|discriminate].
      destruct (action_of md D p); try discriminate. destruct (self_chan p0); [|discriminate].
      destruct (bool_decide (c0 = c1) && polls_control md D p0); discriminate.
  - intros H.
    destruct H as [self p e0 Ep Ha|self p e0 Ep Ha Hi|self p k m Ep Ha Ec|self p k m st Ep Ha Ec Ecl|self p k Ep Ha Ec
                  |self p k st m e0 Ep Ha Ec Eb Hr Hm|self p k st e0 Ep Ha Ec Eb Ecl Hm
                  |s r ps pr k m st e0 Hmd Hsr Eps Epr Has Har Ec Ecl Hr Hm]; simpl.
    + rewrite Ep. apply action_of_err_iff in Ha. rewrite Ha. reflexivity.
    + rewrite Ep, Ha. apply eff_step_err. split; auto. eapply internal_effect_err_iff; eauto.
    + rewrite Ep, Ha, Ec. reflexivity.
    + rewrite Ep, Ha, Ec, Ecl. reflexivity.
    + rewrite Ep, Ha, Ec. reflexivity.
    + rewrite Ep, Ha, Ec, Eb. apply eff_step_err. split; auto. apply on_message_err_iff. auto.
    + rewrite Ep, Ha, Ec, Eb, Ecl. apply eff_step_err. split; auto. apply on_message_err_iff. auto.
    + destruct md; [congruence| |];
        (rewrite bool_decide_eq_false_2 by auto; rewrite Eps, Epr, Has, Har;
         rewrite bool_decide_eq_true_2 by auto; rewrite Ec, Ecl;
         apply eff_step_err; split; auto; apply on_message_err_iff; auto).
Qed.
