(* proofs/VerdictInvariant.v — C14, verdict half: the checker's verdict is unchanged by consistent
   renaming and by permuting declarations.  Obtained from the invariance of the DECLARATIVE judgement
   (Equivariance.v, EquivarianceTypes.v, DeclPerm.v) through C07 (TypingVerdict.v).

   PROVED, closed (type agreement = EqualType's answer):
     verdict_invariant_partial   bijective renaming of channel identifiers and of function names
     verdict_invariant_perm      permutation of the function, process and assumed-name declarations
   PROVED, relative to a type-equality relation that EqualType decides (teq_decided: the statement of
   C08) and that is itself invariant under the renaming (teq_equivariant: true of bisimilarity):
     verdict_invariant_types     bijective renaming of type names and labels
   (the closed instance is not available: EqualType's memo is keyed by PRINTED types, so its answer
   is invariant only for renamings under which printing stays injective — C15's matter.)
     verdict_invariant_type_order   permutation of the TYPE definitions (relative to teq_decided and
                                    teq_env_invariant: teq depends on the environment through lookups only)
   NOT PROVED: the closed forms of the last two (Definitions *_closed_statement below); they need C08
   (EqualType = bisimilarity on well-formed types) and, for renaming, C15 (printing stays injective). *)
Require Import Grits.Base Grits.ModeDefs Grits.Modes Grits.STypes Grits.Forms Grits.Subst Grits.Infer
               Grits.TcDeps Grits.Expand Grits.Tc Grits.TcTop Grits.spec.Typing Grits.proofs.TcLemmas
               Grits.proofs.TypingVerdict Grits.proofs.Equivariance Grits.proofs.DeclPerm Grits.proofs.EquivarianceTypes Grits.proofs.TypePerm.
Require Import Coq.Sorting.Permutation.

Theorem verdict_invariant_partial r r' rf rf' p : bijection r r' -> bijection rf rf' -> r "" = "" ->
  (accepts p <-> accepts (ren_program r rf p)).
Proof.
  intros Hr Hf E0. rewrite !tc_verdict_alg. now apply (typing_equivariant teq_alg r r' rf rf').
Qed.

(* one direction needs injectivity only *)
Theorem verdict_preserved_by_injective_renaming r rf p :
  (forall a b, r a = r b -> a = b) -> (forall a b, rf a = rf b -> a = b) -> r "" = "" ->
  accepts p -> accepts (ren_program r rf p).
Proof. intros Hr Hf E0. rewrite !tc_verdict_alg. now apply typing_equivariant_chan. Qed.

Theorem verdict_invariant_perm p p' : decl_perm p p' -> (accepts p <-> accepts p').
Proof. intros H. rewrite !tc_verdict_alg. now apply typing_perm_iff. Qed.

(* ---------------------------------------------------------------- type names and labels *)
Theorem verdict_invariant_types teq rt rt' rl rl' p :
  teq_decided teq -> bijection_t rt rt' -> bijection_t rl rl' ->
  teq_equivariant teq rt rl -> teq_equivariant teq rt' rl' ->
  (accepts p <-> accepts (rent_program rt rl p)).
Proof.
  intros Hd Ht Hl E1 E2. rewrite !(tc_verdict teq Hd). now apply (typing_equivariant_types teq rt rt' rl rl').
Qed.

(* ---------------------------------------------------------------- order of the type definitions *)
Definition with_types (p : program) (D' : tenv) : program :=
  {| p_procs := p_procs p; p_assumed := p_assumed p; p_funs := p_funs p; p_types := D' |}.

Theorem verdict_invariant_type_order teq p D' :
  teq_decided teq -> teq_env_invariant teq -> Permutation (p_types p) D' ->
  (accepts p <-> accepts (with_types p D')).
Proof.
  intros Hd Hi P. rewrite !(tc_verdict teq Hd). split.
  - now apply typing_type_perm.
  - intros OK. apply Permutation_sym in P.
    pose proof (typing_type_perm teq Hi (with_types p D') (p_types p) P OK) as OK'.
    destruct p. exact OK'.
Qed.

(* ---------------------------------------------------------------- closed forms, not proved here *)
Definition verdict_invariant_types_closed_statement : Prop :=
  forall rt rt' rl rl' p, bijection_t rt rt' -> bijection_t rl rl' -> (accepts p <-> accepts (rent_program rt rl p)).
Definition verdict_invariant_type_order_closed_statement : Prop :=
  forall p D', Permutation (p_types p) D' -> (accepts p <-> accepts (with_types p D')).
