(* proofs/VerdictInvariant.v — C14, verdict half: the checker's verdict is unchanged by consistent
   renaming and by permuting declarations.  Obtained from the invariance of the DECLARATIVE judgement
   (Equivariance.v, DeclPerm.v) through C07 (TypingVerdict.v).

   PROVED (verdict_invariant_partial, verdict_invariant_perm): bijective renaming of channel
   identifiers and of function names; permutation of the function, process and assumed-name
   declarations.
   NOT PROVED (kept as the Definition verdict_invariant_types_statement below): renaming of TYPE NAMES
   and LABELS, and permutation of the TYPE definitions.  What is missing is the equivariance /
   order-independence of the functions of package `types` that the judgement mentions (tlookup-based:
   head, check_wf, add_missing, sanity_typedefs) and of the type-equality relation; the induction over
   the typing rules is the same as in Equivariance.typed_ren_all. *)
Require Import Grits.Base Grits.ModeDefs Grits.Modes Grits.STypes Grits.Forms Grits.Subst Grits.Infer
               Grits.TcDeps Grits.Expand Grits.Tc Grits.TcTop Grits.spec.Typing Grits.proofs.TcLemmas
               Grits.proofs.TypingVerdict Grits.proofs.Equivariance Grits.proofs.DeclPerm.
Require Import Coq.Sorting.Permutation.

Theorem verdict_invariant_partial r r' rf rf' p : bijection r r' -> bijection rf rf' ->
  (accepts p <-> accepts (ren_program r rf p)).
Proof.
  intros Hr Hf. rewrite !tc_verdict_alg. now apply (typing_equivariant teq_alg r r' rf rf').
Qed.

(* one direction needs injectivity only *)
Theorem verdict_preserved_by_injective_renaming r rf p :
  (forall a b, r a = r b -> a = b) -> (forall a b, rf a = rf b -> a = b) ->
  accepts p -> accepts (ren_program r rf p).
Proof. intros Hr Hf. rewrite !tc_verdict_alg. now apply typing_equivariant_chan. Qed.

Theorem verdict_invariant_perm p p' : decl_perm p p' -> (accepts p <-> accepts p').
Proof. intros H. rewrite !tc_verdict_alg. now apply typing_perm_iff. Qed.

(* ---------------------------------------------------------------- the part not proved: types *)
Fixpoint rent_ty (rt rl : string -> string) (t : sty) : sty :=
  match t with
  | TName x m => TName (rt x) m
  | TUnit m => TUnit m
  | TTensor a b m => TTensor (rent_ty rt rl a) (rent_ty rt rl b) m
  | TLolli a b m => TLolli (rent_ty rt rl a) (rent_ty rt rl b) m
  | TPlus bs m => TPlus (rent_brs rt rl bs) m
  | TWith bs m => TWith (rent_brs rt rl bs) m
  | TUp f t a => TUp f t (rent_ty rt rl a)
  | TDown f t a => TDown f t (rent_ty rt rl a)
  end
with rent_brs (rt rl : string -> string) (b : brs) : brs :=
  match b with BNil => BNil | BCons l a r => BCons (rl l) (rent_ty rt rl a) (rent_brs rt rl r) end.

Definition rent_name (rt rl : string -> string) (n : name) : name :=
  set_nty n (option_map (rent_ty rt rl) (nty n)).

Fixpoint rent_form (rt rl : string -> string) (f : form) : form :=
  let rn := rent_name rt rl in
  match f with
  | FSend a b c => FSend (rn a) (rn b) (rn c)
  | FRecv p c fr k => FRecv (rn p) (rn c) (rn fr) (rent_form rt rl k)
  | FSel a l c => FSel (rn a) (rl l) (rn c)
  | FCase fr bs => FCase (rn fr) (rent_branches rt rl bs)
  | FNew x b k => FNew (rn x) (rent_form rt rl b) (rent_form rt rl k)
  | FClose c => FClose (rn c)
  | FWait c k => FWait (rn c) (rent_form rt rl k)
  | FFwd a b d => FFwd (rn a) (rn b) d
  | FSplit x y fr k => FSplit (rn x) (rn y) (rn fr) (rent_form rt rl k)
  | FCall fn args pt => FCall fn (map rn args) (option_map (rent_ty rt rl) pt)
  | FCast a c => FCast (rn a) (rn c)
  | FShift x fr k => FShift (rn x) (rn fr) (rent_form rt rl k)
  | FDrop c k => FDrop (rn c) (rent_form rt rl k)
  | FPrint l k => FPrint l (rent_form rt rl k)
  end
with rent_branches (rt rl : string -> string) (b : branches) : branches :=
  match b with
  | BrNil => BrNil
  | BrCons l p k rest => BrCons (rl l) (rent_name rt rl p) (rent_form rt rl k) (rent_branches rt rl rest)
  end.

Definition rent_program (rt rl : string -> string) (p : program) : program :=
  {| p_procs := map (fun q => {| pr_body := rent_form rt rl (pr_body q);
                                 pr_providers := map (rent_name rt rl) (pr_providers q);
                                 pr_type := option_map (rent_ty rt rl) (pr_type q) |}) (p_procs p);
     p_assumed := map (rent_name rt rl) (p_assumed p);
     p_funs := map (fun f => {| fn_name := fn_name f; fn_params := map (rent_name rt rl) (fn_params f);
                                fn_body := rent_form rt rl (fn_body f);
                                fn_type := option_map (rent_ty rt rl) (fn_type f);
                                fn_explicit := option_map (rent_name rt rl) (fn_explicit f) |}) (p_funs p);
     p_types := map (fun d => {| td_name := rt (td_name d); td_body := rent_ty rt rl (td_body d);
                                 td_mode := td_mode d |}) (p_types p) |}.

(* the full statement of the verdict half of C14 adds these two (not proved here): *)
Definition verdict_invariant_types_statement : Prop :=
  forall rt rt' rl rl' p, bijection rt rt' -> bijection rl rl' -> (accepts p <-> accepts (rent_program rt rl p)).
Definition verdict_invariant_type_order_statement : Prop :=
  forall p D', Permutation (p_types p) D' ->
    (accepts p <-> accepts {| p_procs := p_procs p; p_assumed := p_assumed p; p_funs := p_funs p; p_types := D' |}).
