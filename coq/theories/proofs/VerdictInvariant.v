(* proofs/VerdictInvariant.v — C14, verdict half: the checker's verdict is unchanged by consistent
   renaming and by permuting declarations.  Obtained from the invariance of the DECLARATIVE judgement
   (Equivariance.v, DeclPerm.v) through C07 (TypingVerdict.v).

   PROVED (verdict_invariant_partial, verdict_invariant_perm): bijective renaming of channel
   identifiers and of function names; permutation of the function, process and assumed-name
   declarations.
   NOT PROVED (kept as the Definition verdict_invariant_types_statement below): renaming of TYPE NAMES
   and LABELS, and permutation of the TYPE definitions.  What is missing is the equivariance /
   order-independence of the functions of package `types` that the judgement mentions (tlookup-based:
   head, check_wf, add_missing, sanity_typedefs) and of the type-equality relation; the induction over
   the typing rules is the same as in Equivariance.typed_ren_all. *)
Require Import Grits.Base Grits.ModeDefs Grits.Modes Grits.STypes Grits.Forms Grits.Subst Grits.Infer
               Grits.TcDeps Grits.Expand Grits.Tc Grits.TcTop Grits.spec.Typing Grits.proofs.TcLemmas
               Grits.proofs.TypingVerdict Grits.proofs.Equivariance Grits.proofs.DeclPerm Grits.proofs.EquivarianceTypes.
Require Import Coq.Sorting.Permutation.

Theorem verdict_invariant_partial r r' rf rf' p : bijection r r' -> bijection rf rf' ->
  (accepts p <-> accepts (ren_program r rf p)).
Proof.
  intros Hr Hf. rewrite !tc_verdict_alg. now apply (typing_equivariant teq_alg r r' rf rf').
Qed.

(* one direction needs injectivity only *)
Theorem verdict_preserved_by_injective_renaming r rf p :
  (forall a b, r a = r b -> a = b) -> (forall a b, rf a = rf b -> a = b) ->
  accepts p -> accepts (ren_program r rf p).
Proof. intros Hr Hf. rewrite !tc_verdict_alg. now apply typing_equivariant_chan. Qed.

Theorem verdict_invariant_perm p p' : decl_perm p p' -> (accepts p <-> accepts p').
Proof. intros H. rewrite !tc_verdict_alg. now apply typing_perm_iff. Qed.

(* ---------------------------------------------------------------- the part not proved: types *)
(* the full statement of the verdict half of C14 adds these two (not proved here): *)
Definition verdict_invariant_types_statement : Prop :=
  forall rt rt' rl rl' p, bijection rt rt' -> bijection rl rl' -> (accepts p <-> accepts (rent_program rt rl p)).
Definition verdict_invariant_type_order_statement : Prop :=
  forall p D', Permutation (p_types p) D' ->
    (accepts p <-> accepts {| p_procs := p_procs p; p_assumed := p_assumed p; p_funs := p_funs p; p_types := D' |}).
