(* ScanLabels.v — the lexeme of every LABEL token the scanner produces is identifier-shaped in the
   sense of EqualWF.ident_ok: a non-empty run of label characters other than "1".  (Used by
   ParseSynOk.v: type names and branch labels of parsed types are LABEL lexemes.) *)
Require Import Grits.Base Grits.ModeDefs Grits.Modes Grits.STypes Grits.Tokens Grits.gen.ScanTables Grits.Scan
               Grits.Equal Grits.EqualWF Grits.spec.ScanSpec Grits.proofs.ScanProofs Grits.proofs.ScanCover.

Lemma all_lab_chars w : all_lab w = all_chars is_lab w.
Proof. induction w as [|c w IH]; cbn; [reflexivity | rewrite IH; reflexivity]. Qed.

Lemma single_char_not_label c : single_char c <> Some LABEL.
Proof.
  unfold single_char. intros H.
  repeat match type of H with match ?n with _ => _ end = _ => destruct n; try discriminate end.
Qed.

(* what the scanner does on a text starting with the byte '1' *)
Lemma scan1_body_one rest : forall k lx r, scan1_body (String "1"%char rest) = Tok k lx r ->
  (k = UNIT) \/ (exists d l, lx = String "1"%char (String d l)).
Proof.
  intros k lx r H. unfold scan1_body in H.
  change (single_char "1"%char) with (@None tk) in H. rewrite special_match in H.
  change ((code "1" =? 47)%nat) with false in H. cbn [andb] in H.
  change (is_special "1"%char) with true in H.
  change ((code "1" =? 61)%nat) with false in H. change ((code "1" =? 60)%nat) with false in H.
  change ((code "1" =? 45)%nat) with false in H. change ((code "1" =? 49)%nat) with true in H.
  destruct rest as [|d r']; cbn [peek] in H.
  - inversion H; subst. left. reflexivity.
  - destruct (is_lab d) eqn:Ed.
    + cbn [take_label] in H. rewrite Ed in H. destruct (take_label r') as [l0 rest0]. inversion H; subst. right. eauto.
    + inversion H; subst. left. reflexivity.
Qed.

Lemma scan1_body_label_ident s lx rest : scan1_body s = Tok LABEL lx rest -> ident_ok lx = true.
Proof.
  intros H. destruct (scan1_body_spec s) as [body [Hs Hok]]. rewrite H in Hs, Hok. cbn [res_rest res_ok] in *.
  destruct Hok as [Hsp _].
  remember LABEL as kk eqn:Hkk.
  destruct Hsp as [ | c k Hc | k w Hin | | w Hne Hal | c | c d Hcd ]; try discriminate Hkk.
  - exfalso. subst k. exact (single_char_not_label _ Hc).
  - exfalso. subst k. cbn in Hin. intuition discriminate.
  - unfold ident_ok. rewrite <- all_lab_chars, Hal.
    destruct (String.eqb w "") eqn:E1; [apply String.eqb_eq in E1; contradiction|].
    destruct (String.eqb w "1") eqn:E2; [|reflexivity].
    exfalso. apply String.eqb_eq in E2. subst w s. cbn [String.append] in H.
    destruct (scan1_body_one _ _ _ _ H) as [Hu | [d [l Hl]]]; [discriminate Hu | discriminate Hl].
Qed.

Lemma scan1_label_ident s lx rest : scan1 s = Tok LABEL lx rest -> ident_ok lx = true.
Proof. rewrite scan1_unfold. apply scan1_body_label_ident. Qed.

Definition label_tok_ok (tv : tk * string) : Prop := fst tv = LABEL -> ident_ok (snd tv) = true.

Lemma scan_all_f_labels : forall fuel s toks, scan_all_f fuel s = Tokens toks -> Forall label_tok_ok toks.
Proof.
  induction fuel as [|f IH]; intros s toks H; [discriminate|].
  cbn [scan_all_f] in H. destruct (scan1 s) as [k lx rest | rest] eqn:Es; [|eapply IH; exact H].
  assert (Hhd : label_tok_ok (k, lx)).
  { intros Hk. cbn [fst snd] in *. subst k. eapply scan1_label_ident. exact Es. }
  assert (Hmore : match scan_all_f f rest with Tokens l => Tokens ((k, lx) :: l) | ScanHang => ScanHang end = Tokens toks ->
                  Forall label_tok_ok toks).
  { intros Hq. destruct (scan_all_f f rest) as [l0|] eqn:E; [|discriminate]. inversion Hq; subst.
    constructor; [exact Hhd | eapply IH; exact E]. }
  destruct k; first [ apply Hmore; exact H | inversion H; subst; constructor; [exact Hhd | constructor] ].
Qed.

Theorem scan_all_labels : forall s toks, scan_all s = Tokens toks -> Forall label_tok_ok toks.
Proof. intros s toks. apply scan_all_f_labels. Qed.
