(* LRProof.v — generic termination theorem of the goyacc driver model (C11).
   IF the boolean check of a certificate succeeds (LRCheck.check_cert E wIn wTop C = true) THEN,
   for every token list and every semantic-value algebra, the driver loop `LR.run` started on the
   initial stack stops within  C * length toks + Phi [0] + 1  iterations.
   Invariant: the states on the stack form a path of E starting at state 0; the measure
   mu = C * |remaining input| + Phi(stack) strictly decreases at every iteration. *)
Require Import Grits.Base Grits.Tokens Grits.gen.LRTables Grits.LR Grits.proofs.LRCheck.
Local Open Scope Z_scope.

(* ---- generic list facts ---- *)
Lemma firstn_snoc {A} (l : list A) : forall k x tl, skipn k l = x :: tl -> firstn (S k) l = firstn k l ++ [x].
Proof.
  induction l as [|a l IH]; intros k x tl H.
  - destruct k; discriminate.
  - destruct k; cbn [skipn] in H.
    + inversion H; subst. reflexivity.
    + cbn [firstn]. cbn [app]. f_equal. eapply IH; eauto.
Qed.
Lemma skipn_S_tl {A} (l : list A) : forall k x tl, skipn k l = x :: tl -> skipn (S k) l = tl.
Proof.
  induction l as [|a l IH]; intros k x tl H.
  - destruct k; discriminate.
  - destruct k; cbn [skipn] in H.
    + inversion H; subst. reflexivity.
    + cbn [skipn]. eapply IH; eauto.
Qed.

Lemma all_tk_complete : forall k, In k all_tk.
Proof. destruct k; cbn; tauto. Qed.

Lemma in_states_In s : in_states s = true -> In s states.
Proof.
  unfold in_states, states, lenZ. rewrite andb_true_iff. intros [H1 H2].
  apply Z.leb_le in H1. apply Z.ltb_lt in H2.
  apply in_map_iff. exists (Z.to_nat s). split; [lia|]. apply in_seq. lia.
Qed.

Lemma lookahead_in (inp : list (tk * string)) : In (lookahead inp) look_toks.
Proof.
  unfold lookahead, look_toks. destruct inp as [|[k lx] r]; [left; reflexivity|].
  right. apply in_map_iff. exists k. split; [reflexivity | apply all_tk_complete].
Qed.

Lemma nth_c_Some l i v : nth_c l i = Some v -> v = nthZ l i /\ 0 <= i < lenZ l.
Proof.
  unfold nth_c. destruct ((0 <=? i) && (i <? lenZ l)) eqn:Hb; [|discriminate].
  intros H; inversion H; subst. apply andb_true_iff in Hb. destruct Hb as [H1 H2].
  apply Z.leb_le in H1. apply Z.ltb_lt in H2. split; [reflexivity | lia].
Qed.

Section Proof.
Variable E : list (Z * Z).
Variables wIn wTop : list Z.
Variable C : Z.
Hypothesis HC : check_cert E wIn wTop C = true.

Local Notation phi := (phi wIn wTop).
Local Notation sumIn := (sumIn wIn).
Local Notation inE := (inE E).
Local Notation bpaths := (bpaths E).

Lemma HC_parts :
  forallb (check_state E wIn wTop C) states = true /\
  forallb (fun e => in_states (fst e) && in_states (snd e)) E = true /\
  forallb (fun w => 0 <=? w) wIn = true /\ forallb (fun w => 0 <=? w) wTop = true /\
  forallb (fun s => negb (err_shift s)) states = true /\
  in_states 0 = true /\ 0 <= C /\ lex1 0 = tEofCode /\
  forallb (fun k => tk_eqb k T_EOF || tk_eqb k T_ILLEGAL || negb (lex1 (tok_code k) =? tEofCode)) all_tk = true.
Proof.
  pose proof HC as H. unfold check_cert in H. rewrite !andb_true_iff in H.
  destruct H as [[[[[[[[H1 H2] H3] H4] H5] H6] H7] H8] H9].
  apply Z.leb_le in H7. apply Z.eqb_eq in H8. tauto.
Qed.

Lemma HC_range : forall s t, inE s t = true -> in_states s = true /\ in_states t = true.
Proof.
  destruct HC_parts as [_ [Hr _]]. rewrite forallb_forall in Hr.
  intros s t H. unfold LRCheck.inE in H. rewrite existsb_exists in H.
  destruct H as [[a b] [Hin Hab]]. cbn [fst snd] in Hab. rewrite andb_true_iff in Hab.
  destruct Hab as [Ha Hb]. apply Z.eqb_eq in Ha, Hb. subst.
  specialize (Hr _ Hin). cbn [fst snd] in Hr. rewrite andb_true_iff in Hr. exact Hr.
Qed.

Lemma nthZ_nonneg (l : list Z) i : forallb (fun w => 0 <=? w) l = true -> 0 <= nthZ l i.
Proof.
  intros H. unfold nthZ. destruct (i <? 0); [lia|].
  rewrite forallb_forall in H.
  destruct (nth_in_or_default (Z.to_nat i) l 0) as [Hin | Hd].
  - apply H in Hin. lia.
  - rewrite Hd. lia.
Qed.
Lemma wIn_nonneg i : 0 <= nthZ wIn i.
Proof. apply nthZ_nonneg. apply HC_parts. Qed.
Lemma wTop_nonneg i : 0 <= nthZ wTop i.
Proof. apply nthZ_nonneg. apply HC_parts. Qed.
Lemma sumIn_nonneg l : 0 <= sumIn l.
Proof. induction l as [|a l IH]; cbn; [lia|]. pose proof (wIn_nonneg a). unfold LRCheck.sumIn in IH. lia. Qed.
Lemma phi_nonneg l : 0 <= phi l.
Proof. destruct l as [|t r]; cbn; [lia|]. pose proof (wTop_nonneg t). pose proof (sumIn_nonneg r). unfold LRCheck.sumIn in *. lia. Qed.

(* stack invariant: bottom is state 0, consecutive entries are edges of E *)
Fixpoint is_path (stk : list Z) : Prop :=
  match stk with
  | [] => False
  | t :: rest => match rest with
                 | [] => t = 0
                 | s :: _ => inE s t = true /\ is_path rest
                 end
  end.

Lemma is_path_top_in_states st rest : is_path (st :: rest) -> in_states st = true.
Proof.
  intros H. destruct rest as [|s r]; cbn in H.
  - subst. apply HC_parts.
  - destruct H as [H _]. apply HC_range in H. tauto.
Qed.

Lemma is_path_all_in_states stk : is_path stk -> Forall (fun s => in_states s = true) stk.
Proof.
  induction stk as [|t rest IH]; intros H; [constructor|].
  constructor; [eapply is_path_top_in_states; eauto|].
  destruct rest as [|s r]; [constructor|]. apply IH. cbn in H. tauto.
Qed.

Lemma sumIn_app a b : sumIn (a ++ b) = sumIn a + sumIn b.
Proof. unfold LRCheck.sumIn. induction a as [|x a IH]; cbn; [lia|]. cbn in IH. lia. Qed.

Lemma phi_app pth below : pth <> [] -> phi (pth ++ below) = phi pth + sumIn below.
Proof.
  destruct pth as [|t r]; [congruence|]. intros _. cbn [app LRCheck.phi].
  rewrite sumIn_app. lia.
Qed.

Lemma is_path_skipn k stk : is_path stk -> skipn k stk <> [] -> is_path (skipn k stk).
Proof.
  revert stk. induction k as [|k IHk]; intros stk H Hne; cbn [skipn] in *; [exact H|].
  destruct stk as [|t rest]; [exact H|].
  apply IHk; [|exact Hne].
  destruct rest as [|s r]; cbn in H; [ destruct k; cbn in Hne; congruence | tauto ].
Qed.

(* completeness of the backward-path enumeration w.r.t. the stack invariant *)
Lemma bpaths_complete k : forall st rest, is_path (st :: rest) ->
  (k < length (st :: rest))%nat -> In (firstn (S k) (st :: rest)) (bpaths k st).
Proof.
  induction k as [|k IHk]; intros st rest Hp Hlen.
  - cbn. left. reflexivity.
  - cbn [LRCheck.bpaths]. apply in_flat_map.
    exists (firstn (S k) (st :: rest)). split.
    + apply IHk; [exact Hp | lia].
    + assert (Hsplit : exists l p tl, skipn k (st :: rest) = l :: p :: tl).
      { remember (skipn k (st :: rest)) as sk eqn:Hsk.
        assert (Hl : (length sk = length (st :: rest) - k)%nat) by (subst; apply skipn_length).
        destruct sk as [|l [|p tl]]; [exfalso; cbn [length] in *; lia | exfalso; cbn [length] in *; lia | eauto]. }
      destruct Hsplit as [l [p [tl Hsk]]].
      assert (Hf1 : firstn (S k) (st :: rest) = firstn k (st :: rest) ++ [l]) by (eapply firstn_snoc; eauto).
      assert (Hf2 : firstn (S (S k)) (st :: rest) = firstn (S k) (st :: rest) ++ [p]).
      { eapply firstn_snoc. eapply skipn_S_tl. exact Hsk. }
      rewrite Hf2.
      replace (last (firstn (S k) (st :: rest)) (-1)) with l by (rewrite Hf1; symmetry; apply last_last).
      apply in_map_iff. exists p. split; [reflexivity|].
      unfold preds. apply in_map_iff. exists (p, l). split; [reflexivity|].
      apply filter_In.
      assert (Hpl : inE p l = true).
      { assert (Hps : is_path (skipn k (st :: rest))).
        { apply is_path_skipn; [exact Hp | rewrite Hsk; congruence]. }
        rewrite Hsk in Hps. cbn in Hps. tauto. }
      unfold LRCheck.inE in Hpl. rewrite existsb_exists in Hpl.
      destruct Hpl as [[a b] [Hin Hab]]. cbn [fst snd] in Hab. rewrite andb_true_iff in Hab.
      destruct Hab as [Ha Hb]. apply Z.eqb_eq in Ha, Hb. subst.
      split; [exact Hin | cbn [snd]; apply Z.eqb_refl].
Qed.

Definition mu (sts : list Z) (inp : list (tk * string)) : Z := C * Z.of_nat (length inp) + phi sts.

Lemma mu_nonneg sts inp : 0 <= mu sts inp.
Proof. unfold mu. pose proof (phi_nonneg sts). destruct HC_parts as [_ [_ [_ [_ [_ [_ [HC0 _]]]]]]]. nia. Qed.

(* what the checker established for one (state, lookahead) pair *)
Lemma check_state_at st tok : in_states st = true -> In tok look_toks ->
  action_ok st tok = true /\
  match action st tok with
  | AShift t => inE st t = true /\ tok <> tEofCode /\ nthZ wIn st - nthZ wTop st + nthZ wTop t < C
  | AReduce p => rlen_ok p = true /\ forall pth, In pth (bpaths (rlen p) st) -> check_path E wIn wTop p pth = true
  | AAcc => tok = tEofCode
  | AErr => True
  end.
Proof.
  intros Hs Ht. destruct HC_parts as [H _]. rewrite forallb_forall in H.
  specialize (H st (in_states_In _ Hs)). unfold check_state in H. rewrite forallb_forall in H.
  specialize (H tok Ht). apply andb_true_iff in H. destruct H as [Hok H]. split; [exact Hok|].
  destruct (action st tok); auto.
  - rewrite !andb_true_iff in H. destruct H as [[H1 H2] H3].
    split; [exact H1|]. split.
    + intro Heq. subst. rewrite Z.eqb_refl in H2. discriminate.
    + apply Z.ltb_lt. exact H3.
  - apply andb_true_iff in H. destruct H as [Hr H]. split; [exact Hr|]. rewrite forallb_forall in H. exact H.
  - apply Z.eqb_eq. exact H.
Qed.

Section Values.
Variable V : Type.
Variable tok_val : tk * string -> V.
Variable reduce_action : Z -> list V -> option V.
Local Notation step := (step V tok_val reduce_action).
Local Notation run := (run V tok_val reduce_action).

Definition sts (stk : list (Z * V)) : list Z := map fst stk.

Lemma step_decreases stk inp stk' inp' :
  is_path (sts stk) -> step stk inp = StCont V stk' inp' ->
  is_path (sts stk') /\ mu (sts stk') inp' < mu (sts stk) inp.
Proof.
  intros Hp Hstep. unfold LR.step in Hstep.
  destruct stk as [|[st v] rest]; [discriminate|].
  assert (Hst : in_states st = true) by (eapply is_path_top_in_states; exact Hp).
  destruct (check_state_at st (lookahead inp) Hst (lookahead_in inp)) as [_ Hchk].
  destruct (action st (lookahead inp)) as [t | p | | ] eqn:Hact; try discriminate.
  - (* shift *)
    destruct inp as [|t0 inp0]; [discriminate|]. inversion Hstep; subst; clear Hstep.
    destruct Hchk as [HE [_ Hw]].
    split; [cbn; split; [exact HE | exact Hp]|].
    unfold mu. cbn [length]. rewrite Nat2Z.inj_succ.
    assert (H1 : phi (sts ((t, tok_val t0) :: (st, v) :: rest)) = nthZ wTop t + nthZ wIn st + sumIn (sts rest))
      by (unfold sts; cbn; unfold LRCheck.sumIn; lia).
    assert (H2 : phi (sts ((st, v) :: rest)) = nthZ wTop st + sumIn (sts rest)) by (unfold sts; cbn; unfold LRCheck.sumIn; lia).
    rewrite Z.mul_succ_r.
    lia.
  - (* reduce *)
    destruct Hchk as [_ Hchk].
    set (k := rlen p) in *.
    destruct (skipn k ((st, v) :: rest)) as [|[s0 v0] below] eqn:Hsk; [discriminate|].
    destruct (reduce_action p (rev (map snd (firstn k ((st, v) :: rest))))) as [nv|]; [|discriminate].
    inversion Hstep; subst stk' inp'; clear Hstep.
    assert (HskZ : skipn k (st :: sts rest) = s0 :: sts below).
    { change (st :: sts rest) with (map fst ((st, v) :: rest)). rewrite skipn_map, Hsk. reflexivity. }
    assert (Hlen : (k < length (st :: sts rest))%nat).
    { assert (Hl : (length (s0 :: sts below) = length (st :: sts rest) - k)%nat) by (rewrite <- HskZ; apply skipn_length).
      cbn [length] in *. lia. }
    change (sts ((st, v) :: rest)) with (st :: sts rest) in *.
    pose proof (bpaths_complete k st (sts rest) Hp Hlen) as Hin.
    specialize (Hchk _ Hin).
    assert (Hpth : firstn (S k) (st :: sts rest) = firstn k (st :: sts rest) ++ [s0]) by (eapply firstn_snoc; exact HskZ).
    unfold check_path in Hchk. rewrite Hpth in Hchk. rewrite rev_app_distr in Hchk. cbn [rev app] in Hchk.
    rewrite !andb_true_iff in Hchk. destruct Hchk as [[_ HE] Hw]. apply Z.leb_le in Hw.
    assert (Hps : is_path (s0 :: sts below)).
    { rewrite <- HskZ. apply is_path_skipn; [exact Hp | rewrite HskZ; congruence]. }
    change (sts ((goto s0 p, nv) :: (s0, v0) :: below)) with (goto s0 p :: s0 :: sts below).
    split; [cbn; split; [exact HE | exact Hps]|].
    unfold mu.
    assert (Hstk : st :: sts rest = (firstn k (st :: sts rest) ++ [s0]) ++ sts below).
    { rewrite <- app_assoc. cbn [app]. rewrite <- HskZ. symmetry. apply firstn_skipn. }
    assert (Hphi1 : phi (st :: sts rest) = phi (firstn k (st :: sts rest) ++ [s0]) + sumIn (sts below)).
    { rewrite Hstk at 1. apply phi_app. destruct (firstn k (st :: sts rest)); cbn; congruence. }
    assert (Hphi2 : phi (goto s0 p :: s0 :: sts below) = phi [goto s0 p; s0] + sumIn (sts below)).
    { change (goto s0 p :: s0 :: sts below) with ([goto s0 p; s0] ++ sts below). apply phi_app. congruence. }
    lia.
Qed.

Theorem run_terminates : forall fuel stk inp,
  is_path (sts stk) -> mu (sts stk) inp < Z.of_nat fuel -> run fuel stk inp <> LROutOfFuel.
Proof.
  induction fuel as [|f IH]; intros stk inp Hp Hmu.
  - pose proof (mu_nonneg (sts stk) inp). cbn in Hmu. lia.
  - cbn [LR.run]. destruct (step stk inp) as [v| |p|stk' inp'] eqn:Hs; try discriminate.
    destruct (step_decreases _ _ _ _ Hp Hs) as [Hp' Hlt].
    apply IH; [exact Hp'|]. lia.
Qed.

(* the theorem of C11 about the driver: linear fuel suffices *)
Theorem lr_terminates : forall (v0 : V) (toks : list (tk * string)) (fuel : nat),
  C * Z.of_nat (length toks) + nthZ wTop 0 + 1 <= Z.of_nat fuel ->
  run fuel [(0, v0)] toks <> LROutOfFuel.
Proof.
  intros v0 toks fuel Hf. apply run_terminates; [cbn; reflexivity|].
  unfold mu, sts. cbn [map fst LRCheck.phi LRCheck.sumIn fold_right]. lia.
Qed.

(* the stack never holds more entries than steps were taken + 1; every state on it is a state
   of the table, and none of them shifts `error`: the error-recovery loop of goyacc finds no
   state to resume in, pops everything and returns 1 (LR.v: StReject) *)
Lemma no_error_shift_on_stack stk : is_path (sts stk) -> Forall (fun s => err_shift s = false) (sts stk).
Proof.
  intros Hp. apply is_path_all_in_states in Hp. eapply Forall_impl; [|exact Hp].
  intros s Hs. destruct HC_parts as [_ [_ [_ [_ [He _]]]]]. rewrite forallb_forall in He.
  specialize (He s (in_states_In _ Hs)). destruct (err_shift s); [discriminate | reflexivity].
Qed.

(* on every configuration reached by the driver all table accesses are in range: the checked
   versions of action / goto / R2 (None = index out of range = Go panic) agree with the total ones *)
Lemma step_in_range stk inp st v rest :
  is_path (sts stk) -> stk = (st, v) :: rest ->
  action_c st (lookahead inp) = Some (action st (lookahead inp)) /\
  match action st (lookahead inp) with
  | AReduce p =>
    (exists k, nth_c tR2 p = Some k /\ 0 <= k) /\
    match skipn (rlen p) stk with
    | (s0, _) :: _ => goto_c s0 p = Some (goto s0 p)
    | [] => True
    end
  | _ => True
  end.
Proof.
  intros Hp ->.
  assert (Hst : in_states st = true) by (eapply is_path_top_in_states; exact Hp).
  destruct (check_state_at st (lookahead inp) Hst (lookahead_in inp)) as [Hok Hchk].
  split.
  - unfold action_ok in Hok. destruct (action_c st (lookahead inp)) as [a|]; [|discriminate].
    f_equal. destruct a, (action st (lookahead inp)); cbn in Hok; try discriminate; try reflexivity;
      apply Z.eqb_eq in Hok; subst; reflexivity.
  - destruct (action st (lookahead inp)) as [t | p | | ]; auto.
    destruct Hchk as [Hr Hchk]. split.
    + unfold rlen_ok in Hr. destruct (nth_c tR2 p) as [k|]; [|discriminate]. exists k. split; [reflexivity|].
      apply Z.leb_le. exact Hr.
    + set (k := rlen p) in *.
      destruct (skipn k ((st, v) :: rest)) as [|[s0 v0] below] eqn:Hsk; [exact I|].
      assert (HskZ : skipn k (st :: sts rest) = s0 :: sts below).
      { change (st :: sts rest) with (map fst ((st, v) :: rest)). rewrite skipn_map, Hsk. reflexivity. }
      assert (Hlen : (k < length (st :: sts rest))%nat).
      { assert (Hl : (length (s0 :: sts below) = length (st :: sts rest) - k)%nat) by (rewrite <- HskZ; apply skipn_length).
        cbn [length] in *. lia. }
      change (sts ((st, v) :: rest)) with (st :: sts rest) in Hp.
      pose proof (bpaths_complete k st (sts rest) Hp Hlen) as Hin.
      specialize (Hchk _ Hin).
      assert (Hpth : firstn (S k) (st :: sts rest) = firstn k (st :: sts rest) ++ [s0]) by (eapply firstn_snoc; exact HskZ).
      unfold check_path in Hchk. rewrite Hpth in Hchk. rewrite rev_app_distr in Hchk. cbn [rev app] in Hchk.
      rewrite !andb_true_iff in Hchk. destruct Hchk as [[Hg _] _].
      unfold goto_ok in Hg. destruct (goto_c s0 p) as [g|]; [|discriminate].
      apply Z.eqb_eq in Hg. congruence.
Qed.

(* invariant preservation along a whole run, for the other theorems *)
Lemma step_path stk inp stk' inp' :
  is_path (sts stk) -> step stk inp = StCont V stk' inp' -> is_path (sts stk').
Proof. intros Hp Hs. exact (proj1 (step_decreases _ _ _ _ Hp Hs)). Qed.

(* acceptance happens on `$end` only, and `$end` is never shifted *)
Lemma accept_only_on_end stk inp v :
  is_path (sts stk) -> step stk inp = StAccept V v -> lookahead inp = tEofCode.
Proof.
  intros Hp Hstep. unfold LR.step in Hstep.
  destruct stk as [|[st v1] rest]; [discriminate|].
  assert (Hst : in_states st = true) by (eapply is_path_top_in_states; exact Hp).
  destruct (check_state_at st (lookahead inp) Hst (lookahead_in inp)) as [_ Hchk].
  destruct (action st (lookahead inp)) as [t | p | | ] eqn:Hact; try discriminate.
  - destruct inp; discriminate.
  - destruct (skipn (rlen p) ((st, v1) :: rest)) as [|[s0 v0] below]; [discriminate|].
    destruct (reduce_action p _); discriminate.
  - exact Hchk.
Qed.

Lemma shift_not_end stk tv inp stk' :
  is_path (sts stk) -> step stk (tv :: inp) = StCont V stk' inp -> lookahead (tv :: inp) <> tEofCode \/ stk' = stk.
Proof.
  intros Hp Hstep. unfold LR.step in Hstep.
  destruct stk as [|[st v1] rest]; [discriminate|].
  assert (Hst : in_states st = true) by (eapply is_path_top_in_states; exact Hp).
  destruct (check_state_at st (lookahead (tv :: inp)) Hst (lookahead_in (tv :: inp))) as [_ Hchk].
  destruct (action st (lookahead (tv :: inp))) as [t | p | | ] eqn:Hact; try discriminate.
  - left. tauto.
  - exfalso. destruct (skipn (rlen p) ((st, v1) :: rest)) as [|[s0 v0] below]; [discriminate|].
    destruct (reduce_action p _); [|discriminate].
    inversion Hstep as [[H1 H2]]. clear -H2.
    assert (Hl : length (tv :: inp) = length inp) by (rewrite H2; reflexivity). cbn in Hl. lia.
Qed.
End Values.
End Proof.
