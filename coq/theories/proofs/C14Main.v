(* proofs/C14Main.v — C14 assembled: for a renaming that is ADMISSIBLE for a program (injective on the
   channel identifiers / function names / type names / labels that occur in it, "" kept), the
   typechecker's verdict is unchanged and, for an accepted program, the interpreter runs the renamed
   annotated program in lock step with the original one and prints the renamed labels.
   Hypothesis `key_faithful_on r p`: EqualType's memo keys (printed types) of renamed types coincide
   exactly when the original keys do, for types built from the type names and labels of p. *)
From stdpp Require Import gmap strings.
Require Import Grits.Base Grits.ModeDefs Grits.Modes Grits.STypes Grits.Forms Grits.Subst Grits.TcDeps Grits.Expand.
Require Import Grits.Tc Grits.TcTop Grits.Runtime.
Require Import Grits.spec.Rename Grits.proofs.RenameTypes Grits.proofs.RenameSubst Grits.proofs.RenameTc
               Grits.proofs.RenameExt Grits.proofs.RenameRun.

Definition key_faithful (r : renaming) (okT okL : string -> Prop) : Prop :=
  forall s t s' t', okt okT okL pm False s -> okt okT okL pm False t -> okt okT okL pm False s' -> okt okT okL pm False t' ->
  (eq_key (rn_sty r s) (rn_sty r t) = eq_key (rn_sty r s') (rn_sty r t') <-> eq_key s t = eq_key s' t').

Definition inT (p : program) : string -> Prop := fun x => In x (a_type (program_atoms p)).
Definition inL (p : program) : string -> Prop := fun x => In x (a_label (program_atoms p)).
Definition key_faithful_on (r : renaming) (p : program) : Prop := key_faithful r (inT p) (inL p).

(* ---------- every type of a program is built from its atoms ---------- *)
Lemma okt_mono (P P' Q Q' : string -> Prop) (M : mode -> Prop) (NE : Prop) : (forall x, P x -> P' x) -> (forall x, Q x -> Q' x) ->
  (forall t, okt P Q M NE t -> okt P' Q' M NE t) /\ (forall b, okbrs P Q M NE b -> okbrs P' Q' M NE b).
Proof. intros HP HQ. apply sty_brs_ind; intros; cbn [okt okbrs] in *; intuition auto. Qed.
Lemma okt_weaken (P P' Q Q' : string -> Prop) M NE t : okt P Q M NE t -> (forall x, P x -> P' x) -> (forall x, Q x -> Q' x) -> okt P' Q' M NE t.
Proof. intros H HP HQ. exact (proj1 (okt_mono P P' Q Q' M NE HP HQ) t H). Qed.
Lemma okbrs_weaken (P P' Q Q' : string -> Prop) M NE b : okbrs P Q M NE b -> (forall x, P x -> P' x) -> (forall x, Q x -> Q' x) -> okbrs P' Q' M NE b.
Proof. intros H HP HQ. exact (proj2 (okt_mono P P' Q Q' M NE HP HQ) b H). Qed.

Lemma okt_atoms :
  (forall t, okt (fun x => In x (a_type (sty_atoms t))) (fun x => In x (a_label (sty_atoms t))) anym False t) /\
  (forall b, okbrs (fun x => In x (a_type (brs_atoms b))) (fun x => In x (a_label (brs_atoms b))) anym False b).
Proof.
  apply sty_brs_ind; intros; cbn [okt okbrs sty_atoms brs_atoms]; unfold anym; repeat split; auto;
    try (intros []; fail); try (left; reflexivity);
    try (eapply okt_weaken; [eassumption| |]; intros x Hx; cbn; try right; apply in_or_app; auto; fail);
    try (eapply okbrs_weaken; [eassumption| |]; intros x Hx; cbn; try right; apply in_or_app; auto; fail).
Qed.

Definition sub_atoms (a b : atoms) : Prop :=
  (forall x, In x (a_type a) -> In x (a_type b)) /\ (forall x, In x (a_label a) -> In x (a_label b)).
Lemma sub_refl a : sub_atoms a a. Proof. split; auto. Qed.
Lemma sub_trans a b c : sub_atoms a b -> sub_atoms b c -> sub_atoms a c.
Proof. intros [H1 H2] [G1 G2]. split; auto. Qed.
Lemma sub_app_l a b : sub_atoms a (at_app a b).
Proof. split; intros x Hx; cbn; apply in_or_app; auto. Qed.
Lemma sub_app_r a b : sub_atoms b (at_app a b).
Proof. split; intros x Hx; cbn; apply in_or_app; auto. Qed.
Lemma sub_concat {A} (g : A -> atoms) l x : In x l -> sub_atoms (g x) (at_concat (map g l)).
Proof.
  induction l as [|y l IH]; cbn [In map at_concat fold_right]; [tauto|]. intros [->|H].
  - apply sub_app_l.
  - eapply sub_trans; [apply IH, H | apply sub_app_r].
Qed.

Definition okA (a : atoms) := okt (fun x => In x (a_type a)) (fun x => In x (a_label a)) anym False.
Lemma okA_sub a b t : sub_atoms a b -> okA a t -> okA b t.
Proof. intros [H1 H2]. apply (proj1 (okt_mono _ _ _ _ anym False H1 H2)). Qed.
Lemma okA_self t : okA (sty_atoms t) t. Proof. apply okt_atoms. Qed.
Lemma okotA a t : sub_atoms (osty_atoms t) a -> okot (fun x => In x (a_type a)) (fun x => In x (a_label a)) anym False t.
Proof. destruct t as [t|]; cbn [okot osty_atoms]; [|auto]. intros H. eapply okA_sub; [exact H | apply okA_self]. Qed.

Lemma sub_app_inv a b c : sub_atoms (at_app a b) c -> sub_atoms a c /\ sub_atoms b c.
Proof. intros H. split; (eapply sub_trans; [|exact H]); [apply sub_app_l | apply sub_app_r]. Qed.
Ltac split_sub :=
  repeat match goal with
  | H : sub_atoms (at_app _ _) _ |- _ => apply sub_app_inv in H; destruct H
  | H : sub_atoms (name_atoms _) _ |- _ => unfold name_atoms in H
  end.

Lemma okform_atoms a :
  (forall f, sub_atoms (form_atoms f) a -> okform (fun x => In x (a_type a)) (fun x => In x (a_label a)) False f) /\
  (forall b, sub_atoms (branches_atoms b) a -> okbranches (fun x => In x (a_type a)) (fun x => In x (a_label a)) False b).
Proof.
  apply form_branches_ind; intros; cbn [okform okbranches form_atoms branches_atoms] in *; auto; split_sub;
    repeat match goal with
    | |- _ /\ _ => split
    | |- okot _ _ _ _ _ => apply okotA; assumption
    | IH : sub_atoms ?x a -> ?G |- ?G => apply IH; assumption
    end.
Qed.

Lemma oknames_atoms a ns : sub_atoms (names_atoms ns) a ->
  oknamesr (fun x => In x (a_type a)) (fun x => In x (a_label a)) False ns.
Proof.
  intros H. apply Forall_forall. intros n Hn. apply okotA.
  eapply sub_trans; [|exact H]. eapply sub_trans; [|apply (sub_concat name_atoms ns n Hn)].
  unfold name_atoms. apply sub_app_r.
Qed.

Theorem okprog_atoms p : okprog (inT p) (inL p) False p.
Proof.
  unfold okprog, inT, inL. set (a := program_atoms p).
  assert (S0 : sub_atoms (program_atoms p) a) by apply sub_refl.
  unfold program_atoms in S0. split_sub.
  split; [|split; [|split]].
  - intros d Hd. eapply okA_sub; [|apply okA_self].
    assert (Sd : sub_atoms (tdef_atoms d) a) by (eapply sub_trans; [apply (sub_concat tdef_atoms _ d Hd) | assumption]).
    unfold tdef_atoms in Sd. split_sub. assumption.
  - apply Forall_forall. intros f Hf.
    assert (Sf : sub_atoms (fundef_atoms f) a) by (eapply sub_trans; [apply (sub_concat fundef_atoms _ f Hf) | assumption]).
    unfold fundef_atoms in Sf. split_sub. repeat split.
    + apply okotA. assumption.
    + apply oknames_atoms. assumption.
    + apply okform_atoms. assumption.
  - apply Forall_forall. intros q Hq.
    assert (Sq : sub_atoms (procdef_atoms q) a) by (eapply sub_trans; [apply (sub_concat procdef_atoms _ q Hq) | assumption]).
    unfold procdef_atoms in Sq. split_sub. split.
    + apply okotA. assumption.
    + apply okform_atoms. assumption.
  - apply oknames_atoms. assumption.
Qed.

(* a renaming that agrees with r on the atoms of p is key-faithful on p if r is *)
Lemma rn_sty_agree r r' (P Q : string -> Prop) :
  (forall x, P x -> rt r' x = rt r x) -> (forall x, Q x -> rl r' x = rl r x) ->
  (forall t, okt P Q pm False t -> rn_sty r' t = rn_sty r t) /\ (forall b, okbrs P Q pm False b -> rn_brs r' b = rn_brs r b).
Proof.
  intros HP HQ. apply sty_brs_ind; intros; cbn [okt okbrs rn_sty rn_brs] in *; f_equal; intuition auto.
Qed.
Lemma key_faithful_agree r r' p : agree r' r (program_atoms p) -> key_faithful_on r p -> key_faithful_on r' p.
Proof.
  intros (_ & _ & H3 & H4) Hk s t s' t' Hs Ht Hs' Ht'.
  pose proof (proj1 (rn_sty_agree r r' (inT p) (inL p) H3 H4)) as E.
  rewrite !E by assumption. apply Hk; assumption.
Qed.

(* ---------------------------------------------------------------- the verdict *)
Definition accepts (v : verdict) : bool := match v with Accept _ => true | _ => false end.
Definition verdict_class (v : verdict) : string :=
  match v with Accept _ => "ACCEPT" | Reject => "REJECT" | RejectInternal _ => "INTERNAL" | Diverge _ => "DIVERGE" end.

Theorem verdict_invariant_strong r p : admissible r p -> key_faithful_on r p ->
  exists r', ginjective r' /\ agree r' r (program_atoms p) /\ (forall x, rp r' x = rp r x) /\
             typecheck (rn_program r p) = rn_verdict r' (typecheck p).
Proof.
  intros Ha Hk. destruct (globalize_spec r p Ha) as ((Hc & Hc0 & Hf & Ht & Hl) & Ep & Hag).
  exists (globalize r p). split; [repeat split; assumption|]. split; [exact Hag|]. split; [reflexivity|].
  rewrite <- Ep.
  apply (typecheck_rn (globalize r p) Hc Hc0 Hf Ht Hl (inT p) (inL p) False).
  - apply (key_faithful_agree r); assumption.
  - apply okprog_atoms.
Qed.

Theorem verdict_invariant r p : admissible r p -> key_faithful_on r p ->
  verdict_class (typecheck (rn_program r p)) = verdict_class (typecheck p).
Proof.
  intros Ha Hk. destruct (verdict_invariant_strong r p Ha Hk) as (r' & _ & _ & _ & E).
  rewrite E. destruct (typecheck p); reflexivity.
Qed.

Lemma rn_sty_id r : (forall x, rt r x = x) -> (forall x, rl r x = x) ->
  (forall t, rn_sty r t = t) /\ (forall b, rn_brs r b = b).
Proof. intros H1 H2. apply sty_brs_ind; intros; cbn [rn_sty rn_brs]; rewrite ?H1, ?H2; congruence. Qed.

(* the four special cases of the statement *)
Corollary tc_label_equivariant l p : inj_on (a_label (program_atoms p)) l -> key_faithful_on (ren_labels l) p ->
  verdict_class (typecheck (rn_labels l p)) = verdict_class (typecheck p).
Proof.
  intros Hl Hk. apply (verdict_invariant (ren_labels l) p); [|exact Hk].
  unfold admissible, ren_labels; cbn [rc rf rt rl]. repeat split; try exact Hl; intros x y _ _ E; exact E.
Qed.

Corollary tc_chan_equivariant c p : inj_on ("" :: a_chan (program_atoms p)) c -> c "" = "" ->
  verdict_class (typecheck (rn_program (Ren c (fun x => x) (fun x => x) (fun x => x) (fun x => x)) p)) = verdict_class (typecheck p).
Proof.
  intros Hc Hc0. apply verdict_invariant.
  - unfold admissible; cbn [rc rf rt rl]. repeat split; try assumption; intros x y _ _ E; exact E.
  - intros s t s' t' _ _ _ _.
    assert (E : forall u, rn_sty (Ren c (fun x => x) (fun x => x) (fun x => x) (fun x => x)) u = u)
      by (apply rn_sty_id; reflexivity).
    rewrite !E. tauto.
Qed.

(* ---------------------------------------------------------------- the outcome *)
Theorem outcome_invariant r p p' : admissible r p -> key_faithful_on r p -> typecheck p = Accept p' ->
  exists q', typecheck (rn_program r p) = Accept q' /\
    forall fuel pick md,
      kind_of (run_program fuel pick md q') = kind_of (run_program fuel pick md p') /\
      labels (final_cfg (run_program fuel pick md q')) = map (rp r) (labels (final_cfg (run_program fuel pick md p'))) /\
      live md (p_types q') (final_cfg (run_program fuel pick md q')) = live md (p_types p') (final_cfg (run_program fuel pick md p')).
Proof.
  intros Ha Hk Hp. destruct (verdict_invariant_strong r p Ha Hk) as (r' & (Hc & Hc0 & Hf & Ht & Hl) & _ & Hrp & E).
  rewrite Hp in E. cbn [rn_verdict] in E. exists (rn_program r' p'). split; [exact E|].
  intros fuel pick md.
  destruct (run_observables r' Hc Hc0 Hf Ht Hl fuel pick md p') as (H1 & H2 & H3 & _).
  split; [exact H1|]. split; [|exact H3]. rewrite H2. apply map_ext. exact Hrp.
Qed.
