(* TopoNP.v — the forest invariant along the runs of the NON-POLARIZED mode.
   A step of `step NP` is a step of `step Sync` on the same configuration (forwards are inert under
   `Run` and `Rendezvous` in this mode, every other process acts as in the synchronous mode), unless
   it is (a) `drop c; k` — the process goes on with k and nothing is spawned — or (b) the control
   message of a forward, `Control f t`: f disappears, its providers replace the first provider entry of
   t, and the channel of that entry is closed.  The invariant `InvX` of proofs/InvAll.v (another
   contributor) is preserved by the synchronous steps (proofs/DeterminismAll.v `invx_step`); here: (a)
   and (b).  For (b), Topo by the rewriting principle `TopoStep.topo_rewrite` with X = {f, t}, Y = {t'}:
   the rank of the providers handed over is below that of the closed channel (f provided them and
   referred to it), which is below everything t refers to. *)
From stdpp Require Import gmap strings sorting.
Require Import Grits.Base Grits.ModeDefs Grits.Modes Grits.STypes Grits.Forms Grits.Subst Grits.TcDeps Grits.Expand
               Grits.Tc Grits.TcTop Grits.spec.SynOk Grits.Runtime Grits.RuntimeFootprint
               Grits.spec.RtTyping Grits.spec.Topo Grits.proofs.RtSubst Grits.proofs.RtEffect Grits.proofs.StepErrors
               Grits.proofs.RtSafety Grits.proofs.RtSafetyNP
               Grits.proofs.RtInit Grits.proofs.RtProgress Grits.proofs.RtTheorems
               Grits.proofs.RtTcSyn Grits.proofs.RtTcBisim Grits.proofs.ParseSynOk Grits.proofs.ParseRaw Grits.proofs.RtTheoremsTc.
Require Import Grits.proofs.RuntimeFacts Grits.proofs.AsyncSync
               Grits.proofs.TopoLin Grits.proofs.TopoStep Grits.proofs.InvAll Grits.proofs.DeterminismAll
               Grits.proofs.SrcAll.

(* ------------------------------------------------------------------ the steps of the mode *)
Section Cases.
Variable D : tenv.
Variable F : list fundef.

Lemma action_np_sync p : body_is_fwd (pr_body0 p) = false -> action_of NP D p = action_of Sync D p.
Proof. intros H. rewrite (action_np_nonfwd D p H). symmetry. apply action_of_sync. Qed.

Lemma action_np_fwd p : body_is_fwd (pr_body0 p) = true ->
  (exists k pv, action_of NP D p = ACtrl k pv) \/ action_of NP D p = ANever \/ exists w, action_of NP D p = AErr w.
Proof.
  unfold action_of. destruct (pr_body0 p); try discriminate. intros _. simpl.
  destruct (negb (is_self to)); [right; right; eauto|]. destruct (chan from); [left; eauto|right; left; auto].
Qed.

Definition drop_step (c : config) (ch : choice) (c' : config) : Prop :=
  exists p pp cl k0, ch = Run p /\ procs c !! p = Some pp /\ pr_body0 pp = FDrop cl k0 /\
    action_of NP D pp = AInternal /\
    c' = apply_effect c p pp (no_eff (Continue (set_body pp k0))).

Definition control_step (c : config) (ch : choice) (c' : config) : Prop :=
  exists f t pf pt k, ch = Control f t /\ f <> t /\ procs c !! f = Some pf /\ procs c !! t = Some pt /\
    action_of NP D pf = ACtrl k (pr_provs pf) /\ self_chan pt = Some k /\ polls_control NP D pt = true /\
    c' = apply_effect (del_proc c f) t pt
           (Eff (Continue (set_provs_body pt (pr_provs pf ++ tl (pr_provs pt)) (pr_body0 pt))) [] []
                (cids_of (firstn 1 (pr_provs pt))) []).

Lemma step_np_cases c ch c' : step NP D F c ch = SStep c' ->
  step Sync D F c ch = SStep c' \/ drop_step c ch c' \/ control_step c ch c'.
Proof.
  destruct ch as [p|s r|f t]; cbn [step].
  - destruct (procs c !! p) as [pp|] eqn:Hp; [|discriminate].
    destruct (body_is_fwd (pr_body0 pp)) eqn:Ef.
    + destruct (action_np_fwd pp Ef) as [(k & pv & ->)|[->|(w & ->)]]; discriminate.
    + rewrite <- (action_np_sync pp Ef).
      destruct (action_of NP D pp) as [| |k m|k| |k pv|w] eqn:Ea; try discriminate.
      * auto.
      * (* internal *)
        destruct (is_drop (pr_body0 pp)) eqn:Ed.
        -- intros H. right. left. destruct (pr_body0 pp) as [| | | | | | | | | | | |cl k0|] eqn:Eb; try discriminate Ed.
           unfold internal_effect in H. rewrite Eb in H. cbn in H. injection H as <-.
           exists p, pp, cl, k0. auto.
        -- rewrite (internal_np_nondrop F p pp Ed), <- (internal_effect_sync F p pp). auto.
      * destruct (chans c !! k) as [st|]; auto.
      * auto.
  - destruct (bool_decide (s = r)); [discriminate|].
    destruct (procs c !! s) as [ps|] eqn:Hs; [|discriminate]. destruct (procs c !! r) as [pr|] eqn:Hr; [|discriminate].
    destruct (body_is_fwd (pr_body0 ps)) eqn:Es.
    { destruct (action_np_fwd ps Es) as [(k & pv & ->)|[->|(w & ->)]]; discriminate. }
    destruct (body_is_fwd (pr_body0 pr)) eqn:Er.
    { destruct (action_np_fwd pr Er) as [(k & pv & ->)|[->|(w & ->)]]; destruct (action_of NP D ps); discriminate. }
    rewrite <- (action_np_sync ps Es), <- (action_np_sync pr Er). auto.
  - destruct (bool_decide (f = t)) eqn:Eft; [discriminate|]. apply bool_decide_eq_false in Eft. cbn [negb is_np orb].
    destruct (procs c !! f) as [pf|] eqn:Hf; [|discriminate]. destruct (procs c !! t) as [pt|] eqn:Ht; [|discriminate].
    destruct (action_of NP D pf) as [| |k m|k| |k pv|w] eqn:Ea; try discriminate.
    destruct (self_chan pt) as [k'|] eqn:Esc; [|discriminate].
    destruct (bool_decide (k = k')) eqn:Ek; [|discriminate]. apply bool_decide_eq_true in Ek. subst k'.
    destruct (polls_control NP D pt) eqn:Epc; [|discriminate]. cbn [andb]. intros [= <-].
    right. right. exists f, t, pf, pt, k.
    assert (pv = pr_provs pf) as ->.
    { unfold action_of in Ea. destruct (pr_body0 pf); try discriminate; simpl in Ea;
        repeat match type of Ea with (if ?b then _ else _) = _ => destruct b end;
        try discriminate; unfold send_on, recv_on, internal in Ea;
        repeat match type of Ea with
               | (if ?b then _ else _) = _ => destruct b
               | match ?x with _ => _ end = _ => destruct x
               end; try discriminate. injection Ea as _ <-. reflexivity. }
    auto 10.
Qed.
End Cases.

(* ------------------------------------------------------------------ the invariant *)
Section Inv.
Variable D : tenv.
Variable F : list fundef.
Variable teq : sty -> sty -> Prop.
Hypothesis Hteq : teq_laws D teq.
Hypothesis HF : funs_typed D F teq.
Hypothesis HFa : funs_aff F.
Hypothesis HFn : nofd_funs F.
Notation InvX := (InvX D F teq).

Lemma closed_unused_np c : Topo c -> closed_unused D NP c.
Proof. apply topo_closed_unused_np. Qed.

(* (a) drop: the process goes on with the continuation *)
Lemma invx_drop_np c ch c' : InvX c -> step NP D F c ch = SStep c' -> drop_step D c ch c' -> InvX c'.
Proof.
  intros [[Δ Hc] Ht Hl Hns Hpv Hd Hnf] Hs (p & pp & cl & k0 & -> & Hp & Eb & Ea & ->).
  destruct (preservation_np D F teq Hteq HF Δ c (Run p) _ Hc (closed_unused_np c Ht) Hs) as (Δ' & _ & Hc').
  pose proof (ns_ok_step _ _ _ _ _ _ Hns Hs) as Hns'.
  assert (Hgoal : Rest (apply_effect c p pp (no_eff (Continue (set_body pp k0)))));
    [|destruct Hgoal as (H1 & H2 & H3 & H4 & H5); split; eauto].
  clear Hc' Hns' Δ' Hs.
  pose proof (lc_procs c Hl p pp Hp) as Hlinp. pose proof (Hnf p pp Hp) as Hnfp. pose proof (proj1 Hpv p pp Hp) as Hndp.
  destruct pp as [provs body nx]. cbn [pr_body0 pr_provs pr_next] in *. subst body.
  split.
  - unfold no_eff. rewrite apply_cont_effect. cbn [pr_provs pr_body0 set_body rev map app pr_next].
    apply (topo_cont c p (Proc provs (FDrop cl k0) nx)); try done. intros i Hi. simpl. set_solver.
  - apply (rest_of_effect D F teq Δ c c p _ _ (fun j => j ∈ form_chans (FDrop cl k0))); auto.
    + intros j Hj. exists (OProc p (Proc provs (FDrop cl k0) nx)). split; [exact Hp|exact Hj].
    + intros pp1 [= <-]. cbn. split; [simpl in Hlinp; tauto|]. split; [exact Hndp|]. split; [exact Hnfp|].
      intros j Hj. left. simpl. set_solver.
    + intros s0 [].
Qed.

(* (b) the control message of a forward *)
Lemma cids_of_app a b : cids_of (a ++ b) = cids_of a ++ cids_of b.
Proof. unfold cids_of. apply flat_map_app. Qed.

Lemma self_chan_cons pt k : self_chan pt = Some k -> exists n0 rest, pr_provs pt = n0 :: rest /\ chan n0 = Some k.
Proof. unfold self_chan, prov0. destruct (pr_provs pt) as [|n0 rest]; simpl; [discriminate|]. eauto. Qed.

Definition close_one (m : gmap cid chan_st) (k : cid) : gmap cid chan_st :=
  match m !! k with Some st => <[ k := Chan (ch_buf st) true ]> m | None => m end.

Lemma control_cfg c0 t pt pp1 k :
  apply_effect c0 t pt (Eff (Continue pp1) [] [] [k] []) =
  Cfg (<[t := Proc (pr_provs pp1) (pr_body0 pp1) (pr_next pp1 + 0)]> (procs c0)) (close_one (chans c0) k) (out c0).
Proof. reflexivity. Qed.

Lemma close_one_lookup m k k' st' : close_one m k !! k' = Some st' ->
  exists st, m !! k' = Some st /\ ch_buf st' = ch_buf st /\ (ch_closed st' = true -> ch_closed st = true \/ k' = k).
Proof.
  unfold close_one. destruct (m !! k) as [st|] eqn:E.
  - intros H. apply lookup_insert_Some in H as [[<- <-]|[Hne H]].
    + exists st. simpl. auto.
    + exists st'. auto.
  - intros H. exists st'. auto.
Qed.
Lemma close_one_keep m k k' st : m !! k' = Some st -> exists st', close_one m k !! k' = Some st' /\ ch_buf st' = ch_buf st.
Proof.
  unfold close_one. intros H. destruct (m !! k) as [st0|] eqn:E; [|eauto].
  destruct (decide (k = k')) as [->|Hne].
  - rewrite lookup_insert. rewrite E in H. injection H as ->. eauto.
  - rewrite lookup_insert_ne by auto. eauto.
Qed.

Lemma topo_control c f t pf pt k n0 rest to from d o' :
  Topo c -> bufs_empty c -> ProvsOk c -> f <> t ->
  procs c !! f = Some pf -> procs c !! t = Some pt ->
  pr_body0 pf = FFwd to from d -> chan from = Some k ->
  pr_provs pt = n0 :: rest -> chan n0 = Some k ->
  Topo (Cfg (<[t := Proc (pr_provs pf ++ rest) (pr_body0 pt) (pr_next pt + 0)]> (delete f (procs c)))
            (close_one (chans c) k) o').
Proof.
  intros Ht Hbe [Hnd _] Hft Hf Hpt Ebf Hfrom Epv Hn0.
  set (pt' := Proc (pr_provs pf ++ rest) (pr_body0 pt) (pr_next pt + 0)).
  set (c' := Cfg (<[t := pt']> (delete f (procs c))) (close_one (chans c) k) o').
  assert (Hfk : k ∈ refs (OProc f pf)).
  { cbn. rewrite Ebf. simpl. unfold name_chans at 2. rewrite Hfrom. set_solver. }
  assert (Htk : k ∈ provides (OProc t pt)).
  { cbn. rewrite Epv. simpl. rewrite Hn0. set_solver. }
  assert (Hprovt : forall j, j ∈ cids_of (pr_provs pt) <-> j = k \/ j ∈ cids_of rest).
  { intros j. rewrite Epv. simpl. rewrite Hn0. set_solver. }
  assert (Hkrest : k ∉ cids_of rest).
  { pose proof (Hnd t pt Hpt) as N. rewrite Epv in N. simpl in N. rewrite Hn0 in N. simpl in N.
    inversion N as [|? ? Hn ?]; subst. intros Hx. apply Hn. apply elem_of_list_In. exact Hx. }
  assert (Hobj' : forall ob, obj_in c' ob ->
            match ob with
            | OProc r rr => (r = t /\ rr = pt') \/ (r <> t /\ r <> f /\ procs c !! r = Some rr)
            | OMsg k' m' => obj_in c (OMsg k' m')
            end).
  { intros [r rr|k' m']; unfold c'; cbn.
    - intros H. apply lookup_insert_Some in H as [[<- <-]|[Hn H]]; [by left|right].
      apply lookup_delete_Some in H as [Hnf H]. auto.
    - intros (st' & H & Hb). apply close_one_lookup in H as (st & H & Hbuf & _). exists st. split; [done|congruence]. }
  assert (Htrefs : forall j, j ∈ refs (OProc t pt) -> j <> k).
  { intros j Hj ->. apply Hft. assert (E : OProc f pf = OProc t pt) by (eapply (topo_ref_unique c Ht _ _ k); eauto).
    by injection E. }
  apply (topo_rewrite c c' [OProc f pf; OProc t pt] [OProc t pt'] (fun _ => False)); try done.
  - intros o Ho. apply elem_of_cons in Ho as [->|Ho]; [exact Hf|]. apply elem_of_list_singleton in Ho as ->. exact Hpt.
  - intros [r rr|k' m'] Ho.
    + destruct (decide (r = f)) as [->|Hnf].
      { left. cbn in Ho. rewrite Hf in Ho. injection Ho as <-. set_solver. }
      destruct (decide (r = t)) as [->|Hnt].
      { left. cbn in Ho. rewrite Hpt in Ho. injection Ho as <-. set_solver. }
      right. intros H. apply elem_of_cons in H as [E|H]; [congruence|]. apply elem_of_list_singleton in H. congruence.
    + right. intros H. apply elem_of_cons in H as [E|H]; [discriminate|]. apply elem_of_list_singleton in H. discriminate.
  - intros ob Ho'. specialize (Hobj' ob Ho'). destruct ob as [r rr|k' m'].
    + destruct Hobj' as [[-> ->]|(Hn1 & Hn2 & H)]; [right; by apply elem_of_list_singleton|].
      left. split; [exact H|]. intros Hx. apply elem_of_cons in Hx as [E|Hx]; [congruence|]. apply elem_of_list_singleton in Hx. congruence.
    + left. split; [exact Hobj'|]. intros Hx. apply elem_of_cons in Hx as [E|Hx]; [discriminate|]. apply elem_of_list_singleton in Hx. discriminate.
  - intros [r rr|k' m'] Ho Hx; unfold c'; cbn.
    + cbn in Ho. assert (r <> f) by (intros ->; apply Hx; rewrite Hf in Ho; injection Ho as <-; set_solver).
      assert (r <> t) by (intros ->; apply Hx; rewrite Hpt in Ho; injection Ho as <-; set_solver).
      rewrite lookup_insert_ne by auto. rewrite lookup_delete_ne by auto. exact Ho.
    + destruct Ho as (st & H & Hb). destruct (close_one_keep _ k _ _ H) as (st' & H' & Hb'). exists st'. split; [done|congruence].
  - intros ob Ho'. apply elem_of_list_singleton in Ho' as ->. unfold c'. cbn. apply lookup_insert.
  - intros ob j Ho' Hj. apply elem_of_list_singleton in Ho' as ->. left. cbn in Hj. rewrite cids_of_app in Hj.
    apply elem_of_app in Hj as [Hj|Hj].
    + exists (OProc f pf). split; [set_solver|exact Hj].
    + exists (OProc t pt). split; [set_solver|]. cbn. apply Hprovt. auto.
  - intros ob j Ho' Hj. apply elem_of_list_singleton in Ho' as ->. left. exists (OProc t pt). split; [set_solver|exact Hj].
  - intros o1 o2 j H1 H2 _ _. apply elem_of_list_singleton in H1, H2. congruence.
  - intros o1 o2 j H1 H2 _ _. apply elem_of_list_singleton in H1, H2. congruence.
  - intros o j Ho Hj. apply elem_of_cons in Ho as [->|Ho].
    + left. exists (OProc t pt'). split; [set_solver|]. cbn. rewrite cids_of_app. apply elem_of_app. left. exact Hj.
    + apply elem_of_list_singleton in Ho as ->. cbn in Hj. apply Hprovt in Hj as [->|Hj].
      * right. split.
        -- intros o2 Ho2 Hk2. assert (o2 = OProc f pf) as -> by (eapply (topo_ref_unique c Ht _ _ k); eauto). set_solver.
        -- intros ob Hob Hkr. apply elem_of_list_singleton in Hob as ->. exact (Htrefs k Hkr eq_refl).
      * left. exists (OProc t pt'). split; [set_solver|]. cbn. rewrite cids_of_app. apply elem_of_app. right. exact Hj.
  - intros k' st' Hk' Hcl'. unfold c' in Hk'. cbn in Hk'. apply close_one_lookup in Hk' as (st & Hst & Hbuf & Hcl).
    destruct (Hcl Hcl') as [Hold| ->]; [left; exists st; auto|].
    right. split; [rewrite Hbuf; exact (Hbe k st Hst)|].
    intros ob Hob. specialize (Hobj' ob Hob). destruct ob as [r rr|k' m'].
    + destruct Hobj' as [[-> ->]|(Hn1 & Hn2 & H)].
      * split.
        -- cbn. rewrite cids_of_app. intros Hk. apply elem_of_app in Hk as [Hk|Hk]; [|contradiction].
           apply Hft. assert (E : OProc f pf = OProc t pt) by (eapply (topo_prov_unique c Ht _ _ k); eauto). by injection E.
        -- intros Hk. exact (Htrefs k Hk eq_refl).
      * split.
        -- intros Hk. apply Hn1. assert (E : OProc r rr = OProc t pt) by (eapply (topo_prov_unique c Ht _ _ k); eauto). by injection E.
        -- intros Hk. apply Hn2. assert (E : OProc r rr = OProc f pf) by (eapply (topo_ref_unique c Ht _ _ k); eauto). by injection E.
    + destruct Hobj' as (st0 & H0 & Hb0). rewrite (Hbe _ _ H0) in Hb0. discriminate.
  - intros rk M Hr. exists rk, M. eapply rank_ok_same_dom; [| |exact Hr].
    + intros k' [st' Hk']. unfold c' in Hk'. cbn in Hk'. apply close_one_lookup in Hk' as (st & Hst & _). eauto.
    + intros ob k1 j Ho' Hk1 Hj. specialize (Hobj' ob Ho'). destruct Hr as [_ Hr]. destruct ob as [r rr|k' m'].
      * destruct Hobj' as [[-> ->]|(_ & _ & H)]; [|eapply (Hr (OProc r rr)); eauto].
        cbn in Hk1. rewrite cids_of_app in Hk1. apply elem_of_app in Hk1 as [Hk1|Hk1].
        -- assert (H1 : (rk k1 < rk k)%nat) by (eapply (Hr (OProc f pf)); eauto).
           assert (H2 : (rk k < rk j)%nat) by (eapply (Hr (OProc t pt)); eauto). lia.
        -- eapply (Hr (OProc t pt)); eauto. cbn. apply Hprovt. auto.
      * eapply (Hr (OMsg k' m')); eauto.
Qed.

Lemma action_ctrl_fwd pf k pv : action_of NP D pf = ACtrl k pv ->
  exists to from d, pr_body0 pf = FFwd to from d /\ chan from = Some k.
Proof.
  intros Ea. unfold action_of in Ea. destruct (pr_body0 pf) eqn:Eb; try discriminate; simpl in Ea;
    repeat match type of Ea with (if ?b then _ else _) = _ => destruct b end;
    try discriminate; unfold send_on, recv_on, internal in Ea;
    repeat match type of Ea with
           | (if ?b then _ else _) = _ => destruct b
           | match ?x with _ => _ end = _ => destruct x eqn:?
           end; try discriminate.
  injection Ea as <- _. eauto.
Qed.

Lemma nodup_app_in {A} (l1 l2 : list A) : NoDup l1 -> NoDup l2 -> (forall x, In x l1 -> ~ In x l2) -> NoDup (l1 ++ l2).
Proof.
  induction l1 as [|a r IH]; simpl; intros N1 N2 Dj; auto. inversion N1; subst.
  constructor.
  - rewrite in_app_iff. intros [H|H]; [tauto|]. apply (Dj a); simpl; auto.
  - apply IH; [assumption|assumption|]. intros x Hx. apply Dj. now right.
Qed.

Lemma invx_control_np c ch c' :
  InvX c -> bufs_empty c -> step NP D F c ch = SStep c' -> control_step D c ch c' -> InvX c' /\ bufs_empty c'.
Proof.
  intros [[Δ Hc] Ht Hl Hns Hpv Hd Hnf] Hbe Hs (f & t & pf & pt & k & -> & Hft & Hf & Hpt & Ea & Esc & Epc & ->).
  destruct (preservation_np D F teq Hteq HF Δ c (Control f t) _ Hc (closed_unused_np c Ht) Hs) as (Δ' & _ & Hc').
  pose proof (ns_ok_step _ _ _ _ _ _ Hns Hs) as Hns'.
  destruct (action_ctrl_fwd pf k _ Ea) as (to & from & d & Ebf & Hfrom).
  destruct (self_chan_cons pt k Esc) as (n0 & rest & Epv & Hn0).
  assert (Hfk : k ∈ refs (OProc f pf)).
  { cbn. rewrite Ebf. simpl. unfold name_chans at 2. rewrite Hfrom. set_solver. }
  assert (Hclose : cids_of (firstn 1 (pr_provs pt)) = [k]).
  { rewrite Epv. simpl. rewrite Hn0. reflexivity. }
  rewrite Hclose in *. assert (Htl : tl (pr_provs pt) = rest) by (rewrite Epv; reflexivity). rewrite Htl in *.
  split.
  - assert (Hgoal : Rest (apply_effect (del_proc c f) t pt
               (Eff (Continue (set_provs_body pt (pr_provs pf ++ rest) (pr_body0 pt))) [] [] [k] [])));
      [|destruct Hgoal as (H1 & H2 & H3 & H4 & H5); split; eauto].
    clear Hc' Hns' Δ' Hs. split.
    + rewrite control_cfg. cbn [pr_provs pr_body0 pr_next set_provs_body del_proc procs chans out].
      eapply (topo_control c f t pf pt k n0 rest to from d); eauto.
    + apply (rest_of_effect D F teq Δ c (del_proc c f) t pt _ (fun j => j ∈ form_chans (pr_body0 pt))); auto.
      * intros [q v|k' m']; cbn; [|done]. intros H. apply lookup_delete_Some in H. tauto.
      * intros q v H. cbn in H. apply lookup_delete_Some in H. tauto.
      * intros j Hj. exists (OProc t pt). split; [exact Hpt|exact Hj].
      * intros pp1 [= <-]. cbn [pr_provs pr_body0 set_provs_body]. split; [exact (lc_procs c Hl t pt Hpt)|]. split.
        { rewrite cids_of_app. apply nodup_app_in.
          - exact (proj1 Hpv f pf Hf).
          - pose proof (proj1 Hpv t pt Hpt) as N. rewrite Epv in N. simpl in N. rewrite Hn0 in N. simpl in N. inversion N; auto.
          - intros x Hx1 Hx2. apply Hft.
            assert (E : OProc f pf = OProc t pt).
            { eapply (topo_prov_unique c Ht _ _ x); eauto; cbn; [by apply elem_of_list_In|].
              rewrite Epv. simpl. rewrite Hn0. simpl. right. by apply elem_of_list_In. }
            by injection E. }
        split.
        { pose proof (Hnf t pt Hpt) as Hn. unfold nofd_top in Hn. destruct (is_dfwd (pr_body0 pt)) eqn:Edf; [|exact Hn].
          exfalso. destruct (Hd t pt Hpt Edf) as [_ Hun]. apply (Hun k (OProc f pf)); auto.
          rewrite Epv. simpl. rewrite Hn0. set_solver. }
        intros j Hj. left. exact Hj.
      * intros s0 [].
  - intros k' st' Hk'. rewrite control_cfg in Hk'. cbn [chans del_proc] in Hk'.
    apply close_one_lookup in Hk' as (st & Hst & Hbuf & _). rewrite Hbuf. exact (Hbe k' st Hst).
Qed.

(* one step of the mode *)
Theorem invx_step_np c ch c' :
  InvX c -> bufs_empty c -> step NP D F c ch = SStep c' -> InvX c' /\ bufs_empty c'.
Proof.
  intros HI Hbe Hs. destruct (step_np_cases D F c ch c' Hs) as [Hsync|[Hdr|Hct]].
  - destruct (invx_step D F teq Hteq HF HFa HFn Sync c ch c' eq_refl HI (fun _ => Hbe) Hsync) as [H1 H2]. auto.
  - split; [eapply invx_drop_np; eauto|].
    destruct Hdr as (p & pp & cl & k0 & _ & _ & _ & _ & ->). unfold no_eff. rewrite apply_cont_effect. exact Hbe.
  - eapply invx_control_np; eauto.
Qed.

Theorem invx_reachable_np c0 c :
  InvX c0 -> bufs_empty c0 -> reachable D F NP c0 c -> InvX c /\ bufs_empty c.
Proof.
  intros HI Hb Hr. induction Hr as [|c1 ch c2 Hr IH Hs]; [done|]. destruct IH as [H1 H2]. eapply invx_step_np; eauto.
Qed.
End Inv.

(* ------------------------------------------------------------------ accepted closed programs *)
Theorem topo_runs_np_tc p p' :
  typecheck p = Accept p' -> in_fragment p' -> prog_syn_ok p = true -> raw_ok p = true -> all_src_b p = true ->
  topo_runs_np p'.
Proof.
  intros Ha Hf PS RS Hall c Hr.
  destruct (init_invx p p' Ha Hf PS RS Hall) as (HFa & HFn & HI).
  pose proof (tc_annotations_typed_rt p p' Ha PS RS Hf) as Hst.
  destruct (invx_reachable_np (p_types p') (p_funs p') (teq_rt (p_types p')) (teq_rt_laws _) (proj1 Hst) HFa HFn
              (init_config p') c HI (bufs_empty_init p') Hr) as [H _].
  exact (ix_topo _ _ _ _ H).
Qed.

Theorem topo_runs_np_parsed txt p p' :
  parse_string txt = POk p -> typecheck p = Accept p' -> in_fragment p' -> topo_runs_np p'.
Proof.
  intros Hp Ha Hf. exact (topo_runs_np_tc p p' Ha Hf (parse_syn_ok _ _ Hp) (parse_raw_ok _ _ Hp) (all_src_parsed txt p p' Hp Ha)).
Qed.

(* C01, the three modes: no premise beyond parsed / accepted / closed *)
Theorem safety_np_parsed txt p p' :
  parse_string txt = POk p -> typecheck p = Accept p' -> in_fragment p' ->
  forall fuel pick c who e,
    exec_run fuel pick NP (p_types p') (p_funs p') (init_config p') <> RError c who e.
Proof. intros Hp Ha Hf. exact (safety_np_parsed_partial txt p p' Hp Ha Hf (topo_runs_np_parsed txt p p' Hp Ha Hf)). Qed.
