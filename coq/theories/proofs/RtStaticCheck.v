(* RtStaticCheck.v — a CHECKER for the premise `static_typed` of the safety / progress theorems:
   `static_typed_b p = true` implies `static_typed (teq_alg D) p`, where teq_alg is the type
   equality the Go code computes (TcDeps.equal_type).  No law of the equality is needed for this
   (the judgement only mentions it as a relation; reflexivity, where a rule needs it, is computed).
   The extracted checker is run on the annotated output of the typechecker model for every program
   of the correspondence suite (lib/vlib/props/C01.py): for each of them the hypothesis
   `tc_annotations_typed` is then a theorem. *)
From stdpp Require Import gmap strings.
Require Import Grits.Base Grits.ModeDefs Grits.Modes Grits.STypes Grits.Forms Grits.Subst Grits.TcDeps Grits.Expand
               Grits.Tc Grits.TcTop Grits.Runtime Grits.spec.RtTyping Grits.proofs.RtInit Grits.proofs.RtTheorems.

Section Check.
Variable D : tenv.
Variable F : list fundef.

Definition teq_alg (a b : sty) : Prop := equal_type D a b = Ok true.
Definition teqb (a b : sty) : bool := match equal_type D a b with Ok true => true | _ => false end.

Lemma teqb_true a b : teqb a b = true -> teq_alg a b.
Proof. unfold teqb, teq_alg. destruct (equal_type D a b) as [[|]| |]; auto; discriminate. Qed.

Definition whdb (t : sty) : option sty :=
  match unfold D t with Ok (Some u) => if is_name u then None else Some u | _ => None end.

Lemma unfold_f_whd n t u : unfold_f n D t = Ok (Some u) -> is_name u = false -> whd D t u.
Proof.
  revert t. induction n as [|n IH]; intros t; simpl; [discriminate|].
  destruct t; try (intros [= <-] Hn; constructor; auto; fail).
  destruct (tlookup D x) as [d|] eqn:E; [|discriminate].
  intros H Hn. eapply whd_name; eauto.
Qed.

Lemma whdb_sound t u : whdb t = Some u -> whd D t u.
Proof.
  unfold whdb, unfold. destruct (unfold_f _ D t) as [[v|]| |] eqn:E; try discriminate.
  destruct (is_name v) eqn:En; [discriminate|]. intros [= <-]. eapply unfold_f_whd; eauto.
Qed.

(* ------------------------------------------------------------------ names *)
Definition prov_b (sh : option string) (rs : gset string) (n : name) : bool :=
  match chan n with
  | Some _ => false
  | None => if is_self n then bool_decide (ident n ∈ rs) else bool_decide (sh = Some (ident n))
  end.

Lemma prov_b_sound sh rs n : prov_b sh rs n = true -> prov_name sh rs n.
Proof.
  unfold prov_b, prov_name. destruct (chan n); [discriminate|]. destruct (is_self n); intros H; apply bool_decide_eq_true in H; auto.
Qed.

Definition ann_b (n : name) (t : sty) : bool :=
  match nty n with Some t0 => negb (is_name t0) && teqb t0 t | None => false end.

Lemma ann_b_sound n t : ann_b n t = true -> ann_ok teq_alg n t.
Proof.
  unfold ann_b, ann_ok. destruct (nty n) as [t0|]; [|discriminate]. intros H.
  apply andb_true_iff in H. destruct H as [H1 H2]. exists t0. split; auto. split; [destruct (is_name t0); auto; discriminate|apply teqb_true; auto].
Qed.

(* static bodies mention no channel *)
Definition client_b (Γ : gmap string sty) (sh : option string) (n : name) (t : sty) : bool :=
  negb (is_self n) && ann_b n t &&
  match chan n with
  | Some _ => false
  | None => negb (bool_decide (sh = Some (ident n))) &&
            match Γ !! ident n with Some t' => teqb t' t | None => false end
  end.

Lemma client_b_sound Δ Γ sh n t : client_b Γ sh n t = true -> client_ty teq_alg Δ Γ sh n t.
Proof.
  unfold client_b, client_ty. intros H. apply andb_true_iff in H. destruct H as [H H3].
  apply andb_true_iff in H. destruct H as [H1 H2].
  split; [destruct (is_self n); auto; discriminate|]. split; [apply ann_b_sound; auto|].
  destruct (chan n); [discriminate|]. apply andb_true_iff in H3. destruct H3 as [H3 H4].
  split; [intros E; rewrite bool_decide_eq_true_2 in H3 by auto; discriminate|].
  destruct (Γ !! ident n) as [t'|]; [|discriminate]. exists t'. split; auto. apply teqb_true; auto.
Qed.

(* the type of a client occurrence (reflexivity of the equality on it is computed) *)
Definition client_lookup (Γ : gmap string sty) (sh : option string) (n : name) : option sty :=
  match chan n with
  | Some _ => None
  | None => match Γ !! ident n with
            | Some t' => if client_b Γ sh n t' then Some t' else None
            | None => None
            end
  end.

Lemma client_lookup_sound Δ Γ sh n t : client_lookup Γ sh n = Some t -> client_ty teq_alg Δ Γ sh n t.
Proof.
  unfold client_lookup. destruct (chan n); [discriminate|]. destruct (Γ !! ident n) as [t'|]; [|discriminate].
  destruct (client_b Γ sh n t') eqn:E; [|discriminate]. intros [= <-]. apply client_b_sound; auto.
Qed.

Definition binder_b (x : name) : bool :=
  match chan x with None => negb (String.eqb (ident x) "") | Some _ => false end.

Definition pbinder_b (x : name) : bool := match chan x with None => true | Some _ => false end.
Lemma pbinder_b_sound x : pbinder_b x = true -> pbinder x.
Proof. unfold pbinder_b, pbinder. destruct (chan x); [discriminate|auto]. Qed.

Lemma binder_b_sound x : binder_b x = true -> binder x.
Proof.
  unfold binder_b, binder. destruct (chan x); [discriminate|]. intros H. split; auto.
  intros E. rewrite E in H. discriminate.
Qed.

Fixpoint args_b (Γ : gmap string sty) (sh : option string) (args ps : list name) : bool :=
  match args, ps with
  | [], [] => true
  | a :: ar, p :: pr => match nty p with Some t => client_b Γ sh a t | None => false end && args_b Γ sh ar pr
  | _, _ => false
  end.

Lemma args_b_sound Δ Γ sh args ps : args_b Γ sh args ps = true -> args_ok teq_alg Δ Γ sh args ps.
Proof.
  revert ps. induction args as [|a ar IH]; intros [|p pr]; simpl; try discriminate; [constructor|].
  intros H. apply andb_true_iff in H. destruct H as [H1 H2]. constructor; [|apply IH; auto].
  destruct (nty p) as [t|]; [|discriminate]. exists t. split; auto. apply client_b_sound; auto.
Qed.

Definition covers_b (bs : brs) (b : branches) : bool :=
  forallb (fun l => match find_branch l b with Some _ => true | None => false end) (brs_labels bs).

Lemma find_br_label l bs a : find_br l bs = Some a -> In l (brs_labels bs).
Proof.
  induction bs as [|l' a' r IH]; simpl; [discriminate|].
  destruct (String.eqb l l') eqn:E; [apply String.eqb_eq in E; auto|auto].
Qed.

Lemma covers_b_sound bs b : covers_b bs b = true -> covers bs b.
Proof.
  unfold covers_b, covers. intros H l a Hl. rewrite forallb_forall in H.
  specialize (H l (find_br_label _ _ _ Hl)). destruct (find_branch l b); [discriminate|discriminate].
Qed.

(* ------------------------------------------------------------------ bodies *)
Fixpoint typed_b (Γ : gmap string sty) (sh : option string) (rs : gset string) (s : sty) (f : form) {struct f} : bool :=
  match f with
  | FSend to pay cont =>
    if prov_b sh rs to then
      match whdb s with
      | Some (TTensor A B _) => client_b Γ sh pay A && client_b Γ sh cont B
      | _ => false
      end
    else
      match client_lookup Γ sh to with
      | Some T => match whdb T with
                  | Some (TLolli A B _) => client_b Γ sh pay A && prov_b sh rs cont && teqb B s
                  | _ => false
                  end
      | None => false
      end
  | FRecv pay cont from k =>
    binder_b pay && pbinder_b cont && negb (String.eqb (ident pay) (ident cont)) &&
    if prov_b sh rs from then
      match whdb s with
      | Some (TLolli A B _) =>
        typed_b (<[ident pay := A]> (delete (ident cont) Γ)) (Some (ident cont)) (rs ∖ {[ident pay]} ∖ ({[ident cont]} ∖ {[""]})) B k
      | _ => false
      end
    else
      match client_lookup Γ sh from with
      | Some T => match whdb T with
                  | Some (TTensor A B _) =>
                    binder_b cont && negb (bool_decide (sh = Some (ident pay))) && negb (bool_decide (sh = Some (ident cont))) &&
                    typed_b (<[ident cont := B]> (<[ident pay := A]> Γ)) sh (rs ∖ {[ident pay]} ∖ {[ident cont]}) s k
                  | _ => false
                  end
      | None => false
      end
  | FSel to l cont =>
    if prov_b sh rs to then
      match whdb s with
      | Some (TPlus bs _) => match find_br l bs with Some A => client_b Γ sh cont A | None => false end
      | _ => false
      end
    else
      match client_lookup Γ sh to with
      | Some T => match whdb T with
                  | Some (TWith bs _) => match find_br l bs with
                                         | Some A => prov_b sh rs cont && teqb A s
                                         | None => false
                                         end
                  | _ => false
                  end
      | None => false
      end
  | FCase from b =>
    if prov_b sh rs from then
      match whdb s with
      | Some (TWith bs _) => covers_b bs b && typed_brs_p_b Γ rs bs b
      | _ => false
      end
    else
      match client_lookup Γ sh from with
      | Some T => match whdb T with
                  | Some (TPlus bs _) => covers_b bs b && typed_brs_c_b Γ sh rs s bs b
                  | _ => false
                  end
      | None => false
      end
  | FNew x body k =>
    binder_b x && negb (bool_decide (sh = Some (ident x))) &&
    match nty x with
    | Some A => typed_b Γ None rs A body && typed_b (<[ident x := A]> Γ) sh (rs ∖ {[ident x]}) s k
    | None => false
    end
  | FClose c =>
    prov_b sh rs c && match whdb s with Some (TUnit _) => true | _ => false end
  | FWait c k =>
    match client_lookup Γ sh c with
    | Some T => match whdb T with Some (TUnit _) => typed_b Γ sh rs s k | _ => false end
    | None => false
    end
  | FFwd to from d => prov_b sh rs to && client_b Γ sh from s
  | FSplit x y from k =>
    binder_b x && binder_b y && negb (String.eqb (ident x) (ident y)) &&
    negb (bool_decide (sh = Some (ident x))) && negb (bool_decide (sh = Some (ident y))) &&
    match client_lookup Γ sh from with
    | Some T => typed_b (<[ident y := T]> (<[ident x := T]> Γ)) sh (rs ∖ {[ident x]} ∖ {[ident y]}) s k
    | None => false
    end
  | FCall fn args _ =>
    match get_function F fn (length args) with
    | Some fd =>
      match fn_type fd with
      | Some tf =>
        teqb tf s &&
        (((length args =? length (fn_params fd))%nat && args_b Γ sh args (fn_params fd)) ||
         match args with
         | a0 :: rest => (length rest =? length (fn_params fd))%nat && prov_b sh rs a0 && args_b Γ sh rest (fn_params fd)
         | [] => false
         end)
      | None => false
      end
    | None => false
    end
  | FCast to cont =>
    if prov_b sh rs to then
      match whdb s with Some (TDown _ _ A) => client_b Γ sh cont A | _ => false end
    else
      match client_lookup Γ sh to with
      | Some T => match whdb T with Some (TUp _ _ A) => prov_b sh rs cont && teqb A s | _ => false end
      | None => false
      end
  | FShift x from k =>
    pbinder_b x &&
    if prov_b sh rs from then
      match whdb s with
      | Some (TUp _ _ A) =>
        typed_b (delete (ident x) Γ) (Some (ident x)) (rs ∖ ({[ident x]} ∖ {[""]})) A k
      | _ => false
      end
    else
      match client_lookup Γ sh from with
      | Some T => match whdb T with
                  | Some (TDown _ _ A) =>
                    binder_b x && negb (bool_decide (sh = Some (ident x))) &&
                    typed_b (<[ident x := A]> Γ) sh (rs ∖ {[ident x]}) s k
                  | _ => false
                  end
      | None => false
      end
  | FDrop c k =>
    match client_lookup Γ sh c with
    | Some T => typed_b Γ sh rs s k
    | None => false
    end
  | FPrint _ k => typed_b Γ sh rs s k
  end
with typed_brs_p_b (Γ : gmap string sty) (rs : gset string) (bs : brs) (b : branches) {struct b} : bool :=
  match b with
  | BrNil => true
  | BrCons l pay k r =>
    match find_br l bs with
    | Some A =>
      pbinder_b pay &&
      typed_b (delete (ident pay) Γ) (Some (ident pay)) (rs ∖ ({[ident pay]} ∖ {[""]})) A k && typed_brs_p_b Γ rs bs r
    | None => false
    end
  end
with typed_brs_c_b (Γ : gmap string sty) (sh : option string) (rs : gset string) (s : sty) (bs : brs) (b : branches) {struct b} : bool :=
  match b with
  | BrNil => true
  | BrCons l pay k r =>
    match find_br l bs with
    | Some A =>
      binder_b pay && negb (bool_decide (sh = Some (ident pay))) &&
      typed_b (<[ident pay := A]> Γ) sh (rs ∖ {[ident pay]}) s k && typed_brs_c_b Γ sh rs s bs r
    | None => false
    end
  end.

Local Notation typed := (typed D F teq_alg).
Local Notation typed_brs_p := (typed_brs_p D F teq_alg).
Local Notation typed_brs_c := (typed_brs_c D F teq_alg).

Ltac bsplit :=
  repeat match goal with
         | H : _ && _ = true |- _ => apply andb_true_iff in H; destruct H
         end.
Ltac nb H := (* H : negb (bool_decide P) = true *)
  let E := fresh in
  intros E; rewrite bool_decide_eq_true_2 in H by exact E; discriminate.

Lemma typed_b_sound_mut Δ :
  (forall f Γ sh rs s, typed_b Γ sh rs s f = true -> typed Δ Γ sh rs s f) /\
  (forall b, (forall Γ rs bs, typed_brs_p_b Γ rs bs b = true -> typed_brs_p Δ Γ rs bs b) /\
             (forall Γ sh rs s bs, typed_brs_c_b Γ sh rs s bs b = true -> typed_brs_c Δ Γ sh rs s bs b)).
Proof.
  apply form_branches_ind.
  - (* FSend *) intros to pay cont Γ sh rs s. simpl.
    destruct (prov_b sh rs to) eqn:Ep.
    + destruct (whdb s) as [[]|] eqn:Ew; try discriminate. intros H. bsplit.
      eapply T_SendP; eauto using prov_b_sound, whdb_sound, client_b_sound.
    + destruct (client_lookup Γ sh to) as [T|] eqn:Ec; [|discriminate].
      destruct (whdb T) as [[]|] eqn:Ew; try discriminate. intros H. bsplit.
      eapply T_SendC; eauto using prov_b_sound, whdb_sound, client_b_sound, client_lookup_sound, teqb_true.
  - (* FRecv *) intros pay cont from k IH Γ sh rs s. simpl. intros H. bsplit.
    assert (Hne : ident pay <> ident cont).
    { intros E. rewrite E, String.eqb_refl in *. discriminate. }
    destruct (prov_b sh rs from) eqn:Ep.
    + destruct (whdb s) as [[]|] eqn:Ew; try discriminate.
      eapply T_RecvP; eauto using prov_b_sound, whdb_sound, binder_b_sound, pbinder_b_sound.
    + destruct (client_lookup Γ sh from) as [T|] eqn:Ec; [|discriminate].
      destruct (whdb T) as [[]|] eqn:Ew; try discriminate. bsplit.
      eapply T_RecvC; eauto using whdb_sound, binder_b_sound, client_lookup_sound.
      * match goal with Hx : negb (bool_decide (sh = Some (ident pay))) = true |- _ => nb Hx end.
      * match goal with Hx : negb (bool_decide (sh = Some (ident cont))) = true |- _ => nb Hx end.
  - (* FSel *) intros to l cont Γ sh rs s. simpl.
    destruct (prov_b sh rs to) eqn:Ep.
    + destruct (whdb s) as [[]|] eqn:Ew; try discriminate.
      destruct (find_br l bs) as [A|] eqn:Ef; [|discriminate]. intros H.
      eapply T_SelP; eauto using prov_b_sound, whdb_sound, client_b_sound.
    + destruct (client_lookup Γ sh to) as [T|] eqn:Ec; [|discriminate].
      destruct (whdb T) as [[]|] eqn:Ew; try discriminate.
      destruct (find_br l bs) as [A|] eqn:Ef; [|discriminate]. intros H. bsplit.
      eapply T_SelC; eauto using prov_b_sound, whdb_sound, client_lookup_sound, teqb_true.
  - (* FCase *) intros from b [IHp IHc] Γ sh rs s. simpl.
    destruct (prov_b sh rs from) eqn:Ep.
    + destruct (whdb s) as [[]|] eqn:Ew; try discriminate. intros H. bsplit.
      eapply T_CaseP; eauto using prov_b_sound, whdb_sound, covers_b_sound.
    + destruct (client_lookup Γ sh from) as [T|] eqn:Ec; [|discriminate].
      destruct (whdb T) as [[]|] eqn:Ew; try discriminate. intros H. bsplit.
      eapply T_CaseC; eauto using whdb_sound, covers_b_sound, client_lookup_sound.
  - (* FNew *) intros x body IHb k IHk Γ sh rs s. simpl. intros H. bsplit.
    destruct (nty x) as [A|]; [|discriminate]. bsplit.
    eapply T_New; eauto using binder_b_sound.
    match goal with Hx : negb (bool_decide (sh = Some (ident x))) = true |- _ => nb Hx end.
  - (* FClose *) intros c Γ sh rs s. simpl. intros H. bsplit.
    destruct (whdb s) as [[]|] eqn:Ew; try discriminate.
    eapply T_Close; eauto using prov_b_sound, whdb_sound.
  - (* FWait *) intros c k IH Γ sh rs s. simpl.
    destruct (client_lookup Γ sh c) as [T|] eqn:Ec; [|discriminate].
    destruct (whdb T) as [[]|] eqn:Ew; try discriminate. intros H.
    eapply T_Wait; eauto using whdb_sound, client_lookup_sound.
  - (* FFwd *) intros to from d Γ sh rs s. simpl. intros H. bsplit.
    eapply T_Fwd; eauto using prov_b_sound, client_b_sound.
  - (* FSplit *) intros x y from k IH Γ sh rs s. simpl. intros H. bsplit.
    destruct (client_lookup Γ sh from) as [T|] eqn:Ec; [|discriminate].
    assert (Hne : ident x <> ident y).
    { intros E. rewrite E, String.eqb_refl in *. discriminate. }
    eapply T_Split; eauto using binder_b_sound, client_lookup_sound.
    + match goal with Hx : negb (bool_decide (sh = Some (ident x))) = true |- _ => nb Hx end.
    + match goal with Hx : negb (bool_decide (sh = Some (ident y))) = true |- _ => nb Hx end.
  - (* FCall *) intros fn args pt Γ sh rs s. simpl.
    destruct (get_function F fn (length args)) as [fd|] eqn:Eg; [|discriminate].
    destruct (fn_type fd) as [tf|] eqn:Et; [|discriminate]. intros H. bsplit.
    eapply T_Call; eauto using teqb_true.
    match goal with Hx : _ || _ = true |- _ => apply orb_true_iff in Hx; destruct Hx as [Hx|Hx] end.
    + bsplit. left. split; [apply Nat.eqb_eq; auto|apply args_b_sound; auto].
    + destruct args as [|a0 rest]; [discriminate|]. bsplit. right. exists a0, rest.
      split; auto. split; [apply Nat.eqb_eq; auto|]. split; [apply prov_b_sound; auto|apply args_b_sound; auto].
  - (* FCast *) intros to cont Γ sh rs s. simpl.
    destruct (prov_b sh rs to) eqn:Ep.
    + destruct (whdb s) as [[]|] eqn:Ew; try discriminate. intros H.
      eapply T_CastP; eauto using prov_b_sound, whdb_sound, client_b_sound.
    + destruct (client_lookup Γ sh to) as [T|] eqn:Ec; [|discriminate].
      destruct (whdb T) as [[]|] eqn:Ew; try discriminate. intros H. bsplit.
      eapply T_CastC; eauto using prov_b_sound, whdb_sound, client_lookup_sound, teqb_true.
  - (* FShift *) intros x from k IH Γ sh rs s. simpl. intros H. bsplit.
    destruct (prov_b sh rs from) eqn:Ep.
    + destruct (whdb s) as [[]|] eqn:Ew; try discriminate.
      eapply T_ShiftP; eauto using prov_b_sound, whdb_sound, pbinder_b_sound.
    + destruct (client_lookup Γ sh from) as [T|] eqn:Ec; [|discriminate].
      destruct (whdb T) as [[]|] eqn:Ew; try discriminate. bsplit.
      eapply T_ShiftC; eauto using whdb_sound, binder_b_sound, client_lookup_sound.
      match goal with Hx : negb (bool_decide (sh = Some (ident x))) = true |- _ => nb Hx end.
  - (* FDrop *) intros c k IH Γ sh rs s. simpl.
    destruct (client_lookup Γ sh c) as [T|] eqn:Ec; [|discriminate]. intros H.
    eapply T_Drop; eauto using client_lookup_sound.
  - (* FPrint *) intros l k IH Γ sh rs s. simpl. intros H. eapply T_Print; eauto.
  - (* BrNil *) split; intros; constructor.
  - (* BrCons *) intros l pay k IHk r [IHp IHc]. split.
    + intros Γ rs bs. simpl. destruct (find_br l bs) as [A|] eqn:Ef; [|discriminate]. intros H. bsplit.
      eapply TBP_cons; eauto using pbinder_b_sound.
    + intros Γ sh rs s bs. simpl. destruct (find_br l bs) as [A|] eqn:Ef; [|discriminate]. intros H. bsplit.
      eapply TBC_cons; eauto using binder_b_sound.
      match goal with Hx : negb (bool_decide (sh = Some (ident pay))) = true |- _ => nb Hx end.
Qed.

Lemma typed_b_sound Δ Γ sh rs s f : typed_b Γ sh rs s f = true -> typed Δ Γ sh rs s f.
Proof. apply (typed_b_sound_mut Δ). Qed.

End Check.

(* ------------------------------------------------------------------ whole programs *)
Definition fun_ok_b (D : tenv) (F : list fundef) (fd : fundef) : bool :=
  match fn_type fd with
  | Some tf =>
    forallb binder_b (fn_params fd) && negb (has_dup (map ident (fn_params fd))) &&
    forallb (fun p => match nty p with Some _ => true | None => false end) (fn_params fd) &&
    match fn_explicit fd with
    | Some ep =>
      match chan ep with None => true | Some _ => false end &&
      negb (str_mem (ident ep) (map ident (fn_params fd))) &&
      typed_b D F (params_ctx (fn_params fd)) None {[ ""; ident ep ]} tf (fn_body fd)
    | None => typed_b D F (params_ctx (fn_params fd)) None {[ "" ]} tf (fn_body fd)
    end
  | None => false
  end.

Lemma str_mem_In x l : str_mem x l = true <-> In x l.
Proof.
  induction l as [|y l IH]; simpl; [split; [discriminate|tauto]|].
  rewrite orb_true_iff, IH. split; intros [H|H]; auto; [left; apply String.eqb_eq in H; auto|left; apply String.eqb_eq; auto].
Qed.

Lemma has_dup_NoDup l : has_dup l = false -> NoDup l.
Proof.
  induction l as [|x l IH]; simpl; [constructor|]. intros H. apply orb_false_iff in H. destruct H as [H1 H2].
  constructor; auto. intros Hin. apply str_mem_In in Hin. congruence.
Qed.

Lemma fun_ok_b_sound D F fd : fun_ok_b D F fd = true -> fun_ok D F (teq_alg D) fd.
Proof.
  unfold fun_ok_b, fun_ok. destruct (fn_type fd) as [tf|]; [|discriminate]. intros H.
  apply andb_true_iff in H. destruct H as [H H4]. apply andb_true_iff in H. destruct H as [H H3].
  apply andb_true_iff in H. destruct H as [H1 H2].
  exists tf. split; auto.
  split. { rewrite Forall_forall. rewrite forallb_forall in H1. intros x Hx. apply binder_b_sound. auto. }
  split. { apply has_dup_NoDup. destruct (has_dup _); auto; discriminate. }
  split. { rewrite Forall_forall. rewrite forallb_forall in H3. intros x Hx. specialize (H3 x Hx). destruct (nty x); eauto; discriminate. }
  destruct (fn_explicit fd) as [ep|].
  - apply andb_true_iff in H4. destruct H4 as [H4 H6]. apply andb_true_iff in H4. destruct H4 as [H4 H5].
    split; [destruct (chan ep); auto; discriminate|].
    split. { intros Hin. apply elem_of_list_In in Hin. apply str_mem_In in Hin. rewrite Hin in H5. discriminate. }
    apply typed_b_sound; auto.
  - apply typed_b_sound; auto.
Qed.

(* the context of a process body: the top-level provider names it mentions *)
Definition row_ctx (used : list string) (t : sty) (provs : list name) (g : gmap string sty) : gmap string sty :=
  fold_right (fun n g' => if str_mem (ident n) used then <[ident n := t]> g' else g') g provs.

Lemma row_ctx_lookup used t provs g x A : row_ctx used t provs g !! x = Some A ->
  (exists n, In n provs /\ ident n = x /\ A = t) \/ g !! x = Some A.
Proof.
  induction provs as [|n r IH]; simpl; auto.
  destruct (str_mem (ident n) used).
  - intros H. apply lookup_insert_Some in H. destruct H as [[<- <-]|[_ H]]; [left; exists n; auto|].
    destruct (IH H) as [[m [H1 H2]]|H']; [left; exists m; auto|auto].
  - intros H. destruct (IH H) as [[m [H1 H2]]|H']; [left; exists m; auto|auto].
Qed.

Definition proc_ctx (p : program) (pr : procdef) : gmap string sty :=
  fold_right (fun pr' (g : gmap string sty) =>
                match pr_type pr' with
                | Some t => row_ctx (map ident (free_names (pr_body pr))) t (pr_providers pr') g
                | None => g
                end) ∅ (p_procs p).

Lemma proc_ctx_sub p pr : top_sub (proc_ctx p pr) p.
Proof.
  unfold top_sub, proc_ctx. induction (p_procs p) as [|pr' l IH]; simpl; intros x A.
  - rewrite lookup_empty. discriminate.
  - destruct (pr_type pr') as [t|] eqn:Et.
    + intros H. apply row_ctx_lookup in H. destruct H as [[n [H1 [H2 ->]]]|H]; [exists pr', n; auto|].
      destruct (IH x A H) as [q [n [H1 H2]]]. exists q, n. split; auto.
    + intros H. destruct (IH x A H) as [q [n [H1 H2]]]. exists q, n. split; auto.
Qed.

Definition proc_ok_b (p : program) (pr : procdef) : bool :=
  match pr_type pr, pr_providers pr with
  | Some t, _ :: _ => forallb binder_b (pr_providers pr) &&
                      typed_b (p_types p) (p_funs p) (proc_ctx p pr) None {[ "" ]} t (pr_body pr)
  | _, _ => false
  end.

Definition static_typed_b (p : program) : bool :=
  forallb (fun_ok_b (p_types p) (p_funs p)) (p_funs p) &&
  negb (has_dup (map ident (all_providers p))) &&
  forallb (proc_ok_b p) (p_procs p).

Theorem static_typed_b_sound p : static_typed_b p = true -> static_typed (teq_alg (p_types p)) p.
Proof.
  unfold static_typed_b, static_typed. intros H.
  apply andb_true_iff in H. destruct H as [H H3]. apply andb_true_iff in H. destruct H as [H1 H2].
  split. { unfold funs_typed. rewrite Forall_forall. rewrite forallb_forall in H1. intros fd Hfd. apply fun_ok_b_sound; auto. }
  split. { apply has_dup_NoDup. destruct (has_dup _); auto; discriminate. }
  rewrite Forall_forall. rewrite forallb_forall in H3. intros pr Hpr. specialize (H3 pr Hpr).
  unfold proc_ok_b in H3. destruct (pr_type pr) as [t|]; [|discriminate].
  destruct (pr_providers pr) as [|n r] eqn:En; try discriminate.
  apply andb_true_iff in H3. destruct H3 as [H3 H4].
  exists t, (proc_ctx p pr). split; auto. split; [discriminate|].
  split. { rewrite Forall_forall. rewrite forallb_forall in H3. intros x Hx. apply binder_b_sound. auto. }
  split; [apply proc_ctx_sub|]. apply typed_b_sound; auto.
Qed.

Definition in_fragment_b (p : program) : bool := match p_assumed p with [] => true | _ => false end.

Lemma in_fragment_b_sound p : in_fragment_b p = true -> in_fragment p.
Proof. unfold in_fragment_b, in_fragment. destruct (p_assumed p); auto; discriminate. Qed.

(* what the check module prints for a program text *)
Inductive static_verdict : Type := SV_typed | SV_not_typed | SV_outside_fragment | SV_rejected | SV_parse_error.
Definition static_check_text (txt : string) : static_verdict :=
  match parse_string txt with
  | POk p =>
    match typecheck p with
    | Accept p' => if in_fragment_b p' then (if static_typed_b p' then SV_typed else SV_not_typed) else SV_outside_fragment
    | _ => SV_rejected
    end
  | _ => SV_parse_error
  end.

(* for every program on which the checker answers SV_typed, the premise `tc_annotations_typed` holds *)
Theorem static_check_sound txt : static_check_text txt = SV_typed ->
  exists p p', parse_string txt = POk p /\ typecheck p = Accept p' /\ in_fragment p' /\
               static_typed (teq_alg (p_types p')) p'.
Proof.
  unfold static_check_text. destruct (parse_string txt) as [p| | |]; try discriminate.
  destruct (typecheck p) as [p'| | |] eqn:Et; try discriminate.
  destruct (in_fragment_b p') eqn:Ef; [|discriminate]. destruct (static_typed_b p') eqn:Es; [|discriminate].
  intros _. exists p, p'. split; auto. split; auto. split; [apply in_fragment_b_sound; auto|apply static_typed_b_sound; auto].
Qed.

Example static_check_examples :
  static_check_text example_text = SV_typed /\ static_check_text example_drop_text = SV_typed /\
  static_check_text example_split_text = SV_typed.
Proof. repeat split; vm_compute; reflexivity. Qed.

(* ------------------------------------------------------------------ C01 for a CHECKED program: the premise
   tc_annotations_typed is replaced by the computed verdict of the checker *)
Theorem safety_checked_partial txt p p' md :
  parse_string txt = POk p -> typecheck p = Accept p' -> static_check_text txt = SV_typed ->
  teq_laws (p_types p') (teq_alg (p_types p')) ->
  (forall c, RtSafety.reachable (p_types p') (p_funs p') md (init_config p') c -> Topo.Topo c) ->
  is_np md = false ->
  forall fuel pick c who e,
    exec_run fuel pick md (p_types p') (p_funs p') (init_config p') <> RError c who e.
Proof.
  intros Hp Ht Hv Hlaws Htopo Hnp fuel pick c who e.
  destruct (static_check_sound txt Hv) as [p0 [p0' [Hp0 [Ht0 [Hf Hst]]]]].
  rewrite Hp in Hp0. injection Hp0 as <-. rewrite Ht in Ht0. injection Ht0 as <-.
  pose proof Hst as [HF _].
  apply (RtSafety.exec_run_safe (p_types p') (p_funs p') (teq_alg (p_types p')) Hlaws HF md fuel pick Hnp
           (init_delta p') (init_config p') (initial_typed _ p' Hlaws Hst)).
  intros c' Hr self pr k st. eapply Topo.topo_closed_unused; [exact Hnp|exact (Htopo c' Hr)].
Qed.
