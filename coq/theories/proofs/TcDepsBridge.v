(* proofs/TcDepsBridge.v — the boolean working versions of the type checks that Tc.v uses
   (TcDeps.v) agree with the proof-carrying versions of WF.v / Unfold.v, so that the theorems of
   C10 (WellFormed, unfold_terminates) can be used about what the typechecker model calls. *)
Require Import Grits.Base Grits.ModeDefs Grits.Modes Grits.STypes Grits.Infer Grits.WF Grits.Unfold.
Require Grits.TcDeps.
Require Import Grits.spec.WFSpec Grits.proofs.WFProofs.

Lemma bridge_unfold_f D : forall f t, TcDeps.unfold_f f D t = unfold f D t.
Proof. reflexivity. Qed.   (* the two fixpoints are the same term *)

Theorem bridge_unfold D t : TcDeps.unfold D t = unfold (unfold_fuel D) D t.
Proof. apply bridge_unfold_f. Qed.

Lemma bridge_labels D :
  (forall t, TcDeps.check_labels D t = true <-> check_labels D t = None) /\
  (forall b seen, TcDeps.check_labels_brs D seen b = true <-> check_labels_brs D b seen = None).
Proof.
  apply sty_brs_ind; cbn; intros.
  - unfold tdefined. destruct (tlookup D x); split; congruence.
  - tauto.
  - rewrite andb_true_iff, orelse_none, H, H0. tauto.
  - rewrite andb_true_iff, orelse_none, H, H0. tauto.
  - apply H.
  - apply H.
  - apply H.
  - apply H.
  - tauto.
  - destruct (str_mem l seen); cbn; [split; discriminate|].
    rewrite andb_true_iff, orelse_none, H, H0. tauto.
Qed.

Lemma mode_present_ok m : mode_present m = None <-> TcDeps.mode_ok m = true.
Proof. unfold TcDeps.mode_ok. apply mode_present_none. Qed.

Lemma bridge_modes D :
  (forall t cur, TcDeps.check_modes D cur t = true <-> check_modalities D cur t = None) /\
  (forall b cur, TcDeps.check_modes_brs D cur b = true <-> check_modalities_brs D cur b = None).
Proof.
  apply sty_brs_ind; cbn [TcDeps.check_modes TcDeps.check_modes_brs check_modalities check_modalities_brs]; intros.
  - rewrite andb_true_iff, orelse_none, mode_present_ok.
    destruct (tlookup D x) as [d|].
    + rewrite andb_true_iff, !if_negb_none. tauto.
    + split; [intros [_ H]; discriminate | intros [_ H]; discriminate].
  - rewrite andb_true_iff, orelse_none, mode_present_ok, if_negb_none. tauto.
  - rewrite !andb_true_iff, orelse_none, mode_present_ok, if_negb_none, orelse_none, H, H0. tauto.
  - rewrite !andb_true_iff, orelse_none, mode_present_ok, if_negb_none, orelse_none, H, H0. tauto.
  - rewrite !andb_true_iff, orelse_none, mode_present_ok, if_negb_none, H. tauto.
  - rewrite !andb_true_iff, orelse_none, mode_present_ok, if_negb_none, H. tauto.
  - rewrite !andb_true_iff, !orelse_none, !mode_present_ok, !if_negb_none, H. tauto.
  - rewrite !andb_true_iff, !orelse_none, !mode_present_ok, !if_negb_none, H. tauto.
  - tauto.
  - rewrite andb_true_iff, orelse_none, H, H0. tauto.
Qed.

Theorem bridge_check_wf D t : TcDeps.check_wf D t = true <-> check_wf D t = None.
Proof.
  unfold TcDeps.check_wf, check_wf.
  rewrite andb_true_iff, orelse_none, (proj1 (bridge_labels D)), (proj1 (bridge_modes D)). tauto.
Qed.

Theorem bridge_sanity_types D ts : TcDeps.sanity_types D ts = true <-> sanity_types D ts = None.
Proof.
  unfold TcDeps.sanity_types. induction ts as [|t r IH]; cbn; [tauto|].
  rewrite andb_true_iff, orelse_none, bridge_check_wf, IH. tauto.
Qed.

(* consequence for the typechecker model: an annotation type it accepts is well-formed *)
Corollary tcdeps_sanity_types_sound D ts :
  TcDeps.sanity_types D ts = true -> Forall (WellFormedType D) ts.
Proof. intros H. apply sanity_types_sound. apply bridge_sanity_types; auto. Qed.

(* ---- SanityChecksTypeDefinitions ---- *)
Lemma has_dup_false l : TcDeps.has_dup l = false <-> NoDup l.
Proof.
  induction l as [|x r IH]; cbn; [split; [constructor | reflexivity]|].
  rewrite orb_false_iff, IH, str_mem_false. split.
  - intros [H1 H2]; constructor; auto.
  - intros H; inversion H; auto.
Qed.

(* the contractivity test with one more unit of fuel gives the same answer (the texts of the two
   panic sites differ: equality up to the site) *)
Definition osame {A} (r r' : outcome A) : Prop :=
  match r, r' with
  | Ok a, Ok b => a = b
  | Panic _, Panic _ => True
  | Hang _, Hang _ => True
  | _, _ => False
  end.

Lemma bridge_contractive_f D : forall f t s,
  (forall w, is_contractive f D t s <> Hang w) ->
  forall k, osame (TcDeps.contractive_f (f + k) D s t) (is_contractive f D t s).
Proof.
  induction f as [|f IH]; intros t s Hn k.
  - exfalso. eapply Hn; reflexivity.
  - cbn [plus TcDeps.contractive_f is_contractive] in *. destruct t; cbn; auto.
    destruct (str_mem x s); cbn; auto. destruct (tlookup D x); cbn; auto.
Qed.

Lemma bridge_contractive D t :
  osame (TcDeps.contractive D t) (is_contractive (contractive_fuel D) D t []).
Proof.
  unfold TcDeps.contractive, contractive_fuel.
  replace (S (S (length D))) with (S (length D) + 1) by lia.
  apply bridge_contractive_f. intros w. apply contractive_fuel_enough_lemma.
Qed.

Theorem bridge_sanity_typedefs D : TcDeps.sanity_typedefs D = Ok true <-> sanity_typedefs D = Ok None.
Proof.
  rewrite sanity_typedefs_ok. unfold TcDeps.sanity_typedefs.
  destruct (TcDeps.has_dup (map td_name D)) eqn:Ed.
  - split; [discriminate|]. intros [Hnd _]. apply has_dup_false in Hnd. unfold names in Hnd. congruence.
  - apply has_dup_false in Ed.
    destruct (forallb (fun d => TcDeps.check_wf D (td_body d) && mode_eqb (mode_of (td_body d)) (td_mode d)) D) eqn:Ef; cbn [negb].
    + rewrite forallb_forall in Ef.
      assert (Hw : forall d, In d D -> check_wf D (td_body d) = None /\ mode_eqb (mode_of (td_body d)) (td_mode d) = true).
      { intros d Hin. specialize (Ef d Hin). apply andb_true_iff in Ef as [H1 H2]. split; auto. apply bridge_check_wf; auto. }
      assert (Hgo : forall l, (forall d, In d l -> In d D) ->
                ((fix go (l : tenv) : outcome bool :=
                    match l with
                    | [] => Ok true
                    | d :: r => do c <- TcDeps.contractive D (td_body d);
                                if c then (if TcDeps.check_wf D (td_body d) then go r else Ok false) else Ok false
                    end) l = Ok true <->
                 (forall d, In d l -> is_contractive (contractive_fuel D) D (td_body d) [] = Ok true))).
      { induction l as [|d r IH]; intros Hsub.
        - split; [intros _ d [] | reflexivity].
        - pose proof (bridge_contractive D (td_body d)) as Hsame.
          destruct (is_contractive (contractive_fuel D) D (td_body d) []) as [c| |] eqn:Ec;
            destruct (TcDeps.contractive D (td_body d)) as [c'| |]; cbn in Hsame; try contradiction;
            try subst c'; cbn [obind].
          + destruct c.
            * assert (Ewf : TcDeps.check_wf D (td_body d) = true)
                by (apply bridge_check_wf; apply Hw; apply Hsub; left; reflexivity).
              rewrite Ewf, IH; [|intros d' Hd'; apply Hsub; right; auto]. split.
              -- intros H d' [<-|Hin]; auto.
              -- intros H d' Hin. apply H. right; auto.
            * split; [discriminate|]. intros H. specialize (H d (or_introl eq_refl)). congruence.
          + split; [discriminate|]. intros H. specialize (H d (or_introl eq_refl)). congruence.
          + split; [discriminate|]. intros H. specialize (H d (or_introl eq_refl)). congruence. }
      rewrite (Hgo D (fun d H => H)). split.
      * intros H. repeat split; auto; intros d Hin; apply Hw; auto.
      * intros (_ & _ & _ & H). exact H.
    + split; [discriminate|]. intros (_ & Hw & Hm & _). exfalso.
      assert (forallb (fun d => TcDeps.check_wf D (td_body d) && mode_eqb (mode_of (td_body d)) (td_mode d)) D = true); [|congruence].
      apply forallb_forall. intros d Hin. apply andb_true_iff. split; [apply bridge_check_wf|]; auto.
Qed.

(* consequences for the typechecker model *)
Corollary tcdeps_sanity_typedefs_sound D : TcDeps.sanity_typedefs D = Ok true -> WellFormed D.
Proof. intros H. apply wf_sound_proof. apply bridge_sanity_typedefs; auto. Qed.

Corollary tcdeps_unfold_terminates D : TcDeps.sanity_typedefs D = Ok true ->
  forall d, In d D -> forall m, exists T, TcDeps.unfold D (TName (td_name d) m) = Ok (Some T) /\ is_name T = false.
Proof.
  intros H d Hin m. rewrite bridge_unfold. apply unfold_terminates_proof; auto. apply tcdeps_sanity_typedefs_sound; auto.
Qed.
