(* EqualWFSanity.v — the hypotheses of C08 follow from the model of the sanity checks:
   an environment that TcDeps.sanity_typedefs accepts, and whose types are syntactically what the
   parser produces (syn_ok: label lexemes, non-empty choices), satisfies wf_env.
   (Deliberately NOT in the cone of props/C08.v: it depends on the lead's working model of the
   sanity checks, TcDeps.sanity_typedefs; the check validates wf_env on accepted environments by
   running it.) *)
Require Import Grits.Base Grits.ModeDefs Grits.Modes Grits.STypes Grits.Infer Grits.Equal Grits.EqualWF.
Require Grits.TcDeps.
Require Import Grits.proofs.EqualWFFacts.

Section S.
Variable D : tenv.

Lemma check_labels_ok :
  (forall t, TcDeps.check_labels D t = true -> labels_ok t = true) /\
  (forall bs seen, TcDeps.check_labels_brs D seen bs = true ->
     nodup_str (brs_labels bs) = true /\ (forall l, In l seen -> str_mem l (brs_labels bs) = false) /\ labels_ok_brs bs = true).
Proof.
  apply sty_brs_ind; cbn [TcDeps.check_labels TcDeps.check_labels_brs labels_ok labels_ok_brs brs_labels nodup_str]; intros;
    rewrite ?andb_true_iff in *; auto.
  - tauto.
  - tauto.
  - destruct (H [] H0) as (H1 & _ & H3). auto.
  - destruct (H [] H0) as (H1 & _ & H3). auto.
  - destruct H1 as [[Hl Ha] Hr]. apply negb_true_iff in Hl.
    destruct (H0 _ Hr) as (N1 & N2 & N3). repeat split; auto.
    + rewrite (N2 l) by (left; reflexivity). reflexivity.
    + intros l0 Hin. cbn [str_mem]. rewrite (N2 l0) by (right; exact Hin). rewrite orb_false_r.
      apply String.eqb_neq. intros ->. apply str_mem_notIn in Hl. contradiction.
Qed.

Lemma check_modes_ok :
  (forall t cur, TcDeps.check_modes D cur t = true ->
     uniform cur t = true /\ modes_wf t = true /\ names_ok D t = true /\ proper cur = true) /\
  (forall bs cur, TcDeps.check_modes_brs D cur bs = true ->
     uniform_brs cur bs = true /\ modes_wf_brs bs = true /\ names_ok_brs D bs = true).
Proof.
  unfold TcDeps.mode_ok.
  apply sty_brs_ind; cbn [TcDeps.check_modes TcDeps.check_modes_brs uniform uniform_brs modes_wf modes_wf_brs names_ok names_ok_brs];
    unfold TcDeps.mode_ok; intros; rewrite ?andb_true_iff in *.
  - destruct H as [Hp H]. destruct (tlookup D x) as [d|]; [|discriminate]. apply andb_true_iff in H. destruct H as [H1 H2].
    apply (mode_eqb_proper _ _ Hp) in H1. apply (mode_eqb_proper _ _ Hp) in H2. subst.
    rewrite !mode_same_refl. auto.
  - destruct H as [Hp H1]. apply (mode_eqb_proper _ _ Hp) in H1. subst. rewrite mode_same_refl. auto.
  - destruct H1 as [[[Hp H1] Ha] Hb]. apply (mode_eqb_proper _ _ Hp) in H1. subst.
    destruct (H _ Ha) as (? & ? & ? & ?). destruct (H0 _ Hb) as (? & ? & ? & ?). rewrite mode_same_refl. auto.
  - destruct H1 as [[[Hp H1] Ha] Hb]. apply (mode_eqb_proper _ _ Hp) in H1. subst.
    destruct (H _ Ha) as (? & ? & ? & ?). destruct (H0 _ Hb) as (? & ? & ? & ?). rewrite mode_same_refl. auto.
  - destruct H0 as [[Hp H1] Hb]. apply (mode_eqb_proper _ _ Hp) in H1. subst.
    destruct (H _ Hb) as (? & ? & ?). rewrite mode_same_refl. auto.
  - destruct H0 as [[Hp H1] Hb]. apply (mode_eqb_proper _ _ Hp) in H1. subst.
    destruct (H _ Hb) as (? & ? & ?). rewrite mode_same_refl. auto.
  - destruct H0 as [[[[Hpf Hpt] H1] _] Ha]. apply (mode_eqb_proper _ _ Hpt) in H1. subst.
    destruct (H _ Ha) as (? & ? & ? & ?). rewrite mode_same_refl. auto.
  - destruct H0 as [[[[Hpf Hpt] H1] _] Ha]. apply (mode_eqb_proper _ _ Hpt) in H1. subst.
    destruct (H _ Ha) as (? & ? & ? & ?). rewrite mode_same_refl. auto.
  - auto.
  - destruct H1 as [Ha Hr]. destruct (H _ Ha) as (? & ? & ? & ?). destruct (H0 _ Hr) as (? & ? & ?). auto.
Qed.

Lemma check_wf_ty t : TcDeps.check_wf D t = true -> syn_ok t = true -> wf_ty D t = true.
Proof.
  unfold TcDeps.check_wf. rewrite andb_true_iff. intros [Hl Hm] Hs.
  destruct (proj1 check_modes_ok _ _ Hm) as (Hu & Hw & Hn & Hp).
  unfold wf_ty. rewrite Hs, Hw, Hp, Hu, (proj1 check_labels_ok _ Hl), Hn. reflexivity.
Qed.

(* contractive: the chain of names from t is duplicate-free and inside D, hence no longer than D *)
Lemma contractive_unfold : forall fuel seen t,
  TcDeps.contractive_f fuel D seen t = Ok true -> NoDup seen -> incl seen (map td_name D) ->
  exists h, unfold_head (length D - length seen) D t = Some h.
Proof.
  induction fuel as [|f IH]; intros seen t H Hnd Hin; [discriminate|]. cbn [TcDeps.contractive_f] in H.
  destruct t; try (exists (ltac:(eassumption)); fail);
    try (match goal with |- exists h, unfold_head _ D ?t = Some h => exists t; destruct (length D - length seen); reflexivity end).
  destruct (str_mem x seen) eqn:Es; [discriminate|]. destruct (tlookup D x) as [d|] eqn:El; [|discriminate].
  apply str_mem_notIn in Es.
  assert (Hx : In x (map td_name D)).
  { destruct (tlookup_In _ _ _ El) as [Hd Hn]. apply in_map_iff. exists d. auto. }
  assert (Hnd' : NoDup (x :: seen)) by (constructor; assumption).
  assert (Hin' : incl (x :: seen) (map td_name D)) by (intros y [<- | Hy]; auto).
  destruct (IH _ _ H Hnd' Hin') as [h Hh].
  pose proof (NoDup_incl_length Hnd' Hin') as Hlen. rewrite map_length in Hlen. cbn [length] in Hlen, Hh.
  exists h. replace (length D - length seen) with (S (length D - S (length seen))) by lia.
  cbn [unfold_head]. rewrite El. exact Hh.
Qed.
End S.

Lemma go_all D0 : forall l,
  (fix go (l : tenv) : outcome bool :=
     match l with
     | [] => Ok true
     | d :: r => do c <- TcDeps.contractive D0 (td_body d);
                 if c then (if TcDeps.check_wf D0 (td_body d) then go r else Ok false) else Ok false
     end) l = Ok true ->
  forall d, In d l -> TcDeps.contractive D0 (td_body d) = Ok true.
Proof.
  induction l as [|d0 r IH]; intros Hgo d Hd; [contradiction|].
  destruct (TcDeps.contractive D0 (td_body d0)) as [[|]| |] eqn:Ec; cbn [obind] in Hgo; try discriminate.
  destruct (TcDeps.check_wf D0 (td_body d0)); [|discriminate].
  destruct Hd as [<- | Hd]; [exact Ec | auto].
Qed.

Theorem sanity_wf_env D :
  TcDeps.sanity_typedefs D = Ok true -> forallb (fun d => syn_ok (td_body d)) D = true -> wf_env D = true.
Proof.
  unfold TcDeps.sanity_typedefs. destruct (TcDeps.has_dup (map td_name D)); [discriminate|].
  destruct (forallb _ D) eqn:Ef; cbn [negb]; [|discriminate]. intros Hgo Hsyn.
  rewrite forallb_forall in Ef, Hsyn. unfold wf_env. apply andb_true_iff. split.
  - apply forallb_forall. intros d Hd. specialize (Ef d Hd). apply andb_true_iff in Ef. destruct Ef as [Ef _].
    apply check_wf_ty; auto.
  - unfold contractive_b. apply forallb_forall. intros d Hd.
    assert (Hc : TcDeps.contractive D (td_body d) = Ok true) by (exact (go_all D D Hgo d Hd)).
    unfold TcDeps.contractive in Hc.
    destruct (contractive_unfold D _ _ _ Hc (NoDup_nil _) (incl_nil_l _)) as [h Hh].
    cbn [length] in Hh. rewrite Nat.sub_0_r in Hh. rewrite Hh. reflexivity.
Qed.
