(* NPJoin.v — the conflicting peaks of the non-polarized mode (NPConfluence.np_peak_cases) for
   contraction-free configurations: the control message Control f t as a FORMAL transformation `ctl` of
   the configuration (delete the forward f, give its provider to t, close the client channel k), which
   commutes with the steps of t; it is a step as soon as t polls its control channel. *)
From stdpp Require Import gmap strings.
Require Import Grits.Base Grits.ModeDefs Grits.Modes Grits.STypes Grits.Forms Grits.Subst Grits.TcDeps Grits.Expand
               Grits.Runtime Grits.RuntimeFootprint Grits.spec.RtTyping Grits.spec.Topo.
Require Import Grits.proofs.RtSubst Grits.proofs.StepErrors Grits.proofs.RtSafety Grits.proofs.RtSafetyNP Grits.proofs.TopoLin Grits.proofs.RuntimeFacts
               Grits.proofs.Diamond Grits.proofs.AsyncSync Grits.proofs.TopoStep Grits.proofs.InvAll Grits.proofs.InvNP Grits.proofs.NPCfree.

Definition ctl (nf : name) (k : cid) (f t : pid) (c : config) : config :=
  match procs c !! t with
  | Some pt => Cfg (<[t := Proc [nf] (pr_body0 pt) (pr_next pt)]> (delete f (procs c))) (close_all [k] (chans c)) (out c)
  | None => c
  end.

(* an effect of t that copies the providers *)
Definition eff_with (provs : list name) (B : form) (nx1 : nat) (ss : list spawn) (nch : list cid) (o : list string) : effect :=
  Eff (Continue (Proc provs B nx1)) ss nch [] o.

Lemma ctl_effect_commute c f t n0 nf k body nx B nx1 ss nch o :
  f <> t -> procs c !! t = Some (Proc [n0] body nx) ->
  spawned t (nx1 + length nch) ss !! f = None -> k ∉ nch ->
  apply_effect (ctl nf k f t c) t (Proc [nf] body nx) (eff_with [nf] B nx1 ss nch o) =
  ctl nf k f t (apply_effect c t (Proc [n0] body nx) (eff_with [n0] B nx1 ss nch o)).
Proof.
  intros Hft Hpt Hsf Hk. unfold ctl at 1. rewrite Hpt. cbn [pr_body0 pr_next].
  rewrite !apply_effect_eq. unfold eff_with, procs_after, eff_next1, eff_next0, eff_base.
  cbn [e_after e_spawn e_newch e_close e_out procs chans out pr_provs pr_body0 pr_next].
  unfold ctl. cbn [procs]. rewrite lookup_insert. cbn [pr_body0 pr_next procs chans out]. f_equal.
  - apply map_eq. intros r. destruct (decide (r = t)) as [->|Hrt]; [by rewrite !lookup_insert|].
    rewrite !lookup_insert_ne by done. destruct (decide (r = f)) as [->|Hrf].
    + rewrite lookup_delete. rewrite lookup_union_r by done. rewrite lookup_insert_ne by done. by rewrite lookup_delete.
    + rewrite lookup_delete_ne by done. rewrite lookup_insert_ne by done.
      destruct (spawned t (nx1 + length nch) ss !! r) as [v|] eqn:E.
      * by rewrite !(lookup_union_Some_l _ _ _ _ E).
      * rewrite !(lookup_union_r _ _ _ E). rewrite lookup_insert_ne by done. by rewrite lookup_delete_ne.
  - apply map_eq. intros j. rewrite !close_all_lookup, !new_all_lookup, !close_all_lookup.
    rewrite !(decide_False (P := j ∈ [])) by (apply not_elem_of_nil).
    destruct (decide (j ∈ [k])) as [Hjk|Hjk].
    + apply elem_of_list_singleton in Hjk as ->. by rewrite !decide_False by done.
    + by destruct (decide (j ∈ nch)).
Qed.

Section Join.
Variable D : tenv.
Variable F : list fundef.

Definition CtlReady (c : config) (f t : pid) (nf : name) (k : cid) : Prop :=
  f <> t /\ exists pf pt n0, procs c !! f = Some pf /\ procs c !! t = Some pt /\
    action_of NP D pf = ACtrl k [nf] /\ pr_provs pt = [n0] /\ chan n0 = Some k.

Lemma ctl_fire c f t nf k pt : CtlReady c f t nf k -> procs c !! t = Some pt -> polls_control NP D pt = true ->
  step NP D F c (Control f t) = SStep (ctl nf k f t c).
Proof.
  intros (Hft & pf & pt' & n0 & Hf & Hpt & Ea & Hn0 & Hk) Hpt' Hpoll. rewrite Hpt in Hpt'. injection Hpt' as ->.
  cbn [step negb is_np orb]. rewrite bool_decide_eq_false_2 by done. rewrite Hf, Hpt, Ea.
  assert (Hsc : self_chan pt = Some k) by (unfold self_chan, prov0; rewrite Hn0; exact Hk).
  rewrite Hsc. rewrite bool_decide_eq_true_2 by done. rewrite Hpoll. cbn [andb]. rewrite Hn0.
  f_equal. rewrite apply_control_effect. unfold ctl. rewrite Hpt. cbn [procs chans out del_proc tl app firstn cids_of flat_map].
  rewrite Hk. cbn [app]. by rewrite Nat.add_0_r.
Qed.

(* the internal steps copy the providers *)
Lemma internal_provs t provs body nx e : internal_effect NP F t (Proc provs body nx) = EOk e ->
  exists B nx1 ss nch o, e = eff_with provs B nx1 ss nch o /\ (nx <= nx1)%nat /\
    (forall j, j ∈ nch -> exists a, (nx <= a)%nat /\ j = t ++ [a]) /\
    forall provs', internal_effect NP F t (Proc provs' body nx) = EOk (eff_with provs' B nx1 ss nch o).
Proof.
  unfold internal_effect. cbn [pr_body0]. destruct body as [| | | |x b k0| | | |x y fr k0|fn args pt| | |cl k0|l k0]; try discriminate; cbn [is_np].
  - unfold fresh_chan. cbn [pr_next pr_provs pr_body0 set_body cids_of flat_map chan app]. intros [= <-].
    eexists _, _, _, _, _. split; [reflexivity|]. split; [cbn; lia|]. split; [|reflexivity].
    intros j Hj. apply elem_of_list_singleton in Hj as ->. eauto.
  - unfold fresh_chan. cbn [pr_next pr_provs pr_body0 set_body cids_of flat_map chan app]. intros [= <-].
    eexists _, _, _, _, _. split; [reflexivity|]. split; [cbn; lia|]. split; [|reflexivity].
    intros j Hj. apply elem_of_cons in Hj as [->|Hj]; [eauto|]. apply elem_of_list_singleton in Hj as ->. exists (S nx). split; [lia|done].
  - destruct (call_body F fn args) as [b|]; [|done]. intros [= <-]. unfold no_eff, set_body. cbn [pr_provs pr_next].
    eexists _, _, _, _, _. split; [reflexivity|]. split; [cbn; lia|]. split; [intros j Hj; by apply elem_of_nil in Hj|reflexivity].
  - intros [= <-]. unfold no_eff, set_body. cbn [pr_provs pr_next].
    eexists _, _, _, _, _. split; [reflexivity|]. split; [cbn; lia|]. split; [intros j Hj; by apply elem_of_nil in Hj|reflexivity].
  - intros [= <-]. unfold set_body. cbn [pr_provs pr_next].
    eexists _, _, _, _, _. split; [reflexivity|]. split; [cbn; lia|]. split; [intros j Hj; by apply elem_of_nil in Hj|reflexivity].
Qed.

Lemma action_internal_provs n0 nf body nx :
  action_of NP D (Proc [n0] body nx) = AInternal -> action_of NP D (Proc [nf] body nx) = AInternal.
Proof.
  unfold action_of. cbn [pr_body0]. destruct body; simpl; intros Ha;
    repeat match type of Ha with
           | (if ?b then _ else _) = _ => destruct b eqn:?
           | match ?x with _ => _ end = _ => destruct x eqn:?
           end; try discriminate; try done;
    try (unfold send_on, multi in Ha; simpl in Ha; repeat match type of Ha with match ?x with _ => _ end = _ => destruct x end; discriminate);
    try (unfold recv_on, multi in Ha; simpl in Ha; repeat match type of Ha with match ?x with _ => _ end = _ => destruct x end; discriminate).
Qed.

(* the formal control message commutes with an internal step of its target *)
Lemma ctl_run_commute c f t nf k n0 body nx e :
  ns_ok c -> CtlReady c f t nf k -> is_Some (chans c !! k) -> procs c !! t = Some (Proc [n0] body nx) ->
  action_of NP D (Proc [n0] body nx) = AInternal -> internal_effect NP F t (Proc [n0] body nx) = EOk e ->
  let c1 := apply_effect c t (Proc [n0] body nx) e in
  step NP D F c (Run t) = SStep c1 /\
  step NP D F (ctl nf k f t c) (Run t) = SStep (ctl nf k f t c1) /\ CtlReady c1 f t nf k.
Proof.
  intros Hns Hready Hke Hpt Ea He c1.
  destruct Hready as (Hft & pf & pt' & n0' & Hf & Hpt' & Eaf & Hn0 & Hk). rewrite Hpt in Hpt'. injection Hpt' as <-. cbn in Hn0. injection Hn0 as <-.
  destruct (internal_provs t [n0] body nx e He) as (B & nx1 & ss & nch & o & -> & Hnx & Hnch & Hall).
  assert (Hsf : spawned t (nx1 + length nch) ss !! f = None).
  { destruct (spawned t (nx1 + length nch) ss !! f) eqn:E; [|done]. exfalso. apply spawned_lookup_Some in E as (a & -> & Ha & _).
    eapply (ns_ok_not_fresh_pid c t _ (t ++ [a]) a Hns Hpt); [by eexists|cbn; lia|done]. }
  assert (Hkn : k ∉ nch).
  { intros Hin. destruct (Hnch k Hin) as (a & Ha & ->). eapply (ns_ok_not_fresh_cid c t _ (t ++ [a]) a Hns Hpt); [done|cbn; lia|done]. }
  split; [|split].
  - cbn [step]. rewrite Hpt, Ea, He. reflexivity.
  - assert (Hl : procs (ctl nf k f t c) !! t = Some (Proc [nf] body nx)).
    { unfold ctl. rewrite Hpt. cbn. apply lookup_insert. }
    cbn [step]. rewrite Hl, (action_internal_provs n0 nf body nx Ea), (Hall [nf]). cbn [eff_step]. f_equal.
    by apply ctl_effect_commute.
  - split; [done|]. unfold c1. rewrite apply_effect_eq. unfold eff_with, procs_after. cbn [e_after procs e_spawn e_newch].
    exists pf, (Proc [n0] B (eff_next1 (Proc [n0] body nx) (Eff (Continue (Proc [n0] B nx1)) ss nch [] o))), n0.
    split; [|split; [apply lookup_insert|done]].
    rewrite lookup_insert_ne by done. unfold eff_next0, eff_base. cbn [e_after pr_next e_newch]. by rewrite (lookup_union_r _ _ _ Hsf).
Qed.

(* ------------------------------------------------------------------ the target receives from a client channel *)
Lemma ctl_del c f t nf k s : s <> t -> s <> f -> ctl nf k f t (del_proc c s) = del_proc (ctl nf k f t c) s.
Proof.
  intros Hst Hsf. unfold ctl, del_proc. cbn [procs chans out]. rewrite lookup_delete_ne by done.
  destruct (procs c !! t) as [pt|]; [|done]. cbn [procs chans out]. f_equal.
  apply map_eq. intros r. destruct (decide (r = t)) as [->|Hrt]; [by simplify_map_eq|].
  destruct (decide (r = s)) as [->|Hrs]; [by simplify_map_eq|]. destruct (decide (r = f)) as [->|Hrf]; by simplify_map_eq.
Qed.

Lemma recv_client_provs t a b ka kb body nx k2 m e :
  chan a = Some ka -> chan b = Some kb -> k2 <> ka ->
  action_of NP D (Proc [a] body nx) = ARecv k2 -> on_message t (Proc [a] body nx) m = EOk e ->
  m_rule m <> RFWD -> m_rule m <> RGC ->
  action_of NP D (Proc [b] body nx) = ARecv k2 /\
  exists B, e = eff_with [a] B nx [] [] [] /\ on_message t (Proc [b] body nx) m = EOk (eff_with [b] B nx [] [] []).
Proof.
  intros Ha Hb Hk2 Hact He Hfw Hgc. unfold on_message in *. cbn [pr_body0] in *.
  destruct (rule_eqb (m_rule m) RFWD) eqn:E1; [apply rule_eqb_eq in E1; contradiction|].
  destruct (rule_eqb (m_rule m) RGC) eqn:E2; [apply rule_eqb_eq in E2; contradiction|]. cbn [andb] in *.
  unfold action_of in *. cbn [pr_body0] in *.
  destruct body as [to pay cont|pay cont from k0|to l cont|from bs|x b0 k0|c0|c0 k0|to from d|x y from k0|fn args pt|to cont|x from k0|c0 k0|l k0];
    try discriminate He; simpl in Hact |- *.
  - destruct (is_self from).
    + exfalso. unfold recv_on, self_chan, prov0, multi in Hact. simpl in Hact. rewrite Ha in Hact. injection Hact as <-. done.
    + split; [exact Hact|]. destruct (rule_eqb (m_rule m) RSND); [|discriminate]. injection He as <-. unfold no_eff, set_body, eff_with. cbn. eauto.
  - destruct (is_self from).
    + exfalso. unfold recv_on, self_chan, prov0, multi in Hact. simpl in Hact. rewrite Ha in Hact. injection Hact as <-. done.
    + split; [exact Hact|]. destruct (rule_eqb (m_rule m) RSEL); [|discriminate]. destruct (find_branch (m_label m) bs) as [[pay K]|]; [|discriminate].
      injection He as <-. unfold no_eff, set_body, eff_with. cbn. eauto.
  - destruct (is_self c0); [discriminate|]. split; [exact Hact|]. destruct (rule_eqb (m_rule m) RCLS); [|discriminate].
    injection He as <-. unfold no_eff, set_body, eff_with. cbn. eauto.
  - exfalso. revert Hact. destruct (negb (is_self to)); [done|]. by destruct (chan from).
  - destruct (is_self from).
    + exfalso. unfold recv_on, self_chan, prov0, multi in Hact. simpl in Hact. rewrite Ha in Hact. injection Hact as <-. done.
    + split; [exact Hact|]. destruct (rule_eqb (m_rule m) RCST); [|discriminate]. injection He as <-. unfold no_eff, set_body, eff_with. cbn. eauto.
Qed.

Lemma ctl_rdv_recv_commute c f t nf k n0 body nx s ps k2 m st e :
  ns_ok c -> CtlReady c f t nf k -> procs c !! t = Some (Proc [n0] body nx) -> procs c !! s = Some ps -> s <> t ->
  action_of NP D ps = ASend k2 m -> action_of NP D (Proc [n0] body nx) = ARecv k2 -> k2 <> k ->
  chans c !! k2 = Some st -> ch_closed st = false -> on_message t (Proc [n0] body nx) m = EOk e ->
  m_rule m <> RFWD -> m_rule m <> RGC -> (exists kf, chan nf = Some kf) ->
  let c1 := apply_effect (del_proc c s) t (Proc [n0] body nx) e in
  step NP D F c (Rendezvous s t) = SStep c1 /\
  step NP D F (ctl nf k f t c) (Rendezvous s t) = SStep (ctl nf k f t c1) /\ CtlReady c1 f t nf k.
Proof.
  intros Hns Hready Hpt Hs Hst Eas Ear Hk2 Hch Hcl He Hfw Hgc [kf Hkf] c1.
  destruct Hready as (Hft & pf & pt' & n0' & Hf & Hpt' & Eaf & Hn0 & Hk). rewrite Hpt in Hpt'. injection Hpt' as <-. cbn in Hn0. injection Hn0 as <-.
  assert (Hsf : s <> f) by (intros ->; rewrite Hs in Hf; injection Hf as <-; congruence).
  destruct (recv_client_provs t n0 nf k kf body nx k2 m e Hk Hkf Hk2 Ear He Hfw Hgc) as (Ear' & B & -> & He').
  split; [|split].
  - cbn [step]. rewrite bool_decide_eq_false_2 by done. rewrite Hs, Hpt, Eas, Ear. rewrite bool_decide_eq_true_2 by done. rewrite Hch, Hcl, He. reflexivity.
  - assert (Hl1 : procs (ctl nf k f t c) !! s = Some ps) by (unfold ctl; rewrite Hpt; cbn; rewrite lookup_insert_ne by done; by rewrite lookup_delete_ne).
    assert (Hl2 : procs (ctl nf k f t c) !! t = Some (Proc [nf] body nx)) by (unfold ctl; rewrite Hpt; cbn; apply lookup_insert).
    assert (Hl3 : chans (ctl nf k f t c) !! k2 = Some st).
    { unfold ctl. rewrite Hpt. cbn [chans]. rewrite close_all_lookup. rewrite decide_False; [done|]. intros H. apply elem_of_list_singleton in H. done. }
    cbn [step]. rewrite bool_decide_eq_false_2 by done. rewrite Hl1, Hl2, Eas, Ear'. rewrite bool_decide_eq_true_2 by done. rewrite Hl3, Hcl, He'. cbn [eff_step]. f_equal.
    rewrite <- ctl_del by done. unfold c1. apply ctl_effect_commute; try done.
    + cbn. by rewrite lookup_delete_ne.
    + intros H. by apply elem_of_nil in H.
  - split; [done|]. unfold c1. rewrite apply_effect_eq. unfold eff_with, procs_after. cbn [e_after procs e_spawn e_newch del_proc].
    exists pf, (Proc [n0] B (eff_next1 (Proc [n0] body nx) (Eff (Continue (Proc [n0] B nx)) [] [] [] []))), n0.
    split; [|split; [apply lookup_insert|done]].
    rewrite lookup_insert_ne by done. unfold spawned. cbn. rewrite (left_id_L ∅ (∪)). by rewrite lookup_delete_ne.
Qed.

(* ------------------------------------------------------------------ the target sends a negative message with itself as continuation *)
Inductive self_msg : (name -> msg) -> Prop :=
| SM_rcv pay : self_msg (fun n => Msg RRCV pay n [] "")
| SM_bra l : self_msg (fun n => Msg RBRA n zero_name [] l)
| SM_shf : self_msg (fun n => Msg RSHF n zero_name [] "").

Lemma send_client_provs a b ka kb body nx k2 m :
  chan a = Some ka -> chan b = Some kb -> k2 <> ka -> action_of NP D (Proc [a] body nx) = ASend k2 m ->
  exists M, self_msg M /\ m = M a /\ action_of NP D (Proc [b] body nx) = ASend k2 (M b).
Proof.
  intros Ha Hb Hk2. unfold action_of. cbn [pr_body0].
  destruct body as [to pay cont|pay cont from k0|to l cont|from bs|x b0 k0|c0|c0 k0|to from d|x y from k0|fn args pt|to cont|x from k0|c0 k0|l k0]; simpl;
    unfold send_on, recv_on, internal, self_chan, self_name_of, prov0, multi; simpl; rewrite ?Ha, ?Hb; intros Hact;
    repeat match type of Hact with
           | (if ?x then _ else _) = _ => destruct x eqn:?
           | match ?x with _ => _ end = _ => destruct x eqn:?
           end; try discriminate; injection Hact as <- <-; try done.
  all: first [ eexists; split; [apply SM_rcv|]; split; reflexivity
             | eexists; split; [apply SM_bra|]; split; reflexivity
             | eexists; split; [apply SM_shf|]; split; reflexivity ].
Qed.

Lemma recv_self_generic r pr M a e : self_msg M -> body_is_fwd (pr_body0 pr) = false -> on_message r pr (M a) = EOk e ->
  exists B, e = eff_with [a] B (pr_next pr) [] [] [] /\ forall b, on_message r pr (M b) = EOk (eff_with [b] B (pr_next pr) [] [] []).
Proof.
  intros HM Hnf He. unfold on_message in *. destruct HM; cbn [m_rule rule_eqb andb m_c1 m_c2 m_label] in *.
  all: destruct (pr_body0 pr) as [to pay0 cont|pay0 cont from k0|to l0 cont|from bs|x b0 k0|c0|c0 k0|to from d|x y from k0|fn args pt|to cont|x from k0|c0 k0|l0 k0];
    try discriminate He; try discriminate Hnf.
  all: try (destruct (is_self from); try discriminate He).
  all: try (match type of He with context [find_branch ?l1 ?bs1] => destruct (find_branch l1 bs1) as [[? ?]|]; [|discriminate He] end).
  all: injection He as <-; unfold no_eff, set_provs_body, eff_with; cbn; eauto.
Qed.

Lemma ctl_send_commute c f t r nf k n0 pr B :
  f <> t -> f <> r -> t <> r -> procs c !! t = Some (Proc [n0] (pr_body0 (Proc [n0] B 0)) 0) \/ True ->
  forall pt, procs c !! t = Some pt -> procs c !! r = Some pr ->
  ctl nf k f r (apply_effect (del_proc c t) r pr (eff_with [n0] B (pr_next pr) [] [] [])) =
  apply_effect (del_proc (ctl nf k f t c) t) r pr (eff_with [nf] B (pr_next pr) [] [] []).
Proof.
  intros Hft Hfr Htr _ pt Hpt Hr. rewrite !apply_effect_eq. unfold eff_with, procs_after, eff_next1, eff_next0, eff_base.
  cbn [e_after e_spawn e_newch e_close e_out procs chans out pr_provs pr_body0 pr_next del_proc length].
  unfold ctl. cbn [procs chans out]. rewrite lookup_insert. rewrite Hpt. cbn [pr_body0 pr_next procs chans out]. unfold spawned. cbn [add_spawns fst].
  rewrite !(left_id_L ∅ (∪)). f_equal.
  - apply map_eq. intros q. destruct (decide (q = r)) as [->|Hqr]; [by rewrite !lookup_insert|].
    destruct (decide (q = t)) as [->|Hqt]; [by simplify_map_eq|]. destruct (decide (q = f)) as [->|Hqf]; by simplify_map_eq.
Qed.
End Join.

(* ------------------------------------------------------------------ two control messages in a row: f -> t -> t' *)
Lemma ctl_ctl_commute c f t t' nf n0 k k2 pt pt' :
  f <> t -> f <> t' -> t <> t' -> procs c !! t = Some pt -> procs c !! t' = Some pt' ->
  ctl nf k2 t t' (ctl nf k f t c) = ctl nf k f t' (ctl n0 k2 t t' c).
Proof.
  intros Hft Hft' Htt' Hpt Hpt'. unfold ctl at 2. rewrite Hpt. unfold ctl at 3. rewrite Hpt'.
  unfold ctl. cbn [procs chans out]. rewrite lookup_insert_ne by done. rewrite lookup_delete_ne by done. rewrite Hpt'.
  rewrite lookup_insert. cbn [pr_body0 pr_next]. f_equal.
  - apply map_eq. intros r. destruct (decide (r = t')) as [->|Hr']; [by rewrite !lookup_insert|].
    destruct (decide (r = t)) as [->|Hrt]; [by simplify_map_eq|].
    destruct (decide (r = f)) as [->|Hrf]; by simplify_map_eq.
  - apply map_eq. intros j. rewrite !close_all_lookup. destruct (decide (j ∈ [k2])), (decide (j ∈ [k])); try done.
Qed.
