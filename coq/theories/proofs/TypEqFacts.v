(* TypEqFacts.v — Bisim is an equivalence, invariant under unfolding a name. *)
Require Import Grits.Base Grits.ModeDefs Grits.STypes Grits.spec.TypEq.

Lemma head_det D t h : head D t h -> forall h', head D t h' -> h = h'.
Proof.
  induction 1 as [t Ht | x m d h Hl Hh IH]; intros h' H'; inversion H' as [t' Ht' | x2 m2 d2 h2 Hl2 Hh2]; subst;
    cbn in *; try discriminate; auto.
  rewrite Hl in Hl2. inversion Hl2; subst. auto.
Qed.
Lemma head_nonname D t h : head D t h -> is_name h = false.
Proof. induction 1; auto. Qed.
Lemma head_of_nonname D t : is_name t = false -> forall h, head D t h -> h = t.
Proof. intros Hn h H. inversion H; subst; auto. cbn in Hn. discriminate. Qed.
Lemma head_idem D t h : head D t h -> head D h h.
Proof. intros H. constructor. eapply head_nonname; eauto. Qed.

Lemma brs_sim_mono (R R' : sty -> sty -> Prop) bs cs :
  (forall a b, R a b -> R' a b) -> brs_sim R bs cs -> brs_sim R' bs cs.
Proof. intros Hm [H1 H2]. split; eauto. Qed.
Lemma same_head_mono (R R' : sty -> sty -> Prop) h1 h2 :
  (forall a b, R a b -> R' a b) -> same_head R h1 h2 -> same_head R' h1 h2.
Proof. intros Hm H. destruct H; constructor; eauto using brs_sim_mono. Qed.

Lemma find_br_In l bs a : find_br l bs = Some a -> In_br a bs.
Proof.
  induction bs as [|l' a' r IH]; cbn; [discriminate|]. destruct (String.eqb l l'); intros H.
  - inversion H; auto.
  - auto.
Qed.

Section B.
Variable D : tenv.

Lemma Bisim_inv s t : Bisim D s t ->
  exists h1 h2, head D s h1 /\ head D t h2 /\ same_head (Bisim D) h1 h2.
Proof.
  intros [R [Hr Hc]]. destruct (Hc _ _ Hr) as [h1 [h2 [H1 [H2 Hs]]]].
  exists h1, h2. repeat split; auto. eapply same_head_mono; [|exact Hs].
  intros a b Hab. exists R. auto.
Qed.

Lemma Bisim_intro s t h1 h2 :
  head D s h1 -> head D t h2 -> same_head (Bisim D) h1 h2 -> Bisim D s t.
Proof.
  intros H1 H2 Hs. exists (fun a b => Bisim D a b \/ (a = s /\ b = t)). split; [right; auto|].
  intros a b [Hb | [-> ->]].
  - destruct (Bisim_inv _ _ Hb) as [k1 [k2 [K1 [K2 Ks]]]]. exists k1, k2. repeat split; auto.
    eapply same_head_mono; [|exact Ks]. auto.
  - exists h1, h2. repeat split; auto. eapply same_head_mono; [|exact Hs]. auto.
Qed.

(* reflexivity, on any productive set of types *)
Theorem Bisim_refl (P : sty -> Prop) : Productive D P -> forall t, P t -> Bisim D t t.
Proof.
  intros HP t Ht. exists (fun a b => a = b /\ P a). split; [auto|].
  intros a b [<- Ha]. destruct (HP _ Ha) as [h [Hh Hc]]. exists h, h. repeat split; auto.
  pose proof (head_nonname _ _ _ Hh) as Hn.
  destruct h; cbn in Hn; try discriminate; constructor; try (split; [reflexivity|]; apply Hc; cbn; auto).
  - split; [tauto|]. intros l u u' E1 E2. rewrite E1 in E2. inversion E2; subst. split; [reflexivity|].
    apply Hc. cbn. eapply find_br_In; eauto.
  - split; [tauto|]. intros l u u' E1 E2. rewrite E1 in E2. inversion E2; subst. split; [reflexivity|].
    apply Hc. cbn. eapply find_br_In; eauto.
Qed.

Lemma brs_sim_sym (R : sty -> sty -> Prop) bs cs : brs_sim R bs cs -> brs_sim (fun a b => R b a) cs bs.
Proof. intros [H1 H2]. split; [intros l; symmetry; apply H1 | eauto]. Qed.

Theorem Bisim_sym s t : Bisim D s t -> Bisim D t s.
Proof.
  intros [R [Hr Hc]]. exists (fun a b => R b a). split; [exact Hr|].
  intros a b Hab. destruct (Hc _ _ Hab) as [h1 [h2 [H1 [H2 Hs]]]]. exists h2, h1. repeat split; auto.
  destruct Hs; constructor; auto using brs_sim_sym.
Qed.

Lemma brs_sim_trans (R1 R2 : sty -> sty -> Prop) bs ms cs :
  brs_sim R1 bs ms -> brs_sim R2 ms cs -> brs_sim (fun a c => exists b, R1 a b /\ R2 b c) bs cs.
Proof.
  intros [A1 A2] [B1 B2]. split.
  - intros l. rewrite A1. apply B1.
  - intros l a c Ea Ec. destruct (find_br l ms) as [b|] eqn:Eb.
    + exists b. eauto.
    + apply A1 in Eb. congruence.
Qed.

Theorem Bisim_trans s u t : Bisim D s u -> Bisim D u t -> Bisim D s t.
Proof.
  intros [R1 [Hr1 Hc1]] [R2 [Hr2 Hc2]].
  exists (fun a c => exists b, R1 a b /\ R2 b c). split; [eauto|].
  intros a c [b [Hab Hbc]].
  destruct (Hc1 _ _ Hab) as [h1 [hb [H1 [Hb1 Hs1]]]].
  destruct (Hc2 _ _ Hbc) as [hb' [h2 [Hb2 [H2 Hs2]]]].
  pose proof (head_det _ _ _ Hb1 _ Hb2) as <-.
  exists h1, h2. repeat split; auto.
  destruct Hs1; inversion Hs2; subst; constructor; eauto using brs_sim_trans.
Qed.

(* a name and the body of its definition are interchangeable *)
Theorem Bisim_unfold (P : sty -> Prop) x m d :
  Productive D P -> tlookup D x = Some d -> P (td_body d) -> Bisim D (TName x m) (td_body d).
Proof.
  intros HP Hl Hb. destruct (Bisim_inv _ _ (Bisim_refl P HP _ Hb)) as [h1 [h2 [H1 [H2 Hs]]]].
  eapply Bisim_intro; [econstructor; [exact Hl | exact H1] | exact H2 | exact Hs].
Qed.

(* more generally: types with the same head are bisimilar as soon as the head is to itself *)
Lemma Bisim_same_head s t h : head D s h -> head D t h -> Bisim D h h -> Bisim D s t.
Proof.
  intros H1 H2 Hb. destruct (Bisim_inv _ _ Hb) as [k1 [k2 [K1 [K2 Ks]]]].
  pose proof (head_idem _ _ _ H1) as Hi.
  rewrite <- (head_det _ _ _ Hi _ K1), <- (head_det _ _ _ Hi _ K2) in Ks.
  eapply Bisim_intro; eauto.
Qed.
End B.
