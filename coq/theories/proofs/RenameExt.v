(* proofs/RenameExt.v — C14: from renamings that are injective on the names of ONE program
   (`admissible`) to renamings that are injective everywhere (`ginjective`), which is what the
   equivariance proofs use:
   (1) renaming only looks at the names that occur: two renamings that agree on the atoms of a
       program produce the same program (`rn_program_ext`);
   (2) a map that is injective on a finite list extends to a map that is injective on all strings
       and agrees with it on the list (`extend`): names outside the list are sent to
       pad ^^ name, where pad is longer than every image of the list. *)
Require Import Grits.Base Grits.ModeDefs Grits.STypes Grits.Forms Grits.spec.Rename.

(* ---------------------------------------------------------------- (1) extensionality *)
Definition agree (r r' : renaming) (a : atoms) : Prop :=
  (forall x, In x (a_chan a) -> rc r x = rc r' x) /\
  (forall x, In x (a_fun a) -> rf r x = rf r' x) /\
  (forall x, In x (a_type a) -> rt r x = rt r' x) /\
  (forall x, In x (a_label a) -> rl r x = rl r' x).

Lemma agree_app r r' a b : agree r r' (at_app a b) <-> agree r r' a /\ agree r r' b.
Proof.
  unfold agree, at_app; cbn [a_chan a_fun a_type a_label]. split.
  - intros (H1 & H2 & H3 & H4). split; (split; [|split; [|split]]); intros x Hx;
      first [apply H1 | apply H2 | apply H3 | apply H4]; apply in_or_app; auto.
  - intros [(H1 & H2 & H3 & H4) (G1 & G2 & G3 & G4)]. split; [|split; [|split]]; intros x Hx;
      apply in_app_or in Hx; destruct Hx; auto.
Qed.
Lemma agree_nil r r' : agree r r' at_nil.
Proof. repeat split; intros x []. Qed.

Section Ext.
Variables r r' : renaming.
Hypothesis Hp : forall x, rp r x = rp r' x.

Lemma rn_sty_ext :
  (forall t, agree r r' (sty_atoms t) -> rn_sty r t = rn_sty r' t) /\
  (forall b, agree r r' (brs_atoms b) -> rn_brs r b = rn_brs r' b).
Proof.
  apply sty_brs_ind; intros; cbn [rn_sty rn_brs sty_atoms brs_atoms] in *;
    repeat match goal with H : agree _ _ (at_app _ _) |- _ => apply agree_app in H; destruct H end;
    f_equal; auto.
  - destruct H as (_ & _ & H & _). apply H. left; reflexivity.
  - destruct H1 as (_ & _ & _ & H1). apply H1. left; reflexivity.
Qed.
Lemma rn_osty_ext t : agree r r' (osty_atoms t) -> rn_osty r t = rn_osty r' t.
Proof. destruct t; cbn; intros H; [f_equal; apply rn_sty_ext; exact H | reflexivity]. Qed.
Lemma rn_name_ext n : agree r r' (name_atoms n) -> rn_name r n = rn_name r' n.
Proof.
  unfold name_atoms, rn_name. intros H. apply agree_app in H. destruct H as [H1 H2].
  f_equal; [|apply rn_osty_ext; exact H2]. destruct H1 as (H1 & _). apply H1. left; reflexivity.
Qed.
Lemma rn_names_ext ns : agree r r' (names_atoms ns) -> map (rn_name r) ns = map (rn_name r') ns.
Proof.
  unfold names_atoms. induction ns as [|n ns IH]; cbn [map at_concat fold_right]; intros H; [reflexivity|].
  apply agree_app in H. destruct H. f_equal; [apply rn_name_ext; auto | apply IH; auto].
Qed.

Ltac split_agree :=
  repeat match goal with
  | H : agree _ _ (at_app _ _) |- _ => apply agree_app in H; destruct H
  | H : agree _ _ (names_atoms (_ :: _)) |- _ => unfold names_atoms in H; cbn [map at_concat fold_right] in H
  end.

Lemma rn_form_ext :
  (forall f, agree r r' (form_atoms f) -> rn_form r f = rn_form r' f) /\
  (forall b, agree r r' (branches_atoms b) -> rn_branches r b = rn_branches r' b).
Proof.
  apply form_branches_ind; intros; cbn [rn_form rn_branches form_atoms branches_atoms] in *;
    split_agree; f_equal; auto using rn_name_ext, rn_osty_ext;
    try (fold (names_atoms args) in *; apply rn_names_ext; assumption).
  - match goal with H : agree _ _ (At [] [] [] [l]) |- _ => destruct H as (_ & _ & _ & H); apply H; left; reflexivity end.
  - match goal with H : agree _ _ (At [] [f] [] []) |- _ => destruct H as (_ & H & _); apply H; left; reflexivity end.
  - match goal with H : agree _ _ (At [] [] [] [l]) |- _ => destruct H as (_ & _ & _ & H); apply H; left; reflexivity end.
Qed.

Lemma rn_tdef_ext d : agree r r' (tdef_atoms d) -> rn_tdef r d = rn_tdef r' d.
Proof.
  unfold tdef_atoms, rn_tdef. intros H. apply agree_app in H. destruct H as [H1 H2]. f_equal.
  - destruct H1 as (_ & _ & H1 & _). apply H1. left; reflexivity.
  - apply rn_sty_ext; exact H2.
Qed.
Lemma rn_fundef_ext f : agree r r' (fundef_atoms f) -> rn_fundef r f = rn_fundef r' f.
Proof.
  unfold fundef_atoms, rn_fundef. intros H. split_agree. f_equal.
  - match goal with H : agree _ _ (At [] [_] [] []) |- _ => destruct H as (_ & H & _); apply H; left; reflexivity end.
  - apply rn_names_ext; assumption.
  - apply rn_form_ext; assumption.
  - apply rn_osty_ext; assumption.
  - destruct (fn_explicit f); cbn [option_map]; [f_equal; apply rn_name_ext; assumption | reflexivity].
Qed.
Lemma rn_procdef_ext p : agree r r' (procdef_atoms p) -> rn_procdef r p = rn_procdef r' p.
Proof.
  unfold procdef_atoms, rn_procdef. intros H. split_agree. f_equal.
  - apply rn_form_ext; assumption.
  - apply rn_names_ext; assumption.
  - apply rn_osty_ext; assumption.
Qed.

Lemma map_ext_atoms {A} (g g' : A -> A) (at_of : A -> atoms) l :
  (forall x, agree r r' (at_of x) -> g x = g' x) -> agree r r' (at_concat (map at_of l)) -> map g l = map g' l.
Proof.
  intros Hg. induction l as [|x l IH]; cbn [map at_concat fold_right]; intros H; [reflexivity|].
  apply agree_app in H. destruct H. f_equal; auto.
Qed.

Theorem rn_program_ext p : agree r r' (program_atoms p) -> rn_program r p = rn_program r' p.
Proof.
  unfold program_atoms, rn_program. intros H. split_agree. f_equal.
  - eapply map_ext_atoms; [apply rn_procdef_ext | assumption].
  - apply rn_names_ext; assumption.
  - eapply map_ext_atoms; [apply rn_fundef_ext | assumption].
  - unfold rn_tenv. eapply map_ext_atoms; [apply rn_tdef_ext | assumption].
Qed.
End Ext.

(* ---------------------------------------------------------------- (2) extension to an injective map *)
Fixpoint pad (n : nat) : string := match n with O => "" | S k => String "x" (pad k) end.
Lemma pad_length n : String.length (pad n) = n.
Proof. induction n; cbn; auto. Qed.
Lemma append_length a b : String.length (a ^^ b) = (String.length a + String.length b)%nat.
Proof. induction a; cbn; auto. Qed.
Lemma append_inj_l a b c : a ^^ b = a ^^ c -> b = c.
Proof. induction a; cbn; intros H; [exact H|]. inversion H. auto. Qed.

Definition maxlen (l : list string) : nat := fold_right (fun s acc => Nat.max (String.length s) acc) 0%nat l.
Lemma maxlen_ge l x : In x l -> (String.length x <= maxlen l)%nat.
Proof.
  unfold maxlen. induction l as [|y l IH]; cbn [fold_right In]; [tauto|].
  intros [->|H]; [apply Nat.le_max_l|]. specialize (IH H). eapply Nat.le_trans; [exact IH | apply Nat.le_max_r].
Qed.

Definition extend (l : list string) (f : string -> string) : string -> string :=
  fun x => if str_mem x l then f x else pad (S (maxlen (map f l))) ^^ x.

Lemma str_mem_In x l : str_mem x l = true <-> In x l.
Proof.
  induction l as [|y l IH]; cbn; [split; [discriminate | tauto]|].
  rewrite Bool.orb_true_iff, IH, String.eqb_eq. split; intros [H|H]; auto.
Qed.

Lemma extend_agree l f x : In x l -> extend l f x = f x.
Proof. intros H. unfold extend. apply str_mem_In in H. now rewrite H. Qed.

Lemma extend_inj l f : inj_on l f -> injective (extend l f).
Proof.
  intros Hi x y. unfold extend.
  destruct (str_mem x l) eqn:Ex, (str_mem y l) eqn:Ey.
  - apply Hi; apply str_mem_In; assumption.
  - intros E. exfalso. apply str_mem_In in Ex.
    assert (H1 : (String.length (f x) <= maxlen (map f l))%nat) by (apply maxlen_ge, in_map, Ex).
    rewrite E, append_length in H1. cbn [pad String.length] in H1. rewrite pad_length in H1. lia.
  - intros E. exfalso. apply str_mem_In in Ey.
    assert (H1 : (String.length (f y) <= maxlen (map f l))%nat) by (apply maxlen_ge, in_map, Ey).
    rewrite <- E, append_length in H1. cbn [pad String.length] in H1. rewrite pad_length in H1. lia.
  - apply append_inj_l.
Qed.

(* an admissible renaming of p coincides on p with a globally injective one *)
Definition globalize (r : renaming) (p : program) : renaming :=
  let a := program_atoms p in
  Ren (extend ("" :: a_chan a) (rc r)) (extend (a_fun a) (rf r)) (extend (a_type a) (rt r)) (extend (a_label a) (rl r)) (rp r).

Theorem globalize_spec r p : admissible r p ->
  ginjective (globalize r p) /\ rn_program (globalize r p) p = rn_program r p /\
  agree (globalize r p) r (program_atoms p).
Proof.
  intros (H1 & H0 & H2 & H3 & H4).
  assert (Ha : agree (globalize r p) r (program_atoms p)).
  { unfold agree, globalize; cbn [rc rf rt rl]. repeat split; intros x Hx; apply extend_agree; auto. right; exact Hx. }
  split; [|split; [|exact Ha]].
  - unfold ginjective, globalize; cbn [rc rf rt rl]. repeat split; try (apply extend_inj; assumption).
    rewrite extend_agree; [exact H0 | left; reflexivity].
  - apply rn_program_ext; [reflexivity | exact Ha].
Qed.
