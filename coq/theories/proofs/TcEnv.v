(* proofs/TcEnv.v — what `sanity_typedefs D = Ok true` buys the typechecker (C09):
   SanityChecksTypeDefinitions itself never panics or hangs; afterwards Unfold of a well-formed type
   neither runs out of fuel nor returns nil, its result is not a name and is well formed again;
   components of well-formed types are well formed and carry proper modes. *)
Require Import Grits.Base Grits.ModeDefs Grits.Modes Grits.STypes Grits.Infer Grits.TcDeps.

Definition wf_env (D : tenv) : Prop := sanity_typedefs D = Ok true.
Definition wf_type (D : tenv) (t : sty) : Prop := check_wf D t = true.
Definition bodies_wf (D : tenv) : Prop := forall d, In d D -> wf_type D (td_body d).

Lemma str_mem_In : forall x l, str_mem x l = true <-> In x l.
Proof.
  induction l as [|y l IH]; cbn.
  - split; [discriminate | tauto].
  - rewrite Bool.orb_true_iff, IH, String.eqb_eq. split; intros [H|H]; auto.
Qed.

Lemma tlookup_some : forall D x d, tlookup D x = Some d -> In d D /\ td_name d = x.
Proof.
  induction D as [|e D IH]; cbn; intros x d H; [discriminate|].
  destruct (tlookup D x) as [d'|] eqn:E.
  - inversion H; subst. destruct (IH _ _ E); auto.
  - destruct (String.eqb x (td_name e)) eqn:Ex; [|discriminate].
    inversion H; subst. apply String.eqb_eq in Ex. auto.
Qed.

(* ---------- the chain of names Unfold follows ---------- *)
Inductive chain (D : tenv) : sty -> nat -> sty -> Prop :=
| chain_base t : is_name t = false -> chain D t 0 t
| chain_step x m d n u : tlookup D x = Some d -> chain D (td_body d) n u -> chain D (TName x m) (S n) u.

Lemma chain_det : forall D t n u, chain D t n u -> forall n' u', chain D t n' u' -> n = n' /\ u = u'.
Proof.
  induction 1 as [t Ht | x m d n u Hl Hc IH]; intros n' u' H'.
  - inversion H'; subst; auto. discriminate.
  - inversion H'; subst; [discriminate|].
    match goal with H1 : tlookup D x = Some ?d0 |- _ => rewrite Hl in H1; inversion H1; subst end.
    match goal with H2 : chain D (td_body _) _ _ |- _ => destruct (IH _ _ H2); subst; auto end.
Qed.

Lemma chain_name_mode : forall D x m m' n u, chain D (TName x m) n u -> chain D (TName x m') n u.
Proof. intros D x m m' n u H. inversion H; subst; [discriminate|]. econstructor; eauto. Qed.

Lemma chain_result_nonname : forall D t n u, chain D t n u -> is_name u = false.
Proof. induction 1; auto. Qed.

Lemma chain_names : forall D t n u, chain D t n u ->
  exists l, length l = n /\ NoDup l /\ (forall y, In y l -> In y (map td_name D)) /\
            (forall y, In y l -> exists k u', (1 <= k <= n)%nat /\ chain D (TName y Unset) k u').
Proof.
  induction 1 as [t Ht | x m d n u Hl Hc IH].
  - exists []. repeat split; cbn; try constructor; intros; contradiction.
  - destruct IH as (l & Hlen & Hnd & Hin & Hk).
    destruct (tlookup_some _ _ _ Hl) as [HdD Hdn].
    assert (Hx : chain D (TName x Unset) (S n) u) by (econstructor; eauto).
    exists (x :: l). repeat split.
    + cbn; congruence.
    + constructor; auto. intro Hxl. destruct (Hk _ Hxl) as (k & u' & Hle & Hc').
      destruct (chain_det _ _ _ _ Hx _ _ Hc'). lia.
    + intros y [Hy|Hy]; [subst y; rewrite <- Hdn; apply in_map; auto | auto].
    + intros y [Hy|Hy].
      * subst y. exists (S n), u. split; [lia | auto].
      * destruct (Hk _ Hy) as (k & u' & Hle & Hc'). exists k, u'. split; [lia | auto].
Qed.

Lemma chain_bound : forall D t n u, chain D t n u -> (n <= length D)%nat.
Proof.
  intros D t n u H. destruct (chain_names _ _ _ _ H) as (l & Hlen & Hnd & Hin & _).
  rewrite <- Hlen, <- (map_length td_name D). apply NoDup_incl_length; auto.
Qed.

Lemma chain_unfold_f : forall D t n u, chain D t n u -> forall f, (n < f)%nat -> unfold_f f D t = Ok (Some u).
Proof.
  induction 1 as [t Ht | x m d n u Hl Hc IH]; intros f Hf.
  - destruct f; [lia|]. destruct t; cbn in *; try discriminate; reflexivity.
  - destruct f; [lia|]. cbn. rewrite Hl. apply IH. lia.
Qed.

Lemma chain_unfold : forall D t n u, chain D t n u -> unfold D t = Ok (Some u).
Proof. intros. unfold unfold. eapply chain_unfold_f; eauto. pose proof (chain_bound _ _ _ _ H). lia. Qed.

Lemma chain_wf : forall D t n u, chain D t n u -> bodies_wf D -> wf_type D t -> wf_type D u.
Proof.
  induction 1 as [t Ht | x m d n u Hl Hc IH]; intros HD Ht'; auto.
  apply IH; auto. apply HD. apply (tlookup_some _ _ _ Hl).
Qed.

(* ---------- isContractive ---------- *)
Lemma contractive_chain : forall f D seen t, contractive_f f D seen t = Ok true -> exists n u, chain D t n u.
Proof.
  induction f as [|f IH]; cbn; intros D seen t H; [discriminate|].
  destruct t; try (eexists 0%nat, _; apply chain_base; reflexivity).
  destruct (str_mem x seen); [discriminate|].
  destruct (tlookup D x) as [d|] eqn:Hl; [|discriminate].
  destruct (IH _ _ _ H) as (n & u & Hc). exists (S n), u. econstructor; eauto.
Qed.

Lemma wf_name_defined : forall D x m, wf_type D (TName x m) -> exists d, tlookup D x = Some d.
Proof.
  unfold wf_type, check_wf. cbn. intros D x m H. apply andb_prop in H. destruct H as [H _].
  destruct (tlookup D x); [eauto | discriminate].
Qed.

Lemma contractive_f_total : forall f D seen t,
  bodies_wf D -> wf_type D t -> NoDup seen -> (forall y, In y seen -> In y (map td_name D)) ->
  (length D + 2 <= f + length seen)%nat -> exists b, contractive_f f D seen t = Ok b.
Proof.
  induction f as [|f IH]; intros D seen t HD Ht Hnd Hin Hf.
  - assert (length seen <= length D)%nat by (rewrite <- (map_length td_name D); apply NoDup_incl_length; auto). lia.
  - cbn. destruct t; try (eexists; reflexivity).
    destruct (str_mem x seen) eqn:Hm; [eexists; reflexivity|].
    destruct (wf_name_defined _ _ _ Ht) as [d Hl]. rewrite Hl.
    destruct (tlookup_some _ _ _ Hl) as [HdD Hdn].
    apply IH; auto.
    + constructor; auto. intro Hx. apply str_mem_In in Hx. congruence.
    + intros y [Hy|Hy]; [subst y; rewrite <- Hdn; apply in_map; auto | auto].
    + cbn. lia.
Qed.

Lemma contractive_total : forall D t, bodies_wf D -> wf_type D t -> exists b, contractive D t = Ok b.
Proof.
  intros. unfold contractive. apply contractive_f_total; auto.
  - constructor.
  - intros y Hy. destruct Hy.
  - cbn. lia.
Qed.

(* ---------- SanityChecksTypeDefinitions ---------- *)
Definition sanity_loop (D : tenv) :=
  fix go (l : tenv) : outcome bool :=
    match l with
    | [] => Ok true
    | d :: r => do c <- contractive D (td_body d);
                if c then (if check_wf D (td_body d) then go r else Ok false) else Ok false
    end.

(* the per-definition condition of the first pass (well formed, and the mode of the body is the mode
   SetModalityTypeDef assigned to the definition) *)
Definition sanity_pred (D : tenv) (d : tdef) : bool :=
  check_wf D (td_body d) && mode_eqb (mode_of (td_body d)) (td_mode d).

Lemma sanity_typedefs_eq : forall D, sanity_typedefs D =
  if has_dup (map td_name D) then Ok false
  else if negb (forallb (sanity_pred D) D) then Ok false
  else sanity_loop D D.
Proof. reflexivity. Qed.

Lemma sanity_loop_cons : forall D d r, sanity_loop D (d :: r) =
  do c <- contractive D (td_body d); if c then (if check_wf D (td_body d) then sanity_loop D r else Ok false) else Ok false.
Proof. reflexivity. Qed.

Lemma sanity_loop_total : forall D l, bodies_wf D -> (forall d, In d l -> In d D) -> exists b, sanity_loop D l = Ok b.
Proof.
  induction l as [|d l IH]; intros HD Hl; [eexists; reflexivity|].
  rewrite sanity_loop_cons.
  destruct (contractive_total D (td_body d)) as [c Hc]; auto.
  { apply HD. apply Hl. left; auto. }
  rewrite Hc. cbn [obind]. destruct c; [|eexists; reflexivity].
  destruct (check_wf D (td_body d)); [|eexists; reflexivity]. apply IH; auto.
  intros; apply Hl; right; auto.
Qed.

Lemma sanity_loop_inv : forall D l, sanity_loop D l = Ok true -> forall d, In d l -> contractive D (td_body d) = Ok true.
Proof.
  induction l as [|e l IH]; intros H d Hd; [contradiction|].
  rewrite sanity_loop_cons in H.
  destruct (contractive D (td_body e)) as [c| |] eqn:Hc; cbn [obind] in H; try discriminate.
  destruct c; [|discriminate]. destruct (check_wf D (td_body e)); [|discriminate].
  destruct Hd as [Hd|Hd]; [subst; auto | auto].
Qed.

Lemma forallb_bodies_wf : forall D, forallb (sanity_pred D) D = true -> bodies_wf D.
Proof.
  intros D H d Hd. rewrite forallb_forall in H. specialize (H d Hd). unfold sanity_pred in H.
  apply andb_prop in H. exact (proj1 H).
Qed.

(* SanityChecksTypeDefinitions always returns (no panic on an undefined label, no runaway recursion) *)
Theorem sanity_typedefs_total : forall D, exists b, sanity_typedefs D = Ok b.
Proof.
  intro D. rewrite sanity_typedefs_eq.
  destruct (has_dup (map td_name D)); [eexists; reflexivity|].
  destruct (forallb (sanity_pred D) D) eqn:Hf; cbn; [|eexists; reflexivity].
  apply sanity_loop_total; auto. apply forallb_bodies_wf; auto.
Qed.

Lemma wf_env_bodies : forall D, wf_env D -> bodies_wf D.
Proof.
  unfold wf_env. intros D H. rewrite sanity_typedefs_eq in H.
  destruct (has_dup (map td_name D)); [discriminate|].
  destruct (forallb (sanity_pred D) D) eqn:Hf; cbn in H; [|discriminate].
  apply forallb_bodies_wf; auto.
Qed.

Lemma wf_env_contractive : forall D, wf_env D -> forall d, In d D -> contractive D (td_body d) = Ok true.
Proof.
  unfold wf_env. intros D H. rewrite sanity_typedefs_eq in H.
  destruct (has_dup (map td_name D)); [discriminate|].
  destruct (forallb (sanity_pred D) D) eqn:Hf; cbn in H; [|discriminate].
  apply sanity_loop_inv; auto.
Qed.

Lemma wf_chain : forall D t, wf_env D -> wf_type D t -> exists n u, chain D t n u.
Proof.
  intros D t HD Ht. destruct t; try (eexists 0%nat, _; apply chain_base; reflexivity).
  destruct (wf_name_defined _ _ _ Ht) as [d Hl].
  destruct (tlookup_some _ _ _ Hl) as [HdD _].
  destruct (contractive_chain _ _ _ _ (wf_env_contractive _ HD _ HdD)) as (n & u & Hc).
  exists (S n), u. econstructor; eauto.
Qed.

(* Unfold after the sanity checks: enough fuel, never nil, never a name, well formed again *)
Theorem unfold_wf : forall D t, wf_env D -> wf_type D t ->
  exists u, unfold D t = Ok (Some u) /\ is_name u = false /\ wf_type D u.
Proof.
  intros D t HD Ht. destruct (wf_chain _ _ HD Ht) as (n & u & Hc). exists u. repeat split.
  - eapply chain_unfold; eauto.
  - eapply chain_result_nonname; eauto.
  - eapply chain_wf; eauto. apply wf_env_bodies; auto.
Qed.

(* without any hypothesis: a result of Unfold is never a name *)
Lemma unfold_f_nonname : forall f D t u, unfold_f f D t = Ok (Some u) -> is_name u = false.
Proof.
  induction f as [|f IH]; cbn; intros D t u H; [discriminate|].
  destruct t; try (inversion H; subst; reflexivity).
  destruct (tlookup D x); [eauto | discriminate].
Qed.
Lemma unfold_nonname : forall D t u, unfold D t = Ok (Some u) -> is_name u = false.
Proof. intros. eapply unfold_f_nonname; eauto. Qed.

(* ---------- components of well-formed types ---------- *)
Lemma mode_eqb_proper : forall m c, proper m = true -> mode_eqb m c = true -> m = c.
Proof. destruct m, c; cbn; intros; congruence. Qed.

Ltac split_andb := repeat match goal with H : (_ && _)%bool = true |- _ => apply andb_prop in H; destruct H end.

Lemma check_modes_mode_of : forall D t cur, check_modes D cur t = true -> mode_of t = cur /\ proper cur = true.
Proof.
  intros D t cur H. destruct t; cbn in H |- *; unfold mode_ok in H; split_andb;
    try (destruct (tlookup D x); [|discriminate]; split_andb);
    match goal with Hp : proper ?m = true, He : mode_eqb ?m cur = true |- _ =>
      pose proof (mode_eqb_proper _ _ Hp He); subst; auto end.
Qed.

Lemma wf_proper : forall D t, wf_type D t -> proper (mode_of t) = true.
Proof.
  unfold wf_type, check_wf. intros D t H. apply andb_prop in H. destruct H as [_ H].
  apply check_modes_mode_of in H. tauto.
Qed.

Lemma wf_of_parts : forall D t cur, check_labels D t = true -> check_modes D cur t = true -> wf_type D t.
Proof.
  intros D t cur Hl Hm. unfold wf_type, check_wf. rewrite Hl. cbn.
  destruct (check_modes_mode_of _ _ _ Hm) as [E _]. rewrite E. auto.
Qed.

Lemma wf_tensor : forall D a b m, wf_type D (TTensor a b m) -> wf_type D a /\ wf_type D b.
Proof.
  unfold wf_type at 1, check_wf. cbn. intros D a b m H. split_andb.
  split; eapply wf_of_parts; eauto.
Qed.
Lemma wf_lolli : forall D a b m, wf_type D (TLolli a b m) -> wf_type D a /\ wf_type D b.
Proof.
  unfold wf_type at 1, check_wf. cbn. intros D a b m H. split_andb.
  split; eapply wf_of_parts; eauto.
Qed.

Lemma labels_brs_find : forall D bs seen l a, check_labels_brs D seen bs = true -> find_br l bs = Some a -> check_labels D a = true.
Proof.
  induction bs as [|l' a' r IH]; cbn; intros seen l a H Hf; [discriminate|].
  split_andb.
  destruct (String.eqb l l'); [inversion Hf; subst; auto | eauto].
Qed.
Lemma modes_brs_find : forall D bs cur l a, check_modes_brs D cur bs = true -> find_br l bs = Some a -> check_modes D cur a = true.
Proof.
  induction bs as [|l' a' r IH]; cbn; intros cur l a H Hf; [discriminate|].
  split_andb.
  destruct (String.eqb l l'); [inversion Hf; subst; auto | eauto].
Qed.

Definition brs_wf (D : tenv) (bs : brs) : Prop := forall l a, find_br l bs = Some a -> wf_type D a.

Lemma wf_plus : forall D bs m, wf_type D (TPlus bs m) -> brs_wf D bs.
Proof.
  unfold wf_type at 1, check_wf. cbn. intros D bs m H l a Hf.
  split_andb.
  eapply wf_of_parts; [eapply labels_brs_find | eapply modes_brs_find]; eauto.
Qed.
Lemma wf_with : forall D bs m, wf_type D (TWith bs m) -> brs_wf D bs.
Proof.
  unfold wf_type at 1, check_wf. cbn. intros D bs m H l a Hf.
  split_andb.
  eapply wf_of_parts; [eapply labels_brs_find | eapply modes_brs_find]; eauto.
Qed.

Lemma wf_up : forall D f t a, wf_type D (TUp f t a) -> wf_type D a /\ proper f = true /\ proper t = true.
Proof.
  unfold wf_type at 1, check_wf. cbn. unfold mode_ok. intros D f t a H.
  split_andb.
  split; [eapply wf_of_parts; eauto | auto].
Qed.
Lemma wf_down : forall D f t a, wf_type D (TDown f t a) -> wf_type D a /\ proper f = true /\ proper t = true.
Proof.
  unfold wf_type at 1, check_wf. cbn. unfold mode_ok. intros D f t a H.
  split_andb.
  split; [eapply wf_of_parts; eauto | auto].
Qed.
