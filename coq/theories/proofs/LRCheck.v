(* LRCheck.v — the boolean checker of the LR certificate (definitions only; the generic theorems
   that consume `check_cert … = true` are in LRProof.v, the instance for the regenerated tables in
   LRCertInst.v).

   The certificate (gen/LRCert.v, produced by translate/lrcert.py with z3, UNTRUSTED) is
     E     : an edge list over states, closed under the shifts and gotos of the tables,
     wIn, wTop : non-negative weights per state,   C : the cost bound of one shift.
   check_cert verifies, for EVERY state s of the table and EVERY lookahead token the driver can
   compute (look_toks = lex1 of the codes of all token kinds, and lex1 0):
     - every table index computed by `action s tok` is inside its table (action_c is `action` with
       checked accesses; it must agree), likewise `goto` / gritsR2 for the reductions taken;
     - a shift leads along an edge of E, is never on `$end`, and raises Phi by less than C;
     - a reduction by p strictly lowers Phi(stack) = wTop(top) + sum wIn(rest) on every backward
       path of length rlen p in E, and its goto is again an edge of E;
     - accept is taken on `$end` only;
   and globally: edges stay inside the table, weights are >= 0, no state has a shift on the
   `error` token (so goyacc's error-recovery loop pops the whole stack and returns 1: modelled as
   abort in LR.v), real token kinds never translate to `$end`. *)
Require Import Grits.Base Grits.Tokens Grits.gen.LRTables Grits.LR.
Local Open Scope Z_scope.

Definition states : list Z := map Z.of_nat (seq 0 (length tPact)).
Definition in_states (s : Z) : bool := (0 <=? s) && (s <? lenZ tPact).
(* every lookahead the driver can compute *)
Definition look_toks : list Z := lex1 0 :: map (fun k => lex1 (tok_code k)) all_tk.

(* ---- table accesses with an explicit range check (None = Go would panic: index out of range) *)
Definition nth_c (l : list Z) (i : Z) : option Z :=
  if (0 <=? i) && (i <? lenZ l) then Some (nthZ l i) else None.

Fixpoint exca_scan_c (l : list Z) (tok : Z) : option Z :=
  match l with
  | a :: b :: rest => if (a <? 0) || (a =? tok) then Some b else exca_scan_c rest tok
  | _ => None
  end.

Definition action_c (st tok : Z) : option act :=
  match nth_c tPact st with
  | None => None
  | Some n =>
    let shift : option (option Z) :=
        if n <=? tFlag then Some None else
          let n2 := n + tok in
          if (n2 <? 0) || (tLast <=? n2) then Some None else
            match nth_c tAct n2 with
            | None => None
            | Some a => match nth_c tChk a with
                        | None => None
                        | Some c => if c =? tok then Some (Some a) else Some None
                        end
            end in
    match shift with
    | None => None
    | Some (Some a) => Some (AShift a)
    | Some None =>
      match nth_c tDef st with
      | None => None
      | Some d =>
        if d =? -2 then
          match exca_find tExca st with
          | None => None
          | Some rest =>
            match exca_scan_c rest tok with
            | None => None
            | Some d' => if d' <? 0 then Some AAcc else if d' =? 0 then Some AErr else Some (AReduce d')
            end
          end
        else if d =? 0 then Some AErr else Some (AReduce d)
      end
    end
  end.

Definition goto_c (s0 p : Z) : option Z :=
  match nth_c tR1 p with
  | None => None
  | Some n =>
    match nth_c tPgo n with
    | None => None
    | Some g =>
      let j := g + s0 + 1 in
      if tLast <=? j then nth_c tAct g
      else match nth_c tAct j with
           | None => None
           | Some st => match nth_c tChk st with
                        | None => None
                        | Some c => if c =? - n then Some st else nth_c tAct g
                        end
           end
    end
  end.

Definition act_eqb (a b : act) : bool :=
  match a, b with
  | AShift x, AShift y => x =? y
  | AReduce x, AReduce y => x =? y
  | AErr, AErr => true
  | AAcc, AAcc => true
  | _, _ => false
  end.

Definition action_ok (s tok : Z) : bool :=
  match action_c s tok with Some a => act_eqb a (action s tok) | None => false end.
Definition goto_ok (s0 p : Z) : bool :=
  match goto_c s0 p with Some g => g =? goto s0 p | None => false end.
Definition rlen_ok (p : Z) : bool :=
  match nth_c tR2 p with Some k => 0 <=? k | None => false end.

(* the test of the error-recovery loop: does state s shift the `error` token? *)
Definition err_shift (s : Z) : bool :=
  let n := nthZ tPact s + tErrCode in
  (0 <=? n) && (n <? tLast) && (nthZ tChk (nthZ tAct n) =? tErrCode).

Section Cert.
Variable E : list (Z * Z).     (* (s, t): t may sit directly above s *)
Variables wIn wTop : list Z.
Variable C : Z.

Definition sumIn (l : list Z) : Z := fold_right (fun s acc => nthZ wIn s + acc) 0 l.
(* potential of a stack of states (top first) *)
Definition phi (stk : list Z) : Z :=
  match stk with
  | [] => 0
  | t :: rest => nthZ wTop t + sumIn rest
  end.

Definition preds (t : Z) : list Z := map fst (filter (fun e => snd e =? t) E).
Definition inE (s t : Z) : bool := existsb (fun e => (fst e =? s) && (snd e =? t)) E.

(* backward paths: lists [sk; ...; s0] (top first) of length k+1 *)
Fixpoint bpaths (k : nat) (sk : Z) : list (list Z) :=
  match k with
  | O => [[sk]]
  | S k' => flat_map (fun pth => map (fun p => pth ++ [p]) (preds (last pth (-1)))) (bpaths k' sk)
  end.

Definition check_path (p : Z) (pth : list Z) : bool :=
  match rev pth with
  | [] => false
  | s0 :: _ =>
    let g := goto s0 p in
    goto_ok s0 p && inE s0 g && (phi [g; s0] + 1 <=? phi pth)
  end.

Definition check_state (s : Z) : bool :=
  forallb (fun tok =>
    action_ok s tok &&
    match action s tok with
    | AShift t => inE s t && negb (tok =? tEofCode) && (nthZ wIn s - nthZ wTop s + nthZ wTop t <? C)
    | AReduce p => rlen_ok p && forallb (check_path p) (bpaths (rlen p) s)
    | AAcc => tok =? tEofCode
    | AErr => true
    end) look_toks.

Definition check_cert : bool :=
  forallb check_state states &&
  forallb (fun e => in_states (fst e) && in_states (snd e)) E &&
  forallb (fun w => 0 <=? w) wIn && forallb (fun w => 0 <=? w) wTop &&
  forallb (fun s => negb (err_shift s)) states &&
  in_states 0 && (0 <=? C) && (lex1 0 =? tEofCode) &&
  forallb (fun k => tk_eqb k T_EOF || tk_eqb k T_ILLEGAL || negb (lex1 (tok_code k) =? tEofCode)) all_tk.
End Cert.
