(* RtEffect.v — how `apply_effect`, `put_msg`, `del_proc` act on the run-time typing of a
   configuration: one generic lemma (`apply_effect_typed`) that every transition of one process is
   an instance of.  Nothing here depends on the particular forms. *)
From stdpp Require Import gmap strings.
Require Import Grits.Base Grits.ModeDefs Grits.Modes Grits.STypes Grits.Forms Grits.Subst Grits.TcDeps Grits.Expand
               Grits.Runtime Grits.spec.RtTyping Grits.proofs.RtSubst.

(* ------------------------------------------------------------------ identifiers *)
Lemma snoc_eq_inv (q self : list nat) (m j : nat) (l : list nat) :
  q ++ m :: l = self ++ [j] ->
  (l = [] /\ q = self /\ m = j) \/ (exists l', l = l' ++ [j] /\ self = q ++ m :: l').
Proof.
  intros H. destruct (exists_last (l := m :: l)) as [l0 [z Hl0]]; [discriminate|].
  rewrite Hl0 in H. rewrite app_assoc in H. apply app_inj_tail in H. destruct H as [H ->].
  destruct l0 as [|a l0]; simpl in Hl0.
  - left. injection Hl0 as -> ->. rewrite app_nil_r in H. auto.
  - right. injection Hl0 as -> Hl. exists l0. split; auto.
Qed.

Lemma app_cons_ne_self (q : list nat) (m : nat) (l : list nat) : q ++ m :: l <> q.
Proof. intros H. apply (f_equal length) in H. rewrite app_length in H. simpl in H. lia. Qed.

(* ------------------------------------------------------------------ add_spawns *)
Lemma add_spawns_snd self n ss m : snd (add_spawns self n ss m) = (n + length ss)%nat.
Proof. revert n m. induction ss as [|s r IH]; intros n m; simpl; [lia|]. rewrite IH. lia. Qed.

Lemma add_spawns_lookup self n ss m q pq :
  fst (add_spawns self n ss m) !! q = Some pq ->
  (exists i s, ss !! i = Some s /\ q = self ++ [(n + i)%nat] /\ pq = Proc (sp_provs s) (sp_body s) 0) \/
  m !! q = Some pq.
Proof.
  revert n m. induction ss as [|s r IH]; intros n m; simpl; [auto|].
  intros H. apply IH in H. destruct H as [[i [s' [H1 [H2 H3]]]]|H].
  - left. exists (S i), s'. split; auto. split; auto. rewrite H2. f_equal. f_equal. lia.
  - apply lookup_insert_Some in H. destruct H as [[<- <-]|[_ H]]; auto.
    left. exists 0%nat, s. split; auto. split; auto. f_equal. f_equal. lia.
Qed.

Lemma add_spawns_lookup_None self n ss m q :
  m !! q = None -> (forall i, (i < length ss)%nat -> q <> self ++ [(n + i)%nat]) ->
  fst (add_spawns self n ss m) !! q = None.
Proof.
  intros Hm Hq. destruct (fst (add_spawns self n ss m) !! q) as [pq|] eqn:E; auto.
  apply add_spawns_lookup in E. destruct E as [[i [s [H1 [H2 _]]]]|E]; [|congruence].
  exfalso. eapply Hq; eauto. eapply lookup_lt_Some; eauto.
Qed.

(* ------------------------------------------------------------------ channel tables *)
Definition new_chans (cm : gmap cid chan_st) (l : list cid) : gmap cid chan_st :=
  foldr (fun ch m => <[ ch := empty_chan ]> m) cm l.
Definition close_chans (cm : gmap cid chan_st) (l : list cid) : gmap cid chan_st :=
  foldr (fun ch m => match m !! ch with
                     | Some st => <[ ch := Chan (ch_buf st) true ]> m
                     | None => m
                     end) cm l.

Lemma new_chans_lookup cm l k st : new_chans cm l !! k = Some st ->
  (k ∈ l /\ st = empty_chan) \/ cm !! k = Some st.
Proof.
  induction l as [|a l IH]; simpl; auto. intros H. apply lookup_insert_Some in H.
  destruct H as [[<- <-]|[_ H]]; [left; split; auto; set_solver|].
  apply IH in H. destruct H as [[H1 H2]|H]; auto. left. split; auto. set_solver.
Qed.
Lemma new_chans_is_Some cm l k : is_Some (cm !! k) \/ k ∈ l -> is_Some (new_chans cm l !! k).
Proof.
  induction l as [|a l IH]; simpl.
  - intros [H|H]; auto. set_solver.
  - intros H. destruct (decide (a = k)) as [->|Hne]; [rewrite lookup_insert; eauto|].
    rewrite lookup_insert_ne by auto. apply IH. destruct H as [H|H]; auto. right. set_solver.
Qed.
Lemma close_chans_lookup cm l k st : close_chans cm l !! k = Some st ->
  exists st0, cm !! k = Some st0 /\ ch_buf st = ch_buf st0.
Proof.
  revert st. induction l as [|a l IH]; simpl; intros st; [eauto|].
  destruct (close_chans cm l !! a) as [sa|] eqn:Ea; [|apply IH].
  intros H. apply lookup_insert_Some in H. destruct H as [[<- <-]|[_ H]]; [|apply IH; auto].
  apply IH in Ea. destruct Ea as [st0 [H1 H2]]. exists st0. simpl. auto.
Qed.
Lemma close_chans_is_Some cm l k : is_Some (cm !! k) -> is_Some (close_chans cm l !! k).
Proof.
  induction l as [|a l IH]; simpl; auto. intros H. specialize (IH H).
  destruct (close_chans cm l !! a) as [sa|] eqn:Ea; auto.
  destruct (decide (a = k)) as [->|Hne]; [rewrite lookup_insert; eauto|]. rewrite lookup_insert_ne; auto.
Qed.

Section RtEffect.
Variable D : tenv.
Variable F : list fundef.
Variable teq : sty -> sty -> Prop.

Local Notation proc_typed := (proc_typed D F teq).
Local Notation msg_typed := (msg_typed D teq).
Local Notation cfg_typed := (cfg_typed D F teq).

Lemma proc_typed_next Δ ps b n n' : proc_typed Δ (Proc ps b n) -> proc_typed Δ (Proc ps b n').
Proof. intros [s [rs H]]. exists s, rs. exact H. Qed.

(* what an effect of process `self` (in state p) must satisfy to keep the configuration typed *)
Definition eff_base (p : proc) (e : effect) : nat :=
  match e_after e with Continue p' => pr_next p' | Finish => pr_next p end.

Definition eff_typed (Δ Δ' : gmap cid sty) (self : pid) (p : proc) (e : effect) : Prop :=
  Δ ⊆ Δ' /\
  (forall k, is_Some (Δ' !! k) -> is_Some (Δ !! k) \/ k ∈ e_newch e) /\
  (forall k, k ∈ e_newch e ->
     exists j, k = self ++ [j] /\ (pr_next p <= j < eff_base p e + length (e_newch e))%nat) /\
  (pr_next p <= eff_base p e)%nat /\
  match e_after e with Continue p' => proc_typed Δ' p' | Finish => True end /\
  Forall (fun s => proc_typed Δ' (Proc (sp_provs s) (sp_body s) 0)) (e_spawn e).

Lemma apply_effect_typed Δ Δ' c self p e :
  cfg_typed Δ c -> procs c !! self = Some p -> eff_typed Δ Δ' self p e ->
  cfg_typed Δ' (apply_effect c self p e).
Proof.
  intros [Hp Hm Hd Hf] Hself [Hsub [Hdom [Hnew [Hle [Hp' Hsp]]]]].
  unfold apply_effect. fold (eff_base p e).
  destruct (add_spawns self (eff_base p e + length (e_newch e)) (e_spawn e) (procs c)) as [pm next1] eqn:Eas.
  assert (Epm : pm = fst (add_spawns self (eff_base p e + length (e_newch e)) (e_spawn e) (procs c))) by (rewrite Eas; auto).
  assert (Enx : next1 = (eff_base p e + length (e_newch e) + length (e_spawn e))%nat).
  { pose proof (add_spawns_snd self (eff_base p e + length (e_newch e)) (e_spawn e) (procs c)) as H.
    rewrite Eas in H. exact H. }
  fold (new_chans (chans c) (e_newch e)). fold (close_chans (new_chans (chans c) (e_newch e)) (e_close e)).
  set (pm' := match e_after e with
              | Continue p' => <[self := Proc (pr_provs p') (pr_body0 p') next1]> pm
              | Finish => delete self pm
              end).
  (* the processes of the new configuration *)
  assert (Hlook : forall q pq, pm' !! q = Some pq ->
             (q = self /\ exists p', e_after e = Continue p' /\ pq = Proc (pr_provs p') (pr_body0 p') next1) \/
             (q <> self /\ exists i s, e_spawn e !! i = Some s /\
                 q = self ++ [(eff_base p e + length (e_newch e) + i)%nat] /\ pq = Proc (sp_provs s) (sp_body s) 0) \/
             (q <> self /\ procs c !! q = Some pq)).
  { intros q pq H. unfold pm' in H. destruct (e_after e) as [p'|] eqn:Ea.
    - apply lookup_insert_Some in H. destruct H as [[<- <-]|[Hne H]]; [left; eauto|].
      right. rewrite Epm in H. apply add_spawns_lookup in H. destruct H as [H|H]; auto.
    - apply lookup_delete_Some in H. destruct H as [Hne H].
      right. rewrite Epm in H. apply add_spawns_lookup in H. destruct H as [H|H]; auto. }
  assert (Hnone : forall q, q <> self -> pm !! q = None -> pm' !! q = None).
  { intros q Hne H. unfold pm'. destruct (e_after e); [rewrite lookup_insert_ne|rewrite lookup_delete_ne]; auto. }
  split; cbn [procs chans out].
  - (* processes *)
    intros q pq H. apply Hlook in H. destruct H as [[-> [p' [Ea ->]]]|[[_ [i [s [H1 [_ ->]]]]]|[_ H]]].
    + rewrite Ea in Hp'. destruct p' as [ps b nx]. simpl. eapply proc_typed_next; eauto.
    + exact (Forall_lookup_1 _ _ _ _ Hsp H1).
    + eapply proc_typed_weaken; eauto.
  - (* messages *)
    intros k st m H Hb. apply close_chans_lookup in H. destruct H as [st0 [H Hb0]].
    rewrite Hb0 in Hb. apply new_chans_lookup in H. destruct H as [[_ ->]|H]; [discriminate|].
    eapply msg_typed_weaken; eauto.
  - (* domain *)
    intros k H. apply close_chans_is_Some. apply new_chans_is_Some. apply Hdom in H. destruct H; auto.
  - (* namespaces *)
    intros q pq m l H Hm'. cbn [procs] in *. apply Hlook in H.
    assert (Hold : forall q0 pq0 m0 l0, procs c !! q0 = Some pq0 -> (pr_next pq0 <= m0)%nat ->
               Δ' !! (q0 ++ m0 :: l0) = None ->
               q0 ++ m0 :: l0 <> self ->
               (forall i, (i < length (e_spawn e))%nat ->
                          q0 ++ m0 :: l0 <> self ++ [(eff_base p e + length (e_newch e) + i)%nat]) ->
               Δ' !! (q0 ++ m0 :: l0) = None /\ pm' !! (q0 ++ m0 :: l0) = None).
    { intros q0 pq0 m0 l0 H0 Hm0 HD Hns Hsp0. split; auto.
      apply Hnone; auto. rewrite Epm. apply add_spawns_lookup_None; auto.
      apply (Hf q0 pq0 m0 l0 H0 Hm0). }
    assert (HD' : forall k, Δ !! k = None -> k ∉ e_newch e -> Δ' !! k = None).
    { intros k H1 H2. destruct (Δ' !! k) eqn:E; auto. exfalso.
      destruct (Hdom k) as [Hx|Hx]; eauto. rewrite H1 in Hx. destruct Hx; discriminate. }
    destruct H as [[-> [p' [Ea ->]]]|[[Hne [i [s [H1 [-> ->]]]]]|[Hne H]]]; simpl in *.
    + (* self *)
      assert (Eb : eff_base p e = pr_next p') by (unfold eff_base; rewrite Ea; auto).
      apply (Hold self p m l Hself); [lia| |apply app_cons_ne_self|].
      * apply HD'; [apply (Hf self p m l Hself); lia|].
        intros Hin. apply Hnew in Hin. destruct Hin as [j [Hj Hj2]].
        apply app_inv_head in Hj. destruct l; [|discriminate]. injection Hj as ->. lia.
      * intros i Hi Heq. apply app_inv_head in Heq. destruct l; [|discriminate]. injection Heq as ->. lia.
    + (* a spawned process *)
      set (j := (eff_base p e + length (e_newch e) + i)%nat).
      assert (Hj : (pr_next p <= j)%nat) by (unfold j; lia).
      rewrite <- app_assoc. simpl.
      apply (Hold self p j (m :: l) Hself Hj).
      * apply HD'; [apply (Hf self p j (m :: l) Hself Hj)|].
        intros Hin. apply Hnew in Hin. destruct Hin as [j' [Hj' _]].
        apply app_inv_head in Hj'. discriminate.
      * apply app_cons_ne_self.
      * intros i' _ Heq. apply app_inv_head in Heq. discriminate.
    + (* another process *)
      assert (Hns : forall j, q ++ m :: l <> self ++ [j]).
      { intros j Heq. apply snoc_eq_inv in Heq. destruct Heq as [[_ [Hq _]]|[l' [_ Hq]]]; [contradiction|].
        destruct (Hf q pq m l' H Hm') as [_ Hx]. rewrite <- Hq in Hx. pose proof (eq_trans (eq_sym Hself) Hx) as Hc. discriminate Hc. }
      apply (Hold q pq m l H Hm').
      * apply HD'; [apply (Hf q pq m l H Hm')|].
        intros Hin. apply Hnew in Hin. destruct Hin as [j [Hj _]]. eapply Hns; eauto.
      * intros Heq. destruct (Hf q pq m l H Hm') as [_ Hx]. rewrite Heq in Hx.
        pose proof (eq_trans (eq_sym Hself) Hx) as Hc. discriminate Hc.
      * intros i _. apply Hns.
Qed.

(* taking the message out of a buffer / putting one in *)
Lemma put_none_typed Δ c k st : cfg_typed Δ c -> chans c !! k = Some st ->
  cfg_typed Δ (put_msg c k st None).
Proof.
  intros [Hp Hm Hd Hf] Hk. unfold put_msg. split; cbn [procs chans out]; auto.
  - intros k' st' m H Hb. apply lookup_insert_Some in H. destruct H as [[<- <-]|[_ H]]; [discriminate|eauto].
  - intros k' H. destruct (decide (k = k')) as [->|Hne]; [rewrite lookup_insert; eauto|].
    rewrite lookup_insert_ne; auto.
Qed.

Lemma send_typed_cfg Δ c self k st m : cfg_typed Δ c -> chans c !! k = Some st -> msg_typed Δ k m ->
  cfg_typed Δ (del_proc (put_msg c k st (Some m)) self).
Proof.
  intros [Hp Hm Hd Hf] Hk Hmsg. unfold del_proc, put_msg. split; cbn [procs chans out].
  - intros q pq H. apply lookup_delete_Some in H. destruct H. eauto.
  - intros k' st' m' H Hb. apply lookup_insert_Some in H. destruct H as [[<- <-]|[_ H]]; [|eauto].
    simpl in Hb. injection Hb as <-. exact Hmsg.
  - intros k' H. destruct (decide (k = k')) as [->|Hne]; [rewrite lookup_insert; eauto|].
    rewrite lookup_insert_ne; auto.
  - intros q pq m' l H Hm'. cbn [procs chans out] in *. apply lookup_delete_Some in H. destruct H as [_ H].
    destruct (Hf q pq m' l H Hm') as [H1 H2]. split; auto.
    destruct (decide (self = q ++ m' :: l)) as [->|Hne]; [apply lookup_delete|].
    rewrite lookup_delete_ne; auto.
Qed.

Lemma del_proc_typed Δ c self : cfg_typed Δ c -> cfg_typed Δ (del_proc c self).
Proof.
  intros [Hp Hm Hd Hf]. unfold del_proc. split; cbn [procs chans out]; auto.
  - intros q pq H. apply lookup_delete_Some in H. destruct H. eauto.
  - intros q pq m' l H Hm'. cbn [procs chans out] in *. apply lookup_delete_Some in H. destruct H as [_ H].
    destruct (Hf q pq m' l H Hm') as [H1 H2]. split; auto.
    destruct (decide (self = q ++ m' :: l)) as [->|Hne]; [apply lookup_delete|].
    rewrite lookup_delete_ne; auto.
Qed.

End RtEffect.

(* ------------------------------------------------------------------ synchronous mode: nothing is ever buffered (untyped) *)
Definition buffers_empty (c : config) : Prop :=
  forall k st, chans c !! k = Some st -> ch_buf st = None.

Lemma apply_effect_buffers c self p e : buffers_empty c -> buffers_empty (apply_effect c self p e).
Proof.
  intros Hb k st. unfold apply_effect.
  destruct (add_spawns self _ (e_spawn e) (procs c)) as [pm next1].
  cbn [chans].
  fold (new_chans (chans c) (e_newch e)). fold (close_chans (new_chans (chans c) (e_newch e)) (e_close e)).
  intros H. apply close_chans_lookup in H. destruct H as [st0 [H Hb0]]. rewrite Hb0.
  apply new_chans_lookup in H. destruct H as [[_ ->]|H]; [reflexivity|eauto].
Qed.

Lemma put_none_buffers c k st : buffers_empty c -> buffers_empty (put_msg c k st None).
Proof.
  intros Hb k' st'. unfold put_msg. cbn [chans]. intros H.
  apply lookup_insert_Some in H. destruct H as [[_ <-]|[_ H]]; [reflexivity|eauto].
Qed.

Lemma del_proc_buffers c s : buffers_empty c -> buffers_empty (del_proc c s).
Proof. intros Hb k st. unfold del_proc. cbn [chans]. apply Hb. Qed.

Lemma eff_step_buffers c self p r c' : buffers_empty c -> eff_step c self p r = SStep c' -> buffers_empty c'.
Proof. intros Hb. unfold eff_step. destruct r; [|discriminate]. intros [= <-]. apply apply_effect_buffers; auto. Qed.

Lemma sync_step_buffers D F c ch c' : buffers_empty c -> step Sync D F c ch = SStep c' -> buffers_empty c'.
Proof.
  intros Hb. destruct ch as [self|s r|f t]; simpl.
  - destruct (procs c !! self) as [p|]; [|discriminate].
    destruct (action_of Sync D p); try discriminate.
    + apply eff_step_buffers; auto.
    + apply eff_step_buffers; auto.
    + destruct (chans c !! c0) as [st|]; [|discriminate]. destruct (ch_closed st); [discriminate|].
      destruct (ch_buf st); discriminate.
    + destruct (chans c !! c0) as [st|]; [|discriminate]. destruct (ch_buf st).
      * apply eff_step_buffers. apply put_none_buffers; auto.
      * destruct (ch_closed st); [|discriminate]. apply eff_step_buffers; auto.
  - destruct (bool_decide (s = r)); [discriminate|].
    destruct (procs c !! s) as [ps|]; [|discriminate]. destruct (procs c !! r) as [pr|]; [|discriminate].
    destruct (action_of Sync D ps); try discriminate. destruct (action_of Sync D pr); try discriminate.
    destruct (bool_decide (c0 = c1)); [|discriminate].
    destruct (chans c !! c0) as [st|]; [|discriminate]. destruct (ch_closed st); [discriminate|].
    apply eff_step_buffers. apply del_proc_buffers; auto.
  - discriminate.
Qed.
