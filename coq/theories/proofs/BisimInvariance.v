(* proofs/BisimInvariance.v — bisimilarity (spec/TypEq.v) looks at the environment through tlookup
   only, and is invariant under injective renaming of type names and labels.  With TypingBisim.v this
   closes the type-level parts of the verdict half of C14. *)
Require Import Grits.Base Grits.ModeDefs Grits.Modes Grits.STypes Grits.Forms Grits.TcDeps Grits.Tc Grits.TcTop
               Grits.EqualWF Grits.spec.SynOk Grits.spec.Typing Grits.proofs.TcLemmas
               Grits.proofs.TypingVerdict Grits.proofs.TypingBisim
               Grits.proofs.EquivarianceTypes Grits.proofs.TypePerm Grits.proofs.VerdictInvariant.
Require Grits.spec.TypEq.
Require Import Coq.Sorting.Permutation.

(* the two `head` relations (spec/Typing.v and spec/TypEq.v) are the same relation *)
Lemma head_bridge D t h : Typing.head D t h <-> TypEq.head D t h.
Proof.
  split; induction 1.
  - now apply TypEq.head_struct.
  - eapply TypEq.head_name; eauto.
  - now apply Typing.head_here.
  - eapply Typing.head_step; eauto.
Qed.

(* ---------------------------------------------------------------- order of the definitions *)
Lemma bisim_env_invariant : teq_env_invariant teq_bisim.
Proof.
  intros D D' s t EQ [R [Rst C]]. exists R. split; auto.
  intros a b Rab. destruct (C _ _ Rab) as [h1 [h2 [H1 [H2 SH]]]]. exists h1, h2. repeat split; auto.
  - apply head_bridge. apply (head_ext D D' EQ). now apply head_bridge.
  - apply head_bridge. apply (head_ext D D' EQ). now apply head_bridge.
Qed.

Lemma prog_syn_with_types p D' : Permutation (p_types p) D' -> prog_syn_ok p = true -> prog_syn_ok (with_types p D') = true.
Proof.
  intros P S. unfold prog_syn_ok in *. cbn [p_types p_funs p_procs p_assumed with_types].
  apply andb_true_iff in S. destruct S as [S SA]. apply andb_true_iff in S. destruct S as [S SP].
  apply andb_true_iff in S. destruct S as [SE SF]. rewrite SF, SP, SA, !andb_true_r.
  unfold env_syn in *. rewrite forallb_forall in *. intros d Hd. apply SE.
  eapply Permutation_in; [apply Permutation_sym; exact P|exact Hd].
Qed.

Theorem verdict_invariant_type_order_closed p D' : prog_syn_ok p = true -> Permutation (p_types p) D' ->
  (accepts p <-> accepts (with_types p D')).
Proof.
  intros S P. rewrite (tc_verdict_bisim p S), (tc_verdict_bisim _ (prog_syn_with_types p D' P S)). split.
  - apply typing_type_perm; auto. exact bisim_env_invariant.
  - intros OK. apply Permutation_sym in P.
    pose proof (typing_type_perm teq_bisim bisim_env_invariant (with_types p D') (p_types p) P OK) as OK'.
    destruct p. exact OK'.
Qed.

(* ---------------------------------------------------------------- type names and labels *)
Section Ren.
Variables rt rl : string -> string.
Hypothesis rt_inj : forall a b, rt a = rt b -> a = b.
Hypothesis rl_inj : forall a b, rl a = rl b -> a = b.
Notation T := (rent_ty rt rl).
Notation TB := (rent_brs rt rl).

Lemma find_br_rent_inv : forall bs l' a', find_br l' (TB bs) = Some a' ->
  exists l a, l' = rl l /\ find_br l bs = Some a /\ a' = T a.
Proof.
  induction bs as [|l0 a0 r IH]; cbn; intros l' a' H; [discriminate|].
  destruct (String.eqb l' (rl l0)) eqn:E.
  - apply String.eqb_eq in E. inversion H; subst. exists l0, a0. rewrite String.eqb_refl. auto.
  - destruct (IH _ _ H) as [l [a [-> [F ->]]]]. exists l, a. rewrite (eqb_rl rl rl_inj) in E. rewrite E. auto.
Qed.

Lemma brs_sim_rent (R : sty -> sty -> Prop) bs cs : TypEq.brs_sim R bs cs ->
  TypEq.brs_sim (fun s' t' => exists s t, s' = T s /\ t' = T t /\ R s t) (TB bs) (TB cs).
Proof.
  intros [N S]. split.
  - intros l'. split; intros H.
    + destruct (find_br l' (TB cs)) as [c'|] eqn:F; auto.
      destruct (find_br_rent_inv _ _ _ F) as [l [c [-> [Fc ->]]]].
      rewrite (find_br_rent rt rl rl_inj) in H. destruct (find_br l bs) eqn:Fb; [discriminate|].
      apply N in Fb. congruence.
    + destruct (find_br l' (TB bs)) as [b'|] eqn:F; auto.
      destruct (find_br_rent_inv _ _ _ F) as [l [b [-> [Fb ->]]]].
      rewrite (find_br_rent rt rl rl_inj) in H. destruct (find_br l cs) eqn:Fc; [discriminate|].
      apply N in Fc. congruence.
  - intros l' a' c' Fa Fc.
    destruct (find_br_rent_inv _ _ _ Fa) as [l [a [-> [Fa0 ->]]]].
    rewrite (find_br_rent rt rl rl_inj) in Fc. destruct (find_br l cs) as [c|] eqn:Fc0; [|discriminate].
    cbn in Fc. inversion Fc; subst. exists a, c. repeat split; auto. eapply S; eauto.
Qed.

Lemma bisim_equivariant : teq_equivariant teq_bisim rt rl.
Proof.
  intros D s t [R [Rst C]].
  exists (fun s' t' => exists s t, s' = T s /\ t' = T t /\ R s t). split; [exists s, t; auto|].
  intros s' t' [a [b [-> [-> Rab]]]]. destruct (C _ _ Rab) as [h1 [h2 [H1 [H2 SH]]]].
  exists (T h1), (T h2). repeat split.
  - apply head_bridge. apply (head_rent rt rl rt_inj). now apply head_bridge.
  - apply head_bridge. apply (head_rent rt rl rt_inj). now apply head_bridge.
  - destruct SH; cbn [rent_ty]; constructor; eauto using brs_sim_rent.
Qed.
End Ren.

Theorem verdict_invariant_types_closed rt rt' rl rl' p :
  prog_syn_ok p = true -> prog_syn_ok (rent_program rt rl p) = true ->
  bijection_t rt rt' -> bijection_t rl rl' ->
  (accepts p <-> accepts (rent_program rt rl p)).
Proof.
  intros S S' [A1 A2] [B1 B2]. rewrite (tc_verdict_bisim p S), (tc_verdict_bisim _ S').
  apply (typing_equivariant_types teq_bisim rt rt' rl rl'); try (split; assumption).
  - apply bisim_equivariant; eapply bijection_t_inj; eauto.
  - apply bisim_equivariant; eapply bijection_t_inj; eauto.
Qed.
